(* C12 — GenzCornerPeak over the rationals: vectorised = scalar; the sum over the 2^dim sign combinations of
   getAnalyticSolutionIntegral is the iterated difference (`stencil`) of s |-> 1/s. *)
From Coq Require Import ZArith List QArith Qcanon Bool Arith Lia.
From SG Require Import Base.QcUtil Model.FunPoly Model.FunGenz Proofs.FunPolyProofs.
Import ListNotations.
Open Scope Qc_scope.

Lemma cp_sum_dot cs : forall x acc, length x = length cs -> cp_sum cs x acc = IVal (acc + dotQ x cs).
Proof.
  induction cs as [|c cs IH]; intros [|xi x] acc H; try discriminate; cbn [cp_sum dotQ].
  - f_equal. ring.
  - rewrite IH by (simpl in H; lia). f_equal. ring.
Qed.

(* scalar path = vectorised path *)
Theorem cp_vectorized_eq_scalar cs x : length x = length cs -> cp_eval cs x = cp_vec_row cs x.
Proof.
  intro H. unfold cp_eval, cp_vec_row. rewrite cp_sum_dot by exact H. rewrite H, Nat.eqb_refl. reflexivity.
Qed.

Lemma sumQ_flat_pair (F : list bool -> Qc) (l : list (list bool)) :
  sumQ (map F (flat_map (fun c => [false :: c; true :: c]) l)) = sumQ (map (fun c => F (false :: c) + F (true :: c)) l).
Proof. induction l as [|c l IH]; cbn [flat_map map sumQ app]; [reflexivity|]. rewrite IH. ring. Qed.

Lemma sumQ_map_ext {A} (f g : A -> Qc) l : (forall x, f x = g x) -> sumQ (map f l) = sumQ (map g l).
Proof. intro E. induction l as [|x l IH]; cbn [map sumQ]; [reflexivity|]. rewrite E, IH. reflexivity. Qed.

Lemma sumQ_map_sub {A} (f g : A -> Qc) l : sumQ (map (fun x => f x - g x) l) = sumQ (map f l) - sumQ (map g l).
Proof. induction l as [|x l IH]; cbn [map sumQ]; [ring | rewrite IH; ring]. Qed.

Lemma minus1_pow_S n : minus1_pow (S n) = - minus1_pow n.
Proof. unfold minus1_pow. cbn [Qcpower]. ring. Qed.

Lemma count_true_cons b c : count_true (b :: c) = if b then S (count_true c) else count_true c.
Proof. unfold count_true. destruct b; reflexivity. Qed.

(* the sum over all sign combinations = (-1)^dim * prod(c) * iterated difference of 1/s *)
Theorem combo_sum_stencil cs : forall a b s, length a = length cs -> length b = length cs ->
  Forall (fun c => c <> 0) cs ->
  cp_combo_sum cs a b s = minus1_pow (length cs) * prodQ cs * stencil Qcinv s cs a b.
Proof.
  unfold cp_combo_sum. induction cs as [|c cs IH]; intros [|ai a] [|bi b] s Ha Hb Hnz; try discriminate.
  - cbn. unfold minus1_pow. cbn. ring.
  - inversion Hnz as [|? ? Hc Hnz']; subst.
    cbn [length combos]. rewrite sumQ_flat_pair.
    rewrite (sumQ_map_ext _ (fun c0 => minus1_pow (count_true c0) * / cp_partial cs a b c0 (s + bi * c)
                                       - minus1_pow (count_true c0) * / cp_partial cs a b c0 (s + ai * c))).
    2:{ intro c0. rewrite !count_true_cons. cbn [cp_partial]. rewrite minus1_pow_S. ring. }
    rewrite sumQ_map_sub.
    rewrite (IH a b (s + bi * c)), (IH a b (s + ai * c)) by (simpl in *; try lia; assumption).
    cbn [stencil prodQ]. rewrite minus1_pow_S.
    replace (s + c * ai) with (s + ai * c) by ring. replace (s + c * bi) with (s + bi * c) by ring.
    field. exact Hc.
Qed.

Lemma prodQ_nonzero cs : prodQ cs <> 0 -> Forall (fun c => c <> 0) cs.
Proof.
  induction cs as [|c cs IH]; intro H; constructor.
  - intro E. apply H. cbn [prodQ]. rewrite E. ring.
  - apply IH. intro E. apply H. cbn [prodQ]. rewrite E. ring.
Qed.

Lemma Qc_is0_false q : Qc_is0 q = false -> q <> 0.
Proof. unfold Qc_is0. intros H E. subst. discriminate. Qed.

Lemma minus1_pow_sq n : minus1_pow n * minus1_pow n = 1.
Proof.
  induction n as [|n IH]; [unfold minus1_pow; cbn; ring|]. rewrite minus1_pow_S.
  transitivity (minus1_pow n * minus1_pow n); [ring | exact IH].
Qed.

Lemma qn_fact_neq0 n : qn (fact_nat n) <> 0.
Proof.
  assert (H : exists k, fact_nat n = S k).
  { induction n as [|n [k Hk]]; [exists 0%nat; reflexivity|]. cbn [fact_nat]. rewrite Hk. exists (k + n * S k)%nat. lia. }
  destruct H as [k ->]. apply qn_S_neq0.
Qed.

(* the value returned by getAnalyticSolutionIntegral, whenever it returns one *)
Theorem cp_int_stencil cs a b v : cp_int cs a b = IVal v ->
  length a = length cs /\ length b = length cs /\ Forall (fun c => c <> 0) cs /\
  v = stencil Qcinv 1 cs a b / qn (fact_nat (length cs)).
Proof.
  unfold cp_int. destruct (Nat.eqb (length a) (length cs)) eqn:Ea; [|discriminate].
  destruct (Nat.eqb (length b) (length cs)) eqn:Eb; [|discriminate]. cbn [andb].
  destruct (Qc_is0 (prodQ cs)) eqn:Ep; [discriminate|]. cbn [orb].
  destruct (negb (cp_all_nonzero cs a b)); [discriminate|]. intro H. injection H as <-.
  apply Nat.eqb_eq in Ea. apply Nat.eqb_eq in Eb. apply Qc_is0_false in Ep.
  pose proof (prodQ_nonzero cs Ep) as Hnz. repeat split; try assumption.
  rewrite (combo_sum_stencil cs a b 1 Ea Eb Hnz).
  pose proof (minus1_pow_sq (length cs)) as Hsq. pose proof (qn_fact_neq0 (length cs)) as Hf.
  transitivity ((minus1_pow (length cs) * minus1_pow (length cs)) * stencil Qcinv 1 cs a b / qn (fact_nat (length cs))).
  - field. split; assumption.
  - rewrite Hsq. field. assumption.
Qed.
