(* C17: re-using old right-hand sides (find_closest_old_B, domain matching, data bins, hand-over in post_processing)
   is transparent for EVERY history of grids on one object. *)
From Coq Require Import ZArith List QArith Qcanon Bool Arith Lia.
From SG Require Import Base.QcUtil Model.Gram Model.DEReuse Proofs.GramHat Proofs.GramPD Proofs.GramNorm Proofs.DECacheP
  Proofs.DEPaths.
Import ListNotations.
Open Scope Qc_scope.

(* ------------------------------------------------------------------ dictionaries *)
Lemma dict_set_in {K V} (eqb : K -> K -> bool) k v (d : list (K * V)) e : In e (dict_set eqb k v d) -> e = (k, v) \/ In e d.
Proof.
  induction d as [|[k' v'] r IH]; cbn [dict_set]; intro H.
  - destruct H as [H|[]]. left. symmetry. exact H.
  - destruct (eqb k k').
    + destruct H as [H|H]; [left; symmetry; exact H | right; right; exact H].
    + destruct H as [H|H]; [right; left; exact H|]. destruct (IH H) as [E|E]; [left; exact E | right; right; exact E].
Qed.

Lemma dict_get_in {K V} (eqb : K -> K -> bool) k (d : list (K * V)) v :
  dict_get eqb k d = Some v -> exists k', eqb k k' = true /\ In (k', v) d.
Proof.
  induction d as [|[k' v'] r IH]; cbn [dict_get]; intro H; [discriminate|].
  destruct (eqb k k') eqn:E.
  - injection H as H. subst. exists k'. split; [exact E | left; reflexivity].
  - destruct (IH H) as [k2 [E2 I2]]. exists k2. split; [exact E2 | right; exact I2].
Qed.

Lemma dom_key_eqb_eq a b : dom_key_eqb a b = true -> a = b.
Proof.
  destruct a as [a1 a2], b as [b1 b2]. unfold dom_key_eqb. cbn [fst snd]. intro H.
  apply andb_true_iff in H. destruct H as [H1 H2]. apply Qc_eqb_eq in H1. apply Qc_eqb_eq in H2. subst. reflexivity.
Qed.

(* ------------------------------------------------------------------ sums over selected sample indices *)
Lemma signed_sum_as_index_sum : forall vals signs,
  signed_sum signs vals = sumQ (map (fun k => nth k vals 0 * sign_of signs k) (seq 0 (length vals))).
Proof.
  induction vals as [|v vr IH]; intro signs; [reflexivity|].
  cbn [length]. rewrite <- cons_seq, <- seq_shift. cbn [map sumQ]. rewrite map_map.
  destruct signs as [|s sr]; cbn [signed_sum].
  - rewrite (IH []). unfold sign_of. cbn [nth]. f_equal; [destruct (0%nat); ring|].
    f_equal. apply map_ext. intro k. cbn [nth]. destruct k; reflexivity.
  - rewrite (IH sr). unfold sign_of. cbn [nth]. reflexivity.
Qed.

Lemma sumQ_filter_zero (f : nat -> Qc) (P : nat -> bool) l :
  (forall k, In k l -> P k = false -> f k = 0) -> sumQ (map f (filter P l)) = sumQ (map f l).
Proof.
  induction l as [|a l IH]; intro H; [reflexivity|].
  cbn [filter]. destruct (P a) eqn:E; cbn [map sumQ].
  - rewrite IH; [reflexivity|]. intros k Hk. apply H. right. exact Hk.
  - rewrite IH; [|intros k Hk; apply H; right; exact Hk]. rewrite (H a (or_introl eq_refl) E). ring.
Qed.

(* ------------------------------------------------------------------ the scan of find_data_in_domain *)
Lemma scan_spec : forall vals i lo hi lower upper,
  let '(L, U) := scan vals i lo hi lower upper in
  (L <= lower)%nat /\ (upper <= U)%nat /\
  forall j v, nth_error vals j = Some v -> (lo <= v -> (L <= i + j)%nat) /\ (v <= hi -> (i + j <= U)%nat).
Proof.
  induction vals as [|v0 r IH]; intros i lo hi lower upper.
  - cbn [scan]. split; [lia|]. split; [lia|]. intros j v H. destruct j; discriminate.
  - cbn [scan].
    set (lower' := if Qc_leb lo v0 && (i <? lower)%nat then i else lower).
    set (upper' := if Qc_leb v0 hi && (upper <? i)%nat then i else upper).
    specialize (IH (S i) lo hi lower' upper').
    destruct (scan r (S i) lo hi lower' upper') as [L U]. destruct IH as [I1 [I2 I3]].
    assert (A1 : (lower' <= lower)%nat).
    { unfold lower'. destruct (Qc_leb lo v0); cbn [andb]; [|lia]. destruct (i <? lower)%nat eqn:E; [apply Nat.ltb_lt in E; lia | lia]. }
    assert (A2 : (upper <= upper')%nat).
    { unfold upper'. destruct (Qc_leb v0 hi); cbn [andb]; [|lia]. destruct (upper <? i)%nat eqn:E; [apply Nat.ltb_lt in E; lia | lia]. }
    split; [lia|]. split; [lia|].
    intros j v H. destruct j as [|j].
    + cbn [nth_error] in H. injection H as H. subst v0. split; intro Hv.
      * assert (lower' <= i)%nat; [|lia]. unfold lower'. apply Qc_leb_le in Hv. rewrite Hv. cbn [andb].
        destruct (i <? lower)%nat eqn:E; [lia | apply Nat.ltb_ge in E; lia].
      * assert (i <= upper')%nat; [|lia]. unfold upper'. apply Qc_leb_le in Hv. rewrite Hv. cbn [andb].
        destruct (upper <? i)%nat eqn:E; [lia | apply Nat.ltb_ge in E; lia].
    + cbn [nth_error] in H. destruct (I3 j v H) as [B1 B2]. split; intro Hv; [specialize (B1 Hv) | specialize (B2 Hv)]; lia.
Qed.

Lemma scan_range_covers vals lo hi j v :
  nth_error vals j = Some v -> lo <= v -> v <= hi ->
  (fst (scan_range vals lo hi) <= j)%nat /\ (j < snd (scan_range vals lo hi))%nat.
Proof.
  intros Hj H1 H2. unfold scan_range.
  pose proof (scan_spec vals 0 lo hi (length vals) 0) as S.
  destruct (scan vals 0 lo hi (length vals) 0) as [L U]. destruct S as [_ [_ S]].
  destruct (S j v Hj) as [A B]. specialize (A H1). specialize (B H2). cbn [fst snd].
  assert (j < length vals)%nat by (apply nth_error_Some; rewrite Hj; discriminate).
  split; lia.
Qed.

(* ------------------------------------------------------------------ slices *)
Lemma nth_error_skipn' {A} : forall a (l : list A) i, nth_error (skipn a l) i = nth_error l (a + i).
Proof.
  induction a as [|a IH]; intros l i; [reflexivity|].
  destruct l as [|x l]; cbn [skipn]; [destruct i; reflexivity|]. rewrite IH. reflexivity.
Qed.
Lemma nth_error_firstn' {A} : forall n (l : list A) i, (i < n)%nat -> nth_error (firstn n l) i = nth_error l i.
Proof.
  induction n as [|n IH]; intros l i H; [lia|].
  destruct l as [|x l]; [reflexivity|]. destruct i as [|i]; [reflexivity|]. cbn [firstn nth_error]. apply IH. lia.
Qed.

Lemma in_slice {A} (l : list A) a b i x : nth_error l i = Some x -> (a <= i)%nat -> (i < b)%nat -> In x (slice l (a, b)).
Proof.
  intros H Ha Hb. unfold slice. cbn [fst snd].
  assert (E : nth_error (skipn a l) (i - a) = Some x).
  { rewrite nth_error_skipn'. replace (a + (i - a))%nat with i by lia. exact H. }
  assert (E2 : nth_error (firstn (b - a) (skipn a l)) (i - a) = Some x).
  { rewrite nth_error_firstn' by lia. exact E. }
  apply nth_error_In in E2. exact E2.
Qed.

Lemma mem_nat_in k l : In k l -> mem_nat k l = true.
Proof.
  induction l as [|j r IH]; intro H; [destruct H|]. destruct H as [H|H]; cbn [mem_nat].
  - subst. rewrite Nat.eqb_refl. reflexivity.
  - rewrite (IH H). apply orb_true_r.
Qed.

Section Reuse.
Variables (data : list (list Qc)) (signs : list Qc) (perms : list (list nat)).

(* the specification of one right-hand-side entry *)
Definition Fv (t : list hatdom) : Qc := signed_sum signs (map (hat_nd hat_cv t) data) * (1 / qc_of_nat (length data)).

Lemma rhs_is_map_Fv pts : rhs pts data signs = map Fv pts.
Proof. reflexivity. Qed.

(* every sample index occurs in every index list (np.argsort yields a permutation) *)
Definition perms_complete : Prop := forall pm, In pm perms -> forall k, (k < length data)%nat -> In k pm.

(* a stored bin covers every sorted position whose sample lies strictly inside the interval *)
Definition covers (d : nat) (pm : list nat) (e : (Qc * Qc) * (nat * nat)) : Prop :=
  forall i k, nth_error pm i = Some k -> fst (fst e) < coord data k d -> coord data k d < snd (fst e) ->
              (fst (snd e) <= i)%nat /\ (i < snd (snd e))%nat.

Fixpoint bins_ok_from (d : nat) (pms : list (list nat)) (bs : list binmap) : Prop :=
  match pms, bs with
  | pm :: pms', bm :: bs' => (forall e, In e bm -> covers d pm e) /\ bins_ok_from (S d) pms' bs'
  | _, [] => True
  | [], _ :: _ => False
  end.

Lemma bins_ok_repeat_nil : forall n d pms, length pms = n -> bins_ok_from d pms (repeat [] n).
Proof.
  induction n as [|n IH]; intros d pms H; destruct pms as [|pm pms]; try discriminate; cbn; [exact I|].
  split; [intros e []|]. apply IH. cbn in H. lia.
Qed.

(* ranges computed by find_data_in_domain cover, and storing them keeps the bins covering *)
Lemma data_ranges_cover : forall doms d pms bs, bins_ok_from d pms bs ->
  Forall2 (fun r dp => covers (fst dp) (snd (snd dp)) (fst (snd dp), r))
          (data_ranges data d doms pms bs)
          (firstn (length (data_ranges data d doms pms bs))
                  (combine (seq d (length doms)) (combine doms pms))).
Proof.
  induction doms as [|dm doms IH]; intros d pms bs Hok; [constructor|].
  destruct pms as [|pm pms]; [constructor|]. destruct bs as [|bm bs]; [constructor|].
  cbn [data_ranges length seq combine firstn]. destruct Hok as [Hbm Hok]. constructor; [|apply IH; exact Hok].
  cbn [fst snd]. destruct (dict_get dom_key_eqb dm bm) as [r|] eqn:E.
  - apply dict_get_in in E. destruct E as [k' [E1 E2]]. apply dom_key_eqb_eq in E1. subst k'. apply (Hbm _ E2).
  - intros i k Hi H1 H2. cbn [fst snd] in *.
    apply (scan_range_covers (map (fun k0 => coord data k0 d) pm) (fst dm) (snd dm) i (coord data k d)).
    + rewrite nth_error_map, Hi. reflexivity.
    + apply Qclt_le_weak. exact H1.
    + apply Qclt_le_weak. exact H2.
Qed.

Lemma store_ranges_ok : forall doms d pms bs rs, bins_ok_from d pms bs ->
  Forall2 (fun r dp => covers (fst dp) (snd (snd dp)) (fst (snd dp), r)) rs
          (firstn (length rs) (combine (seq d (length doms)) (combine doms pms))) ->
  bins_ok_from d pms (store_ranges doms rs bs).
Proof.
  induction doms as [|dm doms IH]; intros d pms bs rs Hok Hr; [exact Hok|].
  destruct rs as [|r rs]; [destruct bs; exact Hok|]. destruct bs as [|bm bs]; [exact Hok|].
  destruct pms as [|pm pms]; [destruct Hok|].
  cbn [store_ranges]. cbn [length seq combine firstn] in Hr. inversion Hr as [|? ? ? ? Hr1 Hr2]; subst.
  destruct Hok as [Hbm Hok]. cbn [bins_ok_from]. split.
  - intros e He. apply dict_set_in in He. destruct He as [He|He]; [subst e; exact Hr1 | apply Hbm; exact He].
  - apply IH; assumption.
Qed.

(* every sample that lies strictly inside the support box is selected *)
Lemma find_data_selects bs doms k : perms_complete -> bins_ok_from 0 perms bs -> (k < length data)%nat ->
  (forall n dm, nth_error doms n = Some dm -> fst dm < coord data k n /\ coord data k n < snd dm) ->
  In k (fst (find_data data perms bs doms)) /\ bins_ok_from 0 perms (snd (find_data data perms bs doms)).
Proof.
  intros Hc Hok Hk Hin. unfold find_data. cbn [fst snd].
  pose proof (data_ranges_cover doms 0 perms bs Hok) as Hcov.
  split; [|apply store_ranges_ok; assumption].
  apply filter_In. split; [apply in_seq; lia|].
  apply forallb_forall. intros sl Hsl.
  remember (data_ranges data 0 doms perms bs) as rs eqn:Ers. clear Ers.
  (* generalise over the starting dimension *)
  assert (G : forall doms d pms rs,
             (forall pm, In pm pms -> In k pm) ->
             (forall n dm, nth_error doms n = Some dm -> fst dm < coord data k (d + n) /\ coord data k (d + n) < snd dm) ->
             Forall2 (fun r dp => covers (fst dp) (snd (snd dp)) (fst (snd dp), r)) rs
                     (firstn (length rs) (combine (seq d (length doms)) (combine doms pms))) ->
             forall sl, In sl (map2 (fun pm r => slice pm r) pms rs) -> mem_nat k sl = true).
  { clear. intros doms. induction doms as [|dm doms IH]; intros d pms rs Hpm Hin Hcov sl Hsl.
    - destruct rs as [|r rs]; [destruct pms; destruct Hsl|]. cbn in Hcov. inversion Hcov.
    - destruct pms as [|pm pms]; [destruct Hsl|]. destruct rs as [|r rs]; [destruct Hsl|].
      cbn [map2] in Hsl. cbn [length seq combine firstn] in Hcov. inversion Hcov as [|? ? ? ? C1 C2]; subst.
      destruct Hsl as [Hsl|Hsl].
      + subst sl. apply mem_nat_in. cbn [fst snd] in C1.
        destruct (In_nth_error pm k (Hpm pm (or_introl eq_refl))) as [i Hi].
        destruct (Hin 0%nat dm eq_refl) as [H1 H2]. rewrite Nat.add_0_r in H1, H2.
        destruct (C1 i k Hi H1 H2) as [A B]. cbn [fst snd] in A, B. destruct r as [a b]. apply (in_slice pm a b i k Hi A B).
      + apply (IH (S d) pms rs); [intros pm' Hp; apply Hpm; right; exact Hp | | exact C2 | exact Hsl].
        intros n dm' Hn. specialize (Hin (S n) dm' Hn). replace (S d + n)%nat with (d + S n)%nat by lia. exact Hin. }
  apply (G doms 0%nat perms rs); try assumption.
  intros pm Hpm. apply Hc; assumption.
Qed.

(* ------------------------------------------------------------------ a recomputed entry is the specified entry *)
Lemma hat_nd_nonzero_inside : forall (t : list hatdom) (x : list Qc), Forall proper t -> length x = length t ->
  hat_nd hat_scalar t x <> 0 ->
  forall n u, nth_error t n = Some u -> h_lo u < nth n x 0 /\ nth n x 0 < h_hi u.
Proof.
  unfold hat_nd. induction t as [|u0 t IH]; intros x Hp Hl Hnz n u Hn; [destruct n; discriminate|].
  destruct x as [|x0 x]; [discriminate|]. inversion Hp as [|? ? P0 P]; subst.
  cbn [map2 prodQ] in Hnz. destruct n as [|n].
  - cbn [nth_error] in Hn. injection Hn as Hn. subst u0. cbn [nth].
    destruct (Qcle_or_lt x0 (h_lo u)) as [A|A].
    + exfalso. apply Hnz. rewrite (hat_scalar_outside u x0 P0 (or_introl A)). ring.
    + destruct (Qcle_or_lt (h_hi u) x0) as [B|B].
      * exfalso. apply Hnz. rewrite (hat_scalar_outside u x0 P0 (or_intror B)). ring.
      * split; assumption.
  - cbn [nth_error] in Hn. cbn [nth]. apply (IH x P); [cbn in Hl; lia | | exact Hn].
    intro E. apply Hnz. rewrite E. ring.
Qed.

Lemma recomputed_correct bs t : perms_complete -> bins_ok_from 0 perms bs -> Forall proper t ->
  Forall (fun x => length x = length t) data ->
  fst (recomputed data signs perms bs t) = Fv t /\ bins_ok_from 0 perms (snd (recomputed data signs perms bs t)).
Proof.
  intros Hc Hok Hp Hd. unfold recomputed.
  set (doms := map (fun u => (h_lo u, h_hi u)) t).
  destruct (find_data data perms bs doms) as [idx bs'] eqn:E. cbn [fst snd].
  split.
  - unfold Fv. f_equal. rewrite signed_sum_as_index_sum. rewrite map_length.
    assert (Eidx : idx = fst (find_data data perms bs doms)) by (rewrite E; reflexivity).
    unfold find_data in Eidx. cbn [fst] in Eidx. rewrite Eidx.
    set (P := fun k => forallb (mem_nat k) (map2 (fun pm r => slice pm r) perms (data_ranges data 0 doms perms bs))).
    rewrite (sumQ_filter_zero (fun k => hat_nd hat_scalar t (nth k data []) * sign_of signs k) P).
    + f_equal. apply map_ext_in. intros k Hk. apply in_seq in Hk.
      f_equal. rewrite (nth_indep _ 0 (hat_nd hat_cv t [])) by (rewrite map_length; lia).
      rewrite (map_nth (hat_nd hat_cv t)). symmetry. apply hat_nd_cv_scalar. exact Hp.
    + intros k Hk HP. apply in_seq in Hk.
      destruct (Qc_eqb (hat_nd hat_scalar t (nth k data [])) 0) eqn:Z; [apply Qc_eqb_eq in Z; rewrite Z; ring|].
      exfalso. apply Qc_eqb_false in Z.
      assert (Hx : length (nth k data []) = length t).
      { rewrite Forall_forall in Hd. apply Hd. apply nth_In. lia. }
      pose proof (hat_nd_nonzero_inside t (nth k data []) Hp Hx Z) as Hin.
      assert (Hsel : In k (fst (find_data data perms bs doms))).
      { apply find_data_selects; [exact Hc | exact Hok | lia |].
        intros n dm Hn. unfold doms in Hn. rewrite nth_error_map in Hn.
        destruct (nth_error t n) as [u|] eqn:En; [|discriminate]. injection Hn as Hn. subst dm. cbn [fst snd].
        unfold coord. apply (Hin n u En). }
      unfold find_data in Hsel. cbn [fst] in Hsel. apply filter_In in Hsel. destruct Hsel as [_ Hsel].
      unfold P in HP. rewrite Hsel in HP. discriminate.
  - assert (Ebs : bs' = snd (find_data data perms bs doms)) by (rewrite E; reflexivity).
    rewrite Ebs. unfold find_data. cbn [snd]. apply store_ranges_ok; [exact Hok|]. apply data_ranges_cover. exact Hok.
Qed.

(* ------------------------------------------------------------------ a copied entry is the specified entry *)
Lemma window_unique xs : strictly_inc xs -> forall u y, In u (windows xs) -> In y xs -> h_lo u < y -> y < h_hi u -> y = h_p u.
Proof.
  induction xs as [|x0 xs IH]; intros Hs u y Hu Hy H1 H2; [destruct Hu|].
  destruct xs as [|x1 [|x2 r]]; try (destruct Hu; fail).
  change (windows (x0 :: x1 :: x2 :: r)) with (mkH x0 x1 x2 :: windows (x1 :: x2 :: r)) in Hu.
  assert (Hs' : strictly_inc (x1 :: x2 :: r)) by apply Hs.
  destruct Hu as [Hu|Hu].
  - subst u. cbn [h_lo h_p h_hi] in *. destruct Hy as [Hy|[Hy|Hy]].
    + subst y. exfalso. apply (Qc_lt_neq _ _ H1). reflexivity.
    + symmetry. exact Hy.
    + exfalso. (* y is x2 or later: y >= x2 *)
      assert (G : forall z zs, strictly_inc (z :: zs) -> forall w, In w (z :: zs) -> z <= w).
      { clear. intros z zs; revert z; induction zs as [|z1 zs IHz]; intros z Hz w [Hw|Hw].
        - subst. apply Qcle_refl.
        - destruct Hw.
        - subst. apply Qcle_refl.
        - apply Qcle_trans with z1; [apply Qclt_le_weak; apply Hz | apply IHz; [apply Hz | exact Hw]]. }
      assert (x2 <= y) by (apply (G x2 r); [apply Hs' | exact Hy]).
      apply (Qclt_not_le _ _ H2). assumption.
  - destruct Hy as [Hy|Hy].
    + subst y. exfalso. pose proof (windows_lo_ge x1 (x2 :: r) Hs' u Hu) as G.
      apply (Qclt_not_le _ _ H1). apply Qcle_trans with x1; [apply Qclt_le_weak; apply Hs | exact G].
    + apply IH; assumption.
Qed.
End Reuse.

(* ------------------------------------------------------------------ copied entries *)
Lemma windows_p_in xs : forall w, In w (windows xs) -> In (h_p w) xs.
Proof.
  induction xs as [|x0 xs IH]; intros w Hw; [destruct Hw|].
  destruct xs as [|x1 [|x2 r]]; try (destruct Hw; fail).
  change (windows (x0 :: x1 :: x2 :: r)) with (mkH x0 x1 x2 :: windows (x1 :: x2 :: r)) in Hw.
  destruct Hw as [Hw|Hw]; [subst w; right; left; reflexivity | right; apply IH; exact Hw].
Qed.

Lemma find_first_spec {A} (f : A -> bool) : forall l j, find_first f l = Some j -> exists u, nth_error l j = Some u /\ f u = true.
Proof.
  induction l as [|a l IH]; intros j H; [discriminate|]. cbn [find_first] in H.
  destruct (f a) eqn:E.
  - injection H as H. subst j. exists a. split; [reflexivity | exact E].
  - destruct (find_first f l) as [j'|]; [|discriminate]. injection H as H. subst j.
    destruct (IH j' eq_refl) as [u [H1 H2]]. exists u. split; [exact H1 | exact H2].
Qed.

Lemma hatdom_eq (a b : hatdom) : h_lo a = h_lo b -> h_p a = h_p b -> h_hi a = h_hi b -> a = b.
Proof. destruct a, b. cbn. intros; subst; reflexivity. Qed.

(* a new hat whose point exists in the old grid and whose support equals the support of an old hat IS that old hat *)
Lemma matched_hat_is_same : forall stripes ost t u w,
  Forall good_stripe stripes -> Forall good_stripe ost ->
  Forall2 (fun a l => In a l) t (map stripe_hats stripes) ->
  Forall2 (fun a l => In a l) u (map stripe_hats ost) ->
  Forall2 (fun a l => In a l) w (map stripe_hats ost) ->
  dom_eqb t u = true -> pt_eqb t w = true -> t = u.
Proof.
  induction stripes as [|s stripes IH]; intros ost t u w Hg Hgo Ht Hu Hw Hd Hp.
  - inversion Ht; subst. destruct u; [reflexivity | discriminate].
  - cbn [map] in Ht. inversion Ht as [|td ? t' ? Htd Ht']; subst.
    destruct u as [|ud u']; [discriminate|]. destruct w as [|wd w']; [discriminate|].
    destruct ost as [|os ost]; [inversion Hu|]. cbn [map] in Hu, Hw.
    inversion Hu as [|? ? ? ? Hud Hu']; subst. inversion Hw as [|? ? ? ? Hwd Hw']; subst.
    inversion Hg as [|? ? Hgs Hg']; subst. inversion Hgo as [|? ? Hgos Hgo']; subst.
    unfold dom_eqb in Hd. cbn [forallb2] in Hd. apply andb_true_iff in Hd. destruct Hd as [Hd1 Hd2].
    apply andb_true_iff in Hd1. destruct Hd1 as [Hlo Hhi]. apply Qc_eqb_eq in Hlo. apply Qc_eqb_eq in Hhi.
    unfold pt_eqb in Hp. cbn [forallb2] in Hp. apply andb_true_iff in Hp. destruct Hp as [Hp1 Hp2]. apply Qc_eqb_eq in Hp1.
    f_equal; [|apply (IH ost t' u' w'); assumption].
    destruct Hgs as [Hs [H0 H1]]. destruct Hgos as [Hos [Ho0 Ho1]].
    rewrite (stripe_hats_windows s H0 H1) in Htd. rewrite (stripe_hats_windows os Ho0 Ho1) in Hud, Hwd.
    pose proof (windows_proper s Hs td Htd) as [Pl Pr].
    apply hatdom_eq; [exact Hlo | | exact Hhi].
    apply (window_unique os Hos ud (h_p td) Hud).
    + rewrite Hp1. apply windows_p_in. exact Hwd.
    + rewrite <- Hlo. exact Pl.
    + rewrite <- Hhi. exact Pr.
Qed.

Section Reuse2.
Variables (data : list (list Qc)) (signs : list Qc) (perms : list (list nat)).
Notation Fv := (Fv data signs).

Lemma copied_correct stripes ost t :
  Forall good_stripe stripes -> Forall good_stripe ost -> In t (grid_hats stripes) ->
  copied_value (grid_hats ost) (map Fv (grid_hats ost)) t = 0 \/
  copied_value (grid_hats ost) (map Fv (grid_hats ost)) t = Fv t.
Proof.
  intros Hg Hgo Ht. unfold copied_value.
  destruct (existsb (pt_eqb t) (grid_hats ost)) eqn:Ex; [|left; reflexivity].
  destruct (find_first (dom_eqb t) (grid_hats ost)) as [j|] eqn:Ef; [|left; reflexivity].
  right. apply find_first_spec in Ef. destruct Ef as [u [Hj Hd]].
  apply existsb_exists in Ex. destruct Ex as [w [Hw Hp]].
  assert (Hu : In u (grid_hats ost)) by (apply nth_error_In with j; exact Hj).
  assert (E : t = u).
  { apply (matched_hat_is_same stripes ost t u w); try assumption; apply in_cross_Forall2; assumption. }
  subst u. rewrite (nth_indep _ 0 (Fv t)).
  - rewrite map_nth. f_equal. apply nth_error_nth. exact Hj.
  - rewrite map_length. apply nth_error_Some. rewrite Hj. discriminate.
Qed.

Lemma grid_hats_length stripes t : In t (grid_hats stripes) -> length t = length stripes.
Proof.
  intro H. apply in_cross_Forall2 in H. apply Forall2_length' in H. rewrite map_length in H. exact H.
Qed.

Lemma reuse_entries_correct stripes ost : perms_complete data perms ->
  Forall good_stripe stripes -> Forall good_stripe ost -> Forall (fun x => length x = length stripes) data ->
  forall hats bs, (forall t, In t hats -> In t (grid_hats stripes)) -> bins_ok_from data 0 perms bs ->
  fst (reuse_entries data signs perms (grid_hats ost) (map Fv (grid_hats ost)) bs hats) = map Fv hats /\
  bins_ok_from data 0 perms (snd (reuse_entries data signs perms (grid_hats ost) (map Fv (grid_hats ost)) bs hats)).
Proof.
  intros Hc Hg Hgo Hd. induction hats as [|t r IH]; intros bs Hin Hok; [split; [reflexivity | exact Hok]|].
  cbn [reuse_entries].
  assert (Ht : In t (grid_hats stripes)) by (apply Hin; left; reflexivity).
  assert (Hp : Forall proper t) by (apply (grid_hats_proper stripes t Hg Ht)).
  assert (Hd' : Forall (fun x => length x = length t) data) by (rewrite (grid_hats_length stripes t Ht); exact Hd).
  set (c := copied_value (grid_hats ost) (map Fv (grid_hats ost)) t).
  assert (Hv : fst (if Qc_eqb c 0 then recomputed data signs perms bs t else (c, bs)) = Fv t /\
               bins_ok_from data 0 perms (snd (if Qc_eqb c 0 then recomputed data signs perms bs t else (c, bs)))).
  { destruct (Qc_eqb c 0) eqn:E.
    - apply recomputed_correct; assumption.
    - cbn [fst snd]. split; [|exact Hok]. apply Qc_eqb_false in E.
      destruct (copied_correct stripes ost t Hg Hgo Ht) as [Z|Z]; [exfalso; apply E; exact Z | exact Z]. }
  destruct (if Qc_eqb c 0 then recomputed data signs perms bs t else (c, bs)) as [v bs1]. cbn [fst snd] in Hv.
  destruct Hv as [Hv1 Hv2].
  specialize (IH bs1 (fun t' Ht' => Hin t' (or_intror Ht')) Hv2).
  destruct (reuse_entries data signs perms (grid_hats ost) (map Fv (grid_hats ost)) bs1 r) as [vs bs2]. cbn [fst snd] in *.
  destruct IH as [I1 I2]. split; [rewrite Hv1, I1; reflexivity | exact I2].
Qed.

(* ------------------------------------------------------------------ the state invariant and one evaluation *)
Definition entries_ok (d : bdict) : Prop :=
  forall e, In e d -> Forall good_stripe (fst (snd e)) /\ snd (snd e) = rhs (grid_hats (fst (snd e))) data signs.
Definition Inv (st : bstate) : Prop := entries_ok (oldB st) /\ entries_ok (newB st) /\ bins_ok_from data 0 perms (bins st).

Lemma rhs_plain_is_rhs thr stripes : Forall good_stripe stripes -> Forall (fun x => length x = length stripes) data ->
  rhs_plain thr data signs stripes = rhs (grid_hats stripes) data signs.
Proof.
  intros Hg Hd. unfold rhs_plain. destruct (length (grid_hats stripes) <? thr)%nat; [reflexivity|].
  apply rhs_large_eq_rhs; assumption.
Qed.

Lemma find_closest_in old stripes e : find_closest old stripes = Some e -> In e old.
Proof.
  unfold find_closest. destruct old as [|e0 old]; [discriminate|]. intro H. apply nth_error_In in H. exact H.
Qed.

Lemma calc_B_correct thr st key stripes : perms_complete data perms -> Inv st ->
  Forall good_stripe stripes -> Forall (fun x => length x = length stripes) data ->
  fst (calc_B thr data signs perms st key stripes) = rhs (grid_hats stripes) data signs /\
  Inv (snd (calc_B thr data signs perms st key stripes)).
Proof.
  intros Hc [Io [In_ Ib]] Hg Hd. unfold calc_B.
  assert (G : forall b bs, b = rhs (grid_hats stripes) data signs -> bins_ok_from data 0 perms bs ->
              fst (b, mkB (oldB st) (dict_set zlist_eqb key (stripes, b) (newB st)) bs) = rhs (grid_hats stripes) data signs /\
              Inv (snd (b, mkB (oldB st) (dict_set zlist_eqb key (stripes, b) (newB st)) bs))).
  { intros b bs Eb Hb. cbn [fst snd]. split; [exact Eb|]. unfold Inv. cbn [oldB newB bins]. split; [exact Io|]. split; [|exact Hb].
    intros e He. apply dict_set_in in He. destruct He as [He|He]; [subst e; cbn [fst snd]; split; assumption | apply In_; exact He]. }
  destruct (thr <=? length (grid_hats stripes))%nat.
  - destruct (find_closest (oldB st) stripes) as [[k [ost ob]]|] eqn:Ef.
    + apply find_closest_in in Ef. destruct (Io _ Ef) as [Hgo Eob]. cbn [fst snd] in Hgo, Eob.
      rewrite (rhs_is_map_Fv data signs) in Eob. subst ob.
      pose proof (reuse_entries_correct stripes ost Hc Hg Hgo Hd (grid_hats stripes) (bins st) (fun t H => H) Ib) as [R1 R2].
      destruct (reuse_entries data signs perms (grid_hats ost) (map Fv (grid_hats ost)) (bins st) (grid_hats stripes)) as [b bs].
      cbn [fst snd] in R1, R2. apply G; [rewrite R1; reflexivity | exact R2].
    + apply G; [apply rhs_plain_is_rhs; assumption | exact Ib].
  - apply G; [apply rhs_plain_is_rhs; assumption | exact Ib].
Qed.

Lemma post_inv st : Inv st -> Inv (post st).
Proof. intros [Io [In_ Ib]]. unfold Inv, post. cbn [oldB newB bins]. split; [exact In_|]. split; [intros e []| exact Ib]. Qed.

(* the grids of a history are tensor grids over strictly increasing stripes of [0,1] in the dimension of the data *)
Fixpoint good_events (evs : list event) : Prop :=
  match evs with
  | [] => True
  | EGrid _ stripes :: r => (Forall good_stripe stripes /\ Forall (fun x => length x = length stripes) data) /\ good_events r
  | EPost :: r => good_events r
  end.
Fixpoint spec_events (evs : list event) : list (list Qc) :=
  match evs with
  | [] => []
  | EGrid _ stripes :: r => rhs (grid_hats stripes) data signs :: spec_events r
  | EPost :: r => spec_events r
  end.

Theorem run_reuse_correct thr : perms_complete data perms -> forall evs st, Inv st -> good_events evs ->
  fst (run_reuse thr data signs perms st evs) = spec_events evs /\ Inv (snd (run_reuse thr data signs perms st evs)).
Proof.
  intro Hc. induction evs as [|ev evs IH]; intros st Hi Hg; [split; [reflexivity | exact Hi]|].
  destruct ev as [key stripes|]; cbn [run_reuse spec_events good_events] in *.
  - destruct Hg as [[Hg1 Hg2] Hg3].
    pose proof (calc_B_correct thr st key stripes Hc Hi Hg1 Hg2) as [C1 C2].
    destruct (calc_B thr data signs perms st key stripes) as [b st1]. cbn [fst snd] in C1, C2.
    specialize (IH st1 C2 Hg3). destruct (run_reuse thr data signs perms st1 evs) as [bs st2]. cbn [fst snd] in *.
    destruct IH as [I1 I2]. split; [rewrite C1, I1; reflexivity | exact I2].
  - apply IH; [apply post_inv; exact Hi | exact Hg].
Qed.

Lemma run_plain_is_spec thr : forall evs, good_events evs -> run_plain thr data signs evs = spec_events evs.
Proof.
  induction evs as [|ev evs IH]; intro Hg; [reflexivity|].
  destruct ev as [key stripes|]; cbn [run_plain spec_events good_events] in *.
  - destruct Hg as [[Hg1 Hg2] Hg3]. rewrite (rhs_plain_is_rhs thr stripes Hg1 Hg2), (IH Hg3). reflexivity.
  - apply IH. exact Hg.
Qed.

Lemma Inv_initial dim : length perms = dim -> Inv (bstate0 dim).
Proof.
  intro H. unfold Inv, bstate0. cbn [oldB newB bins]. split; [intros e []|]. split; [intros e []|].
  apply bins_ok_repeat_nil. exact H.
Qed.

(* MAIN: every history on one object, any threshold: the right-hand sides computed with re-use are the right-hand sides
   computed without, and both are the sample means of the hats *)
Theorem reuse_transparent_for_every_history thr evs :
  perms_complete data perms -> good_events evs ->
  fst (run_reuse thr data signs perms (bstate0 (length perms)) evs) = run_plain thr data signs evs /\
  run_plain thr data signs evs = spec_events evs.
Proof.
  intros Hc Hg. pose proof (run_reuse_correct thr Hc evs (bstate0 (length perms)) (Inv_initial _ eq_refl) Hg) as [R _].
  rewrite (run_plain_is_spec thr evs Hg). split; [exact R | reflexivity].
Qed.

(* the same from any state whose old entries are right and whose bins cover (soundness basis of the bins checker) *)
Theorem reuse_transparent_from_consistent_state thr evs st :
  perms_complete data perms -> Inv st -> good_events evs ->
  fst (run_reuse thr data signs perms st evs) = run_plain thr data signs evs.
Proof.
  intros Hc Hi Hg. pose proof (run_reuse_correct thr Hc evs st Hi Hg) as [R _]. rewrite (run_plain_is_spec thr evs Hg). exact R.
Qed.
End Reuse2.

(* ------------------------------------------------------------------ soundness of the per-run checkers *)
Lemma in_combine_seq {A} : forall (l : list A) s j k, nth_error l j = Some k -> In ((s + j)%nat, k) (combine (seq s (length l)) l).
Proof.
  induction l as [|a l IH]; intros s j k H; [destruct j; discriminate|].
  cbn [length seq combine]. destruct j as [|j].
  - cbn in H. injection H as H. subst. left. rewrite Nat.add_0_r. reflexivity.
  - right. replace (s + S j)%nat with (S s + j)%nat by lia. apply IH. exact H.
Qed.

Lemma bin_covers_sound data d pm e : bin_covers data d pm e = true -> covers data d pm e.
Proof.
  destruct e as [[lo hi] [a b]]. unfold bin_covers, covers. cbn [fst snd]. intros H i k Hi H1 H2.
  rewrite forallb_forall in H. specialize (H (i, k)). cbn beta iota in H.
  pose proof (in_combine_seq pm 0 i k Hi) as Hin. cbn [Nat.add] in Hin. specialize (H Hin).
  apply Qc_ltb_lt in H1. apply Qc_ltb_lt in H2. rewrite H1, H2 in H. cbn [andb negb orb] in H.
  apply andb_true_iff in H. destruct H as [A B]. apply Nat.leb_le in A. apply Nat.ltb_lt in B. split; assumption.
Qed.

Theorem check_bins_sound data perms bs : check_bins data perms bs = true -> bins_ok_from data 0 perms bs.
Proof.
  unfold check_bins. generalize 0%nat. revert bs. induction perms as [|pm perms IH]; intros bs d H.
  - destruct bs; [exact I | discriminate].
  - destruct bs as [|bm bs]; [exact I|]. cbn [check_bins_from] in H. apply andb_true_iff in H. destruct H as [H1 H2].
    cbn [bins_ok_from]. split; [|apply IH; exact H2].
    intros e He. apply bin_covers_sound. rewrite forallb_forall in H1. apply H1. exact He.
Qed.

Lemma mem_nat_true k l : mem_nat k l = true -> In k l.
Proof.
  induction l as [|j r IH]; cbn [mem_nat]; intro H; [discriminate|].
  apply orb_true_iff in H. destruct H as [H|H]; [left; apply Nat.eqb_eq in H; symmetry; exact H | right; apply IH; exact H].
Qed.

Theorem check_perms_sound data perms : check_perms data perms = true -> perms_complete data perms.
Proof.
  unfold check_perms, perms_complete. intros H pm Hpm k Hk. rewrite forallb_forall in H. specialize (H pm Hpm).
  rewrite forallb_forall in H. apply mem_nat_true. apply H. apply in_seq. lia.
Qed.

(* what an accepted set of bins guarantees: an object whose data bins are these (and whose stored old right-hand sides
   are right) computes, for every further history, the right-hand sides of the run without re-use *)
Theorem checked_bins_are_safe data signs perms bs thr evs old :
  check_bins data perms bs = true -> check_perms data perms = true -> entries_ok data signs old -> good_events data evs ->
  fst (run_reuse thr data signs perms (mkB old [] bs) evs) = run_plain thr data signs evs.
Proof.
  intros Hb Hp Ho Hg. apply reuse_transparent_from_consistent_state; [apply check_perms_sound; exact Hp | | exact Hg].
  unfold Inv. cbn [oldB newB bins]. split; [exact Ho|]. split; [intros e []|]. apply check_bins_sound. exact Hb.
Qed.
