(* C11 — BalancedExtrapolationGrid on the complete dyadic grid of depth m: exactness degree 2m-1 for EVERY m.
   The first column of the tableau holds the composite MIDPOINT rules M_0 .. M_(m-1) (the tree built from the complete
   grid is the complete cell tree); their error on x^p is an even polynomial in the step width without constant term
   (midpoint rule = 2 T_(j+1) - T_j, Proofs/RombergEM.v); extrapolation column k multiplies the coefficient of h^(2l) by
   (4^k - 4^l)/(4^k - 1), i.e. kills l = k and keeps the zeros; after m-1 columns nothing is left for p <= 2m-1. *)
From Coq Require Import ZArith List QArith Qcanon Bool Arith Lia.
From SG Require Import Base.QcUtil Model.Romberg Proofs.RombergBasics Proofs.RombergCoeff Proofs.RombergTree
  Proofs.RombergSliced Proofs.RombergBalanced Proofs.RombergExact Proofs.RombergGrouped Proofs.RombergFuel Proofs.RombergSimpson
  Proofs.RombergAnnihilate Proofs.RombergEM Proofs.RombergDegree Proofs.RombergComplete Proofs.RombergForced.
Import ListNotations.
Open Scope Qc_scope.

Local Notation hf := (/ (1 + 1)).

(* ---------------------------------------------------------------------------------------------- *)
(* power sums through the dictionary operations of the balanced grid *)

Lemma wpow_scale p c d : wpow p (scale_dict c d) = c * wpow p d.
Proof. induction d as [|[k v] d IH]; simpl; [ring | rewrite IH; ring]. Qed.

Definition ck (k : nat) : Qc := (- (1)) / (Qc4 ^ k - 1).

Lemma extrapolate_one_step_wpow p L T k :
  wpow p (extrapolate_one_step L T k) = (1 - ck k) * wpow p L + ck k * wpow p T.
Proof. unfold extrapolate_one_step. rewrite dict_of_wpow, wpow_app, !wpow_scale. reflexivity. Qed.

Lemma dict_set_new_wpow p k v d : ~ In k (map fst d) -> wpow p (dict_set k v d) = v * k ^ p + wpow p d.
Proof.
  induction d as [|[k' v'] d IH]; simpl; intro H; [ring|].
  destruct (Qc_eqb k k') eqn:E.
  - apply Qc_eqb_eq in E. exfalso. apply H. left. symmetry. exact E.
  - destruct (Qc_ltb k k'); simpl; [ring|]. rewrite (IH (fun I => H (or_intror I))). ring.
Qed.

Lemma dict_assign_fold_wpow p cs : forall d,
  NoDup (map fst cs) -> (forall x, In x (map fst cs) -> ~ In x (map fst d)) ->
  wpow p (fold_left (fun d kv => dict_set (fst kv) (snd kv) d) cs d) = wpow p cs + wpow p d.
Proof.
  induction cs as [|[k v] cs IH]; intros d Hn Hd; simpl; [ring|].
  inversion Hn as [|? ? Hk Hn']; subst.
  rewrite IH; [rewrite (dict_set_new_wpow p k v d (Hd k (or_introl eq_refl))); ring | exact Hn' |].
  intros x X I. apply dict_set_keys in I. destruct I as [->|I]; [exact (Hk X) | exact (Hd x (or_intror X) I)].
Qed.

Lemma dict_assign_wpow p cs : NoDup (map fst cs) -> wpow p (dict_assign cs) = wpow p cs.
Proof. intro H. unfold dict_assign. rewrite (dict_assign_fold_wpow p cs [] H); [simpl; ring | intros x _ []]. Qed.

(* ---------------------------------------------------------------------------------------------- *)
(* the cell tree of the complete grid *)

Inductive cbtree : nat -> Qc -> Qc -> btree -> Prop :=
| cb0 lo w : cbtree 0 lo w BLeaf
| cbS d lo w l r : cbtree d lo (w * hf) l -> cbtree d (lo + w * hf) (w * hf) r -> cbtree (S d) lo w (BNode lo (lo + w) l r).

Lemma build_btree_complete d : forall lev lo w pts fuel,
  map snd pts = full_levels d lev -> map fst pts = nodes lo w d -> (length pts <= fuel)%nat ->
  cbtree d lo w (build_btree fuel lo pts (lo + w)).
Proof.
  induction d as [|d IH]; intros lev lo w pts fuel H1 H2 Hf.
  - cbn [full_levels] in H1. apply map_eq_nil in H1. subst pts. destruct fuel; constructor.
  - assert (LP : length pts = (2 ^ S d - 1)%nat) by (rewrite <- (map_length snd), H1; apply full_levels_length).
    assert (P : (1 <= 2 ^ d)%nat) by (apply Nat.neq_0_lt_0, Nat.pow_nonzero; lia).
    rewrite Nat.pow_succ_r' in LP.
    destruct pts as [|x r]; [simpl in LP; lia|]. destruct fuel as [|f]; [simpl in Hf; lia|].
    set (l := x :: r) in *.
    change (build_btree (S f) lo l (lo + w)) with
      (BNode lo (lo + w) (build_btree f lo (firstn (argmin (map snd l)) l) (fst (nth (argmin (map snd l)) l (0, O))))
                         (build_btree f (fst (nth (argmin (map snd l)) l (0, O))) (skipn (S (argmin (map snd l))) l) (lo + w))).
    rewrite H1, argmin_full.
    set (L := full_levels d (S lev)).
    assert (LL : length L = (2 ^ d - 1)%nat) by (unfold L; apply full_levels_length).
    assert (HF : map snd l = L ++ [lev] ++ L) by (rewrite H1; reflexivity).
    set (N1 := nodes lo (w * hf) d). set (N2 := nodes (lo + w * hf) (w * hf) d).
    assert (HN : map fst l = N1 ++ [lo + w * hf] ++ N2) by (rewrite H2; reflexivity).
    assert (LN1 : length N1 = (2 ^ d - 1)%nat) by (unfold N1; apply nodes_length).
    assert (Pm : fst (nth (2 ^ d - 1) l (0, O)) = lo + w * hf).
    { change (fst (nth (2 ^ d - 1) l (0, O))) with (fst (nth (2 ^ d - 1) l (0, O))).
      rewrite <- (map_nth fst l (0, O)). cbn [fst]. rewrite HN, app_nth2 by lia. rewrite LN1, Nat.sub_diag. reflexivity. }
    rewrite Pm. rewrite <- (lo_half_half lo w) at 2.
    constructor.
    + apply (IH (S lev)).
      * rewrite <- firstn_map, HF, <- LL. apply firstn_app_exact.
      * rewrite <- firstn_map, HN, <- LN1. apply firstn_app_exact.
      * rewrite firstn_length. lia.
    + apply (IH (S lev)).
      * rewrite <- skipn_map, HF.
        replace (S (2 ^ d - 1)) with (length (L ++ [lev])) by (rewrite app_length, LL; simpl; lia).
        replace (L ++ [lev] ++ L) with ((L ++ [lev]) ++ L) by (rewrite <- app_assoc; reflexivity).
        apply skipn_app_exact.
      * rewrite <- skipn_map, HN.
        replace (S (2 ^ d - 1)) with (length (N1 ++ [lo + w * hf])) by (rewrite app_length, LN1; simpl; lia).
        replace (N1 ++ [lo + w * hf] ++ N2) with ((N1 ++ [lo + w * hf]) ++ N2) by (rewrite <- app_assoc; reflexivity).
        apply skipn_app_exact.
      * rewrite skipn_length. lia.
Qed.

(* the level rule of a complete cell tree is the composite midpoint rule *)
Lemma cb_rule_wpow p d : forall lev maxl lo w t, cbtree d lo w t -> (1 <= d)%nat -> (lev <= maxl)%nat -> (maxl <= lev + d - 1)%nat ->
  wpow p (b_rule lev maxl t) = midD (pw p) lo w (maxl - lev).
Proof.
  induction d as [|d IH]; intros lev maxl lo w t H Hd H1 H2; [lia|].
  inversion H as [|d' lo' w' l r Hl Hr]; subst. cbn [b_rule].
  destruct (Nat.ltb_spec maxl lev) as [C|_]; [lia|].
  destruct (Nat.eqb_spec lev maxl) as [E|NE].
  - subst maxl. cbn [orb wpow fst snd]. rewrite Nat.sub_diag. cbn [midD]. unfold midpoint, pw. rewrite Qc2_eq.
    replace ((lo + (lo + w)) / (1 + 1)) with (lo + w * hf) by (field; exact two_neq0). ring.
  - destruct d as [|d'].
    + lia.
    + assert (NL : b_is_leaf (BNode lo (lo + w) l r) = false).
      { inversion Hl; subst. reflexivity. }
      rewrite NL. cbn [orb]. rewrite wpow_app.
      rewrite (IH (S lev) maxl lo (w * hf) l Hl) by lia. rewrite (IH (S lev) maxl (lo + w * hf) (w * hf) r Hr) by lia.
      replace (maxl - lev)%nat with (S (maxl - S lev)) by lia. reflexivity.
Qed.

(* strictly increasing points of the complete grid *)
Lemma chain_lt_join lo l1 x l2 hi : chain_lt lo l1 (fst x) -> chain_lt (fst x) l2 hi -> chain_lt lo (l1 ++ [x] ++ l2) hi.
Proof.
  revert lo. induction l1 as [|y l1 IH]; intros lo H1 H2; simpl in *; [split; assumption|].
  destruct H1 as [A B]. split; [exact A | exact (IH _ B H2)].
Qed.

Lemma split_by_map {A B} (f : A -> B) (l : list A) u x v : map f l = u ++ [x] ++ v ->
  exists l1 y l2, l = l1 ++ [y] ++ l2 /\ map f l1 = u /\ f y = x /\ map f l2 = v.
Proof.
  revert l. induction u as [|z u IH]; intros l H.
  - destruct l as [|y l]; [discriminate|]. cbn [app map] in H. injection H as H1 H2.
    exists [], y, l. split; [reflexivity|]. split; [reflexivity|]. split; assumption.
  - destruct l as [|y l]; [discriminate|]. cbn [app map] in H. injection H as H1 H2.
    destruct (IH l H2) as [l1 [y' [l2 [E [E1 [E2 E3]]]]]].
    exists (y :: l1), y', l2. subst l. split; [reflexivity|]. split; [cbn [map]; rewrite H1, E1; reflexivity|]. split; assumption.
Qed.

Lemma nodes_chain_lt d : forall lo w pts, 0 < w -> map fst pts = nodes lo w d -> chain_lt lo pts (lo + w).
Proof.
  induction d as [|d IH]; intros lo w pts Hw H.
  - cbn [nodes] in H. apply map_eq_nil in H. subst pts. cbn [chain_lt].
    apply Qclt_minus_iff. replace (lo + w + - lo) with w by ring. exact Hw.
  - cbn [nodes] in H. destruct (split_by_map fst pts _ _ _ H) as [l1 [y [l2 [E [E1 [E2 E3]]]]]]. subst pts.
    assert (Hh : 0 < w * hf) by (apply mul_pos; [exact Hw | exact hf_pos]).
    apply chain_lt_join.
    + rewrite E2. apply IH; assumption.
    + rewrite E2. rewrite <- (lo_half_half lo w). apply IH; assumption.
Qed.

(* ---------------------------------------------------------------------------------------------- *)
(* midpoint rule: even expansion *)

Lemma mid_even_expansion p lo w :
  exists g, (length g <= Nat.div2 p)%nat /\ forall j, midD (pw p) lo w j = Ik p lo (lo + w) + tj w j * pev g (tj w j).
Proof.
  destruct (trap_even_expansion_eq p lo w) as [b [Lb Hb]].
  exists (padd (pscale ((1 + 1) * (hf * hf)) (pdil (hf * hf) b)) (pscale m1 b)). split.
  - rewrite padd_length, !pscale_length, pdil_length. lia.
  - intro j. rewrite midD_as_trap, (Hb (S j)), (Hb j), tj_S, pev_padd, !pev_pscale, pev_pdil. unfold m1. ring.
Qed.

(* ---------------------------------------------------------------------------------------------- *)
(* the tableau on the level of numbers *)

Fixpoint nextQ (k : nat) (vs : list Qc) : list Qc :=
  match vs with
  | vtop :: ((vleft :: _) as rest) => ((1 - ck k) * vleft + ck k * vtop) :: nextQ k rest
  | _ => []
  end.
Fixpoint tabQ (fuel k : nat) (vs : list Qc) : Qc :=
  match fuel with
  | O => last vs 0
  | S f => match vs with [] => 0 | [x] => x | _ => tabQ f (S k) (nextQ k vs) end
  end.

Lemma next_column_wpow p k col : map (wpow p) (next_column k col) = nextQ k (map (wpow p) col).
Proof.
  induction col as [|x col IH]; [reflexivity|]. destruct col as [|y col]; [reflexivity|].
  change (next_column k (x :: y :: col)) with (extrapolate_one_step y x k :: next_column k (y :: col)).
  cbn [map nextQ]. rewrite extrapolate_one_step_wpow. f_equal. exact IH.
Qed.

Lemma tableau_wpow p fuel : forall k col, col <> [] -> wpow p (tableau fuel k col) = tabQ fuel k (map (wpow p) col).
Proof.
  induction fuel as [|f IH]; intros k col Hne.
  - cbn [tableau tabQ]. clear Hne. induction col as [|x col IHc]; [reflexivity|].
    destruct col as [|y col]; [reflexivity|]. exact IHc.
  - destruct col as [|x col]; [congruence|]. destruct col as [|y col]; [reflexivity|].
    change (tableau (S f) k (x :: y :: col)) with (tableau f (S k) (next_column k (x :: y :: col))).
    cbn [map tabQ]. rewrite IH by discriminate. rewrite next_column_wpow. reflexivity.
Qed.

(* coefficients of the polynomial after one column *)
Definition gstep (k : nat) (g : list Qc) : list Qc :=
  padd (pscale (1 - ck k) g) (pscale (ck k * Qc4) (pdil Qc4 g)).

Lemma nth_pscale c g i : nth i (pscale c g) 0 = c * nth i g 0.
Proof.
  unfold pscale. replace (nth i (map (fun a => c * a) g) 0) with (nth i (map (fun a => c * a) g) (c * 0)) by (f_equal; ring).
  apply (map_nth (fun a => c * a)).
Qed.
Lemma nth_pdil c g : forall i, nth i (pdil c g) 0 = c ^ i * nth i g 0.
Proof.
  induction g as [|a g IH]; intro i; [destruct i; simpl; ring|].
  destruct i as [|i]; cbn [pdil nth]; [simpl; ring|]. rewrite nth_pscale, IH. simpl. ring.
Qed.
Lemma nth_padd_same g h : length g = length h -> forall i, nth i (padd g h) 0 = nth i g 0 + nth i h 0.
Proof.
  revert h. induction g as [|a g IH]; intros h H i; destruct h as [|b h]; try discriminate; [destruct i; simpl; ring|].
  destruct i as [|i]; cbn [padd nth]; [reflexivity|]. apply IH. simpl in H. lia.
Qed.

Lemma Qc4_pow_neq1 k : (1 <= k)%nat -> Qc4 ^ k - 1 <> 0.
Proof.
  intros Hk E. assert (L : 1 < Qc4 ^ k).
  { destruct k as [|k]; [lia|]. clear Hk E. induction k as [|k IH]; [reflexivity|].
    change (Qc4 ^ S (S k)) with (Qc4 * Qc4 ^ S k).
    apply Qclt_trans with (1 * Qc4 ^ S k); [rewrite Qcmult_1_l; exact IH|].
    apply Qcmult_lt_compat_r; [apply Qclt_trans with 1; [reflexivity | exact IH] | reflexivity]. }
  assert (Z : Qc4 ^ k = 1) by (transitivity (Qc4 ^ k - 1 + 1); [ring | rewrite E; ring]).
  rewrite Z in L. discriminate L.
Qed.

Lemma gstep_length k g : length (gstep k g) = length g.
Proof. unfold gstep. rewrite padd_length, !pscale_length, pdil_length. lia. Qed.

Lemma gstep_nth k g i : nth i (gstep k g) 0 = (1 - ck k + ck k * Qc4 ^ (S i)) * nth i g 0.
Proof.
  unfold gstep. rewrite nth_padd_same by (rewrite !pscale_length, pdil_length; reflexivity).
  rewrite !nth_pscale, nth_pdil. simpl. ring.
Qed.

Lemma gstep_zero k g i : (1 <= k)%nat -> (nth i g 0 = 0 \/ S i = k) -> nth i (gstep k g) 0 = 0.
Proof.
  intros Hk [H|H]; rewrite gstep_nth; [rewrite H; ring|]. subst k.
  assert (N := Qc4_pow_neq1 (S i) Hk). unfold ck.
  replace (1 - - (1) / (Qc4 ^ S i - 1) + - (1) / (Qc4 ^ S i - 1) * Qc4 ^ S i) with (0 : Qc); [ring|]. field. exact N.
Qed.

(* evaluation: one column turns I + t p(t) (left) and I + 4t p(4t) (top left) into I + t (gstep p)(t) *)
Lemma gstep_pev k g I t :
  (1 - ck k) * (I + t * pev g t) + ck k * (I + Qc4 * t * pev g (Qc4 * t)) = I + t * pev (gstep k g) t.
Proof. unfold gstep. rewrite pev_padd, !pev_pscale, pev_pdil. ring. Qed.

Lemma pev_all_zero g t : (forall i, (i < length g)%nat -> nth i g 0 = 0) -> pev g t = 0.
Proof.
  induction g as [|a g IH]; intro H; [reflexivity|]. cbn [pev].
  assert (A0 : a = 0) by exact (H 0%nat ltac:(simpl; lia)).
  rewrite A0, IH; [ring|]. intros i Hi. apply (H (S i)). simpl. lia.
Qed.

Lemma tj_prev w j : tj w j = Qc4 * tj w (S j).
Proof. rewrite tj_S, Qc4_eq. field. exact two_neq0. Qed.

(* the elimination: rows j0, j0+1, ... hold I + t_j g(t_j) with g_1 .. g_(k-1) = 0; after the remaining columns: I *)
Lemma tabQ_eliminates w I : forall fuel k vs j0 g,
  vs <> [] -> (length vs <= fuel)%nat -> (1 <= k)%nat ->
  (forall n, (n < length vs)%nat -> nth n vs 0 = I + tj w (j0 + n) * pev g (tj w (j0 + n))) ->
  (forall i, (S i < k)%nat -> nth i g 0 = 0) ->
  (length g + 1 <= k + (length vs - 1))%nat ->
  tabQ fuel k vs = I.
Proof.
  induction fuel as [|f IH]; intros k vs j0 g Hne Hf Hk Hv Hz Hl.
  - destruct vs; [congruence | simpl in Hf; lia].
  - destruct vs as [|x vs]; [congruence|]. destruct vs as [|y vs].
    + cbn [tabQ]. assert (X := Hv 0%nat ltac:(simpl; lia)). cbn [nth] in X. rewrite X.
      rewrite (pev_all_zero g); [ring|]. intros i Hi. apply Hz. simpl in Hl. lia.
    + change (tabQ (S f) k (x :: y :: vs)) with (tabQ f (S k) (nextQ k (x :: y :: vs))).
      assert (NQ : forall (us : list Qc) (j1 : nat), us <> [] ->
                 (forall n, (n < length us)%nat -> nth n us 0 = I + tj w (j1 + n) * pev g (tj w (j1 + n))) ->
                 length (nextQ k us) = (length us - 1)%nat /\
                 forall n, (n < length us - 1)%nat ->
                   nth n (nextQ k us) 0 = I + tj w (S j1 + n) * pev (gstep k g) (tj w (S j1 + n))).
      { induction us as [|u us IHu]; intros j1 Hn Hu; [congruence|].
        destruct us as [|u2 us]; [split; [reflexivity | intros n Hn'; simpl in Hn'; lia]|].
        change (nextQ k (u :: u2 :: us)) with (((1 - ck k) * u2 + ck k * u) :: nextQ k (u2 :: us)).
        destruct (IHu (S j1) ltac:(discriminate)) as [A B].
        { intros n Hn'. replace (S j1 + n)%nat with (j1 + S n)%nat by lia. apply (Hu (S n)). simpl in *. lia. }
        split; [cbn [length] in *; rewrite A; lia|].
        intros n Hn'. destruct n as [|n].
        - cbn [nth]. assert (X0 := Hu 0%nat ltac:(simpl; lia)). assert (X1 := Hu 1%nat ltac:(simpl; lia)). cbn [nth] in X0, X1.
          rewrite X0, X1. rewrite !Nat.add_0_r. replace (j1 + 1)%nat with (S j1) by lia.
          rewrite (tj_prev w j1). apply gstep_pev.
        - cbn [nth]. replace (S j1 + S n)%nat with (S (S j1) + n)%nat by lia. apply B. simpl in *. lia. }
      destruct (NQ (x :: y :: vs) j0 ltac:(discriminate) Hv) as [A B].
      apply (IH (S k) _ (S j0) (gstep k g)).
      * intro E. rewrite E in A. simpl in A. lia.
      * rewrite A. simpl in *. lia.
      * lia.
      * intros n Hn. apply B. rewrite <- A. exact Hn.
      * intros i Hi. apply gstep_zero; [exact Hk|]. destruct (Nat.eq_dec (S i) k) as [E|NE]; [right; exact E | left; apply Hz; lia].
      * rewrite gstep_length, A. simpl in *. lia.
Qed.

(* ---------------------------------------------------------------------------------------------- *)
(* MAIN *)

Theorem balanced_complete_exact a b m d p : a < b -> (1 <= m)%nat ->
  balanced_dict (complete_grid a b m) (complete_levels m) = Some d -> (p <= 2 * m - 1)%nat ->
  wpow p d = Ik p a b.
Proof.
  intros Hab Hm H Hp.
  assert (Pm : (1 <= 2 ^ m)%nat) by (apply Nat.neq_0_lt_0, Nat.pow_nonzero; lia).
  assert (LG := complete_grid_length a b m). assert (LV := complete_levels_length m).
  unfold balanced_dict in H. unfold complete_levels in H at 1. cbn [app] in H.
  destruct (Nat.eqb (last (complete_levels m) 1%nat) 0); [|discriminate].
  rewrite complete_grid_first, complete_grid_last in H.
  set (pts := inner (zip_levels (complete_grid a b m) (complete_levels m))) in *.
  assert (MS : map snd pts = full_levels m 1).
  { unfold pts. rewrite map_inner, zip_levels_snd by (rewrite LG, LV; reflexivity). apply inner_complete_levels. }
  assert (MF : map fst pts = nodes a (b - a) m).
  { unfold pts. rewrite map_inner.
    assert (Z : forall (g : list Qc) (ls : list nat), length g = length ls -> map fst (zip_levels g ls) = g).
    { induction g as [|y g IHg]; intros [|l ls] Hl; simpl in *; try lia; [reflexivity|]. f_equal. apply IHg. lia. }
    rewrite Z by (rewrite LG, LV; reflexivity). rewrite complete_grid_nodes by exact Hm.
    unfold inner. cbn [app tl]. apply removelast_last. }
  destruct pts as [|x0 r0] eqn:Ep; [discriminate|]. rewrite <- Ep in *.
  set (t := build_btree (length pts) a pts b) in *.
  destruct (b_balanced t); [|discriminate].
  assert (ML : list_max (complete_levels m) = m).
  { unfold complete_levels. rewrite !list_max_app, full_levels_max by exact Hm. simpl. lia. }
  rewrite ML in H. injection H as <-.
  assert (Hw : 0 < b - a). { apply Qclt_minus_iff in Hab. replace (b - a) with (b + - a) by ring. exact Hab. }
  assert (CT : cbtree m a (b - a) t).
  { assert (X : cbtree m a (b - a) (build_btree (length pts) a pts (a + (b - a)))) by (apply (build_btree_complete m 1); [exact MS | exact MF | lia]).
    replace (a + (b - a)) with b in X by ring. exact X. }
  assert (SC : scells a b t).
  { unfold t. apply build_btree_scells. assert (X := nodes_chain_lt m a (b - a) pts Hw MF).
    replace (a + (b - a)) with b in X by ring. exact X. }
  rewrite tableau_wpow by (destruct m; [lia | discriminate]).
  rewrite map_map.
  destruct (mid_even_expansion p a (b - a)) as [g [Lg Hg]]. replace (a + (b - a)) with b in Hg by ring.
  apply (tabQ_eliminates (b - a) (Ik p a b) m 1 _ 0%nat g).
  - destruct m; [lia | discriminate].
  - rewrite map_length, seq_length. lia.
  - lia.
  - intros n Hn. rewrite map_length, seq_length in Hn.
    rewrite (nth_indep _ 0 (wpow p (dict_assign (b_rule 1 0 t)))) by (rewrite map_length, seq_length; exact Hn).
    rewrite (map_nth (fun i => wpow p (dict_assign (b_rule 1 i t)))), seq_nth by exact Hn.
    rewrite dict_assign_wpow by (apply (b_rule_keys_nodup t a b); exact SC).
    rewrite (cb_rule_wpow p m 1 (1 + n) a (b - a) t CT Hm) by lia.
    replace (1 + n - 1)%nat with n by lia. cbn [plus]. apply Hg.
  - intros i Hi. lia.
  - rewrite map_length, seq_length.
    assert (D := Nat.div2_odd p). destruct (Nat.odd p); simpl Nat.b2n in D; lia.
Qed.

(* the weight list returned by get_weights, given the run-time checker keys_in_grid *)
Theorem balanced_complete_weights_exact a b m d ws p : a < b -> (1 <= m)%nat ->
  balanced_dict (complete_grid a b m) (complete_levels m) = Some d ->
  balanced_weights (complete_grid a b m) (complete_levels m) = Some ws ->
  keys_in_grid d (complete_grid a b m) = true -> (p <= 2 * m - 1)%nat ->
  dotQ (map (pw p) (complete_grid a b m)) ws = Ik p a b.
Proof.
  intros Hab Hm Hd Hw Hk Hp. unfold balanced_weights in Hw. rewrite Hd in Hw.
  assert (E : ws = map (fun g => dict_get g d) (complete_grid a b m)) by congruence. subst ws. clear Hw.
  rewrite <- (balanced_complete_exact a b m d p Hab Hm Hd Hp).
  rewrite dotQ_map, (keys_in_grid_sound (pw p) d _ Hk).
  clear. induction d as [|kv d IH]; simpl; [reflexivity | rewrite IH; unfold pw; ring].
Qed.
