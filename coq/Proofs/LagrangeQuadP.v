(* C09 — the hierarchical Lagrange rule with boundary points integrates constants and linear functions exactly, on EVERY
   refinement tree and for every order p >= 1 (imports C10's tree theorems: every tree system is unit triangular and uniquely
   solvable, hierarchisation is a projection onto the span of the basis). *)
From Coq Require Import ZArith List QArith Qcanon Bool Arith Lia.
From SG Require Import Base.QcUtil Base.PolyInt Base.PolyQ Model.Basis Model.BasisTree Model.Trap Model.LagrangeQuad
  Proofs.BasisInterp Proofs.BasisCheck Proofs.BasisRepro Proofs.BasisTreeP.
Import ListNotations.
Open Scope Qc_scope.

(* the two level-0 functions: the linear Lagrange polynomials on the knots [a, b], supported on [a, b] *)
Lemma end_basis_eval a b x : a < b -> a <= x -> x <= b ->
  beval (BRLag [a; b] 0) x = (x - b) / (a - b) /\ beval (BRLag [a; b] 1) x = (x - a) / (b - a).
Proof.
  intros Hab Hax Hxb.
  assert (S0 : rl_in_support [a; b] 0 x = true).
  { unfold rl_in_support, rl_lo, rl_hi, nthQ. cbn. apply andb_true_iff. split; apply Qc_leb_le; assumption. }
  assert (S1 : rl_in_support [a; b] 1 x = true).
  { unfold rl_in_support, rl_lo, rl_hi, nthQ. cbn. apply andb_true_iff. split; apply Qc_leb_le; assumption. }
  assert (Nab : a - b <> 0) by (intro E; apply (Qclt_not_eq _ _ Hab); transitivity (b + (a - b)); [ring | rewrite E; ring]).
  assert (Nba : b - a <> 0) by (intro E; apply Nab; transitivity (- (b - a)); [ring | rewrite E; ring]).
  cbn [beval]. unfold rl_eval. rewrite S0, S1. unfold lag_eval, lag_factor, nthQ. cbn. split; field; assumption.
Qed.

Lemma end_basis_integral a b : a < b ->
  rl_integral [a; b] 0 = (b - a) * Qchalf /\ rl_integral [a; b] 1 = (b - a) * Qchalf.
Proof.
  intros Hab.
  assert (Nab : a - b <> 0) by (intro E; apply (Qclt_not_eq _ _ Hab); transitivity (b + (a - b)); [ring | rewrite E; ring]).
  assert (Nba : b - a <> 0) by (intro E; apply Nab; transitivity (- (b - a)); [ring | rewrite E; ring]).
  unfold rl_integral, lag_integral, rl_lo, rl_hi, nthQ. cbn [nth Nat.sub Nat.add Nat.min length others].
  assert (Q2 : qc_of_pos 2 = 1 + 1) by (apply Qc_is_canon; reflexivity).
  assert (H2 : Qchalf = 1 / (1 + 1)) by (apply Qc_is_canon; reflexivity).
  assert (T : (1 + 1 : Qc) <> 0) by (intro E; apply Qc_eq_Qeq in E; vm_compute in E; discriminate E).
  unfold pintegral, panti, lag_poly, plin. cbn. rewrite ?qc_of_pos_1, ?Q2, H2. split; field; (split; [|split]); try assumption; intro E; apply Qc_eq_Qeq in E; vm_compute in E; discriminate E.
Qed.

(* a sum against a coefficient vector that vanishes except at its two ends *)
Lemma sum_two_ends {A} (g : A -> Qc) e1 mid e2 c1 c2 :
  sumQ (map (fun bc => g (fst bc) * snd bc) (combine (e1 :: mid ++ [e2]) (c1 :: repeat 0 (length mid) ++ [c2])))
  = g e1 * c1 + g e2 * c2.
Proof.
  cbn [combine map sumQ fst snd]. f_equal.
  induction mid as [|m mid IH]; cbn [app length repeat combine map sumQ fst snd]; [ring|]. rewrite IH. ring.
Qed.

Lemma chunks_ones (c : list Qc) : chunks (length c) 1 c = map (fun x => [x]) c.
Proof. induction c as [|x c IH]; [reflexivity|]. cbn [length chunks firstn skipn map]. rewrite IH. reflexivity. Qed.

Lemma interp_1d (s : sys1) (x : Qc) (c : list Qc) : length c = s_n s ->
  interp_nd [s] [x] c = sumQ (map (fun bc => beval (snd (fst bc)) x * snd bc) (combine (s_basis s) c)).
Proof.
  intro L. cbn [interp_nd map prodN]. rewrite <- L, chunks_ones. unfold nthQ at 1. cbn [nth].
  generalize (s_basis s). clear L. induction c as [|ci c IH]; intros [|e l]; cbn [combine map sumQ fst snd]; try reflexivity.
  rewrite IH. unfold nthQ. reflexivity.
Qed.

Lemma rt_system_restricted p : forall t kl kr sl, rt_system p kl kr t = Some sl ->
  exists ws, opt_list (map (fun xb : Qc * basis => bintegral (snd xb)) sl) = Some ws /\ length ws = length sl.
Proof.
  induction t as [|l IHl x r IHr]; intros kl kr sl H; cbn [rt_system] in H.
  - injection H as <-. exists []. split; reflexivity.
  - destruct (rt_system p kl (x :: kr) l) as [s1|] eqn:E1; [|discriminate].
    destruct (knot_basis p (kl ++ x :: kr) x) as [bf|] eqn:E2; [|discriminate].
    destruct (rt_system p (kl ++ [x]) kr r) as [s2|] eqn:E3; [|discriminate]. injection H as <-.
    destruct (IHl _ _ _ E1) as [w1 [O1 L1]]. destruct (IHr _ _ _ E3) as [w2 [O2 L2]].
    unfold knot_basis in E2. destruct (window p (kl ++ x :: kr) x) as [kw|]; [|discriminate].
    destruct (index_of x kw) as [ix|]; [|discriminate]. injection E2 as <-.
    exists (w1 ++ rl_integral kw ix :: w2). split.
    + rewrite map_app. cbn [map snd bintegral].
      assert (OA : forall (l1 l2 : list (option Qc)) v1 v2, opt_list l1 = Some v1 -> opt_list l2 = Some v2 ->
                   opt_list (l1 ++ l2) = Some (v1 ++ v2)).
      { induction l1 as [|[y|] l1 IH]; intros l2 v1 v2 H1 H2; cbn [opt_list app] in *.
        - injection H1 as <-. exact H2.
        - destruct (opt_list l1) as [v|]; [|discriminate]. injection H1 as <-. rewrite (IH l2 v v2 eq_refl H2). reflexivity.
        - discriminate. }
      apply OA; [exact O1|]. cbn [opt_list]. rewrite O2. reflexivity.
    + rewrite !app_length. cbn [length]. lia.
Qed.

Lemma dot_two_ends c1 c2 w1 w2 (ws : list Qc) :
  dotQ (c1 :: repeat 0 (length ws) ++ [c2]) (w1 :: ws ++ [w2]) = c1 * w1 + c2 * w2.
Proof.
  cbn [dotQ]. f_equal. induction ws as [|w ws IH]; cbn [length repeat app dotQ]; [ring|]. rewrite IH. ring.
Qed.

(* MAIN (item 1): every refinement tree t on [a,b], every order p >= 1, boundary points present: hierarchisation of the nodal values of
   f(x) = alpha x + beta never fails, the surpluses are f(a), 0, ..., 0, f(b), the interpolant is f on all of [a,b], and
   integrate(f) = sum_i surplus_i * integral(basis_i) is the exact integral *)
Theorem lagrange_tree_linear_exact p a b t alpha beta sy :
  (1 <= p)%nat -> a < b -> in_range a b t -> tree_system p true a b t = Some sy ->
  let s := {| s_basis := sy; s_ord := Some (level_order (tree_levels t)) |} in
  let f := fun x => alpha * x + beta in
  hier_quad s (map f (map fst sy)) = Some (lin_int alpha beta a b) /\
  exists sur, hier_nd [s] (map f (map fst sy)) = Some sur /\ forall x, a <= x -> x <= b -> interp_nd [s] [x] sur = f x.
Proof.
  intros Hp Hab Hr Es s f.
  destruct (tree_system_triangular p true a b t Hp Hab Hr) as [sy' [Es' H]]. rewrite Es in Es'. injection Es' as <-.
  cbv zeta in H. destruct H as [Pm [Tr [Dg [Hsound Hinj]]]]. change (interior true (tree_levels t)) with (tree_levels t) in *.
  fold s in Hsound, Hinj.
  destruct (knot_basis_ends p a b Hp Hab) as [Ka Kb].
  unfold tree_system in Es. rewrite Ka, Kb in Es.
  destruct (rt_system p [a] [b] t) as [mid|] eqn:Em; [|discriminate]. injection Es as Esy.
  destruct (tree_system_accepted p true a b t Hp Hab Hr) as [sy2 [Es2 [Pts _]]].
  unfold tree_system in Es2. rewrite Ka, Kb, Em in Es2. injection Es2 as <-. rewrite Esy in Pts.
  change (interior true (tree_points a b t)) with (tree_points a b t) in Pts.
  destruct (rt_points_sorted t a b Hr) as [Bp _].
  assert (InR : forall x, In x (map fst sy) -> a <= x /\ x <= b).
  { intros x Hx. rewrite Pts in Hx. unfold tree_points in Hx. destruct Hx as [<-|Hx].
    - split; [apply Qcle_refl | apply Qclt_le_weak; exact Hab].
    - apply in_app_iff in Hx. destruct Hx as [Hx|[<-|[]]].
      + destruct (Bp x Hx). split; apply Qclt_le_weak; assumption.
      + split; [apply Qclt_le_weak; exact Hab | apply Qcle_refl]. }
  set (c := f a :: repeat 0 (length mid) ++ [f b]).
  assert (Lc : length c = s_n s).
  { unfold c, s_n, s. cbn [s_basis]. rewrite <- Esy. cbn [length]. rewrite !app_length, repeat_length. reflexivity. }
  (* f on [a,b] is the combination f(a) phi_a + f(b) phi_b *)
  assert (Span : forall x, a <= x -> x <= b -> interp_nd [s] [x] c = f x).
  { intros x Hax Hxb. rewrite interp_1d by exact Lc. unfold s. cbn [s_basis]. rewrite <- Esy. unfold c.
    rewrite (sum_two_ends (fun e => beval (snd e) x)). cbn [snd].
    destruct (end_basis_eval a b x Hab Hax Hxb) as [E0 E1]. rewrite E0, E1. unfold f.
    assert (Nab : a - b <> 0) by (intro E; apply (Qclt_not_eq _ _ Hab); transitivity (b + (a - b)); [ring | rewrite E; ring]).
    assert (Nba : b - a <> 0) by (intro E; apply Nab; transitivity (- (b - a)); [ring | rewrite E; ring]).
    field. split; assumption. }
  assert (Vals : map f (map fst sy) = map (fun x => interp_nd [s] x c) (grid_points [s])).
  { cbn [grid_points]. unfold s at 2. cbn [s_basis]. rewrite flat_map_concat_map, map_map. cbn [map]. rewrite concat_map, map_map.
    assert (G : forall l : list (Qc * basis), (forall e, In e l -> In (fst e) (map fst sy)) ->
               map (fun x => f (fst x)) l = concat (map (fun x => map (fun x0 => interp_nd [s] x0 c) [[fst x]]) l)).
    { induction l as [|e l IH]; intros Hl; [reflexivity|]. cbn [map concat app]. f_equal.
      - destruct (InR (fst e) (Hl e (or_introl eq_refl))) as [H1 H2]. symmetry. apply Span; assumption.
      - apply IH. intros e' He'. apply Hl. right. exact He'. }
    apply G. intros e He. apply in_map. exact He. }
  assert (Hss : Forall sys_sound [s]) by (constructor; [exact Hsound | constructor]).
  assert (Hii : Forall sys_inj [s]) by (constructor; [exact Hinj | constructor]).
  assert (Lc' : length c = prodN (map s_n [s])) by (cbn [map prodN]; rewrite Nat.mul_1_r; exact Lc).
  assert (Ht : Forall (fun s0 => s_ord s0 <> None /\ (length (s_basis s0) <> 1)%nat) [s]).
  { constructor; [|constructor]. split; [discriminate|]. unfold s. cbn [s_basis]. rewrite <- Esy. cbn [length]. rewrite app_length. cbn [length]. lia. }
  destruct (hier_nd [s] (map f (map fst sy))) as [sur|] eqn:Eh.
  2: { exfalso. exact (hier_nd_total [s] Ht _ Eh). }
  rewrite Vals in Eh. destruct (span_is_reproduced [s] c sur Hss Hii Lc' Eh) as [Esur Hrep]. subst sur.
  split.
  - unfold hier_quad. rewrite Vals, Eh. unfold bweights, s. cbn [s_basis]. rewrite <- Esy.
    cbn [map bintegral snd]. rewrite map_app. cbn [map bintegral snd].
    destruct (rt_system_restricted p t [a] [b] mid Em) as [ws [Ows Lws]]. cbn [opt_list].
    assert (OE : opt_list (map (fun xb : Qc * basis => bintegral (snd xb)) mid ++ [Some (rl_integral [a; b] 1)])
                 = Some (ws ++ [rl_integral [a; b] 1])).
    { assert (OA2 : forall (l : list (option Qc)) v y, opt_list l = Some v -> opt_list (l ++ [Some y]) = Some (v ++ [y])).
      { induction l as [|[z|] l IH]; intros v y Hv; cbn [opt_list app] in *.
        - injection Hv as <-. reflexivity.
        - destruct (opt_list l) as [v'|] eqn:El; [|discriminate]. injection Hv as <-. rewrite (IH v' y eq_refl). reflexivity.
        - discriminate. }
      apply OA2. exact Ows. }
    rewrite OE. f_equal. unfold c. rewrite <- Lws, dot_two_ends.
    destruct (end_basis_integral a b Hab) as [I0 I1]. rewrite I0, I1. unfold f, lin_int.
    assert (H2 : Qchalf = 1 / (1 + 1)) by (apply Qc_is_canon; reflexivity). rewrite H2. field.
    intro E; apply Qc_eq_Qeq in E; vm_compute in E; discriminate E.
  - exists c. split; [reflexivity | exact Span].
Qed.
