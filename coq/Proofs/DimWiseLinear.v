(* C04, dimension-wise strategy, products of linear functions prod_d (alpha_d x_d + beta_d):
   the combined integral is EXACT in every state whose trees tile the domain (C06) and whose scheme satisfies the C01
   invariant,
   - for the plain trapezoidal rule with boundary points (dw_linear_exact_boundary), and
   - for the modified (extrapolating) basis without boundary points (dw_linear_exact_modified), provided every stripe has at
     least 4 points or consists of the end points and the mid point (the 3-point rule (b-a) f(x_1) of the modified basis is
     exact for linear functions iff x_1 is the mid point, C09 trap_mod_linear_exact_3).
   Assembly: every component integrates the product exactly (C09 trap_linear_exact / trap_mod_linear_exact, tensor product),
   the coefficients sum to one (product combination theorem with constant sequences, tau = (lmin,..,lmin)). *)
From Coq Require Import ZArith List Bool QArith Qcanon Lia Sorted Arith.
From SG Require Import Base.QcUtil Model.CombiScheme Model.RefTree.
From SG Require Import Model.StdCombi Model.Trap.
From SG Require Import Model.DimWise Model.DimWiseInterp Model.DimWiseExact Model.DimWiseFast Model.DimWiseLinMod
     Proofs.SchemeBasics Proofs.SchemeIE Proofs.SchemeInv Proofs.TrapBasics Proofs.Trap Proofs.TrapMod
     Proofs.DimWiseCombi Proofs.C03Main Proofs.DimWiseNodal Proofs.CombiProduct Proofs.DimWiseExactProofs.
Import ListNotations.
Local Open Scope Qc_scope.
Local Arguments Z.add : simpl never.
Local Arguments Z.sub : simpl never.

Fixpoint prodQ (l : list Qc) : Qc := match l with [] => 1 | x :: r => x * prodQ r end.

(* ---------------------------------------------------------------------------------------------- *)
(* generic assembly: per dimension the 1D rule returns the same value on every stripe of level >= lmin *)
Inductive quad_const (o : dw_opts) (mb : bool) (st : dw_state) (P : Z -> Prop)
  : nat -> list Qc -> list Qc -> list (Qc -> Qc) -> list Qc -> Prop :=
| quad_const_nil d0 : quad_const o mb st P d0 [] [] [] []
| quad_const_cons d0 a0 b0 g0 v0 a b gs vs :
    (forall l, P l -> dw_quad1 (o_boundary o) mb a0 b0 (dw_stripe_coords o st d0 l) g0 = Some v0) ->
    quad_const o mb st P (S d0) a b gs vs ->
    quad_const o mb st P d0 (a0 :: a) (b0 :: b) (g0 :: gs) (v0 :: vs).

Lemma quad_const_length o mb st P d0 a b gs vs : quad_const o mb st P d0 a b gs vs ->
  length b = length a /\ length gs = length a /\ length vs = length a.
Proof. induction 1 as [|? ? ? ? ? ? ? ? ? _ _ (E1 & E2 & E3)]; simpl; [auto | rewrite E1, E2, E3; auto]. Qed.

Definition const_es (vs : list Qc) : list (Z -> Qc) := map (fun v => fun _ : Z => v) vs.

Lemma prod_at_const : forall vs l, length l = length vs -> prod_at (const_es vs) l = prodQ vs.
Proof. induction vs as [|v vs IH]; intros [|l0 l] H; simpl in *; try discriminate; [reflexivity | rewrite IH by lia; reflexivity]. Qed.

Lemma comp_const o mb st P : forall d0 a b gs vs, quad_const o mb st P d0 a b gs vs ->
  forall lv, length lv = length a -> Forall P lv ->
  prod_opt (map (fun dq : nat * (Qc * Qc * Z * (Qc -> Qc)) =>
                   match dq with (d, (a0, b0, l0, g0)) => dw_quad1 (o_boundary o) mb a0 b0 (dw_stripe_coords o st d l0) g0 end)
                (combine (seq d0 (length lv)) (zip4 a b lv gs)))
  = Some (prodQ vs).
Proof.
  induction 1 as [d0|d0 a0 b0 g0 v0 a b gs vs Hq _ IH]; intros lv Ll Fl.
  - destruct lv; [reflexivity | discriminate].
  - destruct lv as [|l0 lv]; [discriminate|]. inversion Fl as [|? ? Hl0 Fl']; subst. simpl in Ll.
    cbn [length seq zip4 combine map prod_opt prodQ]. rewrite (Hq l0 Hl0). rewrite (IH lv) by (try assumption; lia). reflexivity.
Qed.

Lemma stat_const lmin : forall vs, stat lmin (const_es vs) (repeat lmin (length vs)).
Proof. induction vs as [|v vs IH]; simpl; constructor; [intros; reflexivity | lia | exact IH]. Qed.

Theorem dw_combi_integral_const o mb st (P : Z -> Prop) a b gs vs :
  Inv (st_scheme st) -> length a = s_dim (st_scheme st) ->
  (forall l c, In (l, c) (combi_scheme_adaptive (st_scheme st)) -> Forall P l) ->
  quad_const o mb st P 0 a b gs vs ->
  dw_combi_integral o mb st a b gs = Some (prodQ vs).
Proof.
  intros HI La HP Hq. set (s := st_scheme st) in *. set (cs := combi_scheme_adaptive s). set (lmin := s_lmin s) in *.
  destruct (quad_const_length _ _ _ _ _ _ _ _ _ Hq) as (Lb & Lg & Lv).
  assert (Hwf : forall l c, In (l, c) cs -> length l = s_dim s /\ Forall (fun v => (lmin <= v)%Z) l).
  { intros l c Hl. destruct (scheme_support s l c HI Hl) as [Hli _]. apply index_set_In in Hli. exact (inv_wf s HI l Hli). }
  assert (E : dw_combi_integral o mb st a b gs = Some (combined_prod cs (const_es vs))).
  { unfold dw_combi_integral, combined_prod. fold s cs. rewrite <- sum_opt_some. f_equal. apply map_ext_in. intros [l c] Hin.
    cbn [fst snd]. destruct (Hwf l c Hin) as [Ll Fl]. unfold dw_comp_integral.
    rewrite (comp_const o mb st P 0 a b gs vs Hq l) by (try lia; apply (HP l c Hin)).
    rewrite prod_at_const by lia. reflexivity. }
  rewrite E. f_equal.
  set (es := const_es vs).
  assert (Les : length es = s_dim s) by (unfold es, const_es; rewrite map_length; lia).
  set (tau := repeat lmin (s_dim s)).
  assert (Htau : In tau (index_set s)) by (apply index_set_In; exact (inv_min s HI)).
  assert (Ltau : length tau = s_dim s) by (apply repeat_length).
  rewrite <- (prod_at_const vs tau) by lia. fold es.
  set (mx := fold_right Z.max 0%Z (tau ++ flat_map fst cs)).
  assert (Hmx : forall v, In v (tau ++ flat_map fst cs) -> (v <= mx)%Z).
  { unfold mx. induction (tau ++ flat_map fst cs) as [|y r IH]; intros v Hv; [destruct Hv|].
    simpl. destruct Hv as [->|Hv]; [lia|]. specialize (IH v Hv). lia. }
  set (M := Z.to_nat (mx - lmin)).
  apply (product_combination_exact lmin (index_set s) cs es M).
  - intros l c Hl. rewrite Les. destruct (Hwf l c Hl) as [Ll Fl]. split; [exact Ll|].
    apply Forall_forall. intros v Hv. rewrite Forall_forall in Fl. specialize (Fl v Hv).
    assert (v <= mx)%Z by (apply Hmx; apply in_or_app; right; apply in_flat_map; exists (l, c); split; assumption).
    unfold M. lia.
  - intros l Ll Fl. rewrite Les in Ll. apply scheme_inclusion_exclusion; assumption.
  - intros k' j' Hk' Lj' Fj'. apply (scheme_downward_closed s HI k' j'); assumption.
  - unfold es, tau. replace (s_dim s) with (length vs) by lia. apply stat_const.
  - exact Htau.
  - apply Forall_forall. intros v Hv. unfold tau in Hv. apply repeat_spec in Hv. subst v. lia.
Qed.

(* ---------------------------------------------------------------------------------------------- *)
(* one dimension *)
Lemma sorted_strictly_increasing : forall xs, StronglySorted Qclt xs -> strictly_increasing xs.
Proof.
  induction xs as [|x0 [|x1 r] IH]; intro HS; simpl; auto.
  inversion HS as [|? ? HS' HF]; subst. split; [|apply IH; exact HS'].
  rewrite Forall_forall in HF. apply HF. left. reflexivity.
Qed.

Lemma map_strip {A B} (f : A -> B) (l : list A) : map f (strip l) = strip (map f l).
Proof.
  unfold strip. destruct l as [|x l]; [reflexivity|]. cbn [tl map].
  induction l as [|y l IH]; [reflexivity|]. destruct l as [|z l]; [reflexivity|].
  change (removelast (y :: z :: l)) with (y :: removelast (z :: l)).
  change (removelast (map f (y :: z :: l))) with (f y :: removelast (map f (z :: l))).
  cbn [map]. f_equal. exact IH.
Qed.

(* the stripe of level l >= tau (where it is defined) runs from a0 to b0 and is strictly sorted *)
Lemma stripe_shape a b o st d t a0 b0 tau l :
  TilesOK a b st -> nth_error (st_trees st) d = Some t -> nth d a 0 = a0 -> nth d b 0 = b0 ->
  dw_stripe_pts o st d tau <> [] -> (tau <= l)%Z ->
  exists r, dw_stripe_coords o st d l = a0 :: r ++ [b0] /\ StronglySorted Qclt (a0 :: r ++ [b0]).
Proof.
  intros HT Hd Ea Eb Hne Hl.
  assert (Hdef : exists s, stripe_dim o st d l = Some s).
  { unfold dw_stripe_pts in Hne. destruct (stripe_dim o st d tau) as [s1|] eqn:E1; [|contradiction].
    destruct (dw_stripes_monotone o st d tau l s1 E1 Hl) as (s2 & E2 & _). eauto. }
  destruct Hdef as [s Es].
  destruct (dw_stripes_sorted_with_endpoints a b o st d l t s HT Hd Es) as [S0 (r & Er)].
  rewrite Ea, Eb in Er. exists (map fst r). split.
  - unfold dw_stripe_coords. rewrite Es, Er. simpl. rewrite map_app. reflexivity.
  - rewrite Er in S0. simpl in S0. rewrite map_app in S0. exact S0.
Qed.

Lemma quad1_linear_boundary a0 b0 r alpha beta : 
  dw_quad1 true false a0 b0 (a0 :: r ++ [b0]) (fun t => alpha * t + beta) = Some (lin_int alpha beta a0 b0).
Proof.
  rewrite dw_quad1_q1. unfold q1. f_equal. rewrite trap_linear_exact. rewrite nq_last_app. reflexivity.
Qed.

Lemma quad1_linear_modified a0 b0 r alpha beta :
  StronglySorted Qclt (a0 :: r ++ [b0]) ->
  ((4 <= length (a0 :: r ++ [b0]))%nat \/ r = [(a0 + b0) * Qchalf]) ->
  dw_quad1 false true a0 b0 (a0 :: r ++ [b0]) (fun t => alpha * t + beta) = Some (lin_int alpha beta a0 b0).
Proof.
  intros HS Hn. set (x := a0 :: r ++ [b0]) in *.
  assert (Hsi : strictly_increasing x) by (apply sorted_strictly_increasing; exact HS).
  assert (H3 : (3 <= length x)%nat).
  { destruct Hn as [Hn|Hn]; [lia|]. subst r. simpl. lia. }
  assert (E0 : nq x 0 = a0) by reflexivity.
  assert (E1 : nq x (length x - 1) = b0) by (apply nq_last_app).
  unfold dw_quad1. rewrite (trap_mod_assert_never_fails x a0 b0 Hsi H3 E0 E1). f_equal.
  set (w := weights_raw true x a0 b0). set (g := fun t : Qc => alpha * t + beta).
  rewrite map_strip.
  assert (Lw : length w = length (map g x)) by (unfold w; rewrite weights_raw_length, map_length; reflexivity).
  pose proof (dotQ_strip w (map g x) Lw ltac:(unfold w; rewrite weights_raw_length; lia)) as D.
  destruct (weights_raw_mod_ends x a0 b0 H3) as [W0 W1]. fold w in W0, W1.
  assert (Lwx : length w = length x) by (unfold w; apply weights_raw_length).
  rewrite Lwx in D. rewrite W0, W1 in D.
  assert (D' : dotQ (strip w) (strip (map g x)) = dotQ w (map g x)) by (rewrite D; ring).
  rewrite D'. unfold w, g.
  destruct Hn as [Hn|Hn].
  - apply trap_mod_linear_exact; assumption.
  - apply trap_mod_linear_exact_3; [subst r; reflexivity | subst r; reflexivity].
Qed.

(* ---------------------------------------------------------------------------------------------- *)
(* exact integral of the product of linear functions over the box *)
Fixpoint lin_vals (a b : list Qc) (cf : list (Qc * Qc)) : list Qc :=
  match a, b, cf with
  | a0 :: a', b0 :: b', c :: cf' => lin_int (fst c) (snd c) a0 b0 :: lin_vals a' b' cf'
  | _, _, _ => []
  end.
Definition lin_exact (a b : list Qc) (cf : list (Qc * Qc)) : Qc := prodQ (lin_vals a b cf).

(* all stripes exist at the minimum level (proved for every reachable state, versions 2,3,6,7: C03 dw_reachable_stripes_defined) *)
Definition stripes_defined (o : dw_opts) (st : dw_state) (lmin : Z) (n : nat) : Prop :=
  forall d, (d < n)%nat -> exists tr, nth_error (st_trees st) d = Some tr /\ dw_stripe_pts o st d lmin <> [].

(* modified basis: every stripe (of a level satisfying P) has at least 4 points or is (a, mid point, b) *)
Definition stripes_mod_ok_on (o : dw_opts) (st : dw_state) (a b : list Qc) (P : Z -> Prop) (n : nat) : Prop :=
  forall d l r, (d < n)%nat -> P l -> dw_stripe_coords o st d l = nth d a 0 :: r ++ [nth d b 0] ->
    (4 <= length (nth d a 0%Qc :: r ++ [nth d b 0%Qc]))%nat \/ r = [(nth d a 0 + nth d b 0) * Qchalf].
Definition stripes_mod_ok (o : dw_opts) (st : dw_state) (a b : list Qc) (lmin : Z) (n : nat) : Prop :=
  stripes_mod_ok_on o st a b (fun l => (lmin <= l)%Z) n.

Lemma skipn_nonempty_lt {A} (l : list A) d0 x r : skipn d0 l = x :: r -> (d0 < length l)%nat.
Proof.
  intro H. destruct (Nat.lt_ge_cases d0 (length l)) as [L|L]; [exact L|].
  rewrite skipn_all2 in H by exact L. discriminate.
Qed.

Lemma lin_quad_const A B o mb st lmin (P : Z -> Prop) :
  (forall l, P l -> (lmin <= l)%Z) ->
  TilesOK A B st -> stripes_defined o st lmin (length A) ->
  ((o_boundary o = true /\ mb = false) \/ (o_boundary o = false /\ mb = true /\ stripes_mod_ok_on o st A B P (length A))) ->
  forall n d0 cf, length (skipn d0 A) = n -> length (skipn d0 B) = n -> length cf = n ->
  quad_const o mb st P d0 (skipn d0 A) (skipn d0 B) (lin_fns cf) (lin_vals (skipn d0 A) (skipn d0 B) cf).
Proof.
  intros HP HT Hdef Hmode. induction n as [|n IH]; intros d0 cf La Lb Lc.
  - destruct (skipn d0 A); [|discriminate]. destruct (skipn d0 B); [|discriminate]. destruct cf; [|discriminate]. constructor.
  - destruct (skipn d0 A) as [|a0 a'] eqn:Ea; [discriminate|]. destruct (skipn d0 B) as [|b0 b'] eqn:Eb; [discriminate|].
    destruct cf as [|[alpha beta] cf]; [discriminate|].
    pose proof (skipn_nonempty_lt A d0 a0 a' Ea) as Hd0.
    destruct (skipn_cons_nth A d0 a0 a' 0 Ea) as [Na Sa]. destruct (skipn_cons_nth B d0 b0 b' 0 Eb) as [Nb Sb].
    simpl in La, Lb, Lc. cbn [lin_fns map lin_vals fst snd].
    constructor.
    + intros l Pl. pose proof (HP l Pl) as Hl. destruct (Hdef d0 Hd0) as (tr & Htr & Hne).
      destruct (stripe_shape A B o st d0 tr a0 b0 lmin l HT Htr Na Nb Hne Hl) as (r & Er & HS).
      rewrite Er. destruct Hmode as [[Ebd Emb]|(Ebd & Emb & Hmod)]; rewrite Ebd, Emb.
      * apply quad1_linear_boundary.
      * apply quad1_linear_modified; [exact HS|].
        specialize (Hmod d0 l r Hd0 Pl). rewrite Na, Nb in Hmod. apply Hmod. exact Er.
    + rewrite <- Sa, <- Sb. apply IH; [rewrite Sa | rewrite Sb |]; lia.
Qed.

Theorem dw_linear_exact_on (P : Z -> Prop) a b o mb st cf :
  Inv (st_scheme st) -> TilesOK a b st ->
  length a = s_dim (st_scheme st) -> length b = s_dim (st_scheme st) -> length cf = s_dim (st_scheme st) ->
  stripes_defined o st (s_lmin (st_scheme st)) (s_dim (st_scheme st)) ->
  (forall l, P l -> (s_lmin (st_scheme st) <= l)%Z) ->
  (forall l c, In (l, c) (combi_scheme_adaptive (st_scheme st)) -> Forall P l) ->
  ((o_boundary o = true /\ mb = false) \/
   (o_boundary o = false /\ mb = true /\ stripes_mod_ok_on o st a b P (s_dim (st_scheme st)))) ->
  dw_combi_integral o mb st a b (lin_fns cf) = Some (lin_exact a b cf).
Proof.
  intros HI HT La Lb Lc Hdef HP Hcs Hmode. unfold lin_exact.
  apply (dw_combi_integral_const o mb st P); [exact HI | exact La | exact Hcs|].
  rewrite <- La in Hdef, Hmode.
  exact (lin_quad_const a b o mb st (s_lmin (st_scheme st)) P HP HT Hdef Hmode (s_dim (st_scheme st)) 0 cf La Lb Lc).
Qed.

Theorem dw_linear_exact a b o mb st cf :
  Inv (st_scheme st) -> TilesOK a b st ->
  length a = s_dim (st_scheme st) -> length b = s_dim (st_scheme st) -> length cf = s_dim (st_scheme st) ->
  stripes_defined o st (s_lmin (st_scheme st)) (s_dim (st_scheme st)) ->
  ((o_boundary o = true /\ mb = false) \/
   (o_boundary o = false /\ mb = true /\ stripes_mod_ok o st a b (s_lmin (st_scheme st)) (s_dim (st_scheme st)))) ->
  dw_combi_integral o mb st a b (lin_fns cf) = Some (lin_exact a b cf).
Proof.
  intros HI HT La Lb Lc Hdef Hmode.
  apply (dw_linear_exact_on (fun l => (s_lmin (st_scheme st) <= l)%Z)); try assumption.
  - intros l H. exact H.
  - intros l c Hl. destruct (scheme_support (st_scheme st) l c HI Hl) as [Hli _]. apply index_set_In in Hli.
    exact (proj2 (inv_wf (st_scheme st) HI l Hli)).
Qed.

(* executable form of stripes_defined *)
Definition stripes_definedb (o : dw_opts) (st : dw_state) (lmin : Z) (n : nat) : bool :=
  forallb (fun d => match nth_error (st_trees st) d with Some _ => true | None => false end
                    && match dw_stripe_coords o st d lmin with [] => false | _ => true end) (seq 0 n).

Lemma stripes_definedb_sound o st lmin n : stripes_definedb o st lmin n = true -> stripes_defined o st lmin n.
Proof.
  unfold stripes_definedb. rewrite forallb_forall. intros H d Hd.
  specialize (H d ltac:(apply in_seq; lia)). apply andb_true_iff in H. destruct H as [H1 H2].
  destruct (nth_error (st_trees st) d) as [tr|]; [|discriminate]. exists tr. split; [reflexivity|].
  rewrite <- dw_stripe_coords_pts. destruct (dw_stripe_coords o st d lmin); [discriminate | discriminate].
Qed.

(* ---------------------------------------------------------------------------------------------- *)
(* verified checker for the side condition of the modified basis: only the levels lmin .. (largest level of a component)
   matter, so the condition is decidable per state *)
Lemma listQ_eqb_eq : forall p q, listQ_eqb p q = true -> p = q.
Proof.
  induction p as [|x p IH]; intros [|y q] H; simpl in H; try discriminate; [reflexivity|].
  apply andb_true_iff in H. destruct H as [H1 H2]. apply Qc_eqb_eq in H1. subst y. f_equal. apply IH. exact H2.
Qed.

Lemma levels_between_In lo hi l : (lo <= l <= hi)%Z -> In l (levels_between lo hi).
Proof.
  intro H. unfold levels_between. apply in_map_iff. exists (Z.to_nat (l - lo)). split; [lia|]. apply in_seq. lia.
Qed.

Lemma max_level_cs_ge cs l c v : In (l, c) cs -> In v l -> (v <= max_level_cs cs)%Z.
Proof.
  intros Hl Hv. unfold max_level_cs.
  assert (Hin : In v (flat_map fst cs)) by (apply in_flat_map; exists (l, c); split; assumption).
  induction (flat_map fst cs) as [|y r IH]; [destruct Hin|]. simpl. destruct Hin as [->|Hin]; [lia|]. specialize (IH Hin). lia.
Qed.

Theorem lin_mod_okb_sound o st a b : lin_mod_okb o st a b = true ->
  stripes_mod_ok_on o st a b (fun l => (s_lmin (st_scheme st) <= l <= max_level_cs (combi_scheme_adaptive (st_scheme st)))%Z)
                    (s_dim (st_scheme st)).
Proof.
  unfold lin_mod_okb. cbv zeta. rewrite forallb_forall. intros H d l r Hd Hl Er.
  specialize (H d ltac:(apply in_seq; lia)). rewrite forallb_forall in H.
  specialize (H l (levels_between_In _ _ _ Hl)). rewrite Er in H. unfold stripe_mod_okb in H.
  apply orb_true_iff in H. destruct H as [H|H].
  - left. apply Nat.leb_le in H. exact H.
  - right. apply listQ_eqb_eq in H. injection H as H.
    change [(nth d a 0 + nth d b 0) * Qchalf; nth d b 0] with ([(nth d a 0 + nth d b 0) * Qchalf] ++ [nth d b 0]) in H.
    apply app_inj_tail in H. destruct H as [H _]. exact H.
Qed.

(* modified basis: exactness of every product of linear functions in every tiling state that passes the checker *)
Theorem dw_linear_exact_modified_checked a b o st cf :
  Inv (st_scheme st) -> TilesOK a b st ->
  length a = s_dim (st_scheme st) -> length b = s_dim (st_scheme st) -> length cf = s_dim (st_scheme st) ->
  stripes_defined o st (s_lmin (st_scheme st)) (s_dim (st_scheme st)) ->
  o_boundary o = false -> lin_mod_okb o st a b = true ->
  dw_combi_integral o true st a b (lin_fns cf) = Some (lin_exact a b cf).
Proof.
  intros HI HT La Lb Lc Hdef Hbd Hck.
  apply (dw_linear_exact_on (fun l => (s_lmin (st_scheme st) <= l <= max_level_cs (combi_scheme_adaptive (st_scheme st)))%Z));
    try assumption.
  - intros l H. lia.
  - intros l c Hl. destruct (scheme_support (st_scheme st) l c HI Hl) as [Hli _]. apply index_set_In in Hli.
    pose proof (proj2 (inv_wf (st_scheme st) HI l Hli)) as Fl. apply Forall_forall. intros v Hv.
    rewrite Forall_forall in Fl. specialize (Fl v Hv). pose proof (max_level_cs_ge _ l c v Hl Hv). lia.
  - right. split; [exact Hbd|]. split; [reflexivity|]. apply lin_mod_okb_sound. exact Hck.
Qed.
