(* C06/C03: the model run is DEFINED for every history: the selection loop terminates (Proofs/RefSelect.v), the asserts of
   rebalance_interval cannot fail and its fuel suffices (Proofs/RebalanceSeg.v), the while loop of raise_lmax terminates
   within its fuel (Proofs/RaiseLoop.v).  Hence "dw_run = Some" is no longer a hypothesis: for every history and every option
   setting there is a final state, and it satisfies the invariant. *)
From Coq Require Import ZArith List Bool QArith Qcanon Arith Lia.
From SG Require Import Base.QcUtil Model.CombiScheme Model.RefTree Model.DimWise
     Proofs.SchemeBasics Proofs.SchemeInv Proofs.RefTreeInv Proofs.RefSelect Proofs.RefRemoveSort Proofs.DimWiseInv
     Proofs.DimWiseTile Proofs.RebalanceSeg Proofs.DimWiseInvRebal Proofs.RaiseLoop.
Import ListNotations.
Open Scope Z_scope.
Local Arguments Z.add : simpl never.
Local Arguments Z.ltb : simpl never.

Lemma update_fields s l : Inv s -> s_dim (update s l) = s_dim s /\ s_lmin (update s l) = s_lmin s.
Proof.
  intro I. destruct (mem l (s_active s)) eqn:E.
  - apply mem_In in E. destruct (update_spec s l I E) as (_ & A & B & _). split; assumption.
  - unfold update, update_scheme. rewrite E. split; reflexivity.
Qed.

Lemma raise_pass_fields lmaxs lmin dim s : Inv s ->
  s_dim (fst (raise_pass lmaxs lmin dim s)) = s_dim s /\ s_lmin (fst (raise_pass lmaxs lmin dim s)) = s_lmin s.
Proof.
  unfold raise_pass. generalize (s_active s) as act. generalize 0%nat as n. intros n act. revert s n.
  induction act as [|idx act IH]; intros s n I; simpl; [split; reflexivity|].
  destruct (raise_cond lmaxs lmin dim idx); simpl.
  - destruct (update_fields s idx I) as [A B]. destruct (IH (update s idx) (S n) (update_inv s idx I)) as [C D].
    split; congruence.
  - apply IH. assumption.
Qed.

Lemma raise_loop_fields fuel : forall lmaxs lmin dim s s', Inv s -> raise_loop fuel lmaxs lmin dim s = Some s' ->
  s_dim s' = s_dim s /\ s_lmin s' = s_lmin s.
Proof.
  induction fuel as [|f IH]; intros lmaxs lmin dim s s' I E; simpl in E; [discriminate|].
  pose proof (raise_pass_inv lmaxs lmin dim s I) as HP. pose proof (raise_pass_fields lmaxs lmin dim s I) as [HA HB].
  destruct (raise_pass lmaxs lmin dim s) as [s1 n]. simpl in HP, HA, HB.
  destruct (Nat.eqb n 0); [injection E as <-; split; assumption|].
  destruct (IH _ _ _ _ _ HP E) as [A B]. split; congruence.
Qed.

Lemma coarsen_dims_defined lmin dim : forall trees d lmaxs s,
  Inv s -> s_dim s = dim -> s_lmin s = lmin -> 0 <= lmin -> Forall (fun x => 0 <= x) lmaxs ->
  exists trees3 lmaxs' s', coarsen_dims d trees lmaxs lmin dim s = Some (trees3, lmaxs', s') /\
    s_dim s' = dim /\ s_lmin s' = lmin /\ Forall (fun x => 0 <= x) lmaxs'.
Proof.
  induction trees as [|t trees IH]; intros d lmaxs s I Ed Em Hl HF.
  - simpl. eexists _, _, _. split; [reflexivity|]. repeat split; assumption.
  - cbn [coarsen_dims].
    pose proof (update_coarsening_spec (nth d lmaxs 0) t) as HU.
    destruct (update_coarsening (nth d lmaxs 0) t) as [t1 upd]. destruct HU as (_ & Hupd & _).
    destruct (0 <? upd) eqn:Epos.
    + destruct (raise_lmax_defined d upd lmaxs lmin dim s I Ed Em Hl Hupd HF) as (lm1 & s1 & ER & _ & HF1).
      rewrite ER.
      destruct (raise_lmax_spec _ _ _ _ _ _ _ _ I ER) as [_ I1].
      assert (F1 : s_dim s1 = dim /\ s_lmin s1 = lmin).
      { unfold raise_lmax in ER. destruct (raise_loop _ _ _ _ _) as [sx|] eqn:EL; [|discriminate]. injection ER as _ <-.
        destruct (raise_loop_fields _ _ _ _ _ _ I EL). split; congruence. }
      destruct F1 as [Ed1 Em1].
      destruct (IH (S d) lm1 s1 I1 Ed1 Em1 Hl HF1) as (r' & lm & s'' & EC & A & B & C).
      rewrite EC. eexists _, _, _. split; [reflexivity|]. repeat split; assumption.
    + destruct (IH (S d) lmaxs s I Ed Em Hl HF) as (r' & lm & s'' & EC & A & B & C).
      rewrite EC. eexists _, _, _. split; [reflexivity|]. repeat split; assumption.
Qed.

Lemma opt_map_defined {A B} (f : A -> option B) l : (forall x, In x l -> exists y, f x = Some y) -> exists r, opt_map f l = Some r.
Proof.
  induction l as [|x l IH]; intro H; simpl; [eexists; reflexivity|].
  destruct (H x (or_introl eq_refl)) as [y ->]. destruct IH as [r ->]; [intros z Hz; apply H; right; assumption|].
  eexists. reflexivity.
Qed.

(* the invariant extended by the (static) facts that tie the scheme parameters to the state *)
Definition DwInvT (a b : list Qc) (st : dw_state) : Prop :=
  DwInv a b st /\ s_dim (st_scheme st) = st_dim st /\ s_lmin (st_scheme st) = st_lmin st /\ 0 <= st_lmin st /\
  Forall (fun x => 0 <= x) (st_lmax st).

Theorem dw_step_total a b o bens st :
  DwInvT a b st -> exists st', dw_step o bens st = Some st' /\ DwInvT a b st'.
Proof.
  intros (HD & Ed & Em & Hl & HF).
  assert (Hex : exists st', dw_step o bens st = Some st' /\ s_dim (st_scheme st') = st_dim st' /\
                            s_lmin (st_scheme st') = st_lmin st' /\ 0 <= st_lmin st' /\ Forall (fun x => 0 <= x) (st_lmax st')).
  { pose proof HD as (HLm & HLc & Hcur & Hall & HI). unfold dw_step.
    destruct (meta_refine_step_spec (o_margin o) bens (st_meta st) Hcur) as (m1 & Hm1 & Hcur1 & Hlen1 & Hspec1).
    { intros c Hin. apply In_nth_error in Hin. destruct Hin as [d Hd]. destruct (Hall d c Hd) as [F [HS _]].
      split; [assumption|]. eauto. }
    rewrite Hm1.
    assert (Hreb : exists trees2, (if o_rebal o then opt_map (fun c => rebalance (o_dec o) (c_objs c)) (m_conts m1)
                                   else Some (map c_objs (m_conts m1))) = Some trees2).
    { destruct (o_rebal o); [|eexists; reflexivity].
      apply opt_map_defined. intros c1 Hin. apply In_nth_error in Hin. destruct Hin as [d Hd].
      assert (Hc0 : exists c0, nth_error (m_conts (st_meta st)) d = Some c0).
      { destruct (nth_error (m_conts (st_meta st)) d) eqn:E0; [eauto|].
        apply nth_error_None in E0. assert (nth_error (m_conts m1) d <> None) by congruence.
        apply nth_error_Some in H. lia. }
      destruct Hc0 as [c0 Hc0]. pose proof (Hspec1 d c0 Hc0) as Hc1. rewrite Hd in Hc1. injection Hc1 as ->.
      destruct (Hall d c0 Hc0) as [_ [HS _]]. simpl.
      destruct (rebalance_defined (o_dec o) _ _ _ (Seg_repl _ _ _ _ _ HS (step_sel (o_margin o) bens d (length (c_objs c0)))
                                                            (step_sel_length _ _ _ _))) as (t' & E & _).
      eexists. exact E. }
    destruct Hreb as [trees2 ->].
    destruct (coarsen_dims_defined (st_lmin st) (st_dim st) trees2 0 (st_lmax st) (st_scheme st) HI Ed Em Hl HF)
      as (trees3 & lmaxs' & s' & EC & A & B & C).
    rewrite EC. eexists. split; [reflexivity|]. simpl. repeat split; assumption. }
  destruct Hex as (st' & E & A & B & C & D).
  exists st'. split; [exact E|]. split; [eapply dw_step_preserves_inv_any; eassumption|]. repeat split; assumption.
Qed.

Theorem dw_run_total a b o : forall steps st, DwInvT a b st -> exists st', dw_run o steps st = Some st' /\ DwInvT a b st'.
Proof.
  induction steps as [|bens steps IH]; intros st H; simpl.
  - exists st. split; [reflexivity | assumption].
  - destruct (dw_step_total a b o bens st H) as (st1 & -> & H1). apply IH. assumption.
Qed.

Theorem dw_init_invT n lmin lmax a b st :
  Forall2 (fun x y => (x < y)%Qc) a b -> dw_init (S n) lmin lmax a b = Some st -> DwInvT a b st.
Proof.
  intros Hab E. split; [eapply dw_init_inv; eassumption|].
  unfold dw_init in E.
  destruct (1 <? lmax) eqn:E1; [|discriminate]. apply Z.ltb_lt in E1.
  destruct (Nat.eqb (length a) (S n)); [|discriminate]. destruct (Nat.eqb (length b) (S n)); [|discriminate].
  simpl in E. destruct (init_scheme (S n) lmax lmin) as [s|] eqn:ES; [|discriminate].
  injection E as <-. simpl.
  destruct (init_scheme_fields _ _ _ _ ES) as [A B].
  split; [assumption|]. split; [assumption|]. split.
  - unfold init_scheme in ES. destruct (lmax >=? lmin); [|discriminate]. destruct (lmax >=? 0); [|discriminate].
    destruct (lmin >=? 0) eqn:E3; [|discriminate]. apply Z.geb_le in E3. assumption.
  - change (lmax :: repeat lmax n) with (repeat lmax (S n)). generalize (S n). intro k. induction k; simpl; constructor; [lia | assumption].
Qed.

(* for every dimension, start configuration accepted by initialize_refinement, option setting and sequence of benefit
   assignments the run exists and ends in a state satisfying the invariant *)
Theorem dw_reachable_total n lmin lmax a b o steps st0 :
  Forall2 (fun x y => (x < y)%Qc) a b -> dw_init (S n) lmin lmax a b = Some st0 ->
  exists st, dw_run o steps st0 = Some st /\ DwInv a b st.
Proof.
  intros Hab Hinit.
  destruct (dw_run_total a b o steps st0 (dw_init_invT _ _ _ _ _ _ Hab Hinit)) as (st & E & H & _).
  exists st. split; assumption.
Qed.
