(* C03: the statements for EVERY reachable state - rebalancing on or off, any safety factor, any outcome of the binary64
   decisions - and for every state reached from an installed valid state (Proofs/DimWiseInvRebal.v, Proofs/DimWiseInstallP.v:
   the full state invariant survives rebalancing). *)
From Coq Require Import ZArith List Bool QArith Qcanon Arith Lia Sorted.
From SG Require Import Base.QcUtil Model.CombiScheme Model.RefTree Model.DimWise Model.DimWiseInterp Model.DimWiseInstall
     Proofs.SchemeBasics Proofs.SchemeInv Proofs.CombiAbstract Proofs.RefTreeInv Proofs.RefTreeCheck
     Proofs.DimWiseInv Proofs.DimWiseStripes Proofs.DimWiseCombi Proofs.C03Main Proofs.DimWiseNodal
     Proofs.DimWiseInvRebal Proofs.DimWiseInstallP Proofs.DimWiseTotal.
Import ListNotations.
Open Scope Z_scope.

Theorem dw_inv_point_coeff_sum_one a b o st x l0 c0 :
  DwInv a b st -> In (l0, c0) (combi_scheme_adaptive (st_scheme st)) -> dw_in_comp o st x l0 = true ->
  dw_coeff_sum o st x = 1.
Proof.
  intros HD Hin Hx.
  eapply dw_point_coeff_sum_one; [| apply DwInv_TilesOK; exact HD | exact Hin | exact Hx].
  destruct HD as (_ & _ & _ & _ & HI). exact HI.
Qed.

Theorem dw_inv_nodal_exact a b o st (f : list Qc -> Qc) x l0 c0 :
  DwInv a b st -> In (l0, c0) (combi_scheme_adaptive (st_scheme st)) -> dw_in_comp o st x l0 = true ->
  dw_combi_interp o st a b f x = f x.
Proof.
  intros HD Hin Hx.
  eapply dw_nodal_exact; [| apply DwInv_TilesOK; exact HD | exact Hin | exact Hx].
  destruct HD as (_ & _ & _ & _ & HI). exact HI.
Qed.

Theorem dw_any_stripes_sorted_with_endpoints n lmin lmax a b o steps st0 st d l t s :
  Forall2 (fun p q => (p < q)%Qc) a b ->
  dw_init (S n) lmin lmax a b = Some st0 -> dw_run o steps st0 = Some st ->
  nth_error (st_trees st) d = Some t -> stripe_dim o st d l = Some s ->
  StronglySorted Qclt (map fst s) /\ exists r, s = (nth d a 0%Qc, 0) :: r ++ [(nth d b 0%Qc, 0)].
Proof.
  intros Hab Hinit Hrun Hd Hs.
  eapply dw_stripes_sorted_with_endpoints; [apply DwInv_TilesOK; eapply dw_reachable_inv_any; eassumption | exact Hd | exact Hs].
Qed.

Theorem dw_any_point_coeff_sum_one n lmin lmax a b o steps st0 st x l0 c0 :
  Forall2 (fun p q => (p < q)%Qc) a b ->
  dw_init (S n) lmin lmax a b = Some st0 -> dw_run o steps st0 = Some st ->
  In (l0, c0) (combi_scheme_adaptive (st_scheme st)) -> dw_in_comp o st x l0 = true ->
  dw_coeff_sum o st x = 1.
Proof.
  intros Hab Hinit Hrun. eapply dw_inv_point_coeff_sum_one. eapply dw_reachable_inv_any; eassumption.
Qed.

Theorem dw_any_nodal_exact n lmin lmax a b o steps st0 st (f : list Qc -> Qc) x l0 c0 :
  Forall2 (fun p q => (p < q)%Qc) a b ->
  dw_init (S n) lmin lmax a b = Some st0 -> dw_run o steps st0 = Some st ->
  In (l0, c0) (combi_scheme_adaptive (st_scheme st)) -> dw_in_comp o st x l0 = true ->
  dw_combi_interp o st a b f x = f x.
Proof.
  intros Hab Hinit Hrun. eapply dw_inv_nodal_exact. eapply dw_reachable_inv_any; eassumption.
Qed.

(* states reached from an installed valid state *)
Theorem dw_installed_point_coeff_sum_one n lmin lmax a b o rb trees steps st0 st1 st x l0 c0 :
  Forall2 (fun p q => (p < q)%Qc) a b ->
  dw_init (S n) lmin lmax a b = Some st0 ->
  (forall d t, nth_error trees d = Some t -> Seg (nth d a 0%Qc) (nth d b 0%Qc) 0 0 t) ->
  dw_install o rb trees st0 = Some st1 -> dw_run o steps st1 = Some st ->
  In (l0, c0) (combi_scheme_adaptive (st_scheme st)) -> dw_in_comp o st x l0 = true ->
  dw_coeff_sum o st x = 1.
Proof.
  intros Hab Hinit Htrees Hinst Hrun. eapply dw_inv_point_coeff_sum_one. eapply dw_installed_reachable_inv; eassumption.
Qed.

Theorem dw_installed_nodal_exact n lmin lmax a b o rb trees steps st0 st1 st (f : list Qc -> Qc) x l0 c0 :
  Forall2 (fun p q => (p < q)%Qc) a b ->
  dw_init (S n) lmin lmax a b = Some st0 ->
  (forall d t, nth_error trees d = Some t -> Seg (nth d a 0%Qc) (nth d b 0%Qc) 0 0 t) ->
  dw_install o rb trees st0 = Some st1 -> dw_run o steps st1 = Some st ->
  In (l0, c0) (combi_scheme_adaptive (st_scheme st)) -> dw_in_comp o st x l0 = true ->
  dw_combi_interp o st a b f x = f x.
Proof.
  intros Hab Hinit Htrees Hinst Hrun. eapply dw_inv_nodal_exact. eapply dw_installed_reachable_inv; eassumption.
Qed.

(* ---------------------------------------------------------------------------------------------- *)
(* no definedness hypothesis: for EVERY history the run exists (Proofs/DimWiseTotal.v) and the final state has all the properties *)
Theorem dw_every_history n lmin lmax a b o steps st0 :
  Forall2 (fun p q => (p < q)%Qc) a b -> dw_init (S n) lmin lmax a b = Some st0 ->
  exists st, dw_run o steps st0 = Some st /\ DwInv a b st /\ TilesOK a b st /\
    (forall x l0 c0, In (l0, c0) (combi_scheme_adaptive (st_scheme st)) -> dw_in_comp o st x l0 = true ->
       dw_coeff_sum o st x = 1) /\
    (forall (f : list Qc -> Qc) x l0 c0, In (l0, c0) (combi_scheme_adaptive (st_scheme st)) -> dw_in_comp o st x l0 = true ->
       dw_combi_interp o st a b f x = f x).
Proof.
  intros Hab Hinit. destruct (dw_reachable_total n lmin lmax a b o steps st0 Hab Hinit) as (st & E & HD).
  exists st. split; [exact E|]. split; [exact HD|]. split; [apply DwInv_TilesOK; exact HD|]. split.
  - intros x l0 c0. apply (dw_inv_point_coeff_sum_one a b). exact HD.
  - intros f x l0 c0. apply (dw_inv_nodal_exact a b). exact HD.
Qed.
