(* C15 — the loops of the source-derived GlobalTrapezoidalGridWeighted.compute_weights (Gen/UQGridGen.v) against Model/UQ.v, for ALL n.
   Generic loop lemmas (bodies are characterised by a specification, not by their syntax):
     py_for_bounded_fold   a loop whose iterations keep the length of the array is a fold_left
     accum2_nth            the accumulation that writes TWO cells per iteration (w[k] += W1 k; w[k+1] += W2 k), cell by cell
     py_for_clip           the clipping loop with its assert = opt_list (map clip ..)
     py_for_scale_inner    the renormalisation of the inner cells (range(1, n-1)) *)
From Coq Require Import ZArith List Bool Lia QArith Qcanon Arith.
From SG Require Import Base.QcUtil Base.PyLib Base.PyNum Base.PyNumMath Base.PyNumUQ Model.Trap Model.UQ Proofs.TrapBasics
  Proofs.PyNumFacts Proofs.UQ.
Import ListNotations.
Open Scope Z_scope.

(* ---------------------------------------------------------------- loops that keep the length *)
Lemma py_for_bounded_fold {A R} (n : nat) (f : list A -> nat -> list A) (l : list nat) (body : Z -> list A -> flow (list A) R) :
  (forall k w, In k l -> length w = n -> body (Z.of_nat k) w = Nxt (f w k) /\ length (f w k) = n) ->
  forall w0, length w0 = n ->
  py_for (map Z.of_nat l) body w0 = Nxt (fold_left f l w0) /\ length (fold_left f l w0) = n.
Proof.
  induction l as [|k l IH]; intros H w0 Hl; [split; [reflexivity | exact Hl]|].
  cbn [map py_for fold_left]. destruct (H k w0 (or_introl eq_refl) Hl) as [E L]. rewrite E.
  apply IH; [intros j w Hj Hw; apply H; [right; exact Hj | exact Hw] | exact L].
Qed.

(* w[k] += v *)
Definition add_at (w : list Qc) (k : nat) (v : Qc) : list Qc := list_set w k (nth k w 0 + v)%Qc.
Lemma add_at_length w k v : length (add_at w k v) = length w.
Proof. apply list_set_length. Qed.
Lemma add_at_nth w k v j : (k < length w)%nat ->
  nth j (add_at w k v) 0%Qc = if (j =? k)%nat then (nth k w 0 + v)%Qc else nth j w 0%Qc.
Proof.
  intro Hk. unfold add_at. destruct (Nat.eqb_spec j k) as [->|Hne].
  - apply list_set_nth_same. exact Hk.
  - apply list_set_nth_other. intro E. apply Hne. symmetry. exact E.
Qed.

Definition step2 (W1 W2 : nat -> Qc) (w : list Qc) (k : nat) : list Qc := add_at (add_at w k (W1 k)) (S k) (W2 k).

Lemma step2_length W1 W2 w k : length (step2 W1 W2 w k) = length w.
Proof. unfold step2. rewrite !add_at_length. reflexivity. Qed.

Lemma fold_step2_length W1 W2 l w : length (fold_left (step2 W1 W2) l w) = length w.
Proof. revert w. induction l as [|k l IH]; intro w; [reflexivity|]. cbn [fold_left]. rewrite IH. apply step2_length. Qed.

(* cell j after the first m iterations *)
Lemma accum2_nth W1 W2 (w0 : list Qc) (m : nat) : (m < length w0)%nat -> forall j,
  nth j (fold_left (step2 W1 W2) (seq 0 m) w0) 0%Qc
  = (nth j w0 0 + (if (j <? m)%nat then W1 j else 0) + (if ((0 <? j) && (j <=? m))%nat then W2 (j - 1)%nat else 0))%Qc.
Proof.
  induction m as [|m IH]; intros Hm j.
  - cbn [seq fold_left]. destruct j; cbn; ring.
  - rewrite seq_S, fold_left_app. cbn [fold_left Nat.add]. unfold step2 at 1.
    set (w := fold_left (step2 W1 W2) (seq 0 m) w0).
    assert (Lw : length w = length w0) by (unfold w; apply fold_step2_length).
    assert (IHw : forall i, nth i w 0%Qc = (nth i w0 0 + (if (i <? m)%nat then W1 i else 0) + (if ((0 <? i) && (i <=? m))%nat then W2 (i - 1)%nat else 0))%Qc)
      by (intro i; apply IH; lia).
    rewrite add_at_nth by (rewrite add_at_length, Lw; lia). rewrite !add_at_nth by (rewrite Lw; lia).
    destruct (Nat.eqb_spec j (S m)) as [->|N1].
    + destruct (Nat.eqb_spec (S m) m) as [E|_]; [lia|]. rewrite IHw.
      replace (S m <? m)%nat with false by (symmetry; apply Nat.ltb_ge; lia).
      replace (S m <? S m)%nat with false by (symmetry; apply Nat.ltb_ge; lia).
      replace ((0 <? S m) && (S m <=? m))%nat with false by (symmetry; apply andb_false_iff; right; apply Nat.leb_gt; lia).
      replace ((0 <? S m) && (S m <=? S m))%nat with true by (symmetry; apply andb_true_iff; split; [apply Nat.ltb_lt | apply Nat.leb_le]; lia).
      replace (S m - 1)%nat with m by lia. ring.
    + destruct (Nat.eqb_spec j m) as [->|N2].
      * rewrite IHw. replace (m <? m)%nat with false by (symmetry; apply Nat.ltb_ge; lia).
        replace (m <? S m)%nat with true by (symmetry; apply Nat.ltb_lt; lia).
        replace (m <=? S m)%nat with true by (symmetry; apply Nat.leb_le; lia).
        replace (m <=? m)%nat with true by (symmetry; apply Nat.leb_le; lia). ring.
      * rewrite IHw.
        replace (j <? S m)%nat with (j <? m)%nat by (destruct (Nat.ltb_spec j m), (Nat.ltb_spec j (S m)); try reflexivity; lia).
        replace (j <=? S m)%nat with (j <=? m)%nat by (destruct (Nat.leb_spec j m), (Nat.leb_spec j (S m)); try reflexivity; lia).
        reflexivity.
Qed.

(* ---------------------------------------------------------------- the hand model's accumulation, cell by cell *)
Definition iv0 : ival := {| i_x1 := Fin 0%Qc; i_x2 := Fin 0%Qc; i_m0 := 0%Qc; i_m1 := 0%Qc |}.
Lemma accum_nth c ivs : forall j, (j <= length ivs)%nat ->
  nth j (accum c ivs) 0%Qc
  = ((if (j =? 0)%nat then c else w2_of (nth (j - 1) ivs iv0)) + (if (j <? length ivs)%nat then w1_of (nth j ivs iv0) else 0))%Qc.
Proof.
  revert c. induction ivs as [|iv r IH]; intros c j Hj.
  - assert (j = 0)%nat by (simpl in Hj; lia). subst j. cbn. ring.
  - destruct j as [|j].
    + cbn [accum nth Nat.eqb length]. replace (0 <? S (length r))%nat with true by reflexivity. reflexivity.
    + cbn [accum nth length]. rewrite IH by (simpl in Hj; lia).
      replace (S j =? 0)%nat with false by reflexivity. replace (S j - 1)%nat with j by lia.
      replace (S j <? S (length r))%nat with (j <? length r)%nat by reflexivity.
      destruct j as [|j]; [cbn [Nat.eqb nth]; reflexivity|]. cbn [Nat.eqb]. replace (S j - 1)%nat with j by lia. reflexivity.
Qed.

(* ---------------------------------------------------------------- items of pre ++ x :: post at position length pre *)
Lemma list_set_mid {A} (pre : list A) x y post : list_set (pre ++ x :: post) (length pre) y = pre ++ y :: post.
Proof. induction pre as [|z pre IH]; [reflexivity|]. cbn [app list_set length]. rewrite IH. reflexivity. Qed.
Lemma getitem_mid {A} (pre : list A) x post : py_getitem (pre ++ x :: post) (Z.of_nat (length pre)) = Some x.
Proof.
  rewrite (py_getitem_at _ _ (length pre) x); [|reflexivity|rewrite app_length; cbn [length]; lia].
  rewrite app_nth2 by lia. rewrite Nat.sub_diag. reflexivity.
Qed.
Lemma setitem_mid {A} (pre : list A) x y post : py_setitem (pre ++ x :: post) (Z.of_nat (length pre)) y = Some (pre ++ y :: post).
Proof.
  rewrite (py_setitem_at _ _ (length pre) y); [|reflexivity|rewrite app_length; cbn [length]; lia]. rewrite list_set_mid. reflexivity.
Qed.

(* ---------------------------------------------------------------- the clipping loop *)
(* body specification: iteration at the position after `pre` replaces the cell by its clipped value or raises *)
Lemma py_for_clip {R} (body : Z -> list Qc -> flow (list Qc) R) :
  (forall pre x post, body (Z.of_nat (length pre)) (pre ++ x :: post)
                      = match clip x with Some c => Nxt (pre ++ c :: post) | None => Fail end) ->
  forall w pre,
  py_for (map Z.of_nat (seq (length pre) (length w))) body (pre ++ w)
  = match opt_list (map clip w) with Some c => Nxt (pre ++ c) | None => Fail end.
Proof.
  intros Hb w. induction w as [|x w IH]; intro pre.
  - cbn. rewrite app_nil_r. reflexivity.
  - cbn [length seq map py_for opt_list]. rewrite Hb. destruct (clip x) as [c|]; [|reflexivity].
    replace (pre ++ c :: w) with ((pre ++ [c]) ++ w) by (rewrite <- app_assoc; reflexivity).
    replace (S (length pre)) with (length (pre ++ [c])) by (rewrite app_length; cbn [length]; lia).
    rewrite IH. destruct (opt_list (map clip w)) as [cs|]; [|reflexivity]. rewrite <- app_assoc. reflexivity.
Qed.

(* ---------------------------------------------------------------- scaling of a middle segment *)
Lemma py_for_scale_mid {R} (f : Qc) (body : Z -> list Qc -> flow (list Qc) R) :
  (forall pre x post, body (Z.of_nat (length pre)) (pre ++ x :: post) = Nxt (pre ++ (f * x)%Qc :: post)) ->
  forall mid pre post,
  py_for (map Z.of_nat (seq (length pre) (length mid))) body (pre ++ mid ++ post) = Nxt (pre ++ map (fun v => (f * v)%Qc) mid ++ post).
Proof.
  intros Hb mid. induction mid as [|x mid IH]; intros pre post; [reflexivity|].
  cbn [length seq map py_for app]. rewrite Hb.
  replace (pre ++ (f * x)%Qc :: mid ++ post) with ((pre ++ [(f * x)%Qc]) ++ mid ++ post) by (rewrite <- app_assoc; reflexivity).
  replace (S (length pre)) with (length (pre ++ [(f * x)%Qc])) by (rewrite app_length; cbn [length]; lia).
  rewrite IH. rewrite <- app_assoc. reflexivity.
Qed.

(* ---------------------------------------------------------------- small facts *)
Lemma list_eq_nth (l1 l2 : list Qc) : length l1 = length l2 -> (forall j, (j < length l1)%nat -> nth j l1 0%Qc = nth j l2 0%Qc) -> l1 = l2.
Proof.
  revert l2. induction l1 as [|x l1 IH]; intros [|y l2] Hl H; try discriminate; [reflexivity|].
  f_equal; [apply (H 0%nat); simpl; lia|]. apply IH; [simpl in Hl; lia|]. intros j Hj. apply (H (S j)). simpl. lia.
Qed.
Lemma clip_tol_gen : (/ Qcpower (py_Z2Qc 10) 5)%Qc = clip_tol.
Proof. apply Qc_is_canon. vm_compute. reflexivity. Qed.
Lemma strip_zero_ends (inner : list Qc) : strip (0%Qc :: inner ++ [0%Qc]) = inner.
Proof. unfold strip. cbn [tl]. apply removelast_last. Qed.
