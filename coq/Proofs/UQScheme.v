(* C15 x C01 — the coefficient hypothesis of the combined-rule theorems discharged for the adaptive combination scheme:
   for EVERY scheme state satisfying the C01 invariant (all initialisations and all update histories, Props/C01.v) and every
   assignment of 1D probability weight vectors to its level vectors, the combined weights of the UQ rule sum to 1, hence the
   expectation / variance laws hold for the combined sparse-grid rule. *)
From Coq Require Import ZArith List QArith Qcanon Bool Arith Lia.
From SG Require Import Base.QcUtil Model.Trap Model.UQ Model.UQGrid Model.CombiScheme Proofs.SchemeInv Proofs.SchemeIE
  Proofs.TrapBasics Proofs.UQ Proofs.UQGrid.
Import ListNotations.
Open Scope Qc_scope.

Lemma qcZ_add x y : qc_of_Z (x + y) = qc_of_Z x + qc_of_Z y.
Proof. apply Qc_eq_Qeq. unfold qc_of_Z. qc_unfold_ops. rewrite inject_Z_plus. reflexivity. Qed.

Lemma qcZ_sum (l : list Z) : sumQ (map qc_of_Z l) = qc_of_Z (sumZ l).
Proof.
  induction l as [|x l IH]; [reflexivity|].
  cbn [map sumQ]. rewrite IH. unfold sumZ. cbn [fold_right]. rewrite qcZ_add. reflexivity.
Qed.

(* the component grids of a scheme: coefficient of the scheme, 1D weight lists chosen by `ws` for the level vector *)
Definition scheme_comps (sch : list (list Z * Z)) (ws : list Z -> list (list Qc)) : list (Qc * list (list Qc)) :=
  map (fun kc => (qc_of_Z (snd kc), ws (fst kc))) sch.

Lemma scheme_comps_coeffs sch ws : map fst (scheme_comps sch ws) = map qc_of_Z (map snd sch).
Proof. unfold scheme_comps. rewrite !map_map. reflexivity. Qed.

Theorem scheme_combined_weights_sum_one s (ws : list Z -> list (list Qc)) :
  Inv s -> (forall k w, In w (ws k) -> sumQ w = 1) ->
  sumQ (combined_weights (scheme_comps (combi_scheme_adaptive s) ws)) = 1.
Proof.
  intros HI Hw. apply combined_weights_sum_one.
  - rewrite scheme_comps_coeffs, qcZ_sum. transitivity (qc_of_Z 1); [f_equal; exact (scheme_total_one s HI) | reflexivity].
  - intros cw Hcw w Hin. unfold scheme_comps in Hcw. apply in_map_iff in Hcw. destruct Hcw as [[k c] [<- _]].
    cbn [snd fst] in Hin. exact (Hw k w Hin).
Qed.

Theorem scheme_uq_laws s (ws : list Z -> list (list Qc)) f c e :
  Inv s -> (forall k w, In w (ws k) -> sumQ w = 1) ->
  let W := combined_weights (scheme_comps (combi_scheme_adaptive s) ws) in
  length W = length f ->
  ev_combi 2 W (map (fun t => [t; c * t + e]) f)
  = ([rule_mom1 W f; c * rule_mom1 W f + e], [variance_of W f; c * c * variance_of W f])
  /\ ev_nodes 2 W (map (fun t => [t; c * t + e]) f) = ev_combi 2 W (map (fun t => [t; c * t + e]) f)
  /\ 0 <= variance_of W f.
Proof.
  intros HI Hw W Hl. apply uq_combined_rule_laws; [| |exact Hl].
  - rewrite scheme_comps_coeffs, qcZ_sum. transitivity (qc_of_Z 1); [f_equal; exact (scheme_total_one s HI) | reflexivity].
  - intros cw Hcw w Hin. unfold scheme_comps in Hcw. apply in_map_iff in Hcw. destruct Hcw as [[k c0] [<- _]].
    cbn [snd fst] in Hin. exact (Hw k w Hin).
Qed.
