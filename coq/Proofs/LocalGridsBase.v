(* C08 — basic lemmas: naturals embedded in Qc, sums over index ranges, shape of the sub-box data. *)
From Coq Require Import ZArith List QArith Qcanon Bool Arith Lia Lqa.
From SG Require Import Base.QcUtil Model.Tensor Model.LocalGrids Proofs.TensorRule.
Import ListNotations.
Open Scope Qc_scope.

(* ---------- qn : nat -> Qc is a semiring morphism ---------- *)
Lemma qn_0 : qn 0 = 0.
Proof. reflexivity. Qed.

Lemma qn_S n : qn (S n) = qn n + 1.
Proof.
  unfold qn. apply Qc_is_canon. unfold Qcplus, Q2Qc. cbn [this]. rewrite !Qred_correct.
  rewrite Nat2Z.inj_succ. unfold Z.succ. rewrite inject_Z_plus. reflexivity.
Qed.

Lemma qn_add n m : qn (n + m) = qn n + qn m.
Proof. induction n as [|n IH]; cbn [Nat.add]; [rewrite qn_0; ring | rewrite !qn_S, IH; ring]. Qed.

Lemma qn_1 : qn 1 = 1. Proof. reflexivity. Qed.
Lemma qn_2 : qn 2 = Qc2. Proof. reflexivity. Qed.

Lemma qn_nonneg n : 0 <= qn n.
Proof. unfold qn, Qcle, Q2Qc. cbn [this]. rewrite !Qred_correct. change 0%Q with (inject_Z 0).
  rewrite <- Zle_Qle. lia. Qed.

Lemma qn_le n m : (n <= m)%nat -> qn n <= qn m.
Proof.
  intro H. unfold qn, Qcle, Q2Qc. cbn [this]. rewrite !Qred_correct. rewrite <- Zle_Qle. lia.
Qed.

Lemma qn_pos n : 0 < qn (S n).
Proof.
  unfold qn, Qclt, Q2Qc. cbn [this]. rewrite !Qred_correct. change 0%Q with (inject_Z 0).
  rewrite <- Zlt_Qlt. lia.
Qed.

Lemma qn_S_neq0 n : qn (S n) <> 0.
Proof. intro H. pose proof (qn_pos n) as P. rewrite H in P. apply (Qclt_not_eq _ _ P). reflexivity. Qed.

Lemma Qc2_neq0 : Qc2 <> 0.
Proof. rewrite <- qn_2. apply qn_S_neq0. Qed.

Lemma Qchalf_2 : Qchalf * Qc2 = 1.
Proof. apply Qc_is_canon. reflexivity. Qed.

Lemma Qchalf_inv : Qchalf = / Qc2.
Proof. apply Qc_is_canon. reflexivity. Qed.

Lemma Qc2_eq : Qc2 = 1 + 1.
Proof. apply Qc_is_canon. reflexivity. Qed.
Lemma Qchalf_eq : Qchalf = / (1 + 1).
Proof. apply Qc_is_canon. reflexivity. Qed.
Lemma two_neq0 : (1 + 1 : Qc) <> 0.
Proof. rewrite <- Qc2_eq. apply Qc2_neq0. Qed.
Lemma qn_3 : qn 3 = 1 + 1 + 1. Proof. apply Qc_is_canon. reflexivity. Qed.
Lemma qn_4 : qn 4 = 1 + 1 + 1 + 1. Proof. apply Qc_is_canon. reflexivity. Qed.
Lemma three_neq0 : (1 + 1 + 1 : Qc) <> 0.
Proof. rewrite <- qn_3. apply qn_S_neq0. Qed.

(* ring / field with the numerals of the model unfolded to sums of 1 *)
Ltac qnorm := rewrite ?Qc2_eq, ?Qchalf_eq, ?qn_3, ?qn_4 in *.
Ltac qring := qnorm; ring.
Lemma pos_neq0 (x : Qc) : 0 < x -> x <> 0.
Proof. intros H E. rewrite E in H. apply (Qclt_not_eq _ _ H). reflexivity. Qed.

Ltac pose_qn_nonneg :=
  repeat match goal with
  | |- context [qn ?k] =>
    lazymatch goal with
    | _ : 0 <= qn k |- _ => fail
    | _ => pose proof (qn_nonneg k)
    end
  end.
(* side conditions of field:  numeral <> 0,  numeral + qn k <> 0, ... *)
Ltac qside :=
  repeat match goal with |- _ /\ _ => split end;
  first [ discriminate
        | apply qn_S_neq0
        | apply pos_neq0; pose_qn_nonneg; qc_order ].
Ltac qfield := qnorm; field; qside.

(* ---------- sums over seq ---------- *)
Lemma sumQ_const (c : Qc) a n : sumQ (map (fun _ => c) (seq a n)) = qn n * c.
Proof. revert a. induction n as [|n IH]; intro a; cbn [seq map sumQ]; [rewrite qn_0; ring | rewrite IH, qn_S; ring]. Qed.

(* 2 * sum_{i=a}^{a+n-1} i = n * (2a + n - 1) *)
Lemma sumQ_idx a n : Qc2 * sumQ (map qn (seq a n)) = qn n * (Qc2 * qn a + qn n - 1).
Proof.
  revert a. induction n as [|n IH]; intro a; cbn [seq map sumQ].
  - rewrite qn_0. ring.
  - replace (Qc2 * (qn a + sumQ (map qn (seq (S a) n)))) with (Qc2 * qn a + Qc2 * sumQ (map qn (seq (S a) n))) by ring.
    rewrite IH, !qn_S. qring.
Qed.

Lemma sumQ_map_ext {A} (f g : A -> Qc) l : (forall x, In x l -> f x = g x) -> sumQ (map f l) = sumQ (map g l).
Proof. intro H. f_equal. apply map_ext_in. assumption. Qed.

Lemma sumQ_lin (c d : Qc) a n :
  Qc2 * sumQ (map (fun i => c + qn i * d) (seq a n)) = Qc2 * qn n * c + d * (qn n * (Qc2 * qn a + qn n - 1)).
Proof.
  rewrite <- sumQ_idx.
  replace (map (fun i => c + qn i * d) (seq a n)) with (map (fun i => (fun _ => c) i + (fun i => d * qn i) i) (seq a n)).
  - rewrite sumQ_map_add, sumQ_const. rewrite (sumQ_map_scale d qn). ring.
  - apply map_ext. intro i. ring.
Qed.

Lemma seq_snoc a n : seq a (S n) = seq a n ++ [(a + n)%nat].
Proof. rewrite seq_S. reflexivity. Qed.

Lemma map_seq_shift {A} (f : nat -> A) lo n : map f (seq lo n) = map (fun i => f (i + lo)%nat) (seq 0 n).
Proof.
  revert f lo. induction n as [|n IH]; intros f lo; cbn [seq map]; [reflexivity|].
  f_equal. rewrite (IH f (S lo)). rewrite (IH (fun i => f (i + lo)%nat) 1%nat).
  apply map_ext. intro i. f_equal. lia.
Qed.

Lemma dotQ_maps {A} (f g : A -> Qc) l : dotQ (map f l) (map g l) = sumQ (map (fun i => f i * g i) l).
Proof. induction l as [|x l IH]; simpl; [reflexivity | rewrite IH; reflexivity]. Qed.

(* ---------- boolean tests on nat ---------- *)
Ltac bdestr :=
  repeat match goal with
  | |- context [Nat.eqb ?a ?b] => destruct (Nat.eqb_spec a b); try lia
  | |- context [Nat.ltb ?a ?b] => destruct (Nat.ltb_spec a b); try lia
  | |- context [Nat.leb ?a ?b] => destruct (Nat.leb_spec a b); try lia
  end; cbn [andb orb negb].

(* ---------- levels ---------- *)
Lemma pow2_pos l : (1 <= 2 ^ l)%nat.
Proof. induction l; simpl; lia. Qed.

Lemma npwb_ge2 l : (2 <= npwb_of_level l)%nat.
Proof. unfold npwb_of_level. pose proof (pow2_pos l). lia. Qed.

Lemma pow2_neq3 l : (2 ^ l <> 3)%nat.
Proof.
  destruct l as [|[|l]]; cbn [Nat.pow]; lia.
Qed.

Lemma pow2_even l : (1 <= l)%nat -> exists m, (1 <= m)%nat /\ (2 ^ l = 2 * m)%nat.
Proof. destruct l as [|l]; [lia|]. intros _. exists (2 ^ l)%nat. split; [apply pow2_pos | simpl; lia]. Qed.

(* spacing * (number of intervals) = length *)
Lemma spacing_total s e n : qn (S n) * spacing s e (S (S n)) = e - s.
Proof. unfold spacing. replace (S (S n) - 1)%nat with (S n) by lia. field. apply qn_S_neq0. Qed.

Lemma lin_0 s h : lin s h 0 = s.
Proof. unfold lin. rewrite qn_0. ring. Qed.

Lemma lin_last s e n : lin s (spacing s e (S (S n))) (S n) = e.
Proof. unfold lin. rewrite spacing_total. ring. Qed.

Lemma Qc_mul_nonneg x y : 0 <= x -> 0 <= y -> 0 <= x * y.
Proof. intros Hx Hy. replace 0 with (0 * y) by ring. apply Qcmult_le_compat_r; assumption. Qed.

Lemma Qc_mul_pos x y : 0 < x -> 0 < y -> 0 < x * y.
Proof. intros Hx Hy. replace 0 with (0 * y) by ring. apply Qcmult_lt_compat_r; assumption. Qed.

Lemma Qc_add_le_l x y : 0 <= y -> x <= x + y.
Proof. intro H. qc_order. Qed.

Lemma Qc_add_lt_l x y : 0 < y -> x < x + y.
Proof. intro H. qc_order. Qed.

Lemma spacing_nonneg s e n : s <= e -> 0 <= spacing s e (S (S n)).
Proof.
  intro H. apply (Qcmult_lt_0_le_reg_r _ _ (qn (S n))); [apply qn_pos|].
  rewrite (Qcmult_comm (spacing _ _ _)), spacing_total. ring_simplify. qc_order.
Qed.

Lemma spacing_pos s e n : s < e -> 0 < spacing s e (S (S n)).
Proof.
  intro H. apply Qcnot_le_lt. intro Hle.
  pose proof (Qcmult_le_compat_r _ _ (qn (S n)) Hle (Qclt_le_weak _ _ (qn_pos n))) as P.
  rewrite (Qcmult_comm (spacing _ _ _)), spacing_total in P. ring_simplify in P. qc_order.
Qed.

(* every node of linspace lies inside [s,e] *)
Lemma lin_inside s e n i : s <= e -> (i <= S n)%nat ->
  s <= lin s (spacing s e (S (S n))) i /\ lin s (spacing s e (S (S n))) i <= e.
Proof.
  intros Hse Hi. pose proof (spacing_nonneg s e n Hse) as Hh. unfold lin. split.
  - apply Qc_add_le_l. apply Qc_mul_nonneg; [apply qn_nonneg | assumption].
  - rewrite <- (lin_last s e n) at 2. unfold lin. apply Qcplus_le_compat; [apply Qcle_refl|].
    apply Qcmult_le_compat_r; [apply qn_le; assumption | assumption].
Qed.

Lemma qn_lt n m : (n < m)%nat -> qn n < qn m.
Proof.
  intro H. unfold qn, Qclt, Q2Qc. cbn [this]. rewrite !Qred_correct. rewrite <- Zlt_Qlt. lia.
Qed.

(* interior nodes are strictly inside *)
Lemma lin_strict s e n i : s < e -> (0 < i)%nat -> (i < S n)%nat ->
  s < lin s (spacing s e (S (S n))) i /\ lin s (spacing s e (S (S n))) i < e.
Proof.
  intros Hse Hi0 Hi. pose proof (spacing_pos s e n Hse) as Hh. unfold lin. split.
  - apply Qc_add_lt_l. apply Qc_mul_pos; [|assumption]. destruct i; [lia | apply qn_pos].
  - rewrite <- (lin_last s e n) at 2. unfold lin.
    pose proof (Qcmult_lt_compat_r _ _ _ Hh (qn_lt i (S n) Hi)) as P. qc_order.
Qed.
