(* C03/C06: the while loop of raise_lmax terminates within the model's fuel (raise_fuel = sum(lmax) + 4 passes):
   in every pass all qualifying active indices of the snapshot are refined, the indices that become active are their forward
   neighbours (level sum + 1), and whether an index qualifies depends on the index alone - so the smallest level sum of a
   qualifying active index grows with every pass and is bounded by max(lmax) + lmin*(dim-1). *)
From Coq Require Import ZArith List Bool Arith Lia.
From SG Require Import Model.CombiScheme Model.RefTree Model.DimWise Proofs.SchemeBasics Proofs.SchemeInv.
Import ListNotations.
Open Scope Z_scope.
Local Arguments Z.add : simpl never.
Local Arguments Z.mul : simpl never.

(* ---------------------------------------------------------------------------------------------- *)
(* the active set after update_adaptive_combi *)
Lemma refine_scheme_active_upper d l s k :
  In k (s_active (snd (refine_scheme d l s))) -> In k (s_active s) \/ k = bump d 1 l.
Proof.
  unfold refine_scheme. match goal with |- context [if ?c then _ else _] => destruct c end; simpl; [|auto].
  intro H. apply set_add_In in H. destruct H as [->|H]; [right; reflexivity | left; assumption].
Qed.

Lemma loop_active_upper l : forall ds acc k,
  In k (s_active (snd (fold_left (loop_body l) ds acc))) ->
  In k (s_active (snd acc)) \/ exists d, In d ds /\ k = bump d 1 l.
Proof.
  induction ds as [|d ds IH]; intros acc k H; simpl in H; [left; assumption|].
  destruct (IH _ _ H) as [H1|(e & He & ->)].
  - rewrite loop_body_snd in H1. destruct (refine_scheme_active_upper _ _ _ _ H1) as [H2| ->].
    + left. assumption.
    + right. exists d. split; [left; reflexivity | reflexivity].
  - right. exists e. split; [right; assumption | reflexivity].
Qed.

Lemma update_spec s l : Inv s -> In l (s_active s) ->
  Inv (update s l) /\ s_dim (update s l) = s_dim s /\ s_lmin (update s l) = s_lmin s /\
  (forall k, In k (s_active s) -> k <> l -> In k (s_active (update s l))) /\
  (forall k, In k (s_active (update s l)) ->
     (In k (s_active s) /\ k <> l) \/ exists d, (d < s_dim s)%nat /\ k = bump d 1 l).
Proof.
  intros I E. pose proof (update_inv s l I) as IU. split; [exact IU|].
  unfold update in *. assert (Em : mem l (s_active s) = true) by (apply mem_In; assumption).
  rewrite update_scheme_snd in * by assumption.
  destruct (inv_wf s I l (or_introl E)) as [Ll Fl].
  set (s1 := mkScheme (s_dim s) (s_lmin s) (s_lmax s) (s_lmax_adaptive s)
                      (set_remove l (s_active s)) (set_add l (s_old s))) in *.
  assert (Inv s1) as I1.
  { constructor; simpl.
    - intros k [Hk|Hk].
      + apply set_remove_In in Hk. apply (inv_wf s I). left; tauto.
      + apply set_add_In in Hk. destruct Hk as [->|Hk]; [auto|]. apply (inv_wf s I). right; assumption.
    - apply set_remove_NoDup, I.
    - apply set_add_NoDup, I.
    - intros k Hk Ho. apply set_remove_In in Hk. destruct Hk as [Hk Hne].
      apply set_add_In in Ho. destruct Ho as [->|Ho]; [congruence|]. apply (inv_disj s I k); assumption.
    - intros k d Hk Hd Hn. apply set_add_In. right. apply (inv_back s I); [|assumption|assumption].
      destruct Hk as [Hk|Hk].
      + apply set_remove_In in Hk. left; tauto.
      + apply set_add_In in Hk. destruct Hk as [->|Hk]; [left|right]; assumption.
    - destruct (inv_min s I) as [H|H].
      + destruct (lv_eqb (repeat (s_lmin s) (s_dim s)) l) eqn:E2.
        * apply lv_eqb_eq in E2. right. apply set_add_In. left; assumption.
        * apply lv_eqb_neq in E2. left. apply set_remove_In. split; assumption.
      + right. apply set_add_In. right; assumption. }
  destruct (loop_inv l (seq 0 (s_dim s)) ([], s1)) as (_ & _ & Ed & Em2 & Ha); simpl; try assumption.
  { intros d Hd. apply in_seq in Hd. split; [lia|].
    intro Hin. apply set_add_In in Hin. destruct Hin as [Hin|Hin].
    - apply (bump_neq d 1 l); [lia|lia|assumption].
    - apply (inv_no_forward_neighbour s I l d E); [lia|]. right; assumption. }
  simpl in Ed, Em2, Ha.
  split; [exact Ed|]. split; [exact Em2|]. split.
  - intros k Hk Hne. apply Ha. apply set_remove_In. split; assumption.
  - intros k Hk. destruct (loop_active_upper l _ _ _ Hk) as [H1|(d & Hd & ->)].
    + simpl in H1. apply set_remove_In in H1. left. exact H1.
    + right. exists d. split; [apply in_seq in Hd; lia | reflexivity].
Qed.

(* ---------------------------------------------------------------------------------------------- *)
(* one pass *)
Definition pass_body (lmaxs : list Z) (lmin : Z) (dim : nat) (acc : scheme * nat) (idx : lv) : scheme * nat :=
  if raise_cond lmaxs lmin dim idx then (update (fst acc) idx, S (snd acc)) else acc.

Lemma raise_pass_fold lmaxs lmin dim s : raise_pass lmaxs lmin dim s = fold_left (pass_body lmaxs lmin dim) (s_active s) (s, 0%nat).
Proof. reflexivity. Qed.

Lemma pass_spec lmaxs lmin dim m : forall rest acc n,
  Inv acc -> NoDup rest -> (forall k, In k rest -> In k (s_active acc)) ->
  (forall k, In k (s_active acc) -> raise_cond lmaxs lmin dim k = true -> In k rest \/ m + 1 <= sumZ k) ->
  (forall k, In k rest -> raise_cond lmaxs lmin dim k = true -> m <= sumZ k) ->
  let r := fold_left (pass_body lmaxs lmin dim) rest (acc, n) in
  Inv (fst r) /\ s_dim (fst r) = s_dim acc /\ s_lmin (fst r) = s_lmin acc /\
  (forall k, In k (s_active (fst r)) -> raise_cond lmaxs lmin dim k = true -> m + 1 <= sumZ k) /\
  ((forall k, In k rest -> raise_cond lmaxs lmin dim k = false) -> snd r = n).
Proof.
  induction rest as [|idx rest IH]; intros acc n I ND Hact Hq Hm; simpl.
  - split; [assumption|]. split; [reflexivity|]. split; [reflexivity|]. split.
    + intros k Hk Hc. destruct (Hq k Hk Hc) as [[]|H]. assumption.
    + reflexivity.
  - inversion ND as [|? ? Hnotin ND']; subst.
    change (pass_body lmaxs lmin dim (acc, n) idx)
      with (if raise_cond lmaxs lmin dim idx then (update acc idx, S n) else (acc, n)).
    destruct (raise_cond lmaxs lmin dim idx) eqn:Ec.
    + assert (Hidx : In idx (s_active acc)) by (apply Hact; left; reflexivity).
      destruct (update_spec acc idx I Hidx) as (IU & Ed & Em & Hlow & Hup).
      destruct (inv_wf acc I idx (or_introl Hidx)) as [Lidx _].
      destruct (IH (update acc idx) (S n) IU ND') as (A & B & C & D & E).
      * intros k Hk. apply Hlow; [apply Hact; right; assumption|]. intro; subst k. contradiction.
      * intros k Hk Hc. destruct (Hup k Hk) as [[Hk0 Hne]|(d & Hd & ->)].
        -- destruct (Hq k Hk0 Hc) as [[Heq|Hr]|Hs]; [exfalso; apply Hne; symmetry; exact Heq | left; assumption | right; assumption].
        -- right. rewrite sumZ_bump by lia. pose proof (Hm idx (or_introl eq_refl) Ec). lia.
      * intros k Hk Hc. apply Hm; [right; assumption | assumption].
      * split; [exact A|]. split; [etransitivity; [exact B | exact Ed]|]. split; [etransitivity; [exact C | exact Em]|]. split; [exact D|].
        intro Hall. specialize (Hall idx (or_introl eq_refl)). congruence.
    + destruct (IH acc n I ND') as (A & B & C & D & E).
      * intros k Hk. apply Hact. right. assumption.
      * intros k Hk Hc. destruct (Hq k Hk Hc) as [[Heq|Hr]|Hs]; [subst k; congruence | left; assumption | right; assumption].
      * intros k Hk Hc. apply Hm; [right; assumption | assumption].
      * split; [assumption|]. split; [assumption|]. split; [assumption|]. split; [assumption|].
        intro Hall. apply E. intros k Hk. apply Hall. right. assumption.
Qed.

Lemma raise_cond_sum lmaxs lmin dim k : raise_cond lmaxs lmin dim k = true ->
  sumZ k < list_max lmaxs + lmin * (Z.of_nat dim - 1).
Proof. unfold raise_cond. intro H. apply andb_true_iff in H. destruct H as [H _]. apply Z.ltb_lt in H. exact H. Qed.

(* ---------------------------------------------------------------------------------------------- *)
(* the loop *)
Theorem raise_loop_defined lmaxs lmin dim : forall fuel m s,
  Inv s ->
  (forall k, In k (s_active s) -> raise_cond lmaxs lmin dim k = true -> m <= sumZ k) ->
  (Z.to_nat (list_max lmaxs + lmin * (Z.of_nat dim - 1) - m) < fuel)%nat ->
  exists s', raise_loop fuel lmaxs lmin dim s = Some s'.
Proof.
  induction fuel as [|f IH]; intros m s I Hm Hf; [lia|].
  cbn [raise_loop]. rewrite raise_pass_fold.
  destruct (pass_spec lmaxs lmin dim m (s_active s) s 0%nat I (inv_nd_a s I)) as (A & B & C & D & E).
  { auto. } { intros k Hk Hc. left. assumption. } { intros k Hk Hc. apply Hm; assumption. }
  destruct (fold_left (pass_body lmaxs lmin dim) (s_active s) (s, 0%nat)) as [s1 n] eqn:EP. simpl in A, B, C, D, E.
  destruct (Nat.eqb n 0) eqn:En; [eexists; reflexivity|].
  apply Nat.eqb_neq in En.
  apply (IH (m + 1) s1 A D).
  (* n <> 0: some index of the snapshot qualifies, hence m < bound *)
  assert (Hex : exists k, In k (s_active s) /\ raise_cond lmaxs lmin dim k = true).
  { destruct (existsb (raise_cond lmaxs lmin dim) (s_active s)) eqn:Ex.
    - apply existsb_exists in Ex. exact Ex.
    - exfalso. apply En. apply E. intros k Hk.
      destruct (raise_cond lmaxs lmin dim k) eqn:Ek; [|reflexivity].
      assert (existsb (raise_cond lmaxs lmin dim) (s_active s) = true) by (apply existsb_exists; eauto). congruence. }
  destruct Hex as (k & Hk & Hc).
  pose proof (Hm k Hk Hc). pose proof (raise_cond_sum _ _ _ _ Hc). lia.
Qed.

Lemma list_max_le_sum l : Forall (fun x => 0 <= x) l -> 0 <= list_max l <= sumZ l.
Proof.
  induction 1 as [|x l Hx Hl IH]; unfold list_max, sumZ in *; simpl; [lia|].
  fold (fold_right Z.max 0 l) in *. fold (fold_right Z.add 0 l) in *. lia.
Qed.

Theorem raise_lmax_defined d v lmaxs lmin dim s :
  Inv s -> s_dim s = dim -> s_lmin s = lmin -> 0 <= lmin -> 0 <= v -> Forall (fun x => 0 <= x) lmaxs ->
  exists lmaxs' s', raise_lmax d v lmaxs lmin dim s = Some (lmaxs', s') /\ lmaxs' = bump d v lmaxs /\
                    Forall (fun x => 0 <= x) lmaxs'.
Proof.
  intros I Ed Em Hl Hv HF. unfold raise_lmax.
  assert (HF' : Forall (fun x => 0 <= x) (bump d v lmaxs)).
  { clear - HF Hv. revert d. induction HF as [|x l Hx Hl IH]; intros [|d]; simpl; constructor; try assumption; try lia. apply IH. }
  destruct (raise_loop_defined (bump d v lmaxs) lmin dim (raise_fuel (bump d v lmaxs)) (Z.of_nat dim * lmin) s I) as (s' & E).
  - intros k Hk _. destruct (inv_wf s I k (or_introl Hk)) as [Lk Fk]. rewrite Em in Fk.
    pose proof (sumZ_ge_length lmin k Fk). rewrite Lk, Ed in H. exact H.
  - unfold raise_fuel. pose proof (list_max_le_sum _ HF'). lia.
  - rewrite E. eexists _, _. split; [reflexivity|]. split; [reflexivity | assumption].
Qed.
