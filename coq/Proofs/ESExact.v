(* C04, extend-split: every component grid of every area integrates multilinear monomials exactly (C08), the coefficients
   of a valid local combination (C07) add up to 1, so every area contributes the exact integral over its box; if the
   moments of the areas add up to the moment of the domain (true for every partition produced by halving boxes - lemmas
   below - and checked per explored state by moments_additive), the combined integral is exact. *)
From Coq Require Import ZArith List Bool QArith Qcanon Lia Arith.
From SG Require Import Base.QcUtil Model.CombiScheme Model.Tensor Model.LocalGrids Model.ExtendSplit Model.ESExact
     Proofs.SchemeBasics Proofs.TensorRule Proofs.LocalGridsBase Proofs.LocalGridsMain Proofs.ESCombi Proofs.NodalExact.
Import ListNotations.
Local Open Scope Qc_scope.

(* ---------- coefficient total of a valid local combination ---------- *)
Lemma lv_geb_zeros g : Forall (fun x => (0 <= x)%Z) g -> lv_geb g (repeat 0%Z (length g)) = true.
Proof. induction 1 as [|x g Hx _ IH]; simpl; [reflexivity|]. apply andb_true_iff. split; [apply Z.leb_le; exact Hx | exact IH]. Qed.

Theorem valid_local_combi_total_one d gs : valid_local_combi d gs = true -> gs <> [] -> sumZ (map snd gs) = 1%Z.
Proof.
  intros H Hne. destruct (valid_local_combi_sound d gs H) as [W IE].
  destruct gs as [|g0 gs']; [contradiction|].
  assert (D : dominating_sum (g0 :: gs') (repeat 0%Z d) = 1%Z).
  { apply IE; [apply repeat_length | apply Forall_forall; intros x Hx; apply repeat_spec in Hx; lia|].
    exists g0. split; [left; reflexivity|]. destruct (W g0 (or_introl eq_refl)) as [L F]. rewrite <- L. apply lv_geb_zeros. exact F. }
  rewrite <- D. unfold dominating_sum. f_equal. apply map_ext_in. intros g Hg.
  destruct (W g Hg) as [L F]. rewrite <- L. rewrite (lv_geb_zeros _ F). reflexivity.
Qed.

(* ---------- one area ---------- *)
Lemma box_moment_dims_of : forall a b s e l exps, length a = length s -> length b = length s -> length e = length s ->
  length l = length s -> length exps = length s -> box_moment (dims_of a b s e l) exps = bmom s e exps.
Proof.
  unfold box_moment.
  induction a as [|a0 a IH]; intros [|b0 b] [|s0 s] [|e0 e] [|l0 l] [|k exps] La Lb Le Ll Lx; simpl in *; try discriminate; try reflexivity.
  unfold prodQ in *. simpl. rewrite IH by lia. reflexivity.
Qed.

Lemma dims_of_all_present : forall a b s e l, Forall (dim_exact_ok FTrap true) (dims_of a b s e l).
Proof.
  induction a as [|a0 a IH]; intros [|b0 b] [|s0 s] [|e0 e] [|l0 l]; simpl; try constructor.
  - left. reflexivity.
  - apply IH.
Qed.

Lemma dims_of_degree : forall a b s e l exps, length a = length s -> length b = length s -> length e = length s ->
  length l = length s -> length exps = length s -> Forall (fun k => (k <= 1)%nat) exps ->
  Forall2 (fun x k => (k <= eq_degree FTrap x)%nat) (dims_of a b s e l) exps.
Proof.
  induction a as [|a0 a IH]; intros [|b0 b] [|s0 s] [|e0 e] [|l0 l] [|k exps] La Lb Le Ll Lx F; simpl in *; try discriminate; constructor.
  - inversion F; subst. simpl. assumption.
  - inversion F; subst. apply IH; try lia. assumption.
Qed.

Lemma sumQ_map_qcZ (gs : list (lv * Z)) (v : Qc) : sumQ (map (fun g => qc_of_Z (snd g) * v) gs) = qc_of_Z (sumZ (map snd gs)) * v.
Proof.
  induction gs as [|g gs IH]; simpl.
  - change (qc_of_Z 0) with (Q2Qc 0). ring.
  - rewrite IH. change (sumZ (snd g :: map snd gs)) with (snd g + sumZ (map snd gs))%Z.
    rewrite qc_of_Z_add. ring.
Qed.

Theorem area_integral_exact a b bx gs exps :
  valid_local_combi (length (fst bx)) gs = true -> gs <> [] ->
  length a = length (fst bx) -> length b = length (fst bx) -> length (snd bx) = length (fst bx) ->
  length exps = length (fst bx) -> Forall (fun k => (k <= 1)%nat) exps ->
  area_integral a b (bx, gs) exps = bmom (fst bx) (snd bx) exps.
Proof.
  intros Hv Hne La Lb Le Lx Fx. unfold area_integral. cbn [fst snd].
  destruct (valid_local_combi_sound _ gs Hv) as [W _].
  rewrite (sumQ_map_ext _ (fun g => qc_of_Z (snd g) * bmom (fst bx) (snd bx) exps)).
  - rewrite sumQ_map_qcZ. rewrite (valid_local_combi_total_one _ gs Hv Hne). change (qc_of_Z 1) with (Q2Qc 1). ring.
  - intros g Hg. destruct (W g Hg) as [Lg _]. f_equal.
    rewrite grid_exact; [apply box_moment_dims_of; assumption | apply dims_of_all_present | apply dims_of_degree; assumption].
Qed.

(* ---------- all areas ---------- *)
Theorem es_multilinear_exact a b areas exps :
  (forall bx gs, In (bx, gs) areas ->
     valid_local_combi (length a) gs = true /\ gs <> [] /\ length (fst bx) = length a /\ length (snd bx) = length a) ->
  length b = length a -> length exps = length a -> Forall (fun k => (k <= 1)%nat) exps ->
  sumQ (map (fun ar : box * list (lv * Z) => bmom (fst (fst ar)) (snd (fst ar)) exps) areas) = bmom a b exps ->
  es_integral a b areas exps = bmom a b exps.
Proof.
  intros Hall Lb Lx Fx Hadd. rewrite <- Hadd. unfold es_integral. apply sumQ_map_ext.
  intros [bx gs] Hin. destruct (Hall bx gs Hin) as (Hv & Hne & Ls & Le). cbn [fst snd].
  apply area_integral_exact; try congruence.
Qed.

(* ---------- additivity of the moments under the split operations ---------- *)
Lemma mint_additive k s m e : mint k s m + mint k m e = mint k s e.
Proof. unfold mint. field. apply qn_S_neq0. Qed.

Theorem moments_additive_sound a b boxes : moments_additive a b boxes = true ->
  forall exps, In exps (multilinear_exps (length a)) ->
  sumQ (map (fun bx => bmom (fst bx) (snd bx) exps) boxes) = bmom a b exps.
Proof.
  unfold moments_additive. intros H exps Hin. rewrite forallb_forall in H. apply Qc_eqb_eq. apply H. exact Hin.
Qed.

Lemma multilinear_exps_spec d : forall exps, length exps = d -> Forall (fun k => (k <= 1)%nat) exps -> In exps (multilinear_exps d).
Proof.
  induction d as [|d IH]; intros [|k exps] L F; simpl in *; try discriminate; [left; reflexivity|].
  inversion F as [|? ? Hk F']; subst. apply in_flat_map. exists exps. split; [apply IH; [lia | assumption]|].
  destruct k as [|[|k]]; [left; reflexivity | right; left; reflexivity | lia].
Qed.

(* the composed statement with the per-state checker: every multilinear monomial is integrated exactly *)
Theorem es_multilinear_exact_checked a b areas exps :
  (forall bx gs, In (bx, gs) areas ->
     valid_local_combi (length a) gs = true /\ gs <> [] /\ length (fst bx) = length a /\ length (snd bx) = length a) ->
  moments_additive a b (map fst areas) = true ->
  length b = length a -> length exps = length a -> Forall (fun k => (k <= 1)%nat) exps ->
  es_integral a b areas exps = bmom a b exps.
Proof.
  intros Hall Hadd Lb Lx Fx. apply es_multilinear_exact; try assumption.
  rewrite <- (moments_additive_sound a b (map fst areas) Hadd exps (multilinear_exps_spec _ exps Lx Fx)).
  rewrite map_map. reflexivity.
Qed.

(* the two split operations of extend-split preserve the sum of the moments (so every partition they generate from the
   domain satisfies the additivity hypothesis; the bookkeeping induction over the container is not formalised - the
   hypothesis is evaluated per explored state by the checker moments_additive) *)
Lemma bmom_halves : forall s e exps k m, (k < length s)%nat -> length e = length s -> length exps = length s ->
  bmom s (set_nth k m e) exps + bmom (set_nth k m s) e exps = bmom s e exps.
Proof.
  induction s as [|s0 s IH]; intros [|e0 e] [|x exps] k m Hk Le Lx; simpl in *; try discriminate; try lia.
  destruct k as [|k]; simpl.
  - rewrite <- (mint_additive x s0 m e0). ring.
  - rewrite <- (IH e exps k m) by lia. ring.
Qed.

Theorem moments_halves k (bx : box) exps : (k < length (fst bx))%nat -> length (snd bx) = length (fst bx) ->
  length exps = length (fst bx) ->
  sumQ (map (fun h : box => bmom (fst h) (snd h) exps) (halves k bx)) = bmom (fst bx) (snd bx) exps.
Proof.
  intros Hk Le Lx. unfold halves. cbn [map sumQ fst snd].
  rewrite <- (bmom_halves (fst bx) (snd bx) exps k (midpoint (fst bx) (snd bx) k)) by assumption. ring.
Qed.

Theorem moments_split_all : forall s e exps, length e = length s -> length exps = length s ->
  sumQ (map (fun h : box => bmom (fst h) (snd h) exps) (split_all s e)) = bmom s e exps.
Proof.
  induction s as [|s0 s IH]; intros [|e0 e] [|x exps] Le Lx; simpl in *; try discriminate; [ring|].
  rewrite <- (IH e exps) by lia. rewrite <- (mint_additive x s0 (qc_half (s0 + e0)) e0).
  induction (split_all s e) as [|r rs IHr]; simpl; [ring|]. rewrite IHr. ring.
Qed.
