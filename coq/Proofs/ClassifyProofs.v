(* C19 — proofs about the Classification model: arg-max, position in the learning-time scaling, out-of-range filter,
   evaluation summary, bookkeeping over call sequences. *)
From Coq Require Import ZArith List QArith Qcanon Bool Lia Arith Permutation.
From SG Require Import Base.QcUtil Model.DataSet Model.Classify Proofs.DataSetVec Proofs.DataSetScale Proofs.DataSetRevert Proofs.DataSetMove.
Import ListNotations.
Open Scope Qc_scope.

(* ------------------------------------------------------------------ arg-max *)
Lemma nth_app_l {A} (pre l : list A) j d : (j < length pre)%nat -> nth j (pre ++ l) d = nth j pre d.
Proof. intro H. apply app_nth1. exact H. Qed.

Lemma argmax_from_spec : forall l pre best bi i,
  length pre = i -> (bi < i)%nat -> nth bi pre 0 = best ->
  (forall j, (j < i)%nat -> nth j pre 0 <= best) ->
  (forall j, (j < bi)%nat -> nth j pre 0 < best) ->
  let r := argmax_from best bi i l in
  (r < length (pre ++ l))%nat /\
  (forall j, (j < length (pre ++ l))%nat -> nth j (pre ++ l) 0 <= nth r (pre ++ l) 0) /\
  (forall j, (j < r)%nat -> nth j (pre ++ l) 0 < nth r (pre ++ l) 0).
Proof.
  induction l as [|x l IH]; intros pre best bi i Hlen Hbi Hb Hle Hlt; cbn [argmax_from].
  - rewrite app_nil_r. split; [lia|]. split.
    + intros j Hj. rewrite Hb. apply Hle. lia.
    + intros j Hj. rewrite Hb. apply Hlt. exact Hj.
  - assert (Eapp : pre ++ x :: l = (pre ++ [x]) ++ l) by (rewrite <- app_assoc; reflexivity).
    rewrite Eapp.
    assert (Hlen' : length (pre ++ [x]) = S i) by (rewrite app_length; simpl; lia).
    assert (Hold : forall j, (j < i)%nat -> nth j (pre ++ [x]) 0 = nth j pre 0) by (intros j Hj; apply app_nth1; lia).
    assert (Hnew : nth i (pre ++ [x]) 0 = x) by (rewrite app_nth2 by lia; replace (i - length pre)%nat with O by lia; reflexivity).
    destruct (Qc_ltb best x) eqn:E.
    + apply Qc_ltb_lt in E. apply (IH (pre ++ [x]) x i (S i)); auto.
      * intros j Hj. destruct (Nat.eq_dec j i) as [->|N]; [rewrite Hnew; apply Qcle_refl|].
        rewrite Hold by lia. apply Qcle_trans with best; [apply Hle; lia | apply Qclt_le_weak; exact E].
      * intros j Hj. rewrite Hold by lia. apply Qcle_lt_trans with best; [apply Hle; lia | exact E].
    + assert (Hx : x <= best).
      { apply Qcnot_lt_le. intro L. apply Qc_ltb_lt in L. congruence. }
      apply (IH (pre ++ [x]) best bi (S i)); auto.
      * rewrite Hold by lia. exact Hb.
      * intros j Hj. destruct (Nat.eq_dec j i) as [->|N]; [rewrite Hnew; exact Hx|]. rewrite Hold by lia. apply Hle. lia.
      * intros j Hj. rewrite Hold by lia. apply Hlt. exact Hj.
Qed.

(* numpy.argmax: a valid index, its entry is maximal, and it is the FIRST maximal entry *)
Theorem argmax_is_max (l : list Qc) : l <> [] ->
  (argmax l < length l)%nat /\
  (forall j, (j < length l)%nat -> nth j l 0 <= nth (argmax l) l 0) /\
  (forall j, (j < argmax l)%nat -> nth j l 0 < nth (argmax l) l 0).
Proof.
  destruct l as [|x r]; [intro H; contradiction|]. intros _. unfold argmax.
  apply (argmax_from_spec r [x] x 0%nat 1%nat); auto.
  - intros j Hj. replace j with 0%nat by lia. apply Qcle_refl.
  - intros j Hj. lia.
Qed.

(* the class assigned to a sample is class_of (argmax of its densities) - in every code variant; with the label map (or with
   labels 0..k-1 in either variant) it is the label of the classificator with the largest density *)
Theorem classificate_spec cv labels dens i : (i < length dens)%nat ->
  nth i (classificate cv labels dens) 0%Z = class_of cv labels (argmax (nth i dens [])).
Proof.
  intro H. unfold classificate. rewrite (nth_map_lt _ dens i [] 0%Z) by exact H. reflexivity.
Qed.

Lemma nth_map_seq_Z k i : (i < k)%nat -> nth i (map Z.of_nat (seq 0 k)) (Z.of_nat i) = Z.of_nat i.
Proof. intro H. rewrite (nth_map_lt Z.of_nat (seq 0 k) i 0%nat) by (rewrite seq_length; exact H). rewrite seq_nth by exact H. reflexivity. Qed.

Theorem class_is_label_when_contiguous cv k i : (i < k)%nat ->
  class_of cv (map Z.of_nat (seq 0 k)) i = nth i (map Z.of_nat (seq 0 k)) (Z.of_nat i).
Proof. intro H. unfold class_of. destruct (cv_labels cv); [reflexivity | rewrite nth_map_seq_Z by exact H; reflexivity]. Qed.

Theorem class_is_label_when_repaired cv labels i : cv_labels cv = true -> class_of cv labels i = nth i labels (Z.of_nat i).
Proof. intro H. unfold class_of. rewrite H. reflexivity. Qed.

(* ------------------------------------------------------------------ position in the learning-time scaling *)
Lemma scale_point_length n mn fac x : length mn = n -> length fac = n -> length x = n -> length (scale_point mn fac x) = n.
Proof.
  intros. unfold scale_point. rewrite map_length. apply vmul_length; [apply vadd_length; [|apply vneg_length]|]; assumption.
Qed.

Lemma nth_scale_point n mn fac x j : length mn = n -> length fac = n -> length x = n -> (j < n)%nat ->
  nth j (scale_point mn fac x) 0 = (nth j x 0 + - nth j mn 0) * nth j fac 0 + c_lo.
Proof.
  intros Hm Hf Hx Hj. unfold scale_point.
  assert (L : length (vmul (vadd x (vneg mn)) fac) = n) by (apply vmul_length; [apply vadd_length; [|apply vneg_length]|]; assumption).
  rewrite (nth_map_lt (fun y => y + c_lo) _ j 0 0) by lia.
  rewrite (nth_vmul n), (nth_vadd n), (nth_vneg n); auto; [apply vneg_length; assumption | apply vadd_length; [|apply vneg_length]; assumption].
Qed.

(* the position of new data (shift by -min, scale, shift by 0.005) equals the min-max transform used for the learning data *)
Theorem scale_point_is_minmax_transform n mn fac x : length mn = n -> length fac = n -> length x = n ->
  scale_point mn fac x = transform fac (mm_min c_lo mn fac) x.
Proof.
  intros Hm Hf Hx.
  assert (Lmi : length (mm_min c_lo mn fac) = n) by (unfold mm_min; apply map2_length_eq; assumption).
  apply (row_ext _ _ n); [apply scale_point_length; assumption | apply transform_length; assumption|].
  intros j Hj. rewrite (nth_scale_point n), (nth_transform n); auto.
  unfold mm_min. rewrite (nth_map2 _ mn fac j 0 0 0) by lia. ring.
Qed.

(* _internal_scaling on unscaled, well-formed data of the right dimension: the three DataSet calls place every sample at
   scale_point, keep labels and order; then exactly the out-of-range samples are removed *)
Lemma internal_scaling_positions v st d : wf d -> scaled d = false ->
  length (c_min st) = ddim d -> length (c_fac st) = ddim d -> Forall (fun q => q <> 0) (c_fac st) ->
  exists d3, rows d3 = map_rows (scale_point (c_min st) (c_fac st)) (rows d) /\ ddim d3 = ddim d /\
    internal_scaling v st d =
      match remove_samples v (out_indices (values d3)) d3 with (d4, Some _) => (d4, false) | (d4, None) => (d4, true) end.
Proof.
  intros Hwf Hsc Lm Lf Hnz. set (n := ddim d) in *.
  assert (Lneg : length (vneg (c_min st)) = n) by (apply vneg_length; exact Lm).
  destruct (first_shift d (AArr (vneg (c_min st))) false Hwf) as [d1 [E1 I1]];
    [rewrite Hsc; reflexivity | simpl; apply Nat.eqb_eq; exact Lneg|].
  destruct (step_factor n d1 _ _ _ (AArr (c_fac st)) I1) as [d2 [E2 I2]]; [simpl; apply Nat.eqb_eq; exact Lf | exact Hnz|].
  destruct (step_shift n d2 _ _ _ (AScalar c_lo) I2) as [d3 [E3 I3]]; [reflexivity|].
  exists d3. split; [|split].
  - rewrite (inv_rows _ _ _ _ _ I3). apply map_rows_ext_in. intros s Hs.
    pose proof (rows_in_len n _ s (inv_len _ _ _ _ _ I3) Hs) as Ls. cbn [expand] in *.
    assert (Lr1 : length (repeat (1 : Qc) n) = n) by apply repeat_length.
    assert (Lrc : length (repeat c_lo n) = n) by apply repeat_length.
    assert (L1 : length (vmul (repeat 1 n) (c_fac st)) = n) by (apply vmul_length; assumption).
    assert (L2 : length (vmul (vneg (c_min st)) (c_fac st)) = n) by (apply vmul_length; assumption).
    assert (L3 : length (vadd (vmul (vneg (c_min st)) (c_fac st)) (repeat c_lo n)) = n) by (apply vadd_length; assumption).
    apply (row_ext _ _ n); [apply aff_length; assumption | apply scale_point_length; assumption|].
    intros j Hj. rewrite (nth_scale_point n) by assumption. rewrite (nth_aff n) by assumption.
    rewrite (nth_vadd n) by assumption. rewrite !(nth_vmul n) by assumption. rewrite (nth_vneg n) by assumption.
    rewrite !nth_repeat_lt by assumption. ring.
  - exact (inv_dim _ _ _ _ _ I3).
  - unfold internal_scaling. rewrite Hsc, E1, E2, E3. reflexivity.
Qed.

(* ------------------------------------------------------------------ out-of-range filter *)
Lemma in_combine_seq {A} (l : list A) (d : A) k i x :
  In (i, x) (combine (seq k (length l)) l) <-> (k <= i < k + length l)%nat /\ x = nth (i - k) l d.
Proof.
  revert k. induction l as [|y l IH]; intro k; simpl.
  - split; [contradiction | intros [H _]; lia].
  - rewrite IH. split.
    + intros [H|[H1 H2]].
      * inversion H; subst. split; [lia|]. replace (i - i)%nat with O by lia. reflexivity.
      * split; [lia|]. subst x. replace (i - k)%nat with (S (i - S k)) by lia. reflexivity.
    + intros [H1 H2]. destruct (Nat.eq_dec i k) as [->|N].
      * left. subst x. replace (k - k)%nat with O by lia. reflexivity.
      * right. split; [lia|]. subst x. replace (i - k)%nat with (S (i - S k)) by lia. reflexivity.
Qed.

Lemma out_indices_spec vs z : In z (out_indices vs) <->
  exists i, z = Z.of_nat i /\ (i < length vs)%nat /\ out_of_range (nth i vs []) = true.
Proof.
  unfold out_indices. rewrite in_map_iff. split.
  - intros [[i x] [Hz Hin]]. apply filter_In in Hin. destruct Hin as [Hin Ho]. cbn [fst snd] in *.
    apply (in_combine_seq vs [] 0 i x) in Hin. destruct Hin as [Hr Hx]. exists i. subst x. rewrite Nat.sub_0_r in Ho.
    split; [auto | split; [lia | exact Ho]].
  - intros [i [Hz [Hi Ho]]]. exists (i, nth i vs []). split; [cbn; auto|]. apply filter_In. split; [|exact Ho].
    apply (in_combine_seq vs [] 0 i). split; [lia | rewrite Nat.sub_0_r; reflexivity].
Qed.

Lemma out_indices_NoDup vs : NoDup (out_indices vs).
Proof.
  unfold out_indices.
  assert (G : forall k, NoDup (map (fun ip : nat * row => Z.of_nat (fst ip))
                 (filter (fun ip => out_of_range (snd ip)) (combine (seq k (length vs)) vs))) /\
              forall z, In z (map (fun ip : nat * row => Z.of_nat (fst ip))
                 (filter (fun ip => out_of_range (snd ip)) (combine (seq k (length vs)) vs))) -> (Z.of_nat k <= z)%Z).
  { induction vs as [|x vs IH]; intro k; simpl; [split; [constructor | contradiction]|].
    destruct (IH (S k)) as [N L]. destruct (out_of_range x); simpl.
    - split.
      + constructor; [|exact N]. intro Hin. apply L in Hin. lia.
      + intros z [Hz|Hz]; [lia | apply L in Hz; lia].
    - split; [exact N | intros z Hz; apply L in Hz; lia]. }
  apply (G 0%nat).
Qed.

(* the samples kept by _internal_scaling are exactly the in-range ones (labels attached, multiset kept together with the removed ones) *)
Theorem filter_removes_exactly_out_of_range v d3 d4 r :
  remove_samples v (out_indices (values d3)) d3 = (d4, Some r) ->
  Permutation (rows r ++ rows d4) (rows d3) /\
  Forall (fun s => out_of_range (fst s) = false) (rows d4) /\
  Forall (fun s => out_of_range (fst s) = true) (rows r).
Proof.
  intro H. destruct (remove_samples_cover v _ d3 d4 r H (or_intror (out_indices_NoDup _))) as [P _].
  split; [exact P|].
  unfold remove_samples in H. destruct (idx_rejected (out_indices (values d3)) (length (rows d3))) eqn:Erej; [discriminate|].
  set (ni := if v_dedup v then dedup (map Z.to_nat (out_indices (values d3))) else map Z.to_nat (out_indices (values d3))) in *.
  assert (Hni : forall i, In i ni <-> (i < length (rows d3))%nat /\ out_of_range (nth i (values d3) []) = true).
  { intro i. assert (In i ni <-> In i (map Z.to_nat (out_indices (values d3)))) as ->.
    { unfold ni. destruct (v_dedup v); [apply dedup_In | reflexivity]. }
    rewrite in_map_iff. unfold values at 2. split.
    - intros [z [Hz Hin]]. apply out_indices_spec in Hin. destruct Hin as [i' [E [Hi Ho]]]. subst z. rewrite Nat2Z.id in Hz. subst i'.
      unfold values in Hi. rewrite map_length in Hi. split; assumption.
    - intros [Hi Ho]. exists (Z.of_nat i). split; [apply Nat2Z.id|]. apply out_indices_spec. exists i.
      unfold values. rewrite map_length. auto. }
  assert (Hnth : forall i, (i < length (rows d3))%nat -> nth i (values d3) [] = fst (nth i (rows d3) dflt_sample)).
  { intros i Hi. unfold values. rewrite (nth_map_lt fst (rows d3) i dflt_sample []) by exact Hi. reflexivity. }
  inversion H as [[H1 H2]]. split.
  - cbn [set_rows rows]. rewrite Forall_map. rewrite Forall_forall. intros i Hi. apply filter_In in Hi. destruct Hi as [Hs Hm].
    apply in_seq in Hs. destruct (out_of_range (fst (nth i (rows d3) dflt_sample))) eqn:Eo; [|reflexivity].
    assert (In i ni) by (apply Hni; split; [lia | rewrite Hnth by lia; exact Eo]).
    apply memn_In in H0. rewrite H0 in Hm. discriminate.
  - assert (Hr : rows r = map (fun i => nth i (rows d3) dflt_sample) ni \/ rows r = []).
    { destruct ni as [|i1 [|i2 ni']].
      - inversion H2. right. reflexivity.
      - inversion H2. left. reflexivity.
      - destruct (self_scaling_ok v d3); [|discriminate]. inversion H2. left. reflexivity. }
    destruct Hr as [Hr|Hr]; rewrite Hr; [|constructor].
    rewrite Forall_map. rewrite Forall_forall. intros i Hi. apply Hni in Hi. destruct Hi as [Hi Ho]. rewrite <- Hnth by exact Hi. exact Ho.
Qed.

(* ------------------------------------------------------------------ evaluation summary *)
Lemma count_wrong_bounds labels classes : (0 <= count_wrong labels classes <= Z.of_nat (length classes))%Z.
Proof.
  revert classes. induction labels as [|l ls IH]; intros [|c cs]; cbn [count_wrong length]; try lia.
  specialize (IH cs). destruct (Z.eqb l c); lia.
Qed.

Lemma count_wrong_filter labels classes :
  count_wrong labels classes = Z.of_nat (length (filter (fun lc => negb (Z.eqb (fst lc) (snd lc))) (combine labels classes))).
Proof.
  revert classes. induction labels as [|l ls IH]; intros [|c cs]; cbn [count_wrong combine filter length]; try reflexivity.
  cbn [fst snd]. rewrite IH. destruct (Z.eqb l c); cbn [negb length]; lia.
Qed.

Lemma Qc_of_Z_le a b : (a <= b)%Z -> Q2Qc (inject_Z a) <= Q2Qc (inject_Z b).
Proof.
  intro H. unfold Qcle. cbn [this Q2Qc]. rewrite !Qred_correct. rewrite <- Zle_Qle. exact H.
Qed.

Theorem summary_consistent labels classes w t p : summary labels classes = (w, t, p) ->
  t = Z.of_nat (length classes) /\
  w = Z.of_nat (length (filter (fun lc => negb (Z.eqb (fst lc) (snd lc))) (combine labels classes))) /\
  (0 <= w <= t)%Z /\
  p = 1 - Q2Qc (inject_Z w) / Q2Qc (inject_Z t) /\
  (classes <> [] -> 0 <= p /\ p <= 1).
Proof.
  unfold summary. intro H. inversion H; subst; clear H.
  split; [reflexivity|]. split; [apply count_wrong_filter|]. split; [apply count_wrong_bounds|]. split; [reflexivity|].
  intro Hne. pose proof (count_wrong_bounds labels classes) as [B0 B1].
  set (w := count_wrong labels classes) in *. set (t := Z.of_nat (length classes)) in *.
  assert (Ht : (0 < t)%Z) by (unfold t; destruct classes; [contradiction | simpl; lia]).
  assert (Htq : 0 < Q2Qc (inject_Z t)).
  { apply Qclt_le_trans with (Q2Qc (inject_Z 1)); [reflexivity | apply Qc_of_Z_le; lia]. }
  assert (Hq : 0 <= Q2Qc (inject_Z w) / Q2Qc (inject_Z t) /\ Q2Qc (inject_Z w) / Q2Qc (inject_Z t) <= 1).
  { unfold Qcdiv. split.
    - pose proof (Qc_of_Z_le 0 w B0) as H0. change (Q2Qc (inject_Z 0)) with (0 : Qc) in H0.
      rewrite <- (Qcmult_0_l (/ Q2Qc (inject_Z t))).
      apply Qcmult_le_compat_r; [exact H0 | apply Qclt_le_weak, Qcinv_pos; exact Htq].
    - pose proof (Qc_of_Z_le w t B1) as H1.
      apply Qcle_trans with (Q2Qc (inject_Z t) * / Q2Qc (inject_Z t)).
      + apply Qcmult_le_compat_r; [exact H1 | apply Qclt_le_weak, Qcinv_pos; exact Htq].
      + rewrite Qcmult_inv_r; [apply Qcle_refl|]. intro Z0. rewrite Z0 in Htq. apply (Qclt_not_eq _ _ Htq). reflexivity. }
  destruct Hq as [Q0 Q1]. set (q := Q2Qc (inject_Z w) / Q2Qc (inject_Z t)) in *. clearbody q. clear - Q0 Q1.
  split; qc_order.
Qed.

(* ------------------------------------------------------------------ bookkeeping over sequences of later calls *)
Inductive cop := CCall (d : ds) (dens : list (list Qc)) | CTest (d : ds) (dens : list (list Qc)) | CEval.

Definition cstep_state (v : variant) (cv : cvariant) (st : cstate) (o : cop) : cstate :=
  match o with
  | CCall d dens => fst (call v cv st d dens)
  | CTest d dens => fst (test_data v cv st d dens)
  | CEval => st
  end.

Lemma call_state_unchanged v cv st d dens : fst (call v cv st d dens) = st.
Proof.
  unfold call. destruct (negb (c_performed st)); [reflexivity|]. destruct (is_empty d); [reflexivity|].
  destruct (internal_scaling v st d) as [d1 e]. destruct e; [reflexivity|]. destruct (is_empty d1); [reflexivity|].
  destruct (negb (Nat.eqb (length dens) (length (rows d1)))); reflexivity.
Qed.

Definition learning_params (st : cstate) := (c_min st, c_max st, c_fac st, c_class_labels st, c_performed st).

Lemma test_state v cv st d dens :
  let st' := fst (test_data v cv st d dens) in
  learning_params st' = learning_params st /\ (exists suf, c_calc st' = c_calc st ++ suf) /\
  (exists suf, c_test_labels st' = c_test_labels st ++ suf).
Proof.
  assert (Same : learning_params st = learning_params st /\ (exists suf, c_calc st = c_calc st ++ suf) /\
                 (exists suf, c_test_labels st = c_test_labels st ++ suf)).
  { split; [reflexivity|]. split; exists []; rewrite app_nil_r; reflexivity. }
  unfold test_data. destruct (negb (c_performed st)); [exact Same|]. destruct (is_empty d); [exact Same|].
  destruct (internal_scaling v st d) as [d1 e]. destruct e; [exact Same|]. destruct (is_empty d1); [exact Same|].
  destruct (split_without_labels d1) as [om used]. destruct (is_empty used); [exact Same|].
  destruct (negb (Nat.eqb (length dens) (length (rows used)))); [exact Same|].
  cbn [fst c_calc c_test_labels learning_params c_min c_max c_fac c_class_labels c_performed].
  split; [reflexivity|]. split; [eexists; reflexivity|].
  destruct (cv_store cv); [eexists; reflexivity | exists []; rewrite app_nil_r; reflexivity].
Qed.

(* after ANY sequence of later calls: the learning-time scaling and classificator labels are what they were, and the classes
   calculated earlier are a prefix of the classes held now (nothing assigned earlier is changed or reordered) *)
Theorem earlier_results_unchanged v cv ops : forall st,
  let st' := fold_left (cstep_state v cv) ops st in
  learning_params st' = learning_params st /\ exists suf, c_calc st' = c_calc st ++ suf.
Proof.
  induction ops as [|o ops IH]; intro st; cbn [fold_left].
  - split; [reflexivity | exists []; rewrite app_nil_r; reflexivity].
  - destruct (IH (cstep_state v cv st o)) as [P [suf E]].
    assert (S1 : learning_params (cstep_state v cv st o) = learning_params st /\ exists s1, c_calc (cstep_state v cv st o) = c_calc st ++ s1).
    { destruct o as [d dens|d dens|]; cbn [cstep_state].
      - rewrite call_state_unchanged. split; [reflexivity | exists []; rewrite app_nil_r; reflexivity].
      - destruct (test_state v cv st d dens) as [A [B _]]. split; assumption.
      - split; [reflexivity | exists []; rewrite app_nil_r; reflexivity]. }
    destruct S1 as [P1 [s1 E1]]. split; [congruence|]. exists (s1 ++ suf). rewrite E, E1, app_assoc. reflexivity.
Qed.

(* test_data in the code as found: a successful call makes every later evaluate() raise (when it worked before) *)
Theorem evaluate_after_test_data_raises v cv st d dens st' d1 cls s : cv_store cv = false ->
  test_data v cv st d dens = (st', OTest d1 cls s) -> evaluate st <> None -> evaluate st' = None.
Proof.
  intros Hcv H Hev. unfold test_data in H.
  destruct (negb (c_performed st)) eqn:Ep; [inversion H|]. destruct (is_empty d); [inversion H|].
  destruct (internal_scaling v st d) as [d1' e]. destruct e; [inversion H|]. destruct (is_empty d1'); [inversion H|].
  destruct (split_without_labels d1') as [om used]. destruct (is_empty used) eqn:Eu; [inversion H|].
  destruct (negb (Nat.eqb (length dens) (length (rows used)))) eqn:El; [inversion H|].
  rewrite Hcv in H. inversion H; subst; clear H.
  unfold evaluate in *. cbn [c_performed c_test_labels c_calc]. rewrite Ep in *.
  destruct (c_test_labels st) as [|t0 tl] eqn:Et; [contradiction|].
  destruct (Nat.eqb (length (t0 :: tl)) (length (c_calc st))) eqn:E1; [|contradiction].
  apply Nat.eqb_eq in E1. apply negb_false_iff, Nat.eqb_eq in El.
  assert (Hn : length (rows used) <> 0%nat) by (unfold is_empty in Eu; destruct (rows used); [discriminate | simpl; lia]).
  assert (Nat.eqb (length (t0 :: tl)) (length (c_calc st ++ classificate cv (c_class_labels st) dens)) = false) as ->; [|reflexivity].
  apply Nat.eqb_neq. rewrite app_length. unfold classificate. rewrite map_length. lia.
Qed.

(* ... and once repaired the bookkeeping stays consistent: evaluate() keeps working and covers the tested samples *)
Theorem evaluate_after_test_data_repaired v cv st d dens st' d1 cls s : cv_store cv = true ->
  test_data v cv st d dens = (st', OTest d1 cls s) ->
  length (c_test_labels st) = length (c_calc st) ->
  length (c_test_labels st') = length (c_calc st') /\ evaluate st' = Some (summary (c_test_labels st') (c_calc st')) /\
  c_calc st' = c_calc st ++ cls.
Proof.
  intros Hcv H Hlen. unfold test_data in H.
  destruct (negb (c_performed st)) eqn:Ep; [inversion H|]. destruct (is_empty d); [inversion H|].
  destruct (internal_scaling v st d) as [d1' e]. destruct e; [inversion H|]. destruct (is_empty d1'); [inversion H|].
  destruct (split_without_labels d1') as [om used]. destruct (is_empty used) eqn:Eu; [inversion H|].
  destruct (negb (Nat.eqb (length dens) (length (rows used)))) eqn:El; [inversion H|].
  rewrite Hcv in H. inversion H; subst; clear H.
  apply negb_false_iff, Nat.eqb_eq in El.
  cbn [c_test_labels c_calc].
  assert (L : length (c_test_labels st ++ map snd (rows used)) = length (c_calc st ++ classificate cv (c_class_labels st) dens)).
  { rewrite !app_length. unfold classificate. rewrite !map_length. rewrite Hlen. f_equal. symmetry. exact El. }
  split; [exact L|]. split; [|reflexivity].
  unfold evaluate. cbn [c_performed c_test_labels c_calc]. rewrite Ep.
  destruct (c_test_labels st ++ map snd (rows used)) eqn:E.
  - exfalso. apply app_eq_nil in E. destruct E as [_ E]. unfold is_empty in Eu. destruct (rows used); [discriminate | discriminate].
  - apply Nat.eqb_eq in L. rewrite L. reflexivity.
Qed.

(* ------------------------------------------------------------------ the learning data sit at scale_point as well *)
Lemma c_lo_lt_hi : Qc_ltb c_lo c_hi = true.
Proof. vm_compute. reflexivity. Qed.

Theorem learning_positions d sd : wf d -> scale_range c_lo c_hi true d = (sd, false) ->
  exists mn mx fac,
    omin sd = Some mn /\ omax sd = Some mx /\ sfactor sd = FArr fac /\
    data_min (values d) = Some mn /\ data_max (values d) = Some mx /\
    length mn = ddim d /\ length fac = ddim d /\ Forall (fun q => q <> 0) fac /\
    rows sd = map_rows (scale_point mn fac) (rows d).
Proof.
  intros Hwf H.
  assert (Hne : values d <> []) by (destruct Hwf as [Hn _]; unfold values; destruct (rows d); [contradiction | discriminate]).
  destruct (scaler_lengths (ddim d) c_lo c_hi (values d) Hne (wf_values_len d Hwf)) as [mn [mx [Emn [Emx [Lsc [Lmi Lmn]]]]]].
  unfold scale_range in H. rewrite c_lo_lt_hi in H. cbn [negb] in H. rewrite Emn, Emx in H. rewrite orb_true_r in H.
  inversion H; subst; clear H. cbn [omin omax sfactor rows].
  exists mn, mx, (mm_scale c_lo c_hi mn mx).
  repeat (split; [first [reflexivity | assumption]|]).
  split; [apply mm_scale_nonzero; apply Qc_ltb_lt; exact c_lo_lt_hi|].
  apply map_rows_ext_in. intros s Hs. symmetry. apply (scale_point_is_minmax_transform (ddim d)); auto.
  destruct Hwf as [_ Hl]. rewrite Forall_forall in Hl. apply Hl. exact Hs.
Qed.

(* ------------------------------------------------------------------ concrete object used by the non-vacuity example of Props/C19.v *)
Definition ex_learn : ds := fresh [([0; 0], 0%Z); ([1; Qc2], 0%Z); ([Qc2 + Qc2; Qc2 + Qc2], 1%Z); ([Qc2 + 1; Qc2 + Qc2], 1%Z)].
Definition ex_st : cstate :=
  match initialize as_found ex_learn None with
  | Some ir => mkC (i_min ir) (i_max ir) (i_fac ir) (i_scaled ir) [0%Z; 1%Z] [0%Z; 1%Z] [0%Z; 1%Z] true
  | None => mkC [] [] [] (fresh []) [] [] [] false
  end.
Definition ex_new : ds := fresh [([1; 1], 0%Z); ([Qc2 + Qc2 + Qc2 + Qc2 + 1; 0], 1%Z); ([Qc2 + 1; Qc2 + 1], 0%Z)].
