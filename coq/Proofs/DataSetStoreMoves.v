(* C18 (phase 3) - multiset preservation at the level of the store machine (Model/DataSetStore.v = the wire machine): from ANY store,
   hence at every step of every history, each sample-moving operation - including remove_labels and split_one_vs_others - keeps the
   multiset of (sample, label) pairs (resp. of samples, where labels are rewritten on purpose) of the data sets it reads and writes. *)
From Coq Require Import ZArith List QArith Qcanon Bool Lia Arith Permutation.
From SG Require Import Base.QcUtil Model.DataSet Model.DataSetOff Model.DataSetStore Proofs.DataSetVec Proofs.DataSetScale Proofs.DataSetRevert
  Proofs.DataSetMove Proofs.DataSetTrack Proofs.DataSetDerived Proofs.DataSetLabels.
Import ListNotations.
Open Scope Qc_scope.

Lemma nth_error_upd_same {A} h (x : A) st : (h < length st)%nat -> nth_error (upd h x st) h = Some x.
Proof. revert h. induction st as [|y st IH]; intros [|h] H; cbn in *; try lia; [reflexivity | apply IH; lia]. Qed.

Lemma nth_error_lt {A} (st : list A) h d : nth_error st h = Some d -> (h < length st)%nat.
Proof. intro H. apply nth_error_Some. rewrite H. discriminate. Qed.

Lemma concatenate_o_new_rows v a b r : concatenate_o v a b = CNewO r -> rows (base r) = rows (base a) ++ rows (base b) /\ True.
Proof.
  unfold concatenate_o. destruct (concatenate (v_base v) (base a) (base b)) as [r0| | |] eqn:E; try discriminate.
  destruct (v_refuse v && negb (is_empty (base b) || same_affine a b)); [discriminate|]. intro H. inversion H; subst. cbn [lift base].
  split; [exact (proj1 (concatenate_cover _ _ _ _ E)) | exact I].
Qed.

Definition labels_ok (d : dso) : Prop := Forall (fun s => (-1 <= snd s)%Z) (rows (base d)).

Definition moves_ok (v : variant2) (st : list dso) (o : sop) : Prop :=
  match o with
  | SShuffle h _ | SMbf h _ =>
    forall d, nth_error st h = Some d ->
      exists d', nth_error (sstep v st o) h = Some d' /\ Permutation (rows (base d')) (rows (base d))
  | SRemoveLabels h _ _ =>
    forall d, nth_error st h = Some d -> labels_ok d ->
      exists d', nth_error (sstep v st o) h = Some d' /\ Permutation (map fst (rows (base d'))) (map fst (rows (base d)))
  | SSplitPieces h _ =>
    forall d, nth_error st h = Some d ->
      sstep v st o = st \/ exists a b, sstep v st o = st ++ [a; b] /\ rows (base a) ++ rows (base b) = rows (base d)
  | SSplitLabels h =>
    forall d, nth_error st h = Some d ->
      sstep v st o = st \/ exists ps, sstep v st o = st ++ ps /\ Permutation (flat_map (fun p => rows (base p)) ps) (rows (base d))
  | SSplitWL h =>
    forall d, nth_error st h = Some d -> labels_ok d ->
      sstep v st o = st \/ exists a b, sstep v st o = st ++ [a; b] /\ Permutation (rows (base a) ++ rows (base b)) (rows (base d))
  | SRemove h idx =>
    forall d, nth_error st h = Some d -> v_dedup (v_base v) = true \/ NoDup idx ->
      exists d', nth_error (sstep v st o) h = Some d' /\
        (rows (base d') = rows (base d) \/                                  (* rejected indices: nothing happens *)
         (exists r, sstep v st o = upd h d' st ++ [r] /\ Permutation (rows (base r) ++ rows (base d')) (rows (base d))) \/
         (sstep v st o = upd h d' st))                                       (* raised after the deletion (unreachable on tracked stores) *)
  | SConcat h h2 =>
    forall d d2, nth_error st h = Some d -> nth_error st h2 = Some d2 ->
      sstep v st o = st \/ exists r, sstep v st o = st ++ [r] /\ rows (base r) = rows (base d) ++ rows (base d2)
  | SCopy h => forall d, nth_error st h = Some d -> sstep v st o = st ++ [d]
  | SOneVsOthers h _ => sstep v st o = st
  | _ => True
  end.

Theorem sstep_moves_keep_multiset v st o : moves_ok v st o.
Proof.
  destruct o as [h lo hi ov|h a ov|h a ov|h|h perm|h idx|h|h p|h|h idx|h h2|h|h p idx|h order]; cbn [moves_ok]; try exact I;
    unfold sstep; cbn [sstep_res].
  - (* shuffle *) intros d E. rewrite E. unfold upd_state, shuffle_o. destruct (shuffle_with perm (base d)) as [b' e] eqn:E1. cbn [fst].
    exists (lift d b'). split; [apply nth_error_upd_same; exact (nth_error_lt _ _ _ E)|]. cbn [lift base]. destruct e.
    + apply shuffle_rejected_unmodified in E1. subst. apply Permutation_refl.
    + exact (proj1 (shuffle_permutation _ _ _ E1)).
  - (* mbf *) intros d E. rewrite E. unfold upd_state, mbf_o. destruct (move_boundaries_to_front idx (base d)) as [b' e] eqn:E1. cbn [fst].
    exists (lift d b'). split; [apply nth_error_upd_same; exact (nth_error_lt _ _ _ E)|]. cbn [lift base]. destruct e.
    + unfold move_boundaries_to_front in E1. destruct (idx_valid idx (length (rows (base d)))); inversion E1; subst. apply Permutation_refl.
    + exact (proj1 (mbf_permutation _ _ _ E1)).
  - (* split_labels *) intros d E. rewrite E. destruct (update_internal_raises (base d) && negb (is_empty (base d))); [left; reflexivity|].
    right. exists (split_labels_o d). split; [reflexivity|]. unfold split_labels_o. rewrite flat_map_map. cbn [lift base].
    exact (proj1 (split_labels_cover (base d))).
  - (* split_pieces *) intros d E. rewrite E. destruct (update_internal_raises (base d)); [left; reflexivity|].
    right. unfold split_pieces_o. destruct (split_pieces p (base d)) as [a b] eqn:E1. exists (lift d a), (lift d b). split; [reflexivity|].
    exact (proj1 (split_pieces_cover _ _ _ _ E1)).
  - (* split_without_labels *) intros d E Hl. rewrite E. destruct (update_internal_raises (base d)); [left; reflexivity|].
    right. unfold split_without_labels_o. destruct (split_without_labels (base d)) as [a b] eqn:E1. exists (lift d a), (lift d b).
    split; [reflexivity|]. exact (proj1 (split_without_labels_cover _ _ _ E1 Hl)).
  - (* remove_samples *) intros d E Hnd. rewrite E. unfold remove_samples_o.
    destruct (remove_samples (v_base v) idx (base d)) as [b' r] eqn:E1. cbn [fst].
    assert (Hh := nth_error_lt _ _ _ E).
    destruct r as [r'|].
    + destruct (remove_samples_cover _ _ _ _ _ E1 Hnd) as [P _].
      destruct idx as [|z zs].
      * exists (lift d b'). split; [rewrite nth_error_app1 by (rewrite upd_length; exact Hh); apply nth_error_upd_same; exact Hh|].
        right. left. exists (fresh_o []). split; [reflexivity|]. cbn [fresh_o base lift].
        assert (Hr : rows r' = []).
        { unfold remove_samples in E1. cbn in E1. destruct (v_dedup (v_base v)); cbn in E1; inversion E1; reflexivity. }
        rewrite Hr in P. exact P.
      * match goal with |- context [if ?c then None else Some _] => destruct c end.
        -- exists (lift d b'). split; [apply nth_error_upd_same; exact Hh|]. right. right. reflexivity.
        -- exists (lift d b'). split; [rewrite nth_error_app1 by (rewrite upd_length; exact Hh); apply nth_error_upd_same; exact Hh|].
           right. left. exists (lift d r'). split; [reflexivity|]. exact P.
    + exists (lift d b'). split; [apply nth_error_upd_same; exact Hh|].
      unfold remove_samples in E1. destruct (idx_rejected idx (length (rows (base d)))).
      * inversion E1; subst. left. reflexivity.
      * right. right. reflexivity.
  - (* concatenate *) intros d d2 E E2. rewrite E, E2. cbn [fst].
    destruct (concatenate_o v d d2) as [r| | |] eqn:Ec; try (left; reflexivity).
    right. exists r. split; [reflexivity|]. destruct (concatenate_o_new_rows v d d2 r Ec). assumption.
  - (* copy *) intros d E. rewrite E. reflexivity.
  - (* remove_labels *) intros d E Hl. rewrite E. destruct (update_internal_raises (base d)).
    + exists d. split; [exact E | apply Permutation_refl].
    + cbn [fst]. exists (remove_labels_o p idx d). split; [apply nth_error_upd_same; exact (nth_error_lt _ _ _ E)|].
      exact (proj1 (remove_labels_keeps_samples p idx (base d) Hl)).
  - (* split_one_vs_others *) destruct (nth_error st h) as [d|]; [|reflexivity].
    destruct (update_internal_raises (base d) && negb (is_empty (base d))); reflexivity.
Qed.
