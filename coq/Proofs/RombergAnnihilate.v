(* C11 — the Romberg coefficients annihilate the error terms: with r = (1/2)^e and c_{m,j} = A_j * B_{m-j}
   (Proofs/RombergCoeff.v) the generating polynomial P_m(z) = sum_j c_{m,j} z^j satisfies
   (1 - r^(m+1)) * P_{m+1}(z) = (z - r^(m+1)) * P_m(z), hence P_m(r^l) = 0 for 1 <= l <= m (and P_m(1) = 1):
   sum_j c_{m,j} * (h_j^e)^l = 0 for l = 1..m, for EVERY m.  (c_{m,j} is the Lagrange basis polynomial of the nodes
   h_0^e .. h_m^e evaluated at 0.) *)
From Coq Require Import ZArith List QArith Qcanon Bool Arith Lia.
From SG Require Import Base.QcUtil Model.Romberg Proofs.RombergBasics Proofs.RombergCoeff.
Import ListNotations.
Open Scope Qc_scope.

Section Geometric.
Variable r : Qc.
Hypothesis r_pos : 0 < r.
Hypothesis r_lt1 : r < 1.

Local Notation A := (gA r).
Local Notation B := (gB r).

(* P_m(z) *)
Definition gpoly (m : nat) (z : Qc) : Qc := sumQ (map (fun j => A j * B (m - j) * z ^ j) (seq 0 (S m))).

Lemma gpoly_step m z : (1 - r ^ (S m)) * gpoly (S m) z = (z - r ^ (S m)) * gpoly m z.
Proof.
  unfold gpoly at 1. rewrite <- sumQ_map_scale.
  rewrite (sumQ_map_ext_in _ (fun j => (match j with O => 0 | S k => A k * B (m - k) end) * z ^ j
                                      - r ^ (S m) * ((if Nat.eqb j (S m) then 0 else A j * B (m - j)) * z ^ j))).
  2:{ intros j Hj. apply in_seq in Hj.
      transitivity ((1 - r ^ (S m)) * (A j * B (S m - j)) * z ^ j); [ring|].
      rewrite (conv_term r r_pos r_lt1 m j) by lia. ring. }
  rewrite (sumQ_map_sub (fun j => (match j with O => 0 | S k => A k * B (m - k) end) * z ^ j)
                        (fun j => (if Nat.eqb j (S m) then 0 else A j * B (m - j)) * z ^ j)).
  assert (G : sumQ (map (fun j => (match j with O => 0 | S k => A k * B (m - k) end) * z ^ j) (seq 0 (S (S m)))) = z * gpoly m z).
  { change (seq 0 (S (S m))) with (0%nat :: seq 1 (S m)). rewrite <- seq_shift. cbn [map sumQ]. rewrite map_map.
    unfold gpoly. rewrite <- sumQ_map_scale.
    rewrite (sumQ_map_ext_in (fun x : nat => A x * B (m - x) * z ^ S x) (fun j => z * (A j * B (m - j) * z ^ j))).
    - ring.
    - intros j _. simpl. ring. }
  assert (Hh : sumQ (map (fun j => (if Nat.eqb j (S m) then 0 else A j * B (m - j)) * z ^ j) (seq 0 (S (S m)))) = gpoly m z).
  { rewrite (seq_S (S m) 0), map_app, sumQ_app. cbn [map sumQ]. change (0 + S m)%nat with (S m). rewrite Nat.eqb_refl.
    unfold gpoly.
    rewrite (sumQ_map_ext_in (fun j => (if Nat.eqb j (S m) then 0 else A j * B (m - j)) * z ^ j) (fun j => A j * B (m - j) * z ^ j)).
    - ring.
    - intros j Hj. apply in_seq in Hj. destruct (Nat.eqb_spec j (S m)) as [E|_]; [lia | reflexivity]. }
  rewrite G, Hh. ring.
Qed.

Lemma gpoly_at_one m : gpoly m 1 = 1.
Proof.
  transitivity (conv r m); [|apply (conv_one r r_pos r_lt1 m)]. unfold gpoly, conv. apply sumQ_map_ext_in. intros j _.
  assert (P : (1 : Qc) ^ j = 1) by (induction j as [|j IH]; simpl; [reflexivity | rewrite IH; ring]).
  rewrite P. ring.
Qed.

(* P_m vanishes at r^1 .. r^m *)
Theorem gpoly_root m : forall l, (1 <= l <= m)%nat -> gpoly m (r ^ l) = 0.
Proof.
  induction m as [|m IH]; intros l Hl; [lia|].
  assert (N := one_minus_rpow r r_pos r_lt1 (S m) ltac:(lia)).
  assert (St := gpoly_step m (r ^ l)).
  assert (Z : (1 - r ^ (S m)) * gpoly (S m) (r ^ l) = 0).
  { rewrite St. destruct (Nat.eq_dec l (S m)) as [->|NE]; [ring|]. rewrite IH by lia. ring. }
  apply Qcmult_integral in Z. destruct Z as [Z|Z]; [contradiction | exact Z].
Qed.

End Geometric.

(* ---------------------------------------------------------------------------------------------- *)
(* back to get_romberg_coefficient: sum_j c_{m,j} * (h_j^e)^l = 0 for 1 <= l <= m *)

Lemma romberg_coefficient_split a b e m j : a <> b -> (1 <= e)%nat -> (j <= m)%nat ->
  romberg_coefficient a b e m j = gA (ratio e) j * gB (ratio e) (m - j).
Proof.
  intros H He Hj. destruct (ratio_range e He) as [R0 R1]. unfold romberg_coefficient.
  rewrite (map_ext _ (gfactor (ratio e) j)) by (intro i; apply coeff_factor_pure; exact H).
  rewrite <- (Nat.sub_0_r (S m)). rewrite (gcoeff_split (ratio e) R0 R1 0 m j) by lia. rewrite Nat.sub_0_r. reflexivity.
Qed.

Theorem romberg_coeff_annihilates a b e m l : a <> b -> (1 <= e)%nat -> (1 <= l <= m)%nat ->
  sumQ (map (fun j => romberg_coefficient a b e m j * (step_width a b j ^ e) ^ l) (seq 0 (S m))) = 0.
Proof.
  intros H He Hl. destruct (ratio_range e He) as [R0 R1].
  rewrite (sumQ_map_ext_in _ (fun j => ((b - a) ^ e) ^ l * (gA (ratio e) j * gB (ratio e) (m - j) * (ratio e ^ l) ^ j))).
  - rewrite sumQ_map_scale. fold (gpoly (ratio e) m (ratio e ^ l)). rewrite (gpoly_root (ratio e) R0 R1 m l Hl). ring.
  - intros j Hj. apply in_seq in Hj. rewrite romberg_coefficient_split by (try assumption; lia).
    rewrite step_width_pow, pow_mul_base, !pow_pow, (Nat.mul_comm j l). ring.
Qed.

(* polynomials in t = h^e without constant term: coefficient list p_1 .. p_n, value t * (p_1 + p_2 t + ...) *)
Fixpoint pev (p : list Qc) (x : Qc) : Qc := match p with [] => 0 | c :: q => c + x * pev q x end.

Lemma pev_as_sum p x : x * pev p x = sumQ (map (fun l => nth l p 0 * x ^ (S l)) (seq 0 (length p))).
Proof.
  induction p as [|c q IH]; [simpl; ring|].
  cbn [length]. change (seq 0 (S (length q))) with (0%nat :: seq 1 (length q)). rewrite <- seq_shift.
  cbn [map sumQ nth pev]. rewrite map_map.
  rewrite (sumQ_map_ext_in (fun l => nth (S l) (c :: q) 0 * x ^ S (S l)) (fun l => x * (nth l q 0 * x ^ (S l)))).
  - rewrite sumQ_map_scale, <- IH. simpl. ring.
  - intros l _. cbn [nth]. simpl. ring.
Qed.

(* sum_j c_{m,j} * t_j * p(t_j) = 0 whenever p has at most m coefficients (degree of t*p(t) at most m), t_j = h_j^e *)
Theorem romberg_coeff_annihilates_poly a b e m p : a <> b -> (1 <= e)%nat -> (length p <= m)%nat ->
  sumQ (map (fun j => romberg_coefficient a b e m j * (step_width a b j ^ e * pev p (step_width a b j ^ e))) (seq 0 (S m))) = 0.
Proof.
  intros H He Hp.
  rewrite (sumQ_map_ext_in _ (fun j => sumQ (map (fun l => nth l p 0 * (romberg_coefficient a b e m j * (step_width a b j ^ e) ^ (S l)))
                                               (seq 0 (length p))))).
  2:{ intros j _. rewrite pev_as_sum, <- sumQ_map_scale. apply sumQ_map_ext_in. intros l _. ring. }
  (* exchange the two sums *)
  assert (X : forall (F : nat -> nat -> Qc) (l1 l2 : list nat),
             sumQ (map (fun j => sumQ (map (fun l => F j l) l2)) l1) = sumQ (map (fun l => sumQ (map (fun j => F j l) l1)) l2)).
  { intros F l1 l2. induction l1 as [|j l1 IH]; cbn [map sumQ].
    - induction l2 as [|y l2 IH2]; [reflexivity | cbn [map sumQ]; rewrite <- IH2; ring].
    - rewrite IH, <- sumQ_map_add. reflexivity. }
  rewrite (X (fun j l => nth l p 0 * (romberg_coefficient a b e m j * (step_width a b j ^ e) ^ (S l)))).
  rewrite (sumQ_map_ext_in _ (fun _ => 0)).
  - induction (seq 0 (length p)) as [|y ys IH]; [reflexivity | cbn [map sumQ]; rewrite IH; ring].
  - intros l Hl. apply in_seq in Hl. rewrite sumQ_map_scale.
    rewrite (romberg_coeff_annihilates a b e m (S l) H He) by lia. ring.
Qed.
