(* Positive (semi-)definiteness of Kronecker (tensor) product matrices assembled by Model/Gram.v's sym_matrix, by a
   weighted sum-of-squares argument that needs no factorisation:

     a family of entries e(t,u) has a  SOS representation  T = [(c_m, l_m)]  on the points pts  when
          e t u = sum_m c_m * l_m t * l_m u                       for all t, u in pts.
     Then     v^T (sym_matrix e lam pts) v = sum_m c_m (sum_i l_m(t_i) v_i)^2 + lam |v|^2          (quad_sos)
     so the matrix is positive semi-definite when all c_m >= 0, and positive definite when all c_m > 0 and the
     functionals v |-> sum_i l_m(t_i) v_i have no common kernel (kerT).
     Representations multiply:  (e1 x e2)((a,t),(b,u)) = e1 a b * e2 t u  is represented by the products of the terms
     (sos_val_tprod), and kernels stay trivial (kerT_tprod).  Hence every finite tensor product of such families
     is positive definite on the itertools.product (Gram.cross) ordering of the points (kron_pd).

   Instances: Proofs/GramKron.v (C16: d-dimensional Gram matrix of tensor hats), Proofs/RegressKron.v (C20). *)
From Coq Require Import ZArith List QArith Qcanon Bool Lia Lqa.
From SG Require Import Base.QcUtil Model.Gram Proofs.GramHat Proofs.GramEntries Proofs.GramPD.
Import ListNotations.
Open Scope Qc_scope.

Definition term (A : Type) : Type := (Qc * (A -> Qc))%type.

Definition sos_val {A} (T : list (term A)) (t u : A) : Qc := sumQ (map (fun m => fst m * snd m t * snd m u) T).

Definition lin {A} (m : term A) (pts : list A) (v : list Qc) : Qc := dotQ (map (snd m) pts) v.

Definition sos_form {A} (T : list (term A)) (pts : list A) (v : list Qc) : Qc :=
  sumQ (map (fun m => fst m * (lin m pts v * lin m pts v)) T).

Definition represents {A} (e : A -> A -> Qc) (T : list (term A)) (pts : list A) : Prop :=
  forall t u, In t pts -> In u pts -> e t u = sos_val T t u.

Definition all_zero (v : list Qc) : Prop := Forall (fun x => x = 0) v.

(* the functionals of the representation have no common kernel on vectors of the right length *)
Definition kerT {A} (T : list (term A)) (pts : list A) : Prop :=
  forall v, length v = length pts -> (forall m, In m T -> lin m pts v = 0) -> all_zero v.

Definition coeffs_pos {A} (T : list (term A)) : Prop := Forall (fun m => 0 < fst m) T.
Definition coeffs_nonneg {A} (T : list (term A)) : Prop := Forall (fun m => 0 <= fst m) T.

(* ------------------------------------------------------------------ sums *)
Lemma sumQ_zero {M} (l : list M) : sumQ (map (fun _ => 0) l) = 0.
Proof. induction l as [|x l IH]; simpl; [reflexivity | rewrite IH; ring]. Qed.

Lemma sumQ_map_scale_r {M} (c : Qc) (f : M -> Qc) l : sumQ (map (fun x => f x * c) l) = sumQ (map f l) * c.
Proof. induction l as [|x l IH]; simpl; [ring | rewrite IH; ring]. Qed.

Lemma dotQ_map_scale {B} (k : Qc) (f : B -> Qc) l v : dotQ (map (fun u => k * f u) l) v = k * dotQ (map f l) v.
Proof.
  revert v; induction l as [|x l IH]; intros [|y v]; simpl; try ring. rewrite IH. ring.
Qed.

Lemma dotQ_sum_swap {M B} (g : M -> B -> Qc) (T : list M) ts v :
  dotQ (map (fun u => sumQ (map (fun m => g m u) T)) ts) v = sumQ (map (fun m => dotQ (map (g m) ts) v) T).
Proof.
  revert v; induction ts as [|u ts IH]; intros [|y v]; cbn [map dotQ]; try (rewrite sumQ_zero; reflexivity).
  rewrite IH. rewrite sumQ_map_add. rewrite sumQ_map_scale_r. reflexivity.
Qed.

Lemma sum_square_expand {M} (c x D : M -> Qc) (a : Qc) (T : list M) :
  sumQ (map (fun m => c m * ((x m * a + D m) * (x m * a + D m))) T)
  = (a * a) * sumQ (map (fun m => c m * x m * x m) T)
    + (1 + 1) * a * sumQ (map (fun m => c m * x m * D m) T)
    + sumQ (map (fun m => c m * (D m * D m)) T).
Proof. induction T as [|m T IH]; cbn [map sumQ]; [ring | rewrite IH; ring]. Qed.

Lemma sumQ_nonneg l : Forall (fun x => 0 <= x) l -> 0 <= sumQ l.
Proof.
  induction 1 as [|x l H _ IH]; cbn [sumQ]; [apply Qcle_refl|]. qc_order.
Qed.

Lemma sumQ_nonneg_zero l : Forall (fun x => 0 <= x) l -> sumQ l = 0 -> Forall (fun x => x = 0) l.
Proof.
  induction 1 as [|x l H Hl IH]; cbn [sumQ]; intro E; [constructor|].
  pose proof (sumQ_nonneg l Hl) as P.
  assert (x = 0) by qc_order. assert (sumQ l = 0) by qc_order.
  constructor; [assumption | apply IH; assumption].
Qed.

(* ------------------------------------------------------------------ the quadratic form of a represented family *)
Theorem quad_sos {A} (e : A -> A -> Qc) (T : list (term A)) lam pts :
  represents e T pts -> forall v, length v = length pts ->
  quad (sym_matrix e lam pts) v = sos_form T pts v + lam * dotQ v v.
Proof.
  induction pts as [|t ts IH]; intros R v Hl.
  - destruct v; [|discriminate]. unfold quad, sos_form, lin. cbn [sym_matrix matvec map dotQ].
    rewrite (map_ext _ (fun _ => 0)) by (intro m; ring). rewrite sumQ_zero. ring.
  - destruct v as [|a v]; [discriminate|]. cbn [length] in Hl. injection Hl as Hl.
    rewrite quad_step by exact Hl.
    assert (R' : represents e T ts) by (intros x y Hx Hy; apply R; right; assumption).
    rewrite (IH R' v Hl).
    rewrite (R t t) by (left; reflexivity).
    assert (Row : dotQ (map (e t) ts) v = sumQ (map (fun m => fst m * snd m t * lin m ts v) T)).
    { rewrite (map_ext_in (e t) (fun u => sos_val T t u)) by (intros u Hu; apply R; [left; reflexivity | right; exact Hu]).
      unfold sos_val. rewrite dotQ_sum_swap. apply f_equal. apply map_ext. intro m.
      unfold lin. rewrite dotQ_map_scale. reflexivity. }
    rewrite Row.
    assert (Ex : sos_form T (t :: ts) (a :: v)
                 = (a * a) * sos_val T t t + (1 + 1) * a * sumQ (map (fun m => fst m * snd m t * lin m ts v) T)
                   + sos_form T ts v).
    { unfold sos_form, sos_val.
      rewrite <- (sum_square_expand (fun m => fst m) (fun m => snd m t) (fun m => lin m ts v) a T).
      apply f_equal. apply map_ext. intro m. unfold lin. cbn [map dotQ]. reflexivity. }
    rewrite Ex. cbn [dotQ]. ring.
Qed.

Lemma sos_form_nonneg {A} (T : list (term A)) pts v : coeffs_nonneg T -> 0 <= sos_form T pts v.
Proof.
  intro H. unfold sos_form. apply sumQ_nonneg. apply Forall_forall. intros x Hx.
  apply in_map_iff in Hx. destruct Hx as [m [E Hm]]. subst x.
  pose proof (proj1 (Forall_forall _ _) H m Hm) as Hc. cbn beta in Hc.
  pose proof (sq_nonneg (lin m pts v)) as S.
  replace 0 with (0 * (lin m pts v * lin m pts v)) by ring. apply Qcmult_le_compat_r; assumption.
Qed.

Lemma coeffs_pos_nonneg {A} (T : list (term A)) : coeffs_pos T -> coeffs_nonneg T.
Proof. intro H. eapply Forall_impl; [|exact H]. intros m Hm. apply Qclt_le_weak. exact Hm. Qed.

Lemma all_zero_dec v : {all_zero v} + {Exists (fun x => x <> 0) v}.
Proof.
  induction v as [|x v IH]; [left; constructor|].
  destruct (Qc_eq_dec x 0) as [E|N]; [|right; left; exact N].
  destruct IH as [Z|Ex]; [left; constructor; assumption | right; right; exact Ex].
Qed.

Lemma all_zero_not_exists v : all_zero v -> Exists (fun x => x <> 0) v -> False.
Proof. intros Z Ex. apply Exists_exists in Ex. destruct Ex as [x [Hx N]]. apply N. exact (proj1 (Forall_forall _ _) Z x Hx). Qed.

Lemma sos_form_pos {A} (T : list (term A)) pts v :
  coeffs_pos T -> kerT T pts -> length v = length pts -> Exists (fun x => x <> 0) v -> 0 < sos_form T pts v.
Proof.
  intros Hc K Hl Ex.
  pose proof (sos_form_nonneg T pts v (coeffs_pos_nonneg T Hc)) as N.
  destruct (Qc_eq_dec (sos_form T pts v) 0) as [E|NE]; [|qc_order].
  exfalso. apply (all_zero_not_exists v); [|exact Ex]. apply K; [exact Hl|].
  intros m Hm.
  assert (F : Forall (fun x => 0 <= x) (map (fun m => fst m * (lin m pts v * lin m pts v)) T)).
  { apply Forall_forall. intros x Hx. apply in_map_iff in Hx. destruct Hx as [m' [E' Hm']]. subst x.
    pose proof (proj1 (Forall_forall _ _) Hc m' Hm') as Hc'. cbn beta in Hc'.
    pose proof (sq_nonneg (lin m' pts v)) as S.
    replace 0 with (0 * (lin m' pts v * lin m' pts v)) by ring. apply Qcmult_le_compat_r; [apply Qclt_le_weak; exact Hc' | exact S]. }
  pose proof (sumQ_nonneg_zero _ F E) as Z.
  assert (Zm : fst m * (lin m pts v * lin m pts v) = 0).
  { apply (proj1 (Forall_forall _ _) Z). apply in_map_iff. exists m. split; [reflexivity | exact Hm]. }
  pose proof (proj1 (Forall_forall _ _) Hc m Hm) as Hcm. cbn beta in Hcm.
  destruct (Qc_eq_dec (lin m pts v) 0) as [E0|N0]; [exact E0|].
  exfalso. pose proof (sq_pos _ N0) as P.
  assert (0 < fst m * (lin m pts v * lin m pts v)).
  { replace 0 with (0 * (lin m pts v * lin m pts v)) by ring. apply Qcmult_lt_compat_r; assumption. }
  rewrite Zm in H. apply (Qclt_not_le _ _ H). apply Qcle_refl.
Qed.

(* positive semi-definite / positive definite, for every lambda >= 0 *)
Theorem sos_psd {A} (e : A -> A -> Qc) (T : list (term A)) lam pts v :
  represents e T pts -> coeffs_nonneg T -> 0 <= lam -> length v = length pts ->
  0 <= quad (sym_matrix e lam pts) v.
Proof.
  intros R Hc Hlam Hl. rewrite (quad_sos e T lam pts R v Hl).
  pose proof (sos_form_nonneg T pts v Hc) as P. pose proof (dotQ_self_nonneg v) as D.
  assert (Q : 0 <= lam * dotQ v v) by (replace 0 with (0 * dotQ v v) by ring; apply Qcmult_le_compat_r; assumption).
  set (c := sos_form T pts v) in *. set (d := lam * dotQ v v) in *. clearbody c d. clear - P Q. qc_order.
Qed.

Theorem sos_pd {A} (e : A -> A -> Qc) (T : list (term A)) lam pts v :
  represents e T pts -> coeffs_pos T -> kerT T pts -> 0 <= lam -> length v = length pts ->
  Exists (fun x => x <> 0) v -> 0 < quad (sym_matrix e lam pts) v.
Proof.
  intros R Hc K Hlam Hl Ex. rewrite (quad_sos e T lam pts R v Hl).
  pose proof (sos_form_pos T pts v Hc K Hl Ex) as P. pose proof (dotQ_self_nonneg v) as D.
  assert (Q : 0 <= lam * dotQ v v) by (replace 0 with (0 * dotQ v v) by ring; apply Qcmult_le_compat_r; assumption).
  set (c := sos_form T pts v) in *. set (d := lam * dotQ v v) in *. clearbody c d. clear - P Q. qc_order.
Qed.

(* a 1D family that is known to be positive definite has a trivial kernel *)
Lemma kerT_of_pd {A} (e : A -> A -> Qc) (T : list (term A)) pts :
  represents e T pts ->
  (forall v, length v = length pts -> Exists (fun x => x <> 0) v -> 0 < quad (sym_matrix e 0 pts) v) ->
  kerT T pts.
Proof.
  intros R PD v Hl Hz. destruct (all_zero_dec v) as [Z|Ex]; [exact Z|].
  exfalso. pose proof (PD v Hl Ex) as P. rewrite (quad_sos e T 0 pts R v Hl) in P.
  assert (E : sos_form T pts v = 0).
  { unfold sos_form. rewrite (map_ext_in _ (fun _ => 0)); [apply sumQ_zero|]. intros m Hm. rewrite (Hz m Hm). ring. }
  rewrite E in P. apply (Qclt_not_le _ _ P). replace (0 + 0 * dotQ v v) with 0 by ring. apply Qcle_refl.
Qed.

(* ------------------------------------------------------------------ sums of represented families *)
Lemma sos_val_app {A} (T1 T2 : list (term A)) t u : sos_val (T1 ++ T2) t u = sos_val T1 t u + sos_val T2 t u.
Proof. unfold sos_val. rewrite map_app, sumQ_app. reflexivity. Qed.

Lemma represents_add {A} (e1 e2 : A -> A -> Qc) T1 T2 pts :
  represents e1 T1 pts -> represents e2 T2 pts -> represents (fun t u => e1 t u + e2 t u) (T1 ++ T2) pts.
Proof. intros R1 R2 t u Ht Hu. rewrite sos_val_app, (R1 t u Ht Hu), (R2 t u Ht Hu). reflexivity. Qed.

Lemma coeffs_nonneg_app {A} (T1 T2 : list (term A)) : coeffs_nonneg T1 -> coeffs_nonneg T2 -> coeffs_nonneg (T1 ++ T2).
Proof. intros H1 H2. apply Forall_app. split; assumption. Qed.

(* ------------------------------------------------------------------ products *)
Definition tmul {A} (m1 : term A) (m2 : term (list A)) : term (list A) :=
  (fst m1 * fst m2, fun ts => match ts with a :: r => snd m1 a * snd m2 r | [] => 0 end).

Definition tprod {A} (T1 : list (term A)) (T2 : list (term (list A))) : list (term (list A)) :=
  flat_map (fun m1 => map (tmul m1) T2) T1.

Lemma sos_val_tprod {A} (T1 : list (term A)) (T2 : list (term (list A))) a b t u :
  sos_val (tprod T1 T2) (a :: t) (b :: u) = sos_val T1 a b * sos_val T2 t u.
Proof.
  unfold tprod. induction T1 as [|m1 T1 IH]; [unfold sos_val; cbn; ring|].
  cbn [flat_map]. rewrite sos_val_app, IH. unfold sos_val at 1 3. cbn [map sumQ].
  rewrite map_map. unfold tmul; cbn [fst snd].
  rewrite (map_ext (fun x : term (list A) => fst m1 * fst x * (snd m1 a * snd x t) * (snd m1 b * snd x u))
                   (fun m2 => (fst m1 * snd m1 a * snd m1 b) * (fst m2 * snd m2 t * snd m2 u))) by (intro m2; cbn beta; ring).
  rewrite sumQ_map_scale.
  change (sos_val (m1 :: T1) a b) with (fst m1 * snd m1 a * snd m1 b + sos_val T1 a b).
  change (sumQ (map (fun m2 : term (list A) => fst m2 * snd m2 t * snd m2 u) T2)) with (sos_val T2 t u).
  change (sumQ (map (fun m : Qc * (list A -> Qc) => fst m * snd m t * snd m u) T2)) with (sos_val T2 t u).
  ring.
Qed.

Lemma in_cross_cons {A} (l : list A) (r : list (list A)) x :
  In x (flat_map (fun a => map (cons a) r) l) <-> exists a t, x = a :: t /\ In a l /\ In t r.
Proof.
  rewrite in_flat_map. split.
  - intros [a [Ha Hx]]. apply in_map_iff in Hx. destruct Hx as [t [E Ht]]. exists a, t. split; [symmetry; exact E | split; assumption].
  - intros [a [t [E [Ha Ht]]]]. exists a. split; [exact Ha|]. apply in_map_iff. exists t. split; [symmetry; exact E | exact Ht].
Qed.

Lemma represents_tprod {A} (e1 : A -> A -> Qc) (e2 e : list A -> list A -> Qc) T1 T2 l r :
  represents e1 T1 l -> represents e2 T2 r ->
  (forall a b t u, In a l -> In b l -> In t r -> In u r -> e (a :: t) (b :: u) = e1 a b * e2 t u) ->
  represents e (tprod T1 T2) (flat_map (fun a => map (cons a) r) l).
Proof.
  intros R1 R2 He x y Hx Hy.
  apply in_cross_cons in Hx. destruct Hx as [a [t [Ex [Ha Ht]]]].
  apply in_cross_cons in Hy. destruct Hy as [b [u [Ey [Hb Hu]]]]. subst x y.
  rewrite sos_val_tprod, He, (R1 a b), (R2 t u) by assumption. reflexivity.
Qed.

Lemma coeffs_pos_tprod {A} (T1 : list (term A)) (T2 : list (term (list A))) :
  coeffs_pos T1 -> coeffs_pos T2 -> coeffs_pos (tprod T1 T2).
Proof.
  intros H1 H2. apply Forall_forall. intros m Hm. unfold tprod in Hm. apply in_flat_map in Hm.
  destruct Hm as [m1 [Hm1 Hm]]. apply in_map_iff in Hm. destruct Hm as [m2 [E Hm2]]. subst m.
  pose proof (proj1 (Forall_forall _ _) H1 m1 Hm1) as P1. pose proof (proj1 (Forall_forall _ _) H2 m2 Hm2) as P2.
  cbn [tmul fst] in *. replace 0 with (0 * fst m2) by ring. apply Qcmult_lt_compat_r; assumption.
Qed.

Lemma coeffs_nonneg_tprod {A} (T1 : list (term A)) (T2 : list (term (list A))) :
  coeffs_nonneg T1 -> coeffs_nonneg T2 -> coeffs_nonneg (tprod T1 T2).
Proof.
  intros H1 H2. apply Forall_forall. intros m Hm. unfold tprod in Hm. apply in_flat_map in Hm.
  destruct Hm as [m1 [Hm1 Hm]]. apply in_map_iff in Hm. destruct Hm as [m2 [E Hm2]]. subst m.
  pose proof (proj1 (Forall_forall _ _) H1 m1 Hm1) as P1. pose proof (proj1 (Forall_forall _ _) H2 m2 Hm2) as P2.
  cbn [tmul fst] in *. replace 0 with (0 * fst m2) by ring. apply Qcmult_le_compat_r; assumption.
Qed.

(* blocks of a vector indexed by the cross product: one block of length n per element of the first factor *)
Fixpoint chunks (n k : nat) (v : list Qc) : list (list Qc) :=
  match k with O => [] | S k' => firstn n v :: chunks n k' (skipn n v) end.

Lemma dotQ_app a1 a2 v : dotQ (a1 ++ a2) v = dotQ a1 (firstn (length a1) v) + dotQ a2 (skipn (length a1) v).
Proof.
  revert v; induction a1 as [|x a1 IH]; intros v; cbn [app length firstn skipn dotQ]; [ring|].
  destruct v as [|y v]; cbn [firstn skipn dotQ]; [rewrite dotQ_nil_r; ring|]. rewrite IH. ring.
Qed.

Lemma lin_tmul_cross {A} (m1 : term A) (m2 : term (list A)) (l : list A) (r : list (list A)) v :
  lin (tmul m1 m2) (flat_map (fun a => map (cons a) r) l) v
  = dotQ (map (snd m1) l) (map (fun blk => lin m2 r blk) (chunks (length r) (length l) v)).
Proof.
  unfold lin. revert v; induction l as [|a l IH]; intro v; [reflexivity|].
  cbn [flat_map length chunks map dotQ]. rewrite map_app, dotQ_app. rewrite !map_length.
  rewrite IH. f_equal. rewrite map_map. unfold tmul; cbn [snd]. rewrite dotQ_map_scale. reflexivity.
Qed.

Lemma chunks_length n k v : length (chunks n k v) = k.
Proof. revert v; induction k as [|k IH]; intro v; cbn [chunks length]; [reflexivity | rewrite IH; reflexivity]. Qed.

Lemma chunks_all_zero n k v : length v = (k * n)%nat -> Forall all_zero (chunks n k v) -> all_zero v.
Proof.
  revert v; induction k as [|k IH]; intros v Hl Hz.
  - destruct v; [constructor | discriminate].
  - cbn [chunks] in Hz. inversion Hz as [|? ? Z1 Z2]; subst.
    rewrite <- (firstn_skipn n v). apply Forall_app. split; [exact Z1|].
    apply IH; [|exact Z2]. rewrite skipn_length. simpl in Hl. lia.
Qed.

Lemma chunks_block_length n k v : length v = (k * n)%nat -> Forall (fun blk => length blk = n) (chunks n k v).
Proof.
  revert v; induction k as [|k IH]; intros v Hl; cbn [chunks]; [constructor|].
  simpl in Hl. constructor; [rewrite firstn_length; lia | apply IH; rewrite skipn_length; lia].
Qed.

Lemma cross_cons_length {A} (l : list A) (r : list (list A)) :
  length (flat_map (fun a => map (cons a) r) l) = (length l * length r)%nat.
Proof. induction l as [|a l IH]; cbn [flat_map length]; [reflexivity|]. rewrite app_length, map_length, IH. lia. Qed.

Lemma kerT_tprod {A} (T1 : list (term A)) (T2 : list (term (list A))) l r :
  kerT T1 l -> kerT T2 r -> kerT (tprod T1 T2) (flat_map (fun a => map (cons a) r) l).
Proof.
  intros K1 K2 v Hl Hz. rewrite cross_cons_length in Hl.
  apply (chunks_all_zero (length r) (length l) v Hl).
  pose proof (chunks_block_length (length r) (length l) v Hl) as BL.
  (* for every functional of the second factor, the vector of its values on the blocks is killed by the first factor *)
  assert (Y : forall m2, In m2 T2 -> all_zero (map (fun blk => lin m2 r blk) (chunks (length r) (length l) v))).
  { intros m2 Hm2. apply K1; [rewrite map_length, chunks_length; reflexivity|].
    intros m1 Hm1. unfold lin at 1. rewrite <- lin_tmul_cross. apply Hz.
    unfold tprod. apply in_flat_map. exists m1. split; [exact Hm1|]. apply in_map_iff. exists m2. split; [reflexivity | exact Hm2]. }
  apply Forall_forall. intros blk Hb.
  apply K2; [exact (proj1 (Forall_forall _ _) BL blk Hb)|].
  intros m2 Hm2. pose proof (Y m2 Hm2) as Z.
  apply (proj1 (Forall_forall _ _) Z). apply in_map_iff. exists blk. split; [reflexivity | exact Hb].
Qed.

(* ------------------------------------------------------------------ finite tensor products *)
(* a one-dimensional family: points, entry function, representation *)
Record fam (A : Type) : Type := mkFam { f_pts : list A; f_e : A -> A -> Qc; f_T : list (term A) }.
Arguments mkFam {A}. Arguments f_pts {A}. Arguments f_e {A}. Arguments f_T {A}.

Definition fam_ok {A} (F : fam A) : Prop := represents (f_e F) (f_T F) (f_pts F) /\ coeffs_pos (f_T F) /\ kerT (f_T F) (f_pts F).
Definition fam_psd_ok {A} (F : fam A) : Prop := represents (f_e F) (f_T F) (f_pts F) /\ coeffs_nonneg (f_T F).

Fixpoint eprod {A} (Fs : list (fam A)) (t u : list A) : Qc :=
  match Fs, t, u with
  | F :: Fs', a :: t', b :: u' => f_e F a b * eprod Fs' t' u'
  | [], [], [] => 1
  | _, _, _ => 0
  end.

Definition unit_term {A} : term (list A) := (1, fun _ => 1).

Fixpoint Tprod {A} (Fs : list (fam A)) : list (term (list A)) :=
  match Fs with [] => [unit_term] | F :: Fs' => tprod (f_T F) (Tprod Fs') end.

Definition kron_pts {A} (Fs : list (fam A)) : list (list A) := cross (map f_pts Fs).

Lemma kron_represents {A} (Fs : list (fam A)) :
  Forall (fun F => represents (f_e F) (f_T F) (f_pts F)) Fs -> represents (eprod Fs) (Tprod Fs) (kron_pts Fs).
Proof.
  induction 1 as [|F Fs HF _ IH]; unfold kron_pts; cbn [map cross Tprod].
  - intros t u [Ht|[]] [Hu|[]]. subst t u. unfold sos_val, unit_term. cbn. ring.
  - apply (represents_tprod (f_e F) (eprod Fs)); [exact HF | exact IH | reflexivity].
Qed.

Lemma kron_coeffs_pos {A} (Fs : list (fam A)) : Forall (fun F => coeffs_pos (f_T F)) Fs -> coeffs_pos (Tprod Fs).
Proof.
  induction 1 as [|F Fs HF _ IH]; cbn [Tprod].
  - constructor; [|constructor]. cbn. unfold Qclt. cbn. reflexivity.
  - apply coeffs_pos_tprod; assumption.
Qed.

Lemma kron_coeffs_nonneg {A} (Fs : list (fam A)) : Forall (fun F => coeffs_nonneg (f_T F)) Fs -> coeffs_nonneg (Tprod Fs).
Proof.
  induction 1 as [|F Fs HF _ IH]; cbn [Tprod].
  - constructor; [|constructor]. cbn. unfold Qcle. cbn. discriminate.
  - apply coeffs_nonneg_tprod; assumption.
Qed.

Lemma kron_kerT {A} (Fs : list (fam A)) : Forall (fun F => kerT (f_T F) (f_pts F)) Fs -> kerT (Tprod Fs) (kron_pts Fs).
Proof.
  induction 1 as [|F Fs HF _ IH]; unfold kron_pts; cbn [map cross Tprod].
  - intros v Hl Hz. destruct v as [|x [|y v]]; try discriminate.
    specialize (Hz unit_term (or_introl eq_refl)). unfold lin, unit_term in Hz. cbn in Hz.
    constructor; [|constructor]. rewrite <- Hz. ring.
  - apply kerT_tprod; assumption.
Qed.

(* the matrix of a finite tensor product of positive definite represented families is positive definite *)
Theorem kron_pd {A} (Fs : list (fam A)) (e : list A -> list A -> Qc) lam v :
  Forall fam_ok Fs ->
  (forall t u, In t (kron_pts Fs) -> In u (kron_pts Fs) -> e t u = eprod Fs t u) ->
  0 <= lam -> length v = length (kron_pts Fs) -> Exists (fun x => x <> 0) v ->
  0 < quad (sym_matrix e lam (kron_pts Fs)) v.
Proof.
  intros Hok He Hlam Hl Ex.
  apply (sos_pd e (Tprod Fs)); try assumption.
  - intros t u Ht Hu. rewrite (He t u Ht Hu). apply kron_represents; [|assumption|assumption].
    eapply Forall_impl; [|exact Hok]. intros F H. apply H.
  - apply kron_coeffs_pos. eapply Forall_impl; [|exact Hok]. intros F H. apply H.
  - apply kron_kerT. eapply Forall_impl; [|exact Hok]. intros F H. apply H.
Qed.

Theorem kron_psd {A} (Fs : list (fam A)) (e : list A -> list A -> Qc) lam v :
  Forall fam_psd_ok Fs ->
  (forall t u, In t (kron_pts Fs) -> In u (kron_pts Fs) -> e t u = eprod Fs t u) ->
  0 <= lam -> length v = length (kron_pts Fs) ->
  0 <= quad (sym_matrix e lam (kron_pts Fs)) v.
Proof.
  intros Hok He Hlam Hl.
  apply (sos_psd e (Tprod Fs)); try assumption.
  - intros t u Ht Hu. rewrite (He t u Ht Hu). apply kron_represents; [|assumption|assumption].
    eapply Forall_impl; [|exact Hok]. intros F H. apply H.
  - apply kron_coeffs_nonneg. eapply Forall_impl; [|exact Hok]. intros F H. apply H.
Qed.

