(* C04 / cell strategy, part A: for a multilinear monomial the integral of the interpolant of ANY non-degenerate cell over a
   sub-box is the exact moment of the sub-box; the coefficients of the relevant parents sum to 1 for a cell without parents and
   to 0 otherwise. *)
From Coq Require Import ZArith List Bool QArith Qcanon Lia.
From SG Require Import Base.QcUtil Model.CombiScheme Model.Tensor Model.ExtendSplit Model.ESExact Model.CellScheme Proofs.ESGeom Proofs.TrapBasics Proofs.LocalGridsBase.
Import ListNotations.
Local Open Scope Qc_scope.

Lemma interp_box_ext : forall s e f g x, (forall r, f r = g r) -> interp_box s e f x = interp_box s e g x.
Proof.
  induction s as [|s0 s IH]; intros e f g x H; [simpl; apply H|].
  destruct e as [|e0 e]; [simpl; apply H|]. destruct x as [|x0 x]; [simpl; apply H|].
  cbn [interp_box]. rewrite (IH e _ (fun r => g (s0 :: r)) x) by (intro r; apply H).
  rewrite (IH e (fun r => f (e0 :: r)) (fun r => g (e0 :: r)) x) by (intro r; apply H). reflexivity.
Qed.

Lemma interp_box_scale : forall s e c f x, length e = length s -> length x = length s ->
  interp_box s e (fun r => c * f r) x = c * interp_box s e f x.
Proof.
  induction s as [|s0 s IH]; intros [|e0 e] c f [|x0 x] Le Lx; simpl in Le, Lx; try discriminate; [reflexivity|].
  cbn [interp_box]. rewrite (IH e c (fun r => f (s0 :: r)) x), (IH e c (fun r => f (e0 :: r)) x) by lia. ring.
Qed.

Lemma qpow_le1 (x : Qc) k : (k <= 1)%nat -> qpow x k = if Nat.eqb k 0 then 1 else x.
Proof. intro H. destruct k as [|[|k]]; simpl; [reflexivity | ring | lia]. Qed.

Theorem interp_box_multilinear : forall s e ex x, wfbox s e -> length x = length s -> length ex = length s ->
  Forall (fun k => (k <= 1)%nat) ex -> interp_box s e (monomial ex) x = monomial ex x.
Proof.
  induction s as [|s0 s IH]; intros [|e0 e] [|k ex] [|x0 x] W Lx Lk F; simpl in W, Lx, Lk; try contradiction; try discriminate; [reflexivity|].
  destruct W as [W0 W]. inversion F as [|? ? Hk F']; subst.
  cbn [interp_box monomial].
  pose proof (wfbox_length _ _ W) as Lse.
  rewrite !interp_box_scale by lia. rewrite (IH e ex x W) by (try assumption; lia).
  assert (Hne : e0 - s0 <> 0) by (apply lt_sub_neq0; exact W0).
  rewrite !(qpow_le1 _ k Hk). destruct (Nat.eqb k 0); field; exact Hne.
Qed.

(* corner sums of products *)
Lemma corner_sum_ext : forall s e f g, (forall r, f r = g r) -> corner_sum s e f = corner_sum s e g.
Proof.
  induction s as [|s0 s IH]; intros e f g H; [simpl; apply H|]. destruct e as [|e0 e]; [simpl; apply H|].
  cbn [corner_sum]. rewrite (IH e _ (fun r => g (s0 :: r))) by (intro r; apply H).
  rewrite (IH e (fun r => f (e0 :: r)) (fun r => g (e0 :: r))) by (intro r; apply H). reflexivity.
Qed.

Lemma corner_sum_scale : forall s e c f, length e = length s -> corner_sum s e (fun r => c * f r) = c * corner_sum s e f.
Proof.
  induction s as [|s0 s IH]; intros [|e0 e] c f Le; simpl in Le; try discriminate; [reflexivity|].
  cbn [corner_sum]. rewrite (IH e c (fun r => f (s0 :: r))), (IH e c (fun r => f (e0 :: r))) by lia. ring.
Qed.

Lemma mint_le1 k (s0 e0 : Qc) : (k <= 1)%nat -> Qchalf * (e0 - s0) * (qpow s0 k + qpow e0 k) = mint k s0 e0.
Proof.
  intro H. destruct k as [|[|k]]; [| |lia]; unfold mint; cbn [qpow].
  - rewrite qn_1. cbn [Qcpower]. qfield.
  - rewrite qn_2. cbn [Qcpower]. qfield.
Qed.

(* trapezoid on the corners of a box: exact for multilinear monomials *)
Theorem corner_trap_multilinear : forall s e ex, length e = length s -> length ex = length s ->
  Forall (fun k => (k <= 1)%nat) ex ->
  half_pow (length s) * box_volume s e * corner_sum s e (monomial ex) = bmom s e ex.
Proof.
  induction s as [|s0 s IH]; intros [|e0 e] [|k ex] Le Lk F; simpl in Le, Lk; try discriminate; [simpl; ring|].
  inversion F as [|? ? Hk F']; subst.
  cbn [length half_pow box_volume corner_sum monomial bmom].
  rewrite !corner_sum_scale by lia. rewrite <- (IH e ex) by (try assumption; lia). rewrite <- (mint_le1 k s0 e0 Hk). ring.
Qed.

Theorem subcell_integral_multilinear dim cellk sub ex :
  wfbox (fst cellk) (snd cellk) -> length (fst cellk) = dim ->
  length (fst sub) = dim -> length (snd sub) = dim -> length ex = dim -> Forall (fun k => (k <= 1)%nat) ex ->
  subcell_integral dim cellk sub (monomial ex) = bmom (fst sub) (snd sub) ex.
Proof.
  intros W Lc Ls Le Lx F. unfold subcell_integral.
  assert (E : corner_sum (fst sub) (snd sub) (interp_box (fst cellk) (snd cellk) (monomial ex))
              = corner_sum (fst sub) (snd sub) (monomial ex)).
  { clear -W Lc Ls Le Lx F. revert Ls Le.
    (* every corner of sub has dim coordinates: generalise over the prefix already fixed *)
    assert (G : forall s e (pre : list Qc), length e = length s -> (length pre + length s = dim)%nat ->
                corner_sum s e (fun r => interp_box (fst cellk) (snd cellk) (monomial ex) (pre ++ r))
                = corner_sum s e (fun r => monomial ex (pre ++ r))).
    { induction s as [|s0 s IH]; intros [|e0 e] pre Le Lp; simpl in Le; try discriminate.
      - simpl. rewrite app_nil_r. simpl in Lp. apply interp_box_multilinear; [exact W | lia | lia | exact F].
      - cbn [corner_sum].
        rewrite (corner_sum_ext s e _ (fun r => interp_box (fst cellk) (snd cellk) (monomial ex) ((pre ++ [s0]) ++ r)))
          by (intro r; rewrite <- app_assoc; reflexivity).
        rewrite (corner_sum_ext s e (fun r => interp_box (fst cellk) (snd cellk) (monomial ex) (pre ++ e0 :: r))
                                (fun r => interp_box (fst cellk) (snd cellk) (monomial ex) ((pre ++ [e0]) ++ r)))
          by (intro r; rewrite <- app_assoc; reflexivity).
        rewrite !IH by (try lia; rewrite app_length; simpl in *; lia).
        f_equal; apply corner_sum_ext; intro r; rewrite <- app_assoc; reflexivity. }
    intros Ls Le. apply (G (fst sub) (snd sub) []); [lia | simpl; lia]. }
  rewrite E. rewrite <- Ls. apply corner_trap_multilinear; try lia. exact F.
Qed.

(* ---------------------------------------------------------------------------------------------------------- *)
(* the coefficients of relevant_parents *)
Open Scope Z_scope.
Definition coeff_sum (l : list (box * list Z * Z)) : Z := sumZ (map snd l).

Lemma coeff_sum_app l1 l2 : coeff_sum (l1 ++ l2) = coeff_sum l1 + coeff_sum l2.
Proof. unfold coeff_sum. rewrite map_app. induction (map snd l1) as [|x r IH]; simpl; lia. Qed.

Lemma coeff_sum_cons e l : coeff_sum (e :: l) = snd e + coeff_sum l.
Proof. reflexivity. Qed.

Lemma nth_bump_other : forall lv d d' delta, d <> d' -> nth d' (bump_lv d delta lv) 0 = nth d' lv 0.
Proof.
  induction lv as [|x lv IH]; intros [|d] [|d'] delta H; simpl; try reflexivity; try lia. apply IH. lia.
Qed.

(* all entries carry the level of the cell in the dimensions that are still to be processed *)
Definition agree_from (lvA : list Z) (d0 : nat) (l : list (box * list Z * Z)) : Prop :=
  Forall (fun e : box * list Z * Z => forall d', (d0 <= d')%nat -> nth d' (snd (fst e)) 0 = nth d' lvA 0) l.

Lemma parents_step_spec a b lmin lvA d acc : agree_from lvA d acc ->
  agree_from lvA (S d) (parents_step a b lmin acc d) /\
  coeff_sum (parents_step a b lmin acc d) = if nth d lvA 0 <=? lmin then coeff_sum acc else 0.
Proof.
  intro HA. unfold parents_step.
  set (f := fun e : box * list Z * Z =>
              match parent_key a b lmin d (snd (fst e)) (fst (fst e)) with
              | Some p => [(p, bump_lv d (-1) (snd (fst e)), - snd e)]
              | None => []
              end).
  assert (Hnew : agree_from lvA (S d) (flat_map f acc) /\
                 coeff_sum (flat_map f acc) = if nth d lvA 0 <=? lmin then 0 else - coeff_sum acc).
  { unfold agree_from in *. induction acc as [|e acc IH]; [split; [constructor | destruct (nth d lvA 0 <=? lmin); reflexivity]|].
    inversion HA as [|? ? He HA']; subst. destruct (IH HA') as [I1 I2].
    cbn [flat_map]. unfold f at 1 3. unfold parent_key. rewrite (He d (le_n _)).
    destruct (nth d lvA 0 <=? lmin) eqn:E.
    - cbn [app]. split; [exact I1 | exact I2].
    - destruct (is_odd_int _); cbn [app]; (split; [constructor; [|exact I1] | rewrite !coeff_sum_cons, I2; cbn [snd]; lia]);
        intros d' Hd'; cbn [fst snd]; rewrite nth_bump_other by lia; apply He; lia. }
  destruct Hnew as [N1 N2]. split.
  - unfold agree_from in *. apply Forall_app. split; [|exact N1].
    eapply Forall_impl; [|exact HA]. intros e He d' Hd'. apply He. lia.
  - rewrite coeff_sum_app, N2. destruct (nth d lvA 0 <=? lmin); lia.
Qed.


Lemma relevant_parents_coeff_sum a b lmin dim k lv :
  coeff_sum (relevant_parents a b lmin dim k lv) = if is_base lmin dim lv then 1 else 0.
Proof.
  unfold relevant_parents, is_base.
  assert (G : forall n d0 acc, agree_from lv d0 acc ->
              coeff_sum (fold_left (parents_step a b lmin) (seq d0 n) acc)
              = if forallb (fun d => nth d lv 0 <=? lmin) (seq d0 n) then coeff_sum acc else 0).
  { induction n as [|n IH]; intros d0 acc HA; [reflexivity|]. cbn [seq fold_left forallb].
    destruct (parents_step_spec a b lmin lv d0 acc HA) as [A1 A2]. rewrite (IH (S d0) _ A1), A2.
    destruct (nth d0 lv 0 <=? lmin); cbn [andb]; [reflexivity|]. destruct (forallb _ _); reflexivity. }
  rewrite (G dim 0%nat [(k, lv, 1)]).
  - destruct (forallb _ _); reflexivity.
  - constructor; [|constructor]. intros d' _. reflexivity.
Qed.
