(* C08 — soundness of the verified checkers moments_ok / nd_moments_ok / inside_box (Model/LocalGrids.v). *)
From Coq Require Import ZArith List QArith Qabs Qcanon Bool Arith Lia Lqa.
From SG Require Import Base.QcUtil Model.Tensor Model.LocalGrids Proofs.TensorRule Proofs.LocalGridsBase.
Import ListNotations.
Open Scope Qc_scope.

Lemma this_minus (x y : Qc) : (this (x - y) == this x - this y)%Q.
Proof. unfold Qcminus, Qcplus, Qcopp, Q2Qc. cbn [this]. rewrite !Qred_correct. reflexivity. Qed.

Lemma this_mult (x y : Qc) : (this (x * y) == this x * this y)%Q.
Proof. unfold Qcmult, Q2Qc. cbn [this]. rewrite Qred_correct. reflexivity. Qed.

Lemma this_plus (x y : Qc) : (this (x + y) == this x + this y)%Q.
Proof. unfold Qcplus, Q2Qc. cbn [this]. rewrite Qred_correct. reflexivity. Qed.

Lemma this_opp (x : Qc) : (this (- x) == - this x)%Q.
Proof. unfold Qcopp, Q2Qc. cbn [this]. rewrite Qred_correct. reflexivity. Qed.

Lemma this_abs (x : Qc) : (this (Qc_abs x) == Qabs (this x))%Q.
Proof.
  unfold Qc_abs. destruct (Qc_leb 0 x) eqn:E.
  - apply Qc_leb_le in E. unfold Qcle in E. change (this 0) with 0%Q in E. rewrite Qabs_pos by assumption. reflexivity.
  - assert (L : (this x <= 0)%Q).
    { destruct (Qlt_le_dec 0 (this x)) as [H|H]; [|assumption].
      assert (Qc_leb 0 x = true) by (apply Qc_leb_le; unfold Qcle; apply Qlt_le_weak; exact H). congruence. }
    rewrite this_opp, Qabs_neg by assumption. reflexivity.
Qed.

Lemma Qc_abs_nonneg x : 0 <= Qc_abs x.
Proof. unfold Qcle. rewrite this_abs. apply Qabs_nonneg. Qed.

Lemma Qc_abs_triangle x y : Qc_abs (x + y) <= Qc_abs x + Qc_abs y.
Proof. unfold Qcle. rewrite this_plus, !this_abs, this_plus. apply Qabs_triangle. Qed.

Lemma Qc_abs_mult x y : Qc_abs (x * y) = Qc_abs x * Qc_abs y.
Proof. apply Qc_is_canon. rewrite this_mult, !this_abs, this_mult. apply Qabs_Qmult. Qed.

Lemma Qc_abs_0 : Qc_abs 0 = 0.
Proof. reflexivity. Qed.

Lemma resid_ok_sound m ex rtol am : resid_ok m ex rtol am = true -> Qc_abs (m - ex) <= rtol * am.
Proof.
  unfold resid_ok. intro H. apply Qle_bool_iff in H. unfold Qcle.
  rewrite this_abs, this_minus, this_mult. exact H.
Qed.

Lemma mul2_mono j pts : mul2 pts (map (mono j) pts) = map (mono (S j)) pts.
Proof. induction pts as [|x pts IH]; cbn [map mul2]; [reflexivity | rewrite IH; reflexivity]. Qed.

Definition moment_close (pts wts : list Qc) (s e rtol : Qc) (i : nat) : Prop :=
  Qc_abs (moment i pts wts - mint i s e) <= rtol * abs_moment i pts wts.

Lemma moments_scan_sound n : forall j pts wts s e rtol,
  moments_scan n j (map (mono j) pts) pts wts s e rtol = None ->
  forall i, (j <= i < j + n)%nat -> moment_close pts wts s e rtol i.
Proof.
  induction n as [|n IH]; intros j pts wts s e rtol H i Hi; [lia|].
  cbn [moments_scan] in H.
  destruct (resid_ok _ _ _ _) eqn:E; [|discriminate].
  destruct (Nat.eq_dec i j) as [->|Hne].
  - apply resid_ok_sound in E. exact E.
  - rewrite mul2_mono in H. apply (IH (S j) pts wts s e rtol H). lia.
Qed.

(* SOUNDNESS of the 1D checker: equal lengths, and every moment up to degree k is matched within the
   relative tolerance (relative to sum |w_i| |x_i|^j) *)
Theorem moments_ok_sound pts wts s e k rtol : moments_ok pts wts s e k rtol = true ->
  length pts = length wts /\ forall i, (i <= k)%nat -> moment_close pts wts s e rtol i.
Proof.
  unfold moments_ok, moments_first_bad. intro H. apply andb_true_iff in H. destruct H as [Hl H].
  split; [apply Nat.eqb_eq; assumption|].
  destruct (moments_scan _ _ _ _ _ _ _ _) eqn:E; [discriminate|].
  intros i Hi. apply (moments_scan_sound (S k) 0 pts wts s e rtol E). lia.
Qed.

Lemma Qc_abs_eq0 x : Qc_abs x <= 0 -> x = 0.
Proof.
  intro H. unfold Qcle in H. rewrite this_abs in H. change (this 0) with 0%Q in H.
  apply Qc_is_canon. change (this 0) with 0%Q.
  apply Qabs_Qle_condition in H. destruct H as [L U]. apply Qle_antisym; [exact U | exact L].
Qed.

(* with tolerance 0 the checker certifies exactness *)
Corollary moments_ok_exact pts wts s e k : moments_ok pts wts s e k 0 = true -> exact1 pts wts s e k.
Proof.
  intros H i Hi. destruct (moments_ok_sound _ _ _ _ _ _ H) as [_ P]. specialize (P i Hi).
  unfold moment_close in P. replace (0 * abs_moment i pts wts) with 0 in P by ring.
  apply Qc_abs_eq0 in P. unfold moment in P.
  replace (apply1 (mono i) pts wts) with (apply1 (mono i) pts wts - mint i s e + mint i s e) by ring.
  rewrite P. ring.
Qed.

(* every polynomial with at most k+1 coefficients is integrated up to  rtol * sum_j |c_j| * sum_i |w_i||x_i|^j *)
Fixpoint poly_bound (j : nat) (p : list Qc) (pts wts : list Qc) : Qc :=
  match p with [] => 0 | c :: r => Qc_abs c * abs_moment j pts wts + poly_bound (S j) r pts wts end.

Lemma Qc_abs_minus_split a b c d : Qc_abs ((a + b) - (c + d)) <= Qc_abs (a - c) + Qc_abs (b - d).
Proof. replace (a + b - (c + d)) with ((a - c) + (b - d)) by ring. apply Qc_abs_triangle. Qed.

Lemma moments_poly_from pts wts s e k rtol : 0 <= rtol ->
  (forall i, (i <= k)%nat -> moment_close pts wts s e rtol i) ->
  forall p j, (j + length p <= S k)%nat ->
  Qc_abs (apply1 (fun x => mono j x * peval p x) pts wts - pint_from j p s e) <= rtol * poly_bound j p pts wts.
Proof.
  intros Hr Hm p. induction p as [|c p IH]; intros j Hj; cbn [peval pint_from poly_bound].
  - rewrite (apply1_ext _ (fun _ => 0)) by (intro; ring). rewrite apply1_zero.
    replace (0 - 0) with 0 by ring. rewrite Qc_abs_0. replace (rtol * 0) with 0 by ring. apply Qcle_refl.
  - rewrite (apply1_ext _ (fun x => c * mono j x + mono (S j) x * peval p x)) by (intro x; unfold mono; cbn [Qcpower]; ring).
    rewrite apply1_add, apply1_scale.
    eapply Qcle_trans; [apply Qc_abs_minus_split|].
    replace (rtol * (Qc_abs c * abs_moment j pts wts + poly_bound (S j) p pts wts))
      with (Qc_abs c * (rtol * abs_moment j pts wts) + rtol * poly_bound (S j) p pts wts) by ring.
    apply Qcplus_le_compat.
    + replace (c * apply1 (mono j) pts wts - c * mint j s e) with (c * (apply1 (mono j) pts wts - mint j s e)) by ring.
      rewrite Qc_abs_mult. rewrite (Qcmult_comm (Qc_abs c)), (Qcmult_comm (Qc_abs c)).
      apply Qcmult_le_compat_r; [|apply Qc_abs_nonneg]. apply Hm. cbn [length] in Hj. lia.
    + apply IH. cbn [length] in Hj. lia.
Qed.

Theorem moments_ok_sound_poly pts wts s e k rtol p : 0 <= rtol -> moments_ok pts wts s e k rtol = true ->
  (length p <= S k)%nat ->
  Qc_abs (apply1 (peval p) pts wts - pint p s e) <= rtol * poly_bound 0 p pts wts.
Proof.
  intros Hr H Hl. destruct (moments_ok_sound _ _ _ _ _ _ H) as [_ P].
  pose proof (moments_poly_from pts wts s e k rtol Hr P p 0) as Q.
  rewrite (apply1_ext (peval p) (fun x => mono 0 x * peval p x)) by (intro x; unfold mono; cbn [Qcpower]; ring).
  apply Q. cbn [Nat.add]. lia.
Qed.

(* ---------- d-dimensional checker ---------- *)
Definition nd_close (pts : list (list Qc)) (wts : list Qc) (box : list (Qc * Qc)) (rtol : Qc) (exps : list nat) : Prop :=
  (length exps = length box)%nat /\
  Qc_abs (nd_moment exps pts wts - nd_exact exps box) <= rtol * nd_abs_moment exps pts wts.

Theorem nd_moments_ok_sound pts wts box expss rtol : nd_moments_ok pts wts box expss rtol = true ->
  (length pts = length wts)%nat /\ (forall p, In p pts -> (length p = length box)%nat) /\
  forall exps, In exps expss -> nd_close pts wts box rtol exps.
Proof.
  unfold nd_moments_ok. intro H. apply andb_true_iff in H. destruct H as [H H3].
  apply andb_true_iff in H. destruct H as [H1 H2].
  split; [apply Nat.eqb_eq; assumption|]. split.
  - intros p Hp. rewrite forallb_forall in H2. apply Nat.eqb_eq. apply H2. assumption.
  - intros exps He. rewrite forallb_forall in H3. specialize (H3 exps He). unfold nd_moment_ok in H3.
    apply andb_true_iff in H3. destruct H3 as [Hl Hr]. split; [apply Nat.eqb_eq; assumption|].
    apply resid_ok_sound in Hr. exact Hr.
Qed.

Theorem inside_box_sound box p : inside_box box p = true ->
  Forall2 (fun x se => fst se <= x /\ x <= snd se) p box.
Proof.
  unfold inside_box. intro H. apply andb_true_iff in H. destruct H as [Hl H]. apply Nat.eqb_eq in Hl.
  revert box Hl H. induction p as [|x p IH]; intros [|[s e] box] Hl H; cbn [length combine forallb] in *; try discriminate; constructor.
  - apply andb_true_iff in H. destruct H as [H _]. apply andb_true_iff in H. destruct H as [A B].
    cbn [fst snd] in *. split; apply Qc_leb_le; assumption.
  - apply IH; [lia|]. apply andb_true_iff in H. destruct H as [_ H]. exact H.
Qed.
