(* C03 / C06: the stripe of (dimension, level) that C03 speaks about (Model/DimWise.v stripe_dim, the loop of
   get_point_coord_for_each_dim) is computed with the GENERATED get_subtraction_value: for every state whose lists have the
   right lengths (in particular every state satisfying the invariant), coarsening versions 2, 6, 7, 8, every dimension and
   every level vector.  What stays hand-modelled of get_point_coord_for_each_dim is the loop itself and the threshold test
   levels[1] <= max(levelvec[d] - subtraction_value, 1). *)
From Coq Require Import ZArith List Bool QArith Qcanon Arith Lia.
From SG Require Import Base.QcUtil Base.PyLib Base.PyNum Base.PyC06 Model.CombiScheme Model.RefTree Model.DimWise Model.DimWiseCache
     Gen.DimWiseGen Proofs.GenDimWiseEq Proofs.GenDimWiseSubEq Proofs.DimWiseInv.
Import ListNotations.
Open Scope Z_scope.

Lemma nth_repeat_in (x : Z) n k : (k < n)%nat -> nth k (repeat x n) 0 = x.
Proof. revert k. induction n as [|n IH]; intros k H; [lia|]. destruct k; [reflexivity|]. simpl. apply IH. lia. Qed.

Lemma stripe_sel_ext (s1 s2 : nat -> option Z) l : forall objs i0,
  (forall i, (i0 <= i < i0 + length objs)%nat -> s1 i = s2 i) -> stripe_sel s1 l i0 objs = stripe_sel s2 l i0 objs.
Proof.
  induction objs as [|iv r IH]; intros i0 H; [reflexivity|]. cbn [stripe_sel].
  rewrite (H i0) by (simpl; lia). rewrite (IH (S i0)) by (intros i Hi; apply H; simpl; lia). reflexivity.
Qed.

Lemma stripe_with_ext (s1 s2 : nat -> option Z) l objs :
  (forall i, (i < length objs)%nat -> s1 i = s2 i) -> stripe_with s1 l objs = stripe_with s2 l objs.
Proof.
  intro H. unfold stripe_with. destruct objs as [|iv0 r]; [reflexivity|].
  rewrite (stripe_sel_ext s1 s2 l (iv0 :: r) 0) by (intros i Hi; apply H; lia). reflexivity.
Qed.

Theorem gen_stripe_dim o st (d : nat) l levelvec :
  (o_version o = 2 \/ o_version o = 6 \/ o_version o = 7 \/ o_version o = 8) ->
  (d < st_dim st)%nat -> length (st_trees st) = st_dim st -> length (st_lmax st) = st_dim st ->
  length levelvec = st_dim st -> nth d levelvec 0 = l ->
  stripe_dim o st d l
  = stripe_with (fun i => option_map fst
       (SpatiallyAdaptiveSingleDimensions2_get_subtraction_value (st_lmax st) (repeat (st_lmin st) (st_dim st)) [] (o_version o)
          (Z.of_nat (st_dim st)) (lv_of (nth i (nth d (st_trees st) []) dflt)) (views (nth d (st_trees st) [])) (Z.of_nat i)
          (max_coarsenings st) (Z.of_nat d) levelvec)) l (nth d (st_trees st) []).
Proof.
  intros Hv Hd HLt HLm HLv Hl. unfold stripe_dim. apply stripe_with_ext. intros i Hi.
  assert (H3 : (d < length (repeat (st_lmin st) (st_dim st)))%nat) by (rewrite repeat_length; exact Hd).
  assert (H4 : length (max_coarsenings st) = st_dim st) by (unfold max_coarsenings; rewrite map_length; exact HLt).
  assert (H5 : forall v, py_c06_dict_get [] (Z.of_nat d) (Z.of_nat i) = Some v -> v = get_max_level (nth d (st_trees st) []) i)
    by (intros v E; discriminate).
  rewrite (gen_gsv_eq o (st_lmax st) (repeat (st_lmin st) (st_dim st)) [] (nth d (st_trees st) []) i d (st_dim st)
             (max_coarsenings st) levelvec Hi ltac:(lia) ltac:(lia) H3 H4 Hd H5 Hv).
  rewrite Hl, nth_repeat_in by exact Hd.
  destruct (get_subtraction_value o (st_dim st) (st_lmin st) (nth d (st_lmax st) 0) (max_coarsenings st) (nth d (st_trees st) []) i d l);
    reflexivity.
Qed.

(* in particular in every state satisfying the C06 invariant (hence every reachable one) *)
Corollary gen_stripe_dim_inv a b o st (d : nat) l levelvec : DwInv a b st ->
  (o_version o = 2 \/ o_version o = 6 \/ o_version o = 7 \/ o_version o = 8) ->
  (d < st_dim st)%nat -> length levelvec = st_dim st -> nth d levelvec 0 = l ->
  stripe_dim o st d l
  = stripe_with (fun i => option_map fst
       (SpatiallyAdaptiveSingleDimensions2_get_subtraction_value (st_lmax st) (repeat (st_lmin st) (st_dim st)) [] (o_version o)
          (Z.of_nat (st_dim st)) (lv_of (nth i (nth d (st_trees st) []) dflt)) (views (nth d (st_trees st) [])) (Z.of_nat i)
          (max_coarsenings st) (Z.of_nat d) levelvec)) l (nth d (st_trees st) []).
Proof.
  intros (HLm & HLc & _) Hv Hd HLv Hl. apply gen_stripe_dim; try assumption.
  unfold st_trees. rewrite map_length. exact HLc.
Qed.
