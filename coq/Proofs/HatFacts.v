(* C02 (hierarchical exactness), part 1: the 1D hat function with centre c and half-width H over Qc.
   Region-wise closed forms, affinity on every cell that does not contain a kink in its interior, and the
   antiderivative hatF with the exact trapezoid identity on such cells. Pure Qc facts, no grids. *)
From Coq Require Import ZArith List Bool QArith Qcanon Lia.
From SG Require Import Base.QcUtil Model.StdCombi.
Import ListNotations.
Local Open Scope Qc_scope.

Definition hatc (c H x : Qc) : Qc :=
  let t := Qc_abs (x - c) / H in if Qc_leb t 1 then 1 - t else 0.

Lemma hat1_hatc a b j i x :
  hat1 a b j i x = hatc (a + qc_of_Z i * ((b - a) / qc_of_Z (2 ^ j))) ((b - a) / qc_of_Z (2 ^ j)) x.
Proof. reflexivity. Qed.

(* ---------- small order facts ---------- *)
Lemma Qc_pos_neq0 H : 0 < H -> H <> 0.
Proof. intros HH E. rewrite E in HH. apply (Qclt_not_eq 0 0 HH). reflexivity. Qed.

Lemma div_le_1 t H : 0 < H -> (t / H <= 1 <-> t <= H).
Proof.
  intro HH. pose proof (Qc_pos_neq0 H HH) as N. split; intro L.
  - apply (Qcmult_le_compat_r _ _ H) in L; [|apply Qclt_le_weak; exact HH].
    replace (t / H * H) with t in L by (field; exact N). replace (1 * H) with H in L by ring. exact L.
  - apply (Qcmult_lt_0_le_reg_r _ _ H HH).
    replace (t / H * H) with t by (field; exact N). replace (1 * H) with H by ring. exact L.
Qed.

Lemma Qc_abs_nonneg y : 0 <= y -> Qc_abs y = y.
Proof.
  intro Hy. unfold Qc_abs. destruct (Qc_leb 0 y) eqn:E; [reflexivity|].
  apply Qc_leb_le in Hy. congruence.
Qed.

Lemma Qc_abs_nonpos y : y <= 0 -> Qc_abs y = - y.
Proof.
  intro Hy. unfold Qc_abs. destruct (Qc_leb 0 y) eqn:E; [|reflexivity].
  apply Qc_leb_le in E. qc_order.
Qed.

Lemma Qchalf_double : Qchalf + Qchalf = 1.
Proof. apply Qc_is_canon. reflexivity. Qed.

Lemma half_split y : y = y * Qchalf + y * Qchalf.
Proof. rewrite <- Qcmult_plus_distr_r, Qchalf_double. ring. Qed.

(* ---------- closed forms on the four regions ---------- *)
Lemma hatc_left c H x : 0 < H -> x <= c - H -> hatc c H x = 0.
Proof.
  intros HH Hx. unfold hatc. rewrite (Qc_abs_nonpos (x - c)) by qc_order.
  destruct (Qc_leb (- (x - c) / H) 1) eqn:E; [|reflexivity].
  apply Qc_leb_le in E. apply (div_le_1 _ H HH) in E.
  assert (- (x - c) = H) as -> by qc_order. field. apply Qc_pos_neq0; exact HH.
Qed.

Lemma hatc_right c H x : 0 < H -> c + H <= x -> hatc c H x = 0.
Proof.
  intros HH Hx. unfold hatc. rewrite (Qc_abs_nonneg (x - c)) by qc_order.
  destruct (Qc_leb ((x - c) / H) 1) eqn:E; [|reflexivity].
  apply Qc_leb_le in E. apply (div_le_1 _ H HH) in E.
  assert (x - c = H) as -> by qc_order. field. apply Qc_pos_neq0; exact HH.
Qed.

Lemma hatc_up c H x : 0 < H -> c - H <= x -> x <= c -> hatc c H x = 1 - (c - x) / H.
Proof.
  intros HH H1 H2. unfold hatc. rewrite (Qc_abs_nonpos (x - c)) by qc_order.
  replace (- (x - c)) with (c - x) by ring.
  assert (Qc_leb ((c - x) / H) 1 = true) as ->; [|reflexivity].
  apply Qc_leb_le. apply (div_le_1 _ H HH). qc_order.
Qed.

Lemma hatc_down c H x : 0 < H -> c <= x -> x <= c + H -> hatc c H x = 1 - (x - c) / H.
Proof.
  intros HH H1 H2. unfold hatc. rewrite (Qc_abs_nonneg (x - c)) by qc_order.
  assert (Qc_leb ((x - c) / H) 1 = true) as ->; [|reflexivity].
  apply Qc_leb_le. apply (div_le_1 _ H HH). qc_order.
Qed.

Lemma hatc_centre c H : 0 < H -> hatc c H c = 1.
Proof.
  intro HH. rewrite hatc_up; [|exact HH| |]; [|qc_order|qc_order]. field. apply Qc_pos_neq0; exact HH.
Qed.

(* a cell [p,q] lies in one of the four regions of the hat *)
Definition cell_region (c H p q : Qc) : Prop :=
  q <= c - H \/ (c - H <= p /\ q <= c) \/ (c <= p /\ q <= c + H) \/ c + H <= p.

(* ---------- affinity on cells ---------- *)
Definition affine_on (g : Qc -> Qc) (p q : Qc) : Prop :=
  forall x, p <= x -> x <= q -> g x = g p + (x - p) / (q - p) * (g q - g p).

Lemma affine_on_of_linear g p q al be : p < q ->
  (forall x, p <= x -> x <= q -> g x = al + be * x) -> affine_on g p q.
Proof.
  intros Hpq Hg x H1 H2.
  rewrite (Hg x H1 H2), (Hg p) by qc_order. rewrite (Hg q) by qc_order.
  field. intro E. assert (q = p) as E' by qc_order. rewrite E' in Hpq. apply (Qclt_not_eq p p Hpq). reflexivity.
Qed.

Lemma hatc_affine_cell c H p q : 0 < H -> p < q -> cell_region c H p q -> affine_on (hatc c H) p q.
Proof.
  intros HH Hpq R. pose proof (Qc_pos_neq0 H HH) as N.
  destruct R as [R|[[R1 R2]|[[R1 R2]|R]]].
  - apply (affine_on_of_linear _ p q 0 0 Hpq). intros x H1 H2. rewrite hatc_left; [ring|exact HH|qc_order].
  - apply (affine_on_of_linear _ p q (1 - c / H) (1 / H) Hpq). intros x H1 H2.
    rewrite hatc_up; [field; exact N|exact HH|qc_order|qc_order].
  - apply (affine_on_of_linear _ p q (1 + c / H) (- (1 / H)) Hpq). intros x H1 H2.
    rewrite hatc_down; [field; exact N|exact HH|qc_order|qc_order].
  - apply (affine_on_of_linear _ p q 0 0 Hpq). intros x H1 H2. rewrite hatc_right; [ring|exact HH|qc_order].
Qed.

(* ---------- antiderivative ---------- *)
Definition hatF (c H x : Qc) : Qc :=
  if Qc_leb x (c - H) then 0
  else if Qc_leb x c then (x - (c - H)) * (x - (c - H)) * Qchalf / H
  else if Qc_leb x (c + H) then H - (c + H - x) * (c + H - x) * Qchalf / H
  else H.

Lemma Qc_leb_false x y : Qc_leb x y = false -> y < x.
Proof.
  intro E. destruct (Qclt_le_dec y x) as [L|L]; [exact L|]. apply Qc_leb_le in L. congruence.
Qed.

Lemma hatF_left c H x : 0 < H -> x <= c - H -> hatF c H x = 0.
Proof. intros HH Hx. unfold hatF. apply Qc_leb_le in Hx. rewrite Hx. reflexivity. Qed.

Lemma hatF_up c H x : 0 < H -> c - H <= x -> x <= c -> hatF c H x = (x - (c - H)) * (x - (c - H)) * Qchalf / H.
Proof.
  intros HH H1 H2. pose proof (Qc_pos_neq0 H HH) as N. unfold hatF.
  destruct (Qc_leb x (c - H)) eqn:E1.
  - apply Qc_leb_le in E1. assert (x = c - H) as -> by qc_order. field. exact N.
  - apply Qc_leb_le in H2. rewrite H2. reflexivity.
Qed.

Lemma hatF_down c H x : 0 < H -> c <= x -> x <= c + H -> hatF c H x = H - (c + H - x) * (c + H - x) * Qchalf / H.
Proof.
  intros HH H1 H2. pose proof (Qc_pos_neq0 H HH) as N. unfold hatF.
  destruct (Qc_leb x (c - H)) eqn:E1.
  { apply Qc_leb_le in E1. exfalso. qc_order. }
  destruct (Qc_leb x c) eqn:E2.
  - apply Qc_leb_le in E2. assert (x = c) as -> by qc_order.
    replace (c - (c - H)) with H by ring. replace (c + H - c) with H by ring.
    assert (H * H * Qchalf / H = H * Qchalf) as -> by (field; exact N).
    transitivity (H * Qchalf + H * Qchalf - H * Qchalf); [ring|]. rewrite <- half_split. reflexivity.
  - apply Qc_leb_le in H2. rewrite H2. reflexivity.
Qed.

Lemma hatF_right c H x : 0 < H -> c + H <= x -> hatF c H x = H.
Proof.
  intros HH Hx. pose proof (Qc_pos_neq0 H HH) as N. unfold hatF.
  destruct (Qc_leb x (c - H)) eqn:E1.
  { apply Qc_leb_le in E1. exfalso. qc_order. }
  destruct (Qc_leb x c) eqn:E2.
  { apply Qc_leb_le in E2. exfalso. qc_order. }
  destruct (Qc_leb x (c + H)) eqn:E3; [|reflexivity].
  apply Qc_leb_le in E3. assert (x = c + H) as -> by qc_order.
  replace (c + H - (c + H)) with (Q2Qc 0) by ring. field. exact N.
Qed.

(* trapezoid on a cell inside one region = difference of the antiderivative *)
Lemma hatc_trap_cell c H p q : 0 < H -> p <= q -> cell_region c H p q ->
  (q - p) * Qchalf * (hatc c H p + hatc c H q) = hatF c H q - hatF c H p.
Proof.
  intros HH Hpq R. pose proof (Qc_pos_neq0 H HH) as N.
  assert (p <= q) as Hpq' by exact Hpq.
  destruct R as [R|[[R1 R2]|[[R1 R2]|R]]].
  - rewrite (hatc_left c H p), (hatc_left c H q), (hatF_left c H p), (hatF_left c H q) by (try exact HH; qc_order). ring.
  - rewrite (hatc_up c H p), (hatc_up c H q), (hatF_up c H p), (hatF_up c H q) by (try exact HH; qc_order).
    field. exact N.
  - rewrite (hatc_down c H p), (hatc_down c H q), (hatF_down c H p), (hatF_down c H q) by (try exact HH; qc_order).
    field. exact N.
  - rewrite (hatc_right c H p), (hatc_right c H q), (hatF_right c H p), (hatF_right c H q) by (try exact HH; qc_order). ring.
Qed.
