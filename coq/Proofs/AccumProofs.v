(* C05 — the running combined result equals the sum over the current areas and components, for every driver history.
   All statements hold over an arbitrary commutative group (V, vzero, vadd, vopp). *)
From Coq Require Import ZArith List Bool Lia.
From SG Require Import Model.Accum.
Import ListNotations.
Open Scope Z_scope.

Section AccumProofs.
  Variable V : Type.
  Variable vzero : V.
  Variable vadd : V -> V -> V.
  Variable vopp : V -> V.
  Hypothesis vadd_assoc : forall a b c, vadd a (vadd b c) = vadd (vadd a b) c.
  Hypothesis vadd_comm : forall a b, vadd a b = vadd b a.
  Hypothesis vadd_0_l : forall a, vadd vzero a = a.
  Hypothesis vadd_opp_r : forall a, vadd a (vopp a) = vzero.

  Notation vsum := (vsum V vzero vadd).
  Notation astate := (astate V).
  Notation area_get := (area_get V).
  Notation area_set := (area_set V).
  Notation area_del := (area_del V).
  Notation area_val := (area_val V vzero).
  Notation apply_event := (apply_event V vzero vadd vopp).
  Notation apply_events := (apply_events V vzero vadd vopp).
  Notation remove_one := (remove_one V vzero vadd vopp).
  Notation eval_area_events := (eval_area_events V).
  Notation evaluate_new := (evaluate_new V vzero vadd vopp).
  Notation refine_step := (refine_step V vzero vadd vopp).
  Notation final_combi_asis := (final_combi_asis V vzero vadd vopp).
  Notation reevaluate := (reevaluate V vzero vadd vopp).
  Notation evaluate_dw := (evaluate_dw V vzero vadd vopp).
  Notation final_combi_dw_asis := (final_combi_dw_asis V vzero vadd vopp).
  Notation apply_step := (apply_step V vzero vadd vopp).
  Notation run_steps := (run_steps V vzero vadd vopp).
  Notation a_init := (a_init V vzero).
  Notation zero_new_areas := (zero_new_areas V vzero).
  Notation zero_new := (zero_new V vzero).
  Notation strip_sides := (strip_sides V).
  Notation recalc_asis := (recalc_asis V vzero vadd vopp).
  Notation recalc_fixed := (recalc_fixed V vzero vadd vopp).

  (* ---------------------------------------------------------------- group facts *)
  Lemma vadd_0_r a : vadd a vzero = a.
  Proof. rewrite vadd_comm. apply vadd_0_l. Qed.

  Lemma vadd_cancel_r a b v : vadd a v = vadd b v -> a = b.
  Proof.
    intro H. assert (E : vadd (vadd a v) (vopp v) = vadd (vadd b v) (vopp v)) by (rewrite H; reflexivity).
    rewrite <- !vadd_assoc, !vadd_opp_r, !vadd_0_r in E. exact E.
  Qed.

  Lemma vopp_0 : vopp vzero = vzero.
  Proof. rewrite <- (vadd_0_l (vopp vzero)). apply vadd_opp_r. Qed.

  Lemma vadd_sub a v : vadd (vadd v a) (vopp v) = a.
  Proof. rewrite (vadd_comm v a), <- vadd_assoc, vadd_opp_r. apply vadd_0_r. Qed.

  Lemma vsum_app a b : vsum (a ++ b) = vadd (vsum a) (vsum b).
  Proof. induction a as [|x a IH]; cbn; [symmetry; apply vadd_0_l|]. rewrite IH. apply vadd_assoc. Qed.

  Lemma vsum_zeros {A} (l : list A) : vsum (map (fun _ => vzero) l) = vzero.
  Proof. induction l as [|x l IH]; cbn; [reflexivity|]. rewrite IH. apply vadd_0_l. Qed.

  Lemma vsum_flat_map {A} (f : A -> list V) l : vsum (flat_map f l) = vsum (map (fun a => vsum (f a)) l).
  Proof. induction l as [|x l IH]; cbn; [reflexivity|]. rewrite vsum_app, IH. reflexivity. Qed.

  (* ---------------------------------------------------------------- area tables *)
  Definition ids (s : astate) : list Z := map fst (st_areas s).

  Lemma area_get_In id l : area_get id l <> None <-> In id (map fst l).
  Proof.
    induction l as [|[i v] r IH]; cbn; [split; [congruence|intros []]|].
    destruct (i =? id) eqn:E.
    - apply Z.eqb_eq in E. split; [intro; left; exact E|discriminate].
    - apply Z.eqb_neq in E. rewrite IH. split; [intro H; right; exact H|intros [H|H]; [contradiction|exact H]].
  Qed.

  Lemma area_set_ids id w l v : area_get id l = Some v -> map fst (area_set id w l) = map fst l.
  Proof.
    induction l as [|[i u] r IH]; cbn; [discriminate|]. destruct (i =? id) eqn:E; cbn; [reflexivity|].
    intro H. rewrite (IH H). reflexivity.
  Qed.

  Lemma area_set_same id l v : area_get id l = Some v -> area_set id v l = l.
  Proof.
    induction l as [|[i u] r IH]; cbn; [discriminate|]. destruct (i =? id) eqn:E.
    - intro H. injection H as ->. reflexivity.
    - intro H. rewrite (IH H). reflexivity.
  Qed.

  Lemma area_get_set_same id w l : area_get id (area_set id w l) = Some w.
  Proof.
    induction l as [|[i u] r IH]; cbn; [rewrite Z.eqb_refl; reflexivity|].
    destruct (i =? id) eqn:E; cbn; rewrite E; [reflexivity|exact IH].
  Qed.

  Lemma area_get_set_other id id' w l : id <> id' -> area_get id' (area_set id w l) = area_get id' l.
  Proof.
    intro N. induction l as [|[i u] r IH]; cbn.
    - destruct (id =? id') eqn:E; [apply Z.eqb_eq in E; contradiction|reflexivity].
    - destruct (i =? id) eqn:E; cbn.
      + apply Z.eqb_eq in E. subst i. destruct (id =? id') eqn:E'; [apply Z.eqb_eq in E'; contradiction|reflexivity].
      + destruct (i =? id'); [reflexivity|exact IH].
  Qed.

  (* replacing the value v of an area by w moves the sum from ... + v to ... + w *)
  Lemma area_set_sum id w l v :
    area_get id l = Some v -> vadd (vsum (map snd (area_set id w l))) v = vadd (vsum (map snd l)) w.
  Proof.
    induction l as [|[i u] r IH]; cbn; [discriminate|]. destruct (i =? id) eqn:E; cbn.
    - intro H. injection H as ->. rewrite <- !vadd_assoc. rewrite (vadd_comm (vsum (map snd r)) v), (vadd_comm (vsum (map snd r)) w).
      rewrite !vadd_assoc. rewrite (vadd_comm w v). reflexivity.
    - intro H. rewrite <- !vadd_assoc. rewrite (IH H). reflexivity.
  Qed.

  Lemma area_set_add_sum id x l v :
    area_get id l = Some v -> vsum (map snd (area_set id (vadd v x) l)) = vadd (vsum (map snd l)) x.
  Proof.
    intro H. apply (vadd_cancel_r _ _ v). rewrite (area_set_sum id (vadd v x) l v H).
    rewrite <- !vadd_assoc. rewrite (vadd_comm x v). reflexivity.
  Qed.

  Lemma area_del_none id l : area_get id l = None -> area_del id l = l.
  Proof.
    induction l as [|[i u] r IH]; cbn; [reflexivity|]. destruct (i =? id); [discriminate|]. intro H. rewrite (IH H). reflexivity.
  Qed.

  Lemma area_del_sum id l v : area_get id l = Some v -> vsum (map snd l) = vadd v (vsum (map snd (area_del id l))).
  Proof.
    induction l as [|[i u] r IH]; cbn; [discriminate|]. destruct (i =? id) eqn:E; cbn.
    - intro H. injection H as ->. reflexivity.
    - intro H. rewrite (IH H). rewrite !vadd_assoc. rewrite (vadd_comm u v). reflexivity.
  Qed.

  Lemma area_del_ids_incl id l x : In x (map fst (area_del id l)) -> In x (map fst l).
  Proof.
    induction l as [|[i u] r IH]; cbn; [intros []|]. destruct (i =? id); cbn; [intro H; right; exact H|].
    intros [H|H]; [left; exact H|right; apply IH; exact H].
  Qed.

  Lemma area_del_nodup id l : NoDup (map fst l) -> NoDup (map fst (area_del id l)).
  Proof.
    induction l as [|[i u] r IH]; cbn; [intro H; exact H|]. intro H. inversion H as [|? ? Hn Hr]. subst.
    destruct (i =? id); cbn; [exact Hr|]. constructor; [|apply IH; exact Hr].
    intro Hin. apply Hn. apply (area_del_ids_incl id r i Hin).
  Qed.

  Lemma area_get_del_other id id' l : id <> id' -> area_get id' (area_del id l) = area_get id' l.
  Proof.
    intro N. induction l as [|[i u] r IH]; cbn; [reflexivity|]. destruct (i =? id) eqn:E; cbn.
    - apply Z.eqb_eq in E. subst i. destruct (id =? id') eqn:E'; [apply Z.eqb_eq in E'; contradiction|reflexivity].
    - destruct (i =? id'); [reflexivity|exact IH].
  Qed.

  (* ---------------------------------------------------------------- the invariant *)
  (* running total = sum of the stored per-area results; the container's copy agrees *)
  Definition Inv (s : astate) : Prop :=
    NoDup (ids s) /\ st_total s = vsum (map snd (st_areas s)) /\ st_cont s = st_total s.
  (* objects marked new exist and carry no value yet *)
  Definition NewZero (s : astate) : Prop := forall id, In id (st_new s) -> area_get id (st_areas s) = Some vzero.
  Definition Inv2 (s : astate) : Prop := Inv s /\ NewZero s.

  Lemma inv_init l : NoDup l -> Inv2 (a_init l).
  Proof.
    intro H. unfold Inv2, Inv, NewZero, a_init, ids. cbn [st_areas st_new st_total st_cont].
    rewrite !map_map. cbn [fst snd]. rewrite map_id. split; [split; [exact H|split; [|reflexivity]]|].
    - symmetry. apply vsum_zeros.
    - intros id Hin. clear H. induction l as [|x l IH]; [destruct Hin|]. cbn.
      destruct (x =? id) eqn:E; [reflexivity|]. apply IH. destruct Hin as [->|Hin]; [rewrite Z.eqb_refl in E; discriminate|exact Hin].
  Qed.

  (* one evaluate_area event on an existing area keeps the invariant *)
  Lemma inv_eval s id x : Inv s -> area_get id (st_areas s) <> None -> Inv (apply_event s (AEval id x true true)).
  Proof.
    intros [Hn [Ht Hc]] Hex. destruct (area_get id (st_areas s)) as [v|] eqn:G; [|congruence].
    unfold Inv, ids. cbn [apply_event st_areas st_total st_cont]. unfold Accum.area_val. rewrite G.
    rewrite (area_set_ids id _ _ v G). split; [exact Hn|]. split.
    - rewrite (area_set_add_sum id x _ v G), Ht. reflexivity.
    - rewrite Hc. reflexivity.
  Qed.

  Lemma eval_keeps_ids s id x b1 b2 : area_get id (st_areas s) <> None ->
    ids (apply_event s (AEval id x b1 b2)) = ids s /\ st_new (apply_event s (AEval id x b1 b2)) = st_new s.
  Proof.
    intro Hex. destruct (area_get id (st_areas s)) as [v|] eqn:G; [|congruence].
    unfold ids. cbn [apply_event st_areas st_new]. rewrite (area_set_ids id _ _ v G). split; reflexivity.
  Qed.

  (* the evaluation events of a list of areas, as a flat list of (area, contribution) pairs *)
  Definition ev_of (p : Z * V) : aevent V := AEval (fst p) (snd p) true true.
  Definition pairs_of (parts : parts_t V) (l : list Z) : list (Z * V) := flat_map (fun id => map (pair id) (parts id)) l.

  Lemma flat_events parts l : flat_map (eval_area_events parts) l = map ev_of (pairs_of parts l).
  Proof.
    unfold pairs_of. induction l as [|id l IH]; cbn [flat_map]; [reflexivity|]. rewrite map_app, <- IH. f_equal.
    unfold Accum.eval_area_events. rewrite map_map. reflexivity.
  Qed.

  Lemma pairs_fst parts l p : In p (pairs_of parts l) -> In (fst p) l.
  Proof.
    unfold pairs_of. intro H. apply in_flat_map in H. destruct H as [id [Hid Hp]]. apply in_map_iff in Hp.
    destruct Hp as [x [<- _]]. exact Hid.
  Qed.

  Lemma pairs_snd parts l : map snd (pairs_of parts l) = flat_map parts l.
  Proof.
    unfold pairs_of. induction l as [|id l IH]; cbn [flat_map]; [reflexivity|]. rewrite map_app, IH, map_map. cbn [snd].
    rewrite map_id. reflexivity.
  Qed.

  Lemma ids_pairs ps : forall s, (forall p, In p ps -> In (fst p) (ids s)) ->
    ids (apply_events (map ev_of ps) s) = ids s /\ st_new (apply_events (map ev_of ps) s) = st_new s.
  Proof.
    induction ps as [|p ps IH]; intros s H; cbn [map]; [cbn; auto|]. unfold Accum.apply_events in *. cbn [fold_left].
    assert (Hex : area_get (fst p) (st_areas s) <> None) by (apply area_get_In; apply H; left; reflexivity).
    destruct (eval_keeps_ids s (fst p) (snd p) true true Hex) as [E1 E2]. unfold ev_of at 2 4.
    destruct (IH (apply_event s (AEval (fst p) (snd p) true true))) as [B1 B2].
    { intros q Hq. rewrite E1. apply H. right. exact Hq. }
    rewrite B1, B2. auto.
  Qed.

  Lemma inv_pairs ps : forall s, Inv s -> (forall p, In p ps -> In (fst p) (ids s)) -> Inv (apply_events (map ev_of ps) s).
  Proof.
    induction ps as [|p ps IH]; intros s Hi H; cbn [map]; [exact Hi|]. unfold Accum.apply_events in *. cbn [fold_left].
    assert (Hex : area_get (fst p) (st_areas s) <> None) by (apply area_get_In; apply H; left; reflexivity).
    destruct (eval_keeps_ids s (fst p) (snd p) true true Hex) as [E1 _]. unfold ev_of at 2.
    apply IH; [apply inv_eval; assumption|]. intros q Hq. rewrite E1. apply H. right. exact Hq.
  Qed.

  Lemma inv_evals parts l : forall s, Inv s -> (forall id, In id l -> In id (ids s)) ->
    Inv (apply_events (flat_map (eval_area_events parts) l) s) /\
    ids (apply_events (flat_map (eval_area_events parts) l) s) = ids s /\
    st_new (apply_events (flat_map (eval_area_events parts) l) s) = st_new s.
  Proof.
    intros s Hi H. rewrite flat_events.
    assert (Hp : forall p, In p (pairs_of parts l) -> In (fst p) (ids s)) by (intros p Hin; apply H; apply (pairs_fst parts l p Hin)).
    split; [apply inv_pairs; assumption|apply ids_pairs; exact Hp].
  Qed.

  Lemma pre_new_noop l : forall s, (forall id, In id l -> area_get id (st_areas s) = Some vzero) ->
    apply_events (map APre l) s = s.
  Proof.
    induction l as [|id l IH]; intros s H; [reflexivity|].
    cbn [map]. unfold Accum.apply_events. cbn [fold_left]. fold (apply_events (map APre l)).
    assert (E : apply_event s (APre id) = s).
    { cbn [Accum.apply_event]. rewrite (area_set_same id _ vzero (H id (or_introl eq_refl))). destruct s; reflexivity. }
    rewrite E. apply IH. intros id' H'. apply H. right. exact H'.
  Qed.

  (* evaluate_operation in the repaired variant keeps Inv2 *)
  Lemma inv2_evaluate_clear parts s : Inv2 s -> Inv2 (evaluate_new true parts s).
  Proof.
    intros [Hi Hz]. unfold Accum.evaluate_new. rewrite (pre_new_noop (st_new s) s Hz).
    destruct (inv_evals parts (st_new s) s Hi) as [B1 [B2 B3]].
    { intros id Hin. apply area_get_In. rewrite (Hz id Hin). discriminate. }
    split; [|intros id []]. destruct B1 as [N [T C]]. unfold Inv, ids in *. cbn [st_areas st_total st_cont]. auto.
  Qed.

  (* ... and as the code is, it keeps Inv (but the new-object marker stays set) *)
  Lemma inv_evaluate_asis parts s : Inv2 s -> Inv (evaluate_new false parts s).
  Proof.
    intros [Hi Hz]. unfold Accum.evaluate_new. rewrite (pre_new_noop (st_new s) s Hz).
    apply (inv_evals parts (st_new s) s Hi). intros id Hin. apply area_get_In. rewrite (Hz id Hin). discriminate.
  Qed.

  Lemma evaluate_same_acc parts s :
    st_areas (evaluate_new false parts s) = st_areas (evaluate_new true parts s) /\
    st_total (evaluate_new false parts s) = st_total (evaluate_new true parts s) /\
    st_cont (evaluate_new false parts s) = st_cont (evaluate_new true parts s).
  Proof. unfold Accum.evaluate_new. cbn. auto. Qed.

  (* removing one area *)
  Lemma inv_remove_one s id : Inv s -> Inv (remove_one s id).
  Proof.
    intros [Hn [Ht Hc]]. unfold Inv, ids, Accum.remove_one, Accum.area_val. cbn [st_areas st_total st_cont].
    destruct (area_get id (st_areas s)) as [v|] eqn:G.
    - split; [apply area_del_nodup; exact Hn|]. split; [|rewrite Hc; reflexivity].
      rewrite Ht, (area_del_sum id _ v G). apply vadd_sub.
    - rewrite (area_del_none id _ G), vopp_0, !vadd_0_r. auto.
  Qed.

  Lemma remove_one_get s id id' : id <> id' -> area_get id' (st_areas (remove_one s id)) = area_get id' (st_areas s).
  Proof. intro N. unfold Accum.remove_one. cbn [st_areas]. apply area_get_del_other. exact N. Qed.

  Lemma inv_remove l : forall s, Inv s -> Inv (fold_left remove_one l s) /\ st_new (fold_left remove_one l s) = st_new s /\
    forall id', ~ In id' l -> area_get id' (st_areas (fold_left remove_one l s)) = area_get id' (st_areas s).
  Proof.
    induction l as [|id l IH]; intros s H; cbn [fold_left]; [auto|].
    destruct (IH (remove_one s id) (inv_remove_one s id H)) as [A [B C]].
    split; [exact A|]. split; [rewrite B; reflexivity|].
    intros id' Hn. rewrite C; [|intro X; apply Hn; right; exact X]. apply remove_one_get. intro E. apply Hn. left. exact E.
  Qed.

  Definition refine_ok (s : astate) (removed added : list Z) : Prop :=
    NoDup added /\ (forall id, In id added -> ~ In id (ids s)) /\ (forall id, In id added -> ~ In id removed).

  Lemma area_get_app_new l added id : NoDup added -> ~ In id (map fst l) -> In id added ->
    area_get id (l ++ map (fun i => (i, vzero)) added) = Some vzero.
  Proof.
    intros Hnd Hn Hin. induction l as [|[i u] r IH]; cbn.
    - clear Hn. induction added as [|a added IHa]; [destruct Hin|]. cbn. destruct (a =? id) eqn:E; [reflexivity|].
      inversion Hnd. subst. apply IHa; [assumption|]. destruct Hin as [->|H]; [rewrite Z.eqb_refl in E; discriminate|exact H].
    - destruct (i =? id) eqn:E; [apply Z.eqb_eq in E; exfalso; apply Hn; left; exact E|].
      apply IH. intro X. apply Hn. right. exact X.
  Qed.

  Lemma inv2_refine s removed added : Inv s -> refine_ok s removed added -> Inv2 (refine_step removed added s).
  Proof.
    intros [Hn [Ht Hc]] [Hnd [Hfresh Hdis]]. unfold Accum.refine_step. cbn [apply_event].
    set (s1 := mkA (st_areas s ++ map (fun id => (id, vzero)) added) added (st_total s) (st_cont s)).
    assert (I1 : Inv s1).
    { unfold Inv, ids, s1. cbn [st_areas st_total st_cont]. rewrite !map_app, !map_map. cbn [fst snd]. rewrite map_id.
      split; [|split; [|exact Hc]].
      - clear - Hn Hnd Hfresh. unfold ids in *. induction (map fst (st_areas s)) as [|x l IH]; cbn; [exact Hnd|].
        inversion Hn. subst. constructor.
        + intro X. apply in_app_or in X. destruct X as [X|X]; [contradiction|]. apply (Hfresh x X). left. reflexivity.
        + apply IH; [assumption|]. intros id Hin X. apply (Hfresh id Hin). right. exact X.
      - rewrite vsum_app, vsum_zeros, vadd_0_r. exact Ht. }
    destruct (inv_remove removed s1 I1) as [A [B C]]. split; [exact A|].
    intros id Hin. rewrite B in Hin. cbn [s1 st_new] in Hin. rewrite C; [|apply Hdis; exact Hin].
    unfold s1. cbn [st_areas]. apply area_get_app_new; [exact Hnd|apply Hfresh; exact Hin|exact Hin].
  Qed.

  (* ---------------------------------------------------------------- every sequence of driver steps (repaired variant) *)
  Definition step_ok (s : astate) (st : dstep V) : Prop :=
    match st with
    | DEvaluate _ => True
    | DRefine removed added => refine_ok s removed added
    | DEvaluateDW _ => False
    | DSide _ _ => False          (* side evaluations: see the section on side evaluations below *)
    | DEstimate _ => True
    | DFinalCombi _ => False      (* public re-evaluation between legs: see final_combi_is_identity below *)
    end.

  Fixpoint wf_from (clear : bool) (s : astate) (steps : list (dstep V)) : Prop :=
    match steps with
    | [] => True
    | st :: r => step_ok s st /\ wf_from clear (apply_step clear s st) r
    end.

  Theorem running_total_inv steps : forall s, Inv2 s -> wf_from true s steps -> Inv2 (run_steps true steps s).
  Proof.
    induction steps as [|st r IH]; intros s H W; cbn; [exact H|]. destruct W as [Wk Wr].
    apply IH; [|exact Wr]. destruct st as [parts|removed added|xs|sid sx|sid|fparts]; cbn [Accum.apply_step].
    - apply inv2_evaluate_clear. exact H.
    - apply inv2_refine; [exact (proj1 H)|exact Wk].
    - destruct Wk.
    - destruct Wk.
    - exact H.
    - destruct Wk.
  Qed.

  (* ---------------------------------------------------------------- the loop as the code runs it: evaluate (refine evaluate)* *)
  Fixpoint run_rounds (clear : bool) (rounds : list (list Z * list Z * parts_t V)) (s : astate) : astate :=
    match rounds with
    | [] => s
    | (removed, added, parts) :: r => run_rounds clear r (evaluate_new clear parts (refine_step removed added s))
    end.

  Fixpoint rounds_ok (rounds : list (list Z * list Z * parts_t V)) (s : astate) : Prop :=
    match rounds with
    | [] => True
    | (removed, added, parts) :: r =>
        refine_ok s removed added /\ rounds_ok r (evaluate_new true parts (refine_step removed added s))
    end.

  Lemma refine_ignores_marker removed added s s' :
    st_areas s = st_areas s' -> st_total s = st_total s' -> st_cont s = st_cont s' ->
    refine_step removed added s = refine_step removed added s'.
  Proof. intros A T C. unfold Accum.refine_step. rewrite A, T, C. reflexivity. Qed.

  Lemma run_rounds_asis rounds : forall s s',
    st_areas s = st_areas s' -> st_total s = st_total s' -> st_cont s = st_cont s' ->
    st_areas (run_rounds false rounds s) = st_areas (run_rounds true rounds s') /\
    st_total (run_rounds false rounds s) = st_total (run_rounds true rounds s') /\
    st_cont (run_rounds false rounds s) = st_cont (run_rounds true rounds s').
  Proof.
    induction rounds as [|[[removed added] parts] r IH]; intros s s' A T C; cbn [run_rounds]; [auto|].
    rewrite (refine_ignores_marker removed added s s' A T C).
    destruct (evaluate_same_acc parts (refine_step removed added s')) as [A' [T' C']].
    apply IH; assumption.
  Qed.

  Theorem running_total_inv_alternating rounds parts0 s :
    Inv2 s -> rounds_ok rounds (evaluate_new true parts0 s) ->
    Inv (run_rounds false rounds (evaluate_new false parts0 s)).
  Proof.
    intros H W.
    assert (F : Inv2 (run_rounds true rounds (evaluate_new true parts0 s))).
    { pose proof (inv2_evaluate_clear parts0 s H) as H1. revert H1 W. generalize (evaluate_new true parts0 s).
      induction rounds as [|[[removed added] parts] r IH]; intros s1 H1 W; cbn [run_rounds]; [exact H1|].
      destruct W as [Wk Wr]. apply IH; [|exact Wr]. apply inv2_evaluate_clear. apply inv2_refine; [exact (proj1 H1)|exact Wk]. }
    destruct (evaluate_same_acc parts0 s) as [A [T C]].
    destruct (run_rounds_asis rounds _ _ A T C) as [A' [T' C']].
    destruct F as [[N [Tt Cc]] _]. unfold Inv, ids in *. rewrite A', T', C'. auto.
  Qed.

  (* ---------------------------------------------------------------- totals of evaluation event lists *)
  Lemma pairs_total ps : forall s,
    st_total (apply_events (map ev_of ps) s) = vadd (st_total s) (vsum (map snd ps)) /\
    st_cont (apply_events (map ev_of ps) s) = vadd (st_cont s) (vsum (map snd ps)).
  Proof.
    induction ps as [|p ps IH]; intro s; cbn [map Accum.vsum]; [cbn; rewrite !vadd_0_r; auto|].
    unfold Accum.apply_events in *. cbn [fold_left]. destruct (IH (apply_event s (ev_of p))) as [E1 E2]. rewrite E1, E2.
    unfold ev_of. cbn [Accum.apply_event st_total st_cont]. rewrite <- !vadd_assoc. auto.
  Qed.

  Lemma evals_total parts l : forall s,
    st_total (apply_events (flat_map (eval_area_events parts) l) s) = vadd (st_total s) (vsum (flat_map parts l)) /\
    st_cont (apply_events (flat_map (eval_area_events parts) l) s) = vadd (st_cont s) (vsum (flat_map parts l)).
  Proof. intro s. rewrite flat_events, <- pairs_snd. apply pairs_total. Qed.

  Lemma pre_total l : forall s, st_total (apply_events (map APre l) s) = st_total s /\ st_cont (apply_events (map APre l) s) = st_cont s /\
                                st_new (apply_events (map APre l) s) = st_new s.
  Proof. induction l as [|id l IH]; intro s; cbn; [auto|]. apply (IH (apply_event s (APre id))). Qed.

  (* the stored per-area results are the sums of the parts the re-evaluation would compute *)
  Definition Consistent (parts : parts_t V) (s : astate) : Prop :=
    forall id v, In (id, v) (st_areas s) -> v = vsum (parts id).

  Lemma consistent_sum parts l : (forall id v, In (id, v) l -> v = vsum (parts id)) ->
    vsum (map snd l) = vsum (flat_map parts (map (@fst Z V) l)).
  Proof.
    induction l as [|[i v] r IH]; intro H; cbn; [reflexivity|]. rewrite vsum_app, <- IH.
    - rewrite (H i v (or_introl eq_refl)). reflexivity.
    - intros id u Hin. apply H. right. exact Hin.
  Qed.

  (* evaluate_final_combi as it is ADDS a complete second evaluation to the running total *)
  Theorem final_combi_asis_adds parts s :
    st_total (final_combi_asis parts s) = vadd (st_total s) (vsum (flat_map parts (ids s))).
  Proof. unfold Accum.final_combi_asis. apply evals_total. Qed.

  Theorem final_combi_asis_doubles parts s :
    Inv s -> Consistent parts s -> st_total (final_combi_asis parts s) = vadd (st_total s) (st_total s).
  Proof.
    intros [_ [T _]] Cs. rewrite final_combi_asis_adds. f_equal. rewrite T. symmetry. apply consistent_sum. exact Cs.
  Qed.

  (* a re-evaluation that starts from a zero accumulator returns the sum over all current areas and components ... *)
  Theorem reevaluate_total parts s :
    st_total (reevaluate parts s) = vsum (flat_map parts (ids s)) /\ st_cont (reevaluate parts s) = vsum (flat_map parts (ids s)).
  Proof.
    unfold Accum.reevaluate. destruct (evals_total parts (map fst (st_areas s))
       (apply_events (map APre (map fst (st_areas s))) (mkA (st_areas s) (st_new s) vzero vzero))) as [E1 E2].
    rewrite E1, E2. destruct (pre_total (map fst (st_areas s)) (mkA (st_areas s) (st_new s) vzero vzero)) as [P1 [P2 _]].
    rewrite P1, P2. cbn [st_total st_cont]. rewrite !vadd_0_l. auto.
  Qed.

  (* ... which is the running total whenever the invariant holds *)
  Theorem reevaluate_equals_running_total parts s :
    Inv s -> Consistent parts s -> st_total (reevaluate parts s) = st_total s.
  Proof.
    intros [_ [T _]] Cs. rewrite (proj1 (reevaluate_total parts s)), T. symmetry. apply consistent_sum. exact Cs.
  Qed.

  Lemma pre_ids l : forall s, (forall id, In id l -> In id (ids s)) -> ids (apply_events (map APre l) s) = ids s.
  Proof.
    induction l as [|id l IH]; intros s H; [reflexivity|].
    cbn [map]. change (apply_events (APre id :: map APre l) s) with (apply_events (map APre l) (apply_event s (APre id))).
    assert (E : ids (apply_event s (APre id)) = ids s).
    { unfold ids. cbn [Accum.apply_event st_areas].
      assert (X : area_get id (st_areas s) <> None) by (apply area_get_In; apply H; left; reflexivity).
      destruct (area_get id (st_areas s)) as [v|] eqn:G; [|congruence]. apply (area_set_ids id vzero _ v G). }
    rewrite IH; [exact E|]. intros id' H'. rewrite E. apply H. right. exact H'.
  Qed.

  Lemma evals_ids parts l : forall s, (forall id, In id l -> In id (ids s)) ->
    ids (apply_events (flat_map (eval_area_events parts) l) s) = ids s.
  Proof.
    intros s H. rewrite flat_events. apply ids_pairs. intros p Hin. apply H. apply (pairs_fst parts l p Hin).
  Qed.

  Lemma reevaluate_ids parts s : ids (reevaluate parts s) = ids s.
  Proof.
    unfold Accum.reevaluate. rewrite evals_ids.
    - rewrite pre_ids; [reflexivity|]. intros id H. exact H.
    - intros id H. rewrite pre_ids; [exact H|]. intros id' H'. exact H'.
  Qed.

  (* asking again changes nothing *)
  Theorem reevaluate_idempotent parts s :
    st_total (reevaluate parts (reevaluate parts s)) = st_total (reevaluate parts s) /\
    st_cont (reevaluate parts (reevaluate parts s)) = st_cont (reevaluate parts s).
  Proof.
    destruct (reevaluate_total parts (reevaluate parts s)) as [A B]. destruct (reevaluate_total parts s) as [A' B'].
    rewrite A, B, A', B', reevaluate_ids. auto.
  Qed.


  (* ================================================================ side evaluations (apply_to_combi_result = False) *)
  (* A side evaluation adds its partial result to area.value of the evaluated area only; the areas it is applied to are the
     freshly created (not yet evaluated) areas and temporary areas outside the container.  Claim: whatever side / estimate
     evaluations are interleaved with the driver's steps, running total, container value and the stored results of all
     evaluated areas are those of the driver without them. *)

  Lemma memZ_In x l : memZ x l = true <-> In x l.
  Proof.
    induction l as [|y l IH]; cbn; [split; [discriminate|intros []]|].
    rewrite Bool.orb_true_iff, IH, Z.eqb_eq. reflexivity.
  Qed.

  Lemma zna_ids news l : map fst (zero_new_areas news l) = map fst l.
  Proof.
    unfold Accum.zero_new_areas. rewrite map_map. apply map_ext. intros [i v]. cbn [fst]. destruct (memZ i news); reflexivity.
  Qed.

  Lemma zna_nil l : zero_new_areas [] l = l.
  Proof. unfold Accum.zero_new_areas. cbn [memZ]. rewrite <- (map_id l) at 2. apply map_ext. intros p. reflexivity. Qed.

  Lemma zero_new_clear s : st_new s = [] -> zero_new s = s.
  Proof. intro E. unfold Accum.zero_new. rewrite E, zna_nil. destruct s; cbn in *; subst; reflexivity. Qed.

  (* overwriting the value of a new area is invisible after blanking *)
  Lemma zna_set news id w l : memZ id news = true -> zero_new_areas news (area_set id w l) = zero_new_areas news l \/ area_get id l = None.
  Proof.
    intro M. induction l as [|[i u] r IH]; [right; reflexivity|].
    cbn [Accum.area_set Accum.area_get]. destruct (i =? id) eqn:E.
    - left. apply Z.eqb_eq in E. subst i. unfold Accum.zero_new_areas. cbn [map fst]. rewrite M. reflexivity.
    - destruct IH as [IH|IH]; [left|right; exact IH].
      unfold Accum.zero_new_areas in *. cbn [map]. rewrite IH. reflexivity.
  Qed.

  Lemma area_get_zna news id l :
    area_get id (zero_new_areas news l) = if memZ id news then (match area_get id l with Some _ => Some vzero | None => None end) else area_get id l.
  Proof.
    induction l as [|[i u] r IH]; [cbn; destruct (memZ id news); reflexivity|].
    unfold Accum.zero_new_areas in *. cbn [map fst Accum.area_get].
    destruct (memZ i news) eqn:Mi; cbn [Accum.area_get fst]; destruct (i =? id) eqn:E.
    - apply Z.eqb_eq in E. subst i. rewrite Mi. reflexivity.
    - exact IH.
    - apply Z.eqb_eq in E. subst i. rewrite Mi. reflexivity.
    - exact IH.
  Qed.

  (* a side evaluation on a new area, or on an area that is not in the container, is invisible modulo blanking *)
  Definition side_ok (s : astate) (id : Z) : Prop := In id (st_new s) \/ ~ In id (ids s).

  Lemma side_invisible s id x : side_ok s id -> zero_new (apply_event s (ASide id x)) = zero_new s.
  Proof.
    intros H. cbn [Accum.apply_event]. destruct (area_get id (st_areas s)) as [v|] eqn:G; [|reflexivity].
    destruct H as [H|H].
    - unfold Accum.zero_new. cbn [st_areas st_new st_total st_cont].
      destruct (zna_set (st_new s) id (vadd v x) (st_areas s) (proj2 (memZ_In id (st_new s)) H)) as [E|E]; [rewrite E; reflexivity|congruence].
    - exfalso. apply H. apply area_get_In. rewrite G. discriminate.
  Qed.

  Lemma side_keeps_acc s id x :
    st_total (apply_event s (ASide id x)) = st_total s /\ st_cont (apply_event s (ASide id x)) = st_cont s /\
    st_new (apply_event s (ASide id x)) = st_new s /\ ids (apply_event s (ASide id x)) = ids s.
  Proof.
    cbn [Accum.apply_event]. destruct (area_get id (st_areas s)) as [v|] eqn:G; [|auto].
    unfold ids. cbn [st_areas st_new st_total st_cont]. rewrite (area_set_ids id _ _ v G). auto.
  Qed.

  (* ... whereas the same evaluation WITH apply_to_combi_result pollutes the reported value (the seeded defect) *)
  Theorem side_with_flag_pollutes s id x bc : st_total (apply_event s (AEval id x true bc)) = vadd (st_total s) x.
  Proof. reflexivity. Qed.

  (* on an area of the container the raw evaluate_area event with both flags off IS the side evaluation *)
  Lemma side_is_eval_without_flags s id x v :
    area_get id (st_areas s) = Some v -> apply_event s (AEval id x false false) = apply_event s (ASide id x).
  Proof. intro G. cbn [Accum.apply_event]. unfold Accum.area_val. rewrite G. reflexivity. Qed.

  (* area_preprocessing of the new areas = blanking *)
  Lemma nodup_get i v l : NoDup (map fst l) -> In (i, v) l -> area_get i l = Some v.
  Proof.
    induction l as [|[j u] r IH]; cbn; [intros _ []|]. intros Hn Hin. inversion Hn as [|? ? Hnot Hr]. subst.
    destruct Hin as [E|Hin].
    - injection E as -> ->. rewrite Z.eqb_refl. reflexivity.
    - destruct (j =? i) eqn:E; [|apply IH; assumption].
      apply Z.eqb_eq in E. subst j. exfalso. apply Hnot. apply in_map_iff. exists (i, v). auto.
  Qed.

  Lemma same_ids_same_get l l' :
    map fst l = map fst l' -> NoDup (map fst l) -> (forall id, area_get id l = area_get id l') -> l = l'.
  Proof.
    revert l'. induction l as [|[i u] r IH]; intros [|[j w] r'] E Hn H; cbn in E; try discriminate; [reflexivity|].
    injection E as -> E. inversion Hn as [|? ? Hnot Hr]. subst.
    pose proof (H j) as Hj. cbn in Hj. rewrite Z.eqb_refl in Hj. injection Hj as ->. f_equal.
    apply IH; [exact E|exact Hr|]. intro id. pose proof (H id) as Hid. cbn in Hid.
    destruct (j =? id) eqn:Ej; [|exact Hid].
    apply Z.eqb_eq in Ej. subst id.
    assert (N1 : area_get j r = None).
    { destruct (area_get j r) eqn:G; [|reflexivity]. exfalso. apply Hnot. apply area_get_In. rewrite G. discriminate. }
    assert (N2 : area_get j r' = None).
    { destruct (area_get j r') eqn:G; [|reflexivity]. exfalso. apply Hnot. rewrite E. apply area_get_In. rewrite G. discriminate. }
    rewrite N1, N2. reflexivity.
  Qed.

  Lemma pre_get l : forall s id, (forall i, In i l -> In i (ids s)) ->
    area_get id (st_areas (apply_events (map APre l) s)) =
    if memZ id l then (match area_get id (st_areas s) with Some _ => Some vzero | None => None end) else area_get id (st_areas s).
  Proof.
    induction l as [|a l IH]; intros s id H; [cbn; reflexivity|].
    cbn [map]. change (apply_events (APre a :: map APre l) s) with (apply_events (map APre l) (apply_event s (APre a))).
    assert (Ha : area_get a (st_areas s) <> None) by (apply area_get_In; apply H; left; reflexivity).
    assert (Eids : ids (apply_event s (APre a)) = ids s).
    { unfold ids. cbn [Accum.apply_event st_areas]. destruct (area_get a (st_areas s)) as [v|] eqn:G; [|congruence]. apply (area_set_ids a vzero _ v G). }
    rewrite IH; [|intros i Hi; rewrite Eids; apply H; right; exact Hi].
    cbn [Accum.apply_event st_areas memZ]. destruct (a =? id) eqn:E.
    - apply Z.eqb_eq in E. subst a. rewrite area_get_set_same. cbn [orb].
      destruct (area_get id (st_areas s)) as [v|] eqn:G; [|congruence]. destruct (memZ id l); reflexivity.
    - apply Z.eqb_neq in E. rewrite (area_get_set_other a id vzero _ E). cbn [orb]. reflexivity.
  Qed.

  Lemma pre_is_blanking s : NoDup (ids s) -> (forall i, In i (st_new s) -> In i (ids s)) ->
    apply_events (map APre (st_new s)) s = zero_new s.
  Proof.
    intros Hn H.
    destruct (pre_total (st_new s) s) as [T [C N]].
    assert (I : ids (apply_events (map APre (st_new s)) s) = ids s) by (apply pre_ids; exact H).
    assert (A : st_areas (apply_events (map APre (st_new s)) s) = st_areas (zero_new s)).
    { apply same_ids_same_get.
      - unfold Accum.zero_new. cbn [st_areas]. rewrite zna_ids. exact I.
      - fold (ids (apply_events (map APre (st_new s)) s)). rewrite I. exact Hn.
      - intro id. rewrite (pre_get (st_new s) s id H). unfold Accum.zero_new. cbn [st_areas]. rewrite area_get_zna. reflexivity. }
    destruct (apply_events (map APre (st_new s)) s) as [ar nw tt cc]. unfold Accum.zero_new in *. cbn [st_areas st_new st_total st_cont] in *.
    subst. reflexivity.
  Qed.

  Lemma zero_new_idem s : zero_new (zero_new s) = zero_new s.
  Proof.
    unfold Accum.zero_new. cbn [st_areas st_new st_total st_cont]. f_equal.
    unfold Accum.zero_new_areas. rewrite map_map. apply map_ext. intros [i v]. cbn [fst].
    destruct (memZ i (st_new s)) eqn:M; cbn [fst]; rewrite M; reflexivity.
  Qed.

  (* the driver's evaluation of the new areas does not see what side evaluations left in them *)
  Lemma evaluate_blind c parts s : NoDup (ids s) -> (forall i, In i (st_new s) -> In i (ids s)) ->
    evaluate_new c parts s = evaluate_new c parts (zero_new s).
  Proof.
    intros Hn H. unfold Accum.evaluate_new.
    assert (E1 : apply_events (map APre (st_new s)) s = zero_new s) by (apply pre_is_blanking; assumption).
    assert (E2 : apply_events (map APre (st_new (zero_new s))) (zero_new s) = zero_new (zero_new s)).
    { apply pre_is_blanking.
      - unfold ids, Accum.zero_new. cbn [st_areas]. rewrite zna_ids. exact Hn.
      - unfold ids, Accum.zero_new. cbn [st_areas st_new]. rewrite zna_ids. exact H. }
    rewrite E1, E2, zero_new_idem. reflexivity.
  Qed.

  (* a state in which the new areas carry no value is its own blanking *)
  Lemma zero_new_fix s : NoDup (ids s) -> NewZero s -> zero_new s = s.
  Proof.
    intros Hn Hz. unfold Accum.zero_new.
    assert (E : zero_new_areas (st_new s) (st_areas s) = st_areas s).
    { apply same_ids_same_get; [apply zna_ids|rewrite zna_ids; exact Hn|].
      intro id. rewrite area_get_zna. destruct (memZ id (st_new s)) eqn:M; [|reflexivity].
      apply memZ_In in M. rewrite (Hz id M). reflexivity. }
    rewrite E. destruct s; reflexivity.
  Qed.

  (* ================================================================ evaluate_final_combi() on the live object between two legs *)
  (* the evaluation events of one area add the sum of its parts to its stored value and touch no other area *)
  Lemma evals_one_get id xs : forall s v, area_get id (st_areas s) = Some v ->
    area_get id (st_areas (apply_events (map (fun x => AEval id x true true) xs) s)) = Some (vadd v (vsum xs)) /\
    forall id', id <> id' -> area_get id' (st_areas (apply_events (map (fun x => AEval id x true true) xs) s)) = area_get id' (st_areas s).
  Proof.
    induction xs as [|x xs IH]; intros s v G; cbn [map Accum.vsum].
    - cbn. rewrite vadd_0_r. auto.
    - change (apply_events (AEval id x true true :: map (fun x0 => AEval id x0 true true) xs) s)
        with (apply_events (map (fun x0 => AEval id x0 true true) xs) (apply_event s (AEval id x true true))).
      assert (G1 : area_get id (st_areas (apply_event s (AEval id x true true))) = Some (vadd v x)).
      { cbn [Accum.apply_event st_areas]. unfold Accum.area_val. rewrite G. apply area_get_set_same. }
      destruct (IH _ _ G1) as [A B]. split.
      + rewrite A. rewrite <- vadd_assoc. reflexivity.
      + intros id' N. rewrite (B id' N). cbn [Accum.apply_event st_areas]. apply area_get_set_other. exact N.
  Qed.

  Lemma evals_all_get parts l : NoDup l -> forall s, (forall i, In i l -> area_get i (st_areas s) <> None) ->
    forall id, area_get id (st_areas (apply_events (flat_map (eval_area_events parts) l) s)) =
      if memZ id l then (match area_get id (st_areas s) with Some v => Some (vadd v (vsum (parts id))) | None => None end)
      else area_get id (st_areas s).
  Proof.
    induction 1 as [|a l Hnot Hnd IH]; intros s H id; [reflexivity|].
    cbn [flat_map]. unfold Accum.apply_events. rewrite fold_left_app. fold (apply_events (eval_area_events parts a) s).
    fold (apply_events (flat_map (eval_area_events parts) l) (apply_events (eval_area_events parts a) s)).
    destruct (area_get a (st_areas s)) as [va|] eqn:Ga; [|exfalso; apply (H a (or_introl eq_refl)); exact Ga].
    unfold Accum.eval_area_events at 2. destruct (evals_one_get a (parts a) s va Ga) as [A B].
    unfold Accum.eval_area_events at 1.
    rewrite IH.
    - cbn [memZ]. destruct (a =? id) eqn:E.
      + apply Z.eqb_eq in E. subst id. cbn [orb].
        assert (M : memZ a l = false).
        { destruct (memZ a l) eqn:M; [|reflexivity]. apply memZ_In in M. contradiction. }
        rewrite M, A, Ga. reflexivity.
      + apply Z.eqb_neq in E. cbn [orb]. rewrite (B id E). reflexivity.
    - intros i Hi. destruct (Z.eq_dec a i) as [->|N]; [contradiction|]. rewrite (B i N). apply H. right. exact Hi.
  Qed.

  (* a re-evaluation from scratch of a consistent state in which nothing is marked new IS the identity on the machine state *)
  Theorem final_combi_is_identity parts s :
    Inv s -> Consistent parts s -> reevaluate parts s = s.
  Proof.
    intros [Hn [T C]] Cs.
    assert (Eids : ids (reevaluate parts s) = ids s) by apply reevaluate_ids.
    destruct (reevaluate_total parts s) as [RT RC].
    assert (Esum : vsum (flat_map parts (ids s)) = st_total s).
    { rewrite T. symmetry. apply consistent_sum. exact Cs. }
    assert (EA : st_areas (reevaluate parts s) = st_areas s).
    { apply same_ids_same_get; [exact Eids|fold (ids (reevaluate parts s)); rewrite Eids; exact Hn|].
      intro id. unfold Accum.reevaluate.
      set (s0 := mkA (st_areas s) (st_new s) vzero vzero).
      assert (I0 : forall i, In i (map fst (st_areas s)) -> In i (ids s0)) by (intros i Hi; exact Hi).
      assert (Ipre : ids (apply_events (map APre (map fst (st_areas s))) s0) = ids s0) by (apply pre_ids; exact I0).
      rewrite (evals_all_get parts (map fst (st_areas s)) Hn).
      - rewrite (pre_get (map fst (st_areas s)) s0 id I0). cbn [s0 st_areas].
        destruct (memZ id (map fst (st_areas s))) eqn:M.
        + destruct (area_get id (st_areas s)) as [v|] eqn:G.
          * rewrite vadd_0_l. f_equal. symmetry. apply (Cs id v).
            clear - G. induction (st_areas s) as [|[i u] r IHr]; cbn in G; [discriminate|].
            destruct (i =? id) eqn:E; [apply Z.eqb_eq in E; subst; injection G as ->; left; reflexivity|right; apply IHr; exact G].
          * reflexivity.
        + reflexivity.
      - intros i Hi. apply area_get_In. fold (ids (apply_events (map APre (map fst (st_areas s))) s0)). rewrite Ipre. exact Hi. }
    assert (EN : st_new (reevaluate parts s) = st_new s).
    { unfold Accum.reevaluate.
      set (s0 := mkA (st_areas s) (st_new s) vzero vzero).
      destruct (inv_evals parts (map fst (st_areas s)) (apply_events (map APre (map fst (st_areas s))) s0)) as [_ [_ N]].
      - destruct (pre_total (map fst (st_areas s)) s0) as [P1 [P2 _]].
        assert (Ipre : ids (apply_events (map APre (map fst (st_areas s))) s0) = ids s0) by (apply pre_ids; intros i Hi; exact Hi).
        unfold Inv. rewrite Ipre, P1, P2. cbn [s0 st_total st_cont]. unfold ids at 1. cbn [s0 st_areas]. split; [exact Hn|]. split; [|reflexivity].
        (* after area_preprocessing of all areas every stored value is zero *)
        assert (Z0 : forall p, In p (st_areas (apply_events (map APre (map fst (st_areas s))) s0)) -> snd p = vzero).
        { intros [i v] Hin. assert (Nd : NoDup (map fst (st_areas (apply_events (map APre (map fst (st_areas s))) s0)))) by (fold (ids (apply_events (map APre (map fst (st_areas s))) s0)); rewrite Ipre; exact Hn).
          pose proof (nodup_get i v _ Nd Hin) as G. rewrite (pre_get (map fst (st_areas s)) s0 i (fun j Hj => Hj)) in G.
          assert (M : memZ i (map fst (st_areas s)) = true).
          { apply memZ_In. change (In i (ids s0)). rewrite <- Ipre. unfold ids. apply in_map_iff. exists (i, v). auto. }
          rewrite M in G. destruct (area_get i (st_areas s0)); [injection G as <-; reflexivity|discriminate]. }
        clear - Z0 vadd_0_l. induction (st_areas (apply_events (map APre (map fst (st_areas s))) s0)) as [|p r IHr]; [reflexivity|].
        cbn. rewrite (Z0 p (or_introl eq_refl)), vadd_0_l. apply IHr. intros q Hq. apply Z0. right. exact Hq.
      - intros i Hi. assert (Ipre : ids (apply_events (map APre (map fst (st_areas s))) s0) = ids s0) by (apply pre_ids; intros j Hj; exact Hj).
        rewrite Ipre. exact Hi.
      - rewrite N. destruct (pre_total (map fst (st_areas s)) s0) as [_ [_ P3]]. rewrite P3. reflexivity. }
    destruct (reevaluate parts s) as [ar nw tt cc]. destruct s as [ar0 nw0 tt0 cc0]. cbn [st_areas st_new st_total st_cont ids] in *.
    subst ar nw. rewrite RT, RC, Esum. f_equal. symmetry. exact C.
  Qed.

  (* hence continuing after it gives the same states (reported value, container value, every area) at every later stop *)
  Corollary final_combi_then_continue_unchanged parts steps s :
    Inv s -> Consistent parts s -> run_steps true steps (reevaluate parts s) = run_steps true steps s.
  Proof. intros H Cs. rewrite (final_combi_is_identity parts s H Cs). reflexivity. Qed.

  (* ... whereas a re-evaluation that leaves every object marked new makes the NEXT evaluation add everything once more *)
  Theorem final_combi_marking_new_doubles parts s : Inv s -> Consistent parts s ->
    st_total (final_combi_marks_new V vzero vadd vopp parts s) = st_total s /\
    st_total (evaluate_new true parts (final_combi_marks_new V vzero vadd vopp parts s)) = vadd (st_total s) (st_total s).
  Proof.
    intros H Cs. unfold Accum.final_combi_marks_new. rewrite (final_combi_is_identity parts s H Cs). cbn [st_areas st_total st_cont].
    split; [reflexivity|]. destruct H as [Hn [T C]].
    unfold Accum.evaluate_new. cbn [st_new st_areas st_total st_cont].
    set (s1 := mkA (st_areas s) (map fst (st_areas s)) (st_total s) (st_cont s)).
    destruct (evals_total parts (map fst (st_areas s)) (apply_events (map APre (map fst (st_areas s))) s1)) as [E1 _].
    cbn [st_total]. rewrite E1. destruct (pre_total (map fst (st_areas s)) s1) as [P1 _]. rewrite P1. unfold s1. cbn [st_total].
    rewrite <- (consistent_sum parts (st_areas s) Cs), <- T. reflexivity.
  Qed.

  (* the driver with interleaved side / estimate evaluations *)
  Definition stepx_ok (s : astate) (st : dstep V) : Prop :=
    match st with
    | DEvaluate _ => True
    | DRefine removed added => st_new s = [] /\ refine_ok s removed added     (* refine() follows an evaluation *)
    | DEvaluateDW _ => False
    | DSide id _ => side_ok s id
    | DEstimate _ => True
    | DFinalCombi parts => st_new s = [] /\ Consistent parts s      (* between two legs: after an evaluation, on the current scheme *)
    end.

  Fixpoint wfx_from (s : astate) (steps : list (dstep V)) : Prop :=
    match steps with
    | [] => True
    | st :: r => stepx_ok s st /\ wfx_from (apply_step true s st) r
    end.

  (* REFINEMENT: modulo the values of not yet evaluated new areas, the driver with side evaluations is the driver without *)
  Theorem side_evaluations_invisible steps : forall s t,
    Inv2 t -> zero_new s = t -> wfx_from s steps ->
    zero_new (run_steps true steps s) = run_steps true (strip_sides steps) t /\ Inv2 (run_steps true (strip_sides steps) t).
  Proof.
    induction steps as [|st r IH]; intros s t Ht E W; [cbn; auto|].
    destruct W as [Wk Wr].
    assert (Eids : ids s = ids t) by (rewrite <- E; unfold ids, Accum.zero_new; cbn [st_areas]; rewrite zna_ids; reflexivity).
    assert (Enew : st_new s = st_new t) by (rewrite <- E; reflexivity).
    destruct Ht as [Hi Hz]. pose proof Hi as [Hn _].
    assert (Hsub : forall i, In i (st_new s) -> In i (ids s)).
    { intros i Hin. rewrite Eids. apply area_get_In. rewrite Enew in Hin. rewrite (Hz i Hin). discriminate. }
    destruct st as [parts|removed added|xs|id x|id|fparts]; cbn [Accum.run_steps fold_left Accum.strip_sides filter Accum.is_side negb Accum.apply_step] in *.
    - (* evaluate *)
      fold (run_steps true r (evaluate_new true parts s)). fold (strip_sides r). fold (run_steps true (strip_sides r) (evaluate_new true parts t)).
      assert (Es : evaluate_new true parts s = evaluate_new true parts t).
      { rewrite (evaluate_blind true parts s); [rewrite E; reflexivity|rewrite Eids; exact Hn|exact Hsub]. }
      apply IH; [apply inv2_evaluate_clear; split; assumption| |exact Wr].
      rewrite Es. apply zero_new_clear. unfold Accum.evaluate_new. reflexivity.
    - (* refine *)
      fold (run_steps true r (refine_step removed added s)). fold (strip_sides r). fold (run_steps true (strip_sides r) (refine_step removed added t)).
      destruct Wk as [Wn Wk].
      rewrite (zero_new_clear s Wn) in E. subst t. pose proof (inv2_refine s removed added Hi Wk) as H2.
      apply IH; [exact H2| |exact Wr].
      apply zero_new_fix; [exact (proj1 (proj1 H2))|exact (proj2 H2)].
    - destruct Wk.
    - (* side evaluation *)
      fold (run_steps true r (apply_event s (ASide id x))). fold (strip_sides r).
      apply IH; [split; assumption| |exact Wr]. rewrite side_invisible; [exact E|exact Wk].
    - (* estimate *)
      fold (run_steps true r s). fold (strip_sides r). apply IH; [split; assumption|exact E|exact Wr].
    - (* public evaluate_final_combi between two legs: the identity on both machines *)
      fold (run_steps true r (reevaluate fparts s)). fold (strip_sides r). fold (run_steps true (strip_sides r) (reevaluate fparts t)).
      destruct Wk as [Wn Wc]. rewrite (zero_new_clear s Wn) in E. subst t.
      rewrite (final_combi_is_identity fparts s Hi Wc) in *.
      apply IH; [split; assumption|apply zero_new_clear; exact Wn|exact Wr].
  Qed.

  (* the accumulator invariant of a driver with side evaluations: Inv2 modulo blanking *)
  Definition InvS (s : astate) : Prop := Inv2 (zero_new s).

  Theorem side_preserves_invariant s id x : side_ok s id -> InvS s -> InvS (apply_event s (ASide id x)).
  Proof. intros H I. unfold InvS. rewrite side_invisible; assumption. Qed.

  Theorem running_total_inv_with_sides steps s : Inv2 s -> wfx_from s steps -> InvS (run_steps true steps s).
  Proof.
    intros H W. unfold InvS.
    destruct (side_evaluations_invisible steps s s H (zero_new_fix s (proj1 (proj1 H)) (proj2 H)) W) as [E I]. rewrite E. exact I.
  Qed.

  (* what a caller sees: reported value and container value of the run with side evaluations are those of the run without *)
  Corollary side_evaluations_same_result steps s : Inv2 s -> wfx_from s steps ->
    st_total (run_steps true steps s) = st_total (run_steps true (strip_sides steps) s) /\
    st_cont (run_steps true steps s) = st_cont (run_steps true (strip_sides steps) s) /\
    st_total (run_steps true steps s) = vsum (map snd (st_areas (run_steps true (strip_sides steps) s))).
  Proof.
    intros H W.
    destruct (side_evaluations_invisible steps s s H (zero_new_fix s (proj1 (proj1 H)) (proj2 H)) W) as [E [[_ [T _]] _]].
    rewrite <- T, <- E. unfold Accum.zero_new. cbn [st_total st_cont]. auto.
  Qed.


  (* ================================================================ recalculate_frequently *)
  (* as it is: every area is evaluated again on top of the kept running total *)
  Theorem recalc_asis_doubles parts s : Inv s -> Consistent parts s ->
    st_total (evaluate_new true parts (recalc_asis s)) = vadd (st_total s) (st_total s) /\
    st_cont (evaluate_new true parts (recalc_asis s)) = st_total s.
  Proof.
    intros [Hn [T C]] Cs. unfold Accum.recalc_asis, Accum.evaluate_new. cbn [Accum.apply_event st_new st_areas st_total st_cont].
    set (s1 := mkA (st_areas s) (map fst (st_areas s)) (st_total s) vzero).
    destruct (evals_total parts (map fst (st_areas s)) (apply_events (map APre (map fst (st_areas s))) s1)) as [E1 E2].
    cbn [st_total st_cont]. rewrite E1, E2.
    destruct (pre_total (map fst (st_areas s)) s1) as [P1 [P2 _]]. rewrite P1, P2. unfold s1. cbn [st_total st_cont].
    rewrite vadd_0_l. rewrite <- (consistent_sum parts (st_areas s) Cs), <- T. auto.
  Qed.

  Theorem recalc_fixed_total parts s : Inv s -> Consistent parts s ->
    st_total (evaluate_new true parts (recalc_fixed s)) = st_total s /\ st_cont (evaluate_new true parts (recalc_fixed s)) = st_total s.
  Proof.
    intros [Hn [T C]] Cs. unfold Accum.recalc_fixed, Accum.evaluate_new. cbn [Accum.apply_event st_new st_areas st_total st_cont].
    set (s1 := mkA (st_areas s) (map fst (st_areas s)) vzero vzero).
    destruct (evals_total parts (map fst (st_areas s)) (apply_events (map APre (map fst (st_areas s))) s1)) as [E1 E2].
    cbn [st_total st_cont]. rewrite E1, E2.
    destruct (pre_total (map fst (st_areas s)) s1) as [P1 [P2 _]]. rewrite P1, P2. unfold s1. cbn [st_total st_cont].
    rewrite !vadd_0_l. rewrite <- (consistent_sum parts (st_areas s) Cs), <- T. auto.
  Qed.

  (* ---------------------------------------------------------------- dimension-wise strategy *)
  Lemma evals_dw_total xs : forall s,
    st_total (apply_events (map AEvalDW xs) s) = vadd (st_total s) (vsum xs) /\
    st_cont (apply_events (map AEvalDW xs) s) = vadd (st_cont s) (vsum xs).
  Proof.
    induction xs as [|x xs IH]; intro s; cbn [map Accum.vsum]; [cbn; rewrite !vadd_0_r; auto|].
    unfold Accum.apply_events in *. cbn [fold_left]. destruct (IH (apply_event s (AEvalDW x))) as [E1 E2].
    rewrite E1, E2. cbn [apply_event st_total st_cont]. rewrite <- !vadd_assoc. auto.
  Qed.

  (* whatever happened before, an evaluation of the dimension-wise strategy reports the sum over the component grids *)
  Theorem evaluate_dw_total xs s : st_total (evaluate_dw xs s) = vsum xs /\ st_cont (evaluate_dw xs s) = vsum xs.
  Proof.
    unfold Accum.evaluate_dw, Accum.apply_events. cbn [fold_left].
    destruct (evals_dw_total xs (apply_event s AResetDW)) as [E1 E2]. unfold Accum.apply_events in *. rewrite E1, E2.
    cbn [apply_event st_total st_cont]. rewrite !vadd_0_l. auto.
  Qed.

  Theorem final_combi_dw_asis_doubles xs s :
    st_total (final_combi_dw_asis xs (evaluate_dw xs s)) = vadd (vsum xs) (vsum xs).
  Proof.
    unfold Accum.final_combi_dw_asis. rewrite (proj1 (evals_dw_total xs _)), (proj1 (evaluate_dw_total xs s)). reflexivity.
  Qed.
End AccumProofs.

(* ------------------------------------------------------------------ the published combined quadrature rule *)
From Coq Require Import QArith Qcanon.
From SG Require Import Base.QcUtil.
Open Scope Qc_scope.

Theorem combined_rule_linear {P} (f : P -> Qc) (scheme : list (Qc * rule P)) :
  apply_rule f (combined_rule scheme) = combine_components f scheme.
Proof.
  unfold apply_rule, combined_rule, combine_components.
  induction scheme as [|[c r] scheme IH]; cbn [flat_map map sumQ]; [reflexivity|].
  rewrite map_app, sumQ_app, IH. f_equal. cbn [fst snd]. rewrite map_map. cbn [fst snd].
  transitivity (sumQ (map (fun pw : P * Qc => c * (snd pw * f (fst pw))) r)).
  - f_equal. apply map_ext. intro pw. ring.
  - apply (sumQ_map_scale c (fun pw : P * Qc => snd pw * f (fst pw)) r).
Qed.

(* ------------------------------------------------------------------ the executable invariant check is sound *)
Lemma nodupZb_sound l : nodupZb l = true -> NoDup l.
Proof.
  induction l as [|x r IH]; cbn; [constructor|]. intro H. apply Bool.andb_true_iff in H. destruct H as [H1 H2].
  constructor; [|apply IH; exact H2]. intro Hin. apply memZ_In in Hin. rewrite Hin in H1. discriminate.
Qed.

Theorem inv_checkb_sound (s : astate Qc) : inv_checkb s = true -> Inv Qc 0%Qc Qcplus s.
Proof.
  unfold inv_checkb. intro H. apply Bool.andb_true_iff in H. destruct H as [H H3]. apply Bool.andb_true_iff in H. destruct H as [H1 H2].
  unfold Inv, ids. split; [apply nodupZb_sound; exact H1|]. split; [apply Qc_eq_bool_correct; exact H2|apply Qc_eq_bool_correct; exact H3].
Qed.

(* ------------------------------------------------------------------ the published rule reproduces the reported value at EVERY stop *)
Lemma vsum_sumQ l : vsum Qc 0 Qcplus l = sumQ l.
Proof. induction l as [|x l IH]; cbn; [reflexivity|]. rewrite IH. reflexivity. Qed.

Theorem rule_reproduces_reported_every_stop {P} (f : P -> Qc) stops : forall s,
  Forall (fun p => fst p = snd p) (dw_history f stops s).
Proof.
  induction stops as [|sch r IH]; intro s; cbn [dw_history]; constructor; [|apply IH].
  cbn [fst snd].
  rewrite (proj1 (evaluate_dw_total Qc 0 Qcplus Qcopp Qcplus_assoc Qcplus_comm Qcplus_0_l (contributions f sch) s)).
  rewrite vsum_sumQ, combined_rule_linear. reflexivity.
Qed.
