(* Polynomial facts over Qc needed by the C08 quadrature theorems (all sizes):
   - a polynomial with at most n coefficients and n distinct roots is the zero polynomial (synthetic division);
   - polynomials that agree on enough points have the same formal integral;
   - linearity of the formal integral pint, fundamental theorem  pint p' s e = p(e) - p(s). *)
From Coq Require Import ZArith List QArith Qcanon Bool Arith Lia FinFun.
From SG Require Import Base.QcUtil Base.PolyInt Base.PolyQ Model.Tensor Proofs.TensorRule Proofs.LocalGridsBase.
Import ListNotations.
Open Scope Qc_scope.

Local Arguments Z.add : simpl never.
Local Arguments Z.mul : simpl never.

(* the two evaluation functions (Base/PolyInt.v and Model/Tensor.v) are the same function *)
Lemma peval_bridge (p : list Qc) x : PolyInt.peval p x = Tensor.peval p x.
Proof. induction p as [|c p IH]; simpl; [reflexivity | rewrite IH; reflexivity]. Qed.

Definition allz (p : list Qc) : Prop := Forall (fun c => c = 0) p.

Lemma allz_peval p x : allz p -> Tensor.peval p x = 0.
Proof. induction 1 as [|c p Hc _ IH]; simpl; [reflexivity | rewrite Hc, IH; ring]. Qed.

Lemma allz_pint_from p : allz p -> forall k s e, pint_from k p s e = 0.
Proof. induction 1 as [|c p Hc _ IH]; intros k s e; simpl; [reflexivity | rewrite Hc, IH; ring]. Qed.

(* ---- synthetic division by (X - x0) ---- *)
Fixpoint quot (p : list Qc) (x0 : Qc) : list Qc :=
  match p with
  | [] => []
  | c :: r => match r with [] => [] | _ => Tensor.peval r x0 :: quot r x0 end
  end.

Lemma quot_spec p x0 x : Tensor.peval p x = Tensor.peval p x0 + (x - x0) * Tensor.peval (quot p x0) x.
Proof.
  induction p as [|c r IH]; [simpl; ring|].
  destruct r as [|c' r'].
  - simpl. ring.
  - change (quot (c :: c' :: r') x0) with (Tensor.peval (c' :: r') x0 :: quot (c' :: r') x0).
    change (Tensor.peval (c :: c' :: r') x) with (c + x * Tensor.peval (c' :: r') x).
    change (Tensor.peval (c :: c' :: r') x0) with (c + x0 * Tensor.peval (c' :: r') x0).
    change (Tensor.peval (Tensor.peval (c' :: r') x0 :: quot (c' :: r') x0) x)
      with (Tensor.peval (c' :: r') x0 + x * Tensor.peval (quot (c' :: r') x0) x).
    rewrite IH. ring.
Qed.

Lemma quot_length p x0 : length (quot p x0) = pred (length p).
Proof.
  induction p as [|c r IH]; [reflexivity|]. destruct r as [|c' r']; [reflexivity|].
  change (quot (c :: c' :: r') x0) with (Tensor.peval (c' :: r') x0 :: quot (c' :: r') x0).
  cbn [length]. rewrite IH. reflexivity.
Qed.

Lemma quot_zero p x0 : Tensor.peval p x0 = 0 -> allz (quot p x0) -> allz p.
Proof.
  induction p as [|c r IH]; intros H0 Hq; [constructor|].
  destruct r as [|c' r'].
  - constructor; [|constructor]. simpl in H0. rewrite <- H0. ring.
  - change (quot (c :: c' :: r') x0) with (Tensor.peval (c' :: r') x0 :: quot (c' :: r') x0) in Hq.
    inversion Hq as [|? ? Hr Hq']; subst.
    assert (Hz : allz (c' :: r')) by (apply IH; assumption).
    constructor; [|assumption].
    change (Tensor.peval (c :: c' :: r') x0) with (c + x0 * Tensor.peval (c' :: r') x0) in H0.
    assert (Hr' : Tensor.peval (c' :: r') x0 = 0) by exact Hr.
    rewrite Hr' in H0. rewrite <- H0. ring.
Qed.

(* at most n coefficients, n distinct roots: the zero polynomial *)
Theorem roots_zero : forall n p xs, (length p <= n)%nat -> NoDup xs -> length xs = n ->
  (forall x, In x xs -> Tensor.peval p x = 0) -> allz p.
Proof.
  induction n as [|n IH]; intros p xs Hl Hnd Hn Hr.
  - destruct p; [constructor | simpl in Hl; lia].
  - destruct xs as [|x0 xs]; [discriminate|].
    inversion Hnd as [|? ? Hnot Hnd']; subst.
    apply (quot_zero p x0); [apply Hr; left; reflexivity|].
    apply (IH (quot p x0) xs); [rewrite quot_length; lia | assumption | simpl in Hn; lia |].
    intros x Hx.
    assert (E := quot_spec p x0 x). rewrite (Hr x) in E by (right; assumption).
    rewrite (Hr x0) in E by (left; reflexivity).
    assert (Hne : x - x0 <> 0).
    { intro Hc. apply Hnot. assert (x = x0) by (rewrite <- (Qcplus_0_r x0), <- Hc; ring). subst. assumption. }
    assert (Hm : (x - x0) * Tensor.peval (quot p x0) x = 0).
    { symmetry in E. rewrite Qcplus_0_l in E. exact E. }
    apply Qcmult_integral in Hm. destruct Hm as [Hm | Hm]; [contradiction | assumption].
Qed.

(* ---- enough distinct rationals ---- *)
Lemma qn_inj n m : qn n = qn m -> n = m.
Proof.
  intro H. destruct (Nat.lt_trichotomy n m) as [L | [E | L]]; [|assumption|].
  - apply qn_lt in L. rewrite H in L. exfalso. apply Qclt_not_le in L. apply L. apply Qcle_refl.
  - apply qn_lt in L. rewrite H in L. exfalso. apply Qclt_not_le in L. apply L. apply Qcle_refl.
Qed.

Lemma qn_nodup n : NoDup (map qn (seq 0 n)).
Proof.
  apply FinFun.Injective_map_NoDup; [intros a b; apply qn_inj | apply seq_NoDup].
Qed.

Theorem peval_zero_allz p : (forall x, Tensor.peval p x = 0) -> allz p.
Proof.
  intro H. apply (roots_zero (length p) p (map qn (seq 0 (length p)))); [lia | apply qn_nodup | |].
  - rewrite map_length, seq_length. reflexivity.
  - intros x _. apply H.
Qed.

(* ---- linearity of the formal integral ---- *)
Lemma pint_from_padd k p q s e : pint_from k (padd p q) s e = pint_from k p s e + pint_from k q s e.
Proof.
  revert k q. induction p as [|a p IH]; intros k [|b q]; simpl; try ring. rewrite IH. ring.
Qed.

Lemma pint_from_pscale k c p s e : pint_from k (pscale c p) s e = c * pint_from k p s e.
Proof. revert k. induction p as [|a p IH]; intro k; simpl; [ring | rewrite IH; ring]. Qed.

Lemma pint_padd p q s e : pint (padd p q) s e = pint p s e + pint q s e.
Proof. apply pint_from_padd. Qed.
Lemma pint_pscale c p s e : pint (pscale c p) s e = c * pint p s e.
Proof. apply pint_from_pscale. Qed.

Lemma padd_length p q : length (padd p q) = Nat.max (length p) (length q).
Proof. revert q. induction p as [|a p IH]; intros [|b q]; simpl; try reflexivity. rewrite IH. reflexivity. Qed.
Lemma pscale_length c p : length (pscale c p) = length p.
Proof. apply map_length. Qed.

(* two polynomials with at most n coefficients that agree on n distinct points have the same formal integral *)
Theorem pint_agree n p q xs s e : (length p <= n)%nat -> (length q <= n)%nat -> NoDup xs -> length xs = n ->
  (forall x, In x xs -> Tensor.peval p x = Tensor.peval q x) -> pint p s e = pint q s e.
Proof.
  intros Hp Hq Hnd Hn Hag.
  assert (Hz : allz (padd p (pscale (-(1)) q))).
  { apply (roots_zero n _ xs); [rewrite padd_length, pscale_length; lia | assumption | assumption |].
    intros x Hx. rewrite <- peval_bridge, peval_padd, peval_pscale, (peval_bridge p x), (peval_bridge q x).
    rewrite (Hag x Hx). ring. }
  assert (E : pint (padd p (pscale (-(1)) q)) s e = 0) by (apply allz_pint_from; assumption).
  rewrite pint_padd, pint_pscale in E.
  rewrite <- (Qcplus_0_r (pint q s e)), <- E. ring.
Qed.

Theorem pint_ext p q s e : (forall x, Tensor.peval p x = Tensor.peval q x) -> pint p s e = pint q s e.
Proof.
  intro H. apply (pint_agree (Nat.max (length p) (length q)) p q (map qn (seq 0 (Nat.max (length p) (length q)))));
    [lia | lia | apply qn_nodup | rewrite map_length, seq_length; reflexivity | intros x _; apply H].
Qed.

(* ---- fundamental theorem for the formal integral ---- *)
Lemma qc_of_pos_qn k : qc_of_pos (Pos.of_succ_nat k) = qn (S k).
Proof. unfold qc_of_pos, qn, inject_Z. rewrite Zpos_P_of_succ_nat, <- Nat2Z.inj_succ. reflexivity. Qed.

Lemma pint_from_pderiv_from r : forall k s e,
  pint_from k (pderiv_from (Pos.of_succ_nat k) r) s e
  = e ^ (S k) * Tensor.peval r e - s ^ (S k) * Tensor.peval r s.
Proof.
  induction r as [|c r IH]; intros k s e.
  - simpl. ring.
  - cbn [pderiv_from pint_from].
    change (Pos.succ (Pos.of_succ_nat k)) with (Pos.of_succ_nat (S k)).
    rewrite IH, qc_of_pos_qn. unfold mint.
    change (Tensor.peval (c :: r) e) with (c + e * Tensor.peval r e).
    change (Tensor.peval (c :: r) s) with (c + s * Tensor.peval r s).
    assert (Hk := qn_S_neq0 k).
    change (e ^ S (S k)) with (e * e ^ S k). change (s ^ S (S k)) with (s * s ^ S k).
    field. assumption.
Qed.

Theorem pint_pderiv p s e : pint (pderiv p) s e = Tensor.peval p e - Tensor.peval p s.
Proof.
  destruct p as [|c r]; [simpl; unfold pint; simpl; ring|].
  unfold pint, pderiv. change 1%positive with (Pos.of_succ_nat 0). rewrite pint_from_pderiv_from.
  simpl. ring.
Qed.

(* integral of a monomial given as a polynomial *)
Fixpoint mono_poly (k : nat) : list Qc := match k with O => [1] | S k' => 0 :: mono_poly k' end.

Lemma mono_poly_length k : length (mono_poly k) = S k.
Proof. induction k; simpl; congruence. Qed.

Lemma peval_mono_poly k x : Tensor.peval (mono_poly k) x = x ^ k.
Proof. induction k as [|k IH]; simpl; [ring | rewrite IH; ring]. Qed.

Lemma pint_from_mono_poly k j s e : pint_from j (mono_poly k) s e = mint (j + k) s e.
Proof.
  revert j. induction k as [|k IH]; intro j; simpl.
  - rewrite Nat.add_0_r. ring.
  - rewrite IH. replace (S j + k)%nat with (j + S k)%nat by lia. ring.
Qed.

Lemma pint_mono_poly k s e : pint (mono_poly k) s e = mint k s e.
Proof. unfold pint. rewrite pint_from_mono_poly. reflexivity. Qed.
