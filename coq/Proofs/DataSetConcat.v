(* C18 (phase 3) - concatenate on the repaired-offset model: with EQUAL accumulated maps the joined set is the affine image of the joined
   reference lists and revert_scaling restores BOTH operands; with unequal maps (accepted as long as concatenate does not compare them)
   revert_scaling cannot restore the other operand (witness). *)
From Coq Require Import ZArith List QArith Qcanon Bool Lia Arith Permutation.
From SG Require Import Base.QcUtil Model.DataSet Model.DataSetOff Proofs.DataSetVec Proofs.DataSetScale Proofs.DataSetRevert
  Proofs.DataSetMove Proofs.DataSetTrack Proofs.DataSetOffP Proofs.DataSetWitness.
Import ListNotations.
Open Scope Qc_scope.

Theorem concatenate_equal_maps_restores_both v n a b Ra Rb fv cv r :
  InvO n a Ra fv cv -> InvO n b Rb fv cv -> Ra ++ Rb <> [] -> concatenate_o v a b = CNewO r ->
  rows (base r) = rows (base a) ++ rows (base b) /\
  Permutation (rows (base r)) (rows (base a) ++ rows (base b)) /\
  InvO n r (Ra ++ Rb) fv cv /\
  exists r', revert_o true r = (r', false) /\ rows (base r') = Ra ++ Rb /\ cleared (base r') /\ soff r' = FNone.
Proof.
  intros IOa IOb Hne H.
  pose proof (concatenate_o_tracked v n a b Ra Rb fv cv fv cv r IOa IOb Hne (or_intror (or_introl (conj eq_refl eq_refl))) H) as IOr.
  destruct (concatenate_o_new v a b r H) as [Er _].
  assert (Hrows : rows (base r) = rows (base a) ++ rows (base b)) by (subst r; reflexivity).
  split; [exact Hrows|]. split; [rewrite Hrows; apply Permutation_refl|]. split; [exact IOr|].
  exact (revert_o_restores n r (Ra ++ Rb) fv cv IOr Hne).
Qed.

(* unequal maps: a (0,1)-range-scaled set joined with a factor-2-scaled set (first repair only: accepted) - revert_scaling of the joined
   set does not give back the second operand's samples *)
Definition strip_q (l : list sample) := map (fun s => (map this (fst s), snd s)) l.
Definition cw_Ra : list sample := [([0; 1], 0%Z); ([Qc2; Qc2 + Qc2 + 1], 1%Z)].
Definition cw_Rb : list sample := [([1; 1], 1%Z)].
Definition cw_a : dso := fst (scale_range_o true 0 1 false (fresh_o cw_Ra)).
Definition cw_b : dso := fst (scale_factor_o true (AScalar Qc2) false (fresh_o cw_Rb)).

Theorem concatenate_unequal_maps_refuted :
  same_affine cw_a cw_b = false /\
  exists r r', concatenate_o (mkV2 repaired true false) cw_a cw_b = CNewO r /\ revert_o true r = (r', false) /\
    strip_q (firstn 2 (rows (base r'))) = strip_q cw_Ra /\ strip_q (skipn 2 (rows (base r'))) <> strip_q cw_Rb /\
    (* ... while the second repair refuses the call *)
    concatenate_o repaired2 cw_a cw_b = CRaiseO.
Proof.
  split; [vm_compute; reflexivity|]. do 2 eexists. split; [vm_compute; reflexivity|]. split; [vm_compute; reflexivity|].
  split; [vm_compute; reflexivity|]. split; [vm_compute; discriminate | vm_compute; reflexivity].
Qed.
