(* Local combination of an extend-split area: soundness of the verified checker valid_local_combi
   (inclusion-exclusion on the downward closure of the computed grids, hence coefficient sum 1 at every point of the
   area's grids), bounded validity of coarsen_grid versions 0..2 and the refutation for the pinned versions 1,2 with lmin = 2. *)
From Coq Require Import ZArith List Bool QArith Qcanon Lia.
From SG Require Import Base.QcUtil Model.CombiScheme Model.ExtendSplit Proofs.SchemeBasics.
Import ListNotations.
Open Scope Z_scope.
Local Arguments Z.add : simpl never.
Local Arguments Z.sub : simpl never.
Local Arguments Z.leb : simpl never.
Local Arguments Z.eqb : simpl never.
Local Arguments Z.max : simpl never.
Local Arguments Z.pow : simpl never.

(* ---------------------------------------------------------------- soundness of the checker *)

Lemma lv_geb_spec g k : lv_geb g k = true <-> Forall2 (fun x y => y <= x) g k.
Proof.
  revert k. induction g as [|x g IH]; intros [|y k]; simpl; split; intro H; try discriminate; try constructor;
    try (inversion H; fail).
  - apply andb_true_iff in H. destruct H as [H _]. apply Z.leb_le. assumption.
  - apply andb_true_iff in H. destruct H as [_ H]. apply IH. assumption.
  - inversion H; subst. apply andb_true_iff. split; [apply Z.leb_le; assumption | apply IH; assumption].
Qed.

Lemma in_cross k rs : Forall2 (fun x r => In x r) k rs -> In k (cross rs).
Proof.
  induction 1 as [|x r k rs Hx _ IH]; simpl; [left; reflexivity|].
  apply in_flat_map. exists x. split; [assumption | apply in_map; assumption].
Qed.

Lemma lv_max_ge_r a b : length a = length b -> Forall2 (fun x y => x <= y) b (lv_max a b).
Proof.
  revert b. induction a as [|x a IH]; intros [|y b] H; simpl in *; try discriminate; constructor; [lia | apply IH; lia].
Qed.

Lemma lv_max_ge_l a b : length a = length b -> Forall2 (fun x y => x <= y) a (lv_max a b).
Proof.
  revert b. induction a as [|x a IH]; intros [|y b] H; simpl in *; try discriminate; constructor; [lia | apply IH; lia].
Qed.

Lemma lv_max_length a b : length a = length b -> length (lv_max a b) = length a.
Proof. revert b. induction a as [|x a IH]; intros [|y b] H; simpl in *; try discriminate; [reflexivity | f_equal; apply IH; lia]. Qed.

Lemma maxes_length d gs : Forall (fun g => length (fst g) = d) gs -> length (maxes d gs) = d.
Proof.
  unfold maxes. induction gs as [|g gs IH]; intro H; simpl; [apply repeat_length|].
  inversion H; subst. rewrite lv_max_length; [reflexivity | rewrite IH; [reflexivity | assumption]].
Qed.

Lemma Forall2_le_trans (a b c : lv) :
  Forall2 (fun x y => x <= y) a b -> Forall2 (fun x y => x <= y) b c -> Forall2 (fun x y => x <= y) a c.
Proof.
  intro H. revert c. induction H as [|x y a b Hxy _ IH]; intros c Hc; inversion Hc; subst; constructor; [lia | apply IH; assumption].
Qed.

Lemma maxes_ge d gs g : Forall (fun g => length (fst g) = d) gs -> In g gs ->
  Forall2 (fun x y => x <= y) (fst g) (maxes d gs).
Proof.
  intros HL. induction gs as [|g' gs IH]; intro Hin; [destruct Hin|].
  inversion HL as [|? ? L1 L2]; subst. pose proof (maxes_length _ _ L2) as ML.
  unfold maxes in *. simpl. destruct Hin as [E | Hin].
  - subst g'. apply lv_max_ge_l. rewrite ML. reflexivity.
  - eapply Forall2_le_trans; [apply IH; assumption | apply lv_max_ge_r; rewrite ML; reflexivity].
Qed.

Lemma sandwich (g k m : lv) : Forall2 (fun x y => y <= x) g k -> Forall2 (fun x y => x <= y) g m ->
  Forall (fun x => 0 <= x) k -> Forall2 (fun x y => 0 <= x <= y) k m.
Proof.
  intro H. revert m. induction H as [|x y g1 k1 Hxy _ IH]; intros m M Pk; inversion M; subst; constructor.
  - inversion Pk; subst. lia.
  - apply IH; [assumption | inversion Pk; assumption].
Qed.

Definition grids_wf (d : nat) (gs : list (lv * Z)) : Prop :=
  forall g, In g gs -> length (fst g) = d /\ Forall (fun x => 0 <= x) (fst g).

(* the inclusion-exclusion property on the downward closure of the computed grids *)
Definition local_IE (d : nat) (gs : list (lv * Z)) : Prop :=
  forall k, length k = d -> Forall (fun x => 0 <= x) k -> (exists g, In g gs /\ lv_geb (fst g) k = true) ->
            dominating_sum gs k = 1.

Theorem valid_local_combi_sound d gs : valid_local_combi d gs = true -> grids_wf d gs /\ local_IE d gs.
Proof.
  unfold valid_local_combi. intro H. apply andb_true_iff in H. destruct H as [H1 H2].
  rewrite forallb_forall in H1, H2.
  assert (W : grids_wf d gs).
  { intros g Hg. specialize (H1 g Hg). apply andb_true_iff in H1. destruct H1 as [A B].
    split; [apply Nat.eqb_eq; assumption|]. apply Forall_forall. intros x Hx. rewrite forallb_forall in B.
    apply Z.leb_le. apply B. assumption. }
  split; [exact W|].
  intros k Lk Pk [g [Hg Dg]].
  assert (WL : Forall (fun g => length (fst g) = d) gs) by (apply Forall_forall; intros g' Hg'; apply (W g' Hg')).
  assert (Ik : In k (cross (map (fun m => zrange (m + 1)) (maxes d gs)))).
  { apply in_cross. apply lv_geb_spec in Dg. pose proof (maxes_ge d gs g WL Hg) as M.
    pose proof (sandwich _ _ _ Dg M Pk) as KM.
    clear -KM. induction KM as [|x m k ms Hx _ IH]; simpl; constructor; [apply zrange_In; lia | assumption]. }
  specialize (H2 k Ik). apply orb_true_iff in H2. destruct H2 as [H2 | H2].
  - apply negb_true_iff in H2. unfold dominated in H2.
    assert (E : existsb (fun g => lv_geb (fst g) k) gs = true) by (apply existsb_exists; exists g; split; assumption).
    congruence.
  - apply Z.eqb_eq. assumption.
Qed.

(* ---------------------------------------------------------------- from level vectors to grid points *)
(* relative coordinates in the area: the 1D grid of level l >= 0 has the points j / 2^l, j = 0..2^l *)

Lemma pow2_pos l : 0 <= l -> 0 < 2 ^ l.
Proof. intro H. apply Z.pow_pos_nonneg; lia. Qed.

Lemma dy_double j l : 0 <= l -> dy j l = dy (2 * j) (l + 1).
Proof.
  intro H. unfold dy. apply Q2Qc_eq_iff. unfold Qeq. cbn [Qnum Qden].
  pose proof (pow2_pos l H). pose proof (pow2_pos (l + 1) ltac:(lia)).
  rewrite !Z2Pos.id by assumption. rewrite Z.pow_add_r by lia. lia.
Qed.

Lemma pts1_nested l t : 0 <= l -> In t (pts1 l) -> In t (pts1 (l + 1)).
Proof.
  intros H Ht. unfold pts1 in *. apply in_map_iff in Ht. destruct Ht as [j [Ej Hj]]. apply zrange_In in Hj.
  apply in_map_iff. exists (2 * j). split; [rewrite <- Ej; symmetry; apply dy_double; assumption|].
  apply zrange_In. rewrite Z.pow_add_r by lia. lia.
Qed.

Lemma pts1_mono l l' t : 0 <= l -> l <= l' -> In t (pts1 l) -> In t (pts1 l').
Proof.
  intros H0 Hl Ht. replace l' with (l + Z.of_nat (Z.to_nat (l' - l))) by lia.
  induction (Z.to_nat (l' - l)) as [|n IH]; [replace (l + Z.of_nat 0) with l by lia; assumption|].
  replace (l + Z.of_nat (S n)) with (l + Z.of_nat n + 1) by lia. apply pts1_nested; [lia | assumption].
Qed.

Definition in_pts1b (t : Qc) (l : Z) : bool := existsb (Qc_eqb t) (pts1 l).

Lemma in_pts1b_spec t l : in_pts1b t l = true <-> In t (pts1 l).
Proof.
  unfold in_pts1b. rewrite existsb_exists. split.
  - intros [x [Hx E]]. apply Qc_eqb_eq in E. subst. assumption.
  - intro H. exists t. split; [assumption | apply Qc_eqb_eq; reflexivity].
Qed.

(* smallest level 0 <= l < n whose grid contains t (n if there is none) *)
Fixpoint minlev_from (n : nat) (l : Z) (t : Qc) : Z :=
  match n with
  | O => l
  | S n' => if in_pts1b t l then l else minlev_from n' (l + 1) t
  end.

Lemma minlev_from_spec n : forall l0 t, 0 <= l0 ->
  l0 <= minlev_from n l0 t <= l0 + Z.of_nat n /\
  (forall l, l0 <= l < l0 + Z.of_nat n -> (In t (pts1 l) <-> minlev_from n l0 t <= l)).
Proof.
  induction n as [|n IH]; intros l0 t H0; simpl minlev_from.
  - split; [lia | intros l Hl; lia].
  - destruct (in_pts1b t l0) eqn:E.
    + split; [lia|]. intros l Hl. split; [lia|]. intros _. apply in_pts1b_spec in E. apply (pts1_mono l0); [lia | lia | assumption].
    + destruct (IH (l0 + 1) t ltac:(lia)) as [B S]. split; [lia|]. intros l Hl.
      destruct (Z.eq_dec l l0) as [El | Nl].
      * subst l. split; [|lia]. intro Hin. apply in_pts1b_spec in Hin. congruence.
      * apply S. lia.
Qed.

Definition in_grid (g : lv) (x : list Qc) : Prop := Forall2 (fun l t => In t (pts1 l)) g x.

Fixpoint in_gridb (g : lv) (x : list Qc) : bool :=
  match g, x with
  | [], [] => true
  | l :: g', t :: x' => in_pts1b t l && in_gridb g' x'
  | _, _ => false
  end.

Lemma in_gridb_spec g x : in_gridb g x = true <-> in_grid g x.
Proof.
  unfold in_grid. revert x. induction g as [|l g IH]; intros [|t x]; simpl; split; intro H; try discriminate;
    try constructor; try (inversion H; fail).
  - apply andb_true_iff in H. apply in_pts1b_spec. apply H.
  - apply andb_true_iff in H. apply IH. apply H.
  - inversion H; subst. apply andb_true_iff. split; [apply in_pts1b_spec; assumption | apply IH; assumption].
Qed.

(* sum of the coefficients of the computed grids that contain the point x *)
Definition point_coeff_sum (gs : list (lv * Z)) (x : list Qc) : Z :=
  sumZ (map (fun g => if in_gridb (fst g) x then snd g else 0) gs).

Lemma in_gridb_minlev n g x : Forall (fun l => 0 <= l < Z.of_nat n) g ->
  in_gridb g x = lv_geb g (map (minlev_from n 0) x).
Proof.
  revert x. induction g as [|l g IH]; intros [|t x] H; simpl; try reflexivity.
  inversion H as [|? ? Hl Hg]; subst. rewrite (IH x Hg). f_equal.
  destruct (minlev_from_spec n 0 t ltac:(lia)) as [_ S]. specialize (S l ltac:(lia)).
  destruct (in_pts1b t l) eqn:E.
  - apply in_pts1b_spec in E. symmetry. apply Z.leb_le. apply S. assumption.
  - symmetry. apply Z.leb_gt. destruct (Z_lt_le_dec l (minlev_from n 0 t)) as [Lt | Le]; [assumption|].
    apply S in Le. apply in_pts1b_spec in Le. congruence.
Qed.

(* IE => the coefficients of the computed grids sum to 1 at every point of every computed grid of the area *)
Theorem local_IE_point_sum d gs : grids_wf d gs -> local_IE d gs ->
  forall g0 x, In g0 gs -> in_grid (fst g0) x -> point_coeff_sum gs x = 1.
Proof.
  intros W IE g0 x Hg0 Hx.
  set (n := Z.to_nat (fold_right Z.max 0 (flat_map fst gs) + 1)).
  assert (Bn : forall g, In g gs -> Forall (fun l => 0 <= l < Z.of_nat n) (fst g)).
  { intros g Hg. destruct (W g Hg) as [_ P]. apply Forall_forall. intros l Hl. rewrite Forall_forall in P.
    specialize (P l Hl). split; [assumption|].
    assert (M : l <= fold_right Z.max 0 (flat_map fst gs)).
    { assert (I : In l (flat_map fst gs)) by (apply in_flat_map; exists g; split; assumption).
      clear -I. induction (flat_map fst gs) as [|y r IH]; [destruct I|]. simpl. destruct I as [E | I]; [subst; lia|].
      specialize (IH I). lia. }
    unfold n. lia. }
  set (k := map (minlev_from n 0) x).
  assert (E : point_coeff_sum gs x = dominating_sum gs k).
  { unfold point_coeff_sum, dominating_sum. f_equal. apply map_ext_in. intros g Hg.
    rewrite (in_gridb_minlev n (fst g) x (Bn g Hg)). reflexivity. }
  rewrite E. apply IE.
  - unfold k. rewrite map_length. destruct (W g0 Hg0) as [L _]. rewrite <- L.
    symmetry. unfold in_grid in Hx. clear -Hx. induction Hx; simpl; congruence.
  - unfold k. apply Forall_forall. intros y Hy. apply in_map_iff in Hy. destruct Hy as [t [Et _]]. subst y.
    destruct (minlev_from_spec n 0 t ltac:(lia)) as [B _]. lia.
  - exists g0. split; [assumption|]. unfold k. rewrite <- (in_gridb_minlev n (fst g0) x (Bn g0 Hg0)).
    apply in_gridb_spec. assumption.
Qed.

Corollary valid_local_combi_point_sum d gs : valid_local_combi d gs = true ->
  forall g0 x, In g0 gs -> in_grid (fst g0) x -> point_coeff_sum gs x = 1.
Proof. intro H. destruct (valid_local_combi_sound d gs H) as [W IE]. apply (local_IE_point_sum d gs W IE). Qed.

(* ---------------------------------------------------------------- bounded validity of coarsen_grid *)

(* base = lmin: the repaired diagonal arithmetic; for lmin = 1 and for version 0 this IS the pinned code *)
Definition bounded_all (ds : list nat) (lmins : list Z) (spans : Z) (fixed : bool) : bool :=
  forallb (fun d => forallb (fun v => forallb (fun lmin => forallb (fun span => forallb (fun c =>
    local_combi_check (mkCP d v lmin (lmin + span) (if fixed then lmin else 1)) c)
    (zrange (span + 3))) (zrange spans)) lmins) [0; 1; 2]) ds.

Lemma bounded_all_spec ds lmins spans fixed : bounded_all ds lmins spans fixed = true ->
  forall d v lmin span c, In d ds -> In v [0; 1; 2] -> In lmin lmins -> In span (zrange spans) -> In c (zrange (span + 3)) ->
  local_combi_check (mkCP d v lmin (lmin + span) (if fixed then lmin else 1)) c = true.
Proof.
  unfold bounded_all. intros H d v lmin span c Hd Hv Hl Hs Hc.
  rewrite forallb_forall in H. specialize (H d Hd).
  rewrite forallb_forall in H. specialize (H v Hv).
  rewrite forallb_forall in H. specialize (H lmin Hl).
  rewrite forallb_forall in H. specialize (H span Hs).
  rewrite forallb_forall in H. exact (H c Hc).
Qed.

Lemma bounded_fixed_true : bounded_all [2%nat; 3%nat; 4%nat; 5%nat] [1; 2; 3] 7 true = true.
Proof. vm_compute. reflexivity. Qed.

Lemma bounded_pinned_lmin1_true : bounded_all [2%nat; 3%nat; 4%nat; 5%nat] [1] 7 false = true.
Proof. vm_compute. reflexivity. Qed.

Lemma bounded_pinned_v0_true :
  forallb (fun d => forallb (fun lmin => forallb (fun span => forallb (fun c =>
    local_combi_check (mkCP d 0 lmin (lmin + span) 1) c) (zrange (span + 3))) (zrange 7)) [1; 2; 3])
    [2%nat; 3%nat; 4%nat; 5%nat] = true.
Proof. vm_compute. reflexivity. Qed.

Lemma local_combi_check_valid cp c : local_combi_check cp c = true ->
  valid_local_combi (cp_dim cp) (local_combi cp c) = true.
Proof.
  unfold local_combi_check, local_combi. destruct (coarsen_all cp c [] (the_scheme cp)) as [rs dict1]. cbn [fst].
  intro H. apply andb_true_iff in H. destruct H as [H _]. apply andb_true_iff in H. destruct H as [_ H]. exact H.
Qed.

(* pinned code, versions 1 and 2, lmin = 2: the local combination of an area with coarsening 1 is invalid *)
Lemma pinned_v1_lmin2_invalid : valid_local_combi 2 (local_combi (mkCP 2 1 2 4 1) 1) = false.
Proof. vm_compute. reflexivity. Qed.
Lemma pinned_v2_lmin2_invalid : valid_local_combi 2 (local_combi (mkCP 2 2 2 4 1) 1) = false.
Proof. vm_compute. reflexivity. Qed.
Lemma pinned_v1_lmin2_point : point_coeff_sum (local_combi (mkCP 2 1 2 4 1) 1) [dy 0 0; dy 1 1] = 2.
Proof. vm_compute. reflexivity. Qed.
