(* C16: what the model's own solve returns IS the solution of the density-estimation system, and it is the only one. *)
From Coq Require Import ZArith List QArith Qcanon Bool Lia Lqa.
From SG Require Import Base.QcUtil Model.Gram Model.GramSolve Proofs.GramHat Proofs.GramEntries Proofs.GramPD Proofs.GramNorm
  Proofs.KronSOS Proofs.StripeSOS Proofs.GramKron.
Import ListNotations.
Open Scope Qc_scope.

Theorem solve_checked_sound G b x : solve_checked G b = Some x -> matvec G x = b.
Proof.
  unfold solve_checked. destruct (gauss (length G) G b) as [y|]; [|discriminate].
  destruct (check_solution G y b) eqn:E; [|discriminate]. intro H. injection H as H. subst y.
  apply check_solution_sound. exact E.
Qed.

Lemma solve_checked_length G b x n : Forall (fun row => length row = n) G -> length G = n ->
  solve_checked G b = Some x -> length x = n.
Proof.
  intros Hrows HG. unfold solve_checked. destruct G as [|row G].
  - cbn [length gauss]. destruct (check_solution [] [] b); [|discriminate]. intro H. injection H as H. subst x n. reflexivity.
  - destruct (gauss (length (row :: G)) (row :: G) b) as [y|]; [|discriminate].
    destruct (check_solution (row :: G) y b) eqn:E; [|discriminate]. intro H. injection H as H. subst y.
    unfold check_solution in E. apply andb_true_iff in E. destruct E as [E1 _].
    cbn [forallb] in E1. apply andb_true_iff in E1. destruct E1 as [E1 _]. apply Nat.eqb_eq in E1.
    inversion Hrows as [|? ? H1 H2]; subst. rewrite <- H1. symmetry. exact E1.
Qed.

(* ------------------------------------------------------------------ the pipeline, dimension-wise path *)
Theorem surpluses_nonuniform_spec stripes lam data signs labelled raw fin integ :
  Forall unit_stripe stripes -> 0 <= lam ->
  surpluses_nonuniform stripes lam false data signs labelled = Some (raw, fin, integ) ->
  let G := R_matrix_nonuniform (grid_hats stripes) lam in
  let b := rhs (grid_hats stripes) data signs in
  matvec G raw = b /\
  (forall y, length y = length (grid_hats stripes) -> matvec G y = b -> y = raw) /\
  (fin, integ) = normalise_weighted labelled (tensor_weights stripes) raw.
Proof.
  intros Hs Hlam H. cbv zeta. unfold surpluses_nonuniform, finish_nonuniform in H.
  destruct (solve_checked (R_matrix_nonuniform (grid_hats stripes) lam) (rhs (grid_hats stripes) data signs)) as [a|] eqn:E;
    [|discriminate].
  injection H as H1 H2 H3. subst a.
  pose proof (solve_checked_sound _ _ _ E) as S.
  assert (L : length raw = length (grid_hats stripes)).
  { apply (solve_checked_length _ _ _ _ (sym_matrix_rows Rval lam (grid_hats stripes)) (sym_matrix_length Rval lam _) E). }
  split; [exact S|]. split.
  - intros y Hy Ey. apply (gram_grid_solution_unique stripes lam y raw _ Hs Hlam Hy L Ey S).
  - rewrite <- H2, <- H3. apply surjective_pairing.
Qed.

(* ------------------------------------------------------------------ the pipeline, uniform path *)
Theorem surpluses_uniform_spec lv lam data signs labelled raw fin integ :
  0 <= lam ->
  surpluses_uniform lv lam false data signs labelled = Some (raw, fin, integ) ->
  let G := R_matrix_uniform lv lam in
  let b := rhs_uniform lv data signs in
  matvec G raw = b /\
  (forall y, length y = length (index_list lv) -> matvec G y = b -> y = raw) /\
  (fin, integ) = normalise_uniform labelled raw.
Proof.
  intros Hlam H. cbv zeta. unfold surpluses_uniform, finish_uniform in H.
  destruct (solve_checked (R_matrix_uniform lv lam) (rhs_uniform lv data signs)) as [a|] eqn:E; [|discriminate].
  injection H as H1 H2 H3. subst a.
  pose proof (solve_checked_sound _ _ _ E) as S.
  assert (L : length raw = length (index_list lv)).
  { rewrite R_matrix_uniform_sym in E.
    apply (solve_checked_length _ _ _ _ (sym_matrix_rows (Uval lv) lam (index_list lv)) (sym_matrix_length (Uval lv) lam _) E). }
  split; [exact S|]. split.
  - intros y Hy Ey. apply (gram_uniform_solution_unique lv lam y raw _ Hlam Hy L Ey S).
  - rewrite <- H2, <- H3. apply surjective_pairing.
Qed.

(* the scaling of the code (solve(R * s, b * s) with s = 1 / max R) does not change the solution set *)
Theorem scaled_system_same_solutions (G : list (list Qc)) (b x : list Qc) (s : Qc) : s <> 0 ->
  (matvec (map (map (fun a => a * s)) G) x = map (fun a => a * s) b <-> matvec G x = b).
Proof.
  intro Hs.
  assert (D : forall row, dotQ (map (fun a => a * s) row) x = dotQ row x * s).
  { intro row. revert x. induction row as [|a row IH]; intros [|y x]; cbn [map dotQ]; try ring. rewrite IH. ring. }
  unfold matvec. rewrite map_map. revert b. induction G as [|row G IH]; intros [|b0 b]; cbn [map]; split; intro H; try discriminate; try reflexivity.
  - injection H as H0 H1. f_equal.
    + rewrite D in H0. transitivity ((dotQ row x * s) / s); [field; exact Hs | rewrite H0; field; exact Hs].
    + apply IH. exact H1.
  - injection H as H0 H1. f_equal.
    + rewrite D, H0. reflexivity.
    + apply IH. exact H1.
Qed.
