(* C04: a hat function hatc c H on an ARBITRARY strictly sorted 1D grid that contains the hat's kinks (c-H, c, c+H, as far as
   they lie inside the grid's range): the non-uniform trapezoidal rule of GlobalTrapezoidalGrid integrates it exactly, and
   piecewise-linear interpolation reproduces it at every x of the range. *)
From Coq Require Import ZArith List Bool QArith Qcanon Lia Sorted Arith.
From SG Require Import Base.QcUtil Model.CombiScheme Model.StdCombi Model.Trap Proofs.TrapBasics Proofs.Trap Proofs.HatFacts.
Import ListNotations.
Local Open Scope Qc_scope.

(* every kink is a grid point or lies outside (a,b) *)
Definition resolves (a b c H : Qc) (xs : list Qc) : Prop :=
  forall k, k = c - H \/ k = c \/ k = c + H -> In k xs \/ k <= a \/ b <= k.

Lemma nq_cons x xs j : nq (x :: xs) (S j) = nq xs j.
Proof. reflexivity. Qed.

Lemma sorted_nq_lt xs : StronglySorted Qclt xs -> forall i j, (i < j)%nat -> (j < length xs)%nat -> nq xs i < nq xs j.
Proof.
  induction 1 as [|x xs HS IH HF]; intros i j Hij Hj; [simpl in Hj; lia|].
  destruct j as [|j]; [lia|]. destruct i as [|i].
  - rewrite nq_cons. change (nq (x :: xs) 0) with x. rewrite Forall_forall in HF. apply HF.
    unfold nq. apply nth_In. simpl in Hj. lia.
  - rewrite !nq_cons. apply IH; simpl in Hj; lia.
Qed.

(* no grid point strictly between two consecutive grid points *)
Lemma consecutive_gap xs : StronglySorted Qclt xs -> forall j k, (S j < length xs)%nat -> In k xs ->
  k <= nq xs j \/ nq xs (S j) <= k.
Proof.
  intros HS j k Hj Hk. destruct (In_nth xs k 0 Hk) as (m & Hm & <-). fold (nq xs m).
  destruct (le_gt_dec m j) as [Hle|Hgt].
  - left. destruct (Nat.eq_dec m j) as [->|Hne]; [apply Qcle_refl|].
    apply Qclt_le_weak. apply sorted_nq_lt; [assumption | lia | lia].
  - right. destruct (Nat.eq_dec m (S j)) as [->|Hne]; [apply Qcle_refl|].
    apply Qclt_le_weak. apply sorted_nq_lt; [assumption | lia | lia].
Qed.

Lemma cells_in_region a b c H xs : StronglySorted Qclt xs -> (forall x, In x xs -> a <= x /\ x <= b) ->
  resolves a b c H xs -> forall j, (S j < length xs)%nat -> cell_region c H (nq xs j) (nq xs (S j)).
Proof.
  intros HS Hab HR j Hj.
  assert (Hp : a <= nq xs j) by (apply Hab; unfold nq; apply nth_In; lia).
  assert (Hq : nq xs (S j) <= b) by (apply Hab; unfold nq; apply nth_In; lia).
  assert (G : forall k, k = c - H \/ k = c \/ k = c + H -> k <= nq xs j \/ nq xs (S j) <= k).
  { intros k Hk. destruct (HR k Hk) as [Hin|[Hle|Hge]].
    - apply consecutive_gap; assumption.
    - left. eapply Qcle_trans; eassumption.
    - right. eapply Qcle_trans; eassumption. }
  unfold cell_region.
  destruct (G (c - H)) as [A|A]; [auto | | left; exact A].
  destruct (G c) as [B|B]; [auto | | right; left; split; assumption].
  destruct (G (c + H)) as [C|C]; [auto | | right; right; left; split; assumption].
  right. right. right. exact C.
Qed.

(* ---------- quadrature ---------- *)
Theorem trap_hat_on_grid a b c H xs a' b' : 0 < H -> StronglySorted Qclt xs -> (forall x, In x xs -> a <= x /\ x <= b) ->
  resolves a b c H xs -> (1 <= length xs)%nat ->
  dotQ (weights_raw false xs a' b') (map (hatc c H) xs) = hatF c H (nq xs (length xs - 1)) - hatF c H (nq xs 0).
Proof.
  intros HH HS Hab HR Hlen.
  rewrite trap_is_pl_integral by apply map_length.
  rewrite pl_int_half_step.
  rewrite (sum_range_ext _ (fun j => hatF c H (nq xs (S j)) - hatF c H (nq xs j))).
  - rewrite (sum_range_telescope (fun j => hatF c H (nq xs j))). rewrite Nat.add_0_l. reflexivity.
  - intros j Hj. rewrite !nq_map_fun by lia.
    rewrite <- (hatc_trap_cell c H (nq xs j) (nq xs (S j)) HH).
    + unfold half_step. ring.
    + apply Qclt_le_weak. apply sorted_nq_lt; [assumption | lia | lia].
    + apply (cells_in_region a b c H xs); try assumption. lia.
Qed.

(* boundary=False: the end points are dropped; same value when the hat vanishes at both ends *)
Theorem trap_hat_on_grid_inner a b c H xs a' b' : 0 < H -> StronglySorted Qclt xs -> (forall x, In x xs -> a <= x /\ x <= b) ->
  resolves a b c H xs -> (2 <= length xs)%nat ->
  hatc c H (nq xs 0) = 0 -> hatc c H (nq xs (length xs - 1)) = 0 ->
  dotQ (strip (weights_raw false xs a' b')) (map (hatc c H) (strip xs))
  = hatF c H (nq xs (length xs - 1)) - hatF c H (nq xs 0).
Proof.
  intros HH HS Hab HR Hlen H0 Hn.
  rewrite <- (trap_hat_on_grid a b c H xs a' b' HH HS Hab HR) by lia.
  assert (Es : map (hatc c H) (strip xs) = strip (map (hatc c H) xs)).
  { unfold strip. destruct xs as [|x0 xs']; [reflexivity|]. simpl.
    clear. induction xs' as [|x1 r IH]; [reflexivity|]. destruct r as [|x2 r']; [reflexivity|].
    change (removelast (x1 :: x2 :: r')) with (x1 :: removelast (x2 :: r')).
    change (removelast (map (hatc c H) (x1 :: x2 :: r'))) with (hatc c H x1 :: removelast (map (hatc c H) (x2 :: r'))).
    cbn [map]. f_equal. exact IH. }
  rewrite Es.
  rewrite (dotQ_strip (weights_raw false xs a' b') (map (hatc c H) xs)).
  - rewrite map_length. rewrite !nq_map_fun by lia. rewrite H0, Hn. ring.
  - rewrite weights_raw_false, weights_general_length, map_length. reflexivity.
  - rewrite weights_raw_false, weights_general_length. exact Hlen.
Qed.

(* ---------- interpolation ---------- *)
Lemma interp1_affine (g : Qc -> Qc) : forall xs x, StronglySorted Qclt xs ->
  (forall j, (S j < length xs)%nat -> affine_on g (nq xs j) (nq xs (S j))) ->
  (1 <= length xs)%nat -> nq xs 0 <= x -> x <= nq xs (length xs - 1) -> interp1 xs g x = g x.
Proof.
  induction xs as [|x0 r IH]; intros x HS HA Hlen H0 Hn; [simpl in Hlen; lia|].
  destruct r as [|x1 r'].
  - simpl in *. change (nq [x0] 0) with x0 in *. assert (x = x0) as -> by (apply Qcle_antisym; assumption). reflexivity.
  - change (interp1 (x0 :: x1 :: r') g x) with
      (if Qc_leb x x1 then g x0 + (x - x0) / (x1 - x0) * (g x1 - g x0) else interp1 (x1 :: r') g x).
    destruct (Qc_leb x x1) eqn:E.
    + apply Qc_leb_le in E. symmetry. apply (HA 0%nat); [simpl; lia | exact H0 | exact E].
    + apply Qc_leb_false in E. inversion HS as [|? ? HS' _]; subst. apply IH.
      * exact HS'.
      * intros j Hj. specialize (HA (S j)). rewrite !nq_cons in HA. apply HA. simpl in *. lia.
      * simpl. lia.
      * change (nq (x1 :: r') 0) with x1. apply Qclt_le_weak. exact E.
      * simpl length in *. replace (S (S (length r')) - 1)%nat with (S (S (length r') - 1)) in Hn by lia.
        rewrite nq_cons in Hn. exact Hn.
Qed.

Theorem interp_hat_on_grid a b c H xs x : 0 < H -> StronglySorted Qclt xs -> (forall y, In y xs -> a <= y /\ y <= b) ->
  resolves a b c H xs -> (1 <= length xs)%nat -> nq xs 0 <= x -> x <= nq xs (length xs - 1) ->
  interp1 xs (hatc c H) x = hatc c H x.
Proof.
  intros HH HS Hab HR Hlen H0 Hn. apply interp1_affine; try assumption.
  intros j Hj. apply hatc_affine_cell; [exact HH | |].
  - apply sorted_nq_lt; [assumption | lia | lia].
  - apply (cells_in_region a b c H xs); assumption.
Qed.

(* monotonicity of `resolves` in the grid *)
Lemma resolves_incl a b c H xs ys : incl xs ys -> resolves a b c H xs -> resolves a b c H ys.
Proof. intros Hi HR k Hk. destruct (HR k Hk) as [A|A]; [left; apply Hi; exact A | right; exact A]. Qed.
