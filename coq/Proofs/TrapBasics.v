(* C09 — basic lemmas: finite sums over index ranges, dot products against index functions, list surgery. *)
From Coq Require Import ZArith List QArith Qcanon Bool Arith Lia Lqa.
From SG Require Import Base.QcUtil Model.Trap.
Import ListNotations.
Open Scope Qc_scope.

(* constants in a form `field` understands *)
Lemma half_eq : Qchalf = 1 / (1 + 1).
Proof. apply Qc_is_canon. reflexivity. Qed.
Lemma two_eq : Qc2 = 1 + 1.
Proof. apply Qc_is_canon. reflexivity. Qed.
Lemma sub_neq0 (x1 x0 : Qc) : x1 <> x0 -> x1 - x0 <> 0.
Proof. intros Hne E. apply Hne. apply Qc_eq_Qeq. apply Qc_eq_Qeq in E. qc_unfold_ops. lra. Qed.
Lemma lt_sub_neq0 (x1 x0 : Qc) : x0 < x1 -> x1 - x0 <> 0.
Proof. intros Hlt. apply sub_neq0. intro E. subst. apply (Qclt_not_le _ _ Hlt). apply Qcle_refl. Qed.

Ltac qc_const_neq := let E := fresh "E" in intro E; apply Qc_eq_Qeq in E; vm_compute in E; discriminate E.
Ltac qfield := rewrite ?half_eq, ?two_eq; field; repeat split; try assumption; try qc_const_neq.
Ltac qring := rewrite ?half_eq, ?two_eq; ring.

Lemma sum_range_0 f lo : sum_range f lo 0 = 0.
Proof. reflexivity. Qed.

Lemma sum_range_S_l f lo m : sum_range f lo (S m) = f lo + sum_range f (S lo) m.
Proof. reflexivity. Qed.

Lemma sum_range_S f lo m : sum_range f lo (S m) = sum_range f lo m + f (lo + m)%nat.
Proof.
  unfold sum_range. rewrite seq_S, map_app, sumQ_app. simpl. ring.
Qed.

Lemma sum_range_split f lo m1 m2 : sum_range f lo (m1 + m2) = sum_range f lo m1 + sum_range f (lo + m1) m2.
Proof.
  unfold sum_range. rewrite seq_app, map_app, sumQ_app. reflexivity.
Qed.

Lemma sum_range_ext f g lo m :
  (forall i, (lo <= i < lo + m)%nat -> f i = g i) -> sum_range f lo m = sum_range g lo m.
Proof.
  revert lo. induction m as [|m IH]; intros lo H; [reflexivity|].
  rewrite !sum_range_S_l. rewrite (H lo) by lia. f_equal. apply IH. intros i Hi. apply H. lia.
Qed.

Lemma sum_range_add f g lo m :
  sum_range (fun i => f i + g i) lo m = sum_range f lo m + sum_range g lo m.
Proof.
  revert lo. induction m as [|m IH]; intro lo; [unfold sum_range; simpl; ring|].
  rewrite !sum_range_S_l, IH. ring.
Qed.

Lemma sum_range_shift f lo m : sum_range f (S lo) m = sum_range (fun j => f (S j)) lo m.
Proof.
  unfold sum_range. rewrite <- seq_shift, map_map. reflexivity.
Qed.

Lemma sum_range_zero f lo m : (forall i, (lo <= i < lo + m)%nat -> f i = 0) -> sum_range f lo m = 0.
Proof.
  revert lo. induction m as [|m IH]; intros lo H; [reflexivity|].
  rewrite sum_range_S_l, (H lo) by lia. rewrite IH; [ring|]. intros i Hi. apply H. lia.
Qed.

Lemma sum_range_telescope (F : nat -> Qc) lo m :
  sum_range (fun j => F (S j) - F j) lo m = F (lo + m)%nat - F lo.
Proof.
  induction m as [|m IH].
  - rewrite Nat.add_0_r. unfold sum_range. simpl. ring.
  - rewrite sum_range_S, IH. replace (lo + S m)%nat with (S (lo + m)) by lia. ring.
Qed.

Lemma sum_range_scale c f lo m : sum_range (fun i => c * f i) lo m = c * sum_range f lo m.
Proof.
  revert lo. induction m as [|m IH]; intro lo; [unfold sum_range; simpl; ring|].
  rewrite !sum_range_S_l, IH. ring.
Qed.

(* dot product of an index-defined weight list with a value list *)
Lemma dotQ_map_seq (W : nat -> Qc) (v : list Qc) lo :
  dotQ (map W (seq lo (length v))) v = sum_range (fun i => W i * nq v (i - lo)) lo (length v).
Proof.
  revert lo. induction v as [|y v IH]; intro lo; [reflexivity|].
  cbn [length seq map dotQ]. rewrite sum_range_S_l. rewrite Nat.sub_diag. cbn [nq nth]. f_equal.
  rewrite IH. apply sum_range_ext. intros i Hi. f_equal. unfold nq.
  replace (i - lo)%nat with (S (i - S lo)) by lia. reflexivity.
Qed.

Lemma dotQ_map_seq0 (W : nat -> Qc) (v : list Qc) n :
  length v = n -> dotQ (map W (seq 0 n)) v = sum_range (fun i => W i * nq v i) 0 n.
Proof.
  intro H. subst n. rewrite dotQ_map_seq. apply sum_range_ext. intros i _. rewrite Nat.sub_0_r. reflexivity.
Qed.

Lemma sumQ_map_seq (W : nat -> Qc) lo n : sumQ (map W (seq lo n)) = sum_range W lo n.
Proof. reflexivity. Qed.

Lemma dotQ_map_r (w p : list Qc) (f : Qc -> Qc) :
  length w = length p -> dotQ w (map f p) = sum_range (fun i => nq w i * f (nq p i)) 0 (length p).
Proof.
  revert p. induction w as [|a w IH]; intros [|b p] H; try discriminate; [reflexivity|].
  cbn [map dotQ length]. rewrite sum_range_S_l. cbn [nq nth]. f_equal.
  rewrite IH by (simpl in H; lia). rewrite sum_range_shift. reflexivity.
Qed.

Lemma nq_map_seq (W : nat -> Qc) n i : (i < n)%nat -> nq (map W (seq 0 n)) i = W i.
Proof.
  intro H. unfold nq. rewrite nth_indep with (d' := W 0%nat) by (rewrite map_length, seq_length; lia).
  rewrite map_nth with (f := W). rewrite seq_nth by lia. reflexivity.
Qed.

(* strip = l[1:-1] *)
Lemma strip_length {A} (l : list A) : length (strip l) = (length l - 2)%nat.
Proof.
  unfold strip. destruct l as [|x t]; [reflexivity|]. cbn [tl length].
  destruct t as [|y t] using rev_ind; [reflexivity|].
  rewrite removelast_last, app_length. simpl. lia.
Qed.

Lemma strip_decompose {A} (l : list A) (d : A) :
  (2 <= length l)%nat -> l = nth 0 l d :: strip l ++ [nth (length l - 1) l d].
Proof.
  intro H. destruct l as [|x t]; [simpl in H; lia|]. cbn [nth]. f_equal.
  unfold strip. cbn [tl].
  destruct t as [|y t] using rev_ind; [simpl in H; lia|].
  rewrite removelast_last. f_equal. f_equal.
  cbn [length]. rewrite app_length. cbn [length].
  replace (S (length t + 1) - 1)%nat with (S (length t)) by lia. cbn [nth].
  rewrite app_nth2 by lia. rewrite Nat.sub_diag. reflexivity.
Qed.

Lemma nq_strip (l : list Qc) i : (S i < length l - 1)%nat -> nq (strip l) i = nq l (S i).
Proof.
  intro H. rewrite (strip_decompose l 0) at 2 by lia. unfold nq. cbn [nth].
  rewrite app_nth1; [reflexivity|]. rewrite strip_length. lia.
Qed.

Lemma dotQ_app (a1 a2 b1 b2 : list Qc) :
  length a1 = length b1 -> dotQ (a1 ++ a2) (b1 ++ b2) = dotQ a1 b1 + dotQ a2 b2.
Proof.
  revert b1. induction a1 as [|x a1 IH]; intros [|y b1] H; try discriminate; simpl; [ring|].
  rewrite IH by (simpl in H; lia). ring.
Qed.

Lemma dotQ_strip (w v : list Qc) :
  length w = length v -> (2 <= length w)%nat ->
  dotQ w v = nq w 0 * nq v 0 + dotQ (strip w) (strip v) + nq w (length w - 1) * nq v (length v - 1).
Proof.
  intros Hl H2.
  rewrite (strip_decompose w 0) at 1 by lia. rewrite (strip_decompose v 0) at 1 by lia.
  cbn [dotQ]. rewrite dotQ_app by (rewrite !strip_length; lia). unfold nq. simpl. ring.
Qed.

Lemma sumQ_strip (w : list Qc) :
  (2 <= length w)%nat -> sumQ w = nq w 0 + sumQ (strip w) + nq w (length w - 1).
Proof.
  intro H2. rewrite (strip_decompose w 0) at 1 by lia. cbn [sumQ]. rewrite sumQ_app. unfold nq. simpl. ring.
Qed.

(* strictly increasing lists *)
Lemma strictly_increasing_tl x t : strictly_increasing (x :: t) -> strictly_increasing t.
Proof. destruct t; simpl; tauto. Qed.

Lemma strictly_increasing_step (l : list Qc) i :
  strictly_increasing l -> (S i < length l)%nat -> nq l i < nq l (S i).
Proof.
  revert i. induction l as [|x t IH]; intros i Hs Hi; [simpl in Hi; lia|].
  destruct i as [|i].
  - destruct t as [|y t]; [simpl in Hi; lia|]. simpl in Hs. unfold nq. simpl. tauto.
  - unfold nq in *. cbn [nth]. apply IH; [eapply strictly_increasing_tl; eauto | simpl in Hi; lia].
Qed.

Lemma strictly_increasing_lt (l : list Qc) i j :
  strictly_increasing l -> (i < j)%nat -> (j < length l)%nat -> nq l i < nq l j.
Proof.
  intros Hs Hij Hj. induction j as [|j IH]; [lia|].
  destruct (Nat.eq_dec i j) as [->|Hne].
  - apply strictly_increasing_step; assumption.
  - apply Qclt_trans with (nq l j); [apply IH; lia | apply strictly_increasing_step; assumption].
Qed.

Lemma strictly_increasing_sorted_le (l : list Qc) : strictly_increasing l -> sorted_le l = true.
Proof.
  induction l as [|x t IH]; [reflexivity|]. intro H. destruct t as [|y t]; [reflexivity|].
  change (sorted_le (x :: y :: t)) with (Qc_leb x y && sorted_le (y :: t)).
  simpl in H. destruct H as [H1 H2]. rewrite IH by exact H2. rewrite andb_true_r.
  apply Qc_leb_le. apply Qclt_le_weak. exact H1.
Qed.

Lemma sorted_le_step (l : list Qc) i : sorted_le l = true -> (S i < length l)%nat -> nq l i <= nq l (S i).
Proof.
  revert i. induction l as [|x t IH]; intros i Hs Hi; [simpl in Hi; lia|].
  destruct t as [|y t]; [simpl in Hi; lia|].
  change (sorted_le (x :: y :: t)) with (Qc_leb x y && sorted_le (y :: t)) in Hs.
  apply andb_true_iff in Hs. destruct Hs as [H1 H2].
  destruct i as [|i].
  - unfold nq. simpl. apply Qc_leb_le. exact H1.
  - unfold nq in *. cbn [nth]. apply IH; [exact H2 | simpl in Hi |- *; lia].
Qed.
