(* C02, what the repository's own test sees (why_tests_cant): a product of affine functions  prod_d (al_d + be_d * x_d)  is reproduced
   and integrated exactly by EVERY SINGLE component grid with boundary points - whatever its level vector. Hence the combination of
   such a function is (sum of the coefficients) * (the exact value): the test function of test_StandardCombi is blind to everything
   but the coefficient sum. *)
From Coq Require Import ZArith List Bool QArith Qcanon Lia Sorted.
From SG Require Import Base.QcUtil Model.CombiScheme Model.StdCombi Proofs.SchemeBasics Proofs.SchemeIE Proofs.SchemeInv
  Proofs.StdGrid Proofs.StdCombiSum Proofs.NodalExact Proofs.StdNodal Proofs.HatFacts Proofs.StdHier1D Proofs.StdHierTrap Proofs.StdHierTensor Proofs.StdHier
  Proofs.StdTol.
Import ListNotations.
Local Open Scope Qc_scope.

Definition affine (al be : Qc) (x : Qc) : Qc := al + be * x.
(* list of (al_d, be_d) -> the 1D factors *)
Definition affs (cs : list (Qc * Qc)) : list (Qc -> Qc) := map (fun c => affine (fst c) (snd c)) cs.

(* ---------- interpolation ---------- *)
Fixpoint lastQ (x : Qc) (xs : list Qc) : Qc := match xs with [] => x | y :: r => lastQ y r end.

Lemma interp1_affine al be : forall xs x0 x1 x, StronglySorted Qclt (x0 :: x1 :: xs) -> x <= lastQ x1 xs ->
  interp1 (x0 :: x1 :: xs) (affine al be) x = affine al be x.
Proof.
  induction xs as [|x2 xs IH]; intros x0 x1 x HS Hx.
  - change (interp1 [x0; x1] (affine al be) x) with
      (if Qc_leb x x1 then affine al be x0 + (x - x0) / (x1 - x0) * (affine al be x1 - affine al be x0) else affine al be x1).
    inversion HS as [|? ? _ HF]; subst. inversion HF as [|? ? H01 _]; subst.
    assert (x1 - x0 <> 0) as N by (clear - H01; intro E; qc_order).
    cbn [lastQ] in Hx. apply Qc_leb_le in Hx. rewrite Hx. unfold affine. field. exact N.
  - change (interp1 (x0 :: x1 :: x2 :: xs) (affine al be) x) with
      (if Qc_leb x x1 then affine al be x0 + (x - x0) / (x1 - x0) * (affine al be x1 - affine al be x0)
       else interp1 (x1 :: x2 :: xs) (affine al be) x).
    inversion HS as [|? ? HS' HF]; subst. inversion HF as [|? ? H01 _]; subst.
    assert (x1 - x0 <> 0) as N by (clear - H01; intro E; qc_order).
    destruct (Qc_leb x x1).
    + unfold affine. field. exact N.
    + apply IH; [exact HS'|]. exact Hx.
Qed.

Lemma lastQ_map_seq (f : nat -> Qc) : forall n s, lastQ (f s) (map f (seq (S s) n)) = f (s + n)%nat.
Proof.
  induction n as [|n IH]; intro s; [simpl; f_equal; lia|]. cbn [seq map lastQ]. rewrite (IH (S s)). f_equal. lia.
Qed.

Lemma interp1_grid_affine al be a b l x : a < b -> (0 <= l)%Z -> x <= b ->
  interp1 (grid1_full a b l) (affine al be) x = affine al be x.
Proof.
  intros Hab Hl Hx. pose proof (pow2_pos l Hl) as Hp.
  pose proof (grid1_full_sorted a b l Hab Hl) as HS. rewrite grid1_full_seq in *.
  assert (exists m, Z.to_nat (2 ^ l + 1) = S (S m) /\ Z.of_nat (S m) = (2 ^ l)%Z) as [m [Em Hm]].
  { exists (Z.to_nat (2 ^ l - 1)). split; lia. }
  rewrite Em in *. set (f := fun k : nat => gpoint a b l (Z.of_nat k)) in *.
  change (seq 0 (S (S m))) with (0%nat :: 1%nat :: seq 2 m) in *. cbn [map] in *.
  apply interp1_affine; [exact HS|]. rewrite (lastQ_map_seq f m 1). replace (1 + m)%nat with (S m) by lia.
  unfold f. rewrite Hm, (gpoint_top a b l Hl). exact Hx.
Qed.

(* every component grid with boundary points reproduces a product of affine functions at every point of the box *)
Theorem comp_interp_affine_product : forall a b l cs x, box_ok a b -> length l = length a -> length cs = length a ->
  Forall (fun v => (0 <= v)%Z) l -> in_box a b x ->
  comp_interp true a b l (tprod (affs cs)) x = tprod (affs cs) x.
Proof.
  intros a b l cs x Hbox. unfold comp_interp.
  rewrite (interpN_ext _ (masked true a b (tprod (affs cs))) (tprod (affs cs))) by (intro q; reflexivity).
  revert l cs x. induction Hbox as [|a0 b0 a b Hab Hbox IH]; intros l cs x Ll Lc Fl B.
  - destruct l; [|discriminate]. destruct cs; [|discriminate]. destruct x; reflexivity.
  - destruct l as [|l0 l]; [discriminate|]. destruct cs as [|[al be] cs]; [discriminate|].
    destruct x as [|x0 x]; [destruct B|]. cbn [in_box] in B. destruct B as [[B0 B1] B'].
    inversion Fl as [|? ? Hl0 Fl']; subst. injection Ll as Ll. injection Lc as Lc.
    cbn [zip3 map interpN affs tprod fst snd].
    rewrite (interp1_ext _ _ (fun p => affine al be p * interpN (map (fun t => let '(x1, y0, z) := t in grid1_full x1 y0 z) (zip3 a b l))
                                                          (tprod (map (fun c => affine (fst c) (snd c)) cs)) x)).
    + rewrite interp1_scale_r. rewrite (interp1_grid_affine al be a0 b0 l0 x0 Hab Hl0 B1).
      fold (affs cs). rewrite (IH l cs x Ll Lc Fl' B'). reflexivity.
    + intro p. rewrite <- interpN_scale. reflexivity.
Qed.

(* ---------- quadrature ---------- *)
Definition affine_integral (al be a b : Qc) : Qc := al * (b - a) + be * (b * b - a * a) * Qchalf.

Lemma trap_affine al be a b l : a < b -> (0 <= l)%Z ->
  dotQ (map (affine al be) (grid1 true a b l)) (weights1 true a b l) = affine_integral al be a b.
Proof.
  intros Hab Hl. pose proof (pow2_pos l Hl) as Hp.
  assert (exists m, Z.to_nat (2 ^ l + 1) = S (S m) /\ Z.of_nat (S m) = (2 ^ l)%Z) as [m [Em Hm]].
  { exists (Z.to_nat (2 ^ l - 1)). split; lia. }
  rewrite (trap_lists true a b l (affine al be) m Em). cbv zeta.
  set (G := fun k : nat => affine al be (gpoint a b l (Z.of_nat k))). set (h := step a b l).
  transitivity (sumQ (map (fun k => h * Qchalf * (G k + G (S k))) (seq 0 (S m)))).
  - rewrite (cells_sum G h m 0). replace (0 + S m)%nat with (S m) by lia. unfold G. ring.
  - set (F := fun k : nat => let x := gpoint a b l (Z.of_nat k) in al * x + be * x * x * Qchalf).
    rewrite (sumQ_map_ext _ (fun k => F (S k) - F k)).
    + rewrite telescope_seq. replace (0 + S m)%nat with (S m) by lia. unfold F. cbv zeta.
      rewrite Hm. change (Z.of_nat 0) with 0%Z. rewrite (gpoint_top a b l Hl), (gpoint_0 a b l). unfold affine_integral. ring.
    + intros k _. unfold F, G, affine, h, step. cbv zeta. rewrite Nat2Z.inj_succ. unfold Z.succ. rewrite gpoint_succ.
      generalize (gpoint a b l (Z.of_nat k)) ((b - a) / qc_of_Z (2 ^ l)). intros xk hh.
      assert (al * hh = al * hh * Qchalf + al * hh * Qchalf) as E by apply half_split.
      transitivity (al * hh * Qchalf + al * hh * Qchalf + be * ((1 + 1) * xk * hh + hh * hh) * Qchalf); [ring|].
      rewrite <- E. ring.
Qed.

Fixpoint affine_volume (a b : list Qc) (cs : list (Qc * Qc)) : Qc :=
  match a, b, cs with
  | a0 :: a', b0 :: b', (al, be) :: cs' => affine_integral al be a0 b0 * affine_volume a' b' cs'
  | _, _, _ => 1
  end.

(* every component grid with boundary points integrates a product of affine functions exactly *)
Theorem comp_integral_affine_product : forall a b l cs, box_ok a b -> length l = length a -> length cs = length a ->
  Forall (fun v => (0 <= v)%Z) l ->
  comp_integral true a b l (tprod (affs cs)) = affine_volume a b cs.
Proof.
  intros a b l cs Hbox Ll Lc Fl. unfold comp_integral, comp_points, comp_weights.
  change (fold_right Qcmult 1) with prodQ.
  rewrite dot_cross_tprod.
  - revert l cs Ll Lc Fl. induction Hbox as [|a0 b0 a b Hab Hbox IH]; intros l cs Ll Lc Fl.
    + destruct l; [|discriminate]. destruct cs; [|discriminate]. reflexivity.
    + destruct l as [|l0 l]; [discriminate|]. destruct cs as [|[al be] cs]; [discriminate|].
      inversion Fl as [|? ? Hl0 Fl']; subst. injection Ll as Ll. injection Lc as Lc.
      cbn [zip3 map affs dots affine_volume fst snd]. rewrite (trap_affine al be a0 b0 l0 Hab Hl0).
      fold (affs cs). rewrite (IH l cs Ll Lc Fl'). reflexivity.
  - rewrite map_length. unfold affs. rewrite map_length. rewrite (zip3_length a b l); [congruence| |congruence].
    clear - Hbox. induction Hbox; simpl; congruence.
  - clear. induction (zip3 a b l) as [|[[x y] z] r IH]; cbn [map]; [constructor|]. constructor; [apply grid1_weights1_len|exact IH].
Qed.

Lemma sumQ_const_factor {A} (v : Qc) (g : A -> Z) (V : A -> Qc) l : (forall x, In x l -> V x = v) ->
  sumQ (map (fun x => qc_of_Z (g x) * V x) l) = qc_of_Z (sumZ (map g l)) * v.
Proof.
  intro H. induction l as [|x l IH]; [simpl; change (qc_of_Z 0) with (Q2Qc 0); ring|].
  cbn [map sumQ]. change (sumZ (g x :: map g l)) with (g x + sumZ (map g l))%Z.
  rewrite qc_of_Z_add, (H x (or_introl eq_refl)), IH; [ring|]. intros y Hy. apply H. right. exact Hy.
Qed.

(* THE COMBINATION OF A PRODUCT OF AFFINE FUNCTIONS SEES ONLY THE COEFFICIENT SUM: any list of component grids (any level vectors
   of the right length, any integer coefficients) *)
Theorem combi_interp_affine_product a b cs affs0 x : box_ok a b -> length affs0 = length a -> in_box a b x ->
  (forall l c, In (l, c) cs -> length l = length a /\ Forall (fun v => (0 <= v)%Z) l) ->
  combi_interp true a b cs (tprod (affs affs0)) x = qc_of_Z (sumZ (map snd cs)) * tprod (affs affs0) x.
Proof.
  intros Hbox La B H. unfold combi_interp. apply sumQ_const_factor. intros [l c] Hin. cbn [fst].
  destruct (H l c Hin) as [Ll Fl]. apply comp_interp_affine_product; assumption.
Qed.

Theorem combi_integral_affine_product a b cs affs0 : box_ok a b -> length affs0 = length a ->
  (forall l c, In (l, c) cs -> length l = length a /\ Forall (fun v => (0 <= v)%Z) l) ->
  combi_integral true a b cs (tprod (affs affs0)) = qc_of_Z (sumZ (map snd cs)) * affine_volume a b affs0.
Proof.
  intros Hbox La H. unfold combi_integral. apply sumQ_const_factor. intros [l c] Hin. cbn [fst].
  destruct (H l c Hin) as [Ll Fl]. apply comp_integral_affine_product; assumption.
Qed.

(* with a scheme whose coefficients sum to 1 (every reachable adaptive scheme: C01) the product of affine functions is exact *)
Corollary adaptive_affine_product_exact a b s affs0 x : Inv s -> (0 <= s_lmin s)%Z -> box_ok a b -> length a = s_dim s ->
  length affs0 = s_dim s -> in_box a b x ->
  combi_interp true a b (combi_scheme_adaptive s) (tprod (affs affs0)) x = tprod (affs affs0) x /\
  combi_integral true a b (combi_scheme_adaptive s) (tprod (affs affs0)) = affine_volume a b affs0.
Proof.
  intros HI Hl Hbox La Lc B.
  assert (forall l c, In (l, c) (combi_scheme_adaptive s) -> length l = length a /\ Forall (fun v => (0 <= v)%Z) l) as H.
  { intros l c Hin. destruct (scheme_levels s l c HI Hin) as [Ll Fl]. split; [congruence|].
    apply Forall_forall. intros v Hv. rewrite Forall_forall in Fl. specialize (Fl v Hv). lia. }
  pose proof (scheme_total_one s HI) as T. unfold lv in T.
  split.
  - rewrite (combi_interp_affine_product a b _ affs0 x Hbox ltac:(congruence) B H). rewrite T.
    change (qc_of_Z 1) with (Q2Qc 1). ring.
  - rewrite (combi_integral_affine_product a b _ affs0 Hbox ltac:(congruence) H). rewrite T.
    change (qc_of_Z 1) with (Q2Qc 1). ring.
Qed.
