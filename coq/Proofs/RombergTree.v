(* C11 — GridBinaryTree: init_tree reproduces the grid, force_full_tree_invariant only adds points and yields a
   tree in which every node has zero or two children.  For EVERY tree. *)
From Coq Require Import ZArith List QArith Qcanon Bool Arith Lia.
From SG Require Import Base.QcUtil Model.Romberg.
Import ListNotations.
Open Scope Qc_scope.

(* subsequence: l1 is obtained from l2 by deleting elements (order kept) *)
Inductive Subseq {A} : list A -> list A -> Prop :=
| Subseq_nil : Subseq [] []
| Subseq_skip x l1 l2 : Subseq l1 l2 -> Subseq l1 (x :: l2)
| Subseq_keep x l1 l2 : Subseq l1 l2 -> Subseq (x :: l1) (x :: l2).

Lemma Subseq_refl {A} (l : list A) : Subseq l l.
Proof. induction l as [|x l IH]; constructor; exact IH. Qed.
Lemma Subseq_nil_l {A} (l : list A) : Subseq [] l.
Proof. induction l as [|x l IH]; constructor; exact IH. Qed.
Lemma Subseq_app {A} (a a' b b' : list A) : Subseq a a' -> Subseq b b' -> Subseq (a ++ b) (a' ++ b').
Proof. intros H1 H2. induction H1; simpl; [exact H2 | constructor; exact IHSubseq | constructor; exact IHSubseq]. Qed.
Lemma Subseq_In {A} (l1 l2 : list A) x : Subseq l1 l2 -> In x l1 -> In x l2.
Proof.
  intro H. induction H; simpl; intro I; [exact I | right; exact (IHSubseq I) |].
  destruct I as [I|I]; [left; exact I | right; exact (IHSubseq I)].
Qed.
Lemma Subseq_length {A} (l1 l2 : list A) : Subseq l1 l2 -> (length l1 <= length l2)%nat.
Proof. intro H. induction H; simpl; lia. Qed.

(* every node has zero or two children *)
Fixpoint full (t : tree) : Prop :=
  match t with
  | TLeaf => True
  | TNode l _ r => ((l = TLeaf /\ r = TLeaf) \/ (l <> TLeaf /\ r <> TLeaf)) /\ full l /\ full r
  end.

Lemma force_full_leaf t : force_full t = TLeaf <-> t = TLeaf.
Proof.
  split; intro H; [|subst; reflexivity].
  destruct t as [|l p r]; [reflexivity|]. simpl in H. destruct l, r; discriminate H.
Qed.

Lemma ff_LL p : force_full (TNode TLeaf p TLeaf) = TNode TLeaf p TLeaf.
Proof. reflexivity. Qed.
Lemma ff_LN p rl pr rr : force_full (TNode TLeaf p (TNode rl pr rr)) =
  TNode (TNode TLeaf (p - (pr - p)) TLeaf) p (force_full (TNode rl pr rr)).
Proof. reflexivity. Qed.
Lemma ff_NL ll pl lr p : force_full (TNode (TNode ll pl lr) p TLeaf) =
  TNode (force_full (TNode ll pl lr)) p (TNode TLeaf (p + (p - pl)) TLeaf).
Proof. reflexivity. Qed.
Lemma ff_NN ll pl lr p rl pr rr : force_full (TNode (TNode ll pl lr) p (TNode rl pr rr)) =
  TNode (force_full (TNode ll pl lr)) p (force_full (TNode rl pr rr)).
Proof. reflexivity. Qed.

Theorem force_full_zero_or_two_children t : full (force_full t).
Proof.
  induction t as [|l IHl p r IHr]; [exact I|].
  destruct l as [|ll pl lr], r as [|rl pr rr].
  - rewrite ff_LL. cbn [full]. split; [left; split; reflexivity | split; exact I].
  - rewrite ff_LN. cbn [full].
    split; [right; split; [discriminate | intro H; apply (proj1 (force_full_leaf _)) in H; discriminate H] |].
    split; [split; [left; split; reflexivity | split; exact I] | exact IHr].
  - rewrite ff_NL. cbn [full].
    split; [right; split; [intro H; apply (proj1 (force_full_leaf _)) in H; discriminate H | discriminate] |].
    split; [exact IHl | split; [left; split; reflexivity | split; exact I]].
  - rewrite ff_NN. cbn [full].
    split; [right; split; intro H; apply (proj1 (force_full_leaf _)) in H; discriminate H |].
    split; [exact IHl | exact IHr].
Qed.

(* forcing only adds points: the in-order point list of the given tree is a subsequence of the new one *)
Theorem force_full_adds_only t : Subseq (tree_points t) (tree_points (force_full t)).
Proof.
  induction t as [|l IHl p r IHr]; [constructor|].
  destruct l as [|ll pl lr], r as [|rl pr rr].
  - rewrite ff_LL. apply Subseq_refl.
  - rewrite ff_LN. cbn [tree_points app] in *. apply Subseq_skip. apply Subseq_keep. exact IHr.
  - rewrite ff_NL.
    change (tree_points (TNode (TNode ll pl lr) p TLeaf)) with (tree_points (TNode ll pl lr) ++ [p] ++ []).
    change (tree_points (TNode (force_full (TNode ll pl lr)) p (TNode TLeaf (p + (p - pl)) TLeaf)))
      with (tree_points (force_full (TNode ll pl lr)) ++ [p] ++ [p + (p - pl)]).
    apply Subseq_app; [exact IHl|]. cbn [app]. apply Subseq_keep. apply Subseq_skip. constructor.
  - rewrite ff_NN.
    change (tree_points (TNode (TNode ll pl lr) p (TNode rl pr rr)))
      with (tree_points (TNode ll pl lr) ++ [p] ++ tree_points (TNode rl pr rr)).
    change (tree_points (TNode (force_full (TNode ll pl lr)) p (force_full (TNode rl pr rr))))
      with (tree_points (force_full (TNode ll pl lr)) ++ [p] ++ tree_points (force_full (TNode rl pr rr))).
    apply Subseq_app; [exact IHl|]. cbn [app]. apply Subseq_keep. exact IHr.
Qed.

Corollary force_full_keeps_points t x : In x (tree_points t) -> In x (tree_points (force_full t)).
Proof. apply Subseq_In. apply force_full_adds_only. Qed.

(* a tree that is already full is left unchanged *)
Theorem force_full_idempotent_on_full t : full t -> force_full t = t.
Proof.
  induction t as [|l IHl p r IHr]; simpl; [reflexivity|].
  intros [[[-> ->]|[Hl Hr]] [Fl Fr]]; [reflexivity|].
  destruct l as [|ll pl lr]; [congruence|]. destruct r as [|rl pr rr]; [congruence|].
  rewrite (IHl Fl), (IHr Fr). reflexivity.
Qed.

(* ---------------------------------------------------------------------------------------------- *)
(* init_tree: the in-order traversal of the tree built from the inner points is the list of inner points *)

Lemma index_of_lt x l : In x l -> (index_of x l < length l)%nat.
Proof.
  induction l as [|y l IH]; simpl; [intros []|].
  intro H. destruct (Nat.eqb_spec x y) as [E|NE]; [lia|].
  destruct H as [H|H]; [congruence | specialize (IH H); lia].
Qed.

Lemma list_min_in x l : list_min x l = x \/ In (list_min x l) l.
Proof.
  revert x. induction l as [|y l IH]; intro x; simpl; [left; reflexivity|].
  destruct (IH (Nat.min x y)) as [H|H].
  - rewrite H. destruct (Nat.min_spec x y) as [[_ E]|[_ E]]; rewrite E; [left; reflexivity | right; left; reflexivity].
  - right. right. exact H.
Qed.

Lemma argmin_lt l : l <> [] -> (argmin l < length l)%nat.
Proof.
  destruct l as [|x r]; [congruence|]. intros _. unfold argmin. apply index_of_lt.
  destruct (list_min_in x r) as [H|H]; [left; symmetry; exact H | right; exact H].
Qed.

Lemma split_at {A} (l : list A) i d : (i < length l)%nat -> l = firstn i l ++ [nth i l d] ++ skipn (S i) l.
Proof.
  revert i. induction l as [|x l IH]; intros i H; simpl in H; [lia|].
  destruct i as [|i]; simpl; [reflexivity|]. f_equal. apply IH. lia.
Qed.

Theorem build_tree_points fuel pts : (length pts <= fuel)%nat -> tree_points (build_tree fuel pts) = map fst pts.
Proof.
  revert pts. induction fuel as [|f IH]; intros pts H.
  - destruct pts; [reflexivity | simpl in H; lia].
  - destruct pts as [|x r]; [reflexivity|].
    set (l := x :: r) in *.
    assert (Hi : (argmin (map snd l) < length l)%nat).
    { rewrite <- (map_length snd). apply argmin_lt. discriminate. }
    change (build_tree (S f) l) with
         (TNode (build_tree f (firstn (argmin (map snd l)) l)) (fst (nth (argmin (map snd l)) l (0, O)))
               (build_tree f (skipn (S (argmin (map snd l))) l))).
    cbn [tree_points].
    rewrite !IH.
    + set (i := argmin (map snd l)) in *.
      transitivity (map fst (firstn i l ++ [nth i l (0, O)] ++ skipn (S i) l)).
      * rewrite !map_app. reflexivity.
      * rewrite <- (split_at l i (0, O) Hi). reflexivity.
    + rewrite skipn_length. lia.
    + rewrite firstn_length. lia.
Qed.

(* get_grid after init_tree returns the given grid *)
Theorem init_tree_keeps_grid grid levels t :
  length grid = length levels -> init_tree grid levels = Some t ->
  tree_points t = inner grid.
Proof.
  intros HL H. unfold init_tree in H. destruct levels as [|[|l0] levels]; try discriminate.
  destruct (Nat.eqb (last (0%nat :: levels) 1%nat) 0); [|discriminate].
  destruct (inner (zip_levels grid (0%nat :: levels))) as [|x r] eqn:E; [discriminate|].
  assert (T : t = build_tree (length (x :: r)) (x :: r)) by congruence. clear H. subst t.
  rewrite build_tree_points by lia. rewrite <- E.
  assert (Z : forall (g : list Qc) (ls : list nat), length g = length ls -> map fst (zip_levels g ls) = g).
  { induction g as [|y g IHg]; intros [|l ls] Hl; simpl in *; try lia; [reflexivity|]. f_equal. apply IHg. lia. }
  unfold inner. rewrite <- (Z grid (0%nat :: levels) HL) at 2.
  generalize (zip_levels grid (0%nat :: levels)). intro z.
  destruct z as [|z0 z]; [reflexivity|]. cbn [tl map].
  induction z as [|z1 z IHz]; [reflexivity|]. destruct z as [|z2 z]; [reflexivity|].
  change (removelast (z1 :: z2 :: z)) with (z1 :: removelast (z2 :: z)).
  change (map fst (z1 :: z2 :: z)) with (fst z1 :: map fst (z2 :: z)).
  change (removelast (fst z1 :: map fst (z2 :: z))) with (fst z1 :: removelast (map fst (z2 :: z))).
  cbn [map]. f_equal. exact IHz.
Qed.
