(* C18 - concrete data sets used by the refutation witnesses and non-vacuity examples of Props/C18.v *)
From Coq Require Import ZArith List QArith Qcanon Bool.
From SG Require Import Base.QcUtil Model.DataSet.
Import ListNotations.
Open Scope Qc_scope.

Definition wit_a : ds := fst (scale_range 0 1 false (fresh [([0; 1], 0%Z); ([Qc2; Qc2 + Qc2 + 1], 1%Z)])).

Definition wit_b : ds := fresh [([1; 1], 1%Z)].

Definition wit_d0 : ds := fresh [([0; 1], 0%Z); ([Qc2; Qc2 + Qc2 + 1], 1%Z); ([Qc2 + Qc2; Qc2 + 1], 0%Z); ([1; Qc2], 1%Z)].

Definition wit_1d : ds := fst (shift_value (AScalar 1) false (fresh [([0], 0%Z); ([1], 1%Z); ([Qc2], 0%Z); ([Qc2 + 1], 1%Z)])).
