(* C20: the gradient Gram matrix of the hat basis WITHOUT boundary points is positive DEFINITE in every dimension (a function in the
   span of interior hats with zero gradient is zero), on all strictly increasing stripes and all uniform level vectors.
   1D: v^T K v = sum over the cells (incl. the two boundary cells) of (v_k+1 - v_k)^2 / h_k > 0 for v <> 0;
   d dimensions: sum-of-squares representation C_terms of Proofs/RegressKron.v (Kronecker framework Proofs/KronSOS.v, imported)
   has positive coefficients and a trivial common kernel (already its first summand K (x) M (x) ... (x) M has).
   Consequence: with regularization_matrix = 'C' and lambda > 0 the regularised least-squares problem has exactly one minimiser. *)
From Coq Require Import ZArith List QArith Qcanon Bool Lia Lqa.
From SG Require Import Base.QcUtil Model.Gram Model.Regress Proofs.GramHat Proofs.GramEntries Proofs.GramPD Proofs.GramNorm
  Proofs.RegressP Proofs.RegressLS Proofs.RegressUniform Proofs.RegressConverse Proofs.KronSOS Proofs.StripeSOS Proofs.GramKron
  Proofs.DECacheP Proofs.DEUniformInterp Proofs.RegressKron.
Import ListNotations.
Open Scope Qc_scope.

(* ------------------------------------------------------------------ one dimension *)
Lemma gradform_pos xs : strictly_inc xs -> forall w0 w, length (w0 :: w) = length xs -> Exists (fun x => x <> w0) w ->
  0 < gradform xs (w0 :: w).
Proof.
  induction xs as [|x0 xs IH]; intros Hs w0 w Hl Hex; [discriminate|].
  destruct w as [|w1 w]; [inversion Hex|]. destruct xs as [|x1 xs]; [discriminate|].
  rewrite gradform_cons2. destruct Hs as [H01 Hs].
  destruct (Qc_eq_dec w1 w0) as [E|N].
  - subst w1. apply Exists_cons in Hex. destruct Hex as [Hh|Ht]; [exfalso; apply Hh; reflexivity|].
    pose proof (IH Hs w0 w ltac:(simpl in *; lia) Ht) as P.
    replace ((w0 - w0) * (w0 - w0) / (x1 - x0)) with 0 by (unfold Qcdiv; ring).
    revert P. generalize (gradform (x1 :: xs) (w0 :: w)). intros. qc_order.
  - assert (A : 0 < (w1 - w0) * (w1 - w0) / (x1 - x0)).
    { apply div_pos; [apply sub_pos; exact H01|]. apply sq_pos. intro E. apply N. assert (X : w1 = w1 - w0 + w0) by ring. rewrite X, E. ring. }
    pose proof (gradform_nonneg (x1 :: xs) Hs (w1 :: w)) as B.
    revert A B. generalize ((w1 - w0) * (w1 - w0) / (x1 - x0)) (gradform (x1 :: xs) (w1 :: w)). intros. qc_order.
Qed.

(* the 1D stiffness matrix tridiag(-1/h_k, 1/h_k + 1/h_k+1, -1/h_k+1) is positive definite on EVERY strictly increasing stripe *)
Theorem grad_1d_positive_definite xs v : strictly_inc xs -> length v = length (windows xs) -> Exists (fun x => x <> 0) v ->
  0 < quad (sym_matrix grad1_spec 0 (windows xs)) v.
Proof.
  intros Hs Hl Hex.
  assert (E : sym_matrix grad1_spec 0 (windows xs) = sym_matrix C_val_dw_spec 0 (pts1 xs)).
  { unfold pts1. rewrite sym_matrix_map. apply sym_matrix_ext. intros a b _ _. symmetry. apply C_dw_spec_1d. }
  rewrite E, (grad_quad_is_cell_sum xs Hs v Hl).
  apply gradform_pos; [exact Hs | | apply Exists_app; left; exact Hex].
  cbn [length]. rewrite app_length. cbn [length]. rewrite Hl, windows_length.
  destruct v; [inversion Hex|]. rewrite windows_length in Hl. simpl in Hl. lia.
Qed.

Lemma grad_terms_pos xs : strictly_inc xs -> coeffs_pos (grad_terms xs).
Proof.
  apply stripe_terms_Forall. intros x0 x1 H01. unfold grad_cell. repeat constructor. cbn [fst].
  apply div_pos; [apply sub_pos; exact H01 | qc_order].
Qed.

Lemma grad_kerT xs : strictly_inc xs -> kerT (grad_terms xs) (windows xs).
Proof.
  intro Hs. apply (kerT_of_pd grad1_spec); [apply grad_represents; exact Hs|].
  intros v Hl Ex. apply grad_1d_positive_definite; assumption.
Qed.

(* ------------------------------------------------------------------ d dimensions *)
Lemma coeffs_pos_app {A} (T1 T2 : list (term A)) : coeffs_pos T1 -> coeffs_pos T2 -> coeffs_pos (T1 ++ T2).
Proof. intros H1 H2. apply Forall_app. split; assumption. Qed.

Lemma mass_fams_pos stripes : Forall strictly_inc stripes -> Forall (fun F => coeffs_pos (f_T F)) (map mass_fam stripes).
Proof.
  intro Hs. apply Forall_forall. intros F HF. apply in_map_iff in HF. destruct HF as [ys [E Hy]]. subst F.
  apply hat_terms_pos. exact (proj1 (Forall_forall _ _) Hs ys Hy).
Qed.

Lemma C_terms_pos stripes : Forall strictly_inc stripes -> coeffs_pos (C_terms stripes).
Proof.
  induction 1 as [|xs stripes Hx Hs IH]; [constructor|]. cbn [C_terms]. apply coeffs_pos_app.
  - apply coeffs_pos_tprod; [apply grad_terms_pos; exact Hx | apply kron_coeffs_pos; apply mass_fams_pos; exact Hs].
  - apply coeffs_pos_tprod; [apply hat_terms_pos; exact Hx | exact IH].
Qed.

Lemma kerT_app_l {A} (T1 T2 : list (term A)) pts : kerT T1 pts -> kerT (T1 ++ T2) pts.
Proof. intros K v Hl Hz. apply K; [exact Hl|]. intros m Hm. apply Hz. apply in_or_app. left. exact Hm. Qed.

Lemma C_terms_kerT xs stripes : strictly_inc xs -> Forall strictly_inc stripes ->
  kerT (C_terms (xs :: stripes)) (cross (map windows (xs :: stripes))).
Proof.
  intros Hx Hs. cbn [C_terms map cross]. apply kerT_app_l.
  rewrite <- (kron_pts_mass stripes). apply kerT_tprod; [apply grad_kerT; exact Hx|].
  apply kron_kerT. apply Forall_forall. intros F HF. apply in_map_iff in HF. destruct HF as [ys [E Hy]]. subst F.
  cbn [mass_fam f_T f_pts]. apply hat_kerT. exact (proj1 (Forall_forall _ _) Hs ys Hy).
Qed.

(* MAIN THEOREM *)
Theorem C_dw_spec_nd_positive_definite stripes lam v :
  stripes <> [] -> Forall strictly_inc stripes -> 0 <= lam -> length v = length (cross (map windows stripes)) ->
  Exists (fun x => x <> 0) v ->
  0 < quad (sym_matrix C_val_dw_spec lam (cross (map windows stripes))) v.
Proof.
  intros Hne Hs Hlam Hl Ex. destruct stripes as [|xs stripes]; [contradiction|]. inversion Hs as [|xs' st' Hx Hs']; subst.
  apply (sos_pd C_val_dw_spec (C_terms (xs :: stripes))); try assumption.
  - apply C_represents; exact Hs.
  - apply C_terms_pos; exact Hs.
  - apply C_terms_kerT; assumption.
Qed.

Definition pdef (n : nat) (M : list (list Qc)) : Prop := forall v, length v = n -> Exists (fun x => x <> 0) v -> 0 < quad M v.

Theorem C_matrix_dw_spec_pd stripes : stripes <> [] -> Forall good_stripe stripes ->
  pdef (length (grid_hats stripes)) (C_matrix_dw_spec stripes).
Proof.
  intros Hne H v Hl Ex. unfold C_matrix_dw_spec.
  assert (U : Forall unit_stripe stripes) by exact H.
  rewrite (grid_hats_windows stripes U) in *.
  apply C_dw_spec_nd_positive_definite; [exact Hne | | apply Qcle_refl | exact Hl | exact Ex].
  eapply Forall_impl; [|exact H]. intros xs Hx. apply Hx.
Qed.

(* uniform level vectors: build_C_matrix as repaired *)
Theorem C_matrix_uniform_pd lv : lv <> [] -> Forall (fun l => (1 <= l)%Z) lv ->
  pdef (length (index_list lv)) (C_matrix_uniform false lv).
Proof.
  intros Hne Hl. rewrite (C_matrix_uniform_is_gradient_gram lv Hl).
  assert (E : sym_matrix (fun iv jv => C_val_dw_spec (uhats lv iv) (uhats lv jv)) 0 (index_list lv)
              = C_matrix_dw_spec (map uniform_stripe lv)).
  { unfold C_matrix_dw_spec. rewrite (grid_hats_uniform lv Hl). rewrite sym_matrix_map. reflexivity. }
  rewrite E.
  assert (L : length (index_list lv) = length (grid_hats (map uniform_stripe lv))).
  { rewrite (grid_hats_uniform lv Hl), map_length. reflexivity. }
  rewrite L. apply C_matrix_dw_spec_pd.
  - destruct lv; [contradiction | discriminate].
  - apply Forall_forall. intros s Hs. apply in_map_iff in Hs. destruct Hs as [l [Es Hin]]. subst s.
    apply uniform_stripe_good. exact (proj1 (Forall_forall _ _) Hl l Hin).
Qed.

(* ------------------------------------------------------------------ uniqueness with the smoothing matrix *)
Lemma not_zero_exists : forall n d, length d = n -> d <> repeat 0 n -> Exists (fun x => x <> 0) d.
Proof.
  induction n as [|k IH]; intros [|x d] Hl Hnz; try discriminate; [exfalso; apply Hnz; reflexivity|].
  destruct (Qc_eq_dec x 0) as [E|N]; [|left; exact N]. right. apply IH; [simpl in Hl; lia|].
  intro Ed. apply Hnz. cbn [repeat]. rewrite E, Ed. reflexivity.
Qed.

(* lambda > 0 times a positive definite matrix plus A^T A / m: the system is positive definite for EVERY design matrix *)
Lemma pdef_system_pd n A lam M : 0 < lam -> pdef n M -> system_pd n A lam M.
Proof.
  intros Hl Hp d Ld Hnz. unfold gap.
  pose proof (inv_count_nonneg (length A)) as H1. pose proof (dotQ_self_nonneg (matvec A d)) as H2. fold (sqnorm (matvec A d)) in H2.
  pose proof (mul_nonneg _ _ H1 H2) as P1.
  pose proof (Hp d Ld (not_zero_exists n d Ld Hnz)) as Pq.
  assert (P2 : 0 < lam * quad M d) by (replace 0 with (0 * quad M d) by ring; apply Qcmult_lt_compat_r; assumption).
  revert P1 P2. generalize (1 / qc_of_nat (length A) * sqnorm (matvec A d)) (lam * quad M d). intros. qc_order.
Qed.

Theorem smooth_minimiser_unique {T} (e : T -> T -> Qc) pts A y lam alpha beta :
  let n := length pts in let C := sym_matrix e 0 pts in
  wf_matrix n A -> A <> [] -> length y = length A -> length alpha = n -> length beta = n -> 0 < lam -> pdef n C ->
  matvec (left_matrix A lam true C) alpha = right_vector A y ->
  J A y lam C beta <= J A y lam C alpha -> beta = alpha.
Proof.
  intros n C Hwf Hne Hy Ha Hb Hlam Hpd NE Hle. rewrite left_matrix_is_gen in NE.
  exact (minimiser_unique n A y lam C alpha beta Hwf Hne Hy (sym_matrix_wf e 0 pts) (sym_matrix_length e 0 pts) Ha Hb
           (sym_matrix_bilinear e 0 pts) (pdef_system_pd n A lam C Hlam Hpd) NE Hle).
Qed.

Theorem smooth_minimiser_unique_uniform lv A y lam alpha beta :
  lv <> [] -> Forall (fun l => (1 <= l)%Z) lv ->
  let n := length (index_list lv) in let C := C_matrix_uniform false lv in
  wf_matrix n A -> A <> [] -> length y = length A -> length alpha = n -> length beta = n -> 0 < lam ->
  matvec (left_matrix A lam true C) alpha = right_vector A y ->
  J A y lam C beta <= J A y lam C alpha -> beta = alpha.
Proof.
  intros Hne Hl n C Hwf HA Hy Ha Hb Hlam NE Hle.
  apply (smooth_minimiser_unique (C_val false lv) (index_list lv) A y lam alpha beta); try assumption.
  exact (C_matrix_uniform_pd lv Hne Hl).
Qed.

Theorem smooth_minimiser_unique_dimension_wise stripes A y lam alpha beta :
  stripes <> [] -> Forall good_stripe stripes ->
  let n := length (grid_hats stripes) in let C := C_matrix_dw_spec stripes in
  wf_matrix n A -> A <> [] -> length y = length A -> length alpha = n -> length beta = n -> 0 < lam ->
  matvec (left_matrix A lam true C) alpha = right_vector A y ->
  J A y lam C beta <= J A y lam C alpha -> beta = alpha.
Proof.
  intros Hne Hs n C Hwf HA Hy Ha Hb Hlam NE Hle.
  apply (smooth_minimiser_unique C_val_dw_spec (grid_hats stripes) A y lam alpha beta); try assumption.
  exact (C_matrix_dw_spec_pd stripes Hne Hs).
Qed.
