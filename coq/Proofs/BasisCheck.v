(* C10 — list form of the interpolation identity over all grid points, soundness of the solver choice and of the
   run-time checkers (1-D residual, unisolvence certificate by an exact left inverse). *)
From Coq Require Import ZArith List QArith Qcanon Bool Arith Lia Permutation.
From SG Require Import Base.QcUtil Model.Basis Proofs.BasisLagrange Proofs.BasisHier Proofs.BasisInterp.
Import ListNotations.
Open Scope Qc_scope.

(* ------------------------------------------------------------------ all grid points *)
Lemma flat_map_length_uniform {A B} (f : A -> list B) l len :
  (forall x, length (f x) = len) -> length (flat_map f l) = (length l * len)%nat.
Proof. intro H. induction l as [|x l IH]; simpl; [reflexivity | rewrite app_length, IH, H; reflexivity]. Qed.

Lemma nth_flat_map_uniform {A B} (f : A -> list B) l len (dA : A) (dB : B) i k :
  (forall x, length (f x) = len) -> (i < length l)%nat -> (k < len)%nat ->
  nth (i * len + k) (flat_map f l) dB = nth k (f (nth i l dA)) dB.
Proof.
  intros H. revert i; induction l as [|x l IH]; intros i Hi Hk; simpl in Hi; [lia|].
  cbn [flat_map]. destruct i as [|i].
  - cbn [nth]. rewrite app_nth1 by (rewrite H; simpl; lia). reflexivity.
  - rewrite app_nth2 by (rewrite H; simpl; lia). rewrite H. cbn [nth].
    replace (S i * len + k - len)%nat with (i * len + k)%nat by (simpl; lia). apply IH; lia.
Qed.

Lemma grid_points_length ss : length (grid_points ss) = prodN (map s_n ss).
Proof.
  induction ss as [|s rest IH]; [reflexivity|]. cbn [grid_points map prodN].
  rewrite (flat_map_length_uniform _ _ (prodN (map s_n rest))); [reflexivity|].
  intro x. rewrite map_length. exact IH.
Qed.

Lemma index_decompose ss k :
  (k < prodN (map s_n ss))%nat ->
  exists idxs, Forall2 (fun i s => (i < s_n s)%nat) idxs ss /\ flat idxs ss = k /\ coords idxs ss = nth k (grid_points ss) [].
Proof.
  revert k; induction ss as [|s rest IH]; intros k Hk.
  - simpl in Hk. assert (k = 0)%nat by lia. subst. exists []. split; [constructor|]. split; reflexivity.
  - cbn [map prodN] in Hk. set (len := prodN (map s_n rest)) in *. set (n := s_n s) in *.
    assert (Hl : (len <> 0)%nat) by (intro E; rewrite E in Hk; lia).
    assert (Hi : (k / len < n)%nat) by (apply Nat.div_lt_upper_bound; [exact Hl | lia]).
    assert (Hk' : (k mod len < len)%nat) by (apply Nat.mod_upper_bound; exact Hl).
    destruct (IH (k mod len)%nat Hk') as [idxs [F [Fl Fc]]].
    pose proof (Nat.div_mod k len Hl) as Ek.
    set (i := (k / len)%nat) in *. set (k' := (k mod len)%nat) in *. clearbody i k'.
    exists (i :: idxs). split; [constructor; assumption|]. split.
    + cbn [flat]. fold len. rewrite Fl. lia.
    + cbn [coords grid_points]. rewrite Fc.
      replace k with (i * len + k')%nat by lia.
      rewrite (nth_flat_map_uniform _ (s_basis s) len dflt [] i k');
        [| intro x; rewrite map_length; apply grid_points_length | exact Hi | exact Hk'].
      rewrite (nth_map_lt (cons (fst (nth i (s_basis s) dflt))) (grid_points rest) [] [] k')
        by (rewrite grid_points_length; exact Hk').
      reflexivity.
Qed.

(* hierarchise, then interpolate at ALL grid points (product order): the original vector comes back *)
Theorem hierarchize_then_interpolate_id ss v sur :
  Forall sys_sound ss -> length v = prodN (map s_n ss) -> hier_nd ss v = Some sur ->
  map (fun x => interp_nd ss x sur) (grid_points ss) = v.
Proof.
  intros Hs Hl Hh. destruct (hier_nd_interp ss Hs v sur Hl Hh) as [_ Hi].
  apply (nth_ext _ _ 0 0).
  - rewrite map_length, grid_points_length. symmetry. exact Hl.
  - intros k Hk. rewrite map_length, grid_points_length in Hk.
    destruct (index_decompose ss k Hk) as [idxs [F [Fl Fc]]].
    rewrite (nth_map_lt (fun x => interp_nd ss x sur) (grid_points ss) [] 0 k) by (rewrite grid_points_length; exact Hk).
    rewrite <- Fc, (Hi idxs F), Fl. reflexivity.
Qed.

(* vector-valued functions: every component *)
Corollary hierarchize_then_interpolate_id_vector ss (vals surs : list (list Qc)) :
  Forall sys_sound ss -> (forall v, In v vals -> length v = prodN (map s_n ss)) ->
  opt_list (map (hier_nd ss) vals) = Some surs ->
  map (fun sur => map (fun x => interp_nd ss x sur) (grid_points ss)) surs = vals.
Proof.
  intros Hs. revert surs; induction vals as [|v vals IH]; intros surs Hl Ho.
  - simpl in Ho. injection Ho as E. subst. reflexivity.
  - cbn [map opt_list] in Ho. destruct (hier_nd ss v) as [sur|] eqn:E; [|discriminate].
    destruct (opt_list (map (hier_nd ss) vals)) as [r|] eqn:Er; [|discriminate].
    injection Ho as E2. subst surs. cbn [map]. f_equal.
    + apply hierarchize_then_interpolate_id; [exact Hs | apply Hl; left; reflexivity | exact E].
    + apply IH; [intros v' Hv'; apply Hl; right; exact Hv' | reflexivity].
Qed.

(* ------------------------------------------------------------------ the solver choice of the pipeline is always sound *)
Theorem choose_solver_sound d : sys_sound (fst (choose_solver d)).
Proof.
  destruct d as [[sy levs] islag]. unfold choose_solver.
  destruct (islag && hier_okb sy (level_order levs)) eqn:E; cbn [fst]; apply sys_wf_sound.
  - apply andb_true_iff in E. apply hier_okb_wf. exact (proj2 E).
  - exact I.
Qed.

Theorem pipeline_interpolates ds v sur :
  let ss := map (fun d => fst (choose_solver d)) ds in
  length v = prodN (map s_n ss) -> hier_nd ss v = Some sur ->
  map (fun x => interp_nd ss x sur) (grid_points ss) = v.
Proof.
  intros ss Hl Hh. apply hierarchize_then_interpolate_id; [|exact Hl|exact Hh].
  unfold ss. apply Forall_forall. intros s Hs. apply in_map_iff in Hs. destruct Hs as [d [E _]]. subst s.
  apply choose_solver_sound.
Qed.

(* ------------------------------------------------------------------ 1-D statements in matrix form *)
(* existence + uniqueness for an accepted hierarchical Lagrange system *)
Theorem hierarchize_unique_solution sys ord v :
  hier_okb sys ord = true -> length v = length sys ->
  let s := fsubQ (colloc sys) v ord in
  (forall i, (i < length sys)%nat -> rowsum (colloc sys) s (length sys) i = nthQ v i)
  /\ forall s', (forall i, (i < length sys)%nat -> rowsum (colloc sys) s' (length sys) i = nthQ v i) ->
       forall i, (i < length sys)%nat -> nthQ s' i = nthQ s i.
Proof.
  intros H Hl s. destruct (hier_okb_sound sys ord H) as [Hp [Ht _]]. split.
  - apply fsub_solves; assumption.
  - intros s' Hs'. apply (fsub_unique (colloc sys) v ord (length sys) s'); assumption.
Qed.

(* ------------------------------------------------------------------ residual checker of a 1-D system *)
Theorem system_residual_ok_sound M s v tol :
  system_residual_ok M s v tol = true ->
  forall i, (i < length M)%nat -> - tol <= dotQ (nth i M []) s - nthQ v i /\ dotQ (nth i M []) s - nthQ v i <= tol.
Proof.
  unfold system_residual_ok. intros H i Hi. apply andb_true_iff in H. destruct H as [H1 H2].
  apply Nat.eqb_eq in H1. rewrite forallb_forall in H2. apply Qc_abs_le_iff.
  apply (H2 (nth i M [], nthQ v i)). unfold nthQ.
  rewrite <- (combine_nth_lt M v i [] 0) by lia. apply nth_In. rewrite combine_length. lia.
Qed.

(* ------------------------------------------------------------------ unisolvence certificate *)
Lemma sumQ_map_scale_r {A} (c : Qc) (f : A -> Qc) l : sumQ (map (fun x => f x * c) l) = sumQ (map f l) * c.
Proof. induction l as [|x l IH]; simpl; [ring | rewrite IH; ring]. Qed.

Lemma sum_exchange (f : nat -> nat -> Qc) n m :
  sumQ (map (fun i => sumQ (map (fun j => f i j) (seq 0 m))) (seq 0 n))
  = sumQ (map (fun j => sumQ (map (fun i => f i j) (seq 0 n))) (seq 0 m)).
Proof.
  generalize (seq 0 n) as a. generalize (seq 0 m) as b. intros b a.
  induction a as [|i a IH]; simpl.
  - symmetry. apply sumQ_map_zero. reflexivity.
  - rewrite IH. rewrite <- sumQ_map_add. reflexivity.
Qed.

Lemma sum_delta (g : nat -> Qc) n i :
  (i < n)%nat -> sumQ (map (fun k => (if (i =? k)%nat then 1 else 0) * g k) (seq 0 n)) = g i.
Proof.
  intro Hi. assert (G : forall st len, (st <= i < st + len)%nat ->
     sumQ (map (fun k => (if (i =? k)%nat then 1 else 0) * g k) (seq st len)) = g i).
  { intros st len; revert st; induction len as [|len IH]; intros st H; [lia|].
    cbn [seq map sumQ]. destruct (Nat.eqb_spec i st) as [E|E].
    - subst st. rewrite (sumQ_map_zero _ (seq (S i) len)); [ring|].
      intros k Hk. apply in_seq in Hk. destruct (Nat.eqb_spec i k); [lia | ring].
    - rewrite IH by lia. ring. }
  apply G. lia.
Qed.

Lemma veq_eq a b : veq a b = true -> a = b.
Proof.
  unfold veq. intro H. apply andb_true_iff in H. destruct H as [H1 H2]. apply Nat.eqb_eq in H1.
  rewrite forallb_forall in H2. apply (nth_ext _ _ 0 0 H1). intros k Hk.
  apply Qc_eqb_eq. apply (H2 (nth k a 0, nth k b 0)).
  rewrite <- combine_nth by exact H1. apply nth_In. rewrite combine_length. lia.
Qed.

Lemma meq_eq A B : meq A B = true -> A = B.
Proof.
  unfold meq. intro H. apply andb_true_iff in H. destruct H as [H1 H2]. apply Nat.eqb_eq in H1.
  rewrite forallb_forall in H2. apply (nth_ext _ _ [] [] H1). intros k Hk.
  apply veq_eq. apply (H2 (nth k A [], nth k B [])).
  rewrite <- combine_nth by exact H1. apply nth_In. rewrite combine_length. lia.
Qed.

Lemma identity_entry n i k : (i < n)%nat -> (k < n)%nat -> mget (identity n) i k = if (i =? k)%nat then 1 else 0.
Proof.
  intros Hi Hk. unfold mget, identity, nthQ.
  rewrite (nth_map_seq (fun i0 => map (fun j => if (i0 =? j)%nat then 1 else 0) (seq 0 n)) n i []).
  destruct (Nat.ltb_spec i n); [|lia].
  rewrite (nth_map_seq (fun j => if (i =? j)%nat then 1 else 0) n k 0).
  destruct (Nat.ltb_spec k n); [reflexivity | lia].
Qed.

Lemma mat_mul_entry N M n i k :
  length M = n -> (forall r, In r M -> length r = n) -> (i < length N)%nat -> length (nth i N []) = n -> (k < n)%nat ->
  mget (mat_mul N M) i k = sumQ (map (fun j => mget N i j * mget M j k) (seq 0 n)).
Proof.
  intros HM HMr Hi HNi Hk. unfold mget at 1, mat_mul.
  rewrite (nth_map_lt _ N [] [] i Hi).
  assert (Hh : length (hd [] M) = n).
  { destruct M as [|r M']; [simpl in HM; subst n; lia|]. apply HMr. left. reflexivity. }
  rewrite Hh. unfold nthQ. rewrite (nth_map_seq _ n k 0). destruct (Nat.ltb_spec k n); [|lia].
  rewrite (sum_combine_seq _ (nth i N []) M 0 [] n HNi HM). reflexivity.
Qed.

(* an exact left inverse certifies that the collocation system has at most one solution *)
Theorem left_inverse_ok_sound N M s s' :
  left_inverse_ok N M = true ->
  let n := length M in
  (forall i, (i < n)%nat -> rowsum M s n i = rowsum M s' n i) ->
  forall i, (i < n)%nat -> nthQ s i = nthQ s' i.
Proof.
  intros H n Heq i Hi. unfold left_inverse_ok in H. cbv zeta in H. fold n in H.
  apply andb_true_iff in H. destruct H as [H H4]. apply andb_true_iff in H. destruct H as [H H3].
  apply andb_true_iff in H. destruct H as [H1 H2]. apply Nat.eqb_eq in H3. apply meq_eq in H4.
  assert (HMr : forall r, In r M -> length r = n).
  { intros r Hr. rewrite forallb_forall in H1. apply Nat.eqb_eq. exact (H1 r Hr). }
  assert (HNr : forall r, In r N -> length r = n).
  { intros r Hr. rewrite forallb_forall in H2. apply Nat.eqb_eq. exact (H2 r Hr). }
  assert (Key : forall t, nthQ t i = sumQ (map (fun j => mget N i j * rowsum M t n j) (seq 0 n))).
  { intro t.
    rewrite <- (sum_delta (fun k => nthQ t k) n i Hi).
    rewrite (sumQ_map_ext_in _ (fun k => sumQ (map (fun j => mget N i j * mget M j k * nthQ t k) (seq 0 n))) (seq 0 n)).
    - rewrite (sum_exchange (fun k j => mget N i j * mget M j k * nthQ t k) n n).
      apply sumQ_map_ext_in. intros j Hj. unfold rowsum.
      rewrite <- sumQ_map_scale. apply sumQ_map_ext_in. intros k Hk. ring.
    - intros k Hk. apply in_seq in Hk.
      rewrite <- (identity_entry n i k) by lia. rewrite <- H4.
      rewrite (mat_mul_entry N M n i k eq_refl HMr) by (try lia; apply HNr; apply nth_In; lia).
      rewrite <- sumQ_map_scale_r. reflexivity. }
  rewrite (Key s), (Key s'). apply sumQ_map_ext_in. intros j Hj. apply in_seq in Hj. rewrite Heq by lia. reflexivity.
Qed.

Corollary inverse_of_unisolvent M N s s' :
  inverse_of M = Some N ->
  (forall i, (i < length M)%nat -> rowsum M s (length M) i = rowsum M s' (length M) i) ->
  forall i, (i < length M)%nat -> nthQ s i = nthQ s' i.
Proof.
  unfold inverse_of. intros H. destruct (gauss_solve M (identity (length M))) as [N'|]; [|discriminate].
  destruct (left_inverse_ok N' M) eqn:E; [|discriminate]. injection H as E2. subst N'.
  exact (left_inverse_ok_sound N M s s' E).
Qed.

(* ------------------------------------------------------------------ uniqueness in d dimensions (tensor unisolvence) *)
(* a 1-D system is injective when equal collocation images force equal coefficient vectors *)
Definition sys_inj (s : sys1) : Prop :=
  forall t t', (forall i, (i < s_n s)%nat -> rowsum (colloc (s_basis s)) t (s_n s) i = rowsum (colloc (s_basis s)) t' (s_n s) i) ->
               forall j, (j < s_n s)%nat -> nthQ t j = nthQ t' j.

Lemma rowsum_only_prefix M t n i : rowsum M t n i = rowsum M (map (fun j => nthQ t j) (seq 0 n)) n i.
Proof.
  apply rowsum_ext. intros j Hj. unfold nthQ at 2. rewrite (nth_map_seq (fun j0 => nthQ t j0) n j 0).
  destruct (Nat.ltb_spec j n); [reflexivity | lia].
Qed.

(* accepted hierarchical Lagrange systems are injective *)
Lemma hier_okb_inj sy ord : hier_okb sy ord = true -> sys_inj {| s_basis := sy; s_ord := Some ord |}.
Proof.
  intros H t t' Heq j Hj. unfold s_n in *. cbn [s_basis] in *.
  destruct (hier_okb_sound sy ord H) as [Hp [Ht _]].
  set (n := length sy) in *.
  set (v := map (fun i => rowsum (colloc sy) t' n i) (seq 0 n)).
  assert (Lv : length v = n) by (unfold v; rewrite map_length, seq_length; reflexivity).
  assert (Hv : forall i, (i < n)%nat -> nthQ v i = rowsum (colloc sy) t' n i).
  { intros i Hi. unfold v, nthQ. rewrite (nth_map_seq (fun i0 => rowsum (colloc sy) t' n i0) n i 0).
    destruct (Nat.ltb_spec i n); [reflexivity | lia]. }
  transitivity (nthQ (fsubQ (colloc sy) v ord) j).
  - apply (fsub_unique (colloc sy) v ord n t Hp Lv Ht); [|exact Hj].
    intros i Hi. rewrite Hv by exact Hi. apply Heq. exact Hi.
  - symmetry. apply (fsub_unique (colloc sy) v ord n t' Hp Lv Ht); [|exact Hj].
    intros i Hi. symmetry. apply Hv. exact Hi.
Qed.

(* systems with an exact inverse certificate are injective *)
Lemma inverse_of_inj sy o N : inverse_of (colloc sy) = Some N -> sys_inj {| s_basis := sy; s_ord := o |}.
Proof.
  intros H t t' Heq j Hj. unfold s_n in *. cbn [s_basis] in *.
  apply (inverse_of_unisolvent (colloc sy) N t t' H); rewrite colloc_length; assumption.
Qed.

(* equal interpolated values at all grid points force equal surplus vectors *)
Theorem interp_nd_injective ss :
  Forall sys_inj ss ->
  forall sur sur', length sur = prodN (map s_n ss) -> length sur' = prodN (map s_n ss) ->
    (forall idxs, Forall2 (fun i s => (i < s_n s)%nat) idxs ss ->
       interp_nd ss (coords idxs ss) sur = interp_nd ss (coords idxs ss) sur') ->
    sur = sur'.
Proof.
  induction ss as [|s rest IH]; intros Hinj sur sur' L L' Heq.
  - simpl in L, L'. specialize (Heq [] (Forall2_nil _)). simpl in Heq.
    destruct sur as [|x [|? ?]]; try discriminate. destruct sur' as [|y [|? ?]]; try discriminate.
    unfold nthQ in Heq. simpl in Heq. congruence.
  - inversion Hinj as [|? ? Hs Hr]; subst. specialize (IH Hr).
    cbn [map prodN] in L, L'. set (len := prodN (map s_n rest)) in *. set (n := s_n s) in *.
    assert (Hch : forall j, (j < n)%nat -> nth j (chunks n len sur) [] = nth j (chunks n len sur') []).
    { intros j Hj. apply IH.
      - apply (chunks_each n len sur L). apply nth_In. rewrite chunks_length. exact Hj.
      - apply (chunks_each n len sur' L'). apply nth_In. rewrite chunks_length. exact Hj.
      - intros idxs Hidx.
        (* 1-D injectivity applied to the vectors of partial interpolants *)
        set (t := map (fun c => interp_nd rest (coords idxs rest) c) (chunks n len sur)).
        set (t' := map (fun c => interp_nd rest (coords idxs rest) c) (chunks n len sur')).
        assert (Ht : forall j0, (j0 < n)%nat -> nthQ t j0 = interp_nd rest (coords idxs rest) (nth j0 (chunks n len sur) [])).
        { intros j0 Hj0. unfold t. apply (nthQ_map_lt (fun c => interp_nd rest (coords idxs rest) c) _ [] j0). rewrite chunks_length. exact Hj0. }
        assert (Ht' : forall j0, (j0 < n)%nat -> nthQ t' j0 = interp_nd rest (coords idxs rest) (nth j0 (chunks n len sur') [])).
        { intros j0 Hj0. unfold t'. apply (nthQ_map_lt (fun c => interp_nd rest (coords idxs rest) c) _ [] j0). rewrite chunks_length. exact Hj0. }
        rewrite <- (Ht j Hj), <- (Ht' j Hj). apply (Hs t t'); [|exact Hj].
        intros i Hi. specialize (Heq (i :: idxs) (@Forall2_cons nat sys1 (fun i0 s0 => (i0 < s_n s0)%nat) i s idxs rest Hi Hidx)).
        cbn [coords interp_nd] in Heq. fold len n in Heq. cbn [tl] in Heq.
        rewrite (sum_combine_seq _ (s_basis s) (chunks n len sur) dflt [] n) in Heq by (reflexivity || apply chunks_length).
        rewrite (sum_combine_seq _ (s_basis s) (chunks n len sur') dflt [] n) in Heq by (reflexivity || apply chunks_length).
        assert (Conv : forall (u : list (list Qc)) (tu : list Qc),
                  (forall j0, (j0 < n)%nat -> nthQ tu j0 = interp_nd rest (coords idxs rest) (nth j0 u [])) ->
                  rowsum (colloc (s_basis s)) tu n i
                  = sumQ (map (fun j0 => beval (snd (fst (nth j0 (s_basis s) dflt, nth j0 u [])))
                                               (nthQ (pt (s_basis s) i :: coords idxs rest) 0)
                                         * interp_nd rest (coords idxs rest) (snd (nth j0 (s_basis s) dflt, nth j0 u [])))
                              (seq 0 n))).
        { intros u tu Hu. unfold rowsum. apply sumQ_map_ext_in. intros j0 Hj0. apply in_seq in Hj0. cbn [fst snd].
          rewrite Hu by lia. change (nthQ (pt (s_basis s) i :: coords idxs rest) 0) with (pt (s_basis s) i).
          rewrite colloc_entry by (unfold n, s_n in *; lia). reflexivity. }
        fold n. rewrite (Conv _ t Ht), (Conv _ t' Ht'). exact Heq. }
    (* equal chunks give equal vectors *)
    apply (nth_ext _ _ 0 0); [lia|]. intros k Hk. rewrite L in Hk.
    assert (Hl : (len <> 0)%nat) by (intro E; rewrite E in Hk; lia).
    pose proof (Nat.div_mod k len Hl) as Ek.
    assert (Hi : (k / len < n)%nat) by (apply Nat.div_lt_upper_bound; [exact Hl | lia]).
    assert (Hk' : (k mod len < len)%nat) by (apply Nat.mod_upper_bound; exact Hl).
    change (nthQ sur k = nthQ sur' k).
    replace k with (k / len * len + k mod len)%nat by lia.
    rewrite <- (chunks_nth n len sur (k / len) (k mod len) Hi Hk').
    rewrite <- (chunks_nth n len sur' (k / len) (k mod len) Hi Hk').
    rewrite (Hch (k / len)%nat Hi). reflexivity.
Qed.

(* the surpluses returned by the hierarchisation are the ONLY coefficients that reproduce the grid values *)
Theorem hierarchize_unique_nd ss v sur sur' :
  Forall sys_sound ss -> Forall sys_inj ss -> length v = prodN (map s_n ss) -> hier_nd ss v = Some sur ->
  length sur' = prodN (map s_n ss) ->
  map (fun x => interp_nd ss x sur') (grid_points ss) = v ->
  sur' = sur.
Proof.
  intros Hs Hi Hl Hh Ls' Hint.
  destruct (hier_nd_interp ss Hs v sur Hl Hh) as [Ls Hid].
  apply (interp_nd_injective ss Hi); [exact Ls' | lia |].
  intros idxs Hidx. rewrite (Hid idxs Hidx).
  assert (Hk : (flat idxs ss < prodN (map s_n ss))%nat) by (apply flat_lt; exact Hidx).
  assert (E : nthQ (map (fun x => interp_nd ss x sur') (grid_points ss)) (flat idxs ss) = nthQ v (flat idxs ss)) by (rewrite Hint; reflexivity).
  rewrite <- E.
  rewrite (nthQ_map_lt (fun x => interp_nd ss x sur') (grid_points ss) [] (flat idxs ss)) by (rewrite grid_points_length; exact Hk).
  f_equal.
  destruct (index_decompose ss (flat idxs ss) Hk) as [idxs' [F' [Fl' Fc']]].
  rewrite <- Fc'.
  (* flat is injective on valid index vectors *)
  assert (Inj : forall ss0 a b, Forall2 (fun i s => (i < s_n s)%nat) a ss0 -> Forall2 (fun i s => (i < s_n s)%nat) b ss0 ->
                flat a ss0 = flat b ss0 -> a = b).
  { clear. induction ss0 as [|s0 r0 IH0]; intros a b Ha Hb E.
    - inversion Ha; inversion Hb; reflexivity.
    - inversion Ha as [|i s1 a' r1 Hi Ha']; subst. inversion Hb as [|j s2 b' r2 Hj Hb']; subst.
      cbn [flat] in E.
      pose proof (flat_lt a' r0 Ha') as La. pose proof (flat_lt b' r0 Hb') as Lb.
      set (len := prodN (map s_n r0)) in *.
      assert (i = j) by nia. subst j. f_equal. apply IH0; [assumption | assumption | lia]. }
  rewrite (Inj ss idxs idxs' Hidx F' (eq_sym Fl')). reflexivity.
Qed.
