(* C08: a 1D quadrature rule pushed through an affine map keeps its degree of exactness - for every rule, every
   degree, every affine map (so: every sub-box).  Exact version and the version for rules that were certified
   approximately by the verified checker moments_ok.  Instances: the maps written out in GaussLegendreGrid1D,
   LejaGrid1D and ClenshawCurtisGrid1D (Model/LocalRules.v). *)
From Coq Require Import ZArith List QArith Qcanon Bool Arith Lia.
From SG Require Import Base.QcUtil Base.PolyInt Base.PolyQ Model.Tensor Model.LocalGrids Model.LocalRules
  Proofs.TensorRule Proofs.LocalGridsBase Proofs.LocalGridsChecker Proofs.QuadPoly.
Import ListNotations.
Open Scope Qc_scope.

Lemma Qcmult_le_compat_l_nonneg' (a x y : Qc) : 0 <= a -> x <= y -> a * x <= a * y.
Proof. intros Ha H. rewrite (Qcmult_comm a x), (Qcmult_comm a y). apply Qcmult_le_compat_r; assumption. Qed.

(* ---- (be + al X)^j as a coefficient list ---- *)
Lemma peval_lmul al be p x : PolyInt.peval (lmul al be p) x = (al * x + be) * PolyInt.peval p x.
Proof. unfold lmul. rewrite peval_padd, !peval_pscale. cbn [PolyInt.peval]. rewrite peval_pscale. ring. Qed.

Lemma peval_linpow al be j x : PolyInt.peval (linpow al be j) x = (al * x + be) ^ j.
Proof.
  induction j as [|j IH].
  - simpl. ring.
  - change (linpow al be (S j)) with (lmul al be (linpow al be j)). rewrite peval_lmul, IH. simpl. ring.
Qed.

Lemma lmul_length al be p : length (lmul al be p) = S (length p).
Proof. unfold lmul. rewrite padd_length. cbn [length]. rewrite !pscale_length. lia. Qed.

Lemma linpow_length al be j : length (linpow al be j) = S j.
Proof. induction j as [|j IH]; [reflexivity|]. change (linpow al be (S j)) with (lmul al be (linpow al be j)).
  rewrite lmul_length, IH. reflexivity. Qed.

Lemma peval_pderiv_lmul al be p x :
  PolyInt.peval (pderiv (lmul al be p)) x = al * PolyInt.peval p x + (al * x + be) * PolyInt.peval (pderiv p) x.
Proof.
  unfold lmul. rewrite peval_pderiv_padd, peval_pderiv_pscale, peval_pderiv_cons, peval_pderiv_pscale, peval_pscale. ring.
Qed.

Lemma peval_pderiv_linpow al be j x :
  PolyInt.peval (pderiv (linpow al be (S j))) x = qn (S j) * al * (al * x + be) ^ j.
Proof.
  induction j as [|j IH].
  - change (linpow al be 1) with (lmul al be [1]). rewrite peval_pderiv_lmul. simpl. rewrite qn_1. ring.
  - change (linpow al be (S (S j))) with (lmul al be (linpow al be (S j))).
    rewrite peval_pderiv_lmul, IH, peval_linpow. rewrite (qn_S (S j)). simpl. ring.
Qed.

(* substitution rule for the formal integral:  al * int_{u0}^{u1} (al u + be)^j du = int_{al u0+be}^{al u1+be} x^j dx *)
Theorem pint_linpow al be j u0 u1 :
  al * pint (linpow al be j) u0 u1 = mint j (al * u0 + be) (al * u1 + be).
Proof.
  assert (E : pint (pderiv (linpow al be (S j))) u0 u1 = qn (S j) * al * pint (linpow al be j) u0 u1).
  { rewrite <- pint_pscale. apply pint_ext. intro x.
    rewrite <- !peval_bridge, peval_pderiv_linpow, peval_pscale, peval_linpow. ring. }
  rewrite pint_pderiv in E. rewrite <- !peval_bridge, !peval_linpow in E.
  unfold mint. rewrite E. field. apply qn_S_neq0.
Qed.

(* ---- the rule through the map ---- *)
Lemma apply1_affine (f : Qc -> Qc) al be c w :
  apply1 f (affine_pts al be c) (affine_wts al w) = al * apply1 (fun x => f (al * x + be)) c w.
Proof.
  unfold apply1, affine_pts, affine_wts. revert w. induction c as [|x c IH]; intros [|y w]; simpl; try ring.
  rewrite IH. ring.
Qed.

Lemma affine_lengths al be c w : length c = length w -> length (affine_pts al be c) = length (affine_wts al w).
Proof. unfold affine_pts, affine_wts. rewrite !map_length. auto. Qed.

(* EXACT: every rule, every degree, every affine map *)
Theorem exact1_affine c w u0 u1 k al be : exact1 c w u0 u1 k ->
  exact1 (affine_pts al be c) (affine_wts al w) (al * u0 + be) (al * u1 + be) k.
Proof.
  intros Hex j Hj. rewrite apply1_affine.
  rewrite (apply1_ext _ (Tensor.peval (linpow al be j))).
  - rewrite (apply1_poly c w u0 u1 k) by (try assumption; rewrite linpow_length; lia).
    apply pint_linpow.
  - intro x. rewrite <- peval_bridge, peval_linpow. reflexivity.
Qed.

(* APPROXIMATE: a reference rule accepted by the verified checker moments_ok (relative tolerance rtol, degrees <= k)
   gives, on EVERY image interval, moments that are off by at most |al| * rtol * (bound computed from the reference rule) *)
Theorem moments_affine c w u0 u1 k rtol al be j : 0 <= rtol -> moments_ok c w u0 u1 k rtol = true -> (j <= k)%nat ->
  Qc_abs (moment j (affine_pts al be c) (affine_wts al w) - mint j (al * u0 + be) (al * u1 + be))
  <= Qc_abs al * (rtol * poly_bound 0 (linpow al be j) c w).
Proof.
  intros Hr Hok Hj. unfold moment. rewrite apply1_affine, <- pint_linpow.
  rewrite (apply1_ext _ (Tensor.peval (linpow al be j))) by (intro x; rewrite <- peval_bridge, peval_linpow; reflexivity).
  replace (al * apply1 (Tensor.peval (linpow al be j)) c w - al * pint (linpow al be j) u0 u1)
    with (al * (apply1 (Tensor.peval (linpow al be j)) c w - pint (linpow al be j) u0 u1)) by ring.
  rewrite Qc_abs_mult. apply Qcmult_le_compat_l_nonneg'.
  - apply Qc_abs_nonneg.
  - apply (moments_ok_sound_poly c w u0 u1 k rtol); [assumption | assumption | rewrite linpow_length; lia].
Qed.

(* ---- general transport between two intervals ---- *)
Theorem exact1_transport c w s1 e1 s2 e2 k : s1 <> e1 -> exact1 c w s1 e1 k ->
  exact1 (transport_pts s1 e1 s2 e2 c) (transport_wts s1 e1 s2 e2 w) s2 e2 k.
Proof.
  intros Hne Hex. unfold transport_pts, transport_wts.
  assert (H := exact1_affine c w s1 e1 k (transport_al s1 e1 s2 e2) (transport_be s1 e1 s2 e2) Hex).
  assert (Hd : e1 - s1 <> 0).
  { intro Hc. apply Hne. rewrite <- (Qcplus_0_r s1), <- Hc. ring. }
  replace (transport_al s1 e1 s2 e2 * s1 + transport_be s1 e1 s2 e2) with s2 in H
    by (unfold transport_be; ring).
  replace (transport_al s1 e1 s2 e2 * e1 + transport_be s1 e1 s2 e2) with e2 in H
    by (unfold transport_be, transport_al; field; assumption).
  exact H.
Qed.

(* ---- the maps of the code are such transports ---- *)
Lemma half_len s e : (e - s) / Qc2 = (e - s) * Qchalf.
Proof. unfold Qcdiv. rewrite Qchalf_inv. reflexivity. Qed.

Lemma gl_pts_affine s e rc : gl_pts s e rc = affine_pts ((e - s) * Qchalf) ((e - s) * Qchalf + s) rc.
Proof. unfold gl_pts, affine_pts. apply map_ext. intro x. rewrite half_len. ring. Qed.

Lemma gl_wts_affine s e rw : gl_wts false s e rw = affine_wts ((e - s) * Qchalf) rw.
Proof. unfold gl_wts, affine_wts. apply map_ext. intro x. cbv zeta. unfold Qcdiv. rewrite <- Qchalf_inv. ring. Qed.

Lemma half_ends s e : (e - s) * Qchalf * - (1) + ((e - s) * Qchalf + s) = s /\ (e - s) * Qchalf * 1 + ((e - s) * Qchalf + s) = e.
Proof.
  split; [ring|].
  replace ((e - s) * Qchalf * 1 + ((e - s) * Qchalf + s)) with ((e - s) * (Qchalf * Qc2) + s)
    by (rewrite Qc2_eq; ring).
  rewrite Qchalf_2. ring.
Qed.

(* GaussLegendreGrid1D.get_1d_points_and_weights: reference rule on [-1,1] -> sub-box [s,e], all sizes and degrees *)
Theorem gl_map_exact s e rc rw k : exact1 rc rw (-(1)) 1 k ->
  exact1 (gl_pts s e rc) (gl_wts false s e rw) s e k.
Proof.
  intro Hex. rewrite gl_pts_affine, gl_wts_affine.
  assert (H := exact1_affine rc rw (-(1)) 1 k ((e - s) * Qchalf) ((e - s) * Qchalf + s) Hex).
  destruct (half_ends s e) as [E1 E2]. rewrite E1, E2 in H. exact H.
Qed.

(* normalize=True: the same rule divided by the length of the sub-box (it integrates the mean value) *)
Lemma apply1_scale_w (f : Qc -> Qc) a c w : apply1 f c (map (fun v => a * v) w) = a * apply1 f c w.
Proof.
  unfold apply1. generalize (map f c). intro l. revert l.
  induction w as [|y w IH]; intros [|x l]; simpl; try ring. rewrite IH. ring.
Qed.

Lemma gl_wts_normalized s e rw : gl_wts true s e rw = map (fun v => (1 / (e - s)) * v) (gl_wts false s e rw).
Proof. unfold gl_wts. rewrite map_map. apply map_ext. intro w. cbv zeta iota. ring. Qed.

Theorem gl_map_normalized s e rc rw k : exact1 rc rw (-(1)) 1 k ->
  forall j, (j <= k)%nat -> apply1 (mono j) (gl_pts s e rc) (gl_wts true s e rw) = (1 / (e - s)) * mint j s e.
Proof.
  intros Hex j Hj. rewrite <- (gl_map_exact s e rc rw k Hex j Hj).
  rewrite gl_wts_normalized. apply apply1_scale_w.
Qed.

(* LejaGrid1D.get_1d_points_and_weights: reference rule on [0,1] -> [s,e] *)
Theorem leja_map_exact s e rc rw k : exact1 rc rw 0 1 k -> exact1 (leja_pts s e rc) (leja_wts s e rw) s e k.
Proof.
  intro Hex.
  assert (H := exact1_affine rc rw 0 1 k (e - s) s Hex).
  replace ((e - s) * 0 + s) with s in H by ring. replace ((e - s) * 1 + s) with e in H by ring.
  replace (leja_pts s e rc) with (affine_pts (e - s) s rc)
    by (unfold leja_pts, affine_pts; apply map_ext; intro; ring).
  replace (leja_wts s e rw) with (affine_wts (e - s) rw)
    by (unfold leja_wts, affine_wts; apply map_ext; intro; ring).
  exact H.
Qed.

(* ClenshawCurtisGrid1D: nodes -cos_i with the weight factors are the reference rule on [-1,1] *)
Theorem cc_map_exact s e cosv fac k : exact1 (map Qcopp cosv) fac (-(1)) 1 k ->
  exact1 (cc_pts s e cosv) (cc_wts s e fac) s e k.
Proof.
  intro Hex.
  assert (H := exact1_affine (map Qcopp cosv) fac (-(1)) 1 k ((e - s) * Qchalf) ((e - s) * Qchalf + s) Hex).
  destruct (half_ends s e) as [E1 E2]. rewrite E1, E2 in H.
  replace (cc_pts s e cosv) with (affine_pts ((e - s) * Qchalf) ((e - s) * Qchalf + s) (map Qcopp cosv)).
  - replace (cc_wts s e fac) with (affine_wts ((e - s) * Qchalf) fac); [exact H|].
    unfold cc_wts, affine_wts. apply map_ext. intro f. rewrite half_len. reflexivity.
  - unfold cc_pts, affine_pts. rewrite map_map. apply map_ext. intro c. unfold Qcdiv. rewrite <- Qchalf_inv. ring.
Qed.

(* slicing a rule keeps the nodes inside; lengths of the transported lists *)
Lemma transport_lengths s1 e1 s2 e2 c w : length c = length w ->
  length (transport_pts s1 e1 s2 e2 c) = length (transport_wts s1 e1 s2 e2 w).
Proof. apply affine_lengths. Qed.

(* nodes of a reference rule inside [u0,u1] stay inside the image interval (al >= 0) *)
Theorem affine_inside al be u0 u1 c : 0 <= al -> Forall (fun x => u0 <= x /\ x <= u1) c ->
  Forall (fun x => al * u0 + be <= x /\ x <= al * u1 + be) (affine_pts al be c).
Proof.
  intros Ha H. unfold affine_pts. apply Forall_map. eapply Forall_impl; [|exact H].
  intros x [L U]. cbv beta. split.
  - apply Qcplus_le_compat; [|apply Qcle_refl]. apply Qcmult_le_compat_l_nonneg'; assumption.
  - apply Qcplus_le_compat; [|apply Qcle_refl]. apply Qcmult_le_compat_l_nonneg'; assumption.
Qed.
