(* C18 (deepening round) — the history theorem for the repaired class DataSet (both proposed repairs, Model/DataSetOff.v):
   a machine over a STORE of data sets executes any sequence of DataSet operations (scalings with and without override, revert, shuffle,
   move_boundaries_to_front, the three splits, remove_samples, concatenate, copy - on any handles, raising or not).  Next to every data
   set the machine carries a ghost "reference list": the (sample, label) pairs as they were before the first scaling since the last
   overriding rescale, moved along by the sample-moving operations (the same operation applied to the reference list).  The ghost never
   influences the data sets (tstep_erasure).  Theorem history_tracked: every data set of the store stays Tracked - an unscaled set holds
   exactly its reference list, a scaled one is the affine image of it under the accumulated (factor, offset).  Hence
   (tracked_revert_restores) every successful revert_scaling, at any point of any history, returns exactly the reference list. *)
From Coq Require Import ZArith List QArith Qcanon Bool Lia Arith Permutation.
From SG Require Import Base.QcUtil Model.DataSet Model.DataSetOff Model.DataSetStore Proofs.DataSetVec Proofs.DataSetScale Proofs.DataSetRevert
  Proofs.DataSetMove Proofs.DataSetTrack Proofs.DataSetOffP Proofs.DataSetDerived Proofs.DataSetLabels.
Import ListNotations.
Open Scope Qc_scope.

Definition tds := (dso * list sample)%type.

Definition rowsok (b : ds) : Prop :=
  Forall (fun s => length (fst s) = ddim b) (rows b) /\ (rows b <> [] -> ddim b <> 0%nat).

Definition Tracked (t : tds) : Prop :=
  rowsok (base (fst t)) /\
  ((scaled (base (fst t)) = false /\ sfactor (base (fst t)) = FNone /\ soff (fst t) = FNone /\ rows (base (fst t)) = snd t)
   \/ (exists n fv cv, InvO n (fst t) (snd t) fv cv)
   \/ (scaled (base (fst t)) = true /\ rows (base (fst t)) = [] /\ snd t = [] /\ ddim (base (fst t)) = 0%nat)).

(* the part of a data set Tracked looks at *)
Definition core_eq (d d' : dso) : Prop :=
  rows (base d') = rows (base d) /\ ddim (base d') = ddim (base d) /\ scaled (base d') = scaled (base d) /\
  sfactor (base d') = sfactor (base d) /\ soff d' = soff d.

Lemma core_eq_refl d : core_eq d d.
Proof. repeat split. Qed.

Lemma tracked_core d d' R : core_eq d d' -> Tracked (d, R) -> Tracked (d', R).
Proof.
  intros [Hr [Hd [Hs [Hf Ho]]]] [[K1 K2] T]. cbn [fst snd] in *. split.
  - split; cbn [fst]; rewrite Hr, Hd; assumption.
  - cbn [fst snd]. destruct T as [[A [B [C D]]]|[[n [fv [cv [I Hov]]]]|[A [B [C D]]]]].
    + left. repeat split; congruence.
    + right. left. exists n, fv, cv. split; [|congruence].
      destruct I as [Id Ir Il If Ic Inz Is Ifac Ifz]. constructor; try assumption; congruence.
    + right. right. repeat split; congruence.
Qed.

(* a fresh rectangular data set *)
Lemma fresh_tracked r : Forall (fun s => length (fst s) = dim_of r) r -> (r <> [] -> dim_of r <> 0%nat) -> Tracked (fresh_o r, r).
Proof. intros H1 H2. split; [split; assumption | left; repeat split]. Qed.

(* ------------------------------------------------------------------ when the base operations succeed / what they keep when they raise *)
Lemma sr_ok lo hi ov b b' : scale_range lo hi ov b = (b', false) -> lo < hi /\ rows b <> [].
Proof.
  unfold scale_range. destruct (Qc_ltb lo hi) eqn:E; cbn [negb]; [|intro H; inversion H].
  apply Qc_ltb_lt in E. destruct (data_min (values b)) eqn:Em; [|intro H; inversion H].
  intros _. split; [exact E|]. intro Hr. unfold values in Em. rewrite Hr in Em. discriminate.
Qed.
Lemma sr_raise lo hi ov b b' : scale_range lo hi ov b = (b', true) -> b' = b.
Proof.
  unfold scale_range. destruct (negb (Qc_ltb lo hi)); [intro H; inversion H; reflexivity|].
  destruct (data_min (values b)); [|intro H; inversion H; reflexivity].
  destruct (data_max (values b)); [|intro H; inversion H; reflexivity].
  destruct (negb (scaled b) || ov); intro H; inversion H.
Qed.

Lemma sf_ok a ov b b' : scale_factor a ov b = (b', false) -> is_empty b = false /\ arg_fits (ddim b) a = true.
Proof.
  unfold scale_factor, dim. destruct (negb (scaled b) || ov).
  - destruct (is_empty b); [intro H; inversion H|]. destruct (arg_fits (ddim b) a); [split; reflexivity | intro H; inversion H].
  - destruct (arg_fits (ddim b) a); cbn [negb]; [|intro H; inversion H]. destruct (is_empty b); [intro H; inversion H | split; reflexivity].
Qed.
Lemma sf_raise a ov b b' : scale_factor a ov b = (b', true) ->
  rows b' = rows b /\ ddim b' = ddim b /\ scaled b' = scaled b /\ sfactor b' = sfactor b.
Proof.
  unfold scale_factor, dim. destruct (negb (scaled b) || ov).
  - destruct (is_empty b) eqn:Ee.
    + intro H. inversion H; subst; clear H. cbn. apply is_empty_rows in Ee. rewrite Ee. repeat split.
    + destruct (arg_fits (ddim b) a); cbn [negb]; intro H; inversion H; subst. cbn. repeat split.
  - destruct (arg_fits (ddim b) a); cbn [negb]; [|intro H; inversion H; repeat split].
    destruct (is_empty b) eqn:Ee; intro H; inversion H; subst; clear H. cbn. apply is_empty_rows in Ee. rewrite Ee. repeat split.
Qed.

Lemma sv_ok a ov b b' : shift_value a ov b = (b', false) -> is_empty b = false /\ arg_fits (ddim b) a = true.
Proof.
  unfold shift_value, dim. destruct (negb (scaled b) || ov).
  - destruct (is_empty b); [intro H; inversion H|]. destruct (arg_fits (ddim b) a); [split; reflexivity | intro H; inversion H].
  - destruct (arg_fits (ddim b) a); cbn [negb]; [|intro H; inversion H]. destruct (is_empty b); [intro H; inversion H | split; reflexivity].
Qed.
Lemma sv_raise a ov b b' : shift_value a ov b = (b', true) ->
  rows b' = rows b /\ ddim b' = ddim b /\ scaled b' = scaled b /\ sfactor b' = sfactor b.
Proof.
  unfold shift_value, dim. destruct (negb (scaled b) || ov).
  - destruct (is_empty b) eqn:Ee.
    + intro H. inversion H; subst; clear H. cbn. apply is_empty_rows in Ee. rewrite Ee. repeat split.
    + destruct (arg_fits (ddim b) a); cbn [negb]; intro H; inversion H; subst. cbn. repeat split.
  - destruct (arg_fits (ddim b) a); cbn [negb]; [|intro H; inversion H; repeat split].
    destruct (is_empty b) eqn:Ee; intro H; inversion H; subst; clear H. cbn. apply is_empty_rows in Ee. rewrite Ee. repeat split.
Qed.

Lemma not_empty_rows b : is_empty b = false -> rows b <> [].
Proof. unfold is_empty. destruct (rows b); [discriminate | discriminate]. Qed.

Lemma rowsok_wf b : rowsok b -> rows b <> [] -> wf b.
Proof. intros [H1 _] H. split; assumption. Qed.

(* a scaled tracked data set with samples is InvO with a non-empty reference list *)
Lemma tracked_scaled_nonempty d R : Tracked (d, R) -> scaled (base d) = true -> rows (base d) <> [] ->
  exists n fv cv, InvO n d R fv cv /\ R <> [].
Proof.
  intros [_ T] Hs Hr. cbn [fst snd] in T. destruct T as [[A _]|[[n [fv [cv IO]]]|[_ [B _]]]]; [congruence| |contradiction].
  exists n, fv, cv. split; [exact IO|]. intro E. subst R. destruct IO as [I _]. rewrite (b_rows _ _ _ _ _ I) in Hr. apply Hr. reflexivity.
Qed.

Lemma invo_rowsok n d R fv cv : InvO n d R fv cv -> rowsok (base d) -> wf (base d) \/ rows (base d) = [].
Proof. intros _ K. destruct (rows (base d)) eqn:E; [right; reflexivity | left; apply rowsok_wf; [exact K | rewrite E; discriminate]]. Qed.

Lemma invo_gives_rowsok n d R fv cv : InvO n d R fv cv -> (R <> [] -> n <> 0%nat) -> rowsok (base d).
Proof.
  intros [I _] Hn. split.
  - rewrite (b_rows _ _ _ _ _ I), (b_dim _ _ _ _ _ I). unfold map_rows. rewrite Forall_map.
    eapply Forall_impl; [|exact (b_len _ _ _ _ _ I)]. intros s Hs. cbn [fst].
    apply aff_length; [exact (b_fv _ _ _ _ _ I) | exact (b_cv _ _ _ _ _ I) | exact Hs].
  - intro Hr. rewrite (b_dim _ _ _ _ _ I). apply Hn. intro E. subst R. apply Hr. rewrite (b_rows _ _ _ _ _ I). reflexivity.
Qed.

(* ------------------------------------------------------------------ the scaling operations on a tracked data set *)
(* ghost reference after a scaling call: the current rows when the call is a first / overriding scaling that succeeds *)
Definition ref_after (ov e : bool) (d : dso) (R : list sample) : list sample :=
  if e then R else if is_first ov (base d) then rows (base d) else R.

Lemma first_tracked d d' R n fv cv : Tracked (d, R) -> rows (base d) <> [] ->
  InvO n d' (rows (base d)) fv cv -> n = ddim (base d) -> Tracked (d', rows (base d)).
Proof.
  intros [K _] Hr IO Hn. cbn [fst] in K. split; [|right; left; exists n, fv, cv; exact IO].
  cbn [fst]. apply (invo_gives_rowsok n d' _ fv cv IO). intros _. rewrite Hn. apply K. exact Hr.
Qed.

Lemma tracked_n_pos d R n fv cv : Tracked (d, R) -> InvO n d R fv cv -> R <> [] -> n <> 0%nat.
Proof.
  intros [[_ K] _] [I _] Hne. cbn [fst] in K. rewrite <- (b_dim _ _ _ _ _ I). apply K.
  rewrite (b_rows _ _ _ _ _ I). destruct R; [contradiction | discriminate].
Qed.

Lemma factor_tracked a ov d R d' e : Tracked (d, R) -> arg_nonzero a -> scale_factor_o true a ov d = (d', e) ->
  Tracked (d', ref_after ov e d R).
Proof.
  intros T Hz H. unfold ref_after. unfold scale_factor_o in H.
  destruct (scale_factor a ov (base d)) as [b' e0] eqn:E0. destruct e0; cbn [orb negb] in H.
  - inversion H; subst; clear H. apply (tracked_core d); [|exact T].
    destruct (sf_raise _ _ _ _ E0) as [A [B [C D]]]. repeat split; assumption.
  - destruct (sf_ok _ _ _ _ E0) as [Hne Hfit]. apply not_empty_rows in Hne.
    destruct (is_first ov (base d)) eqn:Ef.
    + inversion H; subst; clear H.
      destruct (ofirst_factor d a ov (rowsok_wf _ (proj1 T) Hne) Ef Hfit Hz) as [d'' [fv [cv [E IO]]]].
      unfold scale_factor_o in E. rewrite E0 in E. cbn [orb negb] in E. rewrite Ef in E. inversion E; subst d''.
      exact (first_tracked d _ R _ fv cv T Hne IO eq_refl).
    + unfold is_first in Ef. apply orb_false_iff in Ef. destruct Ef as [Ef1 Ef2]. apply negb_false_iff in Ef1. subst ov.
      destruct (tracked_scaled_nonempty d R T Ef1 Hne) as [n [fv [cv [IO HR]]]].
      pose proof IO as [I _]. rewrite (b_dim _ _ _ _ _ I) in Hfit.
      destruct (ostep_factor n d R fv cv a IO HR Hfit Hz) as [d'' [E IO']].
      unfold scale_factor_o in E. rewrite E0 in E. cbn [orb negb] in E. unfold is_first in E. rewrite Ef1 in E. cbn [negb orb] in E.
      rewrite E in H. inversion H; subst; clear H.
      split; [|right; left; exists n; eexists; eexists; exact IO'].
      cbn [fst]. apply (invo_gives_rowsok n d' R _ _ IO'). intros _. exact (tracked_n_pos d R n fv cv T IO HR).
Qed.

Lemma shift_tracked a ov d R d' e : Tracked (d, R) -> shift_value_o true a ov d = (d', e) ->
  Tracked (d', ref_after ov e d R).
Proof.
  intros T H. unfold ref_after. unfold shift_value_o in H.
  destruct (shift_value a ov (base d)) as [b' e0] eqn:E0. destruct e0; cbn [orb negb] in H.
  - inversion H; subst; clear H. apply (tracked_core d); [|exact T].
    destruct (sv_raise _ _ _ _ E0) as [A [B [C D]]]. repeat split; assumption.
  - destruct (sv_ok _ _ _ _ E0) as [Hne Hfit]. apply not_empty_rows in Hne.
    destruct (is_first ov (base d)) eqn:Ef.
    + inversion H; subst; clear H.
      destruct (ofirst_shift d a ov (rowsok_wf _ (proj1 T) Hne) Ef Hfit) as [d'' [fv [cv [E IO]]]].
      unfold shift_value_o in E. rewrite E0 in E. cbn [orb negb] in E. rewrite Ef in E. inversion E; subst d''.
      exact (first_tracked d _ R _ fv cv T Hne IO eq_refl).
    + unfold is_first in Ef. apply orb_false_iff in Ef. destruct Ef as [Ef1 Ef2]. apply negb_false_iff in Ef1. subst ov.
      destruct (tracked_scaled_nonempty d R T Ef1 Hne) as [n [fv [cv [IO HR]]]].
      pose proof IO as [I _]. rewrite (b_dim _ _ _ _ _ I) in Hfit.
      destruct (ostep_shift n d R fv cv a IO HR Hfit) as [d'' [E IO']].
      unfold shift_value_o in E. rewrite E0 in E. cbn [orb negb] in E. unfold is_first in E. rewrite Ef1 in E. cbn [negb orb] in E.
      rewrite E in H. inversion H; subst; clear H.
      split; [|right; left; exists n; eexists; eexists; exact IO'].
      cbn [fst]. apply (invo_gives_rowsok n d' R _ _ IO'). intros _. exact (tracked_n_pos d R n fv cv T IO HR).
Qed.

Lemma range_tracked lo hi ov d R d' e : Tracked (d, R) -> scale_range_o true lo hi ov d = (d', e) ->
  Tracked (d', ref_after ov e d R).
Proof.
  intros T H. unfold ref_after.
  destruct (scale_range lo hi ov (base d)) as [b' e0] eqn:E0. destruct e0.
  - unfold scale_range_o in H. rewrite E0 in H. cbn [orb negb] in H. inversion H; subst; clear H.
    apply sr_raise in E0. subst b'. apply (tracked_core d); [|exact T]. destruct d; repeat split.
  - destruct (sr_ok _ _ _ _ _ E0) as [Hlh Hne].
    destruct (is_first ov (base d)) eqn:Ef.
    + destruct (ofirst_range d lo hi ov (rowsok_wf _ (proj1 T) Hne) Ef Hlh) as [d'' [fv [cv [E IO]]]].
      rewrite E in H. inversion H; subst.
      exact (first_tracked d _ R _ fv cv T Hne IO eq_refl).
    + pose proof Ef as Ef'. unfold is_first in Ef. apply orb_false_iff in Ef. destruct Ef as [Ef1 Ef2]. apply negb_false_iff in Ef1. subst ov.
      destruct (tracked_scaled_nonempty d R T Ef1 Hne) as [n [fv [cv [IO HR]]]].
      destruct (ostep_range n d R fv cv lo hi IO HR Hlh) as [d'' [fv' [cv' [E IO']]]].
      rewrite E in H. inversion H; subst.
      split; [|right; left; exists n; eexists; eexists; exact IO'].
      cbn [fst]. apply (invo_gives_rowsok n d' R _ _ IO'). intros _. exact (tracked_n_pos d R n fv cv T IO HR).
Qed.

(* ------------------------------------------------------------------ revert_scaling on a tracked data set *)
Lemma sf_ddim a ov b b' e : scale_factor a ov b = (b', e) -> ddim b' = ddim b.
Proof.
  unfold scale_factor. destruct (negb (scaled b) || ov).
  - destruct (is_empty b); [intro H; inversion H; reflexivity|]. destruct (negb (arg_fits (dim b) a)); intro H; inversion H; reflexivity.
  - destruct (negb (arg_fits (dim b) a)); [intro H; inversion H; reflexivity|]. destruct (is_empty b); intro H; inversion H; reflexivity.
Qed.
Lemma sv_ddim a ov b b' e : shift_value a ov b = (b', e) -> ddim b' = ddim b.
Proof.
  unfold shift_value. destruct (negb (scaled b) || ov).
  - destruct (is_empty b); [intro H; inversion H; reflexivity|]. destruct (negb (arg_fits (dim b) a)); intro H; inversion H; reflexivity.
  - destruct (negb (arg_fits (dim b) a)); [intro H; inversion H; reflexivity|]. destruct (is_empty b); intro H; inversion H; reflexivity.
Qed.
Lemma sfo_ddim a ov d d' e : scale_factor_o true a ov d = (d', e) -> ddim (base d') = ddim (base d).
Proof.
  unfold scale_factor_o. destruct (scale_factor a ov (base d)) as [b' e0] eqn:E0. apply sf_ddim in E0.
  destruct e0; cbn [orb negb]; [intro H; inversion H; exact E0|].
  destruct (is_first ov (base d)); [intro H; inversion H; exact E0|]. destruct (soff d); intro H; inversion H; exact E0.
Qed.
Lemma svo_ddim a ov d d' e : shift_value_o true a ov d = (d', e) -> ddim (base d') = ddim (base d).
Proof.
  unfold shift_value_o. destruct (shift_value a ov (base d)) as [b' e0] eqn:E0. apply sv_ddim in E0.
  destruct e0; cbn [orb negb]; [intro H; inversion H; exact E0|].
  destruct (is_first ov (base d)); [intro H; inversion H; exact E0|]. destruct (soff d); intro H; inversion H; exact E0.
Qed.
Lemma revert_o_ddim d d' e : revert_o true d = (d', e) -> ddim (base d') = ddim (base d).
Proof.
  unfold revert_o. cbn [negb].
  assert (G : forall f o, (let '(d1, e1) := shift_value_o true (fac_neg o) false d in
             if e1 then (d1, true) else let '(d2, e2) := scale_factor_o true (fac_inv f) false d1 in if e2 then (d2, true) else (clear_o d2, false))
             = (d', e) -> ddim (base d') = ddim (base d)).
  { intros f o. destruct (shift_value_o true (fac_neg o) false d) as [d1 e1] eqn:E1. apply svo_ddim in E1.
    destruct e1; [intro H; inversion H; subst; exact E1|].
    destruct (scale_factor_o true (fac_inv f) false d1) as [d2 e2] eqn:E2. apply sfo_ddim in E2.
    destruct e2; intro H; inversion H; subst; cbn; congruence. }
  destruct (sfactor (base d)) as [|q|l]; [intro H; inversion H; reflexivity| |].
  - destruct (fac_has_zero (FScalar q)); [intro H; inversion H; reflexivity|].
    destruct (soff d) as [|oq|ol] eqn:Eo; [intro H; inversion H; reflexivity | apply G | apply G].
  - destruct (fac_has_zero (FArr l)); [intro H; inversion H; reflexivity|].
    destruct (soff d) as [|oq|ol] eqn:Eo; [intro H; inversion H; reflexivity | apply G | apply G].
Qed.

Lemma sv_empty_raises a ov b b' e : is_empty b = true -> shift_value a ov b = (b', e) -> e = true.
Proof.
  intro He. unfold shift_value. rewrite He. destruct (negb (scaled b) || ov); [intro H; inversion H; reflexivity|].
  destruct (negb (arg_fits (dim b) a)); intro H; inversion H; reflexivity.
Qed.

Lemma revert_o_empty d d' e : rows (base d) = [] -> revert_o true d = (d', e) -> e = true /\ core_eq d d'.
Proof.
  intros Hr. unfold revert_o. cbn [negb].
  assert (He : is_empty (base d) = true) by (unfold is_empty; rewrite Hr; reflexivity).
  assert (G : forall f o, (let '(d1, e1) := shift_value_o true (fac_neg o) false d in
             if e1 then (d1, true) else let '(d2, e2) := scale_factor_o true (fac_inv f) false d1 in if e2 then (d2, true) else (clear_o d2, false))
             = (d', e) -> e = true /\ core_eq d d').
  { intros f o. unfold shift_value_o. destruct (shift_value (fac_neg o) false (base d)) as [b' e0] eqn:E0.
    pose proof (sv_empty_raises _ _ _ _ _ He E0) as X. subst e0. cbn [orb negb].
    intro H. inversion H; subst. split; [reflexivity|]. destruct (sv_raise _ _ _ _ E0) as [A [B [C D]]]. repeat split; assumption. }
  destruct (sfactor (base d)) as [|q|l]; [intro H; inversion H; split; [reflexivity | apply core_eq_refl]| |].
  - destruct (fac_has_zero (FScalar q)); [intro H; inversion H; split; [reflexivity | apply core_eq_refl]|].
    destruct (soff d) as [|oq|ol] eqn:Eo; [intro H; inversion H; split; [reflexivity | apply core_eq_refl] | apply G | apply G].
  - destruct (fac_has_zero (FArr l)); [intro H; inversion H; split; [reflexivity | apply core_eq_refl]|].
    destruct (soff d) as [|oq|ol] eqn:Eo; [intro H; inversion H; split; [reflexivity | apply core_eq_refl] | apply G | apply G].
Qed.

(* the heart of the property: a successful revert_scaling of a tracked data set returns exactly its reference list *)
Theorem tracked_revert_restores d R d' : Tracked (d, R) -> revert_o true d = (d', false) ->
  rows (base d') = R /\ cleared (base d') /\ soff d' = FNone.
Proof.
  intros T H. destruct (rows (base d)) eqn:Er.
  - destruct (revert_o_empty d d' false Er H) as [X _]. discriminate.
  - destruct T as [K T]. cbn [fst snd] in *. destruct T as [[A [B _]]|[[n [fv [cv IO]]]|[_ [B _]]]].
    + unfold revert_o in H. cbn [negb] in H. rewrite B in H. inversion H.
    + assert (HR : R <> []).
      { intro E. subst R. destruct IO as [I _]. rewrite (b_rows _ _ _ _ _ I) in Er. discriminate. }
      destruct (revert_o_restores n d R fv cv IO HR) as [d3 [E3 [R3 [C3 O3]]]]. rewrite E3 in H. inversion H; subst. auto.
    + congruence.
Qed.

Lemma revert_tracked d R d' e : Tracked (d, R) -> revert_o true d = (d', e) -> Tracked (d', R).
Proof.
  intros T H. destruct e.
  - (* raised: nothing Tracked looks at has changed *)
    destruct (rows (base d)) eqn:Er.
    + destruct (revert_o_empty d d' true Er H) as [_ C]. exact (tracked_core d d' R C T).
    + pose proof T as [K T']. cbn [fst snd] in *. destruct T' as [[A [B _]]|[[n [fv [cv IO]]]|[_ [B _]]]].
      * unfold revert_o in H. cbn [negb] in H. rewrite B in H. inversion H; subst. exact T.
      * assert (HR : R <> []).
        { intro E. subst R. destruct IO as [I _]. rewrite (b_rows _ _ _ _ _ I) in Er. discriminate. }
        destruct (revert_o_restores n d R fv cv IO HR) as [d3 [E3 _]]. rewrite E3 in H. inversion H.
      * congruence.
  - destruct (tracked_revert_restores d R d' T H) as [R3 [[C1 [C2 [C3 [C4 C5]]]] O3]].
    pose proof (revert_o_ddim _ _ _ H) as Hd.
    split; [|left; cbn [fst snd]; repeat split; assumption].
    destruct T as [[K1 K2] T]. cbn [fst snd] in *. split.
    + rewrite Hd, R3.
      destruct T as [[_ [_ [_ D]]]|[[n [fv [cv [I _]]]]|[_ [_ [D _]]]]].
      * rewrite <- D. exact K1.
      * rewrite (b_dim _ _ _ _ _ I). exact (b_len _ _ _ _ _ I).
      * subst R. constructor.
    + intro Hne. rewrite Hd. apply K2. rewrite R3 in Hne.
      destruct T as [[_ [_ [_ D]]]|[[n [fv [cv [I _]]]]|[_ [_ [D _]]]]].
      * rewrite D. exact Hne.
      * rewrite (b_rows _ _ _ _ _ I). destruct R; [contradiction | discriminate].
      * contradiction.
Qed.

(* ------------------------------------------------------------------ sample-moving operations on a tracked data set *)
Lemma tracked_len d R : Tracked (d, R) -> length (rows (base d)) = length R.
Proof.
  intros [_ T]. cbn [fst snd] in T. destruct T as [[_ [_ [_ D]]]|[[n [fv [cv [I _]]]]|[_ [B [C _]]]]].
  - rewrite D. reflexivity.
  - exact (invb_rows_length _ _ _ _ _ I).
  - rewrite B, C. reflexivity.
Qed.

Lemma tracked_empty_ref d R : Tracked (d, R) -> rows (base d) = [] -> R = [].
Proof. intros T H. pose proof (tracked_len d R T) as L. rewrite H in L. destruct R; [reflexivity | discriminate]. Qed.

Lemma natural_nil g : natural_on 0 g -> g [] = [].
Proof.
  intros [_ N]. pose proof (N [] eq_refl) as H. destruct (g []) as [|s r]; [reflexivity|]. exfalso. apply (H (fst s)). left. reflexivity.
Qed.

Lemma move_tracked d R d' g : Tracked (d, R) -> natural_on (length R) g ->
  rows (base d') = g (rows (base d)) -> scaled (base d') = scaled (base d) -> sfactor (base d') = sfactor (base d) -> soff d' = soff d ->
  (ddim (base d') = ddim (base d) \/ ddim (base d') = dim_of (rows (base d'))) ->
  Tracked (d', g R).
Proof.
  intros T N Hr Hs Hf Ho Hd. pose proof (tracked_len d R T) as HL.
  pose proof T as [[K1 K2] T']. cbn [fst snd] in *.
  assert (Hin : forall x, In x (map fst (rows (base d'))) -> In x (map fst (rows (base d)))).
  { rewrite Hr. destruct N as [_ N2]. apply N2. exact HL. }
  assert (Hlen' : Forall (fun s => length (fst s) = ddim (base d)) (rows (base d'))).
  { rewrite Forall_forall. intros s Hs'. assert (X : In (fst s) (map fst (rows (base d)))) by (apply Hin; apply in_map; exact Hs').
    apply in_map_iff in X. destruct X as [s0 [E0 H0]]. rewrite <- E0. rewrite Forall_forall in K1. apply K1. exact H0. }
  assert (Hne' : rows (base d') <> [] -> rows (base d) <> []).
  { intros H E. destruct (rows (base d')) as [|s r]; [contradiction|]. rewrite E in Hin. apply (Hin (fst s)). left. reflexivity. }
  assert (Hd' : ddim (base d') = ddim (base d) \/ (rows (base d') = [] /\ ddim (base d') = 0%nat)).
  { destruct Hd as [Hd|Hd]; [left; exact Hd|]. destruct (rows (base d')) as [|[r0 l0] rest] eqn:E; [right; split; [reflexivity | exact Hd]|].
    left. rewrite Hd. cbn [dim_of]. pose proof (Forall_inv Hlen') as X. exact X. }
  split; cbn [fst snd].
  - split.
    + destruct Hd' as [Hd'|[Hd' _]]; [rewrite Hd'; exact Hlen' | rewrite Hd'; constructor].
    + intro Hne. destruct Hd' as [Hd'|[Hd' _]]; [rewrite Hd'; apply K2; apply Hne'; exact Hne | contradiction].
  - destruct T' as [[A [B [C D]]]|[[n [fv [cv IO]]]|[A [B [C D]]]]].
    + left. repeat split; try congruence; rewrite Hr, D; reflexivity.
    + pose proof IO as [I _]. destruct Hd' as [Hd'|[Hd1 Hd2]].
      * right. left. exists n, fv, cv. apply (invo_move n d d' R fv cv g IO N); try assumption. rewrite Hd'. exact (b_dim _ _ _ _ _ I).
      * right. right. split; [rewrite Hs; exact (b_scaled _ _ _ _ _ I)|]. split; [exact Hd1|]. split; [|exact Hd2].
        destruct N as [N1 _]. rewrite Hr, (b_rows _ _ _ _ _ I), (N1 _ R eq_refl) in Hd1. destruct (g R); [reflexivity | discriminate].
    + right. right. subst R. cbn [length] in N. pose proof (natural_nil g N) as G0. rewrite B, G0 in Hr.
      split; [congruence|]. split; [exact Hr|]. split; [exact G0|].
      destruct Hd as [Hd|Hd]; [congruence | rewrite Hd, Hr; reflexivity].
Qed.

Lemma natural_id m : natural_on m (fun l => l).
Proof. split; [reflexivity | intros l _ x Hx; exact Hx]. Qed.

(* ------------------------------------------------------------------ concatenate on tracked data sets (both repairs) *)
Lemma concatenate_new_dims v a b r : concatenate v a b = CNew r -> ddim a = ddim b.
Proof.
  unfold concatenate, dim. destruct (Nat.eqb (ddim a) (ddim b)) eqn:E; [intros _; apply Nat.eqb_eq; exact E|].
  destruct (is_empty b); [discriminate|]. destruct (is_empty a); discriminate.
Qed.

(* admissible: the second repair is present (then the call itself refuses anything else), or the other set is empty, or both sets have
   the same accumulated map *)
Definition concat_adm (v : variant2) (a b : dso) : Prop :=
  v_refuse v = true \/ is_empty (base b) = true \/ same_affine a b = true.

Lemma concat_tracked v a b Ra Rb r : concat_adm v a b -> Tracked (a, Ra) -> Tracked (b, Rb) ->
  concatenate_o v a b = CNewO r -> Tracked (r, Ra ++ Rb).
Proof.
  intros Hadm Ta Tb H. destruct (concatenate_o_new v a b r H) as [Er Hacc0].
  assert (Hacc : is_empty (base b) = true \/ same_affine a b = true) by (destruct Hadm as [Hv|Hx]; [exact (Hacc0 Hv) | exact Hx]).
  assert (Hdim : ddim (base a) = ddim (base b)).
  { unfold concatenate_o in H. destruct (concatenate (v_base v) (base a) (base b)) eqn:E; try discriminate. exact (concatenate_new_dims _ _ _ _ E). }
  destruct (rows (base b)) as [|sb restb] eqn:Erb.
  - (* nothing is added *)
    pose proof (tracked_empty_ref b Rb Tb Erb) as X. subst Rb. rewrite app_nil_r in *.
    apply (move_tracked a Ra r (fun l => l) Ta (natural_id _)); subst r; cbn [lift base soff with_attrs rows scaled sfactor ddim]; try reflexivity.
    right. reflexivity.
  - assert (Hnb : is_empty (base b) = false) by (unfold is_empty; rewrite Erb; reflexivity).
    destruct Hacc as [X|Hsame]; [congruence|].
    pose proof Hsame as Hsame'. unfold same_affine in Hsame'.
    destruct (Bool.eqb (scaled (base a)) (scaled (base b))) eqn:Esc; cbn [negb] in Hsame'; [|discriminate].
    apply Bool.eqb_prop in Esc.
    pose proof Ta as [[Ka1 Ka2] Ta']. pose proof Tb as [[Kb1 Kb2] Tb']. cbn [fst snd] in *.
    assert (Hrb : rows (base b) <> []) by (rewrite Erb; discriminate).
    destruct (scaled (base a)) eqn:Esa.
    + (* both scaled: the accumulated maps are equal *)
      assert (Esb : scaled (base b) = true) by congruence.
      destruct (tracked_scaled_nonempty b Rb Tb Esb Hrb) as [nb [fvb [cvb [IOb HRb]]]].
      pose proof (tracked_n_pos b Rb nb fvb cvb Tb IOb HRb) as Hnb0.
      pose proof IOb as [Ib _].
      destruct Ta' as [[A _]|[[na [fva [cva IOa]]]|[_ [_ [_ D]]]]]; [congruence| |].
      * pose proof IOa as [Ia _].
        assert (Hn : na = nb) by (rewrite <- (b_dim _ _ _ _ _ Ia), <- (b_dim _ _ _ _ _ Ib); exact Hdim). subst na.
        assert (Hne : Ra ++ Rb <> []) by (destruct Ra; [exact HRb | discriminate]).
        pose proof (concatenate_o_tracked v nb a b Ra Rb fva cva fvb cvb r IOa IOb Hne
                      (or_intror (or_introl (same_affine_tracked nb a b Ra Rb _ _ _ _ IOa IOb Hsame))) H) as IOr.
        split; [|right; left; exists nb, fva, cva; exact IOr].
        cbn [fst]. apply (invo_gives_rowsok nb r _ fva cva IOr). intros _. exact Hnb0.
      * exfalso. apply Hnb0. rewrite <- (b_dim _ _ _ _ _ Ib), <- Hdim. exact D.
    + (* both unscaled *)
      assert (Esb : scaled (base b) = false) by congruence.
      destruct Ta' as [[_ [Fa [Oa Da]]]|[[na [fva [cva [Ia _]]]]|[A _]]]; [|pose proof (b_scaled _ _ _ _ _ Ia); congruence | congruence].
      destruct Tb' as [[_ [Fb [Ob Db]]]|[[nb [fvb [cvb [Ib _]]]]|[A _]]]; [|pose proof (b_scaled _ _ _ _ _ Ib); congruence | congruence].
      assert (Hall : Forall (fun s => length (fst s) = ddim (base a)) (rows (base a) ++ rows (base b))).
      { apply Forall_app. split; [exact Ka1 | rewrite Hdim; exact Kb1]. }
      assert (Hd0 : ddim (base a) <> 0%nat) by (rewrite Hdim; apply Kb2; exact Hrb).
      assert (Hdr : dim_of (rows (base a) ++ rows (base b)) = ddim (base a)).
      { destruct (rows (base a) ++ rows (base b)) as [|[r0 l0] rest] eqn:E.
        - exfalso. apply app_eq_nil in E. destruct E as [_ E]. contradiction.
        - cbn [dim_of]. pose proof (Forall_inv Hall) as X. exact X. }
      subst r. split; cbn [fst snd lift base soff with_attrs rows scaled sfactor ddim].
      * unfold rowsok. cbn [fst snd lift base soff with_attrs rows scaled sfactor ddim].
        rewrite <- Erb. split; [rewrite Hdr; exact Hall | intros _; rewrite Hdr; exact Hd0].
      * left. repeat split; try assumption. rewrite Da. f_equal. congruence.
Qed.

(* ------------------------------------------------------------------ the store machine with ghost reference lists *)
(* restrictions on a history: no zero scaling factor (1.0 / 0 in revert_scaling) *)
Definition sop_ok (o : sop) : Prop := match o with SFactor _ a _ => arg_nonzero a | _ => True end.
(* ... and, as long as concatenate does not refuse differently scaled sets itself (second repair), concatenate is only applied to an empty
   other set or to sets with the same accumulated map *)
Definition sop_adm (v : variant2) (st : list tds) (o : sop) : Prop :=
  sop_ok o /\
  match o with
  | SConcat h h2 => match nth_error st h, nth_error st h2 with Some (d, _), Some (d2, _) => concat_adm v d d2 | _, _ => True end
  | _ => True
  end.

Definition remove_keep (v : variant) (idx : list Z) (n : nat) : list nat * list nat :=
  let ni := if v_dedup v then dedup (map Z.to_nat idx) else map Z.to_nat idx in
  (ni, filter (fun i => negb (memn i ni)) (seq 0 n)).

Definition tstep (v : variant2) (st : list tds) (o : sop) : list tds :=
  match o with
  | SRange h lo hi ov =>
    match nth_error st h with None => st | Some (d, R) =>
      let '(d', e) := scale_range_o true lo hi ov d in upd h (d', ref_after ov e d R) st end
  | SFactor h a ov =>
    match nth_error st h with None => st | Some (d, R) =>
      let '(d', e) := scale_factor_o true a ov d in upd h (d', ref_after ov e d R) st end
  | SShift h a ov =>
    match nth_error st h with None => st | Some (d, R) =>
      let '(d', e) := shift_value_o true a ov d in upd h (d', ref_after ov e d R) st end
  | SRevert h =>
    match nth_error st h with None => st | Some (d, R) =>
      let '(d', e) := revert_o true d in upd h (d', R) st end
  | SShuffle h perm =>
    match nth_error st h with None => st | Some (d, R) =>
      let '(d', e) := shuffle_o perm d in upd h (d', if e then R else pick perm R) st end
  | SMbf h idx =>
    match nth_error st h with None => st | Some (d, R) =>
      let '(d', e) := mbf_o idx d in upd h (d', if e then R else swap_loop dflt_sample 0 idx R) st end
  | SSplitLabels h =>
    match nth_error st h with None => st | Some (d, R) =>
      if update_internal_raises (base d) && negb (is_empty (base d)) then st
      else st ++ combine (split_labels_o d) (map (fun j => label_part j R) (distinct_labels (rows (base d)))) end
  | SSplitPieces h p =>
    match nth_error st h with None => st | Some (d, R) =>
      if update_internal_raises (base d) then st
      else let '(a, b) := split_pieces_o p d in
           let k := split_index p (length (rows (base d))) in st ++ [(a, firstn k R); (b, skipn k R)] end
  | SSplitWL h =>
    match nth_error st h with None => st | Some (d, R) =>
      if update_internal_raises (base d) then st
      else let '(a, b) := split_without_labels_o d in
           st ++ [(a, label_part (-1)%Z R); (b, filter (fun s => Z.leb 0 (snd s)) R)] end
  | SRemove h idx =>
    match nth_error st h with None => st | Some (d, R) =>
      let n := length (rows (base d)) in
      let '(d', r) := remove_samples_o v idx d in
      let '(ni, keep) := remove_keep (v_base v) idx n in
      let st' := upd h (d', if idx_rejected idx n then R else pick keep R) st in
      match r with
      | None => st'
      | Some r' => st' ++ [(r', match idx with [] => [] | _ => pick ni R end)]
      end end
  | SConcat h h2 =>
    match nth_error st h, nth_error st h2 with
    | Some (d, R), Some (d2, R2) => match concatenate_o v d d2 with CNewO r => st ++ [(r, R ++ R2)] | _ => st end
    | _, _ => st
    end
  | SCopy h =>
    match nth_error st h with None => st | Some (d, R) => st ++ [(copy_o d, R)] end
  | SRemoveLabels h p idx =>
    match nth_error st h with None => st | Some (d, R) =>
      if update_internal_raises (base d) then st else upd h (remove_labels_o p idx d, rl_rows idx R) st end
  | SOneVsOthers h order => st
  end.

Fixpoint trun (v : variant2) (st : list tds) (ops : list sop) : list tds :=
  match ops with [] => st | o :: r => trun v (tstep v st o) r end.

(* --- list plumbing *)
Lemma Forall_upd {A} (P : A -> Prop) h t st : Forall P st -> P t -> Forall P (upd h t st).
Proof.
  intros H Ht. revert h. induction H as [|x l Hx Hl IH]; intros [|h]; cbn [upd]; try constructor; auto.
Qed.
Lemma Forall_nth_error {A} (P : A -> Prop) st h t : Forall P st -> nth_error st h = Some t -> P t.
Proof. intros H E. rewrite Forall_forall in H. apply H. eapply nth_error_In. exact E. Qed.
Lemma combine_map_same {A B C} (f : A -> B) (g : A -> C) l : combine (map f l) (map g l) = map (fun x => (f x, g x)) l.
Proof. induction l as [|x l IH]; [reflexivity|]. cbn [map combine]. f_equal. exact IH. Qed.

(* remove_samples with the index lists made explicit *)
Lemma remove_samples_explicit v idx b b' r : remove_samples v idx b = (b', r) -> idx_rejected idx (length (rows b)) = false ->
  let ni := fst (remove_keep v idx (length (rows b))) in
  let keep := snd (remove_keep v idx (length (rows b))) in
  Forall (fun i => (i < length (rows b))%nat) ni /\ Forall (fun i => (i < length (rows b))%nat) keep /\
  b' = set_rows b (pick keep (rows b)) /\
  (forall r', r = Some r' -> idx <> [] -> r' = with_attrs b (pick ni (rows b))) /\
  (forall r', r = Some r' -> idx = [] -> r' = fresh []).
Proof.
  intros H Er. unfold remove_samples in H. rewrite Er in H. pose proof (idx_accepted_range _ _ Er) as Hrange.
  unfold remove_keep. cbn [fst snd].
  set (ni := if v_dedup v then dedup (map Z.to_nat idx) else map Z.to_nat idx) in *.
  set (keep := filter (fun i => negb (memn i ni)) (seq 0 (length (rows b)))) in *.
  assert (Hni : Forall (fun i => (i < length (rows b))%nat) ni).
  { assert (H0 : Forall (fun i => (i < length (rows b))%nat) (map Z.to_nat idx)).
    { rewrite Forall_map. eapply Forall_impl; [|exact Hrange]. intros z Hz. cbn beta in *. lia. }
    unfold ni. destruct (v_dedup v); [|exact H0]. rewrite Forall_forall in *. intros i Hi. apply H0. apply dedup_In. exact Hi. }
  assert (Hkeep : Forall (fun i => (i < length (rows b))%nat) keep).
  { unfold keep. rewrite Forall_forall. intros i Hi. apply filter_In in Hi. destruct Hi as [Hi _]. apply in_seq in Hi. lia. }
  split; [exact Hni|]. split; [exact Hkeep|].
  inversion H as [[Hd Hr]]. split; [reflexivity|]. split.
  - intros r' Er' Hne. destruct ni as [|i0 [|i1 nr]] eqn:En.
    + exfalso. destruct idx as [|z zs]; [contradiction|]. unfold ni in En. destruct (v_dedup v); discriminate.
    + inversion Er'. reflexivity.
    + destruct (self_scaling_ok v b); inversion Er'. reflexivity.
  - intros r' Er' He. subst idx. unfold ni in Er'. cbn in Er'. destruct (v_dedup v); cbn in Er'; inversion Er'; reflexivity.
Qed.

Lemma remove_rejected_unchanged v idx b b' r : remove_samples v idx b = (b', r) -> idx_rejected idx (length (rows b)) = true -> b' = b /\ r = None.
Proof. intros H Er. unfold remove_samples in H. rewrite Er in H. inversion H. split; reflexivity. Qed.

(* ------------------------------------------------------------------ the history theorem *)
Theorem tstep_tracked v st o : sop_adm v st o -> Forall Tracked st -> Forall Tracked (tstep v st o).
Proof.
  intros [Hok Hadm] Hst. destruct o as [h lo hi ov|h a ov|h a ov|h|h perm|h idx|h|h p|h|h idx|h h2|h|h p idx|h order]; cbn [tstep].
  - (* scale_range *)
    destruct (nth_error st h) as [[d R]|] eqn:E; [|exact Hst]. pose proof (Forall_nth_error _ _ _ _ Hst E) as T.
    destruct (scale_range_o true lo hi ov d) as [d' e] eqn:E1. apply Forall_upd; [exact Hst|]. exact (range_tracked _ _ _ _ _ _ _ T E1).
  - (* scale_factor *)
    destruct (nth_error st h) as [[d R]|] eqn:E; [|exact Hst]. pose proof (Forall_nth_error _ _ _ _ Hst E) as T.
    destruct (scale_factor_o true a ov d) as [d' e] eqn:E1. apply Forall_upd; [exact Hst|]. exact (factor_tracked _ _ _ _ _ _ T Hok E1).
  - (* shift_value *)
    destruct (nth_error st h) as [[d R]|] eqn:E; [|exact Hst]. pose proof (Forall_nth_error _ _ _ _ Hst E) as T.
    destruct (shift_value_o true a ov d) as [d' e] eqn:E1. apply Forall_upd; [exact Hst|]. exact (shift_tracked _ _ _ _ _ _ T E1).
  - (* revert_scaling *)
    destruct (nth_error st h) as [[d R]|] eqn:E; [|exact Hst]. pose proof (Forall_nth_error _ _ _ _ Hst E) as T.
    destruct (revert_o true d) as [d' e] eqn:E1. apply Forall_upd; [exact Hst|]. exact (revert_tracked _ _ _ _ T E1).
  - (* shuffle *)
    destruct (nth_error st h) as [[d R]|] eqn:E; [|exact Hst]. pose proof (Forall_nth_error _ _ _ _ Hst E) as T.
    unfold shuffle_o. destruct (shuffle_with perm (base d)) as [b' e] eqn:E1. apply Forall_upd; [exact Hst|]. destruct e.
    + apply shuffle_rejected_unmodified in E1. subst b'. apply (tracked_core d); [destruct d; apply core_eq_refl | exact T].
    + destruct (shuffle_form _ _ _ E1) as [Hr [Hp [Hd [Hs [Hf _]]]]].
      apply (move_tracked d R _ (pick perm) T); cbn [lift base soff]; try assumption; [|reflexivity | left; exact Hd].
      apply natural_pick. rewrite <- (tracked_len d R T). exact Hp.
  - (* move_boundaries_to_front *)
    destruct (nth_error st h) as [[d R]|] eqn:E; [|exact Hst]. pose proof (Forall_nth_error _ _ _ _ Hst E) as T.
    unfold mbf_o. destruct (move_boundaries_to_front idx (base d)) as [b' e] eqn:E1. apply Forall_upd; [exact Hst|]. destruct e.
    + unfold move_boundaries_to_front in E1. destruct (idx_valid idx (length (rows (base d)))); inversion E1; subst.
      apply (tracked_core d); [destruct d; apply core_eq_refl | exact T].
    + destruct (mbf_form _ _ _ E1) as [Eb Hvld]. subst b'.
      apply (move_tracked d R _ (swap_loop dflt_sample 0 idx) T); cbn [lift base soff set_rows rows scaled sfactor ddim]; try reflexivity;
        [|left; reflexivity].
      apply natural_swap_loop. rewrite <- (tracked_len d R T). exact Hvld.
  - (* split_labels *)
    destruct (nth_error st h) as [[d R]|] eqn:E; [|exact Hst]. pose proof (Forall_nth_error _ _ _ _ Hst E) as T.
    destruct (update_internal_raises (base d) && negb (is_empty (base d))); [exact Hst|].
    apply Forall_app. split; [exact Hst|]. unfold split_labels_o. rewrite split_labels_form, map_map, combine_map_same.
    rewrite Forall_map. rewrite Forall_forall. intros j _.
    apply (move_tracked d R _ (label_part j) T); cbn [lift base soff with_attrs rows scaled sfactor ddim]; try reflexivity;
      [apply natural_filter_label with (p := fun z => Z.eqb z j) | right; reflexivity].
  - (* split_pieces *)
    destruct (nth_error st h) as [[d R]|] eqn:E; [|exact Hst]. pose proof (Forall_nth_error _ _ _ _ Hst E) as T.
    destruct (update_internal_raises (base d)); [exact Hst|].
    unfold split_pieces_o. rewrite split_pieces_form. apply Forall_app. split; [exact Hst|].
    constructor; [|constructor; [|constructor]].
    + apply (move_tracked d R _ (firstn (split_index p (length (rows (base d))))) T); cbn [lift base soff with_attrs rows scaled sfactor ddim];
        try reflexivity; [apply natural_firstn | right; reflexivity].
    + apply (move_tracked d R _ (skipn (split_index p (length (rows (base d))))) T); cbn [lift base soff with_attrs rows scaled sfactor ddim];
        try reflexivity; [apply natural_skipn | right; reflexivity].
  - (* split_without_labels *)
    destruct (nth_error st h) as [[d R]|] eqn:E; [|exact Hst]. pose proof (Forall_nth_error _ _ _ _ Hst E) as T.
    destruct (update_internal_raises (base d)); [exact Hst|].
    unfold split_without_labels_o. rewrite split_without_labels_form. apply Forall_app. split; [exact Hst|].
    constructor; [|constructor; [|constructor]].
    + apply (move_tracked d R _ (label_part (-1)%Z) T); cbn [lift base soff with_attrs rows scaled sfactor ddim]; try reflexivity;
        [apply natural_filter_label with (p := fun z => Z.eqb z (-1)%Z) | right; reflexivity].
    + apply (move_tracked d R _ (filter (fun s => Z.leb 0 (snd s))) T); cbn [lift base soff with_attrs rows scaled sfactor ddim]; try reflexivity;
        [apply natural_filter_label with (p := fun z => Z.leb 0 z) | right; reflexivity].
  - (* remove_samples *)
    destruct (nth_error st h) as [[d R]|] eqn:E; [|exact Hst]. pose proof (Forall_nth_error _ _ _ _ Hst E) as T.
    unfold remove_samples_o. destruct (remove_samples (v_base v) idx (base d)) as [b' r] eqn:E1.
    destruct (remove_keep (v_base v) idx (length (rows (base d)))) as [ni keep] eqn:Ek.
    destruct (idx_rejected idx (length (rows (base d)))) eqn:Er.
    + destruct (remove_rejected_unchanged _ _ _ _ _ E1 Er) as [X Y]. subst b' r.
      apply Forall_upd; [exact Hst|]. apply (tracked_core d); [destruct d; apply core_eq_refl | exact T].
    + pose proof (remove_samples_explicit _ _ _ _ _ E1 Er) as X. rewrite Ek in X. cbn [fst snd] in X.
      destruct X as [Hni [Hkeep [Eb [Hr1 Hr2]]]]. pose proof (tracked_len d R T) as HL.
      assert (T' : Tracked (lift d b', pick keep R)).
      { subst b'. apply (move_tracked d R _ (pick keep) T); cbn [lift base soff set_rows rows scaled sfactor ddim]; try reflexivity;
          [apply natural_pick; rewrite <- HL; exact Hkeep | left; reflexivity]. }
      destruct r as [r'|]; [|apply Forall_upd; assumption].
      destruct idx as [|z zs].
      * apply Forall_app. split; [apply Forall_upd; assumption|]. constructor; [|constructor].
        apply (fresh_tracked []); [constructor | intro X; contradiction].
      * assert (Hne : z :: zs <> []) by discriminate. pose proof (Hr1 r' eq_refl Hne) as Er'. subst r'.
        assert (Tr : Tracked (lift d (with_attrs (base d) (pick ni (rows (base d)))), pick ni R)).
        { apply (move_tracked d R _ (pick ni) T); cbn [lift base soff with_attrs rows scaled sfactor ddim]; try reflexivity;
            [apply natural_pick; rewrite <- HL; exact Hni | right; reflexivity]. }
        match goal with |- context [if ?c then None else Some _] => destruct c end;
          [apply Forall_upd; assumption | apply Forall_app; split; [apply Forall_upd; assumption | constructor; [exact Tr | constructor]]].
  - (* concatenate *)
    destruct (nth_error st h) as [[d R]|] eqn:E; [|exact Hst]. destruct (nth_error st h2) as [[d2 R2]|] eqn:E2; [|exact Hst].
    pose proof (Forall_nth_error _ _ _ _ Hst E) as T. pose proof (Forall_nth_error _ _ _ _ Hst E2) as T2.
    destruct (concatenate_o v d d2) as [r| | |] eqn:Ec; try exact Hst.
    apply Forall_app. split; [exact Hst|]. constructor; [|constructor]. exact (concat_tracked v d d2 R R2 r Hadm T T2 Ec).
  - (* copy *)
    destruct (nth_error st h) as [[d R]|] eqn:E; [|exact Hst]. pose proof (Forall_nth_error _ _ _ _ Hst E) as T.
    apply Forall_app. split; [exact Hst|]. constructor; [exact T | constructor].
  - (* remove_labels *)
    destruct (nth_error st h) as [[d R]|] eqn:E; [|exact Hst]. pose proof (Forall_nth_error _ _ _ _ Hst E) as T.
    destruct (update_internal_raises (base d)); [exact Hst|]. apply Forall_upd; [exact Hst|].
    unfold remove_labels_o. rewrite remove_labels_form.
    apply (move_tracked d R _ (rl_rows idx) T); cbn [lift base soff set_rows_rebuilt rows scaled sfactor ddim]; try reflexivity;
      [apply natural_rl_rows | left; reflexivity].
  - (* split_one_vs_others: the store is not touched *)
    exact Hst.
Qed.

Fixpoint hist_adm (v : variant2) (st : list tds) (ops : list sop) : Prop :=
  match ops with [] => True | o :: r => sop_adm v st o /\ hist_adm v (tstep v st o) r end.

Theorem history_tracked v ops : forall st, hist_adm v st ops -> Forall Tracked st -> Forall Tracked (trun v st ops).
Proof.
  induction ops as [|o ops IH]; intros st Ha Hst; [exact Hst|].
  cbn [trun]. destruct Ha as [Ho Hr]. apply IH; [exact Hr | exact (tstep_tracked v st o Ho Hst)].
Qed.

(* with the second repair every history without zero factors is admissible *)
Lemma refusing_hist_adm v ops : v_refuse v = true -> Forall sop_ok ops -> forall st, hist_adm v st ops.
Proof.
  intros Hv Hops. induction Hops as [|o ops Ho _ IH]; intro st; [exact I|].
  cbn [hist_adm]. split; [|apply IH]. split; [exact Ho|].
  destruct o; try exact I. destruct (nth_error st h) as [[d R]|]; [|exact I]. destruct (nth_error st h2) as [[d2 R2]|]; [|exact I]. left. exact Hv.
Qed.

Theorem history_tracked_refusing v ops : v_refuse v = true -> Forall sop_ok ops -> forall st, Forall Tracked st -> Forall Tracked (trun v st ops).
Proof. intros Hv Hops st Hst. apply history_tracked; [apply refusing_hist_adm; assumption | exact Hst]. Qed.

(* the ghost reference lists never influence the data sets: two stores with the same data sets yield the same data sets *)
Lemma upd_map_fst {A B} h (t : A * B) st : map fst (upd h t st) = upd h (fst t) (map fst st).
Proof. revert h. induction st as [|x st IH]; intros [|h]; cbn [upd map]; try reflexivity. f_equal. apply IH. Qed.
Lemma nth_error_map_fst {A B} (st : list (A * B)) h : nth_error (map fst st) h = option_map fst (nth_error st h).
Proof. apply nth_error_map. Qed.
Lemma combine_map_fst {A B} (l : list A) (l' : list B) : length l = length l' -> map fst (combine l l') = l.
Proof. revert l'. induction l as [|x l IH]; intros [|y l'] H; cbn in *; try reflexivity; try discriminate. f_equal. apply IH. lia. Qed.

Theorem tstep_erasure v (st st' : list tds) o : map fst st = map fst st' -> map fst (tstep v st o) = map fst (tstep v st' o).
Proof.
  intro H.
  assert (G : forall h, option_map fst (@nth_error tds st h) = option_map fst (@nth_error tds st' h)).
  { intro h. pose proof (@nth_error_map_fst dso (list sample) st h) as X1. pose proof (@nth_error_map_fst dso (list sample) st' h) as X2.
    rewrite H in X1. rewrite X1 in X2. exact X2. }
  destruct o as [h lo hi ov|h a ov|h a ov|h|h perm|h idx|h|h p|h|h idx|h h2|h|h p idx|h order]; cbn [tstep];
    try (pose proof (G h) as Gh; destruct (nth_error st h) as [[d R]|]; destruct (nth_error st' h) as [[d' R']|]; cbn in Gh; try discriminate;
         [injection Gh as Gh; subst d'|exact H]).
  - destruct (scale_range_o true lo hi ov d) as [x e]. rewrite !upd_map_fst. f_equal. exact H.
  - destruct (scale_factor_o true a ov d) as [x e]. rewrite !upd_map_fst. f_equal. exact H.
  - destruct (shift_value_o true a ov d) as [x e]. rewrite !upd_map_fst. f_equal. exact H.
  - destruct (revert_o true d) as [x e]. rewrite !upd_map_fst. f_equal. exact H.
  - destruct (shuffle_o perm d) as [x e]. rewrite !upd_map_fst. f_equal. exact H.
  - destruct (mbf_o idx d) as [x e]. rewrite !upd_map_fst. f_equal. exact H.
  - destruct (update_internal_raises (base d) && negb (is_empty (base d))); [exact H|].
    rewrite !map_app. f_equal; [exact H|].
    transitivity (split_labels_o d); [apply combine_map_fst | symmetry; apply combine_map_fst];
      unfold split_labels_o, split_labels; rewrite !map_length; reflexivity.
  - destruct (update_internal_raises (base d)); [exact H|]. destruct (split_pieces_o p d) as [x y]. rewrite !map_app. f_equal. exact H.
  - destruct (update_internal_raises (base d)); [exact H|]. destruct (split_without_labels_o d) as [x y]. rewrite !map_app. f_equal. exact H.
  - destruct (remove_samples_o v idx d) as [x r]. destruct (remove_keep (v_base v) idx (length (rows (base d)))) as [ni keep].
    destruct r; [rewrite !map_app, !upd_map_fst; cbn [fst map]; f_equal; f_equal; exact H | rewrite !upd_map_fst; cbn [fst]; f_equal; exact H].
  - pose proof (G h2) as Gh2.
    destruct (nth_error st h2) as [[d2 R2]|]; destruct (nth_error st' h2) as [[d2' R2']|]; cbn in Gh2; try discriminate; [injection Gh2 as Gh2; subst d2'|exact H].
    destruct (concatenate_o v d d2); try exact H. rewrite !map_app. f_equal. exact H.
  - rewrite !map_app. f_equal. exact H.
  - destruct (update_internal_raises (base d)); [exact H|]. rewrite !upd_map_fst. f_equal. exact H.
  - exact H.
Qed.

(* ------------------------------------------------------------------ frame property: value semantics of the store
   The operations of the model are functions of VALUES: an operation writes at most the data set it is called on (the scaling
   methods, revert, shuffle, move_boundaries_to_front, remove_samples) and appends its results; every other data set of the store -
   whatever arrays it was built from or derived from - is left exactly as it was.  (The Python objects can violate this only through
   shared numpy arrays; the harness observes that as a difference to this model: oracles operation-changes-other-dataset and
   argument-mutated.) *)
Definition writes (o : sop) : option nat :=
  match o with
  | SRange h _ _ _ | SFactor h _ _ | SShift h _ _ | SRevert h | SShuffle h _ | SMbf h _ | SRemove h _ | SRemoveLabels h _ _ => Some h
  | _ => None
  end.

Lemma nth_error_upd_other {A} h k (t : A) st : k <> h -> nth_error (upd h t st) k = nth_error st k.
Proof.
  revert h k. induction st as [|x st IH]; intros [|h] [|k] H; cbn [upd nth_error]; try reflexivity; try contradiction.
  apply IH. intro E. apply H. f_equal. exact E.
Qed.

Theorem tstep_frame v (st : list tds) o k : (k < length st)%nat -> writes o <> Some k -> nth_error (tstep v st o) k = nth_error st k.
Proof.
  intros Hk Hw.
  assert (Happ : forall ext : list tds, nth_error (st ++ ext) k = nth_error st k) by (intro ext; apply nth_error_app1; exact Hk).
  destruct o as [h lo hi ov|h a ov|h a ov|h|h perm|h idx|h|h p|h|h idx|h h2|h|h p idx|h order]; cbn [tstep writes] in *;
    try (assert (Hne : k <> h) by (intro E; apply Hw; f_equal; symmetry; exact E));
    destruct (nth_error st h) as [[d R]|]; try reflexivity.
  - destruct (scale_range_o true lo hi ov d) as [d' e]. apply nth_error_upd_other. exact Hne.
  - destruct (scale_factor_o true a ov d) as [d' e]. apply nth_error_upd_other. exact Hne.
  - destruct (shift_value_o true a ov d) as [d' e]. apply nth_error_upd_other. exact Hne.
  - destruct (revert_o true d) as [d' e]. apply nth_error_upd_other. exact Hne.
  - destruct (shuffle_o perm d) as [d' e]. apply nth_error_upd_other. exact Hne.
  - destruct (mbf_o idx d) as [d' e]. apply nth_error_upd_other. exact Hne.
  - destruct (update_internal_raises (base d) && negb (is_empty (base d))); [reflexivity | apply Happ].
  - destruct (update_internal_raises (base d)); [reflexivity|]. destruct (split_pieces_o p d) as [x y]. apply Happ.
  - destruct (update_internal_raises (base d)); [reflexivity|]. destruct (split_without_labels_o d) as [x y]. apply Happ.
  - destruct (remove_samples_o v idx d) as [d' r]. destruct (remove_keep (v_base v) idx (length (rows (base d)))) as [ni keep].
    destruct r as [r'|]; [|apply nth_error_upd_other; exact Hne].
    rewrite nth_error_app1 by (rewrite upd_length; exact Hk). apply nth_error_upd_other. exact Hne.
  - destruct (nth_error st h2) as [[d2 R2]|]; [|reflexivity]. destruct (concatenate_o v d d2); try reflexivity. apply Happ.
  - apply Happ.
  - destruct (update_internal_raises (base d)); [reflexivity|]. apply nth_error_upd_other. exact Hne.
Qed.


(* ------------------------------------------------------------------ tstep IS the store machine of the wire entry point
   Model/DataSetStore.v: sstep is what Entry/C18.v executes on the decoded wire operations (repaired variant: v_offset = true);
   tstep is sstep plus the ghost reference lists. *)
Theorem tstep_is_sstep v (gst : list tds) o : v_offset v = true -> map fst (tstep v gst o) = sstep v (map fst gst) o.
Proof.
  intro Hvo. unfold sstep.
  assert (G : forall h, nth_error (map fst gst) h = option_map fst (@nth_error tds gst h)) by (intro h; apply nth_error_map).
  destruct o as [h lo hi ov|h a ov|h a ov|h|h perm|h idx|h|h p|h|h idx|h h2|h|h p idx|h order]; cbn [tstep sstep_res]; rewrite ?Hvo, G;
    destruct (nth_error gst h) as [[d R]|]; cbn [option_map fst]; try reflexivity.
  - unfold upd_state. destruct (scale_range_o true lo hi ov d) as [d' e]. cbn [fst]. apply upd_map_fst.
  - unfold upd_state. destruct (scale_factor_o true a ov d) as [d' e]. cbn [fst]. apply upd_map_fst.
  - unfold upd_state. destruct (shift_value_o true a ov d) as [d' e]. cbn [fst]. apply upd_map_fst.
  - unfold upd_state. destruct (revert_o true d) as [d' e]. cbn [fst]. apply upd_map_fst.
  - unfold upd_state. destruct (shuffle_o perm d) as [d' e]. cbn [fst]. apply upd_map_fst.
  - unfold upd_state. destruct (mbf_o idx d) as [d' e]. cbn [fst]. apply upd_map_fst.
  - destruct (update_internal_raises (base d) && negb (is_empty (base d))); [reflexivity|]. cbn [fst]. rewrite map_app. f_equal.
    apply combine_map_fst. unfold split_labels_o, split_labels. rewrite !map_length. reflexivity.
  - destruct (update_internal_raises (base d)); [reflexivity|]. destruct (split_pieces_o p d) as [x y]. cbn [fst]. rewrite map_app. reflexivity.
  - destruct (update_internal_raises (base d)); [reflexivity|]. destruct (split_without_labels_o d) as [x y]. cbn [fst]. rewrite map_app. reflexivity.
  - destruct (remove_samples_o v idx d) as [d' r]. destruct (remove_keep (v_base v) idx (length (rows (base d)))) as [ni keep]. cbn [fst].
    destruct r; [rewrite map_app, upd_map_fst; reflexivity | apply upd_map_fst].
  - rewrite G. destruct (nth_error gst h2) as [[d2 R2]|]; cbn [option_map fst]; [|reflexivity].
    destruct (concatenate_o v d d2); cbn [fst]; try reflexivity. rewrite map_app. reflexivity.
  - rewrite map_app. reflexivity.
  - destruct (update_internal_raises (base d)); [reflexivity|]. cbn [fst]. apply upd_map_fst.
  - destruct (update_internal_raises (base d) && negb (is_empty (base d))); reflexivity.
Qed.

Corollary trun_is_srun v ops : v_offset v = true -> forall gst : list tds, map fst (trun v gst ops) = srun v (map fst gst) ops.
Proof.
  intro Hvo. induction ops as [|o ops IH]; intro gst; [reflexivity|]. cbn [trun srun]. rewrite IH, (tstep_is_sstep v gst o Hvo). reflexivity.
Qed.
