(* The inclusion-exclusion identity of get_coefficients_to_index_set, for every finite index set. *)
From Coq Require Import ZArith List Bool Lia.
From SG Require Import Model.CombiScheme Proofs.SchemeBasics.
Import ListNotations.
Open Scope Z_scope.
Local Arguments Z.add : simpl never.
Local Arguments Z.mul : simpl never.
Local Arguments Z.opp : simpl never.
Local Arguments Z.sub : simpl never.
Local Arguments Z.leb : simpl never.
Local Arguments Z.eqb : simpl never.

Definition b2z (b : bool) : Z := if b then 1 else 0.
Definition sg (t : Z) : Z := if Z.even t then 1 else -1.

(* weighted sum over (key, value) lists *)
Definition wsum (l : lv) (cs : list (lv * Z)) : Z :=
  sumZ (map (fun kv => if lv_geb (fst kv) l then snd kv else 0) cs).

Lemma dominating_sum_wsum cs l : dominating_sum cs l = wsum l cs.
Proof. reflexivity. Qed.

Lemma wsum_app l a b : wsum l (a ++ b) = wsum l a + wsum l b.
Proof. unfold wsum. rewrite map_app. apply sumZ_app. Qed.

Lemma wsum_cons l k v r : wsum l ((k, v) :: r) = (if lv_geb k l then v else 0) + wsum l r.
Proof. reflexivity. Qed.

Lemma wsum_dict_add l k v dct : wsum l (dict_add k v dct) = wsum l dct + (if lv_geb k l then v else 0).
Proof.
  induction dct as [|[k' v'] r IH]; simpl.
  - unfold wsum; simpl. lia.
  - destruct (lv_eqb k k') eqn:E.
    + apply lv_eqb_eq in E. subst k'. rewrite !wsum_cons. simpl. destruct (lv_geb k l); lia.
    + rewrite !wsum_cons. rewrite IH. simpl. lia.
Qed.

Lemma wsum_accumulate_gen l cs acc :
  wsum l (fold_left (fun dct kv => dict_add (fst kv) (snd kv) dct) cs acc) = wsum l acc + wsum l cs.
Proof.
  revert acc. induction cs as [|[k v] cs IH]; intro acc; simpl.
  - unfold wsum at 3; simpl. lia.
  - rewrite IH. rewrite wsum_dict_add. rewrite wsum_cons. simpl. lia.
Qed.

Lemma wsum_accumulate l cs : wsum l (accumulate cs) = wsum l cs.
Proof. unfold accumulate. rewrite wsum_accumulate_gen. unfold wsum at 1; simpl. lia. Qed.

Lemma wsum_filter_nonzero l dct : wsum l (filter (fun kv => negb (snd kv =? 0)) dct) = wsum l dct.
Proof.
  induction dct as [|[k v] r IH]; simpl; [reflexivity|].
  destruct (v =? 0) eqn:E; simpl.
  - apply Z.eqb_eq in E. subst. rewrite wsum_cons. simpl. rewrite IH. destruct (lv_geb k l); lia.
  - rewrite !wsum_cons. rewrite IH. reflexivity.
Qed.

Lemma wsum_flat_map {A} l (f : A -> list (lv * Z)) xs :
  wsum l (flat_map f xs) = sumZ (map (fun x => wsum l (f x)) xs).
Proof.
  induction xs as [|x xs IH]; simpl; [reflexivity|].
  rewrite wsum_app. rewrite IH. reflexivity.
Qed.

(* sign function of a stencil element *)
Lemma update_coefficient_sg s : sumZ s <= 0 -> update_coefficient s = sg (sumZ s).
Proof.
  intro H. unfold update_coefficient, sg.
  destruct (Z.even (sumZ s)) eqn:E.
  - apply Z.even_spec in E. destruct E as [k Hk]. rewrite Hk in *.
    replace (Z.abs (2 * k)) with (2 * (-k)) by lia.
    replace (Z.abs (2 * k - 1)) with (1 + (-k) * 2) by lia.
    rewrite Z.mul_comm, Z.mod_mul by lia. rewrite Z.mod_add by lia. reflexivity.
  - assert (Z.odd (sumZ s) = true) as O by (rewrite <- Z.negb_even, E; reflexivity).
    apply Z.odd_spec in O. destruct O as [k Hk]. rewrite Hk in *.
    replace (Z.abs (2 * k + 1)) with (1 + (-k - 1) * 2) by lia.
    replace (Z.abs (2 * k + 1 - 1)) with ((-k) * 2) by lia.
    rewrite Z.mod_add by lia. rewrite Z.mod_mul by lia. reflexivity.
Qed.

Lemma cross_stencil_sum_nonpos lmin g s : In s (cross (stencil_of lmin g)) -> sumZ s <= 0.
Proof.
  revert s. induction g as [|x g IH]; simpl; intros s H.
  - destruct H as [<-|[]]. simpl. lia.
  - apply in_flat_map in H. destruct H as [a [Ha H]]. apply in_map_iff in H. destruct H as [s' [<- Hs']].
    apply IH in Hs'. change (sumZ (a :: s')) with (a + sumZ s').
    destruct (x <=? lmin); simpl in Ha.
    + destruct Ha as [<-|[]]. lia.
    + destruct Ha as [<-|[<-|[]]]; lia.
Qed.

Lemma sg_pred t : sg (t + -1) = - sg t.
Proof.
  unfold sg. replace (t + -1) with (t - 1) by lia. rewrite Z.even_sub. simpl.
  destruct (Z.even t); reflexivity.
Qed.

(* the per-grid core: the signed stencil sum of [g + s >= l] is [g = l] *)
Definition term (g l s : lv) (p : Z) : Z := b2z (lv_geb (lv_add g s) l) * sg (p + sumZ s).

Lemma row_sum x y a g l p ss :
  sumZ (map (fun s => term (x :: g) (y :: l) s p) (map (cons a) ss))
  = b2z (y <=? x + a) * sumZ (map (fun s => term g l s (p + a)) ss).
Proof.
  induction ss as [|s ss IHs]; simpl.
  - unfold sumZ; simpl. lia.
  - change (sumZ (?h :: ?t)) with (h + sumZ t). 
    change (sumZ (term (x :: g) (y :: l) (a :: s) p :: map (fun s => term (x :: g) (y :: l) s p) (map (cons a) ss)))
      with (term (x :: g) (y :: l) (a :: s) p + sumZ (map (fun s => term (x :: g) (y :: l) s p) (map (cons a) ss))).
    change (sumZ (term g l s (p + a) :: map (fun s => term g l s (p + a)) ss))
      with (term g l s (p + a) + sumZ (map (fun s => term g l s (p + a)) ss)).
    rewrite IHs. unfold term. simpl lv_add. simpl lv_geb.
    change (sumZ (a :: s)) with (a + sumZ s).
    replace (p + (a + sumZ s)) with (p + a + sumZ s) by lia.
    unfold b2z. destruct (y <=? x + a); simpl; destruct (lv_geb (lv_add g s) l); lia.
Qed.

Lemma stencil_core lmin : forall g l p,
  length g = length l -> Forall (fun x => lmin <= x) g -> Forall (fun x => lmin <= x) l ->
  sumZ (map (fun s => term g l s p) (cross (stencil_of lmin g))) = sg p * b2z (lv_eqb g l).
Proof.
  induction g as [|x g IH]; intros [|y l] p Hlen Hg Hl; simpl in Hlen; try discriminate.
  - simpl. unfold term. simpl. unfold sumZ; simpl. rewrite !Z.add_0_r. unfold b2z. lia.
  - inversion Hg as [|? ? Hx Hg']; subst. inversion Hl as [|? ? Hy Hl']; subst.
    injection Hlen as Hlen.
    assert (forall a, sumZ (map (fun s => term (x :: g) (y :: l) s p) (map (cons a) (cross (stencil_of lmin g))))
                      = b2z (y <=? x + a) * (sg (p + a) * b2z (lv_eqb g l))) as Hrow.
    { intro a. rewrite row_sum. rewrite (IH l (p + a) Hlen Hg' Hl'). reflexivity. }
    simpl stencil_of. destruct (x <=? lmin) eqn:E; simpl cross.
    + rewrite app_nil_r. rewrite Hrow. rewrite !Z.add_0_r.
      apply Z.leb_le in E. simpl lv_eqb.
      destruct (Z.leb_spec y x), (Z.eqb_spec x y); unfold b2z; simpl; try lia; destruct (lv_eqb g l); lia.
    + rewrite app_nil_r. rewrite map_app, sumZ_app. rewrite !Hrow. rewrite !Z.add_0_r. rewrite sg_pred.
      apply Z.leb_gt in E. simpl lv_eqb.
      destruct (Z.leb_spec y x), (Z.leb_spec y (x + -1)), (Z.eqb_spec x y); unfold b2z; simpl; try lia;
        destruct (lv_eqb g l); lia.
Qed.

Lemma contributions_wsum lmin g l :
  length g = length l -> Forall (fun x => lmin <= x) g -> Forall (fun x => lmin <= x) l ->
  wsum l (map (fun s => (lv_add g s, update_coefficient s)) (cross (stencil_of lmin g))) = b2z (lv_eqb g l).
Proof.
  intros Hlen Hg Hl.
  pose proof (stencil_core lmin g l 0 Hlen Hg Hl) as H. change (sg 0) with 1 in H.
  rewrite Z.mul_1_l in H. rewrite <- H. clear H.
  unfold wsum. rewrite map_map. f_equal. apply map_ext_in. intros s Hs. simpl.
  rewrite update_coefficient_sg by (eapply cross_stencil_sum_nonpos; eassumption).
  unfold term. simpl. unfold b2z. rewrite Z.add_0_l. destruct (lv_geb (lv_add g s) l); lia.
Qed.

Lemma count_eq_NoDup idx l : NoDup idx -> sumZ (map (fun g => b2z (lv_eqb g l)) idx) = b2z (mem l idx).
Proof.
  induction idx as [|g idx IH]; intro H; simpl; [reflexivity|].
  inversion H; subst. unfold sumZ in *. simpl. rewrite IH by assumption.
  unfold mem. simpl. destruct (lv_eqb g l) eqn:E.
  - apply lv_eqb_eq in E. subst g. rewrite lv_eqb_refl. simpl.
    destruct (existsb (lv_eqb l) idx) eqn:E2; [|reflexivity].
    change (mem l idx = true) in E2. apply mem_In in E2. contradiction.
  - assert (lv_eqb l g = false) as E'.
    { apply lv_eqb_neq. apply lv_eqb_neq in E. congruence. }
    rewrite E'. simpl. reflexivity.
Qed.

(* IE: holds for every duplicate-free finite index set; downward closure is not needed *)
Theorem coeffs_inclusion_exclusion_gen lmin idx l :
  NoDup idx ->
  (forall g, In g idx -> length g = length l /\ Forall (fun x => lmin <= x) g) ->
  Forall (fun x => lmin <= x) l ->
  dominating_sum (coefficients lmin idx) l = if mem l idx then 1 else 0.
Proof.
  intros Hnd Hidx Hl. rewrite dominating_sum_wsum. unfold coefficients.
  rewrite wsum_filter_nonzero, wsum_accumulate. unfold contributions. rewrite wsum_flat_map.
  change (if mem l idx then 1 else 0) with (b2z (mem l idx)).
  rewrite <- count_eq_NoDup by assumption. f_equal. apply map_ext_in. intros g Hg.
  destruct (Hidx g Hg) as [H1 H2]. apply contributions_wsum; assumption.
Qed.

(* keys of the result come from contributions *)
Lemma dict_add_keys k v dct x : In x (map fst (dict_add k v dct)) -> x = k \/ In x (map fst dct).
Proof.
  induction dct as [|[k' v'] r IH]; simpl.
  - intros [H|[]]; auto.
  - destruct (lv_eqb k k') eqn:E; simpl.
    + intros [H|H]; auto.
    + intros [H|H]; auto. apply IH in H. destruct H; auto.
Qed.

Lemma accumulate_keys_gen cs acc x :
  In x (map fst (fold_left (fun dct kv => dict_add (fst kv) (snd kv) dct) cs acc)) ->
  In x (map fst acc) \/ In x (map fst cs).
Proof.
  revert acc. induction cs as [|[k v] cs IH]; intro acc; simpl; [auto|].
  intro H. apply IH in H. destruct H as [H|H]; [|auto].
  apply dict_add_keys in H. simpl in H. destruct H as [->|H]; auto.
Qed.

Lemma coefficients_keys lmin idx k c :
  In (k, c) (coefficients lmin idx) -> exists g s, In g idx /\ In s (cross (stencil_of lmin g)) /\ k = lv_add g s.
Proof.
  unfold coefficients. intro H. apply filter_In in H. destruct H as [H _].
  assert (In k (map fst (accumulate (contributions lmin idx)))) as Hk.
  { apply in_map_iff. exists (k, c). auto. }
  unfold accumulate in Hk. apply accumulate_keys_gen in Hk. destruct Hk as [[]|Hk].
  apply in_map_iff in Hk. destruct Hk as [[k' c'] [E Hk]]. simpl in E. subst k'.
  unfold contributions in Hk. apply in_flat_map in Hk. destruct Hk as [g [Hg Hk]].
  apply in_map_iff in Hk. destruct Hk as [s [E Hs]]. inversion E; subst.
  exists g, s. auto.
Qed.

Lemma coefficients_nonzero lmin idx k c : In (k, c) (coefficients lmin idx) -> c <> 0.
Proof.
  unfold coefficients. intro H. apply filter_In in H. destruct H as [_ H]. simpl in H.
  apply negb_true_iff in H. apply Z.eqb_neq in H. assumption.
Qed.

(* backward-neighbour closure above lmin *)
Definition bclosed (lmin : Z) (I : list lv) : Prop :=
  forall k d, In k I -> (d < length k)%nat -> lmin <= nth d k 0 - 1 -> In (bump d (-1) k) I.

Lemma stencil_in_closed lmin I : bclosed lmin I ->
  forall g pre s, In (pre ++ g) I -> In s (cross (stencil_of lmin g)) -> In (pre ++ lv_add g s) I.
Proof.
  intro Hc. induction g as [|x g IH]; intros pre s HI Hs; simpl in Hs.
  - destruct Hs as [<-|[]]. simpl. assumption.
  - apply in_flat_map in Hs. destruct Hs as [a [Ha Hs]]. apply in_map_iff in Hs. destruct Hs as [s' [<- Hs']].
    simpl. destruct (x <=? lmin) eqn:E; simpl in Ha.
    + destruct Ha as [<-|[]]. rewrite Z.add_0_r.
      change (pre ++ x :: lv_add g s') with (pre ++ [x] ++ lv_add g s'). rewrite app_assoc.
      apply IH; [|assumption]. rewrite <- app_assoc. assumption.
    + apply Z.leb_gt in E. destruct Ha as [<-|[<-|[]]].
      * rewrite Z.add_0_r.
        change (pre ++ x :: lv_add g s') with (pre ++ [x] ++ lv_add g s'). rewrite app_assoc.
        apply IH; [|assumption]. rewrite <- app_assoc. assumption.
      * change (pre ++ (x + -1) :: lv_add g s') with (pre ++ [x + -1] ++ lv_add g s'). rewrite app_assoc.
        apply IH; [|assumption]. rewrite <- app_assoc. simpl.
        rewrite <- bump_app. apply Hc; [assumption| |].
        -- rewrite app_length. simpl. lia.
        -- rewrite app_nth2 by lia. rewrite Nat.sub_diag. simpl. lia.
Qed.

Theorem coeffs_support_gen lmin idx k c :
  bclosed lmin idx -> In (k, c) (coefficients lmin idx) -> In k idx.
Proof.
  intros Hc H. apply coefficients_keys in H. destruct H as [g [s [Hg [Hs ->]]]].
  apply (stencil_in_closed lmin idx Hc g [] s); assumption.
Qed.

(* total: every returned grid dominates the lmin vector *)
Lemma lv_geb_repeat lmin k : Forall (fun x => lmin <= x) k -> lv_geb k (repeat lmin (length k)) = true.
Proof.
  induction k as [|x k IH]; intro H; simpl; [reflexivity|].
  inversion H; subst. apply andb_true_iff. split; [apply Z.leb_le; assumption | apply IH; assumption].
Qed.

Lemma lv_add_length g s : length s = length g -> length (lv_add g s) = length g.
Proof. revert s; induction g as [|x g IH]; intros [|a s]; simpl; intro H; try discriminate; auto. Qed.

Lemma cross_stencil_props lmin g s : In s (cross (stencil_of lmin g)) -> Forall (fun x => lmin <= x) g ->
  length s = length g /\ Forall (fun x => lmin <= x) (lv_add g s).
Proof.
  revert s. induction g as [|x g IH]; simpl; intros s H HF.
  - destruct H as [<-|[]]. split; [reflexivity|constructor].
  - inversion HF; subst. apply in_flat_map in H. destruct H as [a [Ha H]]. apply in_map_iff in H.
    destruct H as [s' [<- Hs']]. destruct (IH s' Hs') as [L F]; [assumption|]. simpl. split; [congruence|].
    constructor; [|assumption].
    destruct (x <=? lmin) eqn:E; simpl in Ha.
    + destruct Ha as [<-|[]]. lia.
    + apply Z.leb_gt in E. destruct Ha as [<-|[<-|[]]]; lia.
Qed.

Theorem coeffs_total_one_gen lmin idx d :
  NoDup idx -> (forall g, In g idx -> length g = d /\ Forall (fun x => lmin <= x) g) ->
  In (repeat lmin d) idx ->
  sumZ (map snd (coefficients lmin idx)) = 1.
Proof.
  intros Hnd Hidx Hin.
  pose proof (coeffs_inclusion_exclusion_gen lmin idx (repeat lmin d) Hnd) as H.
  rewrite repeat_length in H. specialize (H Hidx).
  assert (Forall (fun x => lmin <= x) (repeat lmin d)) as HF.
  { clear. induction d; simpl; constructor; [lia|assumption]. }
  specialize (H HF). apply mem_In in Hin. rewrite Hin in H. rewrite <- H.
  unfold dominating_sum. f_equal. apply map_ext_in. intros [k c] Hk. simpl.
  apply coefficients_keys in Hk. destruct Hk as [g [s [Hg [Hs ->]]]].
  destruct (Hidx g Hg) as [Hl HFg]. destruct (cross_stencil_props lmin g s Hs HFg) as [Ls Fs].
  pose proof (lv_geb_repeat lmin (lv_add g s) Fs) as G. rewrite lv_add_length in G by assumption.
  rewrite Hl in G. rewrite G. reflexivity.
Qed.
