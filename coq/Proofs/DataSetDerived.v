(* C18 (deepening round) — user-level consequences.
   (1) code as found: revert_scaling on ANY data set derived (by a natural sample-moving operation g) from a set that went through a
       first/overriding scaling and any non-overriding history: the result is the derived reference list shifted by
       (column minimum of the whole original set - column minimum of the derived part); exact iff those minima agree.
   (2) remove_labels keeps the multiset of samples and the scaling attributes. *)
From Coq Require Import ZArith List QArith Qcanon Bool Lia Arith Permutation.
From SG Require Import Base.QcUtil Model.DataSet Model.DataSetOff Proofs.DataSetVec Proofs.DataSetScale Proofs.DataSetRevert
  Proofs.DataSetMove Proofs.DataSetTrack.
Import ListNotations.
Open Scope Qc_scope.

Lemma history_inv d0 ov o1 ops : wf d0 -> scaled d0 = false \/ ov = true ->
  op_ok (ddim d0) o1 -> Forall (op_ok (ddim d0)) ops ->
  exists d1 d2 fv cv, apply_op ov o1 d0 = (d1, false) /\ apply_ops ops d1 = (d2, false) /\ Inv (ddim d0) d2 (rows d0) fv cv.
Proof.
  intros Hwf Hov Ho Hops.
  assert (Hov' : negb (scaled d0) || ov = true) by (destruct Hov as [-> | ->]; [reflexivity | apply orb_true_r]).
  assert (S1 : exists d1 fv cv, apply_op ov o1 d0 = (d1, false) /\ Inv (ddim d0) d1 (rows d0) fv cv).
  { destruct o1 as [lo hi|a|a]; simpl in Ho |- *.
    - destruct (first_range d0 lo hi ov Hwf Hov' Ho) as [d1 [sc [mi [E I]]]]. eauto.
    - destruct Ho as [Ha Hz]. destruct (first_factor d0 a ov Hwf Hov' Ha Hz) as [d1 [E I]]. eauto.
    - destruct (first_shift d0 a ov Hwf Hov' Ho) as [d1 [E I]]. eauto. }
  destruct S1 as [d1 [fv [cv [E1 I1]]]].
  destruct (ops_preserve_inv _ ops Hops d1 _ fv cv I1) as [d2 [fv2 [cv2 [E2 I2]]]].
  exists d1, d2, fv2, cv2. auto.
Qed.

Theorem revert_on_derived d0 ov o1 ops g : wf d0 -> scaled d0 = false \/ ov = true ->
  op_ok (ddim d0) o1 -> Forall (op_ok (ddim d0)) ops ->
  natural_on (length (rows d0)) g -> g (rows d0) <> [] ->
  exists d1 d2 p' m0 mR,
    apply_op ov o1 d0 = (d1, false) /\ apply_ops ops d1 = (d2, false) /\
    data_min (values d0) = Some m0 /\ data_min (map fst (g (rows d0))) = Some mR /\
    revert_scaling (with_attrs d2 (g (rows d2))) = (p', false) /\
    rows p' = map_rows (fun r => vadd r (vsub m0 mR)) (g (rows d0)) /\ cleared p' /\
    (rows p' = g (rows d0) <-> m0 = mR).
Proof.
  intros Hwf Hov Ho Hops N Hne.
  destruct (history_inv d0 ov o1 ops Hwf Hov Ho Hops) as [d1 [d2 [fv [cv [E1 [E2 I]]]]]].
  pose proof (inv_invb _ _ _ _ _ I) as IB.
  pose proof (invb_with_attrs _ _ _ _ _ g IB N Hne) as IP.
  destruct (data_min (values d0)) as [m0|] eqn:Em0.
  2:{ exfalso. destruct Hwf as [Hn _]. unfold values in Em0. destruct (rows d0); [contradiction | discriminate]. }
  destruct (data_min (map fst (g (rows d0)))) as [mR|] eqn:EmR.
  2:{ exfalso. destruct (g (rows d0)); [contradiction | discriminate]. }
  assert (Hom : omin (with_attrs d2 (g (rows d2))) = Some m0) by (cbn [with_attrs omin]; rewrite (inv_omin _ _ _ _ _ I); exact Em0).
  assert (Lm0 : length m0 = ddim d0).
  { apply (data_min_len (ddim d0) (values d0)); [destruct Hwf as [Hn _]; unfold values; destruct (rows d0); [contradiction | discriminate] | | exact Em0].
    apply wf_values_len. exact Hwf. }
  destruct (revert_under_invb _ _ _ _ _ m0 mR IP Hne Hom Lm0 EmR) as [p' [Ep [Rp Cp]]].
  destruct (revert_invb_restores_iff _ _ _ _ _ m0 mR IP Hne Hom Lm0 EmR) as [p'' [Ep' [_ Iff]]].
  rewrite Ep in Ep'. inversion Ep'; subst p''.
  exists d1, d2, p', m0, mR. repeat (split; [assumption || reflexivity|]). exact Iff.
Qed.

(* ------------------------------------------------------------------ remove_labels *)
Lemma relabel_at_fst idx l : map fst (relabel_at idx l) = map fst l.
Proof.
  unfold relabel_at. generalize 0%nat. induction l as [|x l IH]; intro k; [reflexivity|].
  cbn [length seq combine map fst snd]. f_equal; [destruct (memn k idx); reflexivity | apply IH].
Qed.

Theorem remove_labels_keeps_samples p idx d : Forall (fun s => (-1 <= snd s)%Z) (rows d) ->
  Permutation (map fst (rows (remove_labels p idx d))) (map fst (rows d)) /\ attrs (remove_labels p idx d) = attrs d /\
  ddim (remove_labels p idx d) = ddim d.
Proof.
  intro Hl. unfold remove_labels.
  destruct (split_without_labels d) as [ll lf] eqn:E.
  destruct (split_without_labels_cover d ll lf E Hl) as [P _].
  split; [|split; reflexivity]. cbn [set_rows_rebuilt rows].
  apply (Permutation_map fst) in P. rewrite map_app in P.
  destruct (rows ll) as [|s1 r1] eqn:E1.
  - rewrite relabel_at_fst. exact P.
  - destruct (rows lf) as [|s2 r2] eqn:E2.
    + rewrite app_nil_r in P. exact P.
    + rewrite map_app, relabel_at_fst. eapply Permutation_trans; [apply Permutation_app_comm | exact P].
Qed.
