(* C04 / extend-split: the monomial moments of the live areas of the container add up to the moment of the domain in EVERY
   reachable state of EVERY history (any decisions, benefits, options) - the induction of Proofs/ESInv.v repeated with the
   predicate MA next to Parts (C07's files are untouched; their lemmas are used for the Parts part of the invariant). *)
From Coq Require Import ZArith List Bool QArith Qcanon Lia.
From SG Require Import Base.QcUtil Model.CombiScheme Model.ExtendSplit Model.ESExact Proofs.ESGeom Proofs.ESInv Proofs.ESExact.
Import ListNotations.
Open Scope Z_scope.
Local Arguments Z.add : simpl never.
Local Arguments Z.sub : simpl never.

Definition bm (ex : list nat) (h : box) : Qc := bmom (fst h) (snd h) ex.
Definition MA (ex : list nat) (b : box) (P : list box) : Prop := sumQ (map (bm ex) P) = bm ex b.

Lemma sumQ_app_bm ex l1 l2 : sumQ (map (bm ex) (l1 ++ l2)) = (sumQ (map (bm ex) l1) + sumQ (map (bm ex) l2))%Qc.
Proof. induction l1 as [|x l1 IH]; simpl; [ring | rewrite IH; ring]. Qed.

Lemma ma_self ex b : MA ex b [b].
Proof. unfold MA. simpl. ring. Qed.

Lemma ma_flat_map ex b P f : MA ex b P -> (forall q, In q P -> MA ex q (f q)) -> MA ex b (flat_map f P).
Proof.
  unfold MA. intros H Hf. rewrite <- H. clear H. induction P as [|q P IH]; [reflexivity|].
  cbn [flat_map map sumQ]. rewrite sumQ_app_bm. rewrite (Hf q (or_introl eq_refl)). rewrite IH; [reflexivity|].
  intros q' Hq'. apply Hf. right. exact Hq'.
Qed.

Lemma ma_replace ex b B1 x B2 P : MA ex b (B1 ++ x :: B2) -> MA ex x P -> MA ex b (B1 ++ B2 ++ P).
Proof.
  unfold MA. intros H HP. rewrite <- H. rewrite !sumQ_app_bm. cbn [map sumQ]. rewrite HP. ring.
Qed.

Lemma ma_halves ex d k b : Wf d b -> (k < d)%nat -> length ex = d -> MA ex b (halves k b).
Proof.
  intros [W L] Hk Lx. unfold MA, bm. apply moments_halves; [lia | symmetry; apply wfbox_length; exact W | lia].
Qed.

Lemma ma_split_all ex s e : wfbox s e -> length ex = length s -> MA ex (s, e) (split_all s e).
Proof.
  intros W Lx. unfold MA, bm. cbn [fst snd]. apply moments_split_all; [symmetry; apply wfbox_length; exact W | exact Lx].
Qed.

Lemma ma_split_dims ex d dims b l :
  Forall (fun k => (k < d)%nat) dims -> length ex = d -> Parts d b (map abox l) -> MA ex b (map abox l) ->
  MA ex b (map abox (fold_left (fun objs k => flat_map (split_area_single_dim k) objs) dims l)).
Proof.
  revert l. induction dims as [|k dims IH]; intros l Hd Lx HP HM; simpl; [assumption|].
  inversion Hd; subst.
  assert (HP' : Parts (length ex) b (map abox (flat_map (split_area_single_dim k) l))).
  { rewrite split_single_boxes. apply parts_flat_map; [assumption|]. intros q Hq. apply parts_halves; [|assumption].
    pose proof (pt_wf _ _ _ HP) as W. rewrite Forall_forall in W. apply W. assumption. }
  apply IH; [assumption | reflexivity | exact HP'|].
  rewrite split_single_boxes. apply ma_flat_map; [assumption|]. intros q Hq. apply (ma_halves ex (length ex)); [|assumption | reflexivity].
  pose proof (pt_wf _ _ _ HP) as W. rewrite Forall_forall in W. apply W. assumption.
Qed.

(* the moments part of the invariant *)
Definition MInv (ex : list nat) (st : state) : Prop :=
  length ex = st_dim st /\ MA ex (st_a st, st_b st) (lboxes (st_objs st)).

Lemma refine_area_ma ex st x dec news ch inc :
  refine_area st x dec = (news, ch, inc) -> Wf (st_dim st) (abox x) -> length ex = st_dim st ->
  MA ex (abox x) (map abox news).
Proof.
  unfold refine_area. intros E W Lx.
  destruct (decide (st_auto st) (fst dec) x).
  - injection E as E1 E2 E3. subst news. simpl. apply ma_self.
  - destruct (st_single st).
    + injection E as E1 E2 E3. subst news. unfold split_dims.
      apply (ma_split_dims ex (st_dim st)); [apply filter_lt_Forall | exact Lx | simpl; apply parts_self; assumption | simpl; apply ma_self].
    + injection E as E1 E2 E3. subst news. unfold split_area_arbitrary_dim. rewrite mapi_map_abox.
      destruct W as [W1 W2]. destruct x; simpl in *. apply ma_split_all; [assumption | lia].
Qed.

Lemma do_refinement_ma ex st i decs x :
  Inv st -> MInv ex st -> nth_error (st_objs st) i = Some x -> a_dead x = false ->
  MInv ex (fst (do_refinement st i decs)).
Proof.
  intros [IP IC IL] [Lx HM] Hn Hx. unfold do_refinement. rewrite Hn.
  destruct (refine_area st x (lookup (abox x) decs (false, []))) as [[news ch] inc] eqn:E.
  destruct (nth_error_split _ _ Hn) as [l1 [l2 [El Li]]].
  rewrite El in IP, HM. rewrite lboxes_app, (lboxes_cons_alive _ _ Hx) in IP, HM.
  assert (Wx : Wf (st_dim st) (abox x)).
  { pose proof (pt_wf _ _ _ IP) as W. rewrite Forall_app in W. destruct W as [_ W]. inversion W; assumption. }
  pose proof (refine_area_ma ex _ _ _ _ _ _ E Wx Lx) as RM.
  set (g := if inc then update_area else (fun y : area => y)).
  assert (Eg : (if inc then map update_area (st_objs st) else st_objs st) = map g (st_objs st)).
  { unfold g. destruct inc; [reflexivity | symmetry; apply map_id]. }
  assert (Gp : forall y, abox (g y) = abox y /\ a_dead (g y) = a_dead y).
  { intro y. unfold g. destruct inc; split; reflexivity. }
  assert (Cx : 0 <= a_coarse x).
  { rewrite El in IC. rewrite Forall_app in IC. destruct IC as [_ IC]. inversion IC as [|? ? Cx _]; subst. exact (proj1 Cx). }
  destruct (refine_area_spec _ _ _ _ _ _ E Wx Cx Hx) as [_ [RA _]].
  set (news1 := if st_single st && (2 <? length news)%nat then map (register (st_cp st)) news else news).
  assert (N1 : map abox news1 = map abox news /\ Forall (fun y => a_dead y = false) news1).
  { unfold news1. destruct (st_single st && (2 <? length news)%nat); [|split; [reflexivity | assumption]].
    split.
    - rewrite map_map. apply map_ext. intro y. reflexivity.
    - apply Forall_forall. intros y Hy. apply in_map_iff in Hy. destruct Hy as [z [Ez Hz]]. subst y.
      rewrite Forall_forall in RA. apply (RA z Hz). }
  destruct N1 as [N1 N2].
  cbn [fst]. rewrite Eg. fold news1.
  assert (Ek : kill_nth i (map g (st_objs st)) = map g l1 ++ kill (g x) :: map g l2).
  { rewrite El, map_app. cbn [map]. rewrite <- Li, <- (map_length g l1). apply kill_nth_split. }
  split; cbn [st_dim st_a st_b st_objs]; [exact Lx|].
  rewrite Ek, !lboxes_app, lboxes_cons_dead by reflexivity.
  rewrite !(lboxes_map g) by exact Gp. rewrite (lboxes_alive news1 N2), N1, <- app_assoc.
  apply ma_replace with (x := abox x); assumption.
Qed.

(* ---------------------------------------------------------------- a whole refine round *)
Lemma round_body_ma ex st0 n tol decs acc i : (i < n)%nat -> J st0 n i (fst acc) -> MInv ex (fst acc) ->
  MInv ex (fst (round_body tol decs acc i)).
Proof.
  intros Li [HI [HF [HL HA]]] HM. destruct acc as [s lg]. cbn [fst] in *. unfold round_body.
  destruct (nth_error (st_objs s) i) as [x|] eqn:Hn; [|exact HM].
  destruct (Qc_leb tol (a_benefit x)); [|exact HM].
  pose proof (do_refinement_ma ex s i decs x HI HM Hn (HA i x (le_n _) Li Hn)) as R.
  destruct (do_refinement s i decs) as [s' l']. exact R.
Qed.

Lemma round_loop_ma ex st0 n tol decs k : forall i acc, (i + k = n)%nat -> J st0 n i (fst acc) -> MInv ex (fst acc) ->
  MInv ex (fst (fold_left (round_body tol decs) (seq i k) acc)).
Proof.
  induction k as [|k IH]; intros i acc E H HM; simpl; [exact HM|].
  apply IH; [lia | apply round_body_J; [lia | exact H] | apply (round_body_ma ex st0 n); [lia | exact H | exact HM]].
Qed.

Lemma refine_round_ma ex st decs : Inv st -> all_alive (st_objs st) -> MInv ex st ->
  MInv ex (fst (refine_round st decs)).
Proof.
  intros HI HA HM. unfold refine_round.
  change (fun (acc : state * list (box * (bool * list nat))) (i : nat) =>
            let '(s, lg) := acc in
            match nth_error (st_objs s) i with
            | Some x => if Qc_leb (st_bmax st * margin)%Qc (a_benefit x)
                        then let '(s', l') := do_refinement s i decs in (s', lg ++ l') else (s, lg)
            | None => (s, lg)
            end) with (round_body (st_bmax st * margin)%Qc decs).
  assert (J0 : J st (length (st_objs st)) 0 (fst (st, @nil (box * (bool * list nat))))).
  { split; [assumption | split; [apply same_frame_refl | split; [cbn [fst]; lia|]]].
    intros j y _ _ Hy. unfold all_alive in HA. rewrite Forall_forall in HA. apply HA. eapply nth_error_In. eassumption. }
  pose proof (round_loop_ma ex st (length (st_objs st)) (st_bmax st * margin)%Qc decs (length (st_objs st)) 0%nat (st, [])
                            eq_refl J0 HM) as L.
  destruct (fold_left (round_body (st_bmax st * margin)%Qc decs) (seq 0 (length (st_objs st))) (st, [])) as [st1 log].
  cbn [fst] in *. destruct L as [Lx LM]. split; cbn [st_dim st_a st_b st_objs]; [exact Lx|].
  change (fun x : area => negb (a_dead x)) with alive. unfold lboxes. rewrite filter_alive_idem. exact LM.
Qed.

Lemma evaluate_ma ex st bens : MInv ex st -> MInv ex (fst (evaluate st bens)).
Proof.
  intros [Lx HM]. unfold evaluate. cbn [fst].
  set (h := fun x : area => with_benefit (register (st_cp st) x) (benefit_of (lookup (abox x) bens 0))).
  assert (Hh : forall y, abox (h y) = abox y /\ a_dead (h y) = a_dead y) by (intro y; split; reflexivity).
  split; cbn [st_dim st_a st_b st_objs]; [exact Lx|].
  rewrite (lboxes_firstn_skipn _ h) by exact Hh. exact HM.
Qed.

Lemma observe_ma ex st : MInv ex st -> MInv ex (fst (observe_coarsen st)).
Proof.
  intros [Lx HM]. unfold observe_coarsen, set_objs. cbn [fst].
  split; cbn [st_dim st_a st_b st_objs]; [exact Lx|].
  rewrite lboxes_map; [exact HM | intro y; split; reflexivity].
Qed.

Lemma init_ma ex dim version nrbe lmin lmax base auto single a b :
  wfbox a b -> length a = dim -> length ex = dim ->
  MInv ex (init_state dim version nrbe lmin lmax base auto single a b).
Proof.
  intros W L Lx. unfold init_state. destruct single.
  - set (root := mkArea a b 0 0 (nrbe + Z.of_nat dim) 0%Qc [] [] false).
    set (objs0 := split_dims (seq 0 dim) root).
    assert (M0 : MA ex (a, b) (map abox objs0)).
    { unfold objs0, split_dims. apply (ma_split_dims ex dim); [apply seq_lt_Forall | exact Lx | simpl; apply parts_self; split; assumption | simpl; apply ma_self]. }
    assert (C0 : Forall (child_like root) objs0).
    { unfold objs0, split_dims. apply split_dims_child_like. constructor; [|constructor]. split; reflexivity. }
    set (objs := map (register (mkCP dim version lmin lmax base)) (mapi (fun i x => with_path x [i]) 0 objs0)).
    assert (Eb : map abox objs = map abox objs0).
    { unfold objs. rewrite map_map. rewrite <- (mapi_with_path_boxes 0 objs0). apply map_ext. intro y. reflexivity. }
    assert (AA : all_alive objs).
    { apply Forall_forall. intros y Hy. unfold objs in Hy. apply in_map_iff in Hy. destruct Hy as [z [Ez Hz]]. subst y.
      assert (Q : Forall (child_like root) (mapi (fun i x => with_path x [i]) 0 objs0)).
      { clear -C0. generalize 0%nat. induction objs0 as [|y l IH]; intro i; simpl; constructor.
        - inversion C0; subst. destruct H1. split; assumption.
        - apply IH. inversion C0; assumption. }
      rewrite Forall_forall in Q. destruct (Q z Hz) as [Q1 Q2]. exact Q1. }
    split; cbn [st_dim st_a st_b st_objs]; [exact Lx|].
    rewrite (lboxes_alive _ AA), Eb. exact M0.
  - set (root := mkArea a b 0 0 (nrbe + 1) 0%Qc [] [] false).
    assert (AA : all_alive (split_area_arbitrary_dim root)).
    { unfold split_area_arbitrary_dim. apply mapi_Forall. intros j q. reflexivity. }
    split; cbn [st_dim st_a st_b st_objs]; [exact Lx|].
    rewrite (lboxes_alive _ AA). unfold split_area_arbitrary_dim. rewrite mapi_map_abox. simpl.
    apply ma_split_all; [exact W | lia].
Qed.

(* ---------------------------------------------------------------- every history *)
Lemma step_ma ex d a b lmin st inp : Good d a b lmin st -> MInv ex st -> MInv ex (step st inp).
Proof.
  intros [HI [HA _]] HM. unfold step. apply evaluate_ma. apply refine_round_ma; assumption.
Qed.

Lemma run_ma ex d a b lmin hist : forall st, Good d a b lmin st -> MInv ex st -> MInv ex (run_events st hist).
Proof.
  unfold run_events. induction hist as [|ev hist IH]; intros st G HM; simpl; [exact HM|]. apply IH.
  - destruct ev; [apply step_good | apply observe_good]; exact G.
  - destruct ev; [eapply step_ma; eassumption | apply observe_ma; exact HM].
Qed.

(* for every history the monomial moments of the areas in the container add up to the moment of the domain *)
Theorem reachable_moments_add dim version nrbe lmin lmax base auto single a b bens0 hist ex :
  wfbox a b -> length a = dim -> lmin <= lmax -> length ex = dim ->
  sumQ (map (fun bx : box => bmom (fst bx) (snd bx) ex)
            (map abox (st_objs (run_events (start_state dim version nrbe lmin lmax base auto single a b bens0) hist))))
  = bmom a b ex.
Proof.
  intros W L Hl Lx.
  pose proof (start_good dim version nrbe lmin lmax base auto single a b bens0 W L Hl) as G0.
  assert (M0 : MInv ex (start_state dim version nrbe lmin lmax base auto single a b bens0)).
  { unfold start_state. apply evaluate_ma. apply init_ma; assumption. }
  pose proof (run_good dim a b lmin hist _ G0) as [_ [HA [_ [E2 [E3 _]]]]].
  destruct (run_ma ex dim a b lmin hist _ G0 M0) as [_ HM].
  unfold MA, bm in HM. rewrite (lboxes_alive _ HA), E2, E3 in HM. exact HM.
Qed.

Lemma multilinear_exps_length d : forall ex, In ex (multilinear_exps d) -> length ex = d.
Proof.
  induction d as [|d IH]; intros ex H; simpl in H.
  - destruct H as [<-|[]]. reflexivity.
  - apply in_flat_map in H. destruct H as [r [Hr H]]. destruct H as [<-|[<-|[]]]; simpl; rewrite (IH r Hr); reflexivity.
Qed.

(* the checker moments_additive accepts every reachable state *)
Theorem reachable_moments_additive dim version nrbe lmin lmax base auto single a b bens0 hist :
  wfbox a b -> length a = dim -> lmin <= lmax ->
  moments_additive a b (map abox (st_objs (run_events (start_state dim version nrbe lmin lmax base auto single a b bens0) hist))) = true.
Proof.
  intros W L Hl. unfold moments_additive. apply forallb_forall. intros ex Hex. apply Qc_eqb_eq.
  apply (reachable_moments_add dim version nrbe lmin lmax base auto single a b bens0 hist ex W L Hl).
  rewrite (multilinear_exps_length _ _ Hex). exact L.
Qed.
