(* C11 — get_normalized_grid_levels: for EVERY container of 2^K >= 2 slices the normalised levels are the POSITIONAL dyadic
   levels of its inner points: the point with (1-based) index i, 1 <= i < 2^K, gets the level l with
   2^(K-l) | i and not 2^(K-l+1) | i - whatever the global levels of these points are.  A variant that ranks the global
   levels of the inner points instead (seeded change C11r4) is refuted by a witness. *)
From Coq Require Import ZArith List QArith Qcanon Bool Arith Lia.
From SG Require Import Base.QcUtil Model.Romberg Proofs.RombergBasics Proofs.RombergCoeff Proofs.RombergExact Proofs.RombergGrouped.
Import ListNotations.

Lemma pow2_pos k : (1 <= 2 ^ k)%nat.
Proof. apply Nat.neq_0_lt_0, Nat.pow_nonzero. lia. Qed.

Lemma divide_pow2_le e K : (e <= K)%nat -> Nat.divide (2 ^ e) (2 ^ K).
Proof. intro H. exists (2 ^ (K - e))%nat. rewrite <- Nat.pow_add_r. f_equal. lia. Qed.

Lemma not_divide_pow2_gt e K : (K < e)%nat -> ~ Nat.divide (2 ^ e) (2 ^ K).
Proof.
  intros H D. apply Nat.divide_pos_le in D; [|assert (P := pow2_pos K); lia].
  assert (2 ^ K < 2 ^ e)%nat by (apply Nat.pow_lt_mono_r; lia). lia.
Qed.

(* in-order levels of the complete tree: position i (1-based) carries the level determined by the 2-adic valuation of i *)
Theorem full_levels_positional K : forall lev i, (1 <= i < 2 ^ K)%nat ->
  let l := nth (i - 1) (full_levels K lev) 0%nat in
  (lev <= l < lev + K)%nat /\ Nat.divide (2 ^ (lev + K - 1 - l)) i /\ ~ Nat.divide (2 ^ (lev + K - l)) i.
Proof.
  induction K as [|K IH]; intros lev i Hi; [simpl in Hi; lia|].
  assert (P := pow2_pos K). rewrite Nat.pow_succ_r' in Hi.
  cbn [full_levels]. set (L := full_levels K (S lev)).
  assert (LL : length L = (2 ^ K - 1)%nat) by (unfold L; apply full_levels_length).
  destruct (Nat.lt_trichotomy i (2 ^ K)) as [Lt|[Eq|Gt]].
  - rewrite app_nth1 by lia. destruct (IH (S lev) i ltac:(lia)) as [A [B C]]. fold L in A, B, C.
    cbv zeta. replace (lev + S K - 1 - nth (i - 1) L 0)%nat with (S lev + K - 1 - nth (i - 1) L 0)%nat by lia.
    replace (lev + S K - nth (i - 1) L 0)%nat with (S lev + K - nth (i - 1) L 0)%nat by lia.
    split; [lia | split; assumption].
  - rewrite app_nth2 by lia. replace (i - 1 - length L)%nat with 0%nat by lia. cbn [app nth]. cbv zeta.
    replace (lev + S K - 1 - lev)%nat with K by lia. replace (lev + S K - lev)%nat with (S K) by lia. subst i.
    split; [lia|]. split; [apply Nat.divide_refl | apply not_divide_pow2_gt; lia].
  - rewrite app_nth2 by lia. replace (i - 1 - length L)%nat with (S (i - 2 ^ K - 1)) by lia. cbn [app nth].
    destruct (IH (S lev) (i - 2 ^ K)%nat ltac:(lia)) as [A [B C]]. fold L in A, B, C.
    set (l := nth (i - 2 ^ K - 1) L 0%nat) in *. cbv zeta.
    replace (lev + S K - 1 - l)%nat with (S lev + K - 1 - l)%nat by lia.
    replace (lev + S K - l)%nat with (S lev + K - l)%nat by lia.
    split; [lia|]. replace i with (2 ^ K + (i - 2 ^ K))%nat at 1 2 by lia. split.
    + apply Nat.divide_add_r; [apply divide_pow2_le; lia | exact B].
    + intro D. apply C. apply (Nat.divide_add_cancel_r (2 ^ (S lev + K - l)) (2 ^ K)); [apply divide_pow2_le; lia | exact D].
Qed.

(* get_normalized_grid_levels of a container with 2^K >= 2 slices (n = 2^K + 1 grid points): boundary levels 0, inner point i
   gets its positional dyadic level *)
Theorem normalized_levels_positional K i : (1 <= K)%nat -> (1 <= i < 2 ^ K)%nat ->
  let l := nth i (normalized_levels (S (2 ^ K))) 0%nat in
  (1 <= l <= K)%nat /\ Nat.divide (2 ^ (K - l)) i /\ ~ Nat.divide (2 ^ (S K - l)) i.
Proof.
  intros HK Hi.
  assert (E : nth i (normalized_levels (S (2 ^ K))) 0%nat = nth (i - 1) (full_levels K 1) 0%nat).
  { rewrite normalized_levels_full by exact HK. cbn [app]. replace i with (S (i - 1)) at 1 by lia. cbn [nth].
    apply app_nth1. rewrite full_levels_length. lia. }
  cbv zeta. rewrite E.
  destruct (full_levels_positional K 1 i Hi) as [A [B C]]. cbv zeta in *.
  set (l := nth (i - 1) (full_levels K 1) 0%nat) in *.
  replace (1 + K - 1 - l)%nat with (K - l)%nat in B by lia. replace (1 + K - l)%nat with (S K - l)%nat in C by lia.
  split; [lia | split; assumption].
Qed.

Theorem normalized_levels_ends K : (1 <= K)%nat ->
  nth 0 (normalized_levels (S (2 ^ K))) 1%nat = 0%nat /\ nth (2 ^ K) (normalized_levels (S (2 ^ K))) 1%nat = 0%nat /\
  length (normalized_levels (S (2 ^ K))) = S (2 ^ K).
Proof.
  intro HK. rewrite normalized_levels_full by exact HK. assert (P := pow2_pos K).
  split; [reflexivity|]. split.
  - cbn [app]. replace (2 ^ K)%nat with (S (length (full_levels K 1))) by (rewrite full_levels_length; lia).
    cbn [nth]. rewrite app_nth2 by lia. rewrite Nat.sub_diag. reflexivity.
  - rewrite !app_length, full_levels_length. simpl. lia.
Qed.

(* the positional level is determined uniquely by the index, so any other rule that agrees with the property is this one *)
Lemma positional_level_unique K i l l' : (1 <= l <= K)%nat -> (1 <= l' <= K)%nat ->
  Nat.divide (2 ^ (K - l)) i -> ~ Nat.divide (2 ^ (S K - l)) i ->
  Nat.divide (2 ^ (K - l')) i -> ~ Nat.divide (2 ^ (S K - l')) i -> l = l'.
Proof.
  intros Hl Hl' A B A' B'.
  destruct (Nat.lt_trichotomy l l') as [L|[E|L]]; [|exact E|].
  - exfalso. apply B'. apply (Nat.divide_trans _ (2 ^ (K - l))); [apply divide_pow2_le; lia | exact A].
  - exfalso. apply B. apply (Nat.divide_trans _ (2 ^ (K - l'))); [apply divide_pow2_le; lia | exact A'].
Qed.

(* the variant of the seeded change C11r4: dense rank of the GLOBAL levels of the inner points *)
Definition rank_of (x : nat) (l : list nat) : nat := S (length (nodup Nat.eq_dec (filter (fun y => (y <? x)%nat) l))).
Definition rank_normalized (inner_levels : list nat) : list nat := [0%nat] ++ map (fun x => rank_of x inner_levels) inner_levels ++ [0%nat].

(* a container of 4 slices that starts at an odd index of its dyadic block: global inner levels 3,4,2 (e.g. the points 3/8,
   1/2 ... of depth 4 trees): the ranks are 2,3,1, the positional levels 2,1,2 *)
Theorem rank_variant_refuted : exists inner_levels, length inner_levels = 3%nat /\
  rank_normalized inner_levels <> normalized_levels (S (2 ^ 2)).
Proof. exists [3; 4; 2]%nat. split; [reflexivity|]. vm_compute. discriminate. Qed.

(* ... and on containers that ARE dyadic blocks of the global grid the two agree (why the change looks innocent) *)
Example rank_variant_agrees_on_dyadic_block : rank_normalized [3; 2; 3; 1; 3; 2; 3]%nat = normalized_levels (S (2 ^ 3)).
Proof. vm_compute. reflexivity. Qed.
