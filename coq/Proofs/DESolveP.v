(* C17: surplus transparency FOLLOWS from matrix transparency and right-hand-side transparency.
   With C16's positive definiteness in every dimension the system (R + lambda I) x = b has exactly one solution; the matrix built
   with the entry cache equals the matrix built without (DECacheP), the right-hand side computed with re-use equals the one
   computed without (DEReuseP); hence whatever solves the system of the run with re-use is the solution of the run without,
   and the normalised surpluses agree. *)
From Coq Require Import ZArith List QArith Qcanon Bool Lia.
From SG Require Import Base.QcUtil Model.Gram Model.GramSolve Model.DECache Model.DEReuse
  Proofs.GramHat Proofs.GramPD Proofs.GramNorm Proofs.GramKron Proofs.GramGauss Proofs.GramSolveP
  Proofs.DECacheP Proofs.DEPaths Proofs.DEReuseP.
Import ListNotations.
Open Scope Qc_scope.

Lemma good_is_unit stripes : Forall good_stripe stripes -> Forall unit_stripe stripes.
Proof. intro H. exact H. Qed.

Section Solve.
Variables (data : list (list Qc)) (signs : list Qc) (perms : list (list nat)).

(* one component grid, evaluated on an object with ANY consistent matrix cache and ANY consistent re-use state *)
Theorem surpluses_transparent thr lam c st key stripes x_on x_off :
  consistent c -> perms_complete data perms -> Inv data signs perms st ->
  Forall good_stripe stripes -> Forall (fun x => length x = length stripes) data -> 0 <= lam ->
  let G_on := fst (sym_matrix_cached c lam (grid_hats stripes)) in
  let b_on := fst (calc_B thr data signs perms st key stripes) in
  let G_off := R_matrix_nonuniform (grid_hats stripes) lam in
  let b_off := rhs_plain thr data signs stripes in
  length x_on = length (grid_hats stripes) -> length x_off = length (grid_hats stripes) ->
  matvec G_on x_on = b_on -> matvec G_off x_off = b_off ->
  G_on = G_off /\ b_on = b_off /\ x_on = x_off /\
  forall labelled, normalise_weighted labelled (tensor_weights stripes) x_on = normalise_weighted labelled (tensor_weights stripes) x_off.
Proof.
  intros Hc Hp Hi Hg Hd Hlam G_on b_on G_off b_off Lon Loff Eon Eoff.
  assert (EG : G_on = G_off).
  { unfold G_on, G_off. apply (sym_matrix_cached_correct lam (grid_hats stripes) c Hc). apply grid_pairs_good. exact Hg. }
  assert (Eb : b_on = b_off).
  { unfold b_on, b_off. rewrite (rhs_plain_is_rhs data signs thr stripes Hg Hd).
    apply (calc_B_correct data signs perms thr st key stripes Hp Hi Hg Hd). }
  assert (Ex : x_on = x_off).
  { rewrite EG, Eb in Eon. exact (gram_grid_solution_unique stripes lam x_on x_off b_off (good_is_unit stripes Hg) Hlam Lon Loff Eon Eoff). }
  split; [exact EG|]. split; [exact Eb|]. split; [exact Ex|]. intro labelled. rewrite Ex. reflexivity.
Qed.

(* existence: the run with re-use HAS surpluses, and they are the surpluses the exact pipeline of C16 computes from the data *)
Theorem surpluses_with_reuse_exist thr lam c st key stripes labelled :
  consistent c -> perms_complete data perms -> Inv data signs perms st ->
  Forall good_stripe stripes -> Forall (fun x => length x = length stripes) data -> 0 <= lam ->
  exists raw fin integ,
    surpluses_nonuniform stripes lam false data signs labelled = Some (raw, fin, integ) /\
    matvec (fst (sym_matrix_cached c lam (grid_hats stripes))) raw = fst (calc_B thr data signs perms st key stripes) /\
    forall y, length y = length (grid_hats stripes) ->
              matvec (fst (sym_matrix_cached c lam (grid_hats stripes))) y = fst (calc_B thr data signs perms st key stripes) -> y = raw.
Proof.
  intros Hc Hp Hi Hg Hd Hlam.
  destruct (surpluses_nonuniform_total stripes lam data signs labelled (good_is_unit stripes Hg) Hlam) as [raw [fin [integ E]]].
  exists raw, fin, integ. split; [exact E|].
  destruct (surpluses_nonuniform_spec stripes lam data signs labelled raw fin integ (good_is_unit stripes Hg) Hlam E) as [S1 [S2 _]].
  assert (EG : fst (sym_matrix_cached c lam (grid_hats stripes)) = R_matrix_nonuniform (grid_hats stripes) lam).
  { apply (sym_matrix_cached_correct lam (grid_hats stripes) c Hc). apply grid_pairs_good. exact Hg. }
  assert (Eb : fst (calc_B thr data signs perms st key stripes) = rhs (grid_hats stripes) data signs).
  { apply (calc_B_correct data signs perms thr st key stripes Hp Hi Hg Hd). }
  rewrite EG, Eb. split; [exact S1 | exact S2].
Qed.
End Solve.
