(* C11 — Simpson-Romberg containers: what the weights of a container of 2^K slices sum to, for EVERY K and for both
   values of the switch lo (0 = current code: the sum is (b-a)*(1 - c_{K,0}/3), the defect; 1 = proposed repair:
   b-a), and the whole pipeline with the repaired coefficients. *)
From Coq Require Import ZArith List QArith Qcanon Bool Arith Lia.
From SG Require Import Base.QcUtil Model.Romberg Proofs.RombergBasics Proofs.RombergCoeff Proofs.RombergTree
  Proofs.RombergSliced Proofs.RombergExact Proofs.RombergGrouped.
Import ListNotations.
Open Scope Qc_scope.

Lemma Qc3_eq : Qc3 = 1 + 1 + 1.
Proof. apply Qc_is_canon. reflexivity. Qed.
Lemma Qc4_eq : Qc4 = 1 + 1 + 1 + 1.
Proof. apply Qc_is_canon. reflexivity. Qed.
Lemma three_neq0 : (1 + 1 + 1 : Qc) <> 0.
Proof. intro H. discriminate H. Qed.
Ltac qc_consts3 := rewrite ?Qc3_eq, ?Qc4_eq, ?Qchalf_eq, ?Qc2_eq in *.

(* ---------------------------------------------------------------------------------------------- *)
(* a container of 2^K slices with boundary weight B and inner weights I(level): generic sums *)

Theorem container_generic (B : Qc) (I : nat -> Qc) K h c T :
  length c = (2 ^ K)%nat -> (1 <= K)%nat -> chain c -> Forall (fun s => sl_width s = h) c ->
  B + sumQ (map I (full_levels K 1)) + B = T ->
  let n := S (length c) in
  let g := fun i : nat => if Nat.eqb i 0 || Nat.eqb i (n - 1) then B else I (nth i (normalized_levels n) 0%nat) in
  let cs := map (fun i => (nthQ (container_grid c) i, g i)) (seq 0 n) in
  wsum cs = T /\ wmom cs = Qchalf * (container_left c + container_right c) * T.
Proof.
  intros HL HK Hc Hw HT n g cs.
  assert (P : (2 <= 2 ^ K)%nat).
  { destruct K as [|K']; [lia|]. rewrite Nat.pow_succ_r'. assert (1 <= 2 ^ K')%nat by (apply Nat.neq_0_lt_0, Nat.pow_nonzero; lia). lia. }
  assert (Hne : c <> []) by (intro E; rewrite E in HL; simpl in HL; lia).
  destruct (container_grid_arith h c Hne Hc Hw) as [G R].
  set (a := container_left c) in *. set (b := container_right c) in *.
  assert (Hn : length (container_grid c) = n) by (rewrite G, arith_length; reflexivity).
  unfold cs. rewrite wsum_map_pair, wmom_map_pair.
  assert (NL : normalized_levels n = [0%nat] ++ full_levels K 1 ++ [0%nat]).
  { unfold n. rewrite HL. apply normalized_levels_full. exact HK. }
  assert (W : map g (seq 0 n) = [B] ++ map I (full_levels K 1) ++ [B]).
  { assert (Ln : n = S (S (length (full_levels K 1)))) by (rewrite full_levels_length; unfold n; lia).
    rewrite Ln at 1. rewrite seq_S. change (seq 0 (S (length (full_levels K 1)))) with (0%nat :: seq 1 (length (full_levels K 1))).
    rewrite map_app. cbn [map app].
    assert (Mid : map g (seq 1 (length (full_levels K 1))) = map I (full_levels K 1)).
    { rewrite <- seq_shift, map_map.
      rewrite <- (map_nth_seq I (full_levels K 1) 0%nat). apply map_ext_in. intros i Hi. apply in_seq in Hi.
      unfold g. destruct (Nat.eqb_spec (S i) 0) as [C|_]; [lia|]. destruct (Nat.eqb_spec (S i) (n - 1)) as [C|_]; [lia|].
      cbn [orb]. rewrite NL. cbn [app nth]. rewrite app_nth1 by lia. reflexivity. }
    assert (Last : g (0 + S (length (full_levels K 1)))%nat = B).
    { unfold g. replace (0 + S (length (full_levels K 1)))%nat with (n - 1)%nat by lia.
      rewrite Nat.eqb_refl, orb_true_r. reflexivity. }
    rewrite Mid, Last. reflexivity. }
  assert (S1 : sumQ (map g (seq 0 n)) = T).
  { rewrite W, !sumQ_app. simpl sumQ. rewrite <- HT. ring. }
  split; [exact S1|].
  assert (Hrev : rev (map g (seq 0 n)) = map g (seq 0 n)).
  { rewrite W, !rev_app_distr, <- map_rev, full_levels_rev. cbn [rev app]. reflexivity. }
  assert (Lw : length (map g (seq 0 n)) = n) by (rewrite map_length, seq_length; reflexivity).
  assert (Gx : map (nthQ (container_grid c)) (seq 0 n) = container_grid c).
  { transitivity (map (fun x : Qc => x) (container_grid c)); [|apply map_id].
    rewrite <- Hn. exact (map_nth_seq (fun x : Qc => x) (container_grid c) 0). }
  rewrite Gx, G. fold n. rewrite <- Lw at 1. rewrite dot_arith.
  assert (J := idx_moment_palindrome _ Hrev). rewrite Lw in J.
  assert (Qn : qn n - 1 = qn (length c)). { unfold n. rewrite qn_S. ring. }
  rewrite Qn, S1 in J. rewrite S1.
  assert (J2 : idx_moment (map g (seq 0 n)) = Qchalf * (qn (length c) * T)).
  { transitivity (Qchalf * ((1 + 1) * idx_moment (map g (seq 0 n)))); [qc_consts; field; exact two_neq0|].
    rewrite J. reflexivity. }
  rewrite J2, R. qc_consts. field. exact two_neq0.
Qed.

(* ---------------------------------------------------------------------------------------------- *)
(* Simpson weights of the complete grid of depth K *)

Section SimpsonGrid.
Variables (lo : nat) (a b : Qc) (K : nat).
Hypothesis Hab : a <> b.
Hypothesis Hlo : (lo <= K)%nat.

Definition sc (j : nat) : Qc := romberg_coefficient_from lo a b 3 K j.
Definition sfj (j : nat) : Qc := sc j * step_width a b j.
Definition s_inner (l : nat) : Qc :=
  ((sc l * Qc4) / Qc3) * step_width a b l + sumQ (map (fun j => ((sc j * step_width a b j) * Qc2) / Qc3) (seq (S l) (K - l))).
Definition s_boundary : Qc := sumQ (map (fun j => sc j * step_width a b j) (seq 0 (S K))) / Qc3.

Definition two_thirds : Qc := (1 + 1) / (1 + 1 + 1).

Lemma s_inner_eq l : s_inner l = (1 + 1) * two_thirds * sfj l + two_thirds * sumQ (map sfj (seq (S l) (K - l))).
Proof.
  unfold s_inner, sfj, two_thirds. rewrite <- sumQ_map_scale.
  rewrite (sumQ_map_ext_in (fun j => ((sc j * step_width a b j) * Qc2) / Qc3)
                           (fun j => (1 + 1) / (1 + 1 + 1) * (sc j * step_width a b j)) (seq (S l) (K - l))).
  - qc_consts3. field. exact three_neq0.
  - intros j _. qc_consts3. field. exact three_neq0.
Qed.

Lemma s_subtree_sum d : forall lev, (lev + d = S K)%nat ->
  sumQ (map s_inner (full_levels d lev)) = sumQ (map (fun j => sfj j * (pow2 (S j - lev) - two_thirds)) (seq lev (S K - lev))).
Proof.
  induction d as [|d IH]; intros lev H.
  - replace (S K - lev)%nat with 0%nat by lia. reflexivity.
  - cbn [full_levels]. rewrite !map_app, !sumQ_app. cbn [map sumQ]. rewrite (IH (S lev)) by lia.
    replace (S K - lev)%nat with (S (S K - S lev)) by lia. cbn [seq map sumQ].
    replace (S lev - lev)%nat with 1%nat by lia.
    rewrite s_inner_eq. replace (K - lev)%nat with (S K - S lev)%nat by lia.
    rewrite (sumQ_map_ext_in (fun j => sfj j * (pow2 (S j - lev) - two_thirds))
                             (fun j => (1 + 1) * (sfj j * (pow2 (S j - S lev) - two_thirds)) + two_thirds * sfj j) (seq (S lev) (S K - S lev))).
    + rewrite sumQ_map_add, !sumQ_map_scale.
      assert (P1 : pow2 1 = 1 + 1) by (apply Qc_is_canon; reflexivity). rewrite P1.
      unfold two_thirds. field. exact three_neq0.
    + intros j Hj. apply in_seq in Hj. replace (S j - lev)%nat with (S (S j - S lev)) by lia.
      rewrite pow2_S, Qc2_eq. unfold two_thirds. field. exact three_neq0.
Qed.

(* the weights of the complete grid of depth K sum to (b-a)*(1 - c_{K,0}/3) *)
Theorem simpson_grid_weight_sum : (1 <= K)%nat ->
  s_boundary + sumQ (map s_inner (full_levels K 1)) + s_boundary = (b - a) * (1 - sc 0 / (1 + 1 + 1)).
Proof.
  intro HK. rewrite (s_subtree_sum K 1) by lia.
  assert (E : s_boundary + s_boundary = two_thirds * sumQ (map sfj (seq 0 (S K)))).
  { unfold s_boundary, two_thirds. fold sfj.
    change (fun j => sc j * step_width a b j) with sfj. qc_consts3. field. exact three_neq0. }
  transitivity (two_thirds * sumQ (map sfj (seq 0 (S K)))
                + sumQ (map (fun j => sfj j * (pow2 (S j - 1) - two_thirds)) (seq 1 (S K - 1)))).
  { rewrite <- E. ring. }
  change (seq 0 (S K)) with (0%nat :: seq 1 K). replace (S K - 1)%nat with K by lia. cbn [map sumQ].
  assert (X : two_thirds * sumQ (map sfj (seq 1 K)) + sumQ (map (fun j => sfj j * (pow2 (S j - 1) - two_thirds)) (seq 1 K))
              = (b - a) * sumQ (map sc (seq 1 K))).
  { rewrite <- !sumQ_map_scale, <- sumQ_map_add. apply sumQ_map_ext_in.
    intros j Hj. apply in_seq in Hj. replace (S j - 1)%nat with j by lia. unfold sfj.
    rewrite <- (step_width_pow2 a b j). ring. }
  assert (F0 : sfj 0 = (b - a) * sc 0).
  { unfold sfj. rewrite <- (step_width_pow2 a b 0). unfold pow2. simpl. ring. }
  assert (C := romberg_coeff_from_sum_one lo a b 3 K Hab ltac:(lia) Hlo).
  change (seq 0 (S K)) with (0%nat :: seq 1 K) in C. cbn [map sumQ] in C. fold (sc 0) in C.
  change (map (romberg_coefficient_from lo a b 3 K) (seq 1 K)) with (map sc (seq 1 K)) in C.
  assert (C' : sumQ (map sc (seq 1 K)) = 1 - sc 0). { rewrite <- C. ring. }
  transitivity (two_thirds * sfj 0 + (two_thirds * sumQ (map sfj (seq 1 K))
                + sumQ (map (fun j => sfj j * (pow2 (S j - 1) - two_thirds)) (seq 1 K)))); [ring|].
  rewrite X, F0, C'. unfold two_thirds. field. exact three_neq0.
Qed.
End SimpsonGrid.

(* ---------------------------------------------------------------------------------------------- *)
(* a Simpson container of 2^K >= 2 slices *)

Theorem simpson_container_sums lo sv K h c cs :
  length c = (2 ^ K)%nat -> (1 <= K)%nat -> (lo <= K)%nat -> chain c -> Forall (fun s => sl_width s = h) c ->
  Forall (fun s => sl_l s < sl_r s) c ->
  container_final_from lo sv CV_Simpson c = Some cs ->
  let a := container_left c in let b := container_right c in
  let T := (b - a) * (1 - romberg_coefficient_from lo a b 3 K 0 / (1 + 1 + 1)) in
  wsum cs = T /\ wmom cs = Qchalf * (a + b) * T.
Proof.
  intros HL HK Hlo Hc Hw Hlt H a b T.
  assert (P : (2 <= 2 ^ K)%nat).
  { destruct K as [|K']; [lia|]. rewrite Nat.pow_succ_r'. assert (1 <= 2 ^ K')%nat by (apply Nat.neq_0_lt_0, Nat.pow_nonzero; lia). lia. }
  assert (Hne : c <> []) by (intro E; rewrite E in HL; simpl in HL; lia).
  assert (Hab : a <> b) by (apply Qclt_not_eq; exact (chain_left_lt_right c Hne Hc Hlt)).
  destruct (container_grid_arith h c Hne Hc Hw) as [G _].
  set (n := S (length c)).
  assert (Hn : length (container_grid c) = n) by (rewrite G, arith_length; reflexivity).
  set (g := fun i : nat => if Nat.eqb i 0 || Nat.eqb i (n - 1) then s_boundary lo a b K
                           else s_inner lo a b K (nth i (normalized_levels n) 0%nat)).
  assert (E : container_final_from lo sv CV_Simpson c =
              Some (map (fun i => (nthQ (container_grid c) i, g i)) (seq 0 n))).
  { destruct c as [|s1 [|s2 c']]; [congruence | simpl in HL; lia |].
    unfold container_final_from. fold a b. rewrite Hn.
    assert (NL : normalized_levels n = [0%nat] ++ full_levels K 1 ++ [0%nat]).
    { unfold n. rewrite HL. apply normalized_levels_full. exact HK. }
    assert (M : list_max (normalized_levels n) = K).
    { rewrite NL, !list_max_app, full_levels_max by exact HK. simpl. lia. }
    rewrite M. apply opt_list_all. intros i Hi. apply in_seq in Hi. unfold g.
    destruct (Nat.eqb i 0 || Nat.eqb i (n - 1)) eqn:Eb; [reflexivity|].
    apply orb_false_elim in Eb. destruct Eb as [E0 E1]. apply Nat.eqb_neq in E0. apply Nat.eqb_neq in E1.
    assert (Hr : (1 <= nth i (normalized_levels n) 0%nat <= K)%nat).
    { rewrite NL. cbn [app]. destruct i as [|i']; [lia|]. cbn [nth].
      assert (Li : (i' < length (full_levels K 1))%nat) by (rewrite full_levels_length; unfold n in *; lia).
      rewrite app_nth1 by exact Li.
      assert (I := full_levels_range K 1 _ (nth_In _ 0%nat Li)). lia. }
    unfold simpson_inner_weight_from.
    destruct (Nat.leb_spec 1 (nth i (normalized_levels n) 0%nat)) as [_|C]; [|lia].
    destruct (Nat.leb_spec (nth i (normalized_levels n) 0%nat) K) as [_|C]; [|lia].
    reflexivity. }
  assert (Ecs : cs = map (fun i => (nthQ (container_grid c) i, g i)) (seq 0 n)) by congruence.
  clear H E. subst cs.
  exact (container_generic (s_boundary lo a b K) (s_inner lo a b K) K h c T HL HK Hc Hw
           (simpson_grid_weight_sum lo a b K Hab Hlo HK)).
Qed.

(* with the repaired coefficients (lo = 1) every container contributes its own width / first moment *)
Lemma simpson_fixed_container_sums sv c cs :
  uniform2 c -> chain c -> Forall (fun s => sl_l s < sl_r s) c ->
  container_final_from 1 sv CV_Simpson c = Some cs ->
  wsum cs = sumQ (map sl_width c) /\ wmom cs = sumQ (map (fun s => half_sq (sl_l s) (sl_r s)) c).
Proof.
  intros [[Hne [h Hw]] [K HK]] Hc Hlt H.
  destruct (chain_sums c Hne Hc) as [S1 S2]. rewrite S1, S2.
  destruct K as [|K'].
  - destruct c as [|s [|s2 c']]; [congruence | | simpl in HK; lia].
    change (container_final_from 1 sv CV_Simpson [s]) with (slice_final sv s) in H.
    destruct (slice_final_sums sv s cs H) as [A B]. rewrite A, B.
    unfold container_left, container_right, sl_width. simpl. split; reflexivity.
  - destruct (simpson_container_sums 1 sv (S K') h c cs HK ltac:(lia) ltac:(lia) Hc Hw Hlt H) as [A B].
    assert (Z : romberg_coefficient_from 1 (container_left c) (container_right c) 3 (S K') 0 = 0) by reflexivity.
    rewrite Z in A, B. rewrite A, B. unfold half_sq. qc_consts.
    split; field; repeat split; (exact two_neq0 || exact three_neq0).
Qed.

(* the assembly of the pipeline from any per-container statement *)
Theorem sliced_generic lo g sv cv force grid levels r :
  (forall c cs, uniform2 c -> chain c -> Forall (fun s => sl_l s < sl_r s) c ->
     container_final_from lo sv cv c = Some cs ->
     wsum cs = sumQ (map sl_width c) /\ wmom cs = sumQ (map (fun s => half_sq (sl_l s) (sl_r s)) c)) ->
  extrapolation_grid_from lo g sv cv force grid levels = Some r ->
  sumQ (er_weights r) = grid_b r - grid_a r /\ wmom (er_dict r) = half_sq (grid_a r) (grid_b r).
Proof.
  intro HC. unfold extrapolation_grid_from.
  destruct (Nat.eqb (length grid) (length levels) && (2 <=? length grid)%nat); [|discriminate].
  destruct (if force then _ else _) as [[gr lv]|]; [|discriminate].
  destruct (init_grid_slices gr lv) as [slices|] eqn:Es; [|discriminate].
  destruct (opt_concat _) as [cs|] eqn:Ec; [|discriminate].
  intro H. assert (Er : r = mkExt gr lv (map (@length slice) (adjust_containers g (initial_containers g slices))) (dict_of cs)) by congruence.
  clear H. subst r. unfold er_weights, grid_a, grid_b. cbn [er_dict er_grid].
  destruct (initial_containers_spec g slices) as [I1 I2].
  destruct (adjust_containers_spec g _ I2) as [A1 A2]. rewrite I1 in A1.
  destruct (init_grid_slices_chain gr lv slices Es) as [C L].
  set (conts := adjust_containers g (initial_containers g slices)) in *.
  assert (FC : Forall chain conts) by (apply chain_concat; rewrite A1; exact C).
  assert (FL : Forall (Forall (fun s => sl_l s < sl_r s)) conts) by (apply Forall_concat_inv; rewrite A1; exact L).
  assert (S : wsum cs = sumQ (map sl_width (concat conts)) /\
              wmom cs = sumQ (map (fun s => half_sq (sl_l s) (sl_r s)) (concat conts))).
  { clear A1 I1 I2 Es C L. revert cs Ec. induction conts as [|c conts IH]; intros cs Ec.
    - simpl in Ec. assert (cs = []) by congruence. subst. split; reflexivity.
    - cbn [map opt_concat] in Ec.
      destruct (container_final_from lo sv cv c) as [y|] eqn:Ey; [|discriminate].
      destruct (opt_concat (map (container_final_from lo sv cv) conts)) as [ys|] eqn:Eys; [|discriminate].
      assert (cs = y ++ ys) by congruence. subst cs.
      apply Forall_cons_iff in A2. destruct A2 as [U A2]. apply Forall_cons_iff in FC. destruct FC as [Cc FC].
      apply Forall_cons_iff in FL. destruct FL as [Lc FL].
      destruct (HC c y U Cc Lc Ey) as [P1 P2].
      destruct (IH A2 FC FL ys eq_refl) as [Q1 Q2].
      cbn [concat]. rewrite wsum_app, wmom_app, !map_app, !sumQ_app, P1, P2, Q1, Q2. split; reflexivity. }
  destruct S as [S1 S2]. rewrite A1 in S1, S2.
  destruct (slices_tile gr lv slices Es) as [T1 T2].
  rewrite <- wsum_sumQ, dict_of_wsum, dict_of_wmom, S1, S2, T1, T2. split; reflexivity.
Qed.

(* MAIN (proposed repair): with the Simpson coefficients restricted to the levels 1..m the Simpson containers are
   consistent for every grid, grouping, slice version and balancing flag *)
Theorem simpson_repair_weights_consistent g sv force grid levels r :
  extrapolation_grid_from 1 g sv CV_Simpson force grid levels = Some r ->
  sumQ (er_weights r) = grid_b r - grid_a r /\ wmom (er_dict r) = half_sq (grid_a r) (grid_b r).
Proof. apply sliced_generic. intros c cs. apply simpson_fixed_container_sums. Qed.
