(* C16, source-derived model (DESIGN.md 0.5.1 scheme): the functions of coq/Gen/DensityGen.v - generated at every run from
   sparseSpACE/GridOperation.py by harness/translate/py2gallina_c16.py - equal the hand-written model Model/Gram.v.
   Python floats are read as exact rationals.  `None` = the Python function raises. *)
From Coq Require Import ZArith List Bool QArith Qcanon Lia.
From SG Require Import Base.QcUtil Base.PyLib Base.PyNum Proofs.PyLibFacts Proofs.PyNumFacts Gen.DensityGen
  Model.Gram Proofs.GramHat Proofs.GramEntries Proofs.GramPD Proofs.GramNorm.
Import ListNotations.
Open Scope Qc_scope.

Definition dom (t : hatdom) : Qc * Qc := (h_lo t, h_hi t).
Definition d0 : hatdom := mkH 0 0 0.
Definition pts_of (ts : list hatdom) : list Qc := map h_p ts.
Definition doms_of (ts : list hatdom) : list (Qc * Qc) := map dom ts.

Lemma getitem_map {A} (f : hatdom -> A) ts k : (k < length ts)%nat -> py_getitem (map f ts) (Z.of_nat k) = Some (f (nth k ts d0)).
Proof.
  intro H. rewrite (py_getitem_at _ _ k (f d0)) by (try reflexivity; rewrite map_length; exact H).
  rewrite map_nth. reflexivity.
Qed.

Lemma getitem_list {A} (l : list A) (d : A) k : (k < length l)%nat -> py_getitem l (Z.of_nat k) = Some (nth k l d).
Proof. intro H. apply py_getitem_at; [reflexivity | exact H]. Qed.

Lemma forallb_map' {A B} (f : B -> bool) (g : A -> B) l : forallb f (map g l) = forallb (fun x => f (g x)) l.
Proof. induction l as [|x l IH]; [reflexivity|]. cbn [map forallb]. rewrite IH. reflexivity. Qed.

Lemma forallb2_seq {A} (dA : A) (f : A -> A -> bool) : forall ti tj, length tj = length ti ->
  forallb2 f ti tj = forallb (fun k => f (nth k ti dA) (nth k tj dA)) (seq 0 (length ti)).
Proof.
  induction ti as [|a ti IH]; intros [|b tj] H; try discriminate; [reflexivity|].
  cbn [length seq forallb forallb2 nth]. rewrite <- seq_shift, forallb_map'. cbn [nth].
  rewrite (IH tj) by (simpl in H; lia). reflexivity.
Qed.

Lemma fold_left_map' {A B V} (f : V -> B -> V) (g : A -> B) l v : fold_left f (map g l) v = fold_left (fun w x => f w (g x)) l v.
Proof. revert v; induction l as [|x l IH]; intro v; [reflexivity|]. cbn [map fold_left]. apply IH. Qed.

Lemma prod_seq {A} (dA : A) (g : A -> A -> Qc) : forall ti tj a, length tj = length ti ->
  fold_left (fun w k => w * g (nth k ti dA) (nth k tj dA)) (seq 0 (length ti)) a = a * prodQ (map2 g ti tj).
Proof.
  induction ti as [|x ti IH]; intros [|y tj] a H; try discriminate; [cbn; ring|].
  cbn [length seq fold_left map2 prodQ nth]. rewrite <- seq_shift, fold_left_map'. cbn [nth].
  rewrite (IH tj) by (simpl in H; lia). ring.
Qed.

Lemma range_len {A} (l : list A) : py_range (py_len l) = map Z.of_nat (seq 0 (length l)).
Proof. unfold py_len. apply py_range_seq0. Qed.

(* constants of the generated code *)
Lemma c_half : py_Qc 1 2 = Qchalf. Proof. reflexivity. Qed.
Lemma c_one : py_Qc 1 1 = 1. Proof. reflexivity. Qed.
Lemma c_zero : py_Qc 0 1 = 0. Proof. reflexivity. Qed.
Lemma z_one : py_Z2Qc 1 = 1. Proof. reflexivity. Qed.
Lemma z_zero : py_Z2Qc 0 = 0. Proof. reflexivity. Qed.
Lemma z_three : py_Z2Qc 3 = Qc3. Proof. reflexivity. Qed.
Lemma pow2 (x : Qc) : Qcpower x 2 = x * x. Proof. cbn. ring. Qed.
Lemma pow3 (x : Qc) : Qcpower x 3 = cube x. Proof. unfold cube. cbn. ring. Qed.

Lemma abs_nz (x : Qc) : x <> 0 -> Qc_abs x <> 0.
Proof.
  intro H. unfold Qc_abs. destruct (Qc_leb 0 x); [exact H|]. intro E. apply H.
  replace x with (- - x) by ring. rewrite E. ring.
Qed.
Lemma inv_nz (x : Qc) : x <> 0 -> 1 / x <> 0.
Proof.
  intros H E. assert (O : (1 : Qc) = (1 / x) * x) by (field; exact H). rewrite E in O.
  assert (Z0 : (0 : Qc) * x = 0) by ring. rewrite Z0 in O. apply Qc_eq_Qeq in O. discriminate.
Qed.
Lemma three_nz (m : Qc) : m <> 0 -> Qc3 * m <> 0.
Proof.
  intros H E. apply H. assert (O : m = (Qc3 * m) / Qc3) by (field; intro X; apply Qc_eq_Qeq in X; discriminate).
  rewrite O, E. unfold Qcdiv. ring.
Qed.
Lemma sub_nz (a b : Qc) : a <> b -> a - b <> 0.
Proof. intros H E. apply H. replace a with (a - b + b) by ring. rewrite E. ring. Qed.
Lemma sub_nz' (a b : Qc) : a <> b -> b - a <> 0.
Proof. intros H E. apply H. replace b with (b - a + a) by ring. rewrite E. ring. Qed.

Lemma lt_neq_qc (a b : Qc) : a < b -> a <> b.
Proof. intros H E. subst. exact (Qclt_not_le _ _ H (Qcle_refl _)). Qed.

Lemma Qc_min_comm (a b : Qc) : Qc_min a b = Qc_min b a.
Proof.
  unfold Qc_min. destruct (Qc_leb a b) eqn:E1; destruct (Qc_leb b a) eqn:E2; try reflexivity.
  - apply Qc_leb_le in E1. apply Qc_leb_le in E2. apply Qcle_antisym; assumption.
  - apply Qc_leb_false in E1. apply Qc_leb_false in E2. exfalso. exact (Qclt_not_le _ _ E1 (Qclt_le_weak _ _ E2)).
Qed.

Lemma eqb_false_neq (a b : Qc) : Qc_eqb a b = false -> a <> b.
Proof. apply Qc_eqb_false. Qed.

(* ------------------------------------------------------------------ one dimension of the entry = R1 of the hand model *)
(* the value the second loop multiplies with, in the branch point_i[d] != point_j[d] *)
Lemma offdiag_term (pi pj : Qc) : pi <> pj ->
  let m := 1 / Qc_abs (pi - pj) in let a := Qc_min pi pj in let b := Qc_max pi pj in
  (py_Qc 1 2 * Qcpower m 2 * Qcpower b 2 * (a + b) - py_Z2Qc 1 / py_Z2Qc 3 * Qcpower m 2 * Qcpower b 3
   - b * (m * a + py_Z2Qc 1) * (m * b - py_Z2Qc 1))
  - (py_Qc 1 2 * Qcpower m 2 * Qcpower a 2 * (a + b) - py_Z2Qc 1 / py_Z2Qc 3 * Qcpower m 2 * Qcpower a 3
     - a * (m * a + py_Z2Qc 1) * (m * b - py_Z2Qc 1))
  = integral_calc b m a b - integral_calc a m a b.
Proof.
  intros _. cbv zeta. unfold integral_calc. rewrite c_half, z_one, z_three, !pow2, !pow3. ring.
Qed.

Theorem gen_R_value_is_model : forall ti tj, length tj = length ti ->
  DensityEstimation_calculate_R_value_analytically (Z.of_nat (length ti)) (pts_of ti) (doms_of ti) (pts_of tj) (doms_of tj)
  = Some (Rval ti tj).
Proof.
  intros ti tj Hl. unfold DensityEstimation_calculate_R_value_analytically, Rval.
  rewrite py_range_seq0, py_for_map'.
  rewrite (py_for_search (fun k => negb (in_dom (nth k ti d0) (nth k tj d0))) (py_Qc 0 1)).
  2:{ intros k Hk. apply in_seq in Hk. unfold pts_of, doms_of.
      rewrite !getitem_map by lia. cbn [bindE bindO dom fst snd]. unfold in_dom.
      destruct (Qc_leb (h_lo (nth k ti d0)) (h_p (nth k tj d0))); cbn [bindE andb negb]; [|reflexivity].
      destruct (Qc_leb (h_p (nth k tj d0)) (h_hi (nth k ti d0))); reflexivity. }
  rewrite existsb_negb_forallb.
  rewrite (forallb_ext_in _ (fun k => in_dom (nth k ti d0) (nth k tj d0))) by (intros k _; apply negb_involutive).
  rewrite <- (forallb2_seq d0 in_dom ti tj Hl).
  destruct (forallb2 in_dom ti tj); cbn [negb bindF run_flow]; [|reflexivity].
  unfold pts_of at 1. rewrite py_len_nat, map_length, ?py_range2_from0, py_range_seq0, py_for_map'.
  rewrite (py_for_fold' (fun w k => w * R1 (nth k ti d0) (nth k tj d0))).
  - cbn [bindF run_flow]. rewrite (prod_seq d0 R1 ti tj _ Hl), c_one. f_equal; ring.
  - intros k w Hk. apply in_seq in Hk. unfold pts_of, doms_of.
    rewrite !getitem_map by lia. cbn [bindE dom fst snd].
    set (a := nth k ti d0). set (b := nth k tj d0). unfold R1.
    destruct (Qc_eqb (h_p a) (h_p b)) eqn:E; cbn [negb].
    + (* same node *)
      apply Qc_eqb_eq in E.
      destruct (Qc_eqb (h_p a) (h_lo a)) eqn:El; destruct (Qc_eqb (h_p a) (h_hi b)) eqn:Eh; cbn [negb bindE bindO bindF].
      * rewrite z_zero. f_equal; ring.
      * apply eqb_false_neq in Eh.
        assert (N2 : h_hi b - h_p b <> 0) by (rewrite <- E; apply sub_nz'; exact Eh).
        rewrite (py_fdiv_some _ _ (abs_nz _ N2)). cbn [bindO bindE].
        rewrite !(py_fdiv_some _ _ (three_nz _ (inv_nz _ (abs_nz _ N2)))). cbn [bindO bindE bindF].
        unfold integral_2. rewrite ?z_zero, ?z_one, ?z_three, ?c_one, ?pow3. f_equal; ring.
      * apply eqb_false_neq in El.
        assert (N1 : h_p a - h_lo a <> 0) by (apply sub_nz; exact El).
        rewrite (py_fdiv_some _ _ (abs_nz _ N1)). cbn [bindO bindE].
        rewrite !(py_fdiv_some _ _ (three_nz _ (inv_nz _ (abs_nz _ N1)))). cbn [bindO bindE bindF].
        unfold integral_1. rewrite ?z_zero, ?z_one, ?z_three, ?c_one, ?pow3. f_equal; ring.
      * apply eqb_false_neq in El. apply eqb_false_neq in Eh.
        assert (N1 : h_p a - h_lo a <> 0) by (apply sub_nz; exact El).
        assert (N2 : h_hi b - h_p b <> 0) by (rewrite <- E; apply sub_nz'; exact Eh).
        rewrite (py_fdiv_some _ _ (abs_nz _ N1)), (py_fdiv_some _ _ (abs_nz _ N2)). cbn [bindO bindE].
        rewrite !(py_fdiv_some _ _ (three_nz _ (inv_nz _ (abs_nz _ N1)))),
                !(py_fdiv_some _ _ (three_nz _ (inv_nz _ (abs_nz _ N2)))). cbn [bindO bindE bindF].
        unfold integral_1, integral_2. rewrite ?z_zero, ?z_one, ?z_three, ?c_one, ?pow3. f_equal; ring.
    + (* two different nodes *)
      apply eqb_false_neq in E.
      rewrite (py_fdiv_some _ _ (abs_nz _ (sub_nz _ _ E))). cbn [bindE bindF].
      rewrite c_one. f_equal. f_equal.
      (* robust against swapped arguments of min / max in the source *)
      rewrite ?(Qc_min_comm (h_p b) (h_p a)), ?(Qc_max_comm (h_p b) (h_p a)).
      apply (offdiag_term (h_p a) (h_p b) E).
Qed.

(* ------------------------------------------------------------------ hat_function_non_symmetric (basis not modified) *)
Lemma leb_false_ltb (a b : Qc) : Qc_leb a b = false -> Qc_ltb b a = true.
Proof. intro H. apply Qc_ltb_lt. apply Qc_leb_false. exact H. Qed.

Lemma prod_seq_x {A B} (dA : A) (dB : B) (g : A -> B -> Qc) : forall ts xs a, length xs = length ts ->
  fold_left (fun w k => w * g (nth k ts dA) (nth k xs dB)) (seq 0 (length xs)) a = a * prodQ (map2 g ts xs).
Proof.
  induction ts as [|t ts IH]; intros [|y xs] a H; try discriminate; [cbn; ring|].
  cbn [length seq fold_left map2 prodQ nth]. rewrite <- seq_shift, fold_left_map'. cbn [nth].
  rewrite (IH xs) by (simpl in H; lia). ring.
Qed.

Theorem gen_hat_non_symmetric_is_model : forall ts x, Forall proper ts -> length x = length ts ->
  DensityEstimation_hat_function_non_symmetric false (pts_of ts) (doms_of ts) x = Some (hat_nd hat_scalar ts x).
Proof.
  intros ts x Hp Hl. unfold DensityEstimation_hat_function_non_symmetric, hat_nd.
  cbn [bindE]. unfold pts_of, doms_of. rewrite !py_len_nat, !map_length, Hl, !Z.eqb_refl. cbn [andb py_assert negb].
  rewrite <- Hl. rewrite py_range_seq0, py_for_map'.
  rewrite (py_for_fold' (fun w k => w * hat_scalar (nth k ts d0) (nth k x 0))).
  - cbn [bindF run_flow]. rewrite (prod_seq_x d0 0 hat_scalar ts x _ Hl), c_one. f_equal; ring.
  - intros k w Hk. apply in_seq in Hk.
    rewrite !getitem_map by lia. rewrite !(getitem_list x 0) by lia. cbn [bindE dom fst snd].
    set (t := nth k ts d0). set (xv := nth k x 0).
    assert (Pt : proper t) by (apply (proj1 (Forall_forall _ _) Hp); apply nth_In; lia).
    destruct Pt as [P1 P2]. unfold hat_scalar.
    destruct (Qc_leb (h_p t) xv) eqn:E; cbn [bindF].
    + rewrite (py_fdiv_some _ _ (sub_nz' _ _ (lt_neq_qc _ _ P2))). cbn [bindE bindF]. rewrite c_one, c_zero. reflexivity.
    + rewrite (leb_false_ltb _ _ E). cbn [bindF].
      rewrite (py_fdiv_some _ _ (sub_nz' _ _ (lt_neq_qc _ _ P1))). cbn [bindE bindF]. rewrite c_one, c_zero. reflexivity.
Qed.

(* ------------------------------------------------------------------ hat_function (uniform grids) *)
Lemma qcpower_two (n : nat) : Qcpower (py_Z2Qc 2) n = qc_of_Z (2 ^ Z.of_nat n).
Proof.
  induction n as [|n IH]; [reflexivity|]. rewrite Nat2Z.inj_succ, Z.pow_succ_r by lia.
  cbn [Qcpower]. rewrite IH. rewrite qc_of_Z_mul. reflexivity.
Qed.

Lemma py_fpow_two (l : Z) : py_fpow (py_Z2Qc 2) l = Some (pow2z l).
Proof.
  unfold py_fpow, pow2z. destruct (0 <=? l)%Z eqn:E.
  - apply Z.leb_le in E. rewrite qcpower_two, Z2Nat.id by lia. reflexivity.
  - apply Z.leb_gt in E. assert (N : Qc_eqb (py_Z2Qc 2) 0 = false) by reflexivity. rewrite N.
    rewrite qcpower_two, Z2Nat.id by lia. f_equal. unfold Qcdiv. ring.
Qed.

Lemma prod_seq_u (g : Z -> Z -> Qc -> Qc) : forall lv iv xs a, length iv = length lv -> length xs = length lv ->
  fold_left (fun w k => w * g (nth k lv 0%Z) (nth k iv 0%Z) (nth k xs 0)) (seq 0 (length lv)) a
  = a * prodQ (map2 (fun li xd => g (fst li) (snd li) xd) (combine lv iv) xs).
Proof.
  induction lv as [|l lv IH]; intros [|i iv] [|y xs] a H1 H2; try discriminate; [cbn; ring|].
  cbn [length seq fold_left combine map2 prodQ nth fst snd]. rewrite <- seq_shift, fold_left_map'. cbn [nth].
  rewrite (IH iv xs) by (simpl in *; lia). ring.
Qed.

Theorem gen_hat_function_is_model : forall iv lv x, length iv = length lv -> length x = length lv ->
  DensityEstimation_hat_function iv lv x = Some (hat_u_nd hat_u lv iv x).
Proof.
  intros iv lv x H1 H2. unfold DensityEstimation_hat_function, hat_u_nd.
  rewrite py_len_nat, py_range_seq0, py_for_map'.
  rewrite (py_for_fold' (fun w k => w * hat_u (nth k lv 0%Z) (nth k iv 0%Z) (nth k x 0))).
  - cbn [bindF run_flow]. rewrite (prod_seq_u hat_u lv iv x _ H1 H2), c_one. f_equal; ring.
  - intros k w Hk. apply in_seq in Hk.
    rewrite (getitem_list lv 0%Z), (getitem_list x 0), (getitem_list iv 0%Z) by lia. cbn [bindE].
    rewrite py_fpow_two. cbn [bindE]. reflexivity.
Qed.

(* ------------------------------------------------------------------ check_adjacency *)
Theorem gen_check_adjacency_spec : forall iv jv, length jv = length iv ->
  DensityEstimation_check_adjacency iv jv = Some (forallb2 (fun i j => (Z.abs (i - j) <=? 1)%Z) iv jv).
Proof.
  intros iv jv Hl. unfold DensityEstimation_check_adjacency.
  rewrite py_len_nat, py_range_seq0, py_for_map'.
  rewrite (py_for_search (fun k => negb (Z.abs (nth k iv 0 - nth k jv 0) <=? 1)%Z) false).
  2:{ intros k Hk. apply in_seq in Hk.
      rewrite (getitem_list iv 0%Z), (getitem_list jv 0%Z) by lia. cbn [bindE].
      rewrite Z.gtb_ltb, Z.leb_antisym. destruct (1 <? Z.abs (nth k iv 0 - nth k jv 0))%Z; reflexivity. }
  rewrite existsb_negb_forallb.
  rewrite (forallb_ext_in _ (fun k => (Z.abs (nth k iv 0 - nth k jv 0) <=? 1)%Z)) by (intros k _; apply negb_involutive).
  rewrite <- (forallb2_seq 0%Z (fun i j => (Z.abs (i - j) <=? 1)%Z) iv jv Hl).
  destruct (forallb2 (fun i j => (Z.abs (i - j) <=? 1)%Z) iv jv); reflexivity.
Qed.

(* ------------------------------------------------------------------ consequences: what the generated entry IS *)
From SG Require Import Base.PolyInt Proofs.KronSOS Proofs.StripeSOS Proofs.GramKron.

Definition gen_entry (ti tj : list hatdom) : Qc :=
  match DensityEstimation_calculate_R_value_analytically (Z.of_nat (length ti)) (pts_of ti) (doms_of ti) (pts_of tj) (doms_of tj) with
  | Some v => v
  | None => 0
  end.

Lemma gen_entry_Rval ti tj : length tj = length ti -> gen_entry ti tj = Rval ti tj.
Proof. intro H. unfold gen_entry. rewrite (gen_R_value_is_model ti tj H). reflexivity. Qed.

Theorem gen_R_diagonal_is_integral (t : hatdom) : proper t ->
  DensityEstimation_calculate_R_value_analytically 1 [h_p t] [(h_lo t, h_hi t)] [h_p t] [(h_lo t, h_hi t)]
  = Some (pintegral (pmul (hat_left_poly t) (hat_left_poly t)) (h_lo t) (h_p t)
          + pintegral (pmul (hat_right_poly t) (hat_right_poly t)) (h_p t) (h_hi t)).
Proof.
  intro P. pose proof (gen_R_value_is_model [t] [t] eq_refl) as G. cbn [length Z.of_nat pts_of doms_of map] in G. unfold dom in G.
  change (Z.pos (Pos.of_succ_nat 0)) with 1%Z in G. rewrite G. f_equal.
  rewrite Rval1. unfold in_dom. destruct P as [P1 P2].
  rewrite (proj2 (Qc_leb_le _ _) (Qclt_le_weak _ _ P1)), (proj2 (Qc_leb_le _ _) (Qclt_le_weak _ _ P2)). cbn [andb].
  apply gram_same_is_integral. split; assumption.
Qed.

Theorem gen_R_neighbours_is_integral (ti tj : hatdom) :
  h_lo ti <= h_p tj -> h_p ti < h_p tj -> h_hi ti = h_p tj -> h_lo tj = h_p ti ->
  DensityEstimation_calculate_R_value_analytically 1 [h_p ti] [(h_lo ti, h_hi ti)] [h_p tj] [(h_lo tj, h_hi tj)]
  = Some (pintegral (pmul (hat_right_poly ti) (hat_left_poly tj)) (h_p ti) (h_p tj)).
Proof.
  intros L H E1 E2. pose proof (gen_R_value_is_model [ti] [tj] eq_refl) as G.
  cbn [length Z.of_nat pts_of doms_of map] in G. unfold dom in G. change (Z.pos (Pos.of_succ_nat 0)) with 1%Z in G. rewrite G. f_equal.
  rewrite Rval1. unfold in_dom. rewrite (proj2 (Qc_leb_le _ _) L). rewrite E1, (proj2 (Qc_leb_le _ _) (Qcle_refl _)). cbn [andb].
  apply gram_adjacent_is_integral; assumption.
Qed.

Lemma sym_matrix_ext' {T} (e1 e2 : T -> T -> Qc) lam pts :
  (forall a b, In a pts -> In b pts -> e1 a b = e2 a b) -> sym_matrix e1 lam pts = sym_matrix e2 lam pts.
Proof.
  induction pts as [|t ts IH]; intro H; [reflexivity|]. cbn [sym_matrix].
  rewrite (H t t) by (left; reflexivity).
  assert (M : map (e1 t) ts = map (e2 t) ts).
  { apply map_ext_in. intros b Hb. apply H; [left; reflexivity | right; exact Hb]. }
  rewrite M, IH; [reflexivity|]. intros a b Ha Hb. apply H; right; assumption.
Qed.

(* the matrix the double loop of build_R_matrix_dimension_wise assembles from the GENERATED entry function *)
Theorem gen_matrix_is_model stripes lam :
  sym_matrix gen_entry lam (grid_hats stripes) = R_matrix_nonuniform (grid_hats stripes) lam.
Proof.
  unfold R_matrix_nonuniform. apply sym_matrix_ext'. intros a b Ha Hb. apply gen_entry_Rval.
  unfold grid_hats in *. rewrite (cross_elem_length _ _ Ha), (cross_elem_length _ _ Hb). reflexivity.
Qed.

Theorem gen_matrix_positive_definite stripes lam v :
  Forall unit_stripe stripes -> 0 <= lam -> length v = length (grid_hats stripes) -> Exists (fun x => x <> 0) v ->
  0 < quad (sym_matrix gen_entry lam (grid_hats stripes)) v.
Proof. intros. rewrite gen_matrix_is_model. apply gram_grid_positive_definite; assumption. Qed.

(* the generated d-dimensional entry is the product of the generated one-dimensional entries *)
Theorem gen_entry_product a b ti tj : length tj = length ti ->
  gen_entry (a :: ti) (b :: tj) = gen_entry [a] [b] * gen_entry ti tj.
Proof.
  intro H. rewrite !gen_entry_Rval by (cbn [length]; congruence). apply Rval_cons.
Qed.
