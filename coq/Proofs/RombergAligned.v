(* C11 — the keys of the collected weight dictionary are EXACTLY the grid points, in grid order, for every grid the model
   accepts and every grouping / slice version / container version / balancing flag.  Hence the list returned by get_weights
   is aligned with the grid: it sums to b - a and has the exact first moment (not only the dictionary).
   Ingredients: (1) the last pair of the support sequence of slice i is (i, i+1) for ARBITRARY level vectors; (2) two
   strictly increasing lists with the same elements are equal; dictionaries keep their keys strictly increasing. *)
From Coq Require Import ZArith List QArith Qcanon Bool Arith Lia.
From SG Require Import Base.QcUtil Model.Romberg Proofs.RombergBasics Proofs.RombergCoeff Proofs.RombergTree
  Proofs.RombergSliced Proofs.RombergBalanced Proofs.RombergExact Proofs.RombergGrouped Proofs.RombergFuel Proofs.RombergSimpson
  Proofs.RombergAnnihilate Proofs.RombergEM Proofs.RombergDegree Proofs.RombergComplete Proofs.RombergForced
  Proofs.RombergUnit Proofs.RombergUnitAccept Proofs.RombergBalancedDegree Proofs.RombergSimpsonDegree Proofs.RombergNormLevels
  Proofs.RombergAccept.
Import ListNotations.
Open Scope Qc_scope.

(* ---------------------------------------------------------------------------------------------- *)
(* (2) strictly increasing lists are determined by their elements *)

Theorem ssorted_same_elements l1 : forall l2, ssorted l1 -> ssorted l2 -> (forall x, In x l1 <-> In x l2) -> l1 = l2.
Proof.
  induction l1 as [|x1 l1 IH]; intros l2 S1 S2 H.
  - destruct l2 as [|x2 l2]; [reflexivity|]. exfalso. apply (proj2 (H x2)). left. reflexivity.
  - destruct l2 as [|x2 l2]; [exfalso; apply (proj1 (H x1)); left; reflexivity|].
    destruct S1 as [A1 S1]. destruct S2 as [A2 S2].
    assert (E : x1 = x2).
    { destruct (proj1 (H x1) (or_introl eq_refl)) as [E|I1]; [symmetry; exact E|].
      destruct (proj2 (H x2) (or_introl eq_refl)) as [E|I2]; [exact E|].
      exfalso. assert (L1 := A2 x1 I1). assert (L2 := A1 x2 I2). exact (Qclt_not_eq _ _ (Qclt_trans _ _ _ L1 L2) eq_refl). }
    subst x2. f_equal. apply IH; [exact S1 | exact S2|].
    intro x. split; intro I.
    + destruct (proj1 (H x) (or_intror I)) as [E|I']; [|exact I']. subst x. exfalso. exact (Qclt_not_eq _ _ (A1 x1 I) eq_refl).
    + destruct (proj2 (H x) (or_intror I)) as [E|I']; [|exact I']. subst x. exfalso. exact (Qclt_not_eq _ _ (A2 x1 I) eq_refl).
Qed.

Lemma adjacent_lt_ssorted l : (forall j, (S j < length l)%nat -> nth j l 0 < nth (S j) l 0) -> ssorted l.
Proof.
  induction l as [|x l IH]; intro H; [exact I|]. split.
  - assert (G : forall n y, nth_error l n = Some y -> x < y).
    { induction n as [|n IHn]; intros y Hy.
      - destruct l as [|z l']; [discriminate|]. injection Hy as <-. exact (H 0%nat ltac:(simpl; lia)).
      - assert (Ln : (S n < length l)%nat) by (apply nth_error_Some; congruence).
        destruct (nth_error l n) as [z|] eqn:En; [|apply nth_error_None in En; lia].
        apply Qclt_trans with z; [exact (IHn z eq_refl)|].
        assert (X := H (S n) ltac:(simpl; lia)). cbn [nth] in X.
        rewrite (nth_error_nth l n 0 En), (nth_error_nth l (S n) 0 Hy) in X. exact X. }
    intros y Hy. apply In_nth_error in Hy. destruct Hy as [n Hn]. exact (G n y Hn).
  - apply IH. intros j Hj. exact (H (S j) ltac:(simpl; lia)).
Qed.

Lemma dict_add_has k v d : In k (map fst (dict_add k v d)) /\ forall x, In x (map fst d) -> In x (map fst (dict_add k v d)).
Proof.
  induction d as [|[k' v'] d [IH1 IH2]]; simpl; [split; [left; reflexivity | intros x []]|].
  destruct (Qc_eqb k k') eqn:E.
  - apply Qc_eqb_eq in E. subst. simpl. split; [left; reflexivity | intros x Hx; exact Hx].
  - destruct (Qc_ltb k k'); simpl.
    + split; [left; reflexivity | intros x Hx; right; exact Hx].
    + split; [right; exact IH1 | intros x [Hx|Hx]; [left; exact Hx | right; exact (IH2 x Hx)]].
Qed.

Lemma dict_of_complete cs x : In x (map fst cs) -> In x (map fst (dict_of cs)).
Proof.
  unfold dict_of.
  assert (G : forall d, (In x (map fst cs) \/ In x (map fst d)) ->
                        In x (map fst (fold_left (fun d kv => dict_add (fst kv) (snd kv) d) cs d))).
  { induction cs as [|[k v] cs IH]; intros d H; cbn [fold_left]; [destruct H as [[]|H]; exact H|].
    apply IH. destruct H as [[E|H]|H].
    - right. cbn [fst] in E. subst. exact (proj1 (dict_add_has x v d)).
    - left. exact H.
    - right. exact (proj2 (dict_add_has k v d) x H). }
  intro H. apply G. left. exact H.
Qed.

Lemma opt_concat_In {A B} (f : A -> option (list B)) l : forall cs, opt_concat (map f l) = Some cs ->
  forall z, In z cs <-> exists a y, In a l /\ f a = Some y /\ In z y.
Proof.
  induction l as [|a l IH]; intros cs H z; simpl in H.
  - injection H as <-. split; [intros [] | intros [a [y [[] _]]]].
  - destruct (f a) as [y|] eqn:E; [|discriminate]. destruct (opt_concat (map f l)) as [ys|] eqn:E2; [|discriminate].
    injection H as <-. split.
    + intro I. apply in_app_or in I. destruct I as [I|I].
      * exists a, y. split; [left; reflexivity | split; assumption].
      * apply (IH ys eq_refl) in I. destruct I as [a' [y' [Ia [Ey Iz]]]]. exists a', y'. split; [right; exact Ia | split; assumption].
    + intros [a' [y' [[<-|Ia] [Ey Iz]]]]; apply in_or_app.
      * left. rewrite E in Ey. injection Ey as <-. exact Iz.
      * right. apply (IH ys eq_refl). exists a', y'. split; [exact Ia | split; assumption].
Qed.

(* ---------------------------------------------------------------------------------------------- *)
(* (1) support sequences for ARBITRARY level vectors: indices stay inside the range, the last pair is the slice itself *)

Lemma supp_rec_bounds levels fs : forall fuel start stop p, In p (supp_rec fuel levels start stop fs) ->
  (start <= fst p <= stop /\ start <= snd p <= stop)%nat.
Proof.
  induction fuel as [|f IH]; intros start stop p H; [destruct H|]. cbn [supp_rec] in H.
  destruct (Nat.leb_spec stop start) as [_|Lt]; [destruct H|].
  destruct (slice_list levels (S start) stop) as [|x sl] eqn:E; [destruct H|].
  assert (L := slice_list_length levels (S start) stop). rewrite E in L.
  assert (A : (argmin (x :: sl) < length (x :: sl))%nat) by (apply argmin_lt; discriminate).
  set (nb := (S start + argmin (x :: sl))%nat) in *.
  destruct (Nat.leb_spec nb fs) as [_|_]; cbn [fst snd] in H; destruct H as [<-|H]; cbn [fst snd]; try (unfold nb; lia);
    apply IH in H; unfold nb in *; lia.
Qed.

Lemma slice_list_length_exact {A} (l : list A) start stop : (stop <= length l)%nat ->
  length (slice_list l start stop) = (stop - start)%nat.
Proof. intro H. unfold slice_list. rewrite firstn_length, skipn_length. lia. Qed.

Lemma last_cons2 {A} (a b : A) l d : last (a :: b :: l) d = last (b :: l) d.
Proof. reflexivity. Qed.

Theorem supp_rec_last levels i : forall fuel start stop,
  (stop - start <= fuel)%nat -> (start <= i < stop)%nat -> (stop <= length levels)%nat ->
  last ((start, stop) :: supp_rec fuel levels start stop i) (0%nat, 0%nat) = (i, S i).
Proof.
  induction fuel as [|f IH]; intros start stop Hf Hi Hl; [lia|]. cbn [supp_rec].
  destruct (Nat.leb_spec stop start) as [C|_]; [lia|].
  destruct (slice_list levels (S start) stop) as [|x sl] eqn:E.
  - assert (L := slice_list_length_exact levels (S start) stop Hl). rewrite E in L. simpl in L.
    assert (stop = S start) by lia. assert (i = start) by lia. subst. reflexivity.
  - assert (L := slice_list_length_exact levels (S start) stop Hl). rewrite E in L.
    assert (A : (argmin (x :: sl) < length (x :: sl))%nat) by (apply argmin_lt; discriminate).
    set (nb := (S start + argmin (x :: sl))%nat) in *.
    destruct (Nat.leb_spec nb i) as [Le|Gt]; cbn [fst snd].
    + rewrite last_cons2. apply IH; unfold nb in *; lia.
    + rewrite last_cons2. apply IH; unfold nb in *; lia.
Qed.

Lemma last_map {A B} (f : A -> B) l d : l <> [] -> last (map f l) (f d) = f (last l d).
Proof.
  induction l as [|x l IH]; intro H; [congruence|]. destruct l as [|y l]; [reflexivity|].
  change (last (map f (x :: y :: l)) (f d)) with (last (map f (y :: l)) (f d)).
  change (last (x :: y :: l) d) with (last (y :: l) d). apply IH. discriminate.
Qed.

Lemma last_nth_len {A} (l : list A) d : l <> [] -> nth (length l - 1) l d = last l d.
Proof.
  induction l as [|x l IH]; intro H; [congruence|]. destruct l as [|y l]; [reflexivity|].
  replace (length (x :: y :: l) - 1)%nat with (S (length (y :: l) - 1)) by (simpl; lia). cbn [nth].
  change (last (x :: y :: l) d) with (last (y :: l) d). apply IH. discriminate.
Qed.

Lemma last_indep {A} (l : list A) d d' : l <> [] -> last l d = last l d'.
Proof.
  induction l as [|x l IH]; intro H; [congruence|]. destruct l as [|y l]; [reflexivity|].
  change (last (x :: y :: l) d) with (last (y :: l) d). change (last (x :: y :: l) d') with (last (y :: l) d'). apply IH. discriminate.
Qed.

(* the support sequence of slice i: all points are grid points, the last pair is (x_i, x_(i+1)) *)
Lemma support_sequence_facts (grid : list Qc) levels i : length grid = length levels -> (S i < length grid)%nat ->
  (forall p, In p (support_sequence grid levels i) -> In (fst p) grid /\ In (snd p) grid) /\
  last (support_sequence grid levels i) (0, 0) = (nthQ grid i, nthQ grid (S i)).
Proof.
  intros HL Hi. unfold support_sequence, support_sequence_idx. rewrite <- HL. split.
  - intros p Hp. apply in_map_iff in Hp. destruct Hp as [[s e] [<- Hse]]. cbn [fst snd].
    assert (B : (s <= length grid - 1 /\ e <= length grid - 1)%nat).
    { destruct Hse as [E|Hse]; [injection E as <- <-; lia|]. apply supp_rec_bounds in Hse. cbn [fst snd] in Hse. lia. }
    unfold nthQ. split; apply nth_In; lia.
  - set (F := fun se : nat * nat => (nthQ grid (fst se), nthQ grid (snd se))).
    set (idx := (0%nat, (length grid - 1)%nat) :: supp_rec (length grid) levels 0 (length grid - 1) i).
    rewrite (last_indep (map F idx) (0, 0) (F (0%nat, 0%nat))) by discriminate.
    rewrite last_map by discriminate. unfold idx.
    rewrite supp_rec_last by lia. reflexivity.
Qed.

(* ---------------------------------------------------------------------------------------------- *)
(* slices created by __init_grid_slices *)

Definition sfact (gr : list Qc) (lv : list nat) (a b : Qc) (s : slice) : Prop :=
  exists i, (S i < length gr)%nat /\ make_slice gr lv a b i = Some s.

Lemma slice_facts gr lv a b s : length gr = length lv -> sfact gr lv a b s ->
  In (sl_l s) gr /\ In (sl_r s) gr /\ (forall p, In p (sl_supp s) -> In (fst p) gr /\ In (snd p) gr) /\
  last (sl_supp s) (0, 0) = (sl_l s, sl_r s) /\ length (sl_supp s) = S (sl_max_level s).
Proof.
  intros HL [i [Hi H]]. unfold make_slice in H. destruct (Qc_eqb _ _); [|discriminate].
  match type of H with context [slice_ok ?x] => destruct (slice_ok x) eqn:OK end; [|discriminate].
  injection H as <-. cbn [sl_l sl_r sl_supp].
  destruct (support_sequence_facts gr lv i HL Hi) as [A B].
  unfold slice_ok in OK. apply andb_prop in OK. destruct OK as [_ OK]. apply Nat.eqb_eq in OK. cbn [sl_supp] in OK.
  unfold nthQ. split; [apply nth_In; lia|]. split; [apply nth_In; lia|]. split; [exact A|]. split; [exact B | exact OK].
Qed.

Lemma slice_final_keys gr sv s y :
  (forall p, In p (sl_supp s) -> In (fst p) gr /\ In (snd p) gr) -> In (sl_l s) gr -> In (sl_r s) gr ->
  last (sl_supp s) (0, 0) = (sl_l s, sl_r s) -> length (sl_supp s) = S (sl_max_level s) ->
  slice_final sv s = Some y ->
  (forall x, In x (map fst y) -> In x gr) /\ In (sl_l s) (map fst y) /\ In (sl_r s) (map fst y).
Proof.
  intros Hs Hl Hr Hlast Hlen H. destruct sv; cbn [slice_final] in H.
  - unfold romberg_slice_final in H. destruct (sl_supp s) as [|[a0 b0] rest] eqn:ES; [discriminate|]. rewrite <- ES in *.
    set (m := sl_max_level s) in *.
    set (G := fun level : nat =>
        let '(L, R) := nth level (sl_supp s) (0, 0) in
        match romberg_slice_pair s L R with
        | Some (wl, wr) => Some [(L, romberg_coefficient a0 b0 2 m level * wl); (R, romberg_coefficient a0 b0 2 m level * wr)]
        | None => None
        end) in *.
    assert (KI := opt_concat_In G (seq 0 (S m)) y H).
    split; [|].
    + intros x Hx. apply in_map_iff in Hx. destruct Hx as [z [<- Hz]]. apply KI in Hz.
      destruct Hz as [level [y' [Hlev [Gy Hz]]]]. apply in_seq in Hlev. unfold G in Gy.
      destruct (nth level (sl_supp s) (0, 0)) as [L R] eqn:EN.
      assert (Ip : In (L, R) (sl_supp s)) by (rewrite <- EN; apply nth_In; lia).
      destruct (Hs _ Ip) as [A B]. cbn [fst snd] in A, B.
      destruct (romberg_slice_pair s L R) as [[wl wr]|]; [|discriminate]. injection Gy as <-.
      destruct Hz as [<-|[<-|[]]]; assumption.
    + destruct (opt_concat_some G (seq 0 (S m)) y m H ltac:(apply in_seq; lia)) as [ym Gm].
      assert (EN : nth m (sl_supp s) (0, 0) = (sl_l s, sl_r s)).
      { rewrite <- Hlast. replace m with (length (sl_supp s) - 1)%nat by lia. apply last_nth_len. rewrite ES. discriminate. }
      assert (Gm' := Gm). unfold G in Gm'. rewrite EN in Gm'.
      destruct (romberg_slice_pair s (sl_l s) (sl_r s)) as [[wl wr]|]; [|discriminate]. injection Gm' as <-.
      split; apply in_map_iff.
      * eexists. split; [|apply KI; exists m; eexists; split; [apply in_seq; lia | split; [exact Gm | left; reflexivity]]]. reflexivity.
      * eexists. split; [|apply KI; exists m; eexists; split; [apply in_seq; lia | split; [exact Gm | right; left; reflexivity]]]. reflexivity.
  - unfold trapezoid_slice_final in H. injection H as <-. cbn [map fst].
    split; [intros x [<-|[<-|[]]]; assumption | split; [left; reflexivity | right; left; reflexivity]].
Qed.

(* ---------------------------------------------------------------------------------------------- *)
(* containers *)

Lemma Forall2_map_fst {A} (F : A -> option (Qc * Qc)) (G : A -> Qc) l ys :
  Forall2 (fun i y => F i = Some y) l ys -> (forall i y, F i = Some y -> fst y = G i) -> map fst ys = map G l.
Proof. induction 1 as [|i y l ys Hy _ IH]; intro H; [reflexivity|]. cbn [map]. rewrite (H i y Hy), IH by exact H. reflexivity. Qed.

Lemma multi_container_keys lo sv cv s1 s2 c' y :
  container_final_from lo sv cv (s1 :: s2 :: c') = Some y -> map fst y = container_grid (s1 :: s2 :: c').
Proof.
  unfold container_final_from. intro H. apply opt_list_Forall2 in H.
  set (cg := container_grid (s1 :: s2 :: c')) in *.
  rewrite (Forall2_map_fst _ (nthQ cg) _ _ H).
  - transitivity (map (fun x : Qc => x) cg); [|apply map_id]. exact (map_nth_seq (fun x : Qc => x) cg 0).
  - intros i yy Hy. destruct (Nat.eqb i 0 || Nat.eqb i (length cg - 1)); [injection Hy as <-; reflexivity|].
    destruct cv.
    + destruct (trap_inner_weight _ _ _ _ _); [injection Hy as <-; reflexivity | discriminate].
    + destruct (simpson_inner_weight_from _ _ _ _ _); [injection Hy as <-; reflexivity | discriminate].
Qed.

Lemma container_grid_cons s s2 c : container_grid (s :: s2 :: c) = sl_l s :: container_grid (s2 :: c).
Proof. reflexivity. Qed.

Lemma container_grid_members : forall c, c <> [] -> chain c ->
  (forall s, In s c -> In (sl_l s) (container_grid c) /\ In (sl_r s) (container_grid c)) /\
  (forall x, In x (container_grid c) -> exists s, In s c /\ (x = sl_l s \/ x = sl_r s)).
Proof.
  induction c as [|s c IH]; intros Hne Hc; [congruence|]. destruct c as [|s2 c].
  - unfold container_grid. cbn. split.
    + intros s' [<-|[]]. split; [left; reflexivity | right; left; reflexivity].
    + intros x [<-|[<-|[]]]; exists s; (split; [left; reflexivity|]); [left | right]; reflexivity.
  - destruct Hc as [E Hc]. destruct (IH ltac:(discriminate) Hc) as [A B]. rewrite container_grid_cons. split.
    + intros s' [<-|I].
      * split; [left; reflexivity|]. right. rewrite E. exact (proj1 (A s2 (or_introl eq_refl))).
      * destruct (A s' I) as [X Y]. split; right; assumption.
    + intros x [<-|I]; [exists s; split; [left; reflexivity | left; reflexivity]|].
      destruct (B x I) as [s' [Is Hx]]. exists s'. split; [right; exact Is | exact Hx].
Qed.

Lemma container_keys gr lv a b lo sv cv c y : length gr = length lv ->
  c <> [] -> chain c -> (forall s, In s c -> sfact gr lv a b s) ->
  container_final_from lo sv cv c = Some y ->
  (forall x, In x (map fst y) -> In x gr) /\ (forall s, In s c -> In (sl_l s) (map fst y) /\ In (sl_r s) (map fst y)).
Proof.
  intros HL Hne Hc Hs H. destruct c as [|s1 [|s2 c']]; [congruence| |].
  - change (container_final_from lo sv cv [s1]) with (slice_final sv s1) in H.
    destruct (slice_facts gr lv a b s1 HL (Hs s1 (or_introl eq_refl))) as [F1 [F2 [F3 [F4 F5]]]].
    destruct (slice_final_keys gr sv s1 y F3 F1 F2 F4 F5 H) as [A [B C]].
    split; [exact A|]. intros s [<-|[]]. split; assumption.
  - rewrite (multi_container_keys lo sv cv s1 s2 c' y H).
    destruct (container_grid_members (s1 :: s2 :: c') Hne Hc) as [A B]. split; [|exact A].
    intros x Hx. destruct (B x Hx) as [s [Is [-> | ->]]];
      destruct (slice_facts gr lv a b s HL (Hs s Is)) as [F1 [F2 _]]; assumption.
Qed.

(* ---------------------------------------------------------------------------------------------- *)
(* MAIN: the keys of the collected dictionary are the grid points in grid order *)

Lemma tree_points_levels_length t : forall lev, length (tree_points t) = length (tree_levels lev t).
Proof. induction t as [|l IHl p r IHr]; intro lev; [reflexivity|]. cbn [tree_points tree_levels]. rewrite !app_length, (IHl (S lev)), (IHr (S lev)). reflexivity. Qed.

Lemma Forall2_In_r {A B} (R : A -> B -> Prop) l ys y : Forall2 R l ys -> In y ys -> exists x, In x l /\ R x y.
Proof.
  induction 1 as [|x y' l ys Hxy _ IH]; intro I; [destruct I|].
  destruct I as [<-|I]; [exists x; split; [left; reflexivity | exact Hxy]|].
  destruct (IH I) as [x' [Ix Rx]]. exists x'. split; [right; exact Ix | exact Rx].
Qed.
Lemma Forall2_In_l {A B} (R : A -> B -> Prop) l ys x : Forall2 R l ys -> In x l -> exists y, In y ys /\ R x y.
Proof.
  induction 1 as [|x' y l ys Hxy _ IH]; intro I; [destruct I|].
  destruct I as [<-|I]; [exists y; split; [left; reflexivity | exact Hxy]|].
  destruct (IH I) as [y' [Iy Ry]]. exists y'. split; [right; exact Iy | exact Ry].
Qed.

Theorem dict_keys_are_grid lo g sv cv force grid levels r :
  extrapolation_grid_from lo g sv cv force grid levels = Some r -> map fst (er_dict r) = er_grid r.
Proof.
  unfold extrapolation_grid_from.
  destruct (Nat.eqb (length grid) (length levels) && (2 <=? length grid)%nat) eqn:Chk; [|discriminate].
  apply andb_prop in Chk. destruct Chk as [C1 C2]. apply Nat.eqb_eq in C1. apply Nat.leb_le in C2.
  destruct (if force then _ else _) as [[gr lv]|] eqn:EF; [|discriminate].
  assert (HL : length gr = length lv /\ (2 <= length gr)%nat).
  { destruct force.
    - destruct (init_tree grid levels) as [t|]; [|discriminate]. unfold tree_grid in EF. injection EF as <- <-.
      cbn [length]. rewrite !app_length, (tree_points_levels_length (force_full t) 1). cbn [length]. lia.
    - injection EF as <- <-. split; assumption. }
  destruct HL as [HL H2]. clear EF C1 C2.
  destruct (init_grid_slices gr lv) as [slices|] eqn:Es; [|discriminate].
  destruct (opt_concat _) as [cs|] eqn:Ec; [|discriminate].
  intro H. injection H as <-. cbn [er_dict er_grid].
  set (a := nthQ gr 0) in *. set (b := nthQ gr (length gr - 1)) in *.
  assert (F2 : Forall2 (fun i s => make_slice gr lv a b i = Some s) (seq 0 (length gr - 1)) slices).
  { unfold init_grid_slices in Es. apply opt_list_Forall2 in Es. exact Es. }
  assert (SF : forall s, In s slices -> sfact gr lv a b s).
  { intros s Is. destruct (Forall2_In_r _ _ _ s F2 Is) as [i [Ii Hi]]. apply in_seq in Ii. exists i. split; [lia | exact Hi]. }
  destruct (initial_containers_spec g slices) as [I1 I2].
  destruct (adjust_containers_spec g _ I2) as [A1 A2]. rewrite I1 in A1.
  destruct (init_grid_slices_chain gr lv slices Es) as [C L].
  set (conts := adjust_containers g (initial_containers g slices)) in *.
  assert (FC : Forall chain conts) by (apply chain_concat; rewrite A1; exact C).
  assert (CK : forall c y, In c conts -> container_final_from lo sv cv c = Some y ->
               (forall x, In x (map fst y) -> In x gr) /\ (forall s, In s c -> In (sl_l s) (map fst y) /\ In (sl_r s) (map fst y))).
  { intros c y Ic Hy. apply (container_keys gr lv a b lo sv cv c y HL).
    - exact (proj1 (proj1 (proj1 (Forall_forall _ _) A2 c Ic))).
    - exact (proj1 (Forall_forall _ _) FC c Ic).
    - intros s Is. apply SF. rewrite <- A1. apply in_concat. exists c. split; assumption.
    - exact Hy. }
  assert (KI := opt_concat_In (container_final_from lo sv cv) conts cs Ec).
  (* elements *)
  assert (EL : forall x, In x (map fst cs) <-> In x gr).
  { intro x. split.
    - intro Hx. apply in_map_iff in Hx. destruct Hx as [z [<- Hz]]. apply KI in Hz. destruct Hz as [c [y [Ic [Hy Hz]]]].
      apply (proj1 (CK c y Ic Hy)). apply in_map. exact Hz.
    - intro Hx. apply (In_nth _ _ 0) in Hx. destruct Hx as [j [Hj <-]].
      assert (ES : exists s, In s slices /\ (nth j gr 0 = sl_l s \/ nth j gr 0 = sl_r s)).
      { destruct (Nat.lt_ge_cases j (length gr - 1)) as [Lt|Ge].
        - destruct (Forall2_In_l _ _ _ j F2 ltac:(apply in_seq; lia)) as [s [Is Hs]]. exists s. split; [exact Is|]. left.
          rewrite (proj1 (make_slice_ends _ _ _ _ _ _ Hs)). reflexivity.
        - destruct (Forall2_In_l _ _ _ (length gr - 2)%nat F2 ltac:(apply in_seq; lia)) as [s [Is Hs]]. exists s. split; [exact Is|]. right.
          rewrite (proj2 (make_slice_ends _ _ _ _ _ _ Hs)). unfold nthQ. f_equal. lia. }
      destruct ES as [s [Is Hx]]. rewrite <- A1 in Is. apply in_concat in Is. destruct Is as [c [Ic Isc]].
      destruct (opt_concat_some _ _ _ c Ec Ic) as [y Hy].
      destruct (proj2 (CK c y Ic Hy) s Isc) as [K1 K2].
      assert (Kx : In (nth j gr 0) (map fst y)) by (destruct Hx as [->| ->]; assumption).
      apply in_map_iff in Kx. destruct Kx as [z [Ez Hz]]. apply in_map_iff. exists z. split; [exact Ez|].
      apply KI. exists c, y. split; [exact Ic | split; [exact Hy | exact Hz]]. }
  (* order *)
  assert (SG : ssorted gr).
  { apply adjacent_lt_ssorted. intros j Hj.
    destruct (Forall2_In_l _ _ _ j F2 ltac:(apply in_seq; lia)) as [s [Is Hs]].
    assert (Lt := make_slice_lt _ _ _ _ _ _ Hs). destruct (make_slice_ends _ _ _ _ _ _ Hs) as [E1 E2].
    rewrite E1, E2 in Lt. exact Lt. }
  destruct (dict_of_props cs) as [SD KD].
  apply ssorted_same_elements; [exact SD | exact SG|].
  intro x. split; intro Hx.
  - apply EL. apply KD. exact Hx.
  - apply dict_of_complete. apply EL. exact Hx.
Qed.

(* the list returned by get_weights: total and first moment, every accepted grid *)
Theorem returned_weights_consistent lo g sv force grid levels r :
  extrapolation_grid_from lo g sv CV_Default force grid levels = Some r ->
  length (er_weights r) = length (er_grid r) /\
  sumQ (er_weights r) = grid_b r - grid_a r /\ dotQ (er_grid r) (er_weights r) = half_sq (grid_a r) (grid_b r).
Proof.
  intro H. assert (K := dict_keys_are_grid _ _ _ _ _ _ _ _ H).
  destruct (sliced_weights_consistent lo g sv force grid levels r H) as [A B].
  split; [unfold er_weights; rewrite <- K, !map_length; reflexivity|]. split; [exact A|].
  rewrite (aligned_first_moment r K). exact B.
Qed.

Theorem returned_weights_consistent_simpson g sv force grid levels r :
  extrapolation_grid_from 1 g sv CV_Simpson force grid levels = Some r ->
  length (er_weights r) = length (er_grid r) /\
  sumQ (er_weights r) = grid_b r - grid_a r /\ dotQ (er_grid r) (er_weights r) = half_sq (grid_a r) (grid_b r).
Proof.
  intro H. assert (K := dict_keys_are_grid _ _ _ _ _ _ _ _ H).
  destruct (simpson_repair_weights_consistent g sv force grid levels r H) as [A B].
  split; [unfold er_weights; rewrite <- K, !map_length; reflexivity|]. split; [exact A|].
  rewrite (aligned_first_moment r K). exact B.
Qed.

Theorem returned_weights_consistent_unit lo sv cv force grid levels r :
  extrapolation_grid_from lo G_Unit sv cv force grid levels = Some r ->
  length (er_weights r) = length (er_grid r) /\
  sumQ (er_weights r) = grid_b r - grid_a r /\ dotQ (er_grid r) (er_weights r) = half_sq (grid_a r) (grid_b r).
Proof.
  intro H. assert (K := dict_keys_are_grid _ _ _ _ _ _ _ _ H).
  destruct (sliced_unit_weights_consistent lo sv cv force grid levels r H) as [A B].
  split; [unfold er_weights; rewrite <- K, !map_length; reflexivity|]. split; [exact A|].
  rewrite (aligned_first_moment r K). exact B.
Qed.

(* ... and every power moment of the returned list is that of the dictionary *)
Theorem returned_power_moment lo g sv cv force grid levels r k :
  extrapolation_grid_from lo g sv cv force grid levels = Some r ->
  dotQ (map (pw k) (er_grid r)) (er_weights r) = wpow k (er_dict r).
Proof. intro H. apply aligned_power_moment. exact (dict_keys_are_grid _ _ _ _ _ _ _ _ H). Qed.
