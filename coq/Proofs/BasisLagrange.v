(* C10 — Lagrange bases: Kronecker property for every list of distinct knots, the coded first derivative is the
   formal derivative of the Lagrange polynomial, restricted bases vanish on knots and outside the support. *)
From Coq Require Import ZArith List QArith Qcanon Bool Arith Lia.
From SG Require Import Base.QcUtil Base.PolyInt Base.PolyQ Model.Basis.
Import ListNotations.
Open Scope Qc_scope.

(* ------------------------------------------------------------------ products *)
Lemma prodQ_app a b : prodQ (a ++ b) = prodQ a * prodQ b.
Proof. induction a as [|x a IH]; simpl; [ring | rewrite IH; ring]. Qed.

Lemma prodQ_map_mul {A} (f g : A -> Qc) l :
  prodQ (map f l) * prodQ (map g l) = prodQ (map (fun k => f k * g k) l).
Proof. induction l as [|x l IH]; simpl; [ring | rewrite <- IH; ring]. Qed.

Lemma prodQ_map_ext_in {A} (f g : A -> Qc) l : (forall k, In k l -> f k = g k) -> prodQ (map f l) = prodQ (map g l).
Proof.
  induction l as [|x l IH]; intro H; simpl; [reflexivity|].
  rewrite (H x (or_introl eq_refl)), IH; [reflexivity|]. intros k Hk. apply H. right. exact Hk.
Qed.

Lemma prodQ_map_one {A} (f : A -> Qc) l : (forall k, In k l -> f k = 1) -> prodQ (map f l) = 1.
Proof.
  induction l as [|x l IH]; intro H; simpl; [reflexivity|].
  rewrite (H x (or_introl eq_refl)), IH; [ring|]. intros k Hk. apply H. right. exact Hk.
Qed.

Lemma prodQ_zero l : In 0 l -> prodQ l = 0.
Proof.
  induction l as [|x l IH]; intro H; simpl; [contradiction|].
  destruct H as [H|H]; [subst; ring | rewrite IH; [ring | exact H]].
Qed.

(* ------------------------------------------------------------------ others *)
Lemma others_In_other {A} (d : A) knots idx j :
  (j < length knots)%nat -> j <> idx -> In (nth j knots d) (others idx knots).
Proof.
  revert idx j; induction knots as [|k r IH]; intros idx j Hj Hne; simpl in Hj; [lia|].
  destruct idx as [|i]; destruct j as [|j]; simpl.
  - congruence.
  - apply nth_In. lia.
  - left. reflexivity.
  - right. apply IH; lia.
Qed.

Lemma others_not_In_self {A} (d : A) knots idx :
  NoDup knots -> (idx < length knots)%nat -> ~ In (nth idx knots d) (others idx knots).
Proof.
  revert idx; induction knots as [|k r IH]; intros idx Hnd Hi; simpl in Hi; [lia|].
  inversion Hnd as [|? ? Hnin Hnd']; subst.
  destruct idx as [|i]; simpl.
  - exact Hnin.
  - intros [H|H].
    + apply Hnin. rewrite H. apply nth_In. lia.
    + revert H. apply IH; [exact Hnd' | lia].
Qed.

Lemma others_incl {A} knots idx (x : A) : In x (others idx knots) -> In x knots.
Proof.
  revert idx; induction knots as [|k r IH]; intros idx H; simpl in H; [destruct idx; contradiction|].
  destruct idx as [|i]; [right; exact H|].
  destruct H as [H|H]; [left; exact H | right; exact (IH i H)].
Qed.

(* ------------------------------------------------------------------ Kronecker *)
Lemma lag_eval_as_quotients knots idx x :
  lag_eval knots idx x =
  prodQ (map (fun k => (x - k) * (1 / (nthQ knots idx - k))) (others idx knots)).
Proof. unfold lag_eval, lag_factor. apply prodQ_map_mul. Qed.

Lemma qc_sub_nz (a b : Qc) : a <> b -> a - b <> 0.
Proof. intros H E. apply H. rewrite <- (Qcplus_0_r b), <- E. ring. Qed.

(* 1 at its own knot: for EVERY list of pairwise distinct knots *)
Theorem lagrange_kronecker_one knots idx :
  NoDup knots -> (idx < length knots)%nat -> lag_eval knots idx (nthQ knots idx) = 1.
Proof.
  intros Hnd Hi. rewrite lag_eval_as_quotients. apply prodQ_map_one. intros k Hk.
  assert (Hne : nthQ knots idx <> k).
  { intro E. apply (others_not_In_self 0 knots idx Hnd Hi). unfold nthQ in E. rewrite E. exact Hk. }
  field. apply qc_sub_nz. exact Hne.
Qed.

(* 0 at every other knot (no distinctness needed) *)
Theorem lagrange_kronecker_zero knots idx j :
  (j < length knots)%nat -> j <> idx -> lag_eval knots idx (nthQ knots j) = 0.
Proof.
  intros Hj Hne. unfold lag_eval.
  assert (Z0 : prodQ (map (fun k => nthQ knots j - k) (others idx knots)) = 0).
  { apply prodQ_zero. apply in_map_iff. exists (nthQ knots j). split; [ring|].
    apply others_In_other; assumption. }
  rewrite Z0. ring.
Qed.

Theorem lagrange_kronecker knots idx j :
  NoDup knots -> (idx < length knots)%nat -> (j < length knots)%nat ->
  lag_eval knots idx (nthQ knots j) = if (j =? idx)%nat then 1 else 0.
Proof.
  intros Hnd Hi Hj. destruct (Nat.eqb_spec j idx) as [E|E].
  - subst. apply lagrange_kronecker_one; assumption.
  - apply lagrange_kronecker_zero; assumption.
Qed.

(* ------------------------------------------------------------------ the Lagrange polynomial and its formal derivative *)
Lemma peval_lag_poly c os x :
  peval (lag_poly c os) x = prodQ (map (fun k => (x - k) * (1 / (c - k))) os).
Proof.
  induction os as [|k r IH]; simpl.
  - ring.
  - rewrite peval_plin, IH. ring.
Qed.

Theorem lagrange_eval_is_polynomial knots idx x :
  lag_eval knots idx x = peval (lag_poly (nthQ knots idx) (others idx knots)) x.
Proof. rewrite peval_lag_poly. apply lag_eval_as_quotients. Qed.

Lemma loo_map_snd_cons {A} (f : A * list A -> Qc) (a : A) (l : list (A * list A)) :
  map f (map (fun bo => (fst bo, a :: snd bo)) l) = map (fun bo => f (fst bo, a :: snd bo)) l.
Proof. rewrite map_map. reflexivity. Qed.

Lemma lag_dfi_cons c x k r :
  lag_dfi c x (k :: r) =
  prodQ (map (fun kj => (x - kj) / (c - kj)) r) * (1 / (c - k)) + (x - k) / (c - k) * lag_dfi c x r.
Proof.
  unfold lag_dfi. cbn [loo map sumQ fst snd]. f_equal.
  rewrite map_map. cbn [fst snd map prodQ].
  induction (loo r) as [|e l IH]; cbn [map sumQ]; [ring|].
  rewrite IH. ring.
Qed.

Lemma lag_dfi_is_pderiv c x os : lag_dfi c x os = peval (pderiv (lag_poly c os)) x.
Proof.
  induction os as [|k r IH].
  - unfold lag_dfi. simpl. reflexivity.
  - rewrite lag_dfi_cons. cbn [lag_poly]. rewrite peval_pderiv_plin, <- IH, peval_lag_poly.
    assert (E : prodQ (map (fun kj => (x - kj) / (c - kj)) r) = prodQ (map (fun k0 => (x - k0) * (1 / (c - k0))) r)).
    { apply prodQ_map_ext_in. intros k0 _. unfold Qcdiv. ring. }
    rewrite E. unfold Qcdiv. ring.
Qed.

(* get_first_derivative (the double loop of derivative_for_index) is the formal derivative of the Lagrange polynomial *)
Theorem lagrange_derivative_is_formal_derivative knots idx x :
  lag_d1 knots idx x = peval (pderiv (lag_poly (nthQ knots idx) (others idx knots))) x.
Proof. unfold lag_d1. apply lag_dfi_is_pderiv. Qed.

(* get_second_derivative: sum_i 1/(c-k_i) * derivative_for_index(x, [index, i]) is the formal second derivative *)
Definition lag_d2_os (c x : Qc) (os : list Qc) : Qc :=
  sumQ (map (fun io => 1 / (c - fst io) * lag_dfi c x (snd io)) (loo os)).

Lemma lag_dfi_unfold c x os :
  lag_dfi c x os = sumQ (map (fun io => prodQ (map (fun kj => (x - kj) / (c - kj)) (snd io)) * (1 / (c - fst io))) (loo os)).
Proof. reflexivity. Qed.

Lemma lag_d2_os_cons c x k r :
  lag_d2_os c x (k :: r) = (1 + 1) * (1 / (c - k)) * lag_dfi c x r + (x - k) / (c - k) * lag_d2_os c x r.
Proof.
  unfold lag_d2_os. cbn [loo map sumQ fst snd]. rewrite map_map. cbn [fst snd].
  rewrite (lag_dfi_unfold c x r).
  induction (loo r) as [|e l IH]; cbn [map sumQ].
  - unfold Qcdiv. ring.
  - rewrite lag_dfi_cons.
    set (S := sumQ (map (fun io : Qc * list Qc => prodQ (map (fun kj : Qc => (x - kj) / (c - kj)) (snd io)) * (1 / (c - fst io))) l)) in *.
    set (T := sumQ (map (fun x0 : Qc * list Qc => 1 / (c - fst x0) * lag_dfi c x (k :: snd x0)) l)) in *.
    set (U := sumQ (map (fun io : Qc * list Qc => 1 / (c - fst io) * lag_dfi c x (snd io)) l)) in *.
    assert (ET : T = (1 + 1) * (1 / (c - k)) * S + (x - k) / (c - k) * U - 1 / (c - k) * S) by (rewrite <- IH; ring).
    rewrite ET. unfold Qcdiv. ring.
Qed.

Lemma lag_d2_os_is_pderiv2 c x os : lag_d2_os c x os = peval (pderiv (pderiv (lag_poly c os))) x.
Proof.
  induction os as [|k r IH].
  - unfold lag_d2_os. simpl. reflexivity.
  - rewrite lag_d2_os_cons. cbn [lag_poly]. rewrite peval_pderiv2_plin, <- IH, <- lag_dfi_is_pderiv.
    unfold Qcdiv. ring.
Qed.

Theorem lagrange_second_derivative_is_formal_second_derivative knots idx x :
  lag_d2 knots idx x = peval (pderiv (pderiv (lag_poly (nthQ knots idx) (others idx knots)))) x.
Proof. unfold lag_d2. apply lag_d2_os_is_pderiv2. Qed.

(* ------------------------------------------------------------------ restricted bases *)
Theorem restricted_vanishes_outside knots idx y :
  y < rl_lo knots idx \/ rl_hi knots idx < y -> rl_eval knots idx y = 0.
Proof.
  intros H. unfold rl_eval, rl_in_support.
  destruct (Qc_leb (rl_lo knots idx) y) eqn:E1; [|reflexivity].
  destruct (Qc_leb y (rl_hi knots idx)) eqn:E2; [|reflexivity].
  apply Qc_leb_le in E1. apply Qc_leb_le in E2. exfalso.
  destruct H as [H|H]; [exact (Qclt_not_le _ _ H E1) | exact (Qclt_not_le _ _ H E2)].
Qed.

Theorem restricted_vanishes_on_other_knots knots idx y :
  In y knots -> y <> nthQ knots idx -> rl_eval knots idx y = 0.
Proof.
  intros Hin Hne. unfold rl_eval. destruct (rl_in_support knots idx y); [|reflexivity].
  destruct (In_nth knots y 0 Hin) as [j [Hj Ej]]. unfold nthQ in *. rewrite <- Ej.
  apply (lagrange_kronecker_zero knots idx j Hj). intro E. subst j. apply Hne. symmetry. exact Ej.
Qed.

Lemma strictly_increasing_lt_tail x r : strictly_increasing (x :: r) = true -> forall y, In y r -> x < y.
Proof.
  revert x; induction r as [|z r IH]; intros x H y Hy; [contradiction|].
  cbn [strictly_increasing] in H. apply andb_true_iff in H. destruct H as [H1 H2].
  apply Qc_ltb_lt in H1. destruct Hy as [Hy|Hy]; [subst; exact H1|].
  apply Qclt_trans with z; [exact H1 | apply IH; assumption].
Qed.

Lemma strictly_increasing_NoDup l : strictly_increasing l = true -> NoDup l.
Proof.
  induction l as [|x r IH]; intro H; [constructor|].
  constructor.
  - intro Hin. apply (Qclt_not_le x x (strictly_increasing_lt_tail x r H x Hin)). apply Qcle_refl.
  - apply IH. destruct r as [|y r']; [reflexivity|].
    cbn [strictly_increasing] in H. apply andb_true_iff in H. exact (proj2 H).
Qed.

Lemma strictly_increasing_nth l i j :
  strictly_increasing l = true -> (i < j)%nat -> (j < length l)%nat -> nthQ l i < nthQ l j.
Proof.
  revert i j; induction l as [|x r IH]; intros i j H Hij Hj; simpl in Hj; [lia|].
  destruct j as [|j]; [lia|]. destruct i as [|i].
  - unfold nthQ. cbn [nth]. apply (strictly_increasing_lt_tail x r H). apply nth_In. lia.
  - unfold nthQ. cbn [nth]. apply IH; [|lia|lia].
    destruct r as [|y r']; [reflexivity|].
    cbn [strictly_increasing] in H. apply andb_true_iff in H. exact (proj2 H).
Qed.

(* own knot lies in the own support *)
Lemma restricted_support_contains_own knots idx :
  strictly_increasing knots = true -> (idx < length knots)%nat -> rl_in_support knots idx (nthQ knots idx) = true.
Proof.
  intros Hs Hi. unfold rl_in_support, rl_lo, rl_hi. apply andb_true_iff. split; apply Qc_leb_le.
  - destruct idx as [|i]; [apply Qcle_refl|].
    replace (S i - 1)%nat with i by lia. apply Qclt_le_weak. apply strictly_increasing_nth; [exact Hs|lia|exact Hi].
  - destruct (Nat.eq_dec (idx + 1) (length knots)) as [E|E].
    + replace (Nat.min (idx + 1) (length knots - 1)) with idx by lia. apply Qcle_refl.
    + replace (Nat.min (idx + 1) (length knots - 1)) with (idx + 1)%nat by lia.
      apply Qclt_le_weak. apply strictly_increasing_nth; [exact Hs|lia|lia].
Qed.

Theorem restricted_one_at_own_knot knots idx :
  strictly_increasing knots = true -> (idx < length knots)%nat -> rl_eval knots idx (nthQ knots idx) = 1.
Proof.
  intros Hs Hi. unfold rl_eval. rewrite restricted_support_contains_own by assumption.
  apply lagrange_kronecker_one; [apply strictly_increasing_NoDup; exact Hs | exact Hi].
Qed.

(* the vanishing witness of the structural checker is sound *)
Lemma index_of_In x l i : index_of x l = Some i -> In x l.
Proof.
  revert i; induction l as [|y r IH]; intros i H; simpl in H; [discriminate|].
  destruct (Qc_eqb x y) eqn:E.
  - apply Qc_eqb_eq in E. left. symmetry. exact E.
  - destruct (index_of x r) as [i'|]; [|discriminate]. right. apply (IH i'). reflexivity.
Qed.

Lemma memQ_In x l : memQ x l = true -> In x l.
Proof. unfold memQ. destruct (index_of x l) as [i|] eqn:E; [intros _; exact (index_of_In x l i E) | discriminate]. Qed.

Theorem restricted_vanishes_on_coarser knots idx y :
  rl_vanish_witness knots idx y = true -> rl_eval knots idx y = 0.
Proof.
  unfold rl_vanish_witness. intro H.
  apply orb_true_iff in H. destruct H as [H|H]; [apply orb_true_iff in H; destruct H as [H|H]|].
  - apply andb_true_iff in H. destruct H as [H1 H2].
    apply restricted_vanishes_on_other_knots; [apply memQ_In; exact H1|].
    intro E. apply negb_true_iff in H2. rewrite <- E in H2.
    assert (T : Qc_eqb y y = true) by (apply Qc_eqb_eq; reflexivity). congruence.
  - apply restricted_vanishes_outside. left. apply Qc_ltb_lt. exact H.
  - apply restricted_vanishes_outside. right. apply Qc_ltb_lt. exact H.
Qed.
