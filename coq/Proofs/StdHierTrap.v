(* C02 (hierarchical exactness), part 3: the composite trapezoidal sum (weights1, with and without boundary points) of
   the hat function hat1 a b tau i on the dyadic grid of level l: exact integral (b-a)/2^tau for l >= tau (interior
   hats), 0 for l < tau (hierarchical hats, i odd). Proof by telescoping the antiderivative hatF over the cells. *)
From Coq Require Import ZArith List Bool QArith Qcanon Lia.
From SG Require Import Base.QcUtil Model.CombiScheme Model.StdCombi Proofs.SchemeBasics Proofs.StdGrid Proofs.NodalExact
  Proofs.StdNodal Proofs.HatFacts Proofs.StdHier1D.
Import ListNotations.
Local Open Scope Qc_scope.
Local Arguments Z.add : simpl never.
Local Arguments Z.mul : simpl never.
Local Arguments Z.sub : simpl never.
Local Arguments Z.pow : simpl never.
Local Arguments Z.of_nat : simpl never.

(* ---------- list identities ---------- *)
Lemma dot_map_map {A} (f w : A -> Qc) l : dotQ (map f l) (map w l) = sumQ (map (fun i => f i * w i) l).
Proof. induction l as [|x l IH]; simpl; [reflexivity|]. rewrite IH. reflexivity. Qed.

Lemma dot_zero (g : Qc -> Qc) : forall xs ws, (forall p, In p xs -> g p = 0) -> dotQ (map g xs) ws = 0.
Proof.
  induction xs as [|x xs IH]; intros ws H; [reflexivity|].
  destruct ws as [|w ws]; [reflexivity|]. simpl. rewrite (H x (or_introl eq_refl)), IH; [ring|].
  intros p Hp. apply H. right. exact Hp.
Qed.

Definition wfun (N : nat) (h : Qc) (i : nat) : Qc := if (Nat.eqb i 0 || Nat.eqb i (N - 1))%bool then h * Qchalf else h.

Lemma strip_ends_map_seq {B} (f : nat -> B) m : strip_ends (map f (seq 0 (S (S m)))) = map f (seq 1 m).
Proof.
  unfold strip_ends. rewrite tl_map, removelast_map. change (tl (seq 0 (S (S m)))) with (seq 1 (S m)).
  rewrite removelast_seq. reflexivity.
Qed.

Lemma inner_weights G h m :
  sumQ (map (fun i => G i * wfun (S (S m)) h i) (seq 1 m)) = sumQ (map (fun i => G i * h) (seq 1 m)).
Proof.
  apply sumQ_map_ext. intros i Hi. apply in_seq in Hi. unfold wfun.
  replace (S (S m) - 1)%nat with (S m) by lia.
  destruct (Nat.eqb_spec i 0) as [E|_]; [lia|]. destruct (Nat.eqb_spec i (S m)) as [E|_]; [lia|]. reflexivity.
Qed.

Lemma full_weights G h m :
  sumQ (map (fun i => G i * wfun (S (S m)) h i) (seq 0 (S (S m))))
  = G 0%nat * (h * Qchalf) + sumQ (map (fun i => G i * h) (seq 1 m)) + G (S m) * (h * Qchalf).
Proof.
  change (seq 0 (S (S m))) with (0%nat :: seq 1 (S m)). rewrite (seq_S m 1). cbn [map sumQ]. rewrite map_app, sumQ_app.
  rewrite inner_weights. cbn [map sumQ]. replace (1 + m)%nat with (S m) by lia. unfold wfun at 1 2.
  replace (S (S m) - 1)%nat with (S m) by lia. cbn [Nat.eqb orb]. rewrite Nat.eqb_refl. ring.
Qed.

Lemma cells_sum G h : forall m s,
  sumQ (map (fun k => h * Qchalf * (G k + G (S k))) (seq s (S m)))
  = G s * (h * Qchalf) + sumQ (map (fun i => G i * h) (seq (S s) m)) + G (s + S m)%nat * (h * Qchalf).
Proof.
  induction m as [|m IH]; intro s.
  - cbn [seq map sumQ]. replace (s + 1)%nat with (S s) by lia. ring.
  - change (seq s (S (S m))) with (s :: seq (S s) (S m)). cbn [map sumQ]. rewrite (IH (S s)).
    change (seq (S s) (S m)) with (S s :: seq (S (S s)) m). cbn [map sumQ].
    replace (S s + S m)%nat with (s + S (S m))%nat by lia.
    rewrite (half_split (G (S s) * h)). ring.
Qed.

Lemma telescope_seq (Fk : nat -> Qc) : forall m s, sumQ (map (fun k => Fk (S k) - Fk k) (seq s m)) = Fk (s + m)%nat - Fk s.
Proof.
  induction m as [|m IH]; intro s.
  - cbn [seq map sumQ]. replace (s + 0)%nat with s by lia. ring.
  - cbn [seq map sumQ]. rewrite (IH (S s)). replace (S s + m)%nat with (s + S m)%nat by lia. ring.
Qed.

(* ---------- the two weight/point lists as maps over seq ---------- *)
Lemma grid1_full_seq a b l : grid1_full a b l = map (fun k => gpoint a b l (Z.of_nat k)) (seq 0 (Z.to_nat (2 ^ l + 1))).
Proof. unfold grid1_full, zrange. rewrite map_map. reflexivity. Qed.

Lemma trap_lists bd a b l (g : Qc -> Qc) m : Z.to_nat (2 ^ l + 1) = S (S m) ->
  let G := fun k => g (gpoint a b l (Z.of_nat k)) in
  let h := step a b l in
  dotQ (map g (grid1 bd a b l)) (weights1 bd a b l)
  = (if bd then G 0%nat * (h * Qchalf) + G (S m) * (h * Qchalf) else 0) + sumQ (map (fun i => G i * h) (seq 1 m)).
Proof.
  intros En G h. unfold grid1, weights1. rewrite grid1_full_seq. rewrite En.
  change (fun i : nat => if (Nat.eqb i 0 || Nat.eqb i (S (S m) - 1))%bool then (b - a) / qc_of_Z (2 ^ l) * Qchalf else (b - a) / qc_of_Z (2 ^ l))
    with (wfun (S (S m)) h).
  destruct bd.
  - rewrite map_map. rewrite (dot_map_map (fun k => g (gpoint a b l (Z.of_nat k))) (wfun (S (S m)) h)).
    transitivity (sumQ (map (fun i => G i * wfun (S (S m)) h i) (seq 0 (S (S m))))); [reflexivity|].
    rewrite (full_weights G h m). ring.
  - rewrite !strip_ends_map_seq. rewrite map_map.
    rewrite (dot_map_map (fun k => g (gpoint a b l (Z.of_nat k))) (wfun (S (S m)) h)).
    transitivity (sumQ (map (fun i => G i * wfun (S (S m)) h i) (seq 1 m))); [reflexivity|].
    rewrite (inner_weights G h m). ring.
Qed.

(* ---------- (i) fine grids ---------- *)
Theorem hat1_trap_fine bd a b tau i l : a < b -> (0 <= tau)%Z -> (tau <= l)%Z -> (1 <= i <= 2 ^ tau - 1)%Z ->
  dotQ (map (hat1 a b tau i) (grid1 bd a b l)) (weights1 bd a b l) = step a b tau.
Proof.
  intros Hab Ht Hl Hi. assert (0 <= l)%Z as Hl0 by lia. pose proof (pow2_pos l Hl0) as Hp.
  set (m := Z.to_nat (2 ^ l - 1)).
  assert (Z.to_nat (2 ^ l + 1) = S (S m)) as En by (unfold m; lia).
  set (G := fun k : nat => hat1 a b tau i (gpoint a b l (Z.of_nat k))). set (h := step a b l).
  transitivity ((if bd then G 0%nat * (h * Qchalf) + G (S m) * (h * Qchalf) else 0) + sumQ (map (fun i0 => G i0 * h) (seq 1 m))).
  { exact (trap_lists bd a b l (hat1 a b tau i) m En). }
  destruct (hat1_at_ends a b tau i Hab Ht Hi) as [Za Zb].
  assert (G 0%nat = 0) as G0.
  { unfold G. change (Z.of_nat 0) with 0%Z. rewrite gpoint_0. exact Za. }
  assert (G (S m) = 0) as Gm.
  { unfold G. replace (Z.of_nat (S m)) with (2 ^ l)%Z by (unfold m; lia). rewrite gpoint_top by exact Hl0. exact Zb. }
  assert ((if bd then G 0%nat * (h * Qchalf) + G (S m) * (h * Qchalf) else 0) + sumQ (map (fun i0 => G i0 * h) (seq 1 m))
          = G 0%nat * (h * Qchalf) + sumQ (map (fun i0 => G i0 * h) (seq 1 m)) + G (0 + S m)%nat * (h * Qchalf)) as ->.
  { replace (0 + S m)%nat with (S m) by lia. rewrite G0, Gm. destruct bd; ring. }
  rewrite <- (cells_sum G h m 0).
  set (c := gpoint a b tau i). set (H := step a b tau).
  assert (0 < H) as HH by (apply step_pos; assumption).
  set (Fk := fun k : nat => hatF c H (gpoint a b l (Z.of_nat k))).
  rewrite (sumQ_map_ext _ (fun k => Fk (S k) - Fk k)).
  2: { intros k _. unfold Fk, G. rewrite !hat1_as_hatc. fold c H.
       replace (Z.of_nat (S k)) with (Z.of_nat k + 1)%Z by lia.
       rewrite <- (hatc_trap_cell c H (gpoint a b l (Z.of_nat k)) (gpoint a b l (Z.of_nat k + 1)) HH).
       - rewrite gpoint_succ. fold h. ring.
       - apply gpoint_le; [exact Hab|exact Hl0|lia].
       - apply hat1_cell_region; assumption. }
  rewrite telescope_seq. unfold Fk. replace (Z.of_nat (0 + S m)) with (2 ^ l)%Z by (unfold m; lia).
  change (Z.of_nat 0) with 0%Z. rewrite gpoint_0, gpoint_top by exact Hl0.
  rewrite hatF_right, hatF_left; [ring|exact HH| |exact HH|].
  - unfold c, H. rewrite <- gpoint_pred.
    pose proof (gpoint_le a b tau 0 (i - 1) Hab Ht ltac:(lia)) as L. rewrite gpoint_0 in L. exact L.
  - unfold c, H. rewrite <- gpoint_succ.
    pose proof (gpoint_le a b tau (i + 1) (2 ^ tau) Hab Ht ltac:(lia)) as L. rewrite gpoint_top in L by exact Ht. exact L.
Qed.

(* ---------- (ii) coarse grids ---------- *)
Theorem hat1_trap_coarse bd a b tau i l : a < b -> (0 <= l)%Z -> (l < tau)%Z -> Z.odd i = true ->
  dotQ (map (hat1 a b tau i) (grid1 bd a b l)) (weights1 bd a b l) = 0.
Proof.
  intros Hab Hl Hlt Hodd. apply dot_zero. intros p Hp.
  apply (hat1_zero_on_coarse_grid a b tau i l p); try assumption. apply (grid1_sub_full bd a b l Hl p Hp).
Qed.

(* ---------- boundary hats (i = 0 or i = 2^tau), grids with boundary points ---------- *)
Lemma hat1_trap_full_F a b tau i l : a < b -> (0 <= tau)%Z -> (tau <= l)%Z ->
  dotQ (map (hat1 a b tau i) (grid1 true a b l)) (weights1 true a b l)
  = hatF (gpoint a b tau i) (step a b tau) b - hatF (gpoint a b tau i) (step a b tau) a.
Proof.
  intros Hab Ht Hl. assert (0 <= l)%Z as Hl0 by lia. pose proof (pow2_pos l Hl0) as Hp.
  set (m := Z.to_nat (2 ^ l - 1)).
  assert (Z.to_nat (2 ^ l + 1) = S (S m)) as En by (unfold m; lia).
  set (G := fun k : nat => hat1 a b tau i (gpoint a b l (Z.of_nat k))). set (h := step a b l).
  transitivity ((if true then G 0%nat * (h * Qchalf) + G (S m) * (h * Qchalf) else 0) + sumQ (map (fun i0 => G i0 * h) (seq 1 m))).
  { exact (trap_lists true a b l (hat1 a b tau i) m En). }
  transitivity (G 0%nat * (h * Qchalf) + sumQ (map (fun i0 => G i0 * h) (seq 1 m)) + G (0 + S m)%nat * (h * Qchalf)).
  { replace (0 + S m)%nat with (S m) by lia. cbv iota. ring. }
  rewrite <- (cells_sum G h m 0).
  set (c := gpoint a b tau i). set (H := step a b tau).
  assert (0 < H) as HH by (apply step_pos; assumption).
  set (Fk := fun k : nat => hatF c H (gpoint a b l (Z.of_nat k))).
  rewrite (sumQ_map_ext _ (fun k => Fk (S k) - Fk k)).
  2: { intros k _. unfold Fk, G. rewrite !hat1_as_hatc. fold c H.
       replace (Z.of_nat (S k)) with (Z.of_nat k + 1)%Z by lia.
       rewrite <- (hatc_trap_cell c H (gpoint a b l (Z.of_nat k)) (gpoint a b l (Z.of_nat k + 1)) HH).
       - rewrite gpoint_succ. fold h. ring.
       - apply gpoint_le; [exact Hab|exact Hl0|lia].
       - apply hat1_cell_region; assumption. }
  rewrite telescope_seq. unfold Fk. replace (Z.of_nat (0 + S m)) with (2 ^ l)%Z by (unfold m; lia).
  change (Z.of_nat 0) with 0%Z. rewrite gpoint_0, gpoint_top by exact Hl0. reflexivity.
Qed.

(* exact integral over [a,b] of the level-tau hat with index i: half of it for the two boundary hats *)
Definition hat1_int (a b : Qc) (tau i : Z) : Qc :=
  if ((i =? 0) || (i =? 2 ^ tau))%Z then step a b tau * Qchalf else step a b tau.

Lemma hatF_centre c H : 0 < H -> hatF c H c = H * Qchalf.
Proof.
  intro HH. rewrite hatF_up; [|exact HH| |]; [|qc_order|qc_order]. field. apply Qc_pos_neq0; exact HH.
Qed.

Theorem hat1_trap_fine_gen bd a b tau i l : a < b -> (0 <= tau)%Z -> (tau <= l)%Z -> (0 <= i <= 2 ^ tau)%Z ->
  (bd = false -> (1 <= i <= 2 ^ tau - 1)%Z) ->
  dotQ (map (hat1 a b tau i) (grid1 bd a b l)) (weights1 bd a b l) = hat1_int a b tau i.
Proof.
  intros Hab Ht Hl Hi Hbd. pose proof (pow2_pos tau Ht) as Hp. unfold hat1_int.
  assert (0 < step a b tau) as HH by (apply step_pos; assumption).
  destruct (Z.eqb_spec i 0) as [E0|N0].
  - destruct bd; [|specialize (Hbd eq_refl); lia]. subst i. cbn [orb].
    rewrite (hat1_trap_full_F a b tau 0 l Hab Ht Hl). rewrite gpoint_0. rewrite (hatF_centre a _ HH).
    rewrite hatF_right; [|exact HH|].
    + rewrite (half_split (step a b tau)) at 1. ring.
    + pose proof (gpoint_le a b tau 1 (2 ^ tau) Hab Ht ltac:(lia)) as L. rewrite gpoint_top in L by exact Ht.
      replace 1%Z with (0 + 1)%Z in L by lia. rewrite gpoint_succ, gpoint_0 in L. exact L.
  - destruct (Z.eqb_spec i (2 ^ tau)) as [E1|N1].
    + destruct bd; [|specialize (Hbd eq_refl); lia]. subst i. cbn [orb].
      rewrite (hat1_trap_full_F a b tau (2 ^ tau) l Hab Ht Hl). rewrite gpoint_top by exact Ht. rewrite (hatF_centre b _ HH).
      rewrite hatF_left; [ring|exact HH|].
      pose proof (gpoint_le a b tau 0 (2 ^ tau - 1) Hab Ht ltac:(lia)) as L. rewrite gpoint_0 in L.
      rewrite gpoint_pred, gpoint_top in L by exact Ht. exact L.
    + cbn [orb]. apply hat1_trap_fine; try assumption. lia.
Qed.
