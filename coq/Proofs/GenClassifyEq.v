(* C19 - the source-derived model coq/Gen/ClassifyGen.v (generated from sparseSpACE/DEMachineLearning.py by
   harness/translate/py2gallina_c19.py) instantiated with the primitives of Model/DataSet.v / Model/DataSetOff.v IS the hand-written model:
   g_classificate = classificate (with the label table) = classify_learned for trained classificators;
   g_internal_scaling = internal_scaling_o true (acceptance by same_scaling AND the accumulated affine maps, the three scaling calls, the
   out-of-range filter with the thresholds of the source, remove_samples). *)
From Coq Require Import ZArith List QArith Qcanon Bool Lia.
From SG Require Import Base.QcUtil Model.DataSet Model.DataSetOff Model.Classify Model.ClassifyLearn Gen.ClassifyGen.
Import ListNotations.
Open Scope Qc_scope.

(* ------------------------------------------------------------------ instantiation of the parameters *)
Definition i_neg (a : arg) : arg := match a with AScalar q => AScalar (- q) | AArr l => AArr (vneg l) end.
Definition i_lift (d : dso) (r : ds * bool) : dso * bool := (mkDSO (fst r) (soff d), snd r).
Definition i_shift (a : arg) (ov : bool) (d : dso) : dso * bool := i_lift d (shift_value a ov (base d)).
Definition i_scale (a : arg) (ov : bool) (d : dso) : dso * bool := i_lift d (scale_factor a ov (base d)).
Definition i_remove (v : variant) (idx : list Z) (d : dso) : dso * option dso :=
  (mkDSO (fst (remove_samples v idx (base d))) (soff d), option_map (fun x => mkDSO x (soff d)) (snd (remove_samples v idx (base d)))).
Definition i_take (t : list Z) (idx : list nat) : list Z := map (fun i => nth i t (Z.of_nat i)) idx.

Section Inst.
  Variables (v : variant) (Cls Pts : Type) (dof : Cls -> Pts -> list (list Qc)) (gl : dso -> list Z).

  Definition gi_classificate := g_classificate dso arg Cls Pts (list (list Qc)) (list Z) (list Z) (list Z) gl (fun l => l) dof (map argmax) i_take.
  Definition gi_internal_scaling := g_internal_scaling dso arg Cls (fun d => scaled (base d)) (fun a b => same_scaling v (base a) (base b)) same_affine
    i_shift i_scale (i_remove v) (fun d => values (base d)) i_neg AScalar.

  (* _classificate: the label table of the learning data indexed by the row-wise arg-max = classificate with the label table *)
  Theorem gen_classificate_eq cv (self : cobj dso arg Cls) pts : cv_labels cv = true ->
    gi_classificate self pts = classificate cv (gl (f_learning_data _ _ _ self)) (dof (f_classificators _ _ _ self) pts).
  Proof.
    intro H. unfold gi_classificate, g_classificate, classificate, i_take. rewrite map_map. apply map_ext. intro l.
    unfold class_of. rewrite H. reflexivity.
  Qed.

  (* _internal_scaling: acceptance / scaling calls / filter / removal = internal_scaling_o true (the repaired gate) *)
  Theorem gen_internal_scaling_eq st sd ld cls d : c_scaled_attrs st = base sd ->
    let r := gi_internal_scaling (mkCobj dso arg Cls sd ld (AArr (c_min st), AArr (c_max st)) (AArr (c_fac st)) cls) d in
    (base (fst r), snd r) = internal_scaling_o true v st sd d.
  Proof.
    intro Hst. cbv zeta. unfold gi_internal_scaling, g_internal_scaling, internal_scaling_o, internal_scaling.
    cbn [f_scaled_data f_data_range f_scale_factor fst snd andb]. rewrite Hst.
    change (index_where (fun x => existsb (fun y => Qc_ltb y (Q2Qc (2824657686286775 # 576460752303423488))) x
                                   || existsb (fun y => Qc_ltb (Q2Qc (8963063978392761 # 9007199254740992)) y) x)) with out_indices.
    destruct (scaled (base d)) eqn:Es.
    - destruct (same_affine sd d); cbn [negb];
        destruct (same_scaling v (base sd) (base d)) as [[|]|]; try reflexivity.
      unfold i_remove. destruct (remove_samples v (out_indices (values (base d))) (base d)) as [b [r|]]; reflexivity.
    - cbn [andb]. unfold i_shift, i_scale, i_lift, i_neg. cbn [base soff fst snd].
      destruct (shift_value (AArr (vneg (c_min st))) false (base d)) as [x1 e1]. cbn [fst snd]. destruct e1; [reflexivity|].
      destruct (scale_factor (AArr (c_fac st)) false x1) as [x2 e2]. cbn [fst snd]. destruct e2; [reflexivity|].
      change (Q2Qc (5764607523034235 # 1152921504606846976)) with c_lo.
      destruct (shift_value (AScalar c_lo) false x2) as [x3 e3]. cbn [fst snd]. destruct e3; [reflexivity|].
      unfold i_remove. cbn [base soff]. destruct (remove_samples v (out_indices (values x3)) x3) as [b [r|]]; reflexivity.
  Qed.
End Inst.

(* with the trained classificators of perform_classification: the generated _classificate is classify_learned *)
Theorem gen_classificate_trained cv (de : ds -> row -> Qc) lo learn (self : cobj dso arg (list (row -> Qc))) pts :
  cv_labels cv = true -> f_classificators _ _ _ self = classificators de lo learn ->
  gi_classificate (list (row -> Qc)) (list row) (fun cls p => densities_at cls p) (fun _ => lo) self pts = classify_learned cv de lo lo learn pts.
Proof.
  intros H Hc. rewrite (gen_classificate_eq _ _ _ _ cv self pts H). rewrite Hc. reflexivity.
Qed.
