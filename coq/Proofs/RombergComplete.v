(* C11 — the complete dyadic grid of depth m is ACCEPTED by the model for EVERY m (step-width assertion, support sequences
   of length max_level + 1), with GROUPED / GROUPED_OPTIMIZED its 2^m slices form ONE container, and the collected weights
   integrate x^k exactly for k <= 2m+1 - unconditionally, for every m >= 1, every interval a < b, both slice versions. *)
From Coq Require Import ZArith List QArith Qcanon Bool Arith Lia.
From SG Require Import Base.QcUtil Model.Romberg Proofs.RombergBasics Proofs.RombergCoeff Proofs.RombergTree
  Proofs.RombergSliced Proofs.RombergExact Proofs.RombergGrouped Proofs.RombergFuel Proofs.RombergAnnihilate Proofs.RombergEM Proofs.RombergDegree.
Import ListNotations.
Open Scope Qc_scope.

Local Notation hf := (/ (1 + 1)).

(* ---------------------------------------------------------------------------------------------- *)
(* adjacent levels of the complete tree: the larger one is always the depth *)

Fixpoint adjok (M : nat) (l : list nat) : Prop :=
  match l with
  | x :: ((y :: _) as r) => Nat.max x y = M /\ adjok M r
  | _ => True
  end.

Lemma adjok_glue M z : forall u v, adjok M (u ++ [z]) -> adjok M (z :: v) -> adjok M (u ++ z :: v).
Proof.
  induction u as [|x u IH]; intros v H1 H2; [exact H2|].
  destruct u as [|x2 u].
  - cbn [app] in *. destruct H1 as [E _]. split; [exact E | exact H2].
  - change ((x :: x2 :: u) ++ [z]) with (x :: x2 :: (u ++ [z])) in H1. destruct H1 as [E H1].
    change ((x :: x2 :: u) ++ z :: v) with (x :: x2 :: (u ++ z :: v)). split; [exact E|].
    exact (IH v H1 H2).
Qed.

Lemma adjok_full d : forall lev x y, (1 <= d)%nat -> (x <= lev + d - 1)%nat -> (y <= lev + d - 1)%nat ->
  adjok (lev + d - 1) ([x] ++ full_levels d lev ++ [y]).
Proof.
  induction d as [|d IH]; intros lev x y Hd Hx Hy; [lia|].
  destruct d as [|d'].
  - cbn. split; [lia|]. split; [lia | exact I].
  - change (full_levels (S (S d')) lev) with (full_levels (S d') (S lev) ++ [lev] ++ full_levels (S d') (S lev)).
    set (L := full_levels (S d') (S lev)).
    replace (lev + S (S d') - 1)%nat with (S lev + S d' - 1)%nat in * by lia.
    assert (A := IH (S lev) x lev ltac:(lia) Hx ltac:(lia)). fold L in A.
    assert (B := IH (S lev) lev y ltac:(lia) ltac:(lia) Hy). fold L in B.
    replace ([x] ++ (L ++ [lev] ++ L) ++ [y]) with (([x] ++ L) ++ lev :: (L ++ [y])) by (rewrite <- !app_assoc; reflexivity).
    apply adjok_glue; [rewrite <- app_assoc; exact A | exact B].
Qed.

Lemma adjok_nth M : forall l i, adjok M l -> (S i < length l)%nat -> Nat.max (nth i l 0%nat) (nth (S i) l 0%nat) = M.
Proof.
  induction l as [|x l IH]; intros i H Hi; [simpl in Hi; lia|].
  destruct l as [|y l]; [simpl in Hi; lia|]. destruct H as [E H].
  destruct i as [|i]; [exact E|]. apply (IH i H). simpl in Hi |- *. lia.
Qed.

Lemma complete_levels_length m : length (complete_levels m) = S (2 ^ m).
Proof.
  unfold complete_levels. rewrite !app_length, full_levels_length. cbn [length].
  assert (1 <= 2 ^ m)%nat by (apply Nat.neq_0_lt_0, Nat.pow_nonzero; lia). lia.
Qed.

Lemma complete_levels_adjacent m i : (1 <= m)%nat -> (i < 2 ^ m)%nat ->
  Nat.max (nth i (complete_levels m) 0%nat) (nth (S i) (complete_levels m) 0%nat) = m.
Proof.
  intros Hm Hi. assert (A := adjok_full m 1 0%nat 0%nat Hm ltac:(lia) ltac:(lia)).
  replace (1 + m - 1)%nat with m in A by lia.
  apply (adjok_nth m _ i A). fold (complete_levels m). rewrite complete_levels_length. lia.
Qed.

(* ---------------------------------------------------------------------------------------------- *)
(* argmin: the unique minimal level of a complete subtree sits in the middle *)

Lemma list_min_le x r : (list_min x r <= x)%nat /\ forall z, In z r -> (list_min x r <= z)%nat.
Proof.
  revert x. induction r as [|y r IH]; intro x; cbn [list_min]; [split; [lia | intros z []]|].
  destruct (IH (Nat.min x y)) as [A B]. split; [lia|].
  intros z [<-|Hz]; [lia | exact (B z Hz)].
Qed.

Lemma list_min_in x r : list_min x r = x \/ In (list_min x r) r.
Proof.
  revert x. induction r as [|y r IH]; intro x; cbn [list_min]; [left; reflexivity|].
  destruct (IH (Nat.min x y)) as [E|I]; [|right; right; exact I].
  rewrite E. destruct (Nat.min_spec x y) as [[_ ->]|[_ ->]]; [left; reflexivity | right; left; reflexivity].
Qed.

Lemma index_of_app x u v : ~ In x u -> index_of x (u ++ x :: v) = length u.
Proof.
  induction u as [|y u IH]; intro H; cbn [app index_of length].
  - rewrite Nat.eqb_refl. reflexivity.
  - destruct (Nat.eqb_spec x y) as [E|_]; [exfalso; apply H; left; symmetry; exact E|].
    rewrite IH; [reflexivity | intro I; apply H; right; exact I].
Qed.

Lemma argmin_middle lev u v : (forall z, In z u -> (lev < z)%nat) -> (forall z, In z v -> (lev < z)%nat) ->
  argmin (u ++ lev :: v) = length u.
Proof.
  intros Hu Hv.
  assert (All : forall z, In z (u ++ lev :: v) -> (lev <= z)%nat).
  { intros z I. apply in_app_or in I. destruct I as [I|[<-|I]]; [apply Hu in I; lia | lia | apply Hv in I; lia]. }
  assert (M : match u ++ lev :: v with [] => 0%nat | x :: r => list_min x r end = lev).
  { destruct (u ++ lev :: v) as [|x r] eqn:E; [destruct u; discriminate|].
    destruct (list_min_le x r) as [A B]. destruct (list_min_in x r) as [E1|I].
    - assert (lev <= x)%nat by (apply All; left; reflexivity).
      assert (In lev (x :: r)) by (rewrite <- E; apply in_or_app; right; left; reflexivity).
      destruct H0 as [<-|I2]; [lia | specialize (B lev I2); lia].
    - assert (lev <= list_min x r)%nat by (apply All; right; exact I).
      assert (In lev (x :: r)) by (rewrite <- E; apply in_or_app; right; left; reflexivity).
      destruct H0 as [<-|I2]; [lia | specialize (B lev I2); lia]. }
  unfold argmin. destruct (u ++ lev :: v) as [|x r] eqn:E; [destruct u; discriminate|].
  rewrite M, <- E. apply index_of_app. intro I. apply Hu in I. lia.
Qed.

Lemma argmin_full d lev : argmin (full_levels (S d) lev) = (2 ^ d - 1)%nat.
Proof.
  cbn [full_levels]. change ([lev] ++ full_levels d (S lev)) with (lev :: full_levels d (S lev)).
  rewrite argmin_middle; [apply full_levels_length | |]; intros z I; apply full_levels_range in I; lia.
Qed.

(* ---------------------------------------------------------------------------------------------- *)
(* the support sequence of every slice of the complete grid has m + 1 entries *)

Lemma skipn_app_exact {A} (u v : list A) : skipn (length u) (u ++ v) = v.
Proof. induction u as [|x u IH]; [reflexivity | exact IH]. Qed.
Lemma firstn_app_exact {A} (u v : list A) : firstn (length u) (u ++ v) = u.
Proof. induction u as [|x u IH]; [destruct v; reflexivity | cbn; rewrite IH; reflexivity]. Qed.

Lemma match_nonnil {T U} (l : list T) (A B : U) : l <> [] -> match l with [] => A | _ :: _ => B end = B.
Proof. destruct l; [congruence | reflexivity]. Qed.

Lemma supp_rec_length d : forall lev pre x y post fuel fs,
  (2 ^ d <= fuel)%nat -> (length pre <= fs < length pre + 2 ^ d)%nat ->
  length (supp_rec fuel (pre ++ [x] ++ full_levels d lev ++ [y] ++ post) (length pre) (length pre + 2 ^ d) fs) = d.
Proof.
  induction d as [|d IH]; intros lev pre x y post fuel fs Hf Hfs.
  - destruct fuel as [|f]; [simpl in Hf; lia|]. cbn [supp_rec full_levels app].
    destruct (Nat.leb_spec (length pre + 2 ^ 0) (length pre)) as [C|_]; [simpl in C; lia|].
    unfold slice_list. replace (length pre + 2 ^ 0 - S (length pre))%nat with 0%nat by (simpl; lia). reflexivity.
  - assert (P : (1 <= 2 ^ d)%nat) by (apply Nat.neq_0_lt_0, Nat.pow_nonzero; lia).
    rewrite Nat.pow_succ_r' in *.
    destruct fuel as [|f]; [lia|].
    change (full_levels (S d) lev) with (full_levels d (S lev) ++ [lev] ++ full_levels d (S lev)).
    set (L := full_levels d (S lev)).
    assert (LL : length L = (2 ^ d - 1)%nat) by (unfold L; apply full_levels_length).
    set (levels := pre ++ [x] ++ (L ++ [lev] ++ L) ++ [y] ++ post).
    assert (SL : slice_list levels (S (length pre)) (length pre + 2 * 2 ^ d) = L ++ [lev] ++ L).
    { unfold slice_list, levels.
      replace (pre ++ [x] ++ (L ++ [lev] ++ L) ++ [y] ++ post) with ((pre ++ [x]) ++ (L ++ [lev] ++ L) ++ [y] ++ post)
        by (rewrite <- app_assoc; reflexivity).
      replace (S (length pre)) with (length (pre ++ [x])) by (rewrite app_length; simpl; lia).
      rewrite skipn_app_exact.
      replace (length pre + 2 * 2 ^ d - length (pre ++ [x]))%nat with (length (L ++ [lev] ++ L)).
      - apply firstn_app_exact.
      - rewrite !app_length, LL. simpl. lia. }
    assert (AM : argmin (L ++ [lev] ++ L) = (2 ^ d - 1)%nat).
    { change ([lev] ++ L) with (lev :: L). rewrite argmin_middle; [exact LL | |]; intros z I; apply full_levels_range in I; lia. }
    assert (NE : L ++ [lev] ++ L <> []) by (intro E; apply app_eq_nil in E; destruct E as [_ E]; discriminate E).
    cbn [supp_rec].
    destruct (Nat.leb_spec (length pre + 2 * 2 ^ d) (length pre)) as [C|_]; [lia|].
    rewrite SL, (match_nonnil _ _ _ NE), AM.
    replace (S (length pre) + (2 ^ d - 1))%nat with (length pre + 2 ^ d)%nat by lia.
    cbn [length]. f_equal.
    destruct (Nat.leb_spec (length pre + 2 ^ d) fs) as [Le|Gt]; cbn [fst snd].
    + (* right half: pre' = pre ++ [x] ++ L, x' = lev *)
      unfold levels.
      replace (pre ++ [x] ++ (L ++ [lev] ++ L) ++ [y] ++ post) with ((pre ++ [x] ++ L) ++ [lev] ++ L ++ [y] ++ post)
        by (rewrite <- !app_assoc; reflexivity).
      assert (LP : length (pre ++ [x] ++ L) = (length pre + 2 ^ d)%nat).
      { rewrite !app_length, LL. simpl. lia. }
      rewrite <- LP. replace (length pre + 2 * 2 ^ d)%nat with (length (pre ++ [x] ++ L) + 2 ^ d)%nat by lia.
      apply IH; lia.
    + unfold levels.
      replace (pre ++ [x] ++ (L ++ [lev] ++ L) ++ [y] ++ post) with (pre ++ [x] ++ L ++ [lev] ++ (L ++ [y] ++ post))
        by (rewrite <- !app_assoc; reflexivity).
      apply IH; lia.
Qed.

Lemma complete_support_length (grid : list Qc) m i : (i < 2 ^ m)%nat ->
  length (support_sequence grid (complete_levels m) i) = S m.
Proof.
  intro Hi. unfold support_sequence, support_sequence_idx. rewrite map_length. cbn [length]. f_equal.
  rewrite complete_levels_length. replace (S (2 ^ m) - 1)%nat with (0 + 2 ^ m)%nat by lia.
  unfold complete_levels.
  change ([0%nat] ++ full_levels m 1 ++ [0%nat]) with ([] ++ [0%nat] ++ full_levels m 1 ++ [0%nat] ++ []).
  change 0%nat with (length (@nil nat)) at 3 4.
  apply supp_rec_length; simpl; lia.
Qed.

(* ---------------------------------------------------------------------------------------------- *)
(* the points of the complete grid *)

Lemma hf_pos : 0 < hf.
Proof. reflexivity. Qed.
Lemma mul_pos (u v : Qc) : 0 < u -> 0 < v -> 0 < u * v.
Proof. intros Hu Hv. rewrite <- (Qcmult_0_l v). apply Qcmult_lt_compat_r; assumption. Qed.
Lemma hf_pow_pos m : 0 < hf ^ m.
Proof. induction m as [|m IH]; [reflexivity | simpl; apply mul_pos; [exact hf_pos | exact IH]]. Qed.

Lemma step_width_pos a b m : a < b -> 0 < step_width a b m.
Proof.
  intro H. rewrite <- step_width_hf. apply mul_pos; [|apply hf_pow_pos].
  apply Qclt_minus_iff in H. replace (b - a) with (b + - a) by ring. exact H.
Qed.

Lemma complete_grid_length a b m : length (complete_grid a b m) = S (2 ^ m).
Proof. unfold complete_grid. rewrite map_length, seq_length. reflexivity. Qed.

Lemma nth_map_seq {T} (f : nat -> T) n i d : (i < n)%nat -> nth i (map f (seq 0 n)) d = f i.
Proof.
  intro H. rewrite (nth_indep _ d (f 0%nat)) by (rewrite map_length, seq_length; exact H).
  rewrite (map_nth f), seq_nth by exact H. reflexivity.
Qed.

Lemma complete_grid_nth a b m i : (i <= 2 ^ m)%nat -> nthQ (complete_grid a b m) i = a + qn i * step_width a b m.
Proof.
  intro Hi. unfold nthQ, complete_grid. rewrite nth_map_seq by lia. unfold step_width, qn. field. apply pow2_neq0.
Qed.

Lemma complete_grid_first a b m : nthQ (complete_grid a b m) 0 = a.
Proof. rewrite complete_grid_nth by lia. rewrite qn_0. ring. Qed.
Lemma complete_grid_last a b m : nthQ (complete_grid a b m) (length (complete_grid a b m) - 1) = b.
Proof.
  rewrite complete_grid_length. replace (S (2 ^ m) - 1)%nat with (2 ^ m)%nat by lia.
  rewrite complete_grid_nth by lia. rewrite <- step_width_hf.
  transitivity (a + (b - a) * (qn (2 ^ m) * hf ^ m)); [ring|]. rewrite qn_pow2. ring.
Qed.

(* ---------------------------------------------------------------------------------------------- *)
(* set_grid accepts the complete grid: all 2^m slices are created, each of width h_m *)

Definition cslice (a b : Qc) (m i : nat) : slice :=
  let g := complete_grid a b m in let lv := complete_levels m in
  mkSlice (nthQ g i) (nthQ g (S i)) (nth i lv 0%nat) (nth (S i) lv 0%nat) (support_sequence g lv i).

Lemma complete_make_slice a b m i : a < b -> (1 <= m)%nat -> (i < 2 ^ m)%nat ->
  make_slice (complete_grid a b m) (complete_levels m) a b i = Some (cslice a b m i).
Proof.
  intros Hab Hm Hi. unfold make_slice. rewrite (complete_levels_adjacent m i Hm Hi).
  assert (W : nthQ (complete_grid a b m) (S i) - nthQ (complete_grid a b m) i = step_width a b m).
  { rewrite !complete_grid_nth by lia. rewrite qn_S. ring. }
  rewrite W. assert (E : Qc_eqb (step_width a b m) (step_width a b m) = true) by (apply Qc_eqb_eq; reflexivity).
  rewrite E. fold (cslice a b m i).
  assert (OK : slice_ok (cslice a b m i) = true).
  { unfold slice_ok, cslice, sl_max_level. cbn [sl_l sl_r sl_ll sl_rl sl_supp].
    rewrite (complete_levels_adjacent m i Hm Hi), complete_support_length by exact Hi. rewrite Nat.eqb_refl, andb_true_r.
    apply Qc_ltb_lt. assert (P := step_width_pos a b m Hab). rewrite <- W in P.
    apply Qclt_minus_iff. replace (nthQ (complete_grid a b m) (S i) + - nthQ (complete_grid a b m) i)
      with (nthQ (complete_grid a b m) (S i) - nthQ (complete_grid a b m) i) by ring. exact P. }
  rewrite OK. reflexivity.
Qed.

Lemma complete_init_grid_slices a b m : a < b -> (1 <= m)%nat ->
  init_grid_slices (complete_grid a b m) (complete_levels m) = Some (map (cslice a b m) (seq 0 (2 ^ m))).
Proof.
  intros Hab Hm. unfold init_grid_slices. rewrite complete_grid_first, complete_grid_last, complete_grid_length.
  replace (S (2 ^ m) - 1)%nat with (2 ^ m)%nat by lia.
  apply opt_list_all. intros i Hi. apply in_seq in Hi. apply complete_make_slice; [assumption | assumption | lia].
Qed.

Lemma cslice_width a b m i : (i < 2 ^ m)%nat -> sl_width (cslice a b m i) = step_width a b m.
Proof.
  intro Hi. unfold sl_width, cslice. cbn [sl_l sl_r]. rewrite !complete_grid_nth by lia. rewrite qn_S. ring.
Qed.

(* ---------------------------------------------------------------------------------------------- *)
(* grouping: equal widths give ONE container; 2^m is a power of two, so adjust_containers keeps it *)

Lemma group_aux_uniform curw : forall rest cur, Forall (fun s => sl_width s = curw) rest ->
  group_aux false cur curw rest = [rev cur ++ rest].
Proof.
  induction rest as [|s r IH]; intros cur H; cbn [group_aux]; [rewrite app_nil_r; reflexivity|].
  apply Forall_cons_iff in H. destruct H as [Hs Hr].
  assert (E : Qc_eqb (sl_width s) curw = true) by (apply Qc_eqb_eq; exact Hs). rewrite E. cbn [orb negb].
  rewrite (IH (s :: cur) Hr). cbn [rev]. rewrite <- app_assoc. reflexivity.
Qed.

Lemma grouped_single_container g slices h : g <> G_Unit -> slices <> [] ->
  Forall (fun s => sl_width s = h) slices -> is_pow2 (length slices) = true ->
  adjust_containers g (initial_containers g slices) = [slices].
Proof.
  intros Hg Hne Hw Hp. destruct slices as [|s r]; [congruence|].
  apply Forall_cons_iff in Hw. destruct Hw as [Hs Hr].
  assert (I : initial_containers g (s :: r) = [s :: r]).
  { unfold initial_containers. replace (match g with G_Unit => true | _ => false end) with false by (destruct g; congruence).
    rewrite Hs. rewrite (group_aux_uniform h r [s] Hr). reflexivity. }
  rewrite I. unfold adjust_containers. cbn [flat_map]. rewrite Hp. reflexivity.
Qed.

(* a container of 2^K >= 2 equal adjacent slices always produces weights (no assert fails) *)
Lemma multi_container_defined lo sv K h c :
  length c = (2 ^ K)%nat -> (1 <= K)%nat -> chain c -> Forall (fun s => sl_width s = h) c ->
  exists cs, container_final_from lo sv CV_Default c = Some cs.
Proof.
  intros HL HK Hc Hw.
  assert (P : (2 <= 2 ^ K)%nat).
  { destruct K as [|K']; [lia|]. rewrite Nat.pow_succ_r'. assert (1 <= 2 ^ K')%nat by (apply Nat.neq_0_lt_0, Nat.pow_nonzero; lia). lia. }
  assert (Hne : c <> []) by (intro E; rewrite E in HL; simpl in HL; lia).
  destruct (container_grid_arith h c Hne Hc Hw) as [G R].
  set (n := S (length c)).
  assert (Hn : length (container_grid c) = n) by (rewrite G, arith_length; reflexivity).
  assert (NL : normalized_levels n = [0%nat] ++ full_levels K 1 ++ [0%nat]).
  { unfold n. rewrite HL. apply normalized_levels_full. exact HK. }
  destruct c as [|s1 [|s2 c']]; [congruence | simpl in HL; lia |].
  unfold container_final_from. rewrite Hn.
  assert (M : list_max (normalized_levels n) = K).
  { rewrite NL, !list_max_app, full_levels_max by exact HK. simpl. lia. }
  rewrite M.
  set (a := container_left (s1 :: s2 :: c')). set (b := container_right (s1 :: s2 :: c')).
  eexists. apply (opt_list_all _ (fun i => (nthQ (container_grid (s1 :: s2 :: c')) i,
      if Nat.eqb i 0 || Nat.eqb i (n - 1) then trap_boundary_weight a b 2 K
      else innerW a b K (nth i (normalized_levels n) 0%nat)))).
  intros i Hi. apply in_seq in Hi.
  destruct (Nat.eqb i 0 || Nat.eqb i (n - 1)) eqn:Eb; [reflexivity|].
  apply orb_false_elim in Eb. destruct Eb as [E0 E1]. apply Nat.eqb_neq in E0. apply Nat.eqb_neq in E1.
  assert (Hr : (1 <= nth i (normalized_levels n) 0 <= K)%nat).
  { rewrite NL. cbn [app]. destruct i as [|i']; [lia|]. cbn [nth].
    assert (Li : (i' < length (full_levels K 1))%nat) by (rewrite full_levels_length; unfold n in *; lia).
    rewrite app_nth1 by exact Li.
    assert (I := full_levels_range K 1 _ (nth_In _ 0%nat Li)). lia. }
  unfold trap_inner_weight.
  destruct (Nat.leb_spec 1 (nth i (normalized_levels n) 0%nat)) as [_|C]; [|lia].
  destruct (Nat.leb_spec (nth i (normalized_levels n) 0%nat) K) as [_|C]; [|lia].
  reflexivity.
Qed.

Lemma is_pow2_pow m : is_pow2 (2 ^ m) = true.
Proof. apply is_pow2_iff. exists m. reflexivity. Qed.

(* MAIN: the complete grid is accepted, forms one container, and is integrated exactly to degree 2m+1 - for EVERY m *)
Theorem complete_grid_grouped_exact lo g sv a b m : a < b -> (1 <= m)%nat -> g <> G_Unit ->
  exists r, extrapolation_grid_from lo g sv CV_Default false (complete_grid a b m) (complete_levels m) = Some r /\
            er_grid r = complete_grid a b m /\ er_container_sizes r = [(2 ^ m)%nat] /\
            forall k, (k <= 2 * m + 1)%nat -> wpow k (er_dict r) = Ik k a b.
Proof.
  intros Hab Hm Hg.
  assert (IS := complete_init_grid_slices a b m Hab Hm).
  set (slices := map (cslice a b m) (seq 0 (2 ^ m))) in *.
  assert (LS : length slices = (2 ^ m)%nat) by (unfold slices; rewrite map_length, seq_length; reflexivity).
  assert (P : (1 <= 2 ^ m)%nat) by (apply Nat.neq_0_lt_0, Nat.pow_nonzero; lia).
  assert (Hne : slices <> []) by (intro E; rewrite E in LS; simpl in LS; lia).
  assert (Hw : Forall (fun s => sl_width s = step_width a b m) slices).
  { unfold slices. apply Forall_forall. intros s Hs. apply in_map_iff in Hs. destruct Hs as [i [<- Hi]].
    apply in_seq in Hi. apply cslice_width. lia. }
  destruct (init_grid_slices_chain _ _ _ IS) as [Hc Hlt].
  assert (SC := grouped_single_container g slices _ Hg Hne Hw ltac:(rewrite LS; apply is_pow2_pow)).
  destruct (multi_container_defined lo sv m _ slices LS Hm Hc Hw) as [cs Hcs].
  assert (R : extrapolation_grid_from lo g sv CV_Default false (complete_grid a b m) (complete_levels m)
              = Some (mkExt (complete_grid a b m) (complete_levels m) [length slices] (dict_of cs))).
  { unfold extrapolation_grid_from. rewrite complete_grid_length, complete_levels_length, Nat.eqb_refl.
    destruct (Nat.leb_spec 2 (S (2 ^ m))) as [_|C]; [|lia]. cbn [andb].
    rewrite IS, SC. cbn [map opt_concat]. rewrite Hcs, app_nil_r. reflexivity. }
  eexists. split; [exact R|]. cbn [er_grid er_container_sizes er_dict]. split; [reflexivity|]. split; [rewrite LS; reflexivity|].
  intros k Hk.
  assert (X := sliced_weights_exact_degree lo g sv false _ _ _ m k R Hm).
  cbn [er_container_sizes er_dict] in X. rewrite X.
  - unfold grid_a, grid_b. cbn [er_grid]. rewrite complete_grid_first, complete_grid_last. reflexivity.
  - constructor; [rewrite LS; lia | constructor].
  - exact Hk.
Qed.
