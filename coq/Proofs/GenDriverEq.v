(* The SOURCE-DERIVED model of the adaptive driver (Gen/DriverGen.v, written by harness/translate/py2gallina_machine.py from
   SpatiallyAdaptivBase.continue_adaptive_refinement / performSpatiallyAdaptiv at every run) is the hand-written driver
   loop of Model/Driver.v (run_rec / run_legs over an abstract refinement state, limits by `resolve`).

   The abstract methods of the class are parameters of the generated functions (oracles).  The theorems assume that the
   oracles the loop uses do not raise (total functions f_eval, f_init, f_refine, ...) and that get_total_num_points is a QUERY
   (it returns cnt s and leaves the state alone) - the two calls per iteration (recorded count, count used by the stopping
   test) then see the same number, which is what the single o_pts of the hand-written observation expresses.
   Configuration inside the model (anything else makes the generated function return None, see the OUTSIDE THE MODEL
   comments in the generated file): single_step = False, evaluation_points = None, do_plot = False,
   solutions_storage = None, max_time = None. *)
From Coq Require Import ZArith List Bool Lia QArith Qcanon.
From SG Require Import Base.QcUtil Base.PyLib Base.PyNum Base.PyMachine Proofs.PyMachineFacts Model.Driver Proofs.DriverLegs Gen.DriverGen.
Import ListNotations.
Open Scope Z_scope.

Section Eq.
  Variable St : Type.
  Variables T_result T_dict T_points T_ErrorCalculator T_reference T_operation T_RefinementContainer T_grid : Type.
  Variable g_operation : St -> option T_operation.
  Variable g_refinement : St -> T_RefinementContainer.
  Variable g_scheme : St -> list T_grid.
  Variable g_lmax : St -> list Z.
  Variable g_refinement_evaluationstotal : St -> Z.
  Variable m_evaluate_operation : St -> option ((Qc * Qc) * St).
  Variable m_initialize_grid : St -> option (unit * St).
  Variable m_refine : St -> option (unit * St).
  Variable m_get_total_num_points : St -> bool -> bool -> option (Z * St).
  Variable m_evaluate_final_combi : St -> option ((T_result * Z) * St).
  Variable m_check_combi_scheme : St -> option (unit * St).
  Variable m_init_adaptive_combi : St -> Z -> Z -> option T_RefinementContainer -> Qc -> option (unit * St).
  Variable m_operation_get_result : St -> option (T_result * St).
  Variable m_operation_get_reference_solution : St -> option (T_reference * St).

  Notation Self := (Self_t St T_result T_dict T_points T_ErrorCalculator T_reference).
  Notation gen_continue := (SpatiallyAdaptivBase_continue_adaptive_refinement St T_result T_dict T_points T_ErrorCalculator
    T_reference T_RefinementContainer T_grid g_refinement g_scheme g_lmax g_refinement_evaluationstotal m_evaluate_operation
    m_initialize_grid m_refine m_get_total_num_points m_evaluate_final_combi m_check_combi_scheme m_operation_get_result).
  Notation gen_continue_kw := (SpatiallyAdaptivBase_continue_adaptive_refinement_kw St T_result T_dict T_points T_ErrorCalculator
    T_reference T_RefinementContainer T_grid g_refinement g_scheme g_lmax g_refinement_evaluationstotal m_evaluate_operation
    m_initialize_grid m_refine m_get_total_num_points m_evaluate_final_combi m_check_combi_scheme m_operation_get_result).
  Notation gen_perform := (SpatiallyAdaptivBase_performSpatiallyAdaptiv St T_result T_dict T_points T_ErrorCalculator
    T_reference T_operation T_RefinementContainer T_grid g_operation g_refinement g_scheme g_lmax g_refinement_evaluationstotal
    m_evaluate_operation m_initialize_grid m_refine m_get_total_num_points m_evaluate_final_combi m_check_combi_scheme
    m_init_adaptive_combi m_operation_get_result m_operation_get_reference_solution).

  (* ---------------------------------------------------------------- the oracles as total functions *)
  Variable f_eval : St -> (Qc * Qc) * St.
  Variable f_init : St -> St.
  Variable f_refine : St -> St.
  Variable cnt : St -> Z.
  Variable f_check : St -> St.
  Variable f_final : St -> (T_result * Z) * St.
  Variable f_result : St -> T_result * St.
  Hypothesis H_eval : forall s, m_evaluate_operation s = Some (f_eval s).
  Hypothesis H_init : forall s, m_initialize_grid s = Some (tt, f_init s).
  Hypothesis H_refine : forall s, m_refine s = Some (tt, f_refine s).
  Hypothesis H_cnt : forall s, m_get_total_num_points s false true = Some (cnt s, s).
  Hypothesis H_check : forall s, m_check_combi_scheme s = Some (tt, f_check s).
  Hypothesis H_final : forall s, m_evaluate_final_combi s = Some (f_final s).
  Hypothesis H_result : forall s, m_operation_get_result s = Some (f_result s).

  (* ---------------------------------------------------------------- the hand-written loop on this object *)
  Definition X : Type := (St * obs)%type.
  Definition evaluate' (x : X) : X :=
    let '((e, su), s1) := f_eval (fst x) in let s2 := f_init s1 in (s2, mkObs e su (cnt s2)).
  Definition refine' (x : X) : X := (f_refine (fst x), snd x).
  Definition observe' (x : X) : obs := snd x.
  Notation run_rec' := (run_rec X evaluate' refine' observe').

  (* the object with abstract part st and the three history arrays of d *)
  Definition with_d (self : Self) (st : St) (d : dstate) : Self :=
    set_f_num_point_array _ _ _ _ _ _
      (set_f_surplus_error_array _ _ _ _ _ _
         (set_f_error_array _ _ _ _ _ _ (set_a_st _ _ _ _ _ _ self st) (Some (d_errs d))) (Some (d_surs d))) (Some (d_pts d)).

  (* the configuration inside the model *)
  Record in_model (self : Self) : Prop := {
    im_single : f_single_step _ _ _ _ _ _ self = Some false;
    im_points : f_evaluation_points _ _ _ _ _ _ self = Some None;
    im_plot : f_do_plot _ _ _ _ _ _ self = Some false;
    im_storage : f_solutions_storage _ _ _ _ _ _ self = Some None;
    im_print : exists p, f_print_output _ _ _ _ _ _ self = Some p }.

  Definition lim_of (tol : Qc) (max_ev : option Z) (min_ev : Z) : limits := mkLimits tol min_ev max_ev.

  (* one iteration of the hand-written loop with its stop flag *)
  Definition stepf (lim : limits) (xd : X * dstate) : (X * dstate) * bool :=
    let x1 := evaluate' (fst xd) in
    let d1 := record_obs (snd xd) (observe' x1) in
    if stop_now lim (observe' x1) then ((x1, d1), true) else ((refine' x1, do_refine d1), false).

  Lemma loop_model_run_rec lim fuel : forall x d,
    loop_model (stepf lim) fuel (x, d) = run_rec' lim fuel x d.
  Proof.
    induction fuel as [|f IH]; intros x d; [reflexivity|].
    cbn [loop_model run_rec]. unfold stepf at 1. cbn [fst snd].
    destruct (stop_now lim (observe' (evaluate' x))); [reflexivity|apply IH].
  Qed.

  (* what continue_adaptive_refinement does after the loop (logging dropped): optional scheme test, result of the run from
     evaluate_final_combi (reevaluate_at_end) or from the operation, the returned tuple *)
  Definition tail (self : Self) (s : St) (d : dstate) :=
    match f_test_scheme _ _ _ _ _ _ self, f_reevaluate_at_end _ _ _ _ _ _ self,
          f_interpolation_error_arrayL2 _ _ _ _ _ _ self, f_interpolation_error_arrayMax _ _ _ _ _ _ self with
    | Some ts, Some re, Some l2, Some lm =>
        let s2 := if ts then f_check s else s in
        let '(combi, n, s3) := if re then (let '((c, n), s') := f_final s2 in (c, n, s'))
                               else (let '(c, s') := f_result s2 in (c, g_refinement_evaluationstotal s', s')) in
        Some ((g_refinement s3, g_scheme s3, g_lmax s3, combi, n, d_errs d, d_pts d, d_surs d, l2, lm),
              set_f_calculated_solution _ _ _ _ _ _ (with_d self s3 d) (Some (Some combi)))
    | _, _, _, _ => None
    end.

  Ltac norm := cbn [set_a_st set_f_error_array set_f_surplus_error_array set_f_num_point_array
       set_f_calculated_solution a_st f_single_step f_error_array f_surplus_error_array f_num_point_array f_evaluation_points
       f_print_output f_do_plot f_solutions_storage f_test_scheme f_reevaluate_at_end f_interpolation_error_arrayL2
       f_interpolation_error_arrayMax bindLE bindLL bindE bindF run_flow fst snd].
  Ltac go := repeat (norm; rewrite ?H_init, ?H_cnt, ?H_refine, ?H_check, ?H_final, ?H_result).

  Theorem gen_continue_is_run_rec fuel self st d tol max_ev min_ev o0 : in_model self ->
    gen_continue fuel (with_d self st d) tol None max_ev min_ev =
      match run_rec' (lim_of tol max_ev min_ev) fuel (st, o0) d with
      | Some ((s', _), d') => tail self s' d'
      | None => None
      end.
  Proof.
    intros [H1 H2 H3 H4 [p H5]].
    destruct self as [st0 ea sa na l2 lm ss lp po dp ts re rf cs so ep ee rs].
    cbn [f_single_step f_evaluation_points f_do_plot f_solutions_storage f_print_output] in H1, H2, H3, H4, H5.
    subst ss ep dp so po.
    unfold SpatiallyAdaptivBase_continue_adaptive_refinement.
    match goal with |- context [py_loop fuel ?b ?v] =>
      pose proof (py_loop_model (R:=_) b
        (fun xd : X * dstate => (with_d (mk_Self_t _ _ _ _ _ _ st0 ea sa na l2 lm (Some false) lp (Some p) (Some false) ts re rf cs (Some None) (Some None) ee rs) (fst (fst xd)) (snd xd), max_ev))
        (stepf (lim_of tol max_ev min_ev))) as PL end.
    match type of PL with (?P -> _) => assert (BS : P) end.
    - clear PL. intros [[s o] dd]. unfold stepf, evaluate', refine', observe', with_d, call_evaluate_operation,
        call_initialize_grid, call_get_total_num_points, call_refine. norm.
      rewrite H_eval. destruct (f_eval s) as [[e su] s1]. go.
      unfold stop_now, stop_tol, stop_max, lim_of. cbn [o_err o_pts o_sur l_tol l_min l_max].
      destruct p; go; rewrite Z.geb_leb;
        (destruct (Qc_leb e tol && (min_ev <=? cnt (f_init s1))); go; [reflexivity|]); cbn [orb];
        (destruct max_ev as [m|]; go; [|reflexivity]);
        rewrite Z.gtb_ltb; destruct (m <? cnt (f_init s1)); go; reflexivity.
    - specialize (PL BS fuel ((st, o0), d)). cbn [fst snd] in PL. rewrite PL, loop_model_run_rec. clear PL BS.
      destruct (run_rec' (lim_of tol max_ev min_ev) fuel (st, o0) d) as [[[s' o'] d']|]; [|reflexivity].
      unfold tail, with_d, call_get_total_num_points, call_check_combi_scheme, call_evaluate_final_combi,
        call_operation_get_result. go.
      destruct ts as [[|]|]; [| |reflexivity].
      + go. destruct re as [[|]|]; [| |reflexivity]; go.
        * destruct (f_final (f_check s')) as [[c n] s3]. go. destruct l2; [|reflexivity]. destruct lm; reflexivity.
        * destruct (f_result (f_check s')) as [c s3]. go. destruct l2; [|reflexivity]. destruct lm; reflexivity.
      + go. destruct re as [[|]|]; [| |reflexivity]; go.
        * destruct (f_final s') as [[c n] s3]. go. destruct l2; [|reflexivity]. destruct lm; reflexivity.
        * destruct (f_result s') as [c s3]. go. destruct l2; [|reflexivity]. destruct lm; reflexivity.
  Qed.

  (* ---------------------------------------------------------------- consequences *)
  Notation traj' := (traj X evaluate' refine' observe').
  Notation state_at' := (state_at X evaluate' refine').

  (* the generated loop stops exactly at the first evaluation whose observation satisfies the stopping rule of ITS OWN
     arguments, after recording one history entry per evaluation; if no evaluation within `fuel` satisfies it there is no
     result (the loop is still running) *)
  Corollary gen_continue_stops_at_first_satisfying_index fuel self st d tol max_ev min_ev o0 : in_model self ->
    gen_continue fuel (with_d self st d) tol None max_ev min_ev =
      match first_stop (lim_of tol max_ev min_ev) (traj' fuel (st, o0)) with
      | Some k => tail self (fst (state_at' k (st, o0))) (fst (drive (lim_of tol max_ev min_ev) (traj' fuel (st, o0)) d))
      | None => None
      end.
  Proof.
    intros H. rewrite (gen_continue_is_run_rec fuel self st d tol max_ev min_ev o0 H).
    rewrite (run_rec_is_drive_on_trajectory X evaluate' refine' observe').
    destruct (first_stop (lim_of tol max_ev min_ev) (traj' fuel (st, o0))) as [k|]; [|reflexivity].
    destruct (state_at' k (st, o0)) as [s' o']. reflexivity.
  Qed.

  (* default arguments: the call with omitted arguments is the call with the limits `resolve_continue` computes *)
  Theorem gen_continue_kw_is_resolve fuel self (a : call_args) :
    gen_continue_kw fuel self (a_tol a) None (option_map Some (a_max a)) (a_min a) =
      let l := resolve_continue a in gen_continue fuel self (l_tol l) None (l_max l) (l_min l).
  Proof. destruct a as [[t|] [m|] [x|]]; cbv [a_tol a_min a_max option_map resolve_continue resolve l_tol l_min l_max]; reflexivity. Qed.

  (* ---------------------------------------------------------------- histories of calls on one object *)
  Fixpoint gen_legs (legs : list (limits * nat)) (self : Self) : option Self :=
    match legs with
    | [] => Some self
    | (l, n) :: r => match gen_continue n self (l_tol l) None (l_max l) (l_min l) with
                     | Some (_, self') => gen_legs r self'
                     | None => None
                     end
    end.

  (* test_scheme and reevaluate_at_end off, the interpolation arrays set; operation.get_result is a query *)
  Record plain (self : Self) : Prop := {
    pl_ts : f_test_scheme _ _ _ _ _ _ self = Some false;
    pl_re : f_reevaluate_at_end _ _ _ _ _ _ self = Some false;
    pl_l2 : exists l, f_interpolation_error_arrayL2 _ _ _ _ _ _ self = Some l;
    pl_lm : exists l, f_interpolation_error_arrayMax _ _ _ _ _ _ self = Some l }.
  Variable res : St -> T_result.
  Hypothesis H_res : forall s, f_result s = (res s, s).

  Definition view (o : Self) := (a_st _ _ _ _ _ _ o, f_error_array _ _ _ _ _ _ o, f_surplus_error_array _ _ _ _ _ _ o,
                                 f_num_point_array _ _ _ _ _ _ o).

  Lemma with_d_set_calc self s d c :
    set_f_calculated_solution _ _ _ _ _ _ (with_d self s d) c = with_d (set_f_calculated_solution _ _ _ _ _ _ self c) s d.
  Proof. destruct self; reflexivity. Qed.

  (* a history of continue_adaptive_refinement calls, each with its own limits and fuel, on ONE object = run_legs of the
     hand-written model: the abstract state and the three history arrays agree after every history *)
  Theorem gen_legs_is_run_legs legs : forall self st d o0, in_model self -> plain self ->
    option_map view (gen_legs legs (with_d self st d)) =
    option_map (fun r : X * dstate => (fst (fst r), Some (d_errs (snd r)), Some (d_surs (snd r)), Some (d_pts (snd r))))
               (run_legs X evaluate' refine' observe' legs (st, o0) d).
  Proof.
    induction legs as [|[l n] legs IH]; intros self st d o0 IM PL.
    - destruct self; reflexivity.
    - cbn [gen_legs run_legs]. destruct l as [tol mn mx]. cbn [l_tol l_max l_min].
      rewrite (gen_continue_is_run_rec n self st d tol mx mn o0 IM). unfold lim_of.
      destruct (run_rec' (mkLimits tol mn mx) n (st, o0) d) as [[[s' o'] d']|]; [|reflexivity].
      unfold tail. destruct PL as [P1 P2 [a P3] [b P4]]. rewrite P1, P2, P3, P4, H_res.
      rewrite with_d_set_calc. apply IH.
      + destruct IM as [I1 I2 I3 I4 [p I5]]. destruct self. cbn in *. constructor; try assumption. exists p. assumption.
      + destruct self. cbn in *. constructor; try assumption; [exists a|exists b]; assumption.
  Qed.

  (* ---------------------------------------------------------------- performSpatiallyAdaptiv *)
  Variable f_ref : St -> T_reference * St.
  Variable f_initc : St -> Z -> Z -> option T_RefinementContainer -> Qc -> St.
  Hypothesis H_ref : forall s, m_operation_get_reference_solution s = Some (f_ref s).
  Hypothesis H_initc : forall s a b c t, m_init_adaptive_combi s a b c t = Some (tt, f_initc s a b c t).

  (* the object performSpatiallyAdaptiv hands to the loop: every attribute the loop reads is (re)set from the arguments, the
     history arrays are emptied - nothing of an earlier run survives except last_point_count (only read with single_step) *)
  Definition self_perform (self : Self) eo rf po ts re rs : Self :=
    mk_Self_t _ _ _ _ _ _ (a_st _ _ _ _ _ _ self) (Some []) (Some []) (Some []) (Some []) (Some []) (Some false)
      (f_last_point_count _ _ _ _ _ _ self) (Some po) (Some false) (Some ts) (Some re) (Some rf) (Some None) (Some None) (Some None)
      (Some eo) (Some rs).

  Theorem gen_perform_is_continue_from_scratch fuel self lmin lmax eo tol rc rf ts re max_ev po min_ev op :
    g_operation (a_st _ _ _ _ _ _ self) = Some op ->
    gen_perform fuel self lmin lmax eo tol rc false rf ts re None max_ev po min_ev None None false =
      let '(rs, s1) := f_ref (a_st _ _ _ _ _ _ self) in
      let s2 := f_initc s1 lmin lmax rc tol in
      gen_continue fuel (with_d (self_perform self eo rf po ts re rs) s2 d_init) tol None max_ev min_ev.
  Proof.
    intros Hop. destruct self as [st0 ea sa na l2 lm ss lp po0 dp ts0 re0 rf0 cs so ep ee rs0].
    unfold SpatiallyAdaptivBase_performSpatiallyAdaptiv, self_perform, with_d, call_operation_get_reference_solution,
      call_init_adaptive_combi.
    cbn [a_st] in *. rewrite Hop. cbn [py_assert bindE bindF run_flow].
    cbn [a_st set_a_st set_f_errorEstimator set_f_recalculate_frequently set_f_print_output]. rewrite H_ref.
    destruct (f_ref st0) as [rs s1]. cbn [bindE a_st set_a_st set_f_reference_solution]. rewrite H_initc.
    cbn [bindE bindF run_flow a_st set_a_st set_f_error_array set_f_surplus_error_array set_f_interpolation_error_arrayL2
         set_f_interpolation_error_arrayMax set_f_num_point_array set_f_test_scheme set_f_reevaluate_at_end set_f_do_plot
         set_f_calculated_solution set_f_solutions_storage set_f_evaluation_points set_f_single_step d_errs d_surs d_pts d_init
         f_last_point_count].
    match goal with |- context [gen_continue fuel ?o tol None max_ev min_ev] =>
      destruct (gen_continue fuel o tol None max_ev min_ev) as [[r o']|] end; reflexivity.
  Qed.

  Lemma self_perform_in_model self eo rf po ts re rs : in_model (self_perform self eo rf po ts re rs).
  Proof. constructor; try reflexivity. exists po. reflexivity. Qed.

  (* performSpatiallyAdaptiv = the hand-written loop started with EMPTY history arrays (Driver.perform / api_run) *)
  Corollary gen_perform_is_run_rec fuel self lmin lmax eo tol rc rf ts re max_ev po min_ev op o0 :
    g_operation (a_st _ _ _ _ _ _ self) = Some op ->
    gen_perform fuel self lmin lmax eo tol rc false rf ts re None max_ev po min_ev None None false =
      let '(rs, s1) := f_ref (a_st _ _ _ _ _ _ self) in
      match run_rec' (lim_of tol max_ev min_ev) fuel (f_initc s1 lmin lmax rc tol, o0) d_init with
      | Some ((s', _), d') => tail (self_perform self eo rf po ts re rs) s' d'
      | None => None
      end.
  Proof.
    intros Hop. rewrite (gen_perform_is_continue_from_scratch _ _ _ _ _ _ _ _ _ _ _ _ _ op Hop).
    destruct (f_ref (a_st _ _ _ _ _ _ self)) as [rs s1].
    apply gen_continue_is_run_rec. apply self_perform_in_model.
  Qed.
End Eq.
