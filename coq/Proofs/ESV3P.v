(* C07, coarsening version 3: the round-robin decrement is a componentwise truncated shift  T(l)_i = max(l_i - s_i, lmin)
   with a shift vector s that depends on (dim, coarsening) only.  It has a lower adjoint:  T(l) >= k  <->  l >= adj(k),
   so inclusion-exclusion of the closed-form standard scheme (std_IE) carries over to the coarsened grids:
   the local combination of version 3 is valid for EVERY dimension >= 1, all levels lmin <= lmax and EVERY coarsening value. *)
From Coq Require Import ZArith List Bool QArith Qcanon Lia.
From SG Require Import Base.QcUtil Model.CombiScheme Model.ExtendSplit Model.ESV3 Proofs.SchemeBasics Proofs.SchemeClosedForm
     Proofs.ESCombi Proofs.ESV0.
Import ListNotations.
Open Scope Z_scope.
Local Arguments Z.add : simpl never.
Local Arguments Z.sub : simpl never.
Local Arguments Z.leb : simpl never.
Local Arguments Z.ltb : simpl never.

Fixpoint adj_nth (i : nat) (lmin : Z) (k : lv) : lv :=
  match k, i with
  | [], _ => []
  | x :: r, O => (if lmin <? x then x + 1 else x) :: r
  | x :: r, S i' => x :: adj_nth i' lmin r
  end.

Fixpoint adjL (fuel : nat) (dim : nat) (lmin : Z) (cur : nat) (k : lv) : lv :=
  match fuel with
  | O => k
  | S f => adj_nth cur lmin (adjL f dim lmin (Nat.modulo (cur + 1) dim) k)
  end.

Lemma dec_nth_ge i lmin : forall t, Forall (fun x => lmin <= x) t -> Forall (fun x => lmin <= x) (dec_nth i lmin t).
Proof.
  induction i as [|i IH]; intros [|x t] H; simpl; try constructor; inversion H; subst.
  - destruct (Z.ltb_spec lmin x); lia.
  - assumption.
  - assumption.
  - apply IH. assumption.
Qed.

Lemma adj_nth_ge i lmin : forall k, Forall (fun x => lmin <= x) k -> Forall (fun x => lmin <= x) (adj_nth i lmin k).
Proof.
  induction i as [|i IH]; intros [|x k] H; simpl; try constructor; inversion H; subst.
  - destruct (Z.ltb_spec lmin x); lia.
  - assumption.
  - assumption.
  - apply IH. assumption.
Qed.

Lemma adj_nth_length i lmin : forall k, length (adj_nth i lmin k) = length k.
Proof. induction i as [|i IH]; intros [|x k]; simpl; try reflexivity. rewrite IH. reflexivity. Qed.

Lemma dec_nth_length i lmin : forall t, length (dec_nth i lmin t) = length t.
Proof. induction i as [|i IH]; intros [|x t]; simpl; try reflexivity. rewrite IH. reflexivity. Qed.

Lemma adjL_ge fuel dim lmin : forall cur k, Forall (fun x => lmin <= x) k -> Forall (fun x => lmin <= x) (adjL fuel dim lmin cur k).
Proof. induction fuel as [|f IH]; intros cur k H; simpl; [exact H|]. apply adj_nth_ge. apply IH. exact H. Qed.

Lemma adjL_length fuel dim lmin : forall cur k, length (adjL fuel dim lmin cur k) = length k.
Proof. induction fuel as [|f IH]; intros cur k; simpl; [reflexivity|]. rewrite adj_nth_length. apply IH. Qed.

Lemma v3_loop_ge fuel dim lmin : forall cur t, Forall (fun x => lmin <= x) t -> Forall (fun x => lmin <= x) (v3_loop fuel dim lmin cur t).
Proof. induction fuel as [|f IH]; intros cur t H; simpl; [exact H|]. apply IH. apply dec_nth_ge. exact H. Qed.

Lemma v3_loop_length fuel dim lmin : forall cur t, length (v3_loop fuel dim lmin cur t) = length t.
Proof. induction fuel as [|f IH]; intros cur t; simpl; [reflexivity|]. rewrite IH. apply dec_nth_length. Qed.

(* one decrement step and its adjoint *)
Lemma dec_adj i lmin : forall t k, Forall (fun x => lmin <= x) t -> Forall (fun x => lmin <= x) k ->
  lv_geb (dec_nth i lmin t) k = lv_geb t (adj_nth i lmin k).
Proof.
  induction i as [|i IH]; intros [|x t] [|y k] Ht Hk; simpl; try reflexivity.
  - inversion Ht; subst. inversion Hk; subst. f_equal.
    destruct (Z.ltb_spec lmin x), (Z.ltb_spec lmin y);
      repeat match goal with |- context [?a <=? ?b] => destruct (Z.leb_spec a b) end; try reflexivity; lia.
  - inversion Ht; subst. inversion Hk; subst. f_equal. apply IH; assumption.
Qed.

Lemma loop_adj fuel dim lmin : forall cur t k, Forall (fun x => lmin <= x) t -> Forall (fun x => lmin <= x) k ->
  lv_geb (v3_loop fuel dim lmin cur t) k = lv_geb t (adjL fuel dim lmin cur k).
Proof.
  induction fuel as [|f IH]; intros cur t k Ht Hk; simpl; [reflexivity|].
  rewrite IH by (try apply dec_nth_ge; assumption).
  apply dec_adj; [exact Ht | apply adjL_ge; exact Hk].
Qed.

Lemma computed_grids_all3 cp c sch :
  computed_grids (coarsen_all3 cp c sch) = map (fun lc => (fst (coarsen_grid3 cp c (fst lc)), snd lc)) sch.
Proof.
  unfold coarsen_all3, computed_grids. induction sch as [|[l cf] r IH]; [reflexivity|]. cbn [map filter fst snd coarsen_grid3].
  f_equal. exact IH.
Qed.

Section V3.
Variables (n : nat) (lmin lmax c base : Z) (v : Z).
Hypothesis Hle : lmin <= lmax.
Let d := S n.
Let cp := mkCP d v lmin lmax base.

Lemma local_combi3_form : local_combi3 cp c =
  map (fun lc => (sub_lmin lmin (v3_loop (Z.to_nat c) d lmin 0 (fst lc)), snd lc)) (combi_scheme_standard d lmin lmax).
Proof. unfold local_combi3. rewrite computed_grids_all3. reflexivity. Qed.

Theorem local_combi3_wf : grids_wf d (local_combi3 cp c).
Proof.
  intros g Hg. rewrite local_combi3_form in Hg. apply in_map_iff in Hg. destruct Hg as [[l cf] [E Hl]]. subst g. cbn [fst snd].
  apply std_member in Hl. destruct Hl as [q [_ [L [F _]]]]. split.
  - unfold sub_lmin. rewrite map_length, v3_loop_length. exact L.
  - pose proof (v3_loop_ge (Z.to_nat c) d lmin 0%nat l F) as G. unfold sub_lmin. apply Forall_forall. intros x Hx.
    apply in_map_iff in Hx. destruct Hx as [y [E Hy]]. subst x. rewrite Forall_forall in G. specialize (G y Hy). lia.
Qed.

Theorem local_combi3_IE : local_IE d (local_combi3 cp c).
Proof.
  intros k Lk Pk [g [Hg Dg]].
  set (k' := map (fun x => x + lmin) k).
  assert (Fk' : Forall (fun x => lmin <= x) k').
  { unfold k'. apply Forall_forall. intros x Hx. apply in_map_iff in Hx. destruct Hx as [y [E Hy]]. subst x.
    rewrite Forall_forall in Pk. specialize (Pk y Hy). lia. }
  set (j := adjL (Z.to_nat c) d lmin 0%nat k').
  assert (E : dominating_sum (local_combi3 cp c) k = dominating_sum (combi_scheme_standard d lmin lmax) j).
  { rewrite local_combi3_form. unfold dominating_sum. rewrite map_map. f_equal. apply map_ext_in. intros [l cf] Hl. cbn [fst snd].
    apply std_member in Hl. destruct Hl as [q [_ [_ [F _]]]].
    rewrite lv_geb_sub_lmin. fold k'. rewrite (loop_adj _ _ _ _ _ _ F Fk'). reflexivity. }
  rewrite E. unfold d. rewrite std_IE; [| exact Hle | unfold j; rewrite adjL_length; unfold k'; rewrite map_length; exact Lk
                                     | apply adjL_ge; exact Fk'].
  rewrite local_combi3_form in Hg. apply in_map_iff in Hg. destruct Hg as [[l cf] [Eg Hl]]. subst g. cbn [fst] in Dg.
  apply std_member in Hl. destruct Hl as [q [_ [_ [F [Sm _]]]]].
  rewrite lv_geb_sub_lmin in Dg. fold k' in Dg. rewrite (loop_adj _ _ _ _ _ _ F Fk') in Dg. fold j in Dg.
  apply lv_geb_sum in Dg. fold d in Sm.
  destruct (Z.leb_spec (sumZ j) (lmax - lmin + Z.of_nat (S n) * lmin)); [reflexivity | unfold d in Sm; lia].
Qed.

Theorem local_combi3_valid : valid_local_combi d (local_combi3 cp c) = true.
Proof. apply valid_local_combi_complete; [apply local_combi3_wf | apply local_combi3_IE]. Qed.
End V3.
