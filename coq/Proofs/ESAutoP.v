(* C07: the extend/split decision and the split dimensions as functions of the error numbers (Model/ESAuto.v).
   - histories driven by numbers are histories of the model: all theorems about arbitrary decision inputs apply to EVERY
     outcome of the automatic decision / of get_split_dims;
   - the decision taken for an area depends only on the numbers of THAT area (its benefit pair, its twin errors);
   - get_split_dims never returns an empty list when the twin errors are non-negative. *)
From Coq Require Import ZArith List Bool QArith Qcanon Lia.
From SG Require Import Base.QcUtil Model.CombiScheme Model.ExtendSplit Model.ESInterp Model.ESAuto
     Proofs.ESGeom Proofs.ESInv Proofs.ESTree Proofs.ESDict Proofs.ESRestart.
Import ListNotations.

Definition run_numbers (st : state) (hist : list (list numbers * list (box * Z))) : state :=
  fold_left (fun s nb => step_numbers s (fst nb) (snd nb)) hist st.

Definition events_of_numbers (hist : list (list numbers * list (box * Z))) : list event :=
  map (fun nb => Step (mkStep (map decision_of (fst nb)) (snd nb))) hist.

Theorem run_numbers_is_run_events hist : forall st, run_numbers st hist = run_events st (events_of_numbers hist).
Proof.
  unfold run_numbers, run_events, events_of_numbers. induction hist as [|nb hist IH]; intro st; [reflexivity|].
  cbn [map fold_left]. rewrite IH. reflexivity.
Qed.

(* tiling, coarsening bounds and point assignment for EVERY outcome of the decisions (every list of numbers) *)
Theorem numbers_tiling dim version nrbe lmin lmax base auto single a b bens0 hist :
  wfbox a b -> length a = dim -> (lmin <= lmax)%Z ->
  let st := run_numbers (start_state dim version nrbe lmin lmax base auto single a b bens0) hist in
  Parts dim (a, b) (map abox (st_objs st)) /\
  (forall x, In x (st_objs st) -> (0 <= a_coarse x <= st_lmax st - lmin)%Z) /\
  (forall pts, (forall p, In p pts -> length p = dim /\ contains a b p = true) ->
     let res := assign_points (current_tree st) pts in
     (forall p, occ p (assigned res) = occ p pts) /\
     (forall bx ps, In (bx, ps) res -> In bx (map abox (st_objs st)) /\ forall p, In p ps -> inb bx p = true)).
Proof.
  intros W L Hl st. unfold st. rewrite run_numbers_is_run_events. split; [|split].
  - apply leaves_tile_domain; assumption.
  - apply (coarsening_nonneg dim version nrbe lmin lmax base auto single a b bens0 _ W L Hl).
  - intros pts HP. apply (point_assignment_partition dim version nrbe lmin lmax base auto single a b bens0 _ pts W L Hl HP).
Qed.

(* locality: what do_refinement looks up for the box b is determined by the first entry of the numbers list for b *)
Definition numbers_for (b : box) (nums : list numbers) : option numbers := find (fun nm => box_eqb b (fst nm)) nums.

Lemma lookup_decisions b nums dflt :
  lookup b (map decision_of nums) dflt = match numbers_for b nums with Some nm => snd (decision_of nm) | None => dflt end.
Proof.
  unfold numbers_for. induction nums as [|nm nums IH]; [reflexivity|]. cbn [map lookup find decision_of fst snd].
  destruct (box_eqb b (fst nm)); [reflexivity | exact IH].
Qed.

Theorem decision_depends_only_on_own_numbers b nums nums' dflt :
  numbers_for b nums = numbers_for b nums' -> lookup b (map decision_of nums) dflt = lookup b (map decision_of nums') dflt.
Proof. intro E. rewrite !lookup_decisions, E. reflexivity. Qed.

Theorem decision_of_numbers nm :
  snd (decision_of nm) = (auto_decide (fst (fst (snd nm))) (snd (fst (snd nm))), split_dims_of (snd (snd nm))).
Proof. reflexivity. Qed.

(* the split dimensions chosen in the twin bookkeeping depend only on the twin errors of the refined area *)
Theorem twin_split_dims_local es es' b : tw_get b es = tw_get b es' ->
  snd (twin_step es (TRefine b false)) = snd (twin_step es' (TRefine b false)).
Proof. intro E. unfold twin_step. rewrite E. destruct (tw_get b es'); reflexivity. Qed.

Theorem twin_split_dims_function es b e : tw_get b es = Some e ->
  snd (twin_step es (TRefine b false)) = Some (b, split_dims_of (the_errors (fst (snd e)))).
Proof. intro E. unfold twin_step. rewrite E. reflexivity. Qed.

(* ---------------------------------------------------------------- get_split_dims is never empty *)
Local Open Scope Qc_scope.

Lemma maxQ_acc l : forall m, m <= fold_left (fun m x => if Qc_ltb m x then x else m) l m /\
  (forall x, In x l -> x <= fold_left (fun m x => if Qc_ltb m x then x else m) l m) /\
  (fold_left (fun m x => if Qc_ltb m x then x else m) l m = m \/ In (fold_left (fun m x => if Qc_ltb m x then x else m) l m) l).
Proof.
  induction l as [|y l IH]; intro m; cbn [fold_left].
  - split; [apply Qcle_refl | split; [intros x [] | left; reflexivity]].
  - destruct (Qc_ltb m y) eqn:E.
    + apply Qc_ltb_lt in E. destruct (IH y) as [A [B C]]. split; [|split].
      * apply Qclt_le_weak in E. eapply Qcle_trans; eassumption.
      * intros x [Ex | Hx]; [subst; exact A | apply B; exact Hx].
      * right. destruct C as [C | C]; [rewrite C; left; reflexivity | right; exact C].
    + assert (Hle : y <= m).
      { destruct (Qclt_le_dec m y) as [H | H]; [apply Qc_ltb_lt in H; congruence | exact H]. }
      destruct (IH m) as [A [B C]]. split; [exact A | split].
      * intros x [Ex | Hx]; [subst; eapply Qcle_trans; eassumption | apply B; exact Hx].
      * destruct C as [C | C]; [left; exact C | right; right; exact C].
Qed.

Theorem split_dims_nonempty te : te <> [] -> Forall (fun x => 0 <= x) te -> split_dims_of te <> [].
Proof.
  intros Hne Hpos. unfold split_dims_of.
  destruct (maxQ_acc te 0) as [A [B C]]. fold (maxQ te) in A, B, C.
  assert (Hthr : maxQ te * margin <= maxQ te).
  { unfold margin. set (M := maxQ te) in *. clearbody M. qc_order. }
  assert (Ex : exists x, In x te /\ maxQ te * margin <= x).
  { destruct C as [C | C].
    - destruct te as [|x te]; [congruence|]. exists x. split; [left; reflexivity|]. rewrite C.
      inversion Hpos; subst. unfold margin. assert (E0 : 0 * Q2Qc (9 # 10) = 0) by ring. rewrite E0. assumption.
    - exists (maxQ te). split; assumption. }
  destruct Ex as [x [Hx Tx]].
  destruct (In_nth te x 0 Hx) as [i [Hi Ei]].
  intro E. assert (Hin : In (i, x) (filter (fun ix => Qc_leb (maxQ te * margin) (snd ix)) (combine (seq 0 (length te)) te))).
  { apply filter_In. split; [|apply Qc_leb_le; exact Tx].
    rewrite <- Ei. replace i with (nth i (seq 0 (length te)) 0%nat) at 1 by (rewrite seq_nth by exact Hi; reflexivity).
    rewrite <- combine_nth by (rewrite seq_length; reflexivity). apply nth_In. rewrite combine_length, seq_length. lia. }
  apply (in_map fst) in Hin. rewrite E in Hin. destruct Hin.
Qed.
