(* C08 (phase 3): LejaGrid1D.compute_1D_quad_weights solves a linear system; ANY solution of it is the interpolatory rule.
   Generic statement, every n, every list of n distinct nodes, every interval, every GRADED polynomial basis phi_0 .. phi_{n-1}
   (phi_j has exactly j+1 coefficients, the last one non-zero): weights w with  sum_i w_i phi_j(x_i) = int phi_j  for all j < n
   integrate every polynomial with at most n coefficients exactly, hence ARE the interpolatory weights (C08_interpolatory_unique).
   Instance: the shifted Legendre polynomials of the code (graded and int_0^1 P_j = [j = 0], checked for j < 13 = the rules of
   Leja levels 0..6). The LAPACK inversion itself stays certified per case (leja_system_ok on the returned floats). *)
From Coq Require Import ZArith List QArith Qcanon Bool Arith Lia.
From SG Require Import Base.QcUtil Base.PolyInt Base.PolyQ Model.Tensor Model.LocalGrids Model.LocalRules Proofs.TensorRule
  Proofs.LocalGridsBase Proofs.LocalGridsChecker Proofs.QuadPoly Proofs.QuadInterp.
Import ListNotations.
Open Scope Qc_scope.

Definition graded (phis : list poly) : Prop :=
  forall j, (j < length phis)%nat -> length (nth j phis []) = S j /\ nth j (nth j phis []) 0 <> 0.

(* dropping a vanishing top coefficient changes neither the values nor the formal integral *)
Lemma peval_drop_top (q : list Qc) c x : c = 0 -> Tensor.peval (q ++ [c]) x = Tensor.peval q x.
Proof. intros ->. induction q as [|a q IH]; [simpl; ring|]. cbn [app Tensor.peval]. rewrite IH. reflexivity. Qed.

Lemma pint_from_drop_top (q : list Qc) c k s e : c = 0 -> pint_from k (q ++ [c]) s e = pint_from k q s e.
Proof. intros ->. revert k. induction q as [|a q IH]; intro k; [simpl; ring|]. cbn [app pint_from]. rewrite IH. reflexivity. Qed.

Lemma split_last (p : list Qc) m : length p = S m -> exists q c, p = q ++ [c] /\ length q = m /\ c = nth m p 0.
Proof.
  intro H. exists (removelast p), (last p 0).
  assert (Hne : p <> []) by (intro E; subst; discriminate).
  split; [apply app_removelast_last; exact Hne|].
  assert (Hl : length (removelast p) = m).
  { pose proof (app_removelast_last 0 Hne) as E. apply (f_equal (@length Qc)) in E. rewrite app_length in E. cbn in E. lia. }
  split; [exact Hl|].
  rewrite (app_removelast_last 0 Hne) at 2. rewrite app_nth2 by lia. rewrite Hl, Nat.sub_diag. reflexivity.
Qed.

Lemma nth_nil0 k : nth k (@nil Qc) 0 = 0.
Proof. destruct k; reflexivity. Qed.

Lemma nth_padd p q k : nth k (padd p q) 0 = nth k p 0 + nth k q 0.
Proof.
  revert q k. induction p as [|a p IH]; intros q k.
  - cbn [padd]. rewrite nth_nil0. ring.
  - destruct q as [|b q].
    + cbn [padd]. rewrite nth_nil0. ring.
    + destruct k as [|k]; cbn [padd nth]; [reflexivity | apply IH].
Qed.
Lemma nth_pscale c p k : nth k (pscale c p) 0 = c * nth k p 0.
Proof.
  revert k. induction p as [|a p IH]; intro k.
  - destruct k; simpl; ring.
  - destruct k as [|k]; simpl; [reflexivity | apply IH].
Qed.

Section System.
Variables (xs ws : list Qc) (s e : Qc) (phis : list poly).
Hypothesis Hg : graded phis.
Hypothesis Hsys : forall j, (j < length phis)%nat ->
  apply1 (Tensor.peval (nth j phis [])) xs ws = pint (nth j phis []) s e.

(* every polynomial with at most length phis coefficients is integrated exactly *)
Lemma system_exact_poly : forall m p, (m <= length phis)%nat -> (length p <= m)%nat ->
  apply1 (Tensor.peval p) xs ws = pint p s e.
Proof.
  induction m as [|m IH]; intros p Hm Hl.
  - destruct p; [|simpl in Hl; lia]. unfold pint. cbn [pint_from]. apply apply1_zero.
  - destruct (Nat.eq_dec (length p) (S m)) as [E|N]; [|apply IH; lia].
    destruct (Hg m ltac:(lia)) as [Lphi Nz]. set (phi := nth m phis []) in *.
    set (c := nth m p 0 / nth m phi 0).
    set (d := padd p (pscale (- c) phi)).
    assert (Ld : length d = S m) by (unfold d; rewrite padd_length, pscale_length, E, Lphi; lia).
    assert (Td : nth m d 0 = 0) by (unfold d, c; rewrite nth_padd, nth_pscale; field; exact Nz).
    destruct (split_last d m Ld) as (q & t & Ed & Lq & Et). rewrite Td in Et.
    assert (Hq : apply1 (Tensor.peval q) xs ws = pint q s e) by (apply IH; lia).
    (* p = d + c phi *)
    assert (Ev : forall x, Tensor.peval p x = Tensor.peval q x + c * Tensor.peval phi x).
    { intro x. rewrite <- (peval_drop_top q t x Et), <- Ed. unfold d.
      rewrite <- (peval_bridge (padd p (pscale (- c) phi)) x), peval_padd, peval_pscale, (peval_bridge p x), (peval_bridge phi x). ring. }
    assert (Ei : pint p s e = pint q s e + c * pint phi s e).
    { unfold pint at 2. rewrite <- (pint_from_drop_top q t 0 s e Et), <- Ed. fold (pint d s e). unfold d.
      rewrite pint_padd, pint_pscale. ring. }
    rewrite (apply1_ext _ (fun x => Tensor.peval q x + c * Tensor.peval phi x)) by exact Ev.
    rewrite apply1_add, apply1_scale, Hq, Ei. unfold phi. rewrite Hsys by lia. reflexivity.
Qed.

Theorem system_solution_is_interpolatory : NoDup xs -> length ws = length xs -> length phis = length xs ->
  ws = interp_weights xs s e.
Proof.
  intros Hnd Hl Hn. apply interp_unique; [assumption | assumption|].
  intros k Hk. rewrite <- pint_mono_poly.
  rewrite <- (system_exact_poly (length phis) (mono_poly k)) by (rewrite ?mono_poly_length; lia).
  apply apply1_ext. intro x. rewrite peval_mono_poly. reflexivity.
Qed.
End System.

(* ---- the code's basis: shifted Legendre polynomials ---- *)
Definition graded_b (phis : list poly) : bool :=
  forallb (fun jp => (length (snd jp) =? S (fst jp))%nat && negb (Qc_eqb (nth (fst jp) (snd jp) 0) 0))
          (combine (seq 0 (length phis)) phis).

Lemma graded_b_sound phis : graded_b phis = true -> graded phis.
Proof.
  intros H j Hj. unfold graded_b in H. rewrite forallb_forall in H.
  assert (Hin : In (nth j (combine (seq 0 (length phis)) phis) (0%nat, [])) (combine (seq 0 (length phis)) phis))
    by (apply nth_In; rewrite combine_length, seq_length; lia).
  rewrite combine_nth in Hin by (rewrite seq_length; reflexivity). rewrite seq_nth in Hin by lia. cbn [Nat.add] in Hin.
  specialize (H _ Hin). cbn [fst snd] in H. apply andb_true_iff in H. destruct H as [H1 H2].
  split; [apply Nat.eqb_eq; exact H1|]. intro E. apply negb_true_iff in H2.
  exact (eq_true_false_abs _ (proj2 (Qc_eqb_eq _ _) E) H2).
Qed.

Definition leg_integrals_b (n : nat) : bool :=
  forallb (fun jp => Qc_eqb (pint (snd jp) 0 1) (if (fst jp =? 0)%nat then 1 else 0)) (combine (seq 0 n) (shleg_list n)).

Lemma shleg_length n : length (shleg_list n) = n.
Proof.
  unfold shleg_list. generalize 0%nat, [1], [-(1); qn 2]. induction n as [|n IH]; intros j a b; [reflexivity|].
  cbn [shleg_from length]. rewrite IH. reflexivity.
Qed.

Lemma shleg_prefix : forall n m, (n <= m)%nat -> shleg_list n = firstn n (shleg_list m).
Proof.
  unfold shleg_list. intros n m. generalize 0%nat, [1], [-(1); qn 2]. revert m.
  induction n as [|n IH]; intros m j a b H; [reflexivity|].
  destruct m as [|m]; [lia|]. cbn [shleg_from firstn]. f_equal. apply IH. lia.
Qed.

Lemma nth_firstn_lt {A} (d : A) : forall n j (l : list A), (j < n)%nat -> nth j (firstn n l) d = nth j l d.
Proof.
  induction n as [|n IH]; intros j l H; [lia|]. destruct l as [|x l]; [destruct j; reflexivity|].
  destruct j as [|j]; [reflexivity|]. cbn [firstn nth]. apply IH. lia.
Qed.

(* graded and int_0^1 P_j = [j = 0] for the first 13 polynomials (Leja levels 0..6 have at most 13 points) *)
Lemma shleg13_facts : graded_b (shleg_list 13) = true /\ leg_integrals_b 13 = true.
Proof. split; vm_compute; reflexivity. Qed.

Lemma shleg_facts n : (n <= 13)%nat -> graded (shleg_list n) /\
  forall j, (j < n)%nat -> pint (nth j (shleg_list n) []) 0 1 = if (j =? 0)%nat then 1 else 0.
Proof.
  intro Hn. destruct shleg13_facts as [G I]. apply graded_b_sound in G.
  assert (Enth : forall j, (j < n)%nat -> nth j (shleg_list n) [] = nth j (shleg_list 13) []).
  { intros j Hj. rewrite (shleg_prefix n 13 Hn). apply nth_firstn_lt. exact Hj. }
  split.
  - intros j Hj. rewrite shleg_length in Hj. rewrite (Enth j Hj). apply G. rewrite shleg_length. lia.
  - intros j Hj. rewrite (Enth j Hj). unfold leg_integrals_b in I. rewrite forallb_forall in I.
    assert (Hin : In (nth j (combine (seq 0 13) (shleg_list 13)) (0%nat, [])) (combine (seq 0 13) (shleg_list 13)))
      by (apply nth_In; rewrite combine_length, seq_length, shleg_length; lia).
    rewrite combine_nth in Hin by (rewrite seq_length, shleg_length; reflexivity). rewrite seq_nth in Hin by lia. cbn [Nat.add] in Hin.
    specialize (I _ Hin). cbn [fst snd] in I. apply Qc_eqb_eq in I. exact I.
Qed.

(* the system of the code with residual 0 <=> exact solution *)
Theorem leja_solution_is_interpolatory_bounded xs ws : (length xs <= 13)%nat -> NoDup xs -> length ws = length xs ->
  (forall j, (j < length xs)%nat ->
     dotQ (map (PolyInt.peval (nth j (shleg_list (length xs)) [])) xs) ws = if (j =? 0)%nat then 1 else 0) ->
  ws = interp_weights xs 0 1 /\
  (forall p, (length p <= length xs)%nat -> apply1 (Tensor.peval p) xs ws = pint p 0 1).
Proof.
  intros Hn Hnd Hl Hs. destruct (shleg_facts (length xs) Hn) as [G I].
  assert (Hsys : forall j, (j < length (shleg_list (length xs)))%nat ->
            apply1 (Tensor.peval (nth j (shleg_list (length xs)) [])) xs ws = pint (nth j (shleg_list (length xs)) []) 0 1).
  { intros j Hj. rewrite shleg_length in Hj. rewrite (I j Hj), <- (Hs j Hj). unfold apply1. f_equal. }
  split.
  - apply (system_solution_is_interpolatory xs ws 0 1 (shleg_list (length xs)) G Hsys Hnd Hl). apply shleg_length.
  - intros p Hp. apply (system_exact_poly xs ws 0 1 (shleg_list (length xs)) G Hsys (length xs)); [rewrite shleg_length; lia | exact Hp].
Qed.

(* the checker: residuals within tol *)
Theorem leja_system_ok_sound xs ws tol : leja_system_ok xs ws tol = true ->
  length xs = length ws /\ Forall (fun r => Qc_abs r <= tol) (leja_system_residuals xs ws).
Proof.
  unfold leja_system_ok. intro H. apply andb_true_iff in H. destruct H as [H1 H2]. split; [apply Nat.eqb_eq; exact H1|].
  apply Forall_forall. intros r Hr. rewrite forallb_forall in H2. apply Qc_leb_le. apply H2. exact Hr.
Qed.
