(* closed-form (non-adaptive) scheme = coefficients of the freshly initialised adaptive scheme: bounded by enumeration *)
From Coq Require Import ZArith List Bool Lia.
From SG Require Import Model.CombiScheme Proofs.SchemeBasics.
Import ListNotations.
Open Scope Z_scope.

Definition coeffs_sub (a b : list (lv * Z)) : bool :=
  forallb (fun kv => existsb (fun kv' => lv_eqb (fst kv) (fst kv') && (snd kv =? snd kv')) b) a.

Definition std_eq_adaptive (d : nat) (lmin span : Z) : bool :=
  match init_scheme d (lmin + span) lmin with
  | Some s => let a := combi_scheme_adaptive s in
              let c := combi_scheme_standard d lmin (lmin + span) in
              coeffs_sub c a && coeffs_sub a c
  | None => false
  end.

Definition std_bound_check : bool :=
  forallb (fun d => forallb (fun lmin => forallb (fun span => std_eq_adaptive d lmin span) (zrange 6)) (zrange 4)) (seq 1 5).

Lemma std_bound_check_true : std_bound_check = true.
Proof. vm_compute. reflexivity. Qed.

Lemma std_equals_adaptive_init_bounded_l d lmin span :
  In d (seq 1 5) -> In lmin (zrange 4) -> In span (zrange 6) -> std_eq_adaptive d lmin span = true.
Proof.
  intros Hd Hl Hs. pose proof std_bound_check_true as H. unfold std_bound_check in H.
  rewrite forallb_forall in H. specialize (H d Hd). rewrite forallb_forall in H. specialize (H lmin Hl).
  rewrite forallb_forall in H. exact (H span Hs).
Qed.

Lemma coeffs_sub_spec a b : coeffs_sub a b = true -> forall k c, In (k, c) a -> In (k, c) b.
Proof.
  unfold coeffs_sub. rewrite forallb_forall. intros H k c Hin. specialize (H (k, c) Hin).
  apply existsb_exists in H. destruct H as [[k' c'] [Hin' E]]. simpl in E.
  apply andb_true_iff in E. destruct E as [E1 E2]. apply lv_eqb_eq in E1. apply Z.eqb_eq in E2. subst. assumption.
Qed.
