(* C03: final statements assembled from DimWiseStripes / DimWiseCombi / DimWiseInv / RefTreeCheck *)
From Coq Require Import ZArith List Bool QArith Qcanon Arith Lia Sorted.
From SG Require Import Base.QcUtil Model.CombiScheme Model.RefTree Model.DimWise
     Proofs.SchemeBasics Proofs.SchemeInv Proofs.CombiAbstract Proofs.RefTreeInv Proofs.RefTreeCheck
     Proofs.DimWiseInv Proofs.DimWiseStripes Proofs.DimWiseCombi.
Import ListNotations.
Open Scope Z_scope.

Lemma DwInv_TilesOK a b st : DwInv a b st -> TilesOK a b st.
Proof.
  intros (_ & _ & _ & Hall & _) d t Hd. unfold st_trees in Hd. rewrite nth_error_map in Hd.
  destruct (nth_error (m_conts (st_meta st)) d) as [c|] eqn:E; [|discriminate]. injection Hd as <-.
  destruct (Hall d c E) as [_ [HS _]]. split; [eapply Seg_nonempty; eassumption | apply Seg_Chain; assumption].
Qed.

(* the checker route (used for states reached with rebalancing) *)
Lemma tree_ok_TilesOK a b st :
  (forall d t, nth_error (st_trees st) d = Some t -> tree_ok (nth d a 0%Qc) (nth d b 0%Qc) (nth d (st_lmax st) 0) t = true) ->
  TilesOK a b st.
Proof.
  intros H d t Hd. destruct (tree_ok_sound _ _ _ _ (H d t Hd)) as (A & B & _). split; assumption.
Qed.

(* the scheme is only changed through update_adaptive_combi: its invariant survives every step, rebalancing or not *)
Lemma coarsen_dims_scheme_inv lmin dim : forall trees d lmaxs s trees3 lmaxs' s',
  coarsen_dims d trees lmaxs lmin dim s = Some (trees3, lmaxs', s') -> Inv s -> Inv s'.
Proof.
  induction trees as [|t trees IH]; intros d lmaxs s trees3 lmaxs' s' E HI.
  - simpl in E. injection E as _ _ <-. assumption.
  - cbn [coarsen_dims] in E. destruct (update_coarsening (nth d lmaxs 0) t) as [t1 upd].
    destruct (0 <? upd).
    + destruct (raise_lmax d upd lmaxs lmin dim s) as [[lm1 s1]|] eqn:ER; [|discriminate].
      destruct (raise_lmax_spec _ _ _ _ _ _ _ _ HI ER) as [_ HI1].
      destruct (coarsen_dims (S d) trees lm1 lmin dim s1) as [[[r' lm] s'']|] eqn:EC; [|discriminate].
      injection E as _ _ <-. eapply IH; eassumption.
    + destruct (coarsen_dims (S d) trees lmaxs lmin dim s) as [[[r' lm] s'']|] eqn:EC; [|discriminate].
      injection E as _ _ <-. eapply IH; eassumption.
Qed.

Theorem dw_step_scheme_inv o bens st st' : Inv (st_scheme st) -> dw_step o bens st = Some st' -> Inv (st_scheme st').
Proof.
  intros HI E. unfold dw_step in E.
  destruct (meta_refine_step _ _ _) as [m1|]; [|discriminate].
  destruct (if o_rebal o then _ else _) as [trees2|]; [|discriminate].
  destruct (coarsen_dims 0 trees2 _ _ _ _) as [[[trees3 lmaxs] s]|] eqn:EC; [|discriminate].
  injection E as <-. simpl. eapply coarsen_dims_scheme_inv; eassumption.
Qed.

Theorem dw_run_scheme_inv o : forall steps st st', Inv (st_scheme st) -> dw_run o steps st = Some st' -> Inv (st_scheme st').
Proof.
  induction steps as [|bens steps IH]; intros st st' HI E; simpl in E.
  - injection E as <-. assumption.
  - destruct (dw_step o bens st) as [st1|] eqn:E1; [|discriminate].
    eapply IH; [|eassumption]. eapply dw_step_scheme_inv; eassumption.
Qed.

Theorem dw_reachable_scheme_inv n lmin lmax a b o steps st0 st :
  dw_init (S n) lmin lmax a b = Some st0 -> dw_run o steps st0 = Some st -> Inv (st_scheme st).
Proof.
  intros Hinit Hrun. eapply dw_run_scheme_inv; [|eassumption].
  unfold dw_init in Hinit. destruct (_ && _ && _); [|discriminate].
  destruct (init_scheme (S n) lmax lmin) as [s|] eqn:ES; [|discriminate]. injection Hinit as <-. simpl.
  eapply init_inv; eassumption.
Qed.

(* stripes of a state *)
Theorem dw_stripes_sorted_with_endpoints a b o st d l t s :
  TilesOK a b st -> nth_error (st_trees st) d = Some t -> stripe_dim o st d l = Some s ->
  StronglySorted Qclt (map fst s) /\ exists r, s = (nth d a 0%Qc, 0) :: r ++ [(nth d b 0%Qc, 0)].
Proof.
  intros HT Hd H. destruct (HT d t Hd) as [Hne HC]. rewrite stripe_dim_is_stripe in H.
  rewrite (nth_error_nth _ _ [] Hd) in H. eapply stripe_sorted_with_endpoints; eassumption.
Qed.

Theorem dw_stripes_monotone o st d l l' s1 :
  stripe_dim o st d l = Some s1 -> l <= l' -> exists s2, stripe_dim o st d l' = Some s2 /\ incl s1 s2.
Proof.
  intros H Hle. rewrite stripe_dim_is_stripe in H.
  destruct (stripe_mono (dw_sub o st d) (get_subtraction_value_mono _ _ _ _ _ _ _) _ (Z.to_nat (l' - l)) l s1 H)
    as (s2 & E2 & Hincl).
  replace (l + Z.of_nat (Z.to_nat (l' - l))) with l' in E2 by lia.
  exists s2. split; [rewrite stripe_dim_is_stripe; assumption | assumption].
Qed.

(* coefficient sum 1 at every point of the combined grid: reachable states without rebalancing ... *)
Theorem dw_reachable_point_coeff_sum_one n lmin lmax a b o steps st0 st x l0 c0 :
  Forall2 (fun p q => (p < q)%Qc) a b -> o_rebal o = false ->
  dw_init (S n) lmin lmax a b = Some st0 -> dw_run o steps st0 = Some st ->
  In (l0, c0) (combi_scheme_adaptive (st_scheme st)) -> dw_in_comp o st x l0 = true ->
  dw_coeff_sum o st x = 1.
Proof.
  intros Hab Hreb Hinit Hrun Hin Hx.
  pose proof (dw_reachable_inv _ _ _ _ _ _ _ _ _ Hab Hreb Hinit Hrun) as HD.
  eapply dw_point_coeff_sum_one; [| apply DwInv_TilesOK; exact HD | exact Hin | exact Hx].
  destruct HD as (_ & _ & _ & _ & HI). exact HI.
Qed.

(* ... and every reachable state (rebalancing included) whose trees pass the verified checker *)
Theorem dw_checked_point_coeff_sum_one n lmin lmax a b o steps st0 st x l0 c0 :
  dw_init (S n) lmin lmax a b = Some st0 -> dw_run o steps st0 = Some st ->
  (forall d t, nth_error (st_trees st) d = Some t -> tree_ok (nth d a 0%Qc) (nth d b 0%Qc) (nth d (st_lmax st) 0) t = true) ->
  In (l0, c0) (combi_scheme_adaptive (st_scheme st)) -> dw_in_comp o st x l0 = true ->
  dw_coeff_sum o st x = 1.
Proof.
  intros Hinit Hrun Hok Hin Hx.
  eapply dw_point_coeff_sum_one; [| apply tree_ok_TilesOK; exact Hok | exact Hin | exact Hx].
  eapply dw_reachable_scheme_inv; eassumption.
Qed.
