(* C11 — forced balancing is the identity on complete dyadic grids, for EVERY depth: init_tree builds the complete binary
   tree, which is full, so force_full_tree_invariant leaves it unchanged and get_grid / get_grid_levels return the given
   grid and levels.  Hence the unconditional exactness theorem for the grouped variants also holds with
   force_balanced_refinement_tree = True. *)
From Coq Require Import ZArith List QArith Qcanon Bool Arith Lia.
From SG Require Import Base.QcUtil Model.Romberg Proofs.RombergBasics Proofs.RombergCoeff Proofs.RombergTree
  Proofs.RombergSliced Proofs.RombergExact Proofs.RombergGrouped Proofs.RombergFuel Proofs.RombergAnnihilate Proofs.RombergEM
  Proofs.RombergDegree Proofs.RombergComplete.
Import ListNotations.
Open Scope Qc_scope.

(* the complete binary tree of depth d *)
Inductive ctree : nat -> tree -> Prop :=
| ct0 : ctree 0 TLeaf
| ctS d l p r : ctree d l -> ctree d r -> ctree (S d) (TNode l p r).

Lemma ctree_levels d : forall t lev, ctree d t -> tree_levels lev t = full_levels d lev.
Proof.
  induction d as [|d IH]; intros t lev H; inversion H; subst; [reflexivity|].
  cbn [tree_levels full_levels]. rewrite !(IH _ (S lev)) by assumption. reflexivity.
Qed.

Lemma ctree_full d : forall t, ctree d t -> full t.
Proof.
  induction d as [|d IH]; intros t H; inversion H as [|d' l p r Hl Hr]; subst; [exact I|].
  cbn [full]. split; [|split; apply IH; assumption].
  destruct d as [|d'].
  - inversion Hl; inversion Hr; subst. left. split; reflexivity.
  - inversion Hl; inversion Hr; subst. right. split; discriminate.
Qed.

Lemma build_tree_complete d : forall lev pts fuel,
  map snd pts = full_levels d lev -> (length pts <= fuel)%nat -> ctree d (build_tree fuel pts).
Proof.
  induction d as [|d IH]; intros lev pts fuel H Hf.
  - cbn [full_levels] in H. apply map_eq_nil in H. subst pts. destruct fuel; constructor.
  - assert (LP : length pts = (2 ^ S d - 1)%nat) by (rewrite <- (map_length snd), H; apply full_levels_length).
    assert (P : (1 <= 2 ^ d)%nat) by (apply Nat.neq_0_lt_0, Nat.pow_nonzero; lia).
    rewrite Nat.pow_succ_r' in LP.
    destruct pts as [|x r]; [simpl in LP; lia|]. destruct fuel as [|f]; [simpl in Hf; lia|].
    set (l := x :: r) in *.
    change (build_tree (S f) l) with
         (TNode (build_tree f (firstn (argmin (map snd l)) l)) (fst (nth (argmin (map snd l)) l (0, O)))
               (build_tree f (skipn (S (argmin (map snd l))) l))).
    rewrite H, argmin_full.
    set (L := full_levels d (S lev)).
    assert (LL : length L = (2 ^ d - 1)%nat) by (unfold L; apply full_levels_length).
    assert (HF : map snd l = L ++ [lev] ++ L) by (rewrite H; reflexivity).
    constructor.
    + apply (IH (S lev)).
      * rewrite <- firstn_map, HF, <- LL. apply firstn_app_exact.
      * rewrite firstn_length. lia.
    + apply (IH (S lev)).
      * rewrite <- skipn_map, HF.
        replace (S (2 ^ d - 1)) with (length (L ++ [lev])) by (rewrite app_length, LL; simpl; lia).
        replace (L ++ [lev] ++ L) with ((L ++ [lev]) ++ L) by (rewrite <- app_assoc; reflexivity).
        apply skipn_app_exact.
      * rewrite skipn_length. lia.
Qed.

(* list helpers *)
Lemma zip_levels_snd : forall (g : list Qc) (ls : list nat), length g = length ls -> map snd (zip_levels g ls) = ls.
Proof. induction g as [|y g IH]; intros [|l ls] H; simpl in *; try lia; [reflexivity|]. f_equal. apply IH. lia. Qed.

Lemma map_removelast {A B} (f : A -> B) l : map f (removelast l) = removelast (map f l).
Proof.
  induction l as [|x l IH]; [reflexivity|]. destruct l as [|y l]; [reflexivity|].
  change (removelast (x :: y :: l)) with (x :: removelast (y :: l)).
  change (map f (x :: y :: l)) with (f x :: map f (y :: l)).
  change (removelast (f x :: map f (y :: l))) with (f x :: removelast (map f (y :: l))).
  cbn [map]. f_equal. exact IH.
Qed.

Lemma map_inner {A B} (f : A -> B) l : map f (inner l) = inner (map f l).
Proof. unfold inner. rewrite map_removelast. destruct l; reflexivity. Qed.

Lemma inner_complete_levels m : inner (complete_levels m) = full_levels m 1.
Proof. unfold inner, complete_levels. cbn [app tl]. apply removelast_last. Qed.

Lemma rebuild_list {A} (d : A) l : (2 <= length l)%nat -> [nth 0 l d] ++ inner l ++ [nth (length l - 1) l d] = l.
Proof.
  intro H. destruct l as [|x l']; [simpl in H; lia|].
  assert (NE : l' <> []) by (intro E; subst; simpl in H; lia).
  destruct (exists_last NE) as [q [y E]]. subst l'.
  unfold inner. cbn [tl nth app]. rewrite removelast_last.
  replace (length (x :: q ++ [y]) - 1)%nat with (S (length q)) by (cbn [length]; rewrite app_length; simpl; lia).
  cbn [nth]. rewrite app_nth2 by lia. rewrite Nat.sub_diag. reflexivity.
Qed.

(* forced balancing does nothing on the complete grid *)
Theorem complete_forced_identity a b m : (1 <= m)%nat ->
  match init_tree (complete_grid a b m) (complete_levels m) with
  | Some t => Some (tree_grid (nthQ (complete_grid a b m) 0) (nthQ (complete_grid a b m) (length (complete_grid a b m) - 1)) (force_full t))
  | None => None
  end = Some (complete_grid a b m, complete_levels m).
Proof.
  intro Hm.
  assert (P : (1 <= 2 ^ m)%nat) by (apply Nat.neq_0_lt_0, Nat.pow_nonzero; lia).
  assert (LG := complete_grid_length a b m). assert (LV := complete_levels_length m).
  destruct (init_tree (complete_grid a b m) (complete_levels m)) as [t|] eqn:E.
  - assert (TP := init_tree_keeps_grid _ _ t ltac:(rewrite LG, LV; reflexivity) E).
    unfold init_tree in E. unfold complete_levels in E at 1. cbn [app] in E.
    destruct (Nat.eqb (last (complete_levels m) 1%nat) 0); [|discriminate].
    set (pts := inner (zip_levels (complete_grid a b m) (complete_levels m))) in *.
    assert (MS : map snd pts = full_levels m 1).
    { unfold pts. rewrite map_inner, zip_levels_snd by (rewrite LG, LV; reflexivity). apply inner_complete_levels. }
    destruct pts as [|x r] eqn:Ep; [discriminate|]. rewrite <- Ep in *.
    assert (T : t = build_tree (length pts) pts) by (rewrite Ep in *; congruence).
    assert (C : ctree m t) by (rewrite T; apply (build_tree_complete m 1 pts); [exact MS | lia]).
    rewrite (force_full_idempotent_on_full t (ctree_full m t C)).
    unfold tree_grid. rewrite TP, (ctree_levels m t 1 C).
    f_equal. f_equal.
    + apply (rebuild_list 0 (complete_grid a b m)). rewrite LG. lia.
  - exfalso. unfold init_tree in E. unfold complete_levels in E at 1. cbn [app] in E.
    assert (LZ : last (complete_levels m) 1%nat = 0%nat).
    { unfold complete_levels. change ([0%nat] ++ full_levels m 1 ++ [0%nat]) with ((0%nat :: full_levels m 1) ++ [0%nat]). apply last_last. }
    rewrite LZ in E. cbn [Nat.eqb] in E.
    set (pts := inner (zip_levels (complete_grid a b m) (complete_levels m))) in *.
    assert (MS : map snd pts = full_levels m 1).
    { unfold pts. rewrite map_inner, zip_levels_snd by (rewrite LG, LV; reflexivity). apply inner_complete_levels. }
    destruct pts as [|x r]; [|discriminate].
    assert (L0 := full_levels_length m 1). rewrite <- MS in L0. simpl in L0.
    assert (2 <= 2 ^ m)%nat; [|lia].
    destruct m as [|m']; [lia|]. rewrite Nat.pow_succ_r'. assert (1 <= 2 ^ m')%nat by (apply Nat.neq_0_lt_0, Nat.pow_nonzero; lia). lia.
Qed.

Theorem complete_forced_same lo g sv cv a b m : (1 <= m)%nat ->
  extrapolation_grid_from lo g sv cv true (complete_grid a b m) (complete_levels m)
  = extrapolation_grid_from lo g sv cv false (complete_grid a b m) (complete_levels m).
Proof.
  intro Hm. unfold extrapolation_grid_from.
  destruct (Nat.eqb (length (complete_grid a b m)) (length (complete_levels m)) && (2 <=? length (complete_grid a b m))%nat); [|reflexivity].
  rewrite (complete_forced_identity a b m Hm). reflexivity.
Qed.

(* the unconditional exactness theorem, with or without forced balancing *)
Theorem complete_grid_grouped_exact_any_force lo g sv force a b m : a < b -> (1 <= m)%nat -> g <> G_Unit ->
  exists r, extrapolation_grid_from lo g sv CV_Default force (complete_grid a b m) (complete_levels m) = Some r /\
            er_grid r = complete_grid a b m /\ er_container_sizes r = [(2 ^ m)%nat] /\
            forall k, (k <= 2 * m + 1)%nat -> wpow k (er_dict r) = Ik k a b.
Proof.
  intros Hab Hm Hg. destruct force; [rewrite complete_forced_same by exact Hm|]; apply complete_grid_grouped_exact; assumption.
Qed.
