(* C07: the point assignment is a function of the current refinement tree and the list of points only - there is no
   further state (no counter, no memory of earlier queries).  Restarts (evaluation of all areas) and observation passes
   leave the tree seen by get_points_in_areas_recursive unchanged, hence the assignment of EVERY point list unchanged;
   only refinement rounds change it. *)
From Coq Require Import ZArith List Bool QArith Qcanon Lia.
From SG Require Import Base.QcUtil Model.CombiScheme Model.StdCombi Model.ExtendSplit Model.ESInterp.
Import ListNotations.

Lemma map_leaf_of_ext (h : area -> area) l : (forall x, leaf_of (h x) = leaf_of x) -> map leaf_of (map h l) = map leaf_of l.
Proof. intro H. rewrite map_map. apply map_ext. exact H. Qed.

Lemma evaluate_current_tree st bens : current_tree (fst (evaluate st bens)) = current_tree st.
Proof.
  unfold evaluate, current_tree. cbn [fst st_single st_a st_b st_objs st_tree].
  destruct (st_single st); [|reflexivity]. f_equal.
  rewrite map_app, map_leaf_of_ext by (intro x; reflexivity). rewrite <- map_app, firstn_skipn. reflexivity.
Qed.

Theorem restart_keeps_assignment st bens pts :
  assign_points (current_tree (restart st bens)) pts = assign_points (current_tree st) pts.
Proof. unfold restart. rewrite evaluate_current_tree. reflexivity. Qed.

Theorem observe_keeps_assignment st pts :
  assign_points (current_tree (fst (observe_coarsen st))) pts = assign_points (current_tree st) pts.
Proof.
  unfold observe_coarsen, set_objs, current_tree. cbn [fst st_single st_a st_b st_objs st_tree].
  destruct (st_single st); [|reflexivity]. rewrite map_leaf_of_ext by (intro x; reflexivity). reflexivity.
Qed.

(* the interpolation call: same state, same points => same values; and a restart changes neither the assignment nor
   (Proofs/ESDict.v: area_grids = local_combi) the grids used on each area *)
Theorem assignment_function_of_tree_and_points st1 st2 pts :
  current_tree st1 = current_tree st2 -> assign_points (current_tree st1) pts = assign_points (current_tree st2) pts.
Proof. intro E. rewrite E. reflexivity. Qed.
