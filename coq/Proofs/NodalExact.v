(* Nodal exactness of the combination technique, proved abstractly (tier 2 of DESIGN section 4).
   1D evaluation functionals are finite weighted point lists; a component interpolant evaluated at a fixed point x is
   the tensor application of the per-dimension functionals E_d(l_d). If E_d(l) reproduces point evaluation at x_d for
   all l >= k_d (Kronecker property of nodal bases on nested grids) and the scheme satisfies inclusion-exclusion w.r.t.
   a downward closed index set containing k, the combined interpolant of an ARBITRARY f at x equals f x. *)
From Coq Require Import ZArith List Bool QArith Qcanon Lia.
From SG Require Import Base.QcUtil Model.CombiScheme Proofs.SchemeBasics Proofs.SchemeIE.
Import ListNotations.
Local Open Scope Qc_scope.

Lemma qc_of_Z_add x y : qc_of_Z (x + y) = qc_of_Z x + qc_of_Z y.
Proof.
  unfold qc_of_Z. apply Qc_is_canon. unfold Qcplus, Q2Qc; cbn [this].
  rewrite !Qred_correct. rewrite inject_Z_plus. reflexivity.
Qed.

Definition b2q (b : bool) : Qc := if b then 1 else 0.

Lemma sumQ_map_ext {A} (f g : A -> Qc) l : (forall x, In x l -> f x = g x) -> sumQ (map f l) = sumQ (map g l).
Proof. intro H. f_equal. apply map_ext_in. exact H. Qed.

Lemma sumQ_exchange {A B} (F : A -> B -> Qc) xs ys :
  sumQ (map (fun x => sumQ (map (fun y => F x y) ys)) xs) = sumQ (map (fun y => sumQ (map (fun x => F x y) xs)) ys).
Proof.
  induction xs as [|x xs IH]; simpl.
  - induction ys as [|y ys IHy]; simpl; [reflexivity|]. rewrite <- IHy. ring.
  - rewrite IH. rewrite <- sumQ_map_add. reflexivity.
Qed.

Lemma sumQ_flat_map {A B} (f : A -> list B) (g : B -> Qc) xs :
  sumQ (map g (flat_map f xs)) = sumQ (map (fun x => sumQ (map g (f x))) xs).
Proof. induction xs as [|x xs IH]; simpl; [reflexivity|]. rewrite map_app, sumQ_app, IH. reflexivity. Qed.

Lemma sumQ_zero {A} (f : A -> Qc) l : (forall x, In x l -> f x = 0) -> sumQ (map f l) = 0.
Proof.
  induction l as [|a l IH]; intro H; simpl; [reflexivity|].
  rewrite (H a (or_introl eq_refl)), IH; [ring|]. intros x Hx. apply H. right. exact Hx.
Qed.

Lemma sumQ_scale_r {A} (c : Qc) (f : A -> Qc) l : sumQ (map (fun x => f x * c) l) = sumQ (map f l) * c.
Proof. induction l as [|x l IH]; simpl; [ring | rewrite IH; ring]. Qed.

Section Nodal.
  Variable X : Type.
  Definition fnl := list (X * Qc).

  Definition app1 (L : fnl) (g : X -> Qc) : Qc := sumQ (map (fun pw => snd pw * g (fst pw)) L).

  Fixpoint appT (Ls : list fnl) (f : list X -> Qc) : Qc :=
    match Ls with
    | [] => f []
    | L :: r => app1 L (fun p => appT r (fun q => f (p :: q)))
    end.

  Definition negF (L : fnl) : fnl := map (fun pw => (fst pw, - snd pw)) L.

  Lemma app1_ext L g h : (forall p, g p = h p) -> app1 L g = app1 L h.
  Proof. intro H. unfold app1. apply sumQ_map_ext. intros pw _. rewrite H. reflexivity. Qed.

  Lemma appT_ext Ls : forall f f', (forall q, f q = f' q) -> appT Ls f = appT Ls f'.
  Proof.
    induction Ls as [|L r IH]; intros f f' H; simpl; [apply H|].
    apply app1_ext. intro p. apply IH. intro q. apply H.
  Qed.

  Lemma app1_app L1 L2 g : app1 (L1 ++ L2) g = app1 L1 g + app1 L2 g.
  Proof. unfold app1. rewrite map_app, sumQ_app. reflexivity. Qed.

  Lemma app1_neg L g : app1 (negF L) g = - app1 L g.
  Proof.
    unfold app1, negF. rewrite map_map. simpl. induction L as [|pw L IH]; simpl; [ring|]. rewrite IH. ring.
  Qed.

  Lemma app1_zero L : app1 L (fun _ => 0) = 0.
  Proof. unfold app1. apply sumQ_zero. intros pw _. ring. Qed.

  Lemma app1_add L g h : app1 L (fun p => g p + h p) = app1 L g + app1 L h.
  Proof.
    unfold app1. rewrite <- sumQ_map_add. apply sumQ_map_ext. intros pw _. ring.
  Qed.

  Lemma app1_scale L c g : app1 L (fun p => c * g p) = c * app1 L g.
  Proof.
    unfold app1. rewrite <- sumQ_map_scale. apply sumQ_map_ext. intros pw _. ring.
  Qed.

  Lemma app1_sum {J} L (G : J -> X -> Qc) js :
    app1 L (fun p => sumQ (map (fun j => G j p) js)) = sumQ (map (fun j => app1 L (G j)) js).
  Proof.
    induction js as [|j js IH]; simpl; [apply app1_zero|].
    rewrite app1_add. rewrite IH. reflexivity.
  Qed.

  (* ---------- one dimension: telescoping ---------- *)
  Variable lmin : Z.

  Definition D (E : Z -> fnl) (j : Z) : fnl :=
    if (j =? lmin)%Z then E lmin else E j ++ negF (E (j - 1)%Z).

  Definition levels (M : nat) : list Z := map (fun i => (lmin + Z.of_nat i)%Z) (seq 0 (S M)).

  Lemma levels_S M : levels (S M) = levels M ++ [(lmin + Z.of_nat (S M))%Z].
  Proof.
    unfold levels. rewrite (seq_S (S M) 0). rewrite map_app. reflexivity.
  Qed.

  Lemma levels_In M j : In j (levels M) <-> (lmin <= j <= lmin + Z.of_nat M)%Z.
  Proof.
    unfold levels. rewrite in_map_iff. split.
    - intros [i [<- Hi]]. apply in_seq in Hi. lia.
    - intro H. exists (Z.to_nat (j - lmin)). split; [lia|]. apply in_seq. lia.
  Qed.

  Lemma telescope E g : forall n : nat,
    app1 (E (lmin + Z.of_nat n)%Z) g = sumQ (map (fun j => app1 (D E j) g) (levels n)).
  Proof.
    induction n as [|n IH].
    - unfold levels. simpl. unfold D. replace (lmin + 0)%Z with lmin by lia. rewrite Z.eqb_refl. ring.
    - rewrite levels_S, map_app, sumQ_app, <- IH. cbn [map sumQ]. unfold D at 1.
      destruct (Z.eqb_spec (lmin + Z.of_nat (S n)) lmin) as [E0|_]; [lia|].
      rewrite app1_app, app1_neg. replace (lmin + Z.of_nat (S n) - 1)%Z with (lmin + Z.of_nat n)%Z by lia. ring.
  Qed.

  Lemma telescope_ind E g l : forall M : nat, (lmin <= l <= lmin + Z.of_nat M)%Z ->
    app1 (E l) g = sumQ (map (fun j => b2q (j <=? l)%Z * app1 (D E j) g) (levels M)).
  Proof.
    induction M as [|M IH]; intro H.
    - assert (l = lmin) as -> by lia. unfold levels. simpl. replace (lmin + 0)%Z with lmin by lia.
      rewrite Z.leb_refl. unfold D. rewrite Z.eqb_refl. unfold b2q. ring.
    - rewrite levels_S, map_app, sumQ_app. cbn [map sumQ].
      destruct (Z.leb_spec (lmin + Z.of_nat (S M)) l) as [Hle|Hgt].
      + assert (l = (lmin + Z.of_nat (S M))%Z) as El by lia.
        assert (sumQ (map (fun j => b2q (j <=? l)%Z * app1 (D E j) g) (levels M))
                = sumQ (map (fun j => app1 (D E j) g) (levels M))) as ->.
        { apply sumQ_map_ext. intros j Hj. apply levels_In in Hj.
          destruct (Z.leb_spec j l); [unfold b2q; ring | lia]. }
        rewrite <- telescope. unfold D. destruct (Z.eqb_spec (lmin + Z.of_nat (S M)) lmin) as [E0|_]; [lia|].
        rewrite app1_app, app1_neg. replace (lmin + Z.of_nat (S M) - 1)%Z with (lmin + Z.of_nat M)%Z by lia.
        rewrite El. unfold b2q. ring.
      + rewrite <- IH by lia. unfold b2q. ring.
  Qed.

  (* ---------- tensor expansion ---------- *)
  Fixpoint zipE (Es : list (Z -> fnl)) (ls : lv) : list fnl :=
    match Es, ls with
    | E :: Es', l :: ls' => E l :: zipE Es' ls'
    | _, _ => []
    end.

  Fixpoint zipD (Es : list (Z -> fnl)) (js : lv) : list fnl :=
    match Es, js with
    | E :: Es', j :: js' => D E j :: zipD Es' js'
    | _, _ => []
    end.

  Definition Box (Es : list (Z -> fnl)) (M : nat) : list lv := cross (map (fun _ => levels M) Es).

  Lemma Box_In Es M : forall j, In j (Box Es M) ->
    length j = length Es /\ Forall (fun v => (lmin <= v <= lmin + Z.of_nat M)%Z) j.
  Proof.
    unfold Box. induction Es as [|E Es IH]; intros j H; cbn [map cross] in H.
    - destruct H as [<-|[]]. split; [reflexivity|constructor].
    - apply in_flat_map in H. destruct H as [j0 [H0 H]]. apply in_map_iff in H. destruct H as [j' [<- H']].
      destruct (IH j' H') as [L F]. split; [simpl; congruence|]. constructor; [apply levels_In; exact H0|exact F].
  Qed.

  Lemma tensor_expand M : forall Es ls f, length ls = length Es ->
    Forall (fun v => (lmin <= v <= lmin + Z.of_nat M)%Z) ls ->
    appT (zipE Es ls) f = sumQ (map (fun j => b2q (lv_geb ls j) * appT (zipD Es j) f) (Box Es M)).
  Proof.
    induction Es as [|E Es IH]; intros ls f Hlen HF.
    - destruct ls; [|discriminate]. unfold Box. simpl. unfold b2q. ring.
    - destruct ls as [|l ls]; [discriminate|]. injection Hlen as Hlen. inversion HF as [|? ? Hl HF']; subst.
      simpl appT.
      rewrite (app1_ext (E l) _ (fun p => sumQ (map (fun j => b2q (lv_geb ls j) * appT (zipD Es j) (fun q => f (p :: q))) (Box Es M)))).
      2: { intro p. apply IH; assumption. }
      rewrite app1_sum.
      (* push the scalar out and telescope the head dimension *)
      rewrite (sumQ_map_ext _ (fun j' => sumQ (map (fun j0 => b2q (lv_geb (l :: ls) (j0 :: j')) * appT (zipD (E :: Es) (j0 :: j')) f) (levels M)))).
      2: { intros j' _. rewrite app1_scale. rewrite (telescope_ind E _ l M Hl).
           rewrite <- sumQ_map_scale. apply sumQ_map_ext. intros j0 _. simpl.
           destruct (j0 <=? l)%Z; destruct (lv_geb ls j'); unfold b2q; simpl; ring. }
      rewrite sumQ_exchange. unfold Box. cbn [map cross].
      rewrite (sumQ_flat_map (fun x : Z => map (cons x) (cross (map (fun _ : Z -> fnl => levels M) Es)))
                 (fun j : lv => b2q (lv_geb (l :: ls) j) * appT (zipD (E :: Es) j) f)).
      apply sumQ_map_ext. intros j0 _. rewrite map_map. reflexivity.
  Qed.

  (* ---------- Kronecker property and the zero increments ---------- *)
  (* kron E k xd : E l reproduces evaluation at xd for every level l >= k *)
  Definition kron (E : Z -> fnl) (k : Z) (xd : X) : Prop := forall l g, (k <= l)%Z -> app1 (E l) g = g xd.

  Inductive krons : list (Z -> fnl) -> lv -> list X -> Prop :=
  | krons_nil : krons [] [] []
  | krons_cons E Es k ks xd x : kron E k xd -> (lmin <= k)%Z -> krons Es ks x -> krons (E :: Es) (k :: ks) (xd :: x).

  Lemma krons_length Es ks x : krons Es ks x -> length ks = length Es.
  Proof. induction 1; simpl; congruence. Qed.

  Lemma kron_tensor Es ks x : krons Es ks x -> forall ls f, lv_geb ls ks = true -> appT (zipE Es ls) f = f x.
  Proof.
    induction 1 as [|E Es k ks xd x HK Hk _ IH]; intros ls f G.
    - destruct ls; [reflexivity|discriminate].
    - destruct ls as [|l ls]; [discriminate|]. simpl in G. apply andb_true_iff in G. destruct G as [G1 G2].
      apply Z.leb_le in G1. simpl. rewrite (HK l _ G1). apply IH. exact G2.
  Qed.

  Lemma increment_zero Es ks x : krons Es ks x -> forall js f, length js = length ks ->
    lv_geb ks js = false -> appT (zipD Es js) f = 0.
  Proof.
    induction 1 as [|E Es k ks xd x HK Hk _ IH]; intros js f Hlen G.
    - destruct js; [discriminate|discriminate].
    - destruct js as [|j js]; [discriminate|]. injection Hlen as Hlen. simpl in G. simpl.
      destruct (Z.leb_spec j k) as [Hle|Hgt].
      + simpl in G. rewrite (app1_ext _ _ (fun _ => 0)); [apply app1_zero|].
        intro p. apply IH; assumption.
      + unfold D. destruct (Z.eqb_spec j lmin) as [E0|_]; [lia|].
        rewrite app1_app, app1_neg. rewrite (HK j) by lia. rewrite (HK (j - 1)%Z) by lia. ring.
  Qed.

  Lemma dominating_sum_Qc (cs0 : list (lv * Z)) j :
    sumQ (map (fun kv => qc_of_Z (snd kv) * b2q (lv_geb (fst kv) j)) cs0) = qc_of_Z (dominating_sum cs0 j).
  Proof.
    unfold dominating_sum. induction cs0 as [|[l c] r IH]; simpl; [reflexivity|].
    change (sumZ ((if lv_geb l j then c else 0%Z) :: map (fun kv => if lv_geb (fst kv) j then snd kv else 0%Z) r))
      with ((if lv_geb l j then c else 0%Z) + sumZ (map (fun kv => if lv_geb (fst kv) j then snd kv else 0%Z) r))%Z.
    rewrite qc_of_Z_add, IH. destruct (lv_geb l j); unfold b2q; [ring|].
    change (qc_of_Z 0) with (Q2Qc 0). ring.
  Qed.

  (* ---------- the combination ---------- *)
  Variable idx : list lv.
  Variable cs : list (lv * Z).
  Variable Es : list (Z -> fnl).
  Variable M : nat.
  Hypothesis cs_wf : forall l c, In (l, c) cs -> length l = length Es /\ Forall (fun v => (lmin <= v <= lmin + Z.of_nat M)%Z) l.
  Hypothesis IE : forall l, length l = length Es -> Forall (fun v => (lmin <= v)%Z) l ->
                  dominating_sum cs l = if mem l idx then 1%Z else 0%Z.
  Hypothesis dclosed : forall k j, In k idx -> length j = length k -> Forall2 (fun a b => (lmin <= a <= b)%Z) j k -> In j idx.

  Definition combined (f : list X -> Qc) : Qc :=
    sumQ (map (fun kv => qc_of_Z (snd kv) * appT (zipE Es (fst kv)) f) cs).

  Lemma lv_geb_Forall2' : forall l k, lv_geb l k = true -> Forall (fun v => (lmin <= v)%Z) k ->
    Forall2 (fun a b => (lmin <= a <= b)%Z) k l.
  Proof.
    induction l as [|x l IHl]; intros [|y k] H F; simpl in H; try discriminate; [constructor|].
    apply andb_true_iff in H. destruct H as [H1 H2]. apply Z.leb_le in H1. inversion F; subst.
    constructor; [lia|]. apply IHl; assumption.
  Qed.

  Theorem nodal_exact ks x f :
    krons Es ks x -> In ks idx -> Forall (fun v => (lmin <= v <= lmin + Z.of_nat M)%Z) ks ->
    combined f = f x.
  Proof.
    intros HK Hks Fks. pose proof (krons_length Es ks x HK) as Lks.
    unfold combined.
    (* expand every component *)
    rewrite (sumQ_map_ext _ (fun kv => sumQ (map (fun j => qc_of_Z (snd kv) * b2q (lv_geb (fst kv) j) * appT (zipD Es j) f) (Box Es M)))).
    2: { intros [l c] Hin. simpl. destruct (cs_wf l c Hin) as [Ll Fl].
         rewrite (tensor_expand M Es l f Ll Fl). rewrite <- sumQ_map_scale. apply sumQ_map_ext. intros j _. ring. }
    rewrite sumQ_exchange.
    (* f x through the Kronecker property, expanded the same way *)
    assert (lv_geb ks ks = true) as Gkk.
    { clear. induction ks as [|k r IHr]; simpl; [reflexivity|]. rewrite Z.leb_refl. exact IHr. }
    rewrite <- (kron_tensor Es ks x HK ks f Gkk).
    rewrite (tensor_expand M Es ks f Lks Fks).
    apply sumQ_map_ext. intros j Hj. destruct (Box_In Es M j Hj) as [Lj Fj].
    rewrite sumQ_scale_r. rewrite (dominating_sum_Qc cs j).
    assert (Forall (fun v => (lmin <= v)%Z) j) as Fj'.
    { eapply Forall_impl; [|exact Fj]. simpl. intros; lia. }
    rewrite (IE j Lj Fj').
    destruct (lv_geb ks j) eqn:G.
    - assert (In j idx) as Hjin.
      { apply (dclosed ks j Hks); [congruence|]. apply lv_geb_Forall2'; assumption. }
      apply mem_In in Hjin. rewrite Hjin. unfold b2q. change (qc_of_Z 1) with (Q2Qc 1). ring.
    - rewrite (increment_zero Es ks x HK j f); [ring|congruence|exact G].
  Qed.
End Nodal.
