(* C11 — the fuel parameters of the model are sufficient (the recursion never runs out of fuel on the calls made),
   and the alignment checker used by the harness is sound. *)
From Coq Require Import ZArith List QArith Qcanon Bool Arith Lia.
From SG Require Import Base.QcUtil Model.Romberg Proofs.RombergBasics Proofs.RombergTree Proofs.RombergGrouped.
Import ListNotations.
Open Scope Qc_scope.

(* --- compute_support_sequence: any fuel >= stop - start gives the same result *)
Lemma slice_list_length {A} (l : list A) start stop : (length (slice_list l start stop) <= stop - start)%nat.
Proof. unfold slice_list. rewrite firstn_length. lia. Qed.

Lemma supp_rec_fuel_irrelevant levels fs : forall f1 f2 start stop,
  (stop - start <= f1)%nat -> (stop - start <= f2)%nat ->
  supp_rec f1 levels start stop fs = supp_rec f2 levels start stop fs.
Proof.
  induction f1 as [|f1 IH]; intros f2 start stop H1 H2.
  - destruct f2 as [|f2]; [reflexivity|]. cbn [supp_rec].
    destruct (Nat.leb_spec stop start) as [_|C]; [reflexivity | lia].
  - destruct f2 as [|f2].
    + cbn [supp_rec]. destruct (Nat.leb_spec stop start) as [_|C]; [reflexivity | lia].
    + cbn [supp_rec]. destruct (Nat.leb_spec stop start) as [_|C]; [reflexivity|].
      destruct (slice_list levels (S start) stop) as [|x sl] eqn:E; [reflexivity|].
      assert (L := slice_list_length levels (S start) stop). rewrite E in L.
      assert (A : (argmin (x :: sl) < length (x :: sl))%nat) by (apply argmin_lt; discriminate).
      set (nb := (S start + argmin (x :: sl))%nat) in *.
      destruct (Nat.leb_spec nb fs) as [_|_]; cbn [fst snd]; f_equal; apply IH; unfold nb; lia.
Qed.

(* the fuel used by support_sequence_idx (the number of grid points) is enough *)
Corollary support_sequence_fuel levels fs extra :
  supp_rec (length levels + extra) levels 0 (length levels - 1) fs = supp_rec (length levels) levels 0 (length levels - 1) fs.
Proof. apply supp_rec_fuel_irrelevant; lia. Qed.

(* --- (math.log(n, 2)).is_integer(): the model's test is exact *)
Lemma is_pow2_fuel_complete K : forall fuel, (K < fuel)%nat -> is_pow2_fuel fuel (2 ^ K) = true.
Proof.
  induction K as [|K IH]; intros fuel H; (destruct fuel as [|f]; [lia|]); cbn [is_pow2_fuel].
  - reflexivity.
  - assert (P : (1 <= 2 ^ K)%nat) by (apply Nat.neq_0_lt_0, Nat.pow_nonzero; lia).
    rewrite Nat.pow_succ_r'.
    destruct (Nat.eqb_spec (2 * 2 ^ K) 1) as [C|_]; [lia|].
    assert (Ev : Nat.even (2 * 2 ^ K) = true) by (rewrite Nat.even_mul; reflexivity). rewrite Ev.
    destruct (Nat.eqb_spec (2 * 2 ^ K) 0) as [C|_]; [lia|]. cbn [andb negb].
    rewrite Nat.div2_double. apply IH. lia.
Qed.

Theorem is_pow2_iff n : is_pow2 n = true <-> exists K, n = (2 ^ K)%nat.
Proof.
  split; [apply is_pow2_sound|]. intros [K ->]. unfold is_pow2. apply is_pow2_fuel_complete.
  assert (K < 2 ^ K)%nat by (apply Nat.pow_gt_lin_r; lia). lia.
Qed.

(* --- alignment checker: when the keys of the collected dictionary are the grid points, the list returned by
       get_weights is aligned with the grid and its first moment is the dictionary's *)
Lemma dict_aligned (d : list (Qc * Qc)) : dotQ (map fst d) (map snd d) = wmom d.
Proof. induction d as [|kv d IH]; simpl; [reflexivity | rewrite IH; reflexivity]. Qed.

Theorem aligned_first_moment r : map fst (er_dict r) = er_grid r -> dotQ (er_grid r) (er_weights r) = wmom (er_dict r).
Proof. intro H. rewrite <- H. apply dict_aligned. Qed.
