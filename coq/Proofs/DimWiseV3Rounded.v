(* C03, coarsening version 3: the float-decided rounding  sv / dim - int(sv / dim) > d / dim  restated over EXACT rationals for ALL
   inputs, with every rounding step an explicit parameter: x stands for the rounded quotient, y for the rounded difference, z for the
   rounded right-hand side; e1, e2, e3 bound the three rounding errors.  The checked conditions are (a) int(x) is the integer
   quotient (Qfloor x = sv / dim; v3_int_ok is its binary64 form) and (b) (e1 + e2 + e3) * dim < 1.  Then the decision equals the
   exact one (d < sv mod dim) unless sv mod dim = d (the tie, where the exact difference is 0 and the sign of the rounding error
   decides - the entries of the certified table v3_cert_table are of this kind); without rounding errors it is the exact one. *)
From Coq Require Import ZArith List Bool QArith Qabs Qround Lia Lqa.
From SG Require Import Model.DimWise.
Open Scope Q_scope.

Definition v3_dec_rounded (y z : Q) : bool := negb (Qle_bool y z).      (* y > z *)

Lemma inj_eq (a b : Z) : a = b -> inject_Z a == inject_Z b.
Proof. intros ->. reflexivity. Qed.

Theorem v3_rounded_decision : forall (dim : nat) (sv : Z) (d : nat) (x y z e1 e2 e3 : Q),
  (1 <= dim)%nat -> (0 <= sv)%Z -> (d < dim)%nat ->
  Qabs (x - inject_Z sv / inject_Z (Z.of_nat dim)) <= e1 ->
  Qfloor x = (sv / Z.of_nat dim)%Z ->
  Qabs (y - (x - inject_Z (Qfloor x))) <= e2 ->
  Qabs (z - inject_Z (Z.of_nat d) / inject_Z (Z.of_nat dim)) <= e3 ->
  (e1 + e2 + e3) * inject_Z (Z.of_nat dim) < 1 ->
  (sv mod Z.of_nat dim)%Z <> Z.of_nat d \/ e1 + e2 + e3 == 0 ->
  v3_dec_rounded y z = v3_dec_exact dim sv d.
Proof.
  intros dim sv d x y z e1 e2 e3 Hdim Hsv Hd H1 HF H2 H3 HE HT. rewrite HF in H2. clear HF.
  unfold v3_dec_rounded, v3_dec_exact.
  set (D := inject_Z (Z.of_nat dim)) in *.
  assert (HD : 0 < D) by (unfold D; change 0 with (inject_Z 0); rewrite <- Zlt_Qlt; lia).
  set (k := (sv / Z.of_nat dim)%Z) in *. set (r := (sv mod Z.of_nat dim)%Z) in *.
  assert (Hdm : sv = (Z.of_nat dim * k + r)%Z) by (apply Z.div_mod; lia).
  assert (Hr : (0 <= r < Z.of_nat dim)%Z) by (apply Z.mod_pos_bound; lia).
  set (t := inject_Z sv / D) in *. set (dl := inject_Z (Z.of_nat d) / D) in *.
  assert (Ht : t * D == inject_Z sv) by (unfold t; field; lra).
  assert (Hdl : dl * D == inject_Z (Z.of_nat d)) by (unfold dl; field; lra).
  assert (HS : inject_Z sv == D * inject_Z k + inject_Z r).
  { unfold D. rewrite <- inject_Z_mult, <- inject_Z_plus. apply inj_eq. exact Hdm. }
  apply Qabs_Qle_condition in H1. apply Qabs_Qle_condition in H2. apply Qabs_Qle_condition in H3.
  destruct H1 as [H1a H1b]. destruct H2 as [H2a H2b]. destruct H3 as [H3a H3b].
  assert (HW : (t - inject_Z k - dl) * D == inject_Z r - inject_Z (Z.of_nat d)).
  { setoid_replace ((t - inject_Z k - dl) * D) with (t * D - inject_Z k * D - dl * D) by ring. rewrite Ht, Hdl, HS. ring. }
  set (W := t - inject_Z k - dl) in *.
  set (R := inject_Z r) in *. set (Dn := inject_Z (Z.of_nat d)) in *. set (K := inject_Z k) in *.
  assert (HE0 : 0 <= e1 + e2 + e3) by lra.
  destruct (Z.ltb_spec (Z.of_nat d) r) as [Hlt|Hge].
  - (* d < r: exact says true *)
    assert (HR : Dn + 1 <= R).
    { unfold Dn, R. change 1 with (inject_Z 1). rewrite <- inject_Z_plus. rewrite <- Zle_Qle. lia. }
    destruct (Qle_bool y z) eqn:EQ; [|reflexivity]. exfalso. apply Qle_bool_iff in EQ.
    assert (W <= e1 + e2 + e3) by (unfold W; lra).
    assert (W * D <= (e1 + e2 + e3) * D) by (apply Qmult_le_compat_r; lra).
    lra.
  - (* r <= d: exact says false *)
    destruct (Qle_bool y z) eqn:EQ; [reflexivity|]. exfalso.
    assert (NL : ~ y <= z) by (intro A; apply Qle_bool_iff in A; congruence). apply NL. clear NL EQ.
    destruct HT as [HT|HT].
    + assert (HR : R + 1 <= Dn).
      { unfold Dn, R. change 1 with (inject_Z 1). rewrite <- inject_Z_plus. rewrite <- Zle_Qle. lia. }
      apply Qnot_lt_le. intro A.
      assert (- (e1 + e2 + e3) <= W) by (unfold W; lra).
      assert (- (e1 + e2 + e3) * D <= W * D) by (apply Qmult_le_compat_r; lra).
      lra.
    + assert (HR : R <= Dn) by (unfold Dn, R; rewrite <- Zle_Qle; lia).
      assert (W * D <= 0) by lra.
      assert (W <= 0).
      { apply Qnot_lt_le. intro A. assert (0 < W * D) by (apply Qmult_lt_0_compat; assumption). lra. }
      unfold W in *. lra.
Qed.

(* without rounding (all three errors 0) the decision is the exact one for ALL inputs *)
Corollary v3_unrounded_decision_is_exact : forall (dim : nat) (sv : Z) (d : nat),
  (1 <= dim)%nat -> (0 <= sv)%Z -> (d < dim)%nat ->
  let x := inject_Z sv / inject_Z (Z.of_nat dim) in
  Qfloor x = (sv / Z.of_nat dim)%Z ->
  v3_dec_rounded (x - inject_Z (Qfloor x)) (inject_Z (Z.of_nat d) / inject_Z (Z.of_nat dim)) = v3_dec_exact dim sv d.
Proof.
  intros dim sv d Hdim Hsv Hd x HF.
  apply (v3_rounded_decision dim sv d x _ _ 0 0 0 Hdim Hsv Hd); try exact HF.
  - setoid_replace (x - inject_Z sv / inject_Z (Z.of_nat dim)) with 0 by (unfold x; ring). discriminate.
  - setoid_replace (x - inject_Z (Qfloor x) - (x - inject_Z (Qfloor x))) with 0 by ring. discriminate.
  - setoid_replace (inject_Z (Z.of_nat d) / inject_Z (Z.of_nat dim) - inject_Z (Z.of_nat d) / inject_Z (Z.of_nat dim)) with 0 by ring.
    discriminate.
  - reflexivity.
  - right. reflexivity.
Qed.
