(* C10 — the GENERATED get_parent (coq/Gen/LagrangeParentGen.v, translated from GlobalLagrangeGrid.get_parent of the current source)
   equals the hand-written model Model/Basis.get_parent on every list pair of equal length, for every point of level >= 1. *)
From Coq Require Import ZArith List QArith Qcanon Bool Arith Lia.
From SG Require Import Base.QcUtil Base.PyLib Base.PyBreak Model.Basis Gen.LagrangeParentGen.
Import ListNotations.

Lemma py_list_index_is_index_of x : forall l, py_list_index_Qc l x = option_map Z.of_nat (index_of x l).
Proof.
  induction l as [|y l IH]; [reflexivity|]. cbn [py_list_index_Qc index_of]. destruct (Qc_eqb x y); [reflexivity|].
  rewrite IH. destruct (index_of x l) as [i|]; cbn [option_map]; [f_equal; lia | reflexivity].
Qed.

Lemma py_getitem_nat {A} (l : list A) i : py_getitem l (Z.of_nat i) = nth_error l i.
Proof.
  unfold py_getitem, py_index, py_len.
  destruct (Z.leb_spec 0 (Z.of_nat i)); [|lia]. cbn [andb].
  destruct (Z.ltb_spec (Z.of_nat i) (Z.of_nat (length l))).
  - rewrite Nat2Z.id. reflexivity.
  - destruct ((- Z.of_nat (length l) <=? Z.of_nat i)%Z && (Z.of_nat i <? 0)%Z) eqn:E.
    + apply andb_true_iff in E. destruct E as [_ E]. apply Z.ltb_lt in E. lia.
    + symmetry. apply nth_error_None. lia.
Qed.

Lemma Zeqb_nat a b : (Z.of_nat a =? Z.of_nat b)%Z = (a =? b)%nat.
Proof. destruct (Z.eqb_spec (Z.of_nat a) (Z.of_nat b)); destruct (Nat.eqb_spec a b); try reflexivity; lia. Qed.
Lemma Zltb_nat a b : (Z.of_nat a <? Z.of_nat b)%Z = (a <? b)%nat.
Proof. destruct (Z.ltb_spec (Z.of_nat a) (Z.of_nat b)); destruct (Nat.ltb_spec a b); try reflexivity; lia. Qed.

Definition gen_body (pts : list Qc) (levsZ : list Z) (level_p : Z) (i : Z) (_ : unit) : step unit Qc :=
  match py_getitem levsZ i with
  | Some x_3 => if (x_3 =? level_p - 1)%Z
                then match py_getitem pts i with Some x_4 => SRet x_4 | None => SFail end
                else match py_getitem levsZ i with
                     | Some x_5 => if (x_5 <? level_p - 1)%Z then SBrk tt else SNxt tt
                     | None => SFail
                     end
  | None => SFail
  end.

Lemma loop_is_scan pts levs target level_p : (level_p - 1 = Z.of_nat target)%Z -> length pts = length levs ->
  forall idx : list nat, (forall i, In i idx -> (i < length pts)%nat) ->
  py_for_b (map Z.of_nat idx) (gen_body pts (map Z.of_nat levs) level_p) tt
  = match scan_parent (map (fun i => (nth i pts 0%Qc, nth i levs O)) idx) target with Some q => Ret q | None => Nxt tt end.
Proof.
  intros Ht Hl. induction idx as [|i idx IH]; intro Hi; [reflexivity|].
  cbn [map py_for_b scan_parent]. unfold gen_body at 1. rewrite !py_getitem_nat.
  assert (Li : (i < length pts)%nat) by (apply Hi; left; reflexivity).
  rewrite (nth_error_nth' (map Z.of_nat levs) (Z.of_nat O)) by (rewrite map_length; lia).
  rewrite map_nth. rewrite (nth_error_nth' pts 0%Qc Li). rewrite Ht, Zeqb_nat, Zltb_nat.
  destruct (nth i levs O =? target)%nat; [reflexivity|].
  destruct (nth i levs O <? target)%nat; [reflexivity|].
  apply IH. intros j Hj. apply Hi. right. exact Hj.
Qed.

Lemma firstn_map_nth {A} (d : A) : forall n (l : list A), (n <= length l)%nat -> firstn n l = map (fun i => nth i l d) (seq 0 n).
Proof.
  induction n as [|n IH]; intros l H; [reflexivity|]. destruct l as [|a l]; [simpl in H; lia|].
  cbn [firstn seq map nth]. f_equal. rewrite <- seq_shift, map_map. apply IH. simpl in H. lia.
Qed.

Lemma skipn_map_nth {A} (d : A) : forall k (l : list A), skipn k l = map (fun i => nth i l d) (seq k (length l - k)).
Proof.
  induction k as [|k IH]; intro l.
  - cbn [skipn]. rewrite Nat.sub_0_r. rewrite <- (firstn_map_nth d (length l) l (Nat.le_refl _)). symmetry. apply firstn_all.
  - destruct l as [|a l]; [reflexivity|]. cbn [skipn length]. rewrite IH.
    replace (S (length l) - S k)%nat with (length l - k)%nat by lia.
    rewrite <- seq_shift, map_map. reflexivity.
Qed.

Lemma combine_nth_eq (pts : list Qc) (levs : list nat) i : length pts = length levs ->
  nth i (combine pts levs) (0%Qc, O) = (nth i pts 0%Qc, nth i levs O).
Proof. intro H. apply combine_nth. exact H. Qed.

Theorem gen_get_parent_eq x pts levs :
  length pts = length levs ->
  (forall ip, index_of x pts = Some ip -> (1 <= nth ip levs O)%nat) ->
  GlobalLagrangeGrid_get_parent x pts (map Z.of_nat levs) = get_parent x pts levs.
Proof.
  intros Hl Hlev. unfold GlobalLagrangeGrid_get_parent, get_parent.
  rewrite py_list_index_is_index_of. destruct (index_of x pts) as [ip|] eqn:Ei; cbn [option_map]; [|reflexivity].
  assert (Lip : (ip < length pts)%nat).
  { clear - Ei. revert ip Ei. induction pts as [|y pts IH]; intros ip H; [discriminate|]. cbn [index_of] in H.
    destruct (Qc_eqb x y); [injection H as H; subst; simpl; lia|].
    destruct (index_of x pts) as [j|]; [|discriminate]. injection H as H. subst. specialize (IH j eq_refl). simpl. lia. }
  rewrite py_getitem_nat. rewrite (nth_error_nth' (map Z.of_nat levs) (Z.of_nat O)) by (rewrite map_length; lia).
  rewrite map_nth. set (lp := nth ip levs O). pose proof (Hlev ip eq_refl) as H1. fold lp in H1.
  assert (Ht : (Z.of_nat lp - 1 = Z.of_nat (lp - 1))%Z) by lia.
  change (fun (i : Z) (_ : unit) => match py_getitem (map Z.of_nat levs) i with
            | Some x_3 => if (x_3 =? Z.of_nat lp - 1)%Z then match py_getitem pts i with Some x_4 => SRet x_4 | None => SFail end
                          else match py_getitem (map Z.of_nat levs) i with
                               | Some x_5 => if (x_5 <? Z.of_nat lp - 1)%Z then SBrk tt else SNxt tt | None => SFail end
            | None => SFail end) with (gen_body pts (map Z.of_nat levs) (Z.of_nat lp)).
  (* the two index lists *)
  assert (E1 : py_reversed (py_range (Z.of_nat ip)) = map Z.of_nat (rev (seq 0 ip))).
  { unfold py_reversed, py_range. rewrite Nat2Z.id, map_rev. reflexivity. }
  assert (E2 : py_range2 (Z.of_nat ip + 1) (py_len pts) = map Z.of_nat (seq (S ip) (length pts - S ip))).
  { unfold py_range2, py_range, py_len. replace (Z.to_nat (Z.of_nat (length pts) - (Z.of_nat ip + 1))) with (length pts - S ip)%nat by lia.
    assert (G : forall m st, map (fun i => (Z.of_nat ip + 1 + i)%Z) (map Z.of_nat (seq st m)) = map Z.of_nat (seq (S ip + st) m)).
    { induction m as [|m IH]; intro st; [reflexivity|]. cbn [seq map]. f_equal; [lia|].
      rewrite (IH (S st)). f_equal. f_equal. lia. }
    rewrite (G (length pts - S ip)%nat O). f_equal. f_equal. lia. }
  rewrite E1, E2.
  rewrite (loop_is_scan pts levs (lp - 1) (Z.of_nat lp) Ht Hl (rev (seq 0 ip)))
    by (intros i Hi; apply in_rev in Hi; apply in_seq in Hi; lia).
  assert (F1 : rev (firstn ip (combine pts levs)) = map (fun i => (nth i pts 0%Qc, nth i levs O)) (rev (seq 0 ip))).
  { rewrite (firstn_map_nth (0%Qc, O) ip) by (rewrite combine_length; lia). rewrite <- map_rev.
    apply map_ext. intro i. apply combine_nth_eq. exact Hl. }
  assert (F2 : skipn (S ip) (combine pts levs) = map (fun i => (nth i pts 0%Qc, nth i levs O)) (seq (S ip) (length pts - S ip))).
  { rewrite (skipn_map_nth (0%Qc, O)). rewrite combine_length. replace (Nat.min (length pts) (length levs)) with (length pts) by lia.
    apply map_ext. intro i. apply combine_nth_eq. exact Hl. }
  rewrite F1, F2.
  destruct (scan_parent (map (fun i => (nth i pts 0%Qc, nth i levs O)) (rev (seq 0 ip))) (lp - 1)) as [q|]; [reflexivity|].
  cbn [bindF].
  rewrite (loop_is_scan pts levs (lp - 1) (Z.of_nat lp) Ht Hl (seq (S ip) (length pts - S ip)))
    by (intros i Hi; apply in_seq in Hi; lia).
  destruct (scan_parent (map (fun i => (nth i pts 0%Qc, nth i levs O)) (seq (S ip) (length pts - S ip))) (lp - 1)) as [q|]; reflexivity.
Qed.

(* ------------------------------------------------------------------ property-level facts about the GENERATED definition *)
From SG Require Import Proofs.BasisTreeP Proofs.BasisTreeEq.

Theorem gen_get_parent_absent x pts levs :
  length pts = length levs -> index_of x pts = None -> GlobalLagrangeGrid_get_parent x pts (map Z.of_nat levs) = None.
Proof.
  intros Hl Hn. rewrite gen_get_parent_eq; [|exact Hl | intros ip H; rewrite Hn in H; discriminate H].
  unfold get_parent. rewrite Hn. reflexivity.
Qed.

Theorem gen_get_parent_deeper_end (pre L R post : list (Qc * nat)) u lu x lx v lv :
  let pl := pre ++ (u, lu) :: L ++ (x, lx) :: R ++ (v, lv) :: post in
  ~ In x (map fst (pre ++ (u, lu) :: L)) ->
  (forall e, In e L -> (lx - 1 < snd e)%nat) -> (forall e, In e R -> (lx - 1 < snd e)%nat) ->
  Nat.max lu lv = (lx - 1)%nat -> (1 <= lx)%nat ->
  GlobalLagrangeGrid_get_parent x (map fst pl) (map Z.of_nat (map snd pl)) = Some (if (lu =? lx - 1)%nat then u else v).
Proof.
  cbv zeta. intros Hx HL HR Hm H1.
  rewrite gen_get_parent_eq.
  - apply get_parent_deeper_end; assumption.
  - rewrite !map_length. reflexivity.
  - intros ip Hip.
    assert (Epl : pre ++ (u, lu) :: L ++ (x, lx) :: R ++ (v, lv) :: post = (pre ++ (u, lu) :: L) ++ (x, lx) :: R ++ (v, lv) :: post)
      by (rewrite <- app_assoc; reflexivity).
    rewrite Epl in *. rewrite map_app in Hip. cbn [map fst] in Hip.
    rewrite (index_of_app_fresh x _ _ Hx) in Hip. injection Hip as Hip. subst ip.
    rewrite map_length, map_app, app_nth2 by (rewrite map_length; lia). rewrite map_length, Nat.sub_diag. exact H1.
Qed.
