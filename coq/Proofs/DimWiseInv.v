(* C06: the state invariant of the dimension-wise strategy is established by initialize_refinement and preserved by
   every refinement step without rebalancing, for arbitrary benefits and margin. *)
From Coq Require Import ZArith List Bool QArith Qcanon Arith Lia.
From SG Require Import Base.QcUtil Model.CombiScheme Model.RefTree Model.DimWise
     Proofs.SchemeBasics Proofs.SchemeInv Proofs.RefTreeInv Proofs.RefSelect Proofs.RefRemoveSort.
Import ListNotations.
Open Scope Z_scope.
Local Arguments Z.add : simpl never.
Local Arguments Z.sub : simpl never.
Local Arguments Z.max : simpl never.
Local Arguments Z.ltb : simpl never.

(* ---------------------------------------------------------------------------------------------- *)
(* the container part of a step *)
Definition fresh (c : cont) : Prop := c_pop c = [] /\ c_startNew c = 0%nat /\ c_search c = 0%nat.

Definition step_tol (margin : Qc) (bens : list (list Qc)) : Qc := (meta_max_benefit bens * margin)%Qc.
(* the positions of dimension j selected by a step: benefit >= margin * max benefit *)
Definition step_sel (margin : Qc) (bens : list (list Qc)) (j : nat) (n : nat) : list bool :=
  sel_of (hitP (step_tol margin bens) (nth j bens [])) n.

Lemma msum_clear cs : (msum (map cont_clear_new cs) <= fold_right (fun c n => length (c_objs c) + n) 0 (map cont_clear_new cs))%nat.
Proof.
  induction cs as [|c cs IH]; simpl; [lia|].
  unfold c_end at 1. simpl. destruct (Nat.eqb (length (c_objs c)) 0); lia.
Qed.

Theorem meta_refine_step_spec margin bens m :
  m_cur m = 0%nat ->
  (forall c, In c (m_conts m) -> fresh c /\ exists x y u w, Seg x y u w (c_objs c)) ->
  exists m', meta_refine_step margin bens m = Some m' /\ m_cur m' = 0%nat /\
    length (m_conts m') = length (m_conts m) /\
    forall j c, nth_error (m_conts m) j = Some c ->
      nth_error (m_conts m') j = Some (cont_of_tree (repl (step_sel margin bens j (length (c_objs c))) (c_objs c))).
Proof.
  intros Hcur Hall. unfold meta_refine_step.
  set (m1 := {| m_conts := map cont_clear_new (m_conts m); m_cur := m_cur m |}).
  destruct (refine_loop_spec bens (step_tol margin bens) (refine_fuel m1) m1) as (m2 & Hrun & Hlen & Hfin).
  - intros c Hin. simpl in Hin. apply in_map_iff in Hin. destruct Hin as (c0 & <- & Hin0).
    destruct (Hall _ Hin0) as [_ (x & y & u & w & HS)]. apply Seg_nonempty in HS.
    unfold cJ, cont_clear_new. simpl. split; [|lia]. destruct (c_objs c0); [contradiction | discriminate].
  - simpl. rewrite Hcur. simpl. unfold refine_fuel. simpl. pose proof (msum_clear (m_conts m)). lia.
  - fold (step_tol margin bens). rewrite Hrun. eexists. split; [reflexivity|]. simpl. split; [reflexivity|].
    simpl in Hlen. rewrite map_length in *. split; [assumption|].
    intros j c Hj. simpl in Hfin.
    destruct (Hfin j (cont_clear_new c)) as (c2 & Hc2 & Hspec).
    { rewrite nth_error_map, Hj. reflexivity. }
    rewrite Hcur in Hspec. change (j <? 0)%nat with false in Hspec. cbv iota in Hspec.
    destruct Hspec as [Ho Hp].
    destruct (Hall c (nth_error_In _ _ Hj)) as [(Fp & Fs & Fse) (x & y & u & w & HS)].
    rewrite nth_error_map, Hc2. simpl. f_equal.
    assert (Hch : chits (step_tol margin bens) (nth j bens []) (cont_clear_new c)
                  = filter (hitP (step_tol margin bens) (nth j bens [])) (seq 0 (length (c_objs c)))).
    { unfold chits, c_end, cont_clear_new. simpl. rewrite Fse.
      destruct (Nat.eqb (length (c_objs c)) 0); rewrite Nat.sub_0_r; reflexivity. }
    rewrite Hch in Ho, Hp. simpl in Ho, Hp. rewrite Fp in Hp. simpl in Hp.
    destruct c2 as [o2 p2 sn2 se2]. simpl in Ho, Hp. subst o2 p2.
    destruct (apply_remove_is_repl x y u w (c_objs c) (hitP (step_tol margin bens) (nth j bens [])) sn2 se2 HS) as [E1 E2].
    unfold cont_reinit, cont_postprocess, cont_of_tree. simpl. rewrite E1, E2. reflexivity.
Qed.

(* ---------------------------------------------------------------------------------------------- *)
(* coarsening update *)
Lemma Seg_map_coarse (g : ival -> Z) x y u w t : Seg x y u w t ->
  Seg x y u w (map (fun iv => mkIval (i_start iv) (i_end iv) (i_l0 iv) (i_l1 iv) (g iv)) t).
Proof.
  induction 1 as [x y u w c H|x y z u w T1 T2 H1 IH1 H2 IH2]; simpl.
  - apply Seg_leaf. assumption.
  - rewrite map_app. eapply Seg_node; eassumption.
Qed.

Definition min_fold (l : list ival) (u0 : Z) : Z :=
  fold_left (fun u iv => if i_coarse iv <? u then i_coarse iv else u) l u0.

Lemma min_fold_spec l : forall u0, min_fold l u0 <= u0 /\ Forall (fun iv => min_fold l u0 <= i_coarse iv) l.
Proof.
  induction l as [|iv l IH]; intro u0; [split; [unfold min_fold; simpl; lia | constructor]|].
  change (min_fold (iv :: l) u0) with (min_fold l (if i_coarse iv <? u0 then i_coarse iv else u0)).
  destruct (IH (if i_coarse iv <? u0 then i_coarse iv else u0)) as [A B].
  destruct (Z.ltb_spec (i_coarse iv) u0).
  - split; [lia|]. constructor; assumption.
  - split; [assumption|]. constructor; [lia | assumption].
Qed.

Lemma update_coarsening_spec lmax_d t :
  let '(t1, upd) := update_coarsening lmax_d t in
  t1 = map (fun iv => mkIval (i_start iv) (i_end iv) (i_l0 iv) (i_l1 iv) (lmax_d - ival_maxlev iv)) t /\
  0 <= upd /\ Forall (fun iv => - upd <= i_coarse iv) t1.
Proof.
  unfold update_coarsening. split; [reflexivity|].
  match goal with |- context [fold_left ?f ?l 0] => destruct (min_fold_spec l 0) as [A B]; fold (min_fold l 0) end.
  split; [lia|].
  eapply Forall_impl; [|exact B]. intros iv H. cbv beta in H |- *. lia.
Qed.

Lemma raise_pass_inv lmaxs lmin dim s : Inv s -> Inv (fst (raise_pass lmaxs lmin dim s)).
Proof.
  unfold raise_pass. generalize (s_active s) as act. generalize 0%nat as n. intros n act. revert s n.
  induction act as [|idx act IH]; intros s n H; simpl; [assumption|].
  destruct (raise_cond lmaxs lmin dim idx); simpl.
  - apply IH. apply update_inv. assumption.
  - apply IH. assumption.
Qed.

Lemma raise_loop_inv fuel : forall lmaxs lmin dim s s', Inv s -> raise_loop fuel lmaxs lmin dim s = Some s' -> Inv s'.
Proof.
  induction fuel as [|f IH]; intros lmaxs lmin dim s s' H E; simpl in E; [discriminate|].
  pose proof (raise_pass_inv lmaxs lmin dim s H) as HP.
  destruct (raise_pass lmaxs lmin dim s) as [s1 n]. simpl in HP.
  destruct (Nat.eqb n 0); [injection E as <-; assumption | eapply IH; eassumption].
Qed.

Lemma raise_lmax_spec d v lmaxs lmin dim s lmaxs' s' :
  Inv s -> raise_lmax d v lmaxs lmin dim s = Some (lmaxs', s') -> lmaxs' = bump d v lmaxs /\ Inv s'.
Proof.
  unfold raise_lmax. intros H E.
  destruct (raise_loop _ _ _ _ _) as [s1|] eqn:E1; [|discriminate].
  injection E as <- <-. split; [reflexivity|]. eapply raise_loop_inv; eassumption.
Qed.

Lemma coarsen_dims_spec lmin dim : forall trees d lmaxs s trees3 lmaxs' s',
  coarsen_dims d trees lmaxs lmin dim s = Some (trees3, lmaxs', s') ->
  (d + length trees <= length lmaxs)%nat -> Inv s ->
  length trees3 = length trees /\ length lmaxs' = length lmaxs /\ Inv s' /\
  (forall k, (k < d)%nat -> nth k lmaxs' 0 = nth k lmaxs 0) /\
  forall j t, nth_error trees j = Some t ->
    exists t3, nth_error trees3 j = Some t3 /\ Forall (coarse_ok (nth (d + j) lmaxs' 0)) t3 /\
      forall x y u w, Seg x y u w t -> Seg x y u w t3.
Proof.
  induction trees as [|t trees IH]; intros d lmaxs s trees3 lmaxs' s' E HL HI.
  - simpl in E. injection E as <- <- <-.
    split; [reflexivity|]. split; [reflexivity|]. split; [assumption|]. split; [intros; reflexivity|].
    intros j t Hj. destruct j; discriminate.
  - cbn [coarsen_dims] in E. simpl in HL.
    pose proof (update_coarsening_spec (nth d lmaxs 0) t) as HU.
    destruct (update_coarsening (nth d lmaxs 0) t) as [t1 upd]. destruct HU as (Ht1 & Hupd & Hge).
    destruct (0 <? upd) eqn:Epos.
    + apply Z.ltb_lt in Epos.
      destruct (raise_lmax d upd lmaxs lmin dim s) as [[lm1 s1]|] eqn:ER; [|discriminate].
      destruct (raise_lmax_spec _ _ _ _ _ _ _ _ HI ER) as [-> HI1].
      destruct (coarsen_dims (S d) trees (bump d upd lmaxs) lmin dim s1) as [[[r' lm] s'']|] eqn:EC; [|discriminate].
      injection E as <- <- <-.
      destruct (IH _ _ _ _ _ _ EC) as (L1 & L2 & HI2 & Hk & Hall); [rewrite bump_length; lia | assumption|].
      rewrite bump_length in L2.
      assert (Hd : nth d lm 0 = nth d lmaxs 0 + upd).
      { rewrite Hk by lia. apply bump_nth_same. lia. }
      split; [simpl; lia|]. split; [assumption|]. split; [assumption|]. split.
      * intros k Hlt. rewrite Hk by lia. apply bump_nth_other. lia.
      * intros [|j] t0 Hj; simpl in Hj.
        -- injection Hj as <-. eexists. split; [reflexivity|]. rewrite Nat.add_0_r. split.
           ++ unfold update_values. rewrite Forall_map. rewrite Ht1 in Hge |- *. rewrite Forall_map in Hge |- *.
              eapply Forall_impl; [|exact Hge]. intros iv H. simpl in H. unfold coarse_ok, ival_maxlev. simpl.
              unfold ival_maxlev in H. rewrite Hd. split; lia.
           ++ intros x y u w HS. unfold update_values. apply Seg_map_coarse. rewrite Ht1. apply Seg_map_coarse. assumption.
        -- destruct (Hall j t0 Hj) as (t3 & A & B & C). exists t3. split; [assumption|].
           replace (d + S j)%nat with (S d + j)%nat by lia. split; assumption.
    + apply Z.ltb_ge in Epos. assert (upd = 0) by lia. subst upd.
      destruct (coarsen_dims (S d) trees lmaxs lmin dim s) as [[[r' lm] s'']|] eqn:EC; [|discriminate].
      injection E as <- <- <-.
      destruct (IH _ _ _ _ _ _ EC) as (L1 & L2 & HI2 & Hk & Hall); [lia | assumption|].
      split; [simpl; lia|]. split; [assumption|]. split; [assumption|]. split.
      * intros k Hlt. apply Hk. lia.
      * intros [|j] t0 Hj; simpl in Hj.
        -- injection Hj as <-. eexists. split; [reflexivity|]. rewrite Nat.add_0_r. split.
           ++ rewrite Ht1 in Hge |- *. rewrite Forall_map in Hge |- *.
              eapply Forall_impl; [|exact Hge]. intros iv H. simpl in H. unfold coarse_ok, ival_maxlev. simpl.
              unfold ival_maxlev in H. rewrite Hk by lia. split; lia.
           ++ intros x y u w HS. rewrite Ht1. apply Seg_map_coarse. assumption.
        -- destruct (Hall j t0 Hj) as (t3 & A & B & C). exists t3. split; [assumption|].
           replace (d + S j)%nat with (S d + j)%nat by lia. split; assumption.
Qed.

(* ---------------------------------------------------------------------------------------------- *)
(* the state invariant *)
Definition DwInv (a b : list Qc) (st : dw_state) : Prop :=
  length (st_lmax st) = st_dim st /\
  length (m_conts (st_meta st)) = st_dim st /\
  m_cur (st_meta st) = 0%nat /\
  (forall d c, nth_error (m_conts (st_meta st)) d = Some c ->
     fresh c /\ TreeInv (nth d a 0%Qc) (nth d b 0%Qc) (nth d (st_lmax st) 0) (c_objs c)) /\
  Inv (st_scheme st).

Lemma nth_error_combine {A B} (l1 : list A) (l2 : list B) j x y :
  nth_error l1 j = Some x -> nth_error l2 j = Some y -> nth_error (combine l1 l2) j = Some (x, y).
Proof.
  revert l2 j. induction l1 as [|a l1 IH]; intros [|b l2] [|j] H1 H2; simpl in *; try discriminate.
  - congruence.
  - apply IH; assumption.
Qed.

Theorem dw_step_preserves_inv a b o bens st st' :
  o_rebal o = false -> DwInv a b st -> dw_step o bens st = Some st' -> DwInv a b st'.
Proof.
  intros Hreb (HLm & HLc & Hcur & Hall & HI) E. unfold dw_step in E.
  destruct (meta_refine_step_spec (o_margin o) bens (st_meta st) Hcur) as (m1 & Hm1 & Hcur1 & Hlen1 & Hspec1).
  { intros c Hin. apply In_nth_error in Hin. destruct Hin as [d Hd]. destruct (Hall d c Hd) as [F [HS _]].
    split; [assumption|]. eauto. }
  rewrite Hm1, Hreb in E.
  destruct (coarsen_dims 0 (map c_objs (m_conts m1)) (st_lmax st) (st_lmin st) (st_dim st) (st_scheme st))
    as [[[trees3 lmaxs] s]|] eqn:EC; [|discriminate].
  injection E as <-.
  destruct (coarsen_dims_spec _ _ _ _ _ _ _ _ _ EC) as (L1 & L2 & HI2 & _ & Hall3);
    [rewrite map_length; simpl; lia | assumption|].
  rewrite map_length in L1.
  unfold DwInv. simpl. split; [lia|]. split; [rewrite map_length, combine_length; lia|].
  split; [assumption|]. split; [|assumption].
  intros d c Hd. rewrite nth_error_map in Hd.
  destruct (nth_error (combine (m_conts m1) trees3) d) as [[c1 t3]|] eqn:Ecomb; [|discriminate].
  simpl in Hd. injection Hd as <-.
  assert (Hd1 : nth_error (m_conts m1) d = Some c1 /\ nth_error trees3 d = Some t3).
  { clear - Ecomb. revert trees3 d Ecomb. generalize (m_conts m1) as l1.
    induction l1 as [|x l1 IH]; intros [|y l2] [|d] H; simpl in *; try discriminate.
    - injection H as <- <-. split; reflexivity.
    - apply IH. assumption. }
  destruct Hd1 as [Hc1 Ht3].
  assert (Hc0 : exists c0, nth_error (m_conts (st_meta st)) d = Some c0).
  { destruct (nth_error (m_conts (st_meta st)) d) eqn:E0; [eauto|].
    apply nth_error_None in E0. assert (nth_error (m_conts m1) d <> None) by congruence.
    apply nth_error_Some in H. lia. }
  destruct Hc0 as [c0 Hc0]. pose proof (Hspec1 d c0 Hc0) as Hc1'. rewrite Hc1 in Hc1'. injection Hc1' as ->.
  destruct (Hall d c0 Hc0) as [_ [HS _]].
  destruct (Hall3 d (repl (step_sel (o_margin o) bens d (length (c_objs c0))) (c_objs c0))) as (t3' & Ht3' & Hco & Hseg).
  { rewrite nth_error_map, Hc1. reflexivity. }
  rewrite Ht3 in Ht3'. injection Ht3' as <-.
  simpl. split; [repeat split|]. split.
  - apply Hseg. apply Seg_repl; [assumption|]. unfold step_sel, sel_of. rewrite map_length, seq_length. reflexivity.
  - exact Hco.
Qed.

Theorem dw_run_preserves_inv a b o : o_rebal o = false -> forall steps st st',
  DwInv a b st -> dw_run o steps st = Some st' -> DwInv a b st'.
Proof.
  intros Hreb steps. induction steps as [|bens steps IH]; intros st st' H E; simpl in E.
  - injection E as <-. assumption.
  - destruct (dw_step o bens st) as [st1|] eqn:E1; [|discriminate].
    eapply IH; [|eassumption]. eapply dw_step_preserves_inv; eassumption.
Qed.

(* ---------------------------------------------------------------------------------------------- *)
(* initialisation *)
Theorem dw_init_inv n lmin lmax a b st :
  Forall2 (fun x y => (x < y)%Qc) a b ->
  dw_init (S n) lmin lmax a b = Some st -> DwInv a b st.
Proof.
  intros Hab E. unfold dw_init in E.
  destruct (1 <? lmax) eqn:E1; [|discriminate]. apply Z.ltb_lt in E1.
  destruct (Nat.eqb (length a) (S n)) eqn:Ea; [|discriminate]. apply Nat.eqb_eq in Ea.
  destruct (Nat.eqb (length b) (S n)) eqn:Eb; [|discriminate]. apply Nat.eqb_eq in Eb.
  simpl in E. destruct (init_scheme (S n) lmax lmin) as [s|] eqn:ES; [|discriminate].
  injection E as <-. unfold DwInv. simpl.
  split; [f_equal; apply repeat_length|]. split; [rewrite map_length, combine_length; lia|].
  split; [reflexivity|]. split; [|eapply init_inv; eassumption].
  intros d c Hd. rewrite nth_error_map in Hd.
  destruct (nth_error (combine a b) d) as [[x y]|] eqn:Ec; [|discriminate]. simpl in Hd. injection Hd as <-.
  simpl. split; [repeat split|].
  assert (Hxy : nth d a 0%Qc = x /\ nth d b 0%Qc = y /\ (x < y)%Qc).
  { clear - Hab Ec. revert d Ec. induction Hab as [|x0 y0 a b H0 Hab IH]; intros [|d] Ec; simpl in *; try discriminate.
    - injection Ec as <- <-. repeat split; assumption.
    - apply IH. assumption. }
  destruct Hxy as (-> & -> & Hlt).
  assert (Hn : nth d (repeat lmax (S n)) 0 = lmax).
  { apply nth_error_nth'. assert (d < S n)%nat.
    { assert (nth_error (combine a b) d <> None) by congruence. apply nth_error_Some in H. rewrite combine_length in H. lia. }
    clear - H. revert d H. generalize (S n) as k. induction k as [|k IH]; intros [|d] H; simpl; try lia; [reflexivity|].
    apply IH. lia. }
  change (nth d (repeat lmax (S n)) 0) with (match d with 0%nat => lmax | S m => nth m (repeat lmax n) 0 end) in Hn.
  rewrite Hn. replace lmax with (Z.of_nat (Z.to_nat lmax)) at 1 by lia.
  apply init_tree_TreeInv. assumption.
Qed.

Theorem dw_reachable_inv n lmin lmax a b o steps st0 st :
  Forall2 (fun x y => (x < y)%Qc) a b -> o_rebal o = false ->
  dw_init (S n) lmin lmax a b = Some st0 -> dw_run o steps st0 = Some st -> DwInv a b st.
Proof.
  intros Hab Hreb Hinit Hrun. eapply dw_run_preserves_inv; [eassumption | | eassumption].
  eapply dw_init_inv; eassumption.
Qed.

(* ---------------------------------------------------------------------------------------------- *)
(* the largest benefit (get_max_benefit starts from 0) and the selected positions *)
Lemma max_benefit_list_spec ben : forall m0,
  (m0 <= fold_left (fun m b => if Qc_ltb m b then b else m) ben m0)%Qc /\
  Forall (fun b => (b <= fold_left (fun m b => if Qc_ltb m b then b else m) ben m0)%Qc) ben /\
  (fold_left (fun m b => if Qc_ltb m b then b else m) ben m0 = m0 \/
   In (fold_left (fun m b => if Qc_ltb m b then b else m) ben m0) ben).
Proof.
  induction ben as [|b ben IH]; intro m0; simpl.
  - split; [apply Qcle_refl|]. split; [constructor | left; reflexivity].
  - destruct (IH (if Qc_ltb m0 b then b else m0)) as (A & B & C).
    destruct (Qc_ltb m0 b) eqn:E.
    + apply Qc_ltb_lt in E. split; [eapply Qcle_trans; [apply Qclt_le_weak; exact E | exact A]|].
      split; [constructor; assumption|]. destruct C as [C|C]; [right; left; symmetry; exact C | right; right; exact C].
    + assert (Hle : (b <= m0)%Qc).
      { apply Qcnot_lt_le. intro L. apply Qc_ltb_lt in L. congruence. }
      split; [assumption|]. split; [constructor; [eapply Qcle_trans; eassumption | assumption]|].
      destruct C as [C|C]; [left; exact C | right; right; exact C].
Qed.

Lemma meta_max_benefit_gen bens : forall m0,
  let M := fold_left (fun m ben => let b := max_benefit_list ben in if Qc_ltb m b then b else m) bens m0 in
  (m0 <= M)%Qc /\
  (forall ben b, In ben bens -> In b ben -> (b <= M)%Qc) /\
  (M = m0 \/ M = 0%Qc \/ exists ben, In ben bens /\ In M ben).
Proof.
  induction bens as [|ben bens IH]; intro m0; cbn [fold_left]; cbv zeta.
  - split; [apply Qcle_refl|]. split; [intros ? ? []|]. left. reflexivity.
  - destruct (max_benefit_list_spec ben 0%Qc) as (A & B & C). fold (max_benefit_list ben) in A, B, C.
    set (mb := max_benefit_list ben) in *.
    specialize (IH (if Qc_ltb m0 mb then mb else m0)). cbv zeta in IH. destruct IH as (A' & B' & C').
    set (M := fold_left _ bens _) in *.
    assert (Hm0 : (m0 <= (if Qc_ltb m0 mb then mb else m0))%Qc /\ (mb <= (if Qc_ltb m0 mb then mb else m0))%Qc).
    { destruct (Qc_ltb m0 mb) eqn:E.
      - apply Qc_ltb_lt in E. split; [apply Qclt_le_weak; assumption | apply Qcle_refl].
      - split; [apply Qcle_refl|]. apply Qcnot_lt_le. intro L. apply Qc_ltb_lt in L. congruence. }
    destruct Hm0 as [H1 H2].
    split; [eapply Qcle_trans; eassumption|]. split.
    + intros ben0 b [<-|Hin] Hb.
      * rewrite Forall_forall in B. eapply Qcle_trans; [apply B; assumption|]. eapply Qcle_trans; eassumption.
      * eapply B'; eassumption.
    + destruct C' as [C'|[C'|(ben0 & Hin & HM)]].
      * destruct (Qc_ltb m0 mb); [|left; assumption].
        destruct C as [C|C]; [right; left; congruence|]. right. right. exists ben. split; [left; reflexivity | congruence].
      * right. left. assumption.
      * right. right. exists ben0. split; [right; assumption | assumption].
Qed.

Theorem meta_max_benefit_spec bens :
  (0 <= meta_max_benefit bens)%Qc /\
  (forall ben b, In ben bens -> In b ben -> (b <= meta_max_benefit bens)%Qc) /\
  (meta_max_benefit bens = 0%Qc \/ exists ben, In ben bens /\ In (meta_max_benefit bens) ben).
Proof.
  destruct (meta_max_benefit_gen bens 0%Qc) as (A & B & C). split; [exact A|]. split; [exact B|].
  destruct C as [C|[C|C]]; [left; exact C | left; exact C | right; exact C].
Qed.

(* the selection vector of a step: position i of dimension j is selected iff benefit_i >= margin * max benefit *)
Lemma step_sel_nth margin bens j n i : (i < n)%nat ->
  nth i (step_sel margin bens j n) false = true <-> (meta_max_benefit bens * margin <= nth i (nth j bens []) 0)%Qc.
Proof.
  intro H. unfold step_sel, sel_of.
  rewrite (nth_indep _ false (hitP (step_tol margin bens) (nth j bens []) 0%nat)) by (rewrite map_length, seq_length; assumption).
  rewrite map_nth, seq_nth by assumption. simpl. unfold hitP, step_tol. apply Qc_leb_le.
Qed.

Lemma step_sel_length margin bens j n : length (step_sel margin bens j n) = n.
Proof. unfold step_sel, sel_of. rewrite map_length, seq_length. reflexivity. Qed.
