(* C08 (phase 3): Gauss-Legendre with 2 and 3 points (levels 0 and 1 of GaussLegendreGrid) with the EXACT irrational nodes,
   on EVERY sub-box [s, e]: all moments up to degree 2n - 1 of the rule the code builds (its affine map applied to numpy's
   leggauss table) equal the integrals of the monomials - equality in Q(sqrt(1/3)) resp. Q(sqrt(3/5)): the irrational part
   vanishes.  Clenshaw-Curtis levels 1 and 2 likewise on every sub-box. *)
From Coq Require Import ZArith List QArith Qcanon Bool Arith Lia.
From SG Require Import Base.QcUtil Model.Tensor Model.LocalGrids Model.LocalRules Model.AlgTower Proofs.TensorRule
  Proofs.LocalGridsBase Proofs.LocalGridsTrap.
Import ListNotations.
Open Scope Qc_scope.

Lemma Q9 : qn 9 = 1+1+1+1+1+1+1+1+1. Proof. apply Qc_is_canon; vm_compute; reflexivity. Qed.
Lemma Q8 : qn 8 = 1+1+1+1+1+1+1+1. Proof. apply Qc_is_canon; vm_compute; reflexivity. Qed.
Lemma Q6 : qn 6 = 1+1+1+1+1+1. Proof. apply Qc_is_canon; vm_compute; reflexivity. Qed.
Lemma Q5 : qn 5 = 1+1+1+1+1. Proof. apply Qc_is_canon; vm_compute; reflexivity. Qed.
Lemma Q2 : qn 2 = 1+1. Proof. apply Qc_is_canon; vm_compute; reflexivity. Qed.

Ltac tower_field :=
  unfold mint; cbn [Qcpower]; rewrite ?Qc2_eq, ?Q9, ?Q8, ?Q6, ?Q5, ?qn_4, ?qn_3, ?Q2, ?qn_1;
  f_equal; (field; repeat split; discriminate).

(* the nodes are the roots of the Legendre polynomials P_2 = (3x^2 - 1)/2, P_3 = (5x^3 - 3x)/2 *)
Theorem gl_node_equations :
  oadd G2 (omul G2 (oQ G2 (qn 3)) (omul G2 (0, 1) (0, 1))) (oopp G2 (o1 G2)) = o0 G2 /\
  oadd G3 (omul G3 (oQ G3 (qn 5)) (omul G3 (0, 1) (omul G3 (0, 1) (0, 1)))) (oopp G3 (omul G3 (oQ G3 (qn 3)) (0, 1))) = o0 G3.
Proof. split; vm_compute; reflexivity. Qed.

Theorem gl2_subbox_exact s e k : (k <= 3)%nat -> ogl_moment G2 s e gl2_rule k = oQ G2 (mint k s e).
Proof.
  intro Hk. destruct k as [|[|[|[|k]]]]; [| | | |lia];
    unfold ogl_moment, gl2_rule, ogl_node, G2; cbn [map osum opow ext_ops qc_ops oadd omul oQ o0 o1 fst snd]; tower_field.
Qed.

Theorem gl3_subbox_exact s e k : (k <= 5)%nat -> ogl_moment G3 s e gl3_rule k = oQ G3 (mint k s e).
Proof.
  intro Hk. destruct k as [|[|[|[|[|[|k]]]]]]; [| | | | | |lia];
    unfold ogl_moment, gl3_rule, ogl_node, G3; cbn [map osum opow ext_ops qc_ops oadd omul oQ o0 o1 fst snd]; tower_field.
Qed.

(* at Qc the generic map is the model of the code (Model/LocalRules.gl_pts / gl_wts) *)
Theorem ogl_moment_is_rule_moment s e (rule : list (Qc * Qc)) k :
  ogl_moment qc_ops s e rule k = apply1 (mono k) (gl_pts s e (map fst rule)) (gl_wts false s e (map snd rule)).
Proof.
  unfold ogl_moment, apply1, gl_pts, gl_wts. induction rule as [|[x w] rule IH]; [reflexivity|].
  cbn [map osum dotQ fst snd]. rewrite IH. cbn [oadd omul oQ qc_ops]. unfold ogl_node. cbn [oadd omul oQ o1 qc_ops].
  assert (E : forall y n, opow qc_ops y n = y ^ n) by (intros y n; induction n as [|n IHn]; [reflexivity | cbn [opow Qcpower omul qc_ops]; rewrite IHn; reflexivity]).
  rewrite E. unfold mono. ring.
Qed.

(* ---- Clenshaw-Curtis levels 1 and 2 (3 and 5 points) with the exact nodes on EVERY sub-box ---- *)
Lemma Q15 : qn 15 = 1+1+1+1+1+1+1+1+1+1+1+1+1+1+1. Proof. apply Qc_is_canon; vm_compute; reflexivity. Qed.
Lemma Q12 : qn 12 = 1+1+1+1+1+1+1+1+1+1+1+1. Proof. apply Qc_is_canon; vm_compute; reflexivity. Qed.

(* what the code's formulas give in F2 = Q(sqrt(1/2)): cos(pi j/4) and the weight factors *)
Definition cc5_cos : list (Qc * Qc) := [(1, 0); (0, 1); (0, 0); (0, -(1)); (-(1), 0)].
Definition cc5_fac : list (Qc * Qc) :=
  [(/ qn 15, 0); (qn 8 * / qn 15, 0); (qn 12 * / qn 15, 0); (qn 8 * / qn 15, 0); (/ qn 15, 0)].

Lemma pair_eq (a b c d : Qc) : a = c -> b = d -> (a, b) = (c, d).
Proof. intros -> ->. reflexivity. Qed.

Theorem cc5_tables : let tab := cheb_list F2 r2 (2 * (4 * 2) + 5) in
  map (cheb_at F2 tab) (seq 0 5) = cc5_cos /\ map (occ_factor F2 5 tab) (seq 0 5) = cc5_fac.
Proof.
  cbv zeta. split.
  - vm_compute. repeat (f_equal; try (apply pair_eq; apply Qc_is_canon; reflexivity)).
  - vm_compute. repeat (f_equal; try (apply pair_eq; apply Qc_is_canon; reflexivity)).
Qed.

Definition cc5_box_moment (s e : Qc) (k : nat) : Qc * Qc :=
  osum F2 (map (fun cf => omul F2 (omul F2 (oQ F2 ((e - s) / Qc2)) (snd cf)) (opow F2 (occ_node F2 s e (fst cf)) k))
               (combine cc5_cos cc5_fac)).

Lemma occ_moment_box_cc5 s e k :
  occ_moment_box F2 5 (cheb_list F2 r2 (2 * (4 * 2) + 5)) s e k = cc5_box_moment s e k.
Proof.
  destruct cc5_tables as [Hc Hf]. unfold occ_moment_box, cc5_box_moment. rewrite <- Hc, <- Hf.
  rewrite combine_maps, map_map. reflexivity.
Qed.

Theorem cc5_subbox_exact s e k : (k <= 5)%nat ->
  occ_moment_box F2 5 (cheb_list F2 r2 (2 * (4 * 2) + 5)) s e k = oQ F2 (mint k s e).
Proof.
  intro Hk. rewrite occ_moment_box_cc5.
  destruct k as [|[|[|[|[|[|k]]]]]]; [| | | | | |lia];
    unfold cc5_box_moment, cc5_cos, cc5_fac, occ_node, F2, F1, half_angle, r1;
    cbn [combine map osum opow ext_ops qc_ops oadd omul oopp oQ o0 o1 fst snd];
    unfold mint; cbn [Qcpower]; rewrite ?Qc2_eq, ?Qchalf_eq, ?Q15, ?Q12, ?Q8, ?Q6, ?Q5, ?qn_4, ?qn_3, ?Q2, ?qn_1;
    f_equal; (field; repeat split; discriminate).
Qed.
