(* What the global error estimate IS (C13: "reported error = relative, absolute for a zero reference, deviation
   of the reported result from the reference in the chosen norm"), and the resume theorem (C14). *)
From Coq Require Import ZArith List Bool QArith Qcanon Lia Lqa.
From SG Require Import Base.QcUtil Model.Driver Proofs.DriverProofs.
Import ListNotations.
Open Scope Qc_scope.

(* ------------------------------------------------------------------ |.| on Qc *)
Lemma Qc_abs_sq x : Qc_abs x * Qc_abs x = x * x.
Proof. unfold Qc_abs. destruct (Qc_leb 0 x); ring. Qed.

Lemma Qc_abs_zero_iff x : Qc_abs x = 0 <-> x = 0.
Proof.
  unfold Qc_abs. destruct (Qc_leb 0 x); [tauto|]. split; intro H; [|subst; ring].
  replace x with (- - x) by ring. rewrite H. ring.
Qed.

Lemma Qc_sq_inj_nonneg u v : 0 <= u -> 0 <= v -> u * u = v * v -> u = v.
Proof.
  intros Hu Hv H. assert (E : (u - v) * (u + v) = 0) by (transitivity (u * u - v * v); [ring|rewrite H; ring]).
  apply Qcmult_integral in E. destruct E as [E|E].
  - replace u with (u - v + v) by ring. rewrite E. ring.
  - assert (U : u = 0) by (apply Qcle_antisym; [|exact Hu]; qc_order).
    assert (V : v = 0) by (apply Qcle_antisym; [|exact Hv]; qc_order).
    congruence.
Qed.

Lemma Qc_abs_div a b : b <> 0 -> Qc_abs (a / b) = Qc_abs a / Qc_abs b.
Proof.
  intro Hb. assert (Hab : Qc_abs b <> 0) by (intro H; apply Hb; apply Qc_abs_zero_iff; exact H).
  apply Qc_sq_inj_nonneg.
  - apply Qc_abs_nonneg.
  - apply Qc_div_nonneg; apply Qc_abs_nonneg.
  - rewrite Qc_abs_sq.
    transitivity ((Qc_abs a * Qc_abs a) / (Qc_abs b * Qc_abs b)); [|field; exact Hab].
    rewrite !Qc_abs_sq. field. exact Hb.
Qed.

Lemma Qc_eqb_false_neq a b : Qc_eqb a b = false -> a <> b.
Proof. intros H E. apply Qc_eqb_eq in E. congruence. Qed.

(* ------------------------------------------------------------------ scalar output: |ref - I| / |ref| in every norm *)
Theorem error_is_relative_deviation_scalar nm r i :
  r <> 0 ->
  global_error nm (Some [r]) [i] =
    GVal (match nm with
          | NormInf | Norm1 => Qc_abs (r - i) / Qc_abs r
          | Norm2sq => (Qc_abs (r - i) / Qc_abs r) * (Qc_abs (r - i) / Qc_abs r)
          end).
Proof.
  intro Hr. unfold global_error. cbn [length Nat.eqb negb all_zero some_zero forallb existsb].
  destruct (Qc_eqb r 0) eqn:E; [apply Qc_eqb_eq in E; contradiction|]. cbn [andb orb rel_dev].
  f_equal. assert (N1 : qc_of_Z (Z.of_nat 1) = 1) by (apply Qc_is_canon; reflexivity).
  destruct nm; cbn [vec_norm map maxQ sumQ length]; rewrite ?N1.
  - rewrite <- Qc_abs_div by exact Hr. unfold Qc_max.
    destruct (Qc_leb (Qc_abs ((r - i) / r)) 0) eqn:L; [|reflexivity].
    apply Qc_leb_le in L. apply Qcle_antisym; [apply Qc_abs_nonneg|exact L].
  - rewrite <- Qc_abs_div by exact Hr. field. intro X; apply (f_equal this) in X; cbn in X; discriminate X.
  - rewrite <- Qc_abs_div by exact Hr. rewrite Qc_abs_sq. field. split; [exact Hr|]. intro X; apply (f_equal this) in X; cbn in X; discriminate X.
Qed.

(* zero reference: the absolute size of the result *)
Theorem error_is_absolute_for_zero_reference nm ref integral :
  length ref = length integral -> (forall r, In r ref -> r = 0) ->
  global_error nm (Some ref) integral = GVal (vec_norm nm integral).
Proof.
  intros Hl Hz. unfold global_error. rewrite Hl, Nat.eqb_refl. cbn [negb].
  assert (A : all_zero ref = true).
  { unfold all_zero. apply forallb_forall. intros x Hx. apply Qc_eqb_eq. apply Hz. exact Hx. }
  rewrite A. reflexivity.
Qed.

(* ------------------------------------------------------------------ vector output *)
Lemma rel_dev_length ref : forall integral, length ref = length integral -> length (rel_dev ref integral) = length ref.
Proof.
  induction ref as [|r ref IH]; intros [|i int] H; cbn in *; try discriminate; [reflexivity|].
  rewrite IH; [reflexivity|lia].
Qed.

Lemma rel_dev_nth ref : forall integral k r i,
  nth_error ref k = Some r -> nth_error integral k = Some i ->
  nth_error (rel_dev ref integral) k = Some ((r - i) / r).
Proof.
  induction ref as [|r0 ref IH]; intros [|i0 int] k r i Hr Hi; destruct k; cbn in *; try discriminate.
  - injection Hr as <-. injection Hi as <-. reflexivity.
  - apply IH; assumption.
Qed.

(* max norm: the estimate bounds every component's relative deviation and is attained (or is 0) *)
Theorem error_is_relative_deviation_maxnorm ref integral e :
  global_error NormInf (Some ref) integral = GVal e -> (exists r, In r ref /\ r <> 0) ->
  (forall k r i, nth_error ref k = Some r -> nth_error integral k = Some i -> Qc_abs (r - i) / Qc_abs r <= e) /\
  (e = 0 \/ exists k r i, nth_error ref k = Some r /\ nth_error integral k = Some i /\ e = Qc_abs (r - i) / Qc_abs r).
Proof.
  unfold global_error. destruct (negb (Nat.eqb (length ref) (length integral))) eqn:L; [discriminate|].
  intros H [r0 [Hin0 Hr0]].
  destruct (all_zero ref) eqn:A.
  { unfold all_zero in A. rewrite forallb_forall in A. specialize (A r0 Hin0). apply Qc_eqb_eq in A. contradiction. }
  destruct (some_zero ref) eqn:Z; [discriminate|]. injection H as <-.
  assert (NZ : forall r, In r ref -> r <> 0).
  { intros r Hr E. unfold some_zero in Z. apply Bool.not_true_iff_false in Z. apply Z. apply existsb_exists.
    exists r. split; [exact Hr|]. apply Qc_eqb_eq. exact E. }
  cbn [vec_norm]. split.
  - intros k r i Hr Hi. rewrite <- Qc_abs_div by (apply NZ; eapply nth_error_In; exact Hr).
    apply maxQ_ge. apply in_map. eapply nth_error_In. apply (rel_dev_nth ref integral k r i Hr Hi).
  - destruct (maxQ_attained (map Qc_abs (rel_dev ref integral))) as [H|H]; [left; exact H|right].
    apply in_map_iff in H. destruct H as [x [Hx Hin]]. apply In_nth_error in Hin. destruct Hin as [k Hk].
    assert (Hlen : length ref = length integral).
    { apply Nat.eqb_eq. destruct (Nat.eqb (length ref) (length integral)); [reflexivity|discriminate]. }
    assert (Hk' : (k < length ref)%nat).
    { rewrite <- (rel_dev_length ref integral Hlen). apply nth_error_Some. congruence. }
    destruct (nth_error ref k) as [r|] eqn:Er; [|apply nth_error_None in Er; lia].
    destruct (nth_error integral k) as [i|] eqn:Ei; [|apply nth_error_None in Ei; lia].
    exists k, r, i. split; [exact Er|]. split; [exact Ei|].
    rewrite (rel_dev_nth ref integral k r i Er Ei) in Hk. injection Hk as <-.
    rewrite <- Hx. apply Qc_abs_div. apply NZ. eapply nth_error_In. exact Er.
Qed.

(* 1-norm: the estimate is the MEAN of the components' relative deviations *)
Fixpoint rel_abs_dev (ref integral : list Qc) : list Qc :=
  match ref, integral with
  | r :: ref', i :: int' => (Qc_abs (r - i) / Qc_abs r) :: rel_abs_dev ref' int'
  | _, _ => []
  end.

Lemma map_abs_rel_dev ref : forall integral, (forall r, In r ref -> r <> 0) ->
  map Qc_abs (rel_dev ref integral) = rel_abs_dev ref integral.
Proof.
  induction ref as [|r ref IH]; intros [|i int] H; cbn; try reflexivity.
  rewrite Qc_abs_div by (apply H; left; reflexivity). f_equal. apply IH. intros x Hx. apply H. right. exact Hx.
Qed.

Theorem error_is_relative_deviation_1norm ref integral e :
  global_error Norm1 (Some ref) integral = GVal e -> (forall r, In r ref -> r <> 0) -> ref <> [] ->
  e * qc_of_Z (Z.of_nat (length ref)) = sumQ (rel_abs_dev ref integral).
Proof.
  unfold global_error. destruct (negb (Nat.eqb (length ref) (length integral))) eqn:L; [discriminate|].
  intros H NZ Hne.
  assert (Hlen : length ref = length integral).
  { apply Nat.eqb_eq. destruct (Nat.eqb (length ref) (length integral)); [reflexivity|discriminate]. }
  destruct (all_zero ref) eqn:A.
  { destruct ref as [|r ref]; [contradiction|]. cbn in A. apply andb_true_iff in A. destruct A as [A _].
    apply Qc_eqb_eq in A. exfalso. apply (NZ r); [left; reflexivity|exact A]. }
  destruct (some_zero ref) eqn:Z; [discriminate|]. injection H as <-.
  cbn [vec_norm]. rewrite (rel_dev_length ref integral Hlen), (map_abs_rel_dev ref integral NZ).
  field. intro E. destruct ref as [|r ref]; [contradiction|].
  apply Qc_eq_Qeq in E. unfold qc_of_Z in E. cbn [this Q2Qc] in E. rewrite Qred_correct in E.
  unfold Qeq in E. cbn in E. lia.
Qed.

(* 2-norm (the model returns the square): the MEAN of the squared relative deviations *)
Lemma map_sq_rel_dev ref : forall integral, (forall r, In r ref -> r <> 0) ->
  map (fun x => x * x) (rel_dev ref integral) = map (fun x => x * x) (rel_abs_dev ref integral).
Proof.
  induction ref as [|r ref IH]; intros [|i int] H; cbn; try reflexivity.
  rewrite <- (Qc_abs_div (r - i) r) by (apply H; left; reflexivity). rewrite Qc_abs_sq. f_equal.
  apply IH. intros x Hx. apply H. right. exact Hx.
Qed.

Theorem error_is_relative_deviation_2norm ref integral e :
  global_error Norm2sq (Some ref) integral = GVal e -> (forall r, In r ref -> r <> 0) -> ref <> [] ->
  e * qc_of_Z (Z.of_nat (length ref)) = sumQ (map (fun x => x * x) (rel_abs_dev ref integral)).
Proof.
  unfold global_error. destruct (negb (Nat.eqb (length ref) (length integral))) eqn:L; [discriminate|].
  intros H NZ Hne.
  assert (Hlen : length ref = length integral).
  { apply Nat.eqb_eq. destruct (Nat.eqb (length ref) (length integral)); [reflexivity|discriminate]. }
  destruct (all_zero ref) eqn:A.
  { destruct ref as [|r ref]; [contradiction|]. cbn in A. apply andb_true_iff in A. destruct A as [A _].
    apply Qc_eqb_eq in A. exfalso. apply (NZ r); [left; reflexivity|exact A]. }
  destruct (some_zero ref) eqn:Z; [discriminate|]. injection H as <-.
  cbn [vec_norm]. rewrite (rel_dev_length ref integral Hlen), (map_sq_rel_dev ref integral NZ).
  field. intro E. destruct ref as [|r ref]; [contradiction|].
  apply Qc_eq_Qeq in E. unfold qc_of_Z in E. cbn [this Q2Qc] in E. rewrite Qred_correct in E.
  unfold Qeq in E. cbn in E. lia.
Qed.

(* ------------------------------------------------------------------ C14: resume = uninterrupted *)
Lemma stop_mono l1 l2 o : limits_grow l1 l2 -> stop_now l2 o = true -> stop_now l1 o = true.
Proof.
  intros [Ht [Hm Hx]]. unfold stop_now, stop_tol, stop_max. intro H. apply orb_true_iff in H. apply orb_true_iff.
  destruct H as [H|H].
  - left. apply andb_true_iff in H. destruct H as [H1 H2]. apply andb_true_iff. split.
    + apply Qc_leb_le. apply Qc_leb_le in H1. eapply Qcle_trans; [exact H1|exact Ht].
    + apply Z.leb_le. apply Z.leb_le in H2. lia.
  - right. destruct (l_max l2) as [m2|]; [|discriminate]. destruct (l_max l1) as [m1|]; [|contradiction].
    apply Z.ltb_lt. apply Z.ltb_lt in H. lia.
Qed.

Section ResumeProof.
  Variable St : Type.
  Variable evaluate : St -> St.
  Variable refine : St -> St.
  Variable observe : St -> obs.

  Notation run := (run St evaluate refine observe).

  Lemma run_fuel_mono lim n : forall s x j, run lim n s = Some x -> run lim (n + j) s = Some x.
  Proof.
    induction n as [|n IH]; intros s x j H; cbn in *; [discriminate|].
    destruct (stop_now lim (observe (evaluate s))); [exact H|]. apply IH. exact H.
  Qed.

  Lemma run_deterministic lim n m s x y : run lim n s = Some x -> run lim m s = Some y -> x = y.
  Proof.
    intros Hx Hy. apply (run_fuel_mono lim n s x m) in Hx. apply (run_fuel_mono lim m s y n) in Hy.
    rewrite Nat.add_comm in Hy. congruence.
  Qed.

  (* every state the loop returns is an evaluated state on which the rule fires *)
  Lemma run_result lim n : forall s x, run lim n s = Some x -> (exists s0, x = evaluate s0) /\ stop_now lim (observe x) = true.
  Proof.
    induction n as [|n IH]; intros s x H; cbn in H; [discriminate|].
    destruct (stop_now lim (observe (evaluate s))) eqn:E; [|apply (IH _ _ H)].
    injection H as <-. split; [exists s; reflexivity|exact E].
  Qed.

  (* the hypothesis checked on the implementation: evaluating an already evaluated state changes nothing *)
  Hypothesis evaluate_idempotent : forall s, evaluate (evaluate s) = evaluate s.

  Theorem resume_equals_uninterrupted l1 l2 n : forall m s s1 s2,
    limits_grow l1 l2 ->
    run l1 n s = Some s1 ->          (* first call stops at s1 *)
    run l2 m s1 = Some s2 ->         (* continue_adaptive_refinement with grown limits stops at s2 *)
    exists k, (k <= n + m)%nat /\ run l2 k s = Some s2.      (* the single run with the final limits ends in s2 too *)
  Proof.
    induction n as [|n IH]; intros m s s1 s2 G H1 H2; cbn in H1; [discriminate|].
    destruct (stop_now l1 (observe (evaluate s))) eqn:E.
    - injection H1 as <-. destruct m as [|m]; [discriminate|]. exists (S m). split; [lia|].
      cbn in H2 |- *. rewrite evaluate_idempotent in H2. exact H2.
    - destruct (IH m (refine (evaluate s)) s1 s2 G H1 H2) as [k [Hk Hr]].
      exists (S k). split; [lia|]. cbn.
      destruct (stop_now l2 (observe (evaluate s))) eqn:E2; [|exact Hr].
      apply (stop_mono l1 l2 _ G) in E2. congruence.
  Qed.

  (* and conversely: whatever the uninterrupted run returns is what stop-and-continue returns *)
  Corollary uninterrupted_equals_resume l1 l2 n m k s s1 s2 s2' :
    limits_grow l1 l2 -> run l1 n s = Some s1 -> run l2 m s1 = Some s2 -> run l2 k s = Some s2' -> s2' = s2.
  Proof.
    intros G H1 H2 H3. destruct (resume_equals_uninterrupted l1 l2 n m s s1 s2 G H1 H2) as [k' [_ H]].
    apply (run_deterministic l2 k k' s s2' s2 H3 H).
  Qed.

  (* any number of interruptions with growing limits *)
  Fixpoint run_chain (lims : list (limits * nat)) (s : St) : option St :=
    match lims with
    | [] => Some s
    | (l, n) :: r => match run l n s with Some s' => run_chain r s' | None => None end
    end.

  Fixpoint all_grow_to (lims : list (limits * nat)) (lf : limits) : Prop :=
    match lims with [] => True | (l, _) :: r => limits_grow l lf /\ all_grow_to r lf end.

  Theorem resume_chain_equals_uninterrupted lims : forall lf nf s s1 s2,
    all_grow_to lims lf -> run_chain lims s = Some s1 -> run lf nf s1 = Some s2 ->
    lims <> [] -> exists k, run lf k s = Some s2.
  Proof.
    induction lims as [|[l n] r IH]; intros lf nf s s1 s2 G H1 H2 Hne; [contradiction|].
    cbn in H1, G. destruct G as [G Gr]. destruct (run l n s) as [s'|] eqn:E; [|discriminate].
    destruct r as [|p r'].
    - cbn in H1. injection H1 as <-.
      destruct (resume_equals_uninterrupted l lf n nf s s' s2 G E H2) as [k [_ Hk]]. exists k. exact Hk.
    - destruct (IH lf nf s' s1 s2 Gr H1 H2) as [k Hk]; [discriminate|].
      destruct (resume_equals_uninterrupted l lf n k s s' s2 G E Hk) as [k' [_ Hk']]. exists k'. exact Hk'.
  Qed.
End ResumeProof.
