(* C04 / extend-split: every multilinear monomial is integrated exactly in EVERY reachable state of EVERY history in which the
   areas carry valid local combinations; for coarsening version 0 (the default) this holds unconditionally (C07 v0 theorems). *)
From Coq Require Import ZArith List Bool QArith Qcanon Lia Permutation.
From SG Require Import Base.QcUtil Model.CombiScheme Model.ExtendSplit Model.ESInterp Model.ESExact
     Proofs.ESGeom Proofs.ESInv Proofs.ESV0 Proofs.ESDict Proofs.ESExact.
From SG Require Import Proofs.ESMoments.
Import ListNotations.
Open Scope Z_scope.

(* the areas of a state as the combined integral sees them: box and computed component grids (current dictionary state) *)
Definition state_areas (st : state) : list (box * list (lv * Z)) :=
  map (fun x => (abox x, area_grids (st_cp st) x)) (st_objs st).

Section Reach.
Variables (dim : nat) (version nrbe lmin lmax base : Z) (auto single : bool) (a b : list Qc) (bens0 : list (box * Z)).
Hypotheses (Hbox : wfbox a b) (Hdim : length a = dim) (Hlev : lmin <= lmax).
Let reach (hist : list event) : state :=
  run_events (start_state dim version nrbe lmin lmax base auto single a b bens0) hist.

Theorem es_reachable_multilinear_exact hist exps :
  (forall x, In x (st_objs (reach hist)) ->
     valid_local_combi dim (area_grids (st_cp (reach hist)) x) = true /\ area_grids (st_cp (reach hist)) x <> []) ->
  length exps = dim -> Forall (fun k => (k <= 1)%nat) exps ->
  es_integral a b (state_areas (reach hist)) exps = bmom a b exps.
Proof.
  intros Hv Lx Fx.
  pose proof (wfbox_length _ _ Hbox) as Lab.
  apply es_multilinear_exact_checked; try congruence.
  - intros bx gs Hin. unfold state_areas in Hin. apply in_map_iff in Hin. destruct Hin as [x [E Hx]].
    injection E as <- <-. destruct (Hv x Hx) as [V N].
    destruct (area_box_ok dim version nrbe lmin lmax base auto single a b bens0 Hbox Hdim Hlev hist x Hx) as [_ [L1 L2]].
    rewrite Hdim. cbn [abox fst snd]. repeat split; assumption.
  - unfold state_areas. rewrite map_map. cbn [fst]. rewrite <- (map_map abox (fun bx => bx)), map_id.
    apply reachable_moments_additive; assumption.
Qed.
End Reach.

(* ---- version 0: the local combination of every area is never empty ---- *)
Lemma getGrids_nonempty : forall n v, 1 <= v -> getGrids (S n) v <> [].
Proof.
  induction n as [|n IH]; intros v Hv; [discriminate|].
  change (getGrids (S (S n)) v) with (flat_map (fun index => map (cons (index + 1)) (getGrids (S n) (v - index))) (zrange v)).
  unfold zrange. destruct (Z.to_nat v) as [|k] eqn:E; [lia|]. cbn [seq map flat_map].
  intro H. apply app_eq_nil in H. destruct H as [H _]. apply map_eq_nil in H. apply (IH (v - Z.of_nat 0) ltac:(simpl; lia)). exact H.
Qed.

Lemma std_nonempty n lmin L : lmin <= L -> combi_scheme_standard (S n) lmin L <> [].
Proof.
  intro H. unfold combi_scheme_standard.
  destruct (Z.to_nat (Z.min (Z.of_nat (S n)) (L - lmin + 1))) as [|k] eqn:E; [lia|].
  cbn [seq flat_map]. intro H0. apply app_eq_nil in H0. destruct H0 as [H0 _]. apply map_eq_nil in H0.
  apply (getGrids_nonempty n (L - lmin + 1 - Z.of_nat 0) ltac:(simpl; lia)). exact H0.
Qed.

Lemma local_combi_v0_nonempty n lmin lmax c base : 0 <= c <= lmax - lmin ->
  local_combi (mkCP (S (S n)) 0 lmin lmax base) c <> [].
Proof.
  intros Hc E. pose proof (local_combi_v0_perm n lmin lmax c base Hc) as P. rewrite E in P.
  apply Permutation_nil in P. unfold shifted in P. apply map_eq_nil in P.
  apply (std_nonempty (S n) lmin (lmax - c) ltac:(lia)). exact P.
Qed.

(* version 0 (the default), dimension >= 2, EVERY history: the combined integral of every multilinear monomial is exact *)
Theorem es_reachable_multilinear_exact_v0 n nrbe lmin lmax base auto single a b bens0 hist exps :
  wfbox a b -> length a = S (S n) -> lmin <= lmax ->
  length exps = S (S n) -> Forall (fun k => (k <= 1)%nat) exps ->
  es_integral a b (state_areas (run_events (start_state (S (S n)) 0 nrbe lmin lmax base auto single a b bens0) hist)) exps
  = bmom a b exps.
Proof.
  intros Hbox Hdim Hlev Lx Fx.
  apply (es_reachable_multilinear_exact (S (S n)) 0 nrbe lmin lmax base auto single a b bens0 Hbox Hdim Hlev hist exps); try assumption.
  intros x Hx. split.
  - apply (v0_every_area_valid n nrbe lmin lmax base auto single a b bens0 hist x Hbox Hdim Hlev Hx).
  - rewrite (area_grids_history (S (S n)) 0 nrbe lmin lmax base auto single a b bens0 Hbox Hdim Hlev hist x Hx).
    apply local_combi_v0_nonempty.
    exact (coarsening_nonneg (S (S n)) 0 nrbe lmin lmax base auto single a b bens0 hist Hbox Hdim Hlev x Hx).
Qed.
