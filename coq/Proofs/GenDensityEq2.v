(* C16, source-derived model, part 2: get_hat_domain (the domains the scalar code paths use: large-grid right-hand side, reuse) and
   take_closest (the neighbour search of the large-grid paths) of coq/Gen/DensityGen.v against the hand model Model/Gram.v. *)
From Coq Require Import ZArith List Bool QArith Qcanon Lia.
From SG Require Import Base.QcUtil Base.PyLib Base.PyNum Base.PyNumSeq Proofs.PyLibFacts Proofs.PyNumFacts Gen.DensityGen
  Model.Gram Proofs.GramHat Proofs.GramEntries Proofs.GramPD Proofs.GramNorm Proofs.KronSOS Proofs.StripeSOS Proofs.GramKron
  Proofs.GenDensityEq.
Import ListNotations.
Open Scope Qc_scope.

(* ------------------------------------------------------------------ max / min of a list *)
Lemma fold_max_ge r : forall x, x <= fold_left Qc_max r x /\ (forall y, In y r -> y <= fold_left Qc_max r x).
Proof.
  induction r as [|a r IH]; intro x; cbn [fold_left]; [split; [apply Qcle_refl | intros y []]|].
  destruct (IH (Qc_max x a)) as [H1 H2]. split.
  - apply Qcle_trans with (Qc_max x a); [apply Qc_max_ge_l | exact H1].
  - intros y [Hy|Hy]; [subst; apply Qcle_trans with (Qc_max x y); [rewrite Qc_max_comm; apply Qc_max_ge_l | exact H1] | apply H2; exact Hy].
Qed.
Lemma fold_max_in r : forall x, In (fold_left Qc_max r x) (x :: r).
Proof.
  induction r as [|a r IH]; intro x; cbn [fold_left]; [left; reflexivity|].
  assert (C : Qc_max x a = x \/ Qc_max x a = a) by (unfold Qc_max; destruct (Qc_leb x a); [right | left]; reflexivity).
  destruct C as [E|E]; rewrite E.
  - destruct (IH x) as [H|H]; [left; exact H | right; right; exact H].
  - destruct (IH a) as [H|H]; [right; left; exact H | right; right; exact H].
Qed.
Lemma fmax_is l m : In m l -> (forall y, In y l -> y <= m) -> py_fmax l = Some m.
Proof.
  intros Hin Hub. destruct l as [|x r]; [destruct Hin|]. cbn [py_fmax]. f_equal.
  apply Qcle_antisym.
  - apply Hub. apply fold_max_in.
  - destruct (fold_max_ge r x) as [H1 H2]. destruct Hin as [E|Hin]; [subst; exact H1 | apply H2; exact Hin].
Qed.

Lemma Qc_min_le_l a b : Qc_min a b <= a.
Proof. unfold Qc_min. destruct (Qc_leb a b) eqn:E; [apply Qcle_refl | apply Qc_leb_false in E; apply Qclt_le_weak; exact E]. Qed.
Lemma fold_min_le r : forall x, fold_left Qc_min r x <= x /\ (forall y, In y r -> fold_left Qc_min r x <= y).
Proof.
  induction r as [|a r IH]; intro x; cbn [fold_left]; [split; [apply Qcle_refl | intros y []]|].
  destruct (IH (Qc_min x a)) as [H1 H2]. split.
  - apply Qcle_trans with (Qc_min x a); [exact H1 | apply Qc_min_le_l].
  - intros y [Hy|Hy]; [subst; apply Qcle_trans with (Qc_min x y); [exact H1 | rewrite Qc_min_comm; apply Qc_min_le_l] | apply H2; exact Hy].
Qed.
Lemma fold_min_in r : forall x, In (fold_left Qc_min r x) (x :: r).
Proof.
  induction r as [|a r IH]; intro x; cbn [fold_left]; [left; reflexivity|].
  assert (C : Qc_min x a = x \/ Qc_min x a = a) by (unfold Qc_min; destruct (Qc_leb x a); [left | right]; reflexivity).
  destruct C as [E|E]; rewrite E.
  - destruct (IH x) as [H|H]; [left; exact H | right; right; exact H].
  - destruct (IH a) as [H|H]; [right; left; exact H | right; right; exact H].
Qed.
Lemma fmin_is l m : In m l -> (forall y, In y l -> m <= y) -> py_fmin l = Some m.
Proof.
  intros Hin Hlb. destruct l as [|x r]; [destruct Hin|]. cbn [py_fmin]. f_equal.
  apply Qcle_antisym.
  - destruct (fold_min_le r x) as [H1 H2]. destruct Hin as [E|Hin]; [subst; exact H1 | apply H2; exact Hin].
  - apply Hlb. apply fold_min_in.
Qed.

Lemma py_filterM_total {A} (f : A -> bool) (l : list A) : py_filterM (fun x => Some (f x)) l = Some (filter f l).
Proof. induction l as [|x l IH]; [reflexivity|]. cbn [py_filterM filter]. rewrite IH. destruct (f x); reflexivity. Qed.

Lemma py_filterM_ext {A} (f g : A -> option bool) l : (forall x, f x = g x) -> py_filterM f l = py_filterM g l.
Proof. intro H. induction l as [|x l IH]; [reflexivity|]. cbn [py_filterM]. rewrite H, IH. reflexivity. Qed.

(* ------------------------------------------------------------------ the neighbours of an interior point in a strictly increasing stripe *)
Lemma window_neighbours xs : strictly_inc xs -> forall t, In t (windows xs) ->
  In (h_lo t) xs /\ In (h_hi t) xs /\
  (forall y, In y xs -> y < h_p t -> y <= h_lo t) /\ (forall y, In y xs -> h_p t < y -> h_hi t <= y).
Proof.
  induction xs as [|x0 xs IH]; intros Hs t Ht; [destruct Ht|].
  destruct xs as [|x1 [|x2 rest]]; try (destruct Ht; fail).
  change (windows (x0 :: x1 :: x2 :: rest)) with (mkH x0 x1 x2 :: windows (x1 :: x2 :: rest)) in Ht.
  pose proof Hs as [H01 Hs1]. pose proof Hs1 as [H12 Hs2].
  destruct Ht as [Ht|Ht].
  - subst t. cbn [h_lo h_p h_hi]. split; [left; reflexivity|]. split; [right; right; left; reflexivity|]. split.
    + intros y [E|[E|Hy]] Hlt; [subst; apply Qcle_refl | subst; exfalso; exact (Qclt_not_le _ _ Hlt (Qcle_refl _)) |].
      exfalso. assert (x2 <= y) by (destruct Hy as [E|Hy]; [subst; apply Qcle_refl | apply Qclt_le_weak; apply (strictly_inc_head_lt x2 rest Hs2 y Hy)]).
      qc_order.
    + intros y [E|[E|Hy]] Hlt; [subst; exfalso; qc_order | subst; exfalso; exact (Qclt_not_le _ _ Hlt (Qcle_refl _)) |].
      destruct Hy as [E|Hy]; [subst; apply Qcle_refl | apply Qclt_le_weak; apply (strictly_inc_head_lt x2 rest Hs2 y Hy)].
  - destruct (IH Hs1 t Ht) as [A [B [C D]]].
    pose proof (windows_p_gt x1 (x2 :: rest) Hs1 t Ht) as Pg. pose proof (windows_lo_ge x1 (x2 :: rest) Hs1 t Ht) as Lg.
    split; [right; exact A|]. split; [right; exact B|]. split.
    + intros y [E|Hy] Hlt; [subst; qc_order | apply C; assumption].
    + intros y [E|Hy] Hlt; [subst; exfalso; qc_order | apply D; assumption].
Qed.

Lemma lower_filter xs t : strictly_inc xs -> In t (windows xs) ->
  py_fmax (filter (fun c => Qc_ltb c (h_p t)) xs) = Some (h_lo t).
Proof.
  intros Hs Ht. destruct (window_neighbours xs Hs t Ht) as [A [_ [C _]]]. destruct (windows_proper xs Hs t Ht) as [P1 _].
  apply fmax_is.
  - apply filter_In. split; [exact A | apply Qc_ltb_lt; exact P1].
  - intros y Hy. apply filter_In in Hy. destruct Hy as [Hy Hl]. apply C; [exact Hy | apply Qc_ltb_lt; exact Hl].
Qed.
Lemma upper_filter xs t : strictly_inc xs -> In t (windows xs) ->
  py_fmin (filter (fun c => Qc_ltb (h_p t) c) xs) = Some (h_hi t).
Proof.
  intros Hs Ht. destruct (window_neighbours xs Hs t Ht) as [_ [B [_ D]]]. destruct (windows_proper xs Hs t Ht) as [_ P2].
  apply fmin_is.
  - apply filter_In. split; [exact B | apply Qc_ltb_lt; exact P2].
  - intros y Hy. apply filter_In in Hy. destruct Hy as [Hy Hl]. apply D; [exact Hy | apply Qc_ltb_lt; exact Hl].
Qed.

Lemma upper_filter' xs t : strictly_inc xs -> In t (windows xs) -> py_fmin (filter (Qc_ltb (h_p t)) xs) = Some (h_hi t).
Proof. exact (upper_filter xs t). Qed.

Lemma map_nth_seq {A B} (f : A -> B) (dA : A) l : map (fun k => f (nth k l dA)) (seq 0 (length l)) = map f l.
Proof.
  induction l as [|x l IH]; [reflexivity|]. cbn [length seq map nth]. f_equal.
  rewrite <- seq_shift, map_map. cbn [nth]. exact IH.
Qed.

Lemma Forall2_nth {A B} (P : A -> B -> Prop) (dA : A) (dB : B) l1 l2 : Forall2 P l1 l2 ->
  length l1 = length l2 /\ forall k, (k < length l1)%nat -> P (nth k l1 dA) (nth k l2 dB).
Proof.
  induction 1 as [|a b l1 l2 Hab _ IH]; [split; [reflexivity | intros k Hk; simpl in Hk; lia]|].
  destruct IH as [L IH]. split; [simpl; lia|]. intros [|k] Hk; [exact Hab | apply IH; simpl in Hk; lia].
Qed.

(* MAIN: for every interior grid point of the cross product of strictly increasing stripes get_hat_domain returns, per dimension, the
   two neighbours of the point in its stripe - the domains of the model hats (grid_hats / windows) - in both the debug and the plain branch *)
Theorem gen_get_hat_domain_is_model : forall debug ts stripes,
  Forall2 (fun t xs => strictly_inc xs /\ In t (windows xs)) ts stripes ->
  DensityEstimation_get_hat_domain (Z.of_nat (length ts)) debug (pts_of ts) stripes = Some (doms_of ts).
Proof.
  intros debug ts stripes HF. destruct (Forall2_nth _ d0 [] ts stripes HF) as [HL Hk].
  unfold DensityEstimation_get_hat_domain.
  assert (Body : forall k, (k < length ts)%nat ->
            py_getitem stripes (Z.of_nat k) = Some (nth k stripes []) /\
            py_getitem (pts_of ts) (Z.of_nat k) = Some (h_p (nth k ts d0))).
  { intros k Hlt. split; [apply getitem_list; lia | unfold pts_of; apply getitem_map; exact Hlt]. }
  rewrite py_range2_from0, py_range_seq0.
  destruct debug; cbn [bindF].
  - rewrite py_for_map'.
    rewrite (py_for_ext _ _ (fun k acc => @Nxt (list (Qc * Qc)) (list (Qc * Qc)) (acc ++ [dom (nth k ts d0)]))).
    + rewrite py_for_map_append. cbn [bindF run_flow app]. rewrite (map_nth_seq dom d0 ts). reflexivity.
    + intros k acc Hin. cbn beta. apply in_seq in Hin. destruct (Body k ltac:(lia)) as [E1 E2]. destruct (Hk k ltac:(lia)) as [Hs Ht].
      rewrite E1. cbn [bindE].
      rewrite (py_filterM_ext _ (fun coord => Some (Qc_ltb (h_p (nth k ts d0)) coord))) by (intro c; rewrite E2; reflexivity).
      rewrite py_filterM_total. cbn [bindE].
      rewrite (py_filterM_ext _ (fun coord => Some (Qc_ltb coord (h_p (nth k ts d0))))) by (intro c; rewrite E2; reflexivity).
      rewrite py_filterM_total. cbn [bindE].
      pose proof (lower_filter _ _ Hs Ht) as Lo. pose proof (upper_filter _ _ Hs Ht) as Up.
      destruct (filter (fun c => Qc_ltb c (h_p (nth k ts d0))) (nth k stripes [])) as [|l0 lr] eqn:FL; [discriminate|].
      destruct (filter (fun c => Qc_ltb (h_p (nth k ts d0)) c) (nth k stripes [])) as [|u0 ur] eqn:FU; [discriminate|].
      rewrite Lo, Up. cbn [bindO bindE]. reflexivity.
  - rewrite py_for_map'.
    rewrite (py_for_ext _ _ (fun k acc => @Nxt (list (Qc * Qc)) (list (Qc * Qc)) (acc ++ [dom (nth k ts d0)]))).
    + rewrite py_for_map_append. cbn [bindF run_flow app]. rewrite (map_nth_seq dom d0 ts). reflexivity.
    + intros k acc Hin. cbn beta. apply in_seq in Hin. destruct (Body k ltac:(lia)) as [E1 E2]. destruct (Hk k ltac:(lia)) as [Hs Ht].
      rewrite E1. cbn [bindE].
      rewrite (py_filterM_ext _ (fun coord => Some (Qc_ltb coord (h_p (nth k ts d0))))) by (intro c; rewrite E2; reflexivity).
      rewrite py_filterM_total. cbn [bindE].
      rewrite (py_filterM_ext _ (fun coord => Some (Qc_ltb (h_p (nth k ts d0)) coord))) by (intro c; rewrite E2; reflexivity).
      rewrite py_filterM_total. cbn [bindE].
      unfold py_fmax_default, py_fmin_default. rewrite (lower_filter _ _ Hs Ht).
      first [rewrite (upper_filter _ _ Hs Ht) | rewrite (upper_filter' _ _ Hs Ht)]. reflexivity.
Qed.

(* ------------------------------------------------------------------ bisect_left (binary search) and take_closest *)
(* the linear scan of the model: elements before the count are < x, and on a strictly increasing list the others are not *)
Lemma bisect_left_le xs x : (bisect_left xs x <= length xs)%nat.
Proof. induction xs as [|a r IH]; [apply Nat.le_refl|]. cbn [bisect_left length]. destruct (Qc_ltb a x); lia. Qed.

Lemma bisect_left_before xs x : forall i, (i < bisect_left xs x)%nat -> nth i xs 0 < x.
Proof.
  induction xs as [|a r IH]; intros i Hi; [simpl in Hi; lia|]. cbn [bisect_left] in Hi.
  destruct (Qc_ltb a x) eqn:E; [|lia]. destruct i as [|i]; [apply Qc_ltb_lt; exact E | cbn [nth]; apply IH; lia].
Qed.

Lemma bisect_left_after xs x : strictly_inc xs -> forall i, (bisect_left xs x <= i < length xs)%nat -> x <= nth i xs 0.
Proof.
  induction xs as [|a r IH]; intros Hs i Hi; [simpl in Hi; lia|]. cbn [bisect_left] in Hi.
  assert (Hr : strictly_inc r) by (destruct r; [exact I | apply Hs]).
  destruct (Qc_ltb a x) eqn:E.
  - destruct i as [|i]; [lia|]. cbn [nth]. apply IH; [exact Hr | cbn [length] in Hi; lia].
  - apply Qc_ltb_false in E. destruct i as [|i]; [exact E|]. cbn [nth length] in *.
    apply Qcle_trans with a; [exact E|]. apply Qclt_le_weak. apply (strictly_inc_head_lt a r Hs). apply nth_In. lia.
Qed.

Lemma bisect_loop_correct xs x : strictly_inc xs -> forall fuel lo hi,
  (lo <= bisect_left xs x <= hi)%nat -> (hi <= length xs)%nat -> (hi - lo < fuel)%nat ->
  py_bisect_loop fuel xs x (Z.of_nat lo) (Z.of_nat hi) = Some (Z.of_nat (bisect_left xs x)).
Proof.
  intros Hs. induction fuel as [|f IH]; intros lo hi Hc Hh Hf; [lia|]. cbn [py_bisect_loop].
  destruct (Z.of_nat lo <? Z.of_nat hi)%Z eqn:E.
  - apply Z.ltb_lt in E.
    assert (M : ((Z.of_nat lo + Z.of_nat hi) / 2)%Z = Z.of_nat ((lo + hi) / 2)).
    { rewrite <- Nat2Z.inj_add. change 2%Z with (Z.of_nat 2). rewrite <- Nat2Z.inj_div. reflexivity. }
    rewrite M. set (mid := ((lo + hi) / 2)%nat).
    assert (Hm : (lo <= mid < hi)%nat).
    { unfold mid. split; [apply Nat.div_le_lower_bound; lia | apply Nat.div_lt_upper_bound; lia]. }
    rewrite (getitem_list xs 0 mid) by lia.
    destruct (Qc_ltb (nth mid xs 0) x) eqn:L.
    + apply Qc_ltb_lt in L.
      assert (mid < bisect_left xs x)%nat.
      { destruct (Nat.lt_ge_cases mid (bisect_left xs x)) as [H|H]; [exact H|]. exfalso.
        pose proof (bisect_left_after xs x Hs mid ltac:(lia)) as G. exact (Qclt_not_le _ _ L G). }
      replace (Z.of_nat mid + 1)%Z with (Z.of_nat (S mid)) by lia. apply IH; lia.
    + apply Qc_ltb_false in L.
      assert (bisect_left xs x <= mid)%nat.
      { destruct (Nat.lt_ge_cases mid (bisect_left xs x)) as [H|H]; [|exact H]. exfalso.
        pose proof (bisect_left_before xs x mid H) as G. exact (Qclt_not_le _ _ G L). }
      apply IH; lia.
  - apply Z.ltb_ge in E. f_equal. lia.
Qed.

Theorem py_bisect_left_is_model xs x : strictly_inc xs -> py_bisect_left xs x = Some (Z.of_nat (bisect_left xs x)).
Proof.
  intro Hs. unfold py_bisect_left. rewrite py_len_nat. change 0%Z with (Z.of_nat 0).
  apply bisect_loop_correct; [exact Hs | split; [lia | apply bisect_left_le] | lia | lia].
Qed.

Definition tc_pos (xs : list Qc) (x : Qc) : nat := let c := bisect_left xs x in if (c =? 0)%nat then 1%nat else c.

Lemma take_closest_pos xs x : take_closest xs x = [nth (tc_pos xs x - 1) xs 0; nth (tc_pos xs x) xs 0].
Proof. reflexivity. Qed.

Theorem gen_take_closest_is_model xs x : strictly_inc xs -> (tc_pos xs x < length xs)%nat ->
  DensityEstimation_take_closest xs x false
  = Some (take_closest xs x, [Z.of_nat (tc_pos xs x - 1); Z.of_nat (tc_pos xs x)]).
Proof.
  intros Hs Hp. unfold DensityEstimation_take_closest. rewrite (py_bisect_left_is_model xs x Hs). cbn [bindE].
  rewrite take_closest_pos. unfold tc_pos in *. set (c := bisect_left xs x) in *.
  destruct (c =? 0)%nat eqn:E.
  - apply Nat.eqb_eq in E. rewrite E. change (Z.of_nat 0) with 0%Z. rewrite Z.eqb_refl. cbn [bindF].
    assert (L : (1 =? py_len xs)%Z = false) by (apply Z.eqb_neq; rewrite py_len_nat; lia). rewrite L. cbn [bindF].
    assert (G0 : py_getitem xs (1 - 1)%Z = Some (nth 0 xs 0)) by (apply (py_getitem_at xs _ 0%nat 0); [reflexivity | lia]).
    assert (G1 : py_getitem xs 1%Z = Some (nth 1 xs 0)) by (apply (py_getitem_at xs _ 1%nat 0); [reflexivity | lia]).
    rewrite G0, G1. cbn [bindE andb bindF run_flow app Nat.sub]. reflexivity.
  - apply Nat.eqb_neq in E.
    assert (Z0 : (Z.of_nat c =? 0)%Z = false) by (apply Z.eqb_neq; lia). rewrite Z0. cbn [bindF].
    assert (L : (Z.of_nat c =? py_len xs)%Z = false) by (apply Z.eqb_neq; rewrite py_len_nat; lia). rewrite L. cbn [bindF].
    replace (Z.of_nat c - 1)%Z with (Z.of_nat (c - 1)) by lia.
    rewrite (getitem_list xs 0 (c - 1)), (getitem_list xs 0 c) by lia. cbn [bindE andb bindF run_flow app]. reflexivity.
Qed.

(* without room for a right neighbour the Python runs into `assert False` *)
Theorem gen_take_closest_raises xs x : strictly_inc xs -> tc_pos xs x = length xs ->
  DensityEstimation_take_closest xs x false = None.
Proof.
  intros Hs Hp. unfold DensityEstimation_take_closest. rewrite (py_bisect_left_is_model xs x Hs). cbn [bindE].
  unfold tc_pos in Hp. set (c := bisect_left xs x) in *.
  destruct (c =? 0)%nat eqn:E.
  - apply Nat.eqb_eq in E. rewrite E. change (Z.of_nat 0) with 0%Z. rewrite Z.eqb_refl. cbn [bindF].
    assert (L : (1 =? py_len xs)%Z = true) by (apply Z.eqb_eq; rewrite py_len_nat; lia). rewrite L. reflexivity.
  - apply Nat.eqb_neq in E.
    assert (Z0 : (Z.of_nat c =? 0)%Z = false) by (apply Z.eqb_neq; lia). rewrite Z0. cbn [bindF].
    assert (L : (Z.of_nat c =? py_len xs)%Z = true) by (apply Z.eqb_eq; rewrite py_len_nat; lia). rewrite L. reflexivity.
Qed.
