(* Right-hand side, certificate checker of the linear solve, normalisation step, uniform closed forms (d dims). *)
From Coq Require Import ZArith List QArith Qcanon Bool Lia Lqa.
From SG Require Import Base.QcUtil Base.PolyInt Model.Gram Proofs.GramHat Proofs.GramEntries Proofs.GramPD.
Import ListNotations.
Open Scope Qc_scope.

(* ------------------------------------------------------------------ verified checker of the solve certificate *)
Lemma forallb2_Qc_eqb_eq a b : forallb2 Qc_eqb a b = true -> a = b.
Proof.
  revert b; induction a as [|x a IH]; intros [|y b] H; simpl in H; try discriminate; [reflexivity|].
  apply andb_true_iff in H. destruct H as [H1 H2]. apply Qc_eqb_eq in H1. subst. f_equal. apply IH. exact H2.
Qed.

Theorem check_solution_sound G x b : check_solution G x b = true -> matvec G x = b.
Proof.
  unfold check_solution. intro H. apply andb_true_iff in H. destruct H as [_ H]. apply forallb2_Qc_eqb_eq. exact H.
Qed.

(* ------------------------------------------------------------------ right-hand side = signed sample mean of the hats *)
Fixpoint sum_signed (signs vals : list Qc) : Qc :=     (* sum_n s_n * v_n, s_n = 1 without labels *)
  match vals with
  | [] => 0
  | v :: vr => (match signs with [] => 1 | s :: _ => s end) * v + sum_signed (tl signs) vr
  end.

Lemma signed_sum_spec signs vals : signed_sum signs vals = sum_signed signs vals.
Proof.
  revert signs; induction vals as [|v vr IH]; intro signs; [reflexivity|].
  destruct signs as [|s sr]; cbn [signed_sum sum_signed tl]; rewrite IH; ring.
Qed.

Lemma hat_nd_cv_scalar t x : Forall proper t -> hat_nd hat_cv t x = hat_nd hat_scalar t x.
Proof.
  unfold hat_nd. revert x; induction t as [|td t IH]; intros x Hp; [reflexivity|].
  destruct x as [|xd x]; [reflexivity|]. inversion Hp as [|? ? H1 H2]; subst.
  cbn [map2 prodQ]. rewrite hat_cv_eq_scalar by exact H1. rewrite IH by exact H2. reflexivity.
Qed.

(* every component of the coded right-hand side is (1/M) * sum over the samples of sign * tensor hat value,
   the hat being the scalar hat function (= the piecewise polynomial of the Gram theorems) *)
Theorem rhs_is_sample_mean pts data signs : Forall (Forall proper) pts ->
  rhs pts data signs
  = map (fun t => sum_signed signs (map (hat_nd hat_scalar t) data) * (1 / qc_of_nat (length data))) pts.
Proof.
  intro Hp. unfold rhs. apply map_ext_in. intros t Ht. rewrite signed_sum_spec. f_equal. f_equal.
  apply map_ext. intro x. apply hat_nd_cv_scalar. rewrite Forall_forall in Hp. apply Hp. exact Ht.
Qed.

(* ------------------------------------------------------------------ normalisation *)
Lemma clip0_nonneg a : 0 <= clip0 a.
Proof. unfold clip0. rewrite Qc_max_comm. apply Qc_max_ge_l. Qed.

Lemma clip0_div a d : 0 < d -> clip0 (a / d) = clip0 a / d.
Proof.
  intro Hd. unfold clip0. destruct (Qcle_or_lt 0 a) as [H|H].
  - rewrite (Qc_max_l a 0 H). apply Qc_max_l. apply div_nonneg; assumption.
  - apply Qclt_le_weak in H. rewrite (Qc_max_r a 0 H). rewrite div_zero. apply Qc_max_r. apply div_nonpos; assumption.
Qed.

Lemma dotQ_map_div (f : Qc -> Qc) l w d : dotQ (map (fun x => f x / d) l) w = dotQ (map f l) w / d.
Proof.
  revert w; induction l as [|x l IH]; intro w; [unfold Qcdiv; simpl; ring|].
  destruct w as [|y w]; [unfold Qcdiv; simpl; ring|]. cbn [map dotQ]. rewrite IH. unfold Qcdiv. ring.
Qed.

Lemma dotQ_nonneg a w : Forall (fun x => 0 <= x) a -> Forall (fun x => 0 <= x) w -> 0 <= dotQ a w.
Proof.
  revert w; induction a as [|x a IH]; intros w Ha Hw; [apply Qcle_refl|].
  destruct w as [|y w]; [apply Qcle_refl|]. inversion Ha; inversion Hw; subst. cbn [dotQ].
  assert (P : 0 <= x * y).
  { replace 0 with (0 * y) by ring. apply Qcmult_le_compat_r; assumption. }
  pose proof (IH w ltac:(assumption) ltac:(assumption)) as Q. qc_order.
Qed.

Lemma Forall_clip0 l : Forall (fun x => 0 <= x) (map clip0 l).
Proof. induction l; constructor; [apply clip0_nonneg | assumption]. Qed.

(* the property clause: after the normalisation the weighted mean of the positive parts is one,
   whenever that mean (before dividing) is non-zero.  Weights: non-negative with positive sum. *)
Theorem normalise_mean_pos_is_one labelled w a :
  Forall (fun x => 0 <= x) w -> 0 < sumQ w ->
  snd (normalise_weighted labelled w a) <> 0 ->
  mean_pos w (fst (normalise_weighted labelled w a)) = 1.
Proof.
  intros Hw HW. unfold normalise_weighted. cbn [fst snd].
  set (a1 := if labelled then map (fun x => x - dotQ a w / sumQ w) a else a).
  set (I := dotQ (map clip0 a1) w / sumQ w). intro HI.
  assert (E : Qc_eqb I 0 = false) by (apply Qc_eqb_false; exact HI). rewrite E.
  assert (Ipos : 0 < I).
  { assert (P : 0 <= I) by (apply div_nonneg; [exact HW | apply dotQ_nonneg; [apply Forall_clip0 | exact Hw]]).
    apply Qcle_lt_or_eq in P. destruct P as [P|P]; [exact P | exfalso; apply HI; symmetry; exact P]. }
  unfold mean_pos. rewrite map_map.
  rewrite (map_ext (fun x => clip0 (x / I)) (fun x => clip0 x / I)) by (intro x; apply clip0_div; exact Ipos).
  rewrite dotQ_map_div. fold I.
  assert (D : dotQ (map clip0 a1) w = I * sumQ w).
  { unfold I. field. apply Qc_pos_nz. exact HW. }
  rewrite D. field. split; [exact HI | apply Qc_pos_nz; exact HW].
Qed.

(* the uniform path (plain means) is the weighted path with unit weights *)
Lemma qc_of_nat_S n : qc_of_nat (S n) = 1 + qc_of_nat n.
Proof.
  unfold qc_of_nat. rewrite Nat2Z.inj_succ. unfold Z.succ. rewrite qc_of_Z_add, qc_of_Z_1. ring.
Qed.
Lemma sumQ_ones {A} (l : list A) : sumQ (map (fun _ => 1) l) = qc_of_nat (length l).
Proof. induction l as [|x l IH]; [apply Qc_is_canon; reflexivity|]. cbn [map sumQ length]. rewrite IH, qc_of_nat_S. reflexivity. Qed.
Lemma dotQ_ones a : dotQ a (map (fun _ => 1) a) = sumQ a.
Proof. induction a as [|x a IH]; [reflexivity|]. cbn [map dotQ sumQ]. rewrite IH. ring. Qed.
Lemma dotQ_ones_map (f : Qc -> Qc) a : dotQ (map f a) (map (fun _ => 1) a) = sumQ (map f a).
Proof. induction a as [|x a IH]; [reflexivity|]. cbn [map dotQ sumQ]. rewrite IH. ring. Qed.

Theorem normalise_uniform_is_weighted labelled a :
  normalise_uniform labelled a = normalise_weighted labelled (map (fun _ => 1) a) a.
Proof.
  unfold normalise_uniform, normalise_weighted. rewrite sumQ_ones, dotQ_ones.
  destruct labelled.
  - set (m := sumQ a / qc_of_nat (length a)).
    assert (L : dotQ (map clip0 (map (fun x => x - m) a)) (map (fun _ : Qc => 1) a)
                = sumQ (map clip0 (map (fun x => x - m) a))).
    { rewrite !map_map. apply dotQ_ones_map. }
    rewrite L. reflexivity.
  - rewrite dotQ_ones_map. reflexivity.
Qed.

Corollary normalise_uniform_mean_pos_is_one labelled a : a <> [] ->
  snd (normalise_uniform labelled a) <> 0 ->
  mean_pos (map (fun _ => 1) a) (fst (normalise_uniform labelled a)) = 1.
Proof.
  intros Hne. rewrite normalise_uniform_is_weighted. apply normalise_mean_pos_is_one.
  - clear. induction a as [|x a IH]; [constructor|]. cbn [map]. constructor; [qc_order | exact IH].
  - rewrite sumQ_ones. destruct a as [|x a]; [contradiction|]. cbn [length]. rewrite qc_of_nat_S.
    assert (P : 0 <= qc_of_nat (length a)).
    { unfold qc_of_nat, qc_of_Z, Qcle. cbn [this Q2Qc]. rewrite !Qred_correct. unfold Qle, inject_Z. cbn [Qnum Qden]. lia. }
    qc_order.
Qed.

(* ------------------------------------------------------------------ uniform grids, d dimensions *)
Fixpoint Uspec (lv iv jv : list Z) : Qc :=
  match lv, iv, jv with
  | l :: lv', i :: iv', j :: jv' =>
      (if (i =? j)%Z then diag1 l else if (Z.abs (i - j) <=? 1)%Z then off1 l else 0) * Uspec lv' iv' jv'
  | _, _, _ => 1
  end.

Lemma Uval_from_spec res lv iv jv : Uval_from res lv iv jv = res * Uspec lv iv jv.
Proof.
  revert res iv jv; induction lv as [|l lv IH]; intros res iv jv; [simpl; ring|].
  destruct iv as [|i iv]; [simpl; ring|]. destruct jv as [|j jv]; [simpl; ring|].
  cbn [Uval_from Uspec]. rewrite U1_cases.
  destruct (i =? j)%Z; [rewrite IH; ring|]. destruct (Z.abs (i - j) <=? 1)%Z; [rewrite IH; ring | ring].
Qed.

(* build_R_matrix entries: product over the dimensions of 1/(2^(l-1) 3) (same index), 1/(2^(l-1) 12) (neighbours),
   zero as soon as two indices differ by more than one *)
Theorem gram_uniform_entry lv iv jv : Uval lv iv jv = Uspec lv iv jv.
Proof. unfold Uval. rewrite Uval_from_spec. ring. Qed.

Lemma Uspec_diag lv iv : length iv = length lv -> Uspec lv iv iv = diag_val lv.
Proof.
  revert iv; induction lv as [|l lv IH]; intros [|i iv] H; try discriminate; [reflexivity|].
  cbn [Uspec]. rewrite Z.eqb_refl. unfold diag_val in *. cbn [map prodQ]. rewrite IH by (simpl in H; lia). reflexivity.
Qed.

(* mass lumping on uniform grids returns the diagonal entry of the full matrix (without lambda) *)
Theorem lumped_uniform_is_diagonal lv iv : length iv = length lv -> diag_val lv = Uval lv iv iv.
Proof. intro H. rewrite gram_uniform_entry, Uspec_diag by exact H. reflexivity. Qed.

Lemma sym_matrix_d_length {A} (e : A -> A -> Qc) dg pts : length (sym_matrix_d e dg pts) = length pts.
Proof.
  induction pts as [|t ts IH]; simpl; [reflexivity|]. f_equal.
  rewrite map2_length; rewrite map_length; [reflexivity | exact IH].
Qed.

Theorem sym_matrix_d_symmetric {A} (e : A -> A -> Qc) dg pts : symmetricM (length pts) (sym_matrix_d e dg pts).
Proof.
  induction pts as [|t ts IH]; [exact I|]. cbn [length symmetricM sym_matrix_d tl].
  rewrite col0_map2_cons by (rewrite sym_matrix_d_length, map_length; reflexivity).
  rewrite tails_map2_cons by (rewrite sym_matrix_d_length, map_length; reflexivity).
  split; [reflexivity | exact IH].
Qed.

(* the entry function itself is symmetric, so mirroring the upper triangle is no approximation *)
Theorem Uspec_sym lv iv jv : Uspec lv iv jv = Uspec lv jv iv.
Proof.
  revert iv jv; induction lv as [|l lv IH]; intros [|i iv] [|j jv]; try reflexivity.
  cbn [Uspec]. rewrite (IH iv jv). rewrite (Z.eqb_sym j i).
  replace (Z.abs (j - i)) with (Z.abs (i - j)) by lia. reflexivity.
Qed.
