(* C17: the source-derived fragment post_processing (coq/Gen/DensityReuseGen.v) against Model/DEReuse.v. *)
From Coq Require Import ZArith List QArith Qcanon Bool Arith Lia.
From SG Require Import Base.QcUtil Base.PyLib Base.PyNum Base.PyC17 Model.Gram Model.DEReuse Gen.DensityReuseGen
  Proofs.PyLibFacts Proofs.PyNumFacts Proofs.SchemeBasics Proofs.GenDensityReuseEq.
Import ListNotations.
Local Arguments Z.add : simpl never.
Local Arguments Z.sub : simpl never.
Local Arguments Z.of_nat : simpl never.

(* ------------------------------------------------------------------ association lists with distinct keys *)
Lemma tup_eqb_eq a b : tup_eqb a b = true <-> a = b.
Proof. rewrite tup_eqb_lv_eqb. apply lv_eqb_eq. Qed.
Lemma tup_eqb_neq a b : tup_eqb a b = false <-> a <> b.
Proof. rewrite tup_eqb_lv_eqb. apply lv_eqb_neq. Qed.

Lemma dict_get_skip {V} (pre suf : list (tup * V)) k : ~ In k (map fst pre) -> py_dict_get (pre ++ suf) k = py_dict_get suf k.
Proof.
  induction pre as [|[k' v'] pre IH]; intro H; [reflexivity|]. cbn [app py_dict_get].
  assert (E : tup_eqb k k' = false) by (apply tup_eqb_neq; intro Z; apply H; left; symmetry; exact Z).
  rewrite E. apply IH. intro Z. apply H. right. exact Z.
Qed.

Lemma dict_set_fresh {V} (pre : list (tup * V)) k v : ~ In k (map fst pre) -> py_dict_set pre k v = pre ++ [(k, v)].
Proof.
  induction pre as [|[k' v'] pre IH]; intro H; [reflexivity|]. cbn [py_dict_set app].
  assert (E : tup_eqb k k' = false) by (apply tup_eqb_neq; intro Z; apply H; left; symmetry; exact Z).
  rewrite E. f_equal. apply IH. intro Z. apply H. right. exact Z.
Qed.

(* `for key in D.keys(): C[key] = list(D[key])` into an empty C rebuilds D *)
Lemma copy_loop {V R} (l : list (tup * V)) : NoDup (map fst l) -> forall pre suf, l = pre ++ suf ->
  py_for suf (fun '(key, _) (acc : list (tup * V)) => bindE (py_dict_get l key) (fun v => @Nxt _ R (py_dict_set acc key v))) pre = Nxt l.
Proof.
  intros Hnd pre suf. revert pre. induction suf as [|[k v] suf IH]; intros pre E.
  - rewrite app_nil_r in E. subst. reflexivity.
  - cbn [py_for]. subst l. rewrite map_app in Hnd. cbn [map fst] in Hnd.
    assert (Hk : ~ In k (map fst pre)).
    { intro Z. apply NoDup_remove_2 in Hnd. apply Hnd. apply in_or_app. left. exact Z. }
    rewrite dict_get_skip by exact Hk. cbn [py_dict_get]. assert (T : tup_eqb k k = true) by (apply tup_eqb_eq; reflexivity).
    rewrite T. cbn [bindE]. rewrite dict_set_fresh by exact Hk.
    apply (IH (pre ++ [(k, v)])). rewrite <- app_assoc. reflexivity.
Qed.

Lemma bindF_Nxt_eq {V W R} (f : flow V R) v (k : V -> flow W R) : f = Nxt v -> bindF f k = k v.
Proof. intro E. rewrite E. reflexivity. Qed.

(* ------------------------------------------------------------------ c17_post_processing *)
Definition dict_B (d : bdict) : list (tup * list Qc) := map (fun e => (fst e, snd (snd e))) d.
Definition dict_G (d : bdict) : list (tup * list (list Qc)) := map (fun e => (fst e, fst (snd e))) d.

Theorem gen_post_processing (st : bstate) : NoDup (map fst (newB st)) ->
  DensityEstimation_c17_post_processing (dict_B (newB st)) (dict_G (newB st))
  = Some (dict_B (oldB (post st)), dict_G (oldB (post st))) /\ newB (post st) = [].
Proof.
  intro Hnd. split; [|reflexivity]. unfold DensityEstimation_c17_post_processing, post. cbn [oldB]. cbv zeta.
  assert (NB : NoDup (map fst (dict_B (newB st)))) by (unfold dict_B; rewrite map_map; exact Hnd).
  assert (NG : NoDup (map fst (dict_G (newB st)))) by (unfold dict_G; rewrite map_map; exact Hnd).
  pose proof (@copy_loop (list Qc) (list (tup * list Qc) * list (tup * list (list Qc))) (dict_B (newB st)) NB [] (dict_B (newB st)) eq_refl) as LB.
  pose proof (@copy_loop (list (list Qc)) (list (tup * list Qc) * list (tup * list (list Qc))) (dict_G (newB st)) NG [] (dict_G (newB st)) eq_refl) as LG.
  unfold tup in *.
  match goal with |- context [py_for (dict_B (newB st)) ?f []] =>
    assert (E1 : py_for (dict_B (newB st)) f [] = Nxt (dict_B (newB st)))
      by (etransitivity; [|exact LB]; apply py_for_ext; intros [k v] w _; reflexivity) end.
  erewrite bindF_Nxt_eq; [|exact E1].
  match goal with |- context [py_for (dict_G (newB st)) ?f []] =>
    assert (E2 : py_for (dict_G (newB st)) f [] = Nxt (dict_G (newB st)))
      by (etransitivity; [|exact LG]; apply py_for_ext; intros [k v] w _; reflexivity) end.
  erewrite bindF_Nxt_eq; [|exact E2]. reflexivity.
Qed.

