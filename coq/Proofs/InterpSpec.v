(* C03: the interpolation model pinned to its mathematical definition, for EVERY grid.
   interp1 (Model/StdCombi.v, the 1D building block of interpN and hence of Model/DimWiseInterp.v) IS the piecewise-linear
   interpolant: on every cell [u, v] of a strictly sorted grid it is the chord through (u, g u), (v, g v).  Together with
   interpN_appT (Proofs/StdNodal.v: interpN = tensor product of the 1D functionals, for all grids) the component interpolant of the
   dimension-wise strategy is the tensor product of the 1D piecewise-linear interpolants on its stripes - the function
   C03_nodal_exact speaks about and the harness compares with sa(points). *)
From Coq Require Import ZArith List Bool QArith Qcanon Sorted Lia.
From SG Require Import Base.QcUtil Model.CombiScheme Model.RefTree Model.StdCombi Model.DimWise Model.DimWiseInterp
     Proofs.CombiAbstract Proofs.NodalExact Proofs.StdNodal Proofs.DimWiseCombi Proofs.DimWiseNodal.
Import ListNotations.

Lemma sorted_head_le (p : Qc) r u : StronglySorted Qclt (p :: r) -> In u r -> (p < u)%Qc.
Proof. intros H Hin. inversion H as [|? ? _ HF]; subst. rewrite Forall_forall in HF. apply HF. exact Hin. Qed.

Theorem interp1_piecewise_linear g : forall pre u v post x,
  StronglySorted Qclt (pre ++ u :: v :: post) -> (u <= x)%Qc -> (x <= v)%Qc ->
  interp1 (pre ++ u :: v :: post) g x = (g u + (x - u) / (v - u) * (g v - g u))%Qc.
Proof.
  induction pre as [|p pre IH]; intros u v post x HS Hux Hxv.
  - cbn [app interp1]. assert (E : Qc_leb x v = true) by (apply Qc_leb_le; exact Hxv). rewrite E. reflexivity.
  - cbn [app] in *.
    assert (HS' : StronglySorted Qclt (pre ++ u :: v :: post)) by (inversion HS; assumption).
    assert (Hpu : (p < u)%Qc) by (apply (sorted_head_le p _ u HS); apply in_or_app; right; left; reflexivity).
    destruct pre as [|q pre'].
    + cbn [app] in *. cbn [interp1]. destruct (Qc_leb x u) eqn:E.
      * apply Qc_leb_le in E. assert (x = u) by (apply Qcle_antisym; assumption). subst x.
        assert (Hne : (u - p)%Qc <> 0%Qc) by (intro Z; apply (Qclt_not_eq _ _ Hpu); symmetry; qc_order).
        assert (Hne2 : (v - u)%Qc <> 0%Qc).
        { assert (u < v)%Qc by (inversion HS' as [|? ? _ HF]; subst; inversion HF; assumption). intro Z. apply (Qclt_not_eq _ _ H). symmetry. qc_order. }
        field. split; assumption.
      * change (interp1 (u :: v :: post) g x = (g u + (x - u) / (v - u) * (g v - g u))%Qc).
        apply (IH u v post x HS' Hux Hxv).
    + cbn [app] in *. cbn [interp1].
      assert (Hqu : (q < u)%Qc) by (apply (sorted_head_le q _ u HS'); apply in_or_app; right; left; reflexivity).
      destruct (Qc_leb x q) eqn:E.
      * apply Qc_leb_le in E. exfalso. apply (Qclt_not_le _ _ Hqu). eapply Qcle_trans; eassumption.
      * apply (IH u v post x HS' Hux Hxv).
Qed.

(* the component interpolant of the dimension-wise strategy = tensor product of the 1D piecewise-linear interpolation
   functionals on the stripes of the component (every state, every component, every function, every point) *)
Theorem dw_comp_interp_is_tensor o st a b lv f x : length x = length lv ->
  dw_comp_interp o st a b lv f x = appT Qc (zipE Qc (dw_Efam o st 0 x) lv) (masked (o_boundary o) a b f).
Proof. apply dw_comp_interp_appT. Qed.

(* in one dimension, spelled out: on the cell [u, v] of the stripe the component interpolant is the chord *)
Theorem dw_comp_interp_1d_chord o st a b l f pre u v post x :
  dw_stripe_coords o st 0 l = pre ++ u :: v :: post -> StronglySorted Qclt (pre ++ u :: v :: post) ->
  (u <= x)%Qc -> (x <= v)%Qc ->
  dw_comp_interp o st a b [l] f [x]
  = (masked (o_boundary o) a b f [u] + (x - u) / (v - u) * (masked (o_boundary o) a b f [v] - masked (o_boundary o) a b f [u]))%Qc.
Proof.
  intros E HS Hu Hv. unfold dw_comp_interp, dw_grids. cbn [length seq combine map fst snd interpN]. rewrite E.
  apply interp1_piecewise_linear; assumption.
Qed.
