(* C06: the well-formedness predicate in the words of the property (WF), implied by the structural invariant
   (TreeInv_WF) and decided by the executable checker (tree_ok_sound). *)
From Coq Require Import ZArith List Bool QArith Qcanon Arith Lia.
From SG Require Import Base.QcUtil Model.RefTree Proofs.RefTreeInv.
Import ListNotations.
Open Scope Z_scope.
Local Arguments Z.add : simpl never.
Local Arguments Z.sub : simpl never.
Local Arguments Z.max : simpl never.
Local Arguments Z.ltb : simpl never.

(* binary-tree level condition on the list of point levels: at every inner point, of the nearest lower-level points
   to the left and to the right, the higher level is exactly one less than the point's level *)
Definition tree_cond (L : list Z) : Prop :=
  forall pre v post, L = pre ++ v :: post -> pre <> [] -> post <> [] ->
    exists x y, first_lower v (rev pre) = Some x /\ first_lower v post = Some y /\ Z.max x y = v - 1.

(* Chain a 0 t b 0: the intervals tile [a,b] in ascending order without gaps or overlaps, adjacent intervals agree on
   the level of their shared point, both end points have level 0 *)
Definition WF (a b : Qc) (lmax_d : Z) (t : list ival) : Prop :=
  t <> [] /\ Chain a 0 t b 0 /\ tree_cond (point_levels t) /\
  Forall (fun iv => i_coarse iv = lmax_d - ival_maxlev iv /\ 0 <= i_coarse iv /\ ival_maxlev iv <= lmax_d) t.

(* ---------------------------------------------------------------------------------------------- *)
Lemma first_lower_skip v l r : Forall (fun x => v <= x) l -> first_lower v (l ++ r) = first_lower v r.
Proof.
  induction 1 as [|x l Hx Hl IH]; simpl; [reflexivity|].
  assert (E : (x <? v) = false) by (apply Z.ltb_ge; assumption). rewrite E. assumption.
Qed.

Lemma first_lower_app_some v l r x : first_lower v l = Some x -> first_lower v (l ++ r) = Some x.
Proof.
  unfold first_lower. induction l as [|y l IH]; simpl; [discriminate|].
  destruct (y <? v); [auto | assumption].
Qed.

Lemma app_elt_split {A} (pre : list A) v post : forall I1 m I2,
  pre ++ v :: post = I1 ++ m :: I2 ->
  (exists q, I1 = pre ++ v :: q /\ post = q ++ m :: I2) \/
  (pre = I1 /\ v = m /\ post = I2) \/
  (exists q, pre = I1 ++ m :: q /\ I2 = q ++ v :: post).
Proof.
  induction pre as [|p pre IH]; intros [|i I1] m I2 H; simpl in H.
  - injection H as -> ->. right. left. repeat split.
  - injection H as -> ->. left. exists I1. split; reflexivity.
  - injection H as -> <-. right. right. exists pre. split; reflexivity.
  - injection H as -> H. destruct (IH _ _ _ H) as [(q & -> & ->)|[(-> & -> & ->)|(q & -> & ->)]].
    + left. exists q. split; reflexivity.
    + right. left. repeat split.
    + right. right. exists q. split; reflexivity.
Qed.

Definition inner (T : list ival) : list Z := removelast (map i_l1 T).

Lemma Chain_last_l1 x u T y w : T <> [] -> Chain x u T y w -> map i_l1 T = inner T ++ [w].
Proof.
  revert x u. induction T as [|iv T IH]; intros x u Hne H; [contradiction|].
  simpl in H. destruct H as (_ & _ & _ & H).
  destruct T as [|iv2 T].
  - simpl in H. destruct H as [_ H]. unfold inner. simpl. rewrite H. reflexivity.
  - unfold inner. cbn [map]. cbn [map] in IH.
    change (removelast (i_l1 iv :: i_l1 iv2 :: map i_l1 T)) with (i_l1 iv :: removelast (i_l1 iv2 :: map i_l1 T)).
    cbn [app]. f_equal. apply (IH _ _ ltac:(discriminate) H).
Qed.

Lemma inner_app T1 T2 m : T2 <> [] -> map i_l1 T1 = inner T1 ++ [m] -> inner (T1 ++ T2) = inner T1 ++ m :: inner T2.
Proof.
  intros Hne H. unfold inner at 1. rewrite map_app, removelast_app by (destruct T2; [contradiction | discriminate]).
  rewrite H, <- app_assoc. reflexivity.
Qed.

Lemma Seg_inner x y u w T : Seg x y u w T ->
  Forall (fun v => Z.max u w < v) (inner T) /\
  forall pre v post, inner T = pre ++ v :: post ->
    exists a b, first_lower v (rev pre ++ [u]) = Some a /\ first_lower v (post ++ [w]) = Some b /\ Z.max a b = v - 1.
Proof.
  induction 1 as [x y u w c H|x y z u w T1 T2 H1 IH1 H2 IH2].
  - split; [constructor|]. intros [|p pre] v post E; discriminate.
  - destruct IH1 as [F1 G1]. destruct IH2 as [F2 G2].
    set (m := Z.max u w + 1) in *.
    assert (E : inner (T1 ++ T2) = inner T1 ++ m :: inner T2).
    { apply inner_app; [eapply Seg_nonempty; eassumption|].
      eapply Chain_last_l1; [eapply Seg_nonempty; eassumption | apply Seg_Chain; eassumption]. }
    rewrite E. split.
    + apply Forall_app. split; [|constructor].
      * eapply Forall_impl; [|exact F1]. intros v Hv. cbv beta in Hv. lia.
      * lia.
      * eapply Forall_impl; [|exact F2]. intros v Hv. cbv beta in Hv. lia.
    + intros pre v post Hd.
      destruct (app_elt_split _ _ _ _ _ _ (eq_sym Hd)) as [(q & Hq1 & ->)|[(-> & -> & ->)|(q & -> & Hq2)]].
      * destruct (G1 _ _ _ Hq1) as (a & b & A & B & C). exists a, b. split; [assumption|]. split; [|assumption].
        replace ((q ++ m :: inner T2) ++ [w]) with ((q ++ [m]) ++ inner T2 ++ [w]) by (rewrite <- !app_assoc; reflexivity).
        apply first_lower_app_some. assumption.
      * exists u, w. split; [|split].
        -- rewrite first_lower_skip.
           ++ unfold first_lower. simpl. assert (Hlt : (u <? m) = true) by (apply Z.ltb_lt; lia). rewrite Hlt. reflexivity.
           ++ apply Forall_rev. eapply Forall_impl; [|exact F1]. intros v Hv. cbv beta in Hv. lia.
        -- rewrite first_lower_skip.
           ++ unfold first_lower. simpl. assert (Hlt : (w <? m) = true) by (apply Z.ltb_lt; lia). rewrite Hlt. reflexivity.
           ++ eapply Forall_impl; [|exact F2]. intros v Hv. cbv beta in Hv. lia.
        -- lia.
      * destruct (G2 _ _ _ Hq2) as (a & b & A & B & C). exists a, b. split; [|split; assumption].
        rewrite rev_app_distr. cbn [rev]. rewrite <- !app_assoc. cbn [app].
        replace (rev q ++ m :: rev (inner T1) ++ [u]) with ((rev q ++ [m]) ++ rev (inner T1) ++ [u])
          by (rewrite <- !app_assoc; reflexivity).
        apply first_lower_app_some. assumption.
Qed.

Lemma Seg_point_levels x y u w T : Seg x y u w T -> point_levels T = u :: inner T ++ [w].
Proof.
  intro H. pose proof (Seg_nonempty _ _ _ _ _ H) as Hne. pose proof (Seg_Chain _ _ _ _ _ H) as HC.
  destruct T as [|iv T]; [contradiction|]. unfold point_levels.
  rewrite (Chain_last_l1 _ _ _ _ _ Hne HC). simpl in HC. destruct HC as (_ & -> & _). reflexivity.
Qed.

Theorem Seg_tree_cond x y T : Seg x y 0 0 T -> tree_cond (point_levels T).
Proof.
  intro H. rewrite (Seg_point_levels _ _ _ _ _ H).
  destruct (Seg_inner _ _ _ _ _ H) as [_ G].
  intros pre v post E Hpre Hpost.
  destruct pre as [|p pre]; [contradiction|]. simpl in E. injection E as Ep E. subst p.
  destruct (exists_last Hpost) as (post' & wl & ->).
  rewrite app_comm_cons, app_assoc in E. apply app_inj_tail in E. destruct E as [E Ew]. subst wl.
  destruct (G _ _ _ E) as (a & b & A & B & C).
  exists a, b. simpl. split; [assumption | split; assumption].
Qed.

Theorem TreeInv_WF a b lmax_d t : TreeInv a b lmax_d t -> WF a b lmax_d t.
Proof.
  intros [HS HC]. split; [eapply Seg_nonempty; eassumption|].
  split; [apply Seg_Chain; assumption|]. split; [eapply Seg_tree_cond; eassumption|].
  eapply Forall_impl; [|exact HC]. intros iv [A B]. split; [assumption|]. split; [assumption | lia].
Qed.

(* ---------------------------------------------------------------------------------------------- *)
(* soundness of the executable checker *)
Lemma last_cons_indep {A} (l : list A) : forall x d1 d2, last (x :: l) d1 = last (x :: l) d2.
Proof. induction l as [|y l IH]; intros x d1 d2; [reflexivity|]. change (last (y :: l) d1 = last (y :: l) d2). apply IH. Qed.

Lemma chain_ok_Chain t : forall x l, chain_ok x l t = true ->
  Chain x l t (match t with [] => x | iv :: _ => i_end (last t iv) end) (match t with [] => l | iv :: _ => i_l1 (last t iv) end).
Proof.
  induction t as [|iv t IH]; intros x l H; simpl in *; [split; reflexivity|].
  apply andb_prop in H. destruct H as [H H4]. apply andb_prop in H. destruct H as [H H3].
  apply andb_prop in H. destruct H as [H1 H2].
  apply Qc_eqb_eq in H1. apply Z.eqb_eq in H2. apply Qc_ltb_lt in H3.
  split; [assumption|]. split; [assumption|]. split; [assumption|].
  specialize (IH _ _ H4). destruct t as [|iv2 t]; [exact IH|].
  rewrite (last_cons_indep t iv2 iv iv2). exact IH.
Qed.

Lemma tree_levels_ok_sound rest : forall br, tree_levels_ok br rest = true ->
  forall pre v post, rest = pre ++ v :: post -> br ++ pre <> [] -> post <> [] ->
    exists x y, first_lower v (rev pre ++ br) = Some x /\ first_lower v post = Some y /\ Z.max x y = v - 1.
Proof.
  induction rest as [|v0 rest IH]; intros br H pre v post E Hpre Hpost; [destruct pre; discriminate|].
  destruct rest as [|v1 rest].
  - destruct pre as [|p [|p' pre]]; simpl in E; try discriminate. injection E as _ <-. contradiction.
  - cbn [tree_levels_ok] in H.
    destruct pre as [|p pre].
    + simpl in E. injection E as <- <-. rewrite app_nil_r in Hpre.
      destruct br as [|b0 br]; [contradiction|].
      destruct (first_lower v0 (b0 :: br)) as [x|] eqn:E1; [|discriminate].
      destruct (first_lower v0 (v1 :: rest)) as [y|] eqn:E2; [|discriminate].
      apply andb_prop in H. destruct H as [H _]. apply Z.eqb_eq in H.
      exists x, y. simpl. split; [assumption | split; [reflexivity | assumption]].
    + simpl in E. injection E as <- E.
      assert (H' : tree_levels_ok (v0 :: br) (v1 :: rest) = true).
      { destruct br as [|b0 br]; [exact H|].
        destruct (first_lower v0 (b0 :: br)); [|discriminate].
        destruct (first_lower v0 (v1 :: rest)); [|discriminate].
        apply andb_prop in H. destruct H as [_ H]. exact H. }
      destruct (IH _ H' pre v post E) as (x & y & A & B & C); [discriminate | assumption|].
      exists x, y. split; [|split; assumption].
      simpl. rewrite <- app_assoc. simpl. assumption.
Qed.

Theorem tree_ok_sound a b lmax_d t : tree_ok a b lmax_d t = true -> WF a b lmax_d t.
Proof.
  unfold tree_ok. destruct t as [|iv t]; [discriminate|]. intro H.
  apply andb_prop in H. destruct H as [H H5]. apply andb_prop in H. destruct H as [H H4].
  apply andb_prop in H. destruct H as [H H3]. apply andb_prop in H. destruct H as [H1 H2].
  apply Qc_eqb_eq in H2. apply Z.eqb_eq in H3.
  split; [discriminate|]. split.
  - pose proof (chain_ok_Chain _ _ _ H1) as HC. cbv iota in HC. rewrite H2, H3 in HC. exact HC.
  - split.
    + intros pre v post E Hpre Hpost.
      destruct (tree_levels_ok_sound _ _ H4 pre v post E) as (x & y & A & B & C); [assumption | assumption|].
      rewrite app_nil_r in A. exists x, y. split; [assumption | split; assumption].
    + rewrite forallb_forall in H5. apply Forall_forall. intros iv' Hin. specialize (H5 _ Hin).
      apply andb_prop in H5. destruct H5 as [A B]. apply Z.eqb_eq in A. apply Z.leb_le in B.
      split; [assumption|]. split; [assumption | lia].
Qed.
