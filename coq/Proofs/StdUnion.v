(* C02: the union of the component grids EQUALS the sparse grid of the index set (both inclusions), explicit form for the
   closed-form scheme of StandardCombi (every dimension, every 0 <= lmin <= lmax), the diagonal form (only the finest
   level vectors are needed), and the NUMBER OF DISTINCT POINTS of the combination (what get_total_num_points reports for
   nested grids) = sum_l c_l * prod_d N(l_d).  New file (C02 deepening). *)
From Coq Require Import ZArith List Bool QArith Qcanon Lia Permutation Sorted.
From SG Require Import Base.QcUtil Model.CombiScheme Model.StdCombi Proofs.SchemeBasics Proofs.SchemeIE Proofs.SchemeInv
  Proofs.SchemeStd Proofs.CombiAbstract Proofs.StdGrid Proofs.StdCombiSum Proofs.NodalExact Proofs.StdNodal
  Proofs.SchemeClosedForm Proofs.StdHier Proofs.StdHierGeneral.
Import ListNotations.
Local Open Scope Z_scope.

Local Arguments Z.add : simpl never.
Local Arguments Z.mul : simpl never.

(* x lies in some component grid of the scheme / in some grid of the index set *)
Definition in_union (bd : bool) (a b : list Qc) (cs : list (lv * Z)) (x : list Qc) : Prop :=
  exists l c, In (l, c) cs /\ in_comp bd a b x l = true.
Definition in_sparse_grid (bd : bool) (a b : list Qc) (idx : list lv) (x : list Qc) : Prop :=
  exists k, In k idx /\ in_comp bd a b x k = true.

(* adaptive scheme, every reachable state *)
Theorem adaptive_union_equals_sparse_grid bd a b s x : Inv s -> 0 <= s_lmin s ->
  (in_union bd a b (combi_scheme_adaptive s) x <-> in_sparse_grid bd a b (index_set s) x).
Proof.
  intros HI Hl. split.
  - intros [l [c [Hin Hx]]]. exists l. split; [|exact Hx]. apply (scheme_support s l c HI Hin).
  - intros [k [Hk Hx]]. destruct (adaptive_union_contains_sparse_grid bd a b s x k HI Hl Hk Hx) as [l [c [H1 [_ H2]]]].
    exists l, c. split; assumption.
Qed.

Lemma in_union_perm bd a b cs cs' x : Permutation cs cs' -> in_union bd a b cs x -> in_union bd a b cs' x.
Proof. intros Hp [l [c [Hin Hx]]]. exists l, c. split; [apply (Permutation_in _ Hp Hin)|exact Hx]. Qed.

(* closed-form scheme of StandardCombi: the sparse grid is explicit *)
Theorem std_union_equals_sparse_grid bd a b n lmin lmax x : 0 <= lmin <= lmax ->
  (in_union bd a b (combi_scheme_standard (S n) lmin lmax) x <->
   exists k, length k = S n /\ Forall (fun v => lmin <= v) k /\ sumZ k <= lmax - lmin + Z.of_nat (S n) * lmin /\
             in_comp bd a b x k = true).
Proof.
  intro H. destruct (std_state_general n lmin lmax H) as [s [HI [Hl [Ed [Em [Hs Hp]]]]]]. split.
  - intro Hu. apply (in_union_perm _ _ _ _ _ _ Hp) in Hu.
    apply (adaptive_union_equals_sparse_grid bd a b s x HI Hl) in Hu. destruct Hu as [k [Hk Hx]].
    apply (init_index_set_spec n lmin lmax s k H Hs) in Hk. destruct Hk as [L [F S']].
    exists k. repeat split; assumption.
  - intros [k [L [F [S' Hx]]]]. apply (in_union_perm _ _ _ _ _ _ (Permutation_sym Hp)).
    apply (adaptive_union_equals_sparse_grid bd a b s x HI Hl). exists k. split; [|exact Hx].
    apply (init_index_set_spec n lmin lmax s k H Hs). repeat split; assumption.
Qed.

(* the diagonal suffices: every point of the sparse grid lies in a grid with |k|_1 exactly lmax - lmin + d * lmin
   (raise the first level; the grids are nested) - this is the form the property statement / the harness oracle uses *)
Theorem std_union_is_diagonal_union bd a b n lmin lmax x : 0 <= lmin <= lmax ->
  (in_union bd a b (combi_scheme_standard (S n) lmin lmax) x <->
   exists k, length k = S n /\ Forall (fun v => lmin <= v) k /\ sumZ k = lmax - lmin + Z.of_nat (S n) * lmin /\
             in_comp bd a b x k = true).
Proof.
  intro H. rewrite (std_union_equals_sparse_grid bd a b n lmin lmax x H). split.
  - intros [k [L [F [S' Hx]]]]. destruct k as [|k0 k]; [discriminate|].
    set (dlt := lmax - lmin + Z.of_nat (S n) * lmin - sumZ (k0 :: k)).
    exists ((k0 + dlt) :: k). inversion F as [|? ? F0 F']; subst.
    change (sumZ (k0 :: k)) with (k0 + sumZ k) in *.
    split; [exact L|]. split; [constructor; [lia|exact F']|]. split.
    + change (sumZ ((k0 + dlt) :: k)) with (k0 + dlt + sumZ k). unfold dlt. lia.
    + unfold in_comp in *.
      apply (in_grid_mono Qc Qc_eqb Qc_eqb_eq (Pab bd a b) lmin (Pab_nested bd a b lmin (proj1 H)) x 0%nat (k0 :: k)); [exact Hx|].
      constructor; [unfold dlt; lia|].
      clear - F'. induction F' as [|v k Hv F' IH]; constructor; [lia|exact IH].
  - intros [k [L [F [S' Hx]]]]. exists k. repeat split; try assumption. lia.
Qed.

(* ================= number of distinct points ================= *)
Definition prodZ (l : list Z) : Z := fold_right Z.mul 1 l.
(* get_num_points_component_grid = np.prod(levelToNumPoints(levelvector)) *)
Definition comp_total_points (bd : bool) (l : lv) : Z := prodZ (comp_num_points bd l).
(* sum_l c_l * (number of points of grid l) *)
Definition combi_total_points (bd : bool) (cs : list (lv * Z)) : Z :=
  sumZ (map (fun kv => snd kv * comp_total_points bd (fst kv)) cs).

Definition lQ_dec : forall p q : list Qc, {p = q} + {p <> q} := list_eq_dec Qc_eq_dec.
(* the distinct points of all component grids together (what the function cache of Integration holds after the combination,
   Function.get_f_dict_size = StandardCombi.get_total_num_points) *)
Definition union_points (bd : bool) (a b : list Qc) (cs : list (lv * Z)) : list (list Qc) :=
  nodup lQ_dec (flat_map (fun kv => comp_points bd a b (fst kv)) cs).

Lemma union_points_In bd a b cs x :
  In x (union_points bd a b cs) <-> exists l c, In (l, c) cs /\ In x (comp_points bd a b l).
Proof.
  unfold union_points. rewrite nodup_In, in_flat_map. split.
  - intros [[l c] [H1 H2]]. exists l, c. split; assumption.
  - intros [l [c [H1 H2]]]. exists (l, c). split; assumption.
Qed.

(* --- list facts --- *)
Lemma sorted_NoDup (xs : list Qc) : StronglySorted Qclt xs -> NoDup xs.
Proof.
  induction 1 as [|x xs HS IH HF]; constructor; [|exact IH].
  intro Hin. rewrite Forall_forall in HF. apply (Qclt_not_eq x x (HF x Hin)). reflexivity.
Qed.

Lemma NoDup_tl {A} (l : list A) : NoDup l -> NoDup (tl l).
Proof. destruct l; simpl; [auto|]. intro H. inversion H; assumption. Qed.

Lemma In_removelast {A} (x : A) : forall l, In x (removelast l) -> In x l.
Proof.
  induction l as [|y [|z l] IH]; simpl; intro H; [destruct H|destruct H|].
  destruct H as [H|H]; [left; exact H|right; apply IH; exact H].
Qed.

Lemma NoDup_removelast {A} : forall l : list A, NoDup l -> NoDup (removelast l).
Proof.
  induction l as [|y [|z l] IH]; intro H; [constructor|constructor|].
  change (removelast (y :: z :: l)) with (y :: removelast (z :: l)).
  inversion H as [|? ? Hn H']; subst. constructor; [|apply IH; exact H'].
  intro Hin. apply Hn. apply In_removelast. exact Hin.
Qed.

Lemma grid1_NoDup bd a b l : (a < b)%Qc -> 0 <= l -> NoDup (grid1 bd a b l).
Proof.
  intros Hab Hl. pose proof (sorted_NoDup _ (grid1_full_sorted a b l Hab Hl)) as H.
  unfold grid1. destruct bd; [exact H|]. unfold strip_ends. apply NoDup_removelast. apply NoDup_tl. exact H.
Qed.

Lemma NoDup_flat_map {A B} (f : A -> list B) : forall l, NoDup l -> (forall x, In x l -> NoDup (f x)) ->
  (forall x y z, In x l -> In y l -> In z (f x) -> In z (f y) -> x = y) -> NoDup (flat_map f l).
Proof.
  induction l as [|x l IH]; intros Hl Hf Hd; simpl; [constructor|].
  inversion Hl as [|? ? Hn Hl']; subst.
  assert (NoDup (flat_map f l)) as IH'.
  { apply IH; [exact Hl'| |].
    - intros y Hy. apply Hf. right. exact Hy.
    - intros y y' z Hy Hy' Hz Hz'. apply (Hd y y' z); try assumption; right; assumption. }
  clear IH. revert IH'. generalize (flat_map f l) (fun z => proj1 (in_flat_map f l z)). intros r Hr HNr.
  pose proof (Hf x (or_introl eq_refl)) as Hfx.
  assert (forall z, In z (f x) -> ~ In z r) as Hdis.
  { intros z Hz Hzr. destruct (Hr z Hzr) as [y [Hy Hzy]].
    assert (x = y) as E by (apply (Hd x y z); [left; reflexivity|right; exact Hy|exact Hz|exact Hzy]).
    subst y. exact (Hn Hy). }
  clear - Hfx Hdis HNr. induction Hfx as [|z fx Hnz Hfx IH]; simpl; [exact HNr|].
  constructor.
  - rewrite in_app_iff. intros [H|H]; [exact (Hnz H)|]. exact (Hdis z (or_introl eq_refl) H).
  - apply IH. intros z' Hz'. apply Hdis. right. exact Hz'.
Qed.

Lemma crossQ_NoDup : forall gs, Forall (@NoDup Qc) gs -> NoDup (crossQ gs).
Proof.
  induction gs as [|g gs IH]; intro H; simpl.
  - constructor; [intros []|constructor].
  - inversion H as [|? ? Hg Hgs]; subst. apply NoDup_flat_map.
    + exact Hg.
    + intros x _. apply FinFun.Injective_map_NoDup; [|apply IH; exact Hgs]. intros p q E. injection E. auto.
    + intros x y z _ _ Hz Hz'. apply in_map_iff in Hz. apply in_map_iff in Hz'.
      destruct Hz as [p [<- _]]. destruct Hz' as [q [E _]]. injection E. auto.
Qed.

Lemma crossQ_length : forall gs, length (crossQ gs) = fold_right Nat.mul 1%nat (map (@length Qc) gs).
Proof.
  induction gs as [|g gs IH]; [reflexivity|]. simpl. rewrite <- IH. clear IH.
  induction g as [|x g IHg]; [reflexivity|]. simpl. rewrite app_length, map_length, IHg. reflexivity.
Qed.

(* --- component grid: duplicate-free, and as many points as announced --- *)
Lemma comp_points_NoDup bd a b : forall l, box_ok a b -> Forall (fun v => 0 <= v) l -> NoDup (comp_points bd a b l).
Proof.
  intros l Hbox Fl. unfold comp_points. apply crossQ_NoDup.
  revert l Fl. induction Hbox as [|x y a b Hxy Hbox IH]; intros l Fl.
  - destruct l; constructor.
  - destruct l as [|z l]; [constructor|]. inversion Fl as [|? ? Hz Fl']; subst. simpl. constructor.
    + apply grid1_NoDup; assumption.
    + apply IH. exact Fl'.
Qed.

Theorem comp_points_length bd a b : forall l, length a = length l -> length b = length l -> Forall (fun v => 1 <= v) l ->
  Z.of_nat (length (comp_points bd a b l)) = comp_total_points bd l.
Proof.
  intros l La Lb Fl. unfold comp_points, comp_total_points, comp_num_points. rewrite crossQ_length.
  revert a b La Lb. induction Fl as [|z l Hz Fl IH]; intros a b La Lb.
  - destruct a; [|discriminate]. reflexivity.
  - destruct a as [|x a]; [discriminate|]. destruct b as [|y b]; [discriminate|].
    injection La as La. injection Lb as Lb. cbn [zip3 map fold_right prodZ].
    rewrite Nat2Z.inj_mul. rewrite (IH a b La Lb). rewrite (grid1_length bd x y z Hz). reflexivity.
Qed.

(* --- counting --- *)
Lemma sumZ_indicator_filter {A} (t : A -> bool) : forall U, sumZ (map (fun x => if t x then 1 else 0) U) = Z.of_nat (length (filter t U)).
Proof.
  induction U as [|x U IH]; [reflexivity|]. cbn [map filter].
  change (sumZ ((if t x then 1 else 0) :: map (fun x0 => if t x0 then 1 else 0) U))
    with ((if t x then 1 else 0) + sumZ (map (fun x0 => if t x0 then 1 else 0) U)).
  rewrite IH. destruct (t x); cbn [length]; lia.
Qed.

Lemma count_subset {A} (t : A -> bool) (G U : list A) : NoDup G -> NoDup U -> incl G U ->
  (forall x, t x = true <-> In x G) ->
  Z.of_nat (length G) = sumZ (map (fun x => if t x then 1 else 0) U).
Proof.
  intros HG HU Hi Ht. rewrite sumZ_indicator_filter. f_equal. apply Permutation_length. apply NoDup_Permutation.
  - exact HG.
  - apply NoDup_filter. exact HU.
  - intro x. rewrite filter_In. split.
    + intro Hx. split; [apply Hi; exact Hx|apply Ht; exact Hx].
    + intros [_ Hx]. apply Ht. exact Hx.
Qed.

Lemma sumZ_exchange {A B} (F : A -> B -> Z) xs ys :
  sumZ (map (fun x => sumZ (map (fun y => F x y) ys)) xs) = sumZ (map (fun y => sumZ (map (fun x => F x y) xs)) ys).
Proof.
  induction xs as [|x xs IH].
  - simpl. rewrite sumZ_map_zero. reflexivity.
  - cbn [map]. rewrite sumZ_cons. rewrite IH. rewrite <- sumZ_map_add. apply sumZ_map_ext_in. intros y _.
    rewrite sumZ_cons. reflexivity.
Qed.

(* the number of distinct points of the combination, for every reachable state of the adaptive scheme: *)
Theorem adaptive_total_points bd a b s :
  Inv s -> 1 <= s_lmin s -> box_ok a b -> length a = s_dim s -> length b = s_dim s ->
  Z.of_nat (length (union_points bd a b (combi_scheme_adaptive s))) = combi_total_points bd (combi_scheme_adaptive s).
Proof.
  intros HI Hl Hbox La Lb. set (cs := combi_scheme_adaptive s). set (U := union_points bd a b cs).
  assert (NoDup U) as HU by (apply NoDup_nodup).
  unfold combi_total_points.
  (* every component grid is counted through the indicator of its points over U *)
  rewrite (sumZ_map_ext_in _ (fun kv => sumZ (map (fun x => if in_comp bd a b x (fst kv) then snd kv else 0) U))).
  - rewrite sumZ_exchange.
    rewrite (sumZ_map_ext_in _ (fun _ => 1)).
    + clear. induction U as [|x U IH]; [reflexivity|]. cbn [map length]. rewrite sumZ_cons. lia.
    + intros x Hx. apply union_points_In in Hx. destruct Hx as [l [c [Hin Hx]]].
      destruct (scheme_levels s l c HI Hin) as [Ll Fl].
      apply (comp_points_in_comp bd a b l x) in Hx; [|congruence|congruence].
      exact (adaptive_point_coeff_sum_one bd a b s x l c HI ltac:(lia) Hin Hx).
  - intros [l c] Hin. cbn [fst snd]. destruct (scheme_levels s l c HI Hin) as [Ll Fl].
    rewrite <- (comp_points_length bd a b l); [|congruence|congruence|
      clear - Fl Hl; induction Fl as [|v l Hv Fl IH]; constructor; [lia|exact IH]].
    rewrite (count_subset (fun x => in_comp bd a b x l) (comp_points bd a b l) U).
    + rewrite <- sumZ_map_mul_l. apply sumZ_map_ext_in. intros x _. destruct (in_comp bd a b x l); lia.
    + apply comp_points_NoDup; [exact Hbox|]. clear - Fl Hl. induction Fl as [|v l Hv Fl IH]; constructor; [lia|exact IH].
    + exact HU.
    + intros x Hx. apply union_points_In. exists l, c. split; assumption.
    + intro x. symmetry. apply comp_points_in_comp; congruence.
Qed.

(* closed-form scheme of StandardCombi, every dimension, every 1 <= lmin <= lmax *)
Theorem std_total_points bd a b n lmin lmax :
  1 <= lmin <= lmax -> box_ok a b -> length a = S n -> length b = S n ->
  Z.of_nat (length (union_points bd a b (combi_scheme_standard (S n) lmin lmax)))
  = combi_total_points bd (combi_scheme_standard (S n) lmin lmax).
Proof.
  intros H Hbox La Lb. destruct (std_state_general n lmin lmax ltac:(lia)) as [s [HI [Hl [Ed [Em [Hs Hp]]]]]].
  unfold combi_total_points.
  rewrite (sumZ_Permutation _ _ (Permutation_map (fun kv => snd kv * comp_total_points bd (fst kv)) Hp)).
  fold (combi_total_points bd (combi_scheme_adaptive s)).
  rewrite <- (adaptive_total_points bd a b s HI ltac:(lia) Hbox ltac:(congruence) ltac:(congruence)).
  f_equal. apply Permutation_length. apply NoDup_Permutation; [apply NoDup_nodup|apply NoDup_nodup|].
  intro x. rewrite !union_points_In. split; intros [l [c [Hin Hx]]]; exists l, c; split; try assumption.
  - apply (Permutation_in _ Hp Hin).
  - apply (Permutation_in _ (Permutation_sym Hp) Hin).
Qed.

(* and these distinct points are exactly the sparse grid: membership form *)
Theorem std_union_points_spec bd a b n lmin lmax x : 0 <= lmin <= lmax -> length a = S n -> length b = S n ->
  (In x (union_points bd a b (combi_scheme_standard (S n) lmin lmax)) <->
   exists k, length k = S n /\ Forall (fun v => lmin <= v) k /\ sumZ k <= lmax - lmin + Z.of_nat (S n) * lmin /\
             In x (comp_points bd a b k)).
Proof.
  intros H La Lb. rewrite union_points_In. destruct (std_state_general n lmin lmax H) as [s [HI [Hl [Ed [Em [Hs Hp]]]]]]. split.
  - intros [l [c [Hin Hx]]]. pose proof (Permutation_in _ Hp Hin) as Hin'.
    destruct (scheme_support s l c HI Hin') as [Hk _].
    apply (init_index_set_spec n lmin lmax s l H Hs) in Hk. destruct Hk as [L [F S']].
    exists l. repeat split; assumption.
  - intros [k [L [F [S' Hx]]]].
    assert (in_union bd a b (combi_scheme_standard (S n) lmin lmax) x) as Hu.
    { apply (std_union_equals_sparse_grid bd a b n lmin lmax x H). exists k. repeat split; try assumption.
      apply comp_points_in_comp; [congruence|congruence|exact Hx]. }
    destruct Hu as [l [c [Hin Hx']]]. exists l, c. split; [exact Hin|].
    pose proof (Permutation_in _ Hp Hin) as Hin'. destruct (scheme_levels s l c HI Hin') as [Ll _].
    apply comp_points_in_comp; [congruence|congruence|exact Hx'].
Qed.
