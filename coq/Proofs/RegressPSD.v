(* C20: soundness of the verified positive-semi-definiteness checker psd_check (Model/Regress.v):
     psd_check G = true  ->  forall v of the right length, 0 <= v^T G v.
   The checker is evaluated through the entry point on the smoothing matrices (model specification matrix and the
   exact rational image of the implementation's matrix) of every explored case with d >= 2. *)
From Coq Require Import ZArith List QArith Qcanon Bool Lia Lqa.
From SG Require Import Base.QcUtil Model.Gram Model.Regress Proofs.GramHat Proofs.GramEntries Proofs.GramPD Proofs.GramNorm
  Proofs.RegressP Proofs.RegressLS.
Import ListNotations.
Open Scope Qc_scope.

Lemma dot_zero_l r v : forallb (fun x => Qc_eqb x 0) r = true -> dotQ r v = 0.
Proof.
  revert v; induction r as [|x r IH]; intros [|y v] H; simpl in *; try reflexivity.
  apply andb_true_iff in H. destruct H as [H1 H2]. apply Qc_eqb_eq in H1. subst x. rewrite IH by exact H2. ring.
Qed.

(* border decomposition: first row p :: r, first column p :: mcol0 rest *)
Lemma quad_border k p r rest a v : wf_matrix (S k) rest ->
  quad ((p :: r) :: rest) (a :: v)
  = p * (a * a) + a * dotQ r v + a * dotQ (mcol0 rest) v + quad (mtails rest) v.
Proof.
  intro Hwf. unfold quad, matvec at 1. cbn [map dotQ]. fold (matvec rest (a :: v)).
  rewrite (dot_split_col k rest a v v Hwf). unfold mcol0, mtails. ring.
Qed.

(* one row of the Schur complement *)
Lemma schur_row ri p : forall r row v, length row = length r ->
  dotQ (map2 (fun rj x => x - ri * rj / p) r row) v = dotQ row v - ri / p * dotQ r v.
Proof.
  induction r as [|rj r IH]; intros [|x row] v H; try discriminate.
  - simpl. destruct v; unfold Qcdiv; ring.
  - destruct v as [|y v]; [simpl; unfold Qcdiv; ring|]. cbn [map2 dotQ]. rewrite IH by (simpl in H; lia). unfold Qcdiv. ring.
Qed.

Lemma schur_quad_gen p r v : forall r1 G1 w, Forall (fun row => length row = length r) G1 -> length G1 = length r1 ->
  dotQ w (matvec (map2 (fun ri row => map2 (fun rj x => x - ri * rj / p) r row) r1 G1) v)
  = dotQ w (matvec G1 v) - dotQ w r1 * dotQ r v / p.
Proof.
  induction r1 as [|ri r1 IH]; intros [|row G1] w Hf Hl; try discriminate.
  - simpl. destruct w; unfold Qcdiv; simpl; ring.
  - inversion Hf; subst. destruct w as [|c w]; [simpl; unfold Qcdiv; ring|].
    unfold matvec in *. cbn [map2 map dotQ]. rewrite schur_row by assumption.
    rewrite IH by (try assumption; simpl in Hl; lia). unfold Qcdiv. ring.
Qed.

Lemma schur_quad k p r G v : wf_matrix k G -> length G = k -> length r = k ->
  quad (schur p r G) v = quad G v - dotQ r v * dotQ r v / p.
Proof.
  intros Hwf Hl Hr. unfold quad, schur. rewrite (schur_quad_gen p r v r G v).
  - rewrite (dotQ_comm v r). reflexivity.
  - unfold wf_matrix in Hwf. rewrite Hr. exact Hwf.
  - congruence.
Qed.

Lemma schur_wf k p r G : wf_matrix k G -> length G = k -> length r = k ->
  wf_matrix k (schur p r G) /\ length (schur p r G) = k.
Proof.
  intros Hwf Hl Hr. unfold schur. split.
  - unfold wf_matrix in *. assert (E : length G = length r) by congruence. clear Hl.
    revert G Hwf E. generalize r at 1 3. intro r1. induction r1 as [|ri r1 IH]; intros [|row G] Hwf E; try discriminate; [constructor|].
    inversion Hwf as [|row0 G0 Hrow HG E0]. subst row0 G0. cbn [map2]. constructor.
    + rewrite map2_length; [exact Hr | congruence].
    + apply IH; [assumption | simpl in E; lia].
  - rewrite map2_length; congruence.
Qed.

Lemma mtails_wf k rest : wf_matrix (S k) rest -> wf_matrix k (mtails rest) /\ length (mtails rest) = length rest.
Proof. intro H. split; [apply wf_tl; exact H | unfold mtails; apply map_length]. Qed.

Lemma psd_rec_sound : forall n G, wf_matrix n G -> length G = n -> psd_rec n G = true ->
  forall v, length v = n -> 0 <= quad G v.
Proof.
  induction n as [|k IH]; intros G Hwf Hl H v Hv.
  - destruct v; [|discriminate]. destruct G; [|discriminate]. unfold Qcle. vm_compute. discriminate.
  - destruct G as [|row rest]; [discriminate|]. destruct row as [|p r]; [discriminate|].
    cbn [psd_rec] in H. apply andb_true_iff in H. destruct H as [Hc H].
    apply forallb2_Qc_eqb_eq in Hc.
    inversion Hwf as [|row0 rest0 Hrow Hrest E0]. subst row0 rest0.
    assert (Hr : length r = k) by (simpl in Hrow; lia).
    assert (Hlr : length rest = k) by (simpl in Hl; lia).
    destruct (mtails_wf k rest Hrest) as [Wt Lt]. rewrite Hlr in Lt.
    destruct v as [|a v]; [discriminate|]. assert (Hv' : length v = k) by (simpl in Hv; lia).
    rewrite (quad_border k p r rest a v Hrest). rewrite Hc.
    destruct (Qc_ltb p 0) eqn:Eneg; [discriminate|]. apply Qc_ltb_false in Eneg.
    destruct (Qc_eqb p 0) eqn:Ez.
    + apply Qc_eqb_eq in Ez. subst p. apply andb_true_iff in H. destruct H as [Hz H].
      rewrite (dot_zero_l r v Hz).
      pose proof (IH (mtails rest) Wt Lt H v Hv') as Q. revert Q. generalize (quad (mtails rest) v). intros q Q.
      replace (0 * (a * a) + a * 0 + a * 0 + q) with q by ring. exact Q.
    + apply Qc_eqb_false in Ez.
      destruct (schur_wf k p r (mtails rest) Wt Lt Hr) as [Ws Ls].
      pose proof (IH (schur p r (mtails rest)) Ws Ls H v Hv') as Q.
      rewrite (schur_quad k p r (mtails rest) v Wt Lt Hr) in Q.
      set (t := dotQ r v) in *. set (q := quad (mtails rest) v) in *.
      assert (Hp : 0 < p). { destruct (Qcle_or_lt p 0) as [L|L]; [|exact L]. exfalso. apply Ez. apply Qcle_antisym; assumption. }
      replace (p * (a * a) + a * t + a * t + q) with (p * ((a + t / p) * (a + t / p)) + (q - t * t / p)) by (field; exact Ez).
      pose proof (mul_nonneg p _ (Qclt_le_weak _ _ Hp) (sq_nonneg (a + t / p))) as P1.
      revert P1 Q. generalize (p * ((a + t / p) * (a + t / p))) (q - t * t / p). intros x y P1 Q. qc_order.
Qed.

Lemma wf_of_forallb n G : forallb (fun row => (length row =? n)%nat) G = true -> wf_matrix n G.
Proof.
  unfold wf_matrix. induction G as [|row G IH]; intro H; [constructor|]. simpl in H. apply andb_true_iff in H. destruct H as [H1 H2].
  constructor; [apply Nat.eqb_eq; exact H1 | apply IH; exact H2].
Qed.

(* accepted matrices are positive semi-definite *)
Theorem psd_check_sound G : psd_check G = true -> forall v, length v = length G -> 0 <= quad G v.
Proof.
  unfold psd_check. intro H. apply andb_true_iff in H. destruct H as [Hw Hr]. intros v Hv.
  exact (psd_rec_sound (length G) G (wf_of_forallb _ _ Hw) eq_refl Hr v Hv).
Qed.

Corollary psd_check_psd G : psd_check G = true -> psd (length G) G.
Proof. intros H v Hv. apply psd_check_sound; assumption. Qed.
