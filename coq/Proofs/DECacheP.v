(* The matrix-entry cache of the density estimation is sound: the key (sorted overlap widths, sorted node distances)
   determines the matrix entry, hence building the matrices of ANY history of grids with one shared cache gives
   exactly the matrices built without cache. *)
From Coq Require Import ZArith List QArith Qcanon Bool Lia Permutation.
From SG Require Import Base.QcUtil Base.PolyInt Model.Gram Model.DECache
  Proofs.GramHat Proofs.GramEntries Proofs.GramPD.
Import ListNotations.
Open Scope Qc_scope.

(* ------------------------------------------------------------------ two hats of one stripe, per dimension *)
Definition same1 (a b : hatdom) : Prop := a = b /\ proper a.
Definition nbr1 (a b : hatdom) : Prop :=
  h_p a < h_p b /\ h_hi a = h_p b /\ h_lo b = h_p a /\ proper a /\ proper b.
Definition rel1 (a b : hatdom) : Prop := same1 a b \/ nbr1 a b \/ nbr1 b a.

(* a pair of d-dimensional hats of one grid: whenever the adjacency test of the code passes, the two hats are, in
   every dimension, the same hat or direct neighbours *)
Definition good_pair (ti tj : list hatdom) : Prop :=
  length ti = length tj /\ (forallb2 in_dom ti tj = true -> Forall2 rel1 ti tj).

(* the factor of one dimension as a function of (width, distance) *)
Definition fac (w d : Qc) : Qc := if Qc_eqb d 0 then w / Qc3 else w / Qc6.

Lemma Qc_min_l' a b : a <= b -> Qc_min a b = a.
Proof. apply Qc_min_l_of_le. Qed.

Lemma rel1_facts a b : rel1 a b ->
  0 < width1 a b /\ R1 a b = fac (width1 a b) (dist1 a b) /\ (dist1 a b = 0 \/ dist1 a b = width1 a b).
Proof.
  intros [[E [Hl Hr]] | [[Hlt [E1 [E2 [[Hal Har] [Hbl Hbr]]]]] | [Hlt [E1 [E2 [[Hbl Hbr] [Hal Har]]]]]]].
  - subst b. unfold width1, dist1, fac.
    rewrite (Qc_min_l_of_le (h_hi a) (h_hi a)) by apply Qcle_refl.
    rewrite (Qc_max_l (h_lo a) (h_lo a)) by apply Qcle_refl.
    replace (h_p a - h_p a) with (0 : Qc) by ring.
    assert (P : 0 < h_hi a - h_lo a) by qc_order.
    rewrite (Qc_abs_nonneg_eq (h_hi a - h_lo a)) by (apply Qclt_le_weak; exact P).
    rewrite (Qc_abs_nonneg_eq 0) by apply Qcle_refl. rewrite Qc_eqb_refl.
    split; [exact P | split; [apply R1_same; split; assumption | left; reflexivity]].
  - unfold width1, dist1, fac.
    assert (M1 : Qc_min (h_hi a) (h_hi b) = h_hi a) by (apply Qc_min_l_of_le; rewrite E1; apply Qclt_le_weak; exact Hbr).
    assert (M2 : Qc_max (h_lo a) (h_lo b) = h_lo b) by (apply Qc_max_r; rewrite E2; apply Qclt_le_weak; exact Hal).
    rewrite M1, M2, E1, E2.
    assert (P : 0 < h_p b - h_p a) by qc_order.
    rewrite (Qc_abs_nonneg_eq (h_p b - h_p a)) by (apply Qclt_le_weak; exact P).
    rewrite (Qc_abs_neg_eq (h_p a - h_p b)) by qc_order.
    replace (- (h_p a - h_p b)) with (h_p b - h_p a) by ring.
    assert (N : Qc_eqb (h_p b - h_p a) 0 = false) by (apply Qc_eqb_false; apply Qc_pos_nz; exact P). rewrite N.
    split; [exact P | split; [| right; reflexivity]].
    rewrite R1_distinct by (intro E; rewrite E in Hlt; apply (Qclt_not_le _ _ Hlt); apply Qcle_refl).
    rewrite (Qc_abs_neg_eq (h_p a - h_p b)) by qc_order. f_equal. ring.
  - unfold width1, dist1, fac.
    assert (M1 : Qc_min (h_hi a) (h_hi b) = h_hi b) by (apply Qc_min_r_of_le; rewrite E1; apply Qclt_le_weak; exact Har).
    assert (M2 : Qc_max (h_lo a) (h_lo b) = h_lo a) by (apply Qc_max_l; rewrite E2; apply Qclt_le_weak; exact Hbl).
    rewrite M1, M2, E1, E2.
    assert (P : 0 < h_p a - h_p b) by qc_order.
    rewrite (Qc_abs_nonneg_eq (h_p a - h_p b)) by (apply Qclt_le_weak; exact P).
    assert (N : Qc_eqb (h_p a - h_p b) 0 = false) by (apply Qc_eqb_false; apply Qc_pos_nz; exact P). rewrite N.
    split; [exact P | split; [| right; reflexivity]].
    rewrite R1_distinct by (intro E; rewrite E in Hlt; apply (Qclt_not_le _ _ Hlt); apply Qcle_refl).
    rewrite (Qc_abs_nonneg_eq (h_p a - h_p b)) by (apply Qclt_le_weak; exact P). reflexivity.
Qed.

(* ------------------------------------------------------------------ product form of the entry *)
Fixpoint denom (ds : list Qc) : Qc :=
  match ds with [] => 1 | d :: r => (if Qc_eqb d 0 then Qc3 else Qc6) * denom r end.

Lemma Qc3_nz : Qc3 <> 0.
Proof. intro E. apply Qc_eq_Qeq in E. discriminate. Qed.
Lemma Qc6_nz : Qc6 <> 0.
Proof. intro E. apply Qc_eq_Qeq in E. discriminate. Qed.

Lemma denom_nz ds : denom ds <> 0.
Proof.
  induction ds as [|d r IH]; [intro E; apply Qc_eq_Qeq in E; discriminate|]. cbn [denom].
  intro E. apply Qcmult_integral in E. destruct E as [E|E]; [|contradiction].
  destruct (Qc_eqb d 0); [apply Qc3_nz in E | apply Qc6_nz in E]; exact E.
Qed.

Lemma prod_R1_form ti tj : Forall2 rel1 ti tj ->
  prodQ (map2 R1 ti tj) = prodQ (map2 width1 ti tj) / denom (map2 dist1 ti tj).
Proof.
  induction 1 as [|a b ti tj Hab Hrest IH]; [cbn; field; intro E; apply Qc_eq_Qeq in E; discriminate|].
  cbn [map2 prodQ denom]. rewrite IH. destruct (rel1_facts a b Hab) as [_ [HR _]]. rewrite HR. unfold fac.
  pose proof (denom_nz (map2 dist1 ti tj)) as Hd.
  destruct (Qc_eqb (dist1 a b) 0); field; repeat split;
    first [exact Hd | apply Qc3_nz | apply Qc6_nz | (let E := fresh "E" in intro E; apply Qc_eq_Qeq in E; discriminate)].
Qed.

Lemma prodQ_perm l l' : Permutation l l' -> prodQ l = prodQ l'.
Proof. induction 1; cbn [prodQ]; [reflexivity | rewrite IHPermutation; reflexivity | ring | congruence]. Qed.
Lemma denom_perm l l' : Permutation l l' -> denom l = denom l'.
Proof. induction 1; cbn [denom]; [reflexivity | rewrite IHPermutation; reflexivity | ring | congruence]. Qed.

Lemma insertQ_perm x l : Permutation (x :: l) (insertQ x l).
Proof.
  induction l as [|y r IH]; [apply Permutation_refl|]. cbn [insertQ]. destruct (Qc_leb x y); [apply Permutation_refl|].
  apply perm_trans with (y :: x :: r); [apply perm_swap | apply perm_skip; exact IH].
Qed.
Lemma sortQ_perm l : Permutation l (sortQ l).
Proof.
  induction l as [|x r IH]; [apply Permutation_refl|]. cbn [sortQ].
  apply perm_trans with (x :: sortQ r); [apply perm_skip; exact IH | apply insertQ_perm].
Qed.

Lemma sort_eq_perm l l' : sortQ l = sortQ l' -> Permutation l l'.
Proof.
  intro E. apply perm_trans with (sortQ l); [apply sortQ_perm|]. rewrite E. apply Permutation_sym. apply sortQ_perm.
Qed.

(* ------------------------------------------------------------------ THE KEY DETERMINES THE VALUE *)
Lemma forallb2_length {A B} (f : A -> B -> bool) a b : forallb2 f a b = true -> length a = length b.
Proof.
  revert b; induction a as [|x a IH]; intros [|y b] H; simpl in H; try discriminate; [reflexivity|].
  apply andb_true_iff in H. destruct H as [_ H]. simpl. f_equal. apply IH. exact H.
Qed.

Lemma widths_positive ti tj : Forall2 rel1 ti tj -> Forall (fun w => 0 < w) (map2 width1 ti tj).
Proof. induction 1 as [|a b ti tj Hab _ IH]; constructor; [apply (rel1_facts a b Hab) | exact IH]. Qed.

Theorem cache_key_determines_value ti tj ti' tj' :
  good_pair ti tj -> good_pair ti' tj' -> overlap_key ti tj = overlap_key ti' tj' -> Rval ti tj = Rval ti' tj'.
Proof.
  intros [GL G] [GL' G']. unfold overlap_key, Rval.
  destruct (forallb2 in_dom ti tj) eqn:A; destruct (forallb2 in_dom ti' tj') eqn:A'; intro K.
  - (* both adjacent: same multiset of widths and of distances *)
    injection K as Kw Kd. pose proof (G eq_refl) as R. pose proof (G' eq_refl) as R'.
    rewrite (prod_R1_form _ _ R), (prod_R1_form _ _ R').
    rewrite (prodQ_perm _ _ (sort_eq_perm _ _ Kw)), (denom_perm _ _ (sort_eq_perm _ _ Kd)). reflexivity.
  - (* adjacent pair with the key of a non-adjacent one: impossible, all widths are positive *)
    exfalso. injection K as Kw _. pose proof (G eq_refl) as R. pose proof (widths_positive _ _ R) as P.
    destruct ti as [|a ti]; destruct tj as [|b tj]; try (simpl in A; discriminate).
    + destruct ti' as [|a' ti']; [|simpl in Kw; discriminate].
      destruct tj'; [simpl in A'; discriminate | simpl in GL'; discriminate].
    + cbn [map2] in P, Kw. inversion P as [|? ? Pw _]; subst.
      assert (I : In (width1 a b) (sortQ (width1 a b :: map2 width1 ti tj))).
      { apply (Permutation_in _ (sortQ_perm _)). left. reflexivity. }
      rewrite Kw in I. apply in_map_iff in I. destruct I as [_ [E _]]. rewrite <- E in Pw.
      apply (Qclt_not_le _ _ Pw). apply Qcle_refl.
  - exfalso. injection K as Kw _. pose proof (G' eq_refl) as R. pose proof (widths_positive _ _ R) as P.
    destruct ti' as [|a ti']; destruct tj' as [|b tj']; try (simpl in A'; discriminate).
    + destruct ti as [|a' ti]; [|simpl in Kw; discriminate].
      destruct tj; [simpl in A; discriminate | simpl in GL; discriminate].
    + cbn [map2] in P, Kw. inversion P as [|? ? Pw _]; subst.
      assert (I : In (width1 a b) (sortQ (width1 a b :: map2 width1 ti' tj'))).
      { apply (Permutation_in _ (sortQ_perm _)). left. reflexivity. }
      rewrite <- Kw in I. apply in_map_iff in I. destruct I as [_ [E _]]. rewrite <- E in Pw.
      apply (Qclt_not_le _ _ Pw). apply Qcle_refl.
  - reflexivity.
Qed.

(* ------------------------------------------------------------------ cache transparency *)
Lemma list_eqb_eq a b : list_eqb a b = true -> a = b.
Proof.
  revert b; induction a as [|x a IH]; intros [|y b] H; simpl in H; try discriminate; [reflexivity|].
  apply andb_true_iff in H. destruct H as [H1 H2]. apply Qc_eqb_eq in H1. subst. f_equal. apply IH. exact H2.
Qed.
Lemma key_eqb_eq k1 k2 : key_eqb k1 k2 = true -> k1 = k2.
Proof.
  destruct k1 as [a b], k2 as [a' b']. unfold key_eqb. cbn [fst snd]. intro H.
  apply andb_true_iff in H. destruct H as [H1 H2]. apply list_eqb_eq in H1. apply list_eqb_eq in H2. subst. reflexivity.
Qed.

(* every stored value is the entry of every good pair with that key *)
Definition consistent (c : cache) : Prop :=
  forall k v, In (k, v) c -> forall ti tj, good_pair ti tj -> overlap_key ti tj = k -> Rval ti tj = v.

Lemma consistent_nil : consistent [].
Proof. intros k v H. destruct H. Qed.

Lemma lookup_some k c v : lookup k c = Some v -> In (k, v) c.
Proof.
  induction c as [|[k' v'] r IH]; [discriminate|]. cbn [lookup]. destruct (key_eqb k k') eqn:E.
  - intro H. injection H as H. subst. apply key_eqb_eq in E. subst. left. reflexivity.
  - intro H. right. apply IH. exact H.
Qed.

Lemma entry_cached_correct c ti tj : consistent c -> good_pair ti tj ->
  fst (entry_cached c ti tj) = Rval ti tj /\ consistent (snd (entry_cached c ti tj)).
Proof.
  intros Hc Hg. unfold entry_cached. destruct (lookup (overlap_key ti tj) c) eqn:L; cbn [fst snd].
  - split; [|exact Hc]. apply lookup_some in L. symmetry. apply (Hc _ _ L ti tj Hg). reflexivity.
  - split; [reflexivity|]. intros k v [H|H].
    + injection H as Hk Hv. subst. intros ti' tj' Hg' K. apply cache_key_determines_value; assumption.
    + apply (Hc k v H).
Qed.

Lemma row_cached_correct t : forall ts c, consistent c -> (forall u, In u ts -> good_pair t u) ->
  fst (row_cached c t ts) = map (Rval t) ts /\ consistent (snd (row_cached c t ts)).
Proof.
  induction ts as [|u r IH]; intros c Hc Hg; [split; [reflexivity | exact Hc]|].
  cbn [row_cached]. destruct (entry_cached_correct c t u Hc (Hg u (or_introl eq_refl))) as [E1 C1].
  destruct (entry_cached c t u) as [v c1]. cbn [fst snd] in E1, C1.
  destruct (IH c1 C1 (fun u' Hu' => Hg u' (or_intror Hu'))) as [E2 C2].
  destruct (row_cached c1 t r) as [vs c2]. cbn [fst snd] in *. subst. split; [reflexivity | exact C2].
Qed.

Definition pairwise_good (pts : list (list hatdom)) : Prop := forall t u, In t pts -> In u pts -> good_pair t u.

Theorem sym_matrix_cached_correct lam : forall pts c, consistent c -> pairwise_good pts ->
  fst (sym_matrix_cached c lam pts) = sym_matrix Rval lam pts /\ consistent (snd (sym_matrix_cached c lam pts)).
Proof.
  induction pts as [|t ts IH]; intros c Hc Hg; [split; [reflexivity | exact Hc]|].
  cbn [sym_matrix_cached sym_matrix].
  destruct (entry_cached_correct c t t Hc (Hg t t (or_introl eq_refl) (or_introl eq_refl))) as [E1 C1].
  destruct (entry_cached c t t) as [d c1]. cbn [fst snd] in E1, C1.
  destruct (row_cached_correct t ts c1 C1 (fun u Hu => Hg t u (or_introl eq_refl) (or_intror Hu))) as [E2 C2].
  destruct (row_cached c1 t ts) as [r c2]. cbn [fst snd] in E2, C2.
  destruct (IH c2 C2 (fun a b Ha Hb => Hg a b (or_intror Ha) (or_intror Hb))) as [E3 C3].
  destruct (sym_matrix_cached c2 lam ts) as [G c3]. cbn [fst snd] in *. subst. split; [reflexivity | exact C3].
Qed.

(* any history of grids, starting from any consistent cache (in particular the empty one) *)
Theorem history_cached_transparent lam : forall grids c, consistent c ->
  Forall (fun g => pairwise_good (grid_hats g)) grids ->
  fst (history_cached c lam grids) = history_plain lam grids /\ consistent (snd (history_cached c lam grids)).
Proof.
  induction grids as [|g r IH]; intros c Hc Hg; [split; [reflexivity | exact Hc]|].
  inversion Hg as [|? ? Hg1 Hg2]; subst. cbn [history_cached history_plain map].
  destruct (sym_matrix_cached_correct lam (grid_hats g) c Hc Hg1) as [E1 C1].
  destruct (sym_matrix_cached c lam (grid_hats g)) as [G c1]. cbn [fst snd] in E1, C1.
  destruct (IH c1 C1 Hg2) as [E2 C2]. destruct (history_cached c1 lam r) as [Gs c2]. cbn [fst snd] in *.
  subst. split; [reflexivity | exact C2].
Qed.

(* ------------------------------------------------------------------ pairs of hats of a tensor grid are good pairs *)
Lemma windows_lo_ge y0 ys : strictly_inc (y0 :: ys) -> forall u, In u (windows (y0 :: ys)) -> y0 <= h_lo u.
Proof.
  revert y0; induction ys as [|y1 ys IH]; intros y0 Hs u Hu; [destruct Hu|].
  destruct ys as [|y2 r]; [destruct Hu|].
  cbn [windows] in Hu. destruct Hs as [H01 Hs]. destruct Hu as [Hu|Hu].
  - subst u. apply Qcle_refl.
  - apply Qcle_trans with y1; [apply Qclt_le_weak; exact H01|]. apply IH; assumption.
Qed.

Lemma windows_rel xs : strictly_inc xs -> forall t u, In t (windows xs) -> In u (windows xs) ->
  in_dom t u = true -> rel1 t u.
Proof.
  induction xs as [|x0 xs IH]; intros Hs t u Ht Hu Hd; [destruct Ht|].
  destruct xs as [|x1 [|x2 r]]; try (destruct Ht; fail).
  change (windows (x0 :: x1 :: x2 :: r)) with (mkH x0 x1 x2 :: windows (x1 :: x2 :: r)) in Ht, Hu.
  assert (Hs' : strictly_inc (x1 :: x2 :: r)) by apply Hs.
  destruct Hs as [H01 [H12 Hs2]].
  assert (PT : proper (mkH x0 x1 x2)) by (split; assumption).
  destruct Ht as [Ht|Ht]; destruct Hu as [Hu|Hu].
  - subst. left. split; [reflexivity | exact PT].
  - subst t. destruct r as [|x3 r]; [destruct Hu|].
    change (windows (x1 :: x2 :: x3 :: r)) with (mkH x1 x2 x3 :: windows (x2 :: x3 :: r)) in Hu.
    destruct Hu as [Hu|Hu].
    + subst u. right. left. unfold nbr1; cbn [h_lo h_p h_hi].
      repeat split; try assumption; try reflexivity; apply Hs2.
    + exfalso. pose proof (windows_p_gt x2 (x3 :: r) Hs2 u Hu) as Hgt.
      unfold in_dom in Hd; cbn [h_lo h_p h_hi] in Hd. apply andb_true_iff in Hd. destruct Hd as [_ Hd].
      apply Qc_leb_le in Hd. apply (Qclt_not_le _ _ Hgt Hd).
  - subst u. destruct r as [|x3 r]; [destruct Ht|].
    change (windows (x1 :: x2 :: x3 :: r)) with (mkH x1 x2 x3 :: windows (x2 :: x3 :: r)) in Ht.
    destruct Ht as [Ht|Ht].
    + subst t. right. right. unfold nbr1; cbn [h_lo h_p h_hi].
      repeat split; try assumption; try reflexivity; apply Hs2.
    + exfalso. pose proof (windows_lo_ge x2 (x3 :: r) Hs2 t Ht) as Hge.
      unfold in_dom in Hd; cbn [h_lo h_p h_hi] in Hd. apply andb_true_iff in Hd. destruct Hd as [Hd _].
      apply Qc_leb_le in Hd. apply (Qclt_not_le _ _ H12). apply Qcle_trans with (h_lo t); assumption.
  - apply (IH Hs'); assumption.
Qed.

Definition good_stripe (s : list Qc) : Prop := strictly_inc s /\ hd 0 s = 0 /\ last s 0 = 1.

Lemma in_cross_Forall2 {A} (ls : list (list A)) : forall t, In t (cross ls) -> Forall2 (fun a l => In a l) t ls.
Proof.
  induction ls as [|l r IH]; intros t Ht.
  - cbn in Ht. destruct Ht as [Ht|[]]. subst. constructor.
  - cbn [cross] in Ht. apply in_flat_map in Ht. destruct Ht as [a [Ha Ht]].
    apply in_map_iff in Ht. destruct Ht as [t' [E Ht']]. subst t. constructor; [exact Ha | apply IH; exact Ht'].
Qed.

Lemma Forall2_length' {A B} (P : A -> B -> Prop) a b : Forall2 P a b -> length a = length b.
Proof. induction 1; simpl; congruence. Qed.

Theorem grid_pairs_good stripes : Forall good_stripe stripes -> pairwise_good (grid_hats stripes).
Proof.
  intros Hs t u Ht Hu. unfold grid_hats in Ht, Hu.
  apply in_cross_Forall2 in Ht. apply in_cross_Forall2 in Hu.
  split.
  - rewrite (Forall2_length' _ _ _ Ht), (Forall2_length' _ _ _ Hu). reflexivity.
  - revert t u Ht Hu. induction Hs as [|s r Hgs _ IH]; intros t u Ht Hu Hd.
    + inversion Ht; inversion Hu; subst. constructor.
    + cbn [map] in Ht, Hu. inversion Ht as [|a ? t' ? Ha Ht']; inversion Hu as [|b ? u' ? Hb Hu']; subst.
      cbn [forallb2] in Hd. apply andb_true_iff in Hd. destruct Hd as [Hd1 Hd2].
      destruct Hgs as [Hinc [H0 H1]]. rewrite (stripe_hats_windows s H0 H1) in Ha, Hb.
      constructor; [apply (windows_rel s Hinc); assumption | apply IH; assumption].
Qed.

(* ------------------------------------------------------------------ main theorem: every refinement history *)
Theorem cache_transparent_for_every_history lam grids :
  Forall (Forall good_stripe) grids -> fst (history_cached [] lam grids) = history_plain lam grids.
Proof.
  intro H. apply (history_cached_transparent lam grids [] consistent_nil).
  induction H as [|g r Hg _ IH]; constructor; [apply grid_pairs_good; exact Hg | exact IH].
Qed.
