(* C12 — proofs about the polynomial family (Model/FunPoly.v): every class evaluates the polynomial it denotes, and
   its analytic integral (after the fixes; for Linear / Polynomial / Polynomial1d also as coded) is the formal integral
   of that polynomial. The coded ConstantValue and FunctionMultilinear integrals are refuted. *)
From Coq Require Import ZArith List QArith Qcanon Bool Arith Lia.
From SG Require Import Base.QcUtil Model.FunPoly.
Import ListNotations.
Open Scope Qc_scope.

(* ------------------------------------------------------------------ numbers *)
Lemma qn_S_neq0 k : qn (S k) <> 0.
Proof.
  unfold qn, qc_of_Z. intro H. apply (f_equal this) in H. cbn [Q2Qc this] in H.
  pose proof (Qred_correct (inject_Z (Z.of_nat (S k)))) as E. rewrite H in E.
  change (Qred 0) with (0#1)%Q in E. unfold Qeq, inject_Z in E. cbn [Qnum Qden] in E. lia.
Qed.

Lemma qn_1 : qn 1 = 1.
Proof. apply Qc_is_canon. reflexivity. Qed.

Lemma Qcinv_1_local : / 1 = 1.
Proof. apply Qc_is_canon. reflexivity. Qed.

Lemma pow_1 (x : Qc) : x ^ 1 = x.
Proof. simpl. ring. Qed.

Lemma pow_0 (x : Qc) : x ^ 0 = 1.
Proof. reflexivity. Qed.

Lemma pow_S (x : Qc) n : x ^ (S n) = x * x ^ n.
Proof. reflexivity. Qed.

(* ------------------------------------------------------------------ formal polynomials: linearity *)
Lemma mp_eval_app p q x : mp_eval (p ++ q) x = mp_eval p x + mp_eval q x.
Proof. unfold mp_eval. rewrite map_app, sumQ_app. reflexivity. Qed.

Lemma mp_int_app p q a b : mp_int (p ++ q) a b = mp_int p a b + mp_int q a b.
Proof. unfold mp_int. rewrite map_app, sumQ_app. reflexivity. Qed.

Lemma mp_eval_scale w p x : mp_eval (scale_mp w p) x = mp_eval p x * w.
Proof.
  unfold mp_eval, scale_mp. induction p as [|[c es] p IH]; simpl; [ring|]. rewrite IH. ring.
Qed.

Lemma mp_int_scale w p a b : mp_int (scale_mp w p) a b = mp_int p a b * w.
Proof.
  unfold mp_int, scale_mp. induction p as [|[c es] p IH]; simpl; [ring|]. rewrite IH. ring.
Qed.

Lemma mono_eval_zeros n x : mono_eval (repeat 0%nat n) x = 1.
Proof.
  revert x. induction n as [|n IH]; intros [|xi x]; simpl; try reflexivity. rewrite IH. ring.
Qed.

(* the formal integral is additive under splitting the box in its first coordinate ... *)
Lemma mono_int_split e es a m b A B :
  mono_int (e :: es) (a :: A) (m :: B) + mono_int (e :: es) (m :: A) (b :: B) = mono_int (e :: es) (a :: A) (b :: B).
Proof. simpl. field. apply qn_S_neq0. Qed.

Lemma mp_int_split_first p a m b A B :
  (forall c es, In (c, es) p -> es <> []) ->
  mp_int p (a :: A) (m :: B) + mp_int p (m :: A) (b :: B) = mp_int p (a :: A) (b :: B).
Proof.
  unfold mp_int. induction p as [|[c es] p IH]; intro H; simpl; [ring|].
  destruct es as [|e es]; [exfalso; apply (H c []); [left; reflexivity | reflexivity]|].
  rewrite <- IH by (intros c' es' Hi; apply (H c' es'); right; assumption).
  rewrite <- (mono_int_split e es a m b A B). cbn [fst snd]. ring.
Qed.

(* ... and the formal integral of the constant 1 is the volume of the box *)
Lemma mono_int_zeros a b : length a = length b -> mono_int (repeat 0%nat (length a)) a b = prodQ (map (fun ab => snd ab - fst ab) (combine a b)).
Proof.
  revert b. induction a as [|ai a IH]; intros [|bi b] H; simpl in *; try reflexivity; try discriminate.
  rewrite IH by lia. rewrite qn_1. cbn [fst snd]. unfold Qcdiv. rewrite Qcinv_1_local. ring.
Qed.

(* formal fundamental theorem in one variable: the monomial integral is F(b) - F(a) for F = x^(e+1)/(e+1), whose
   formal derivative (e+1) * x^e / (e+1) is the monomial x^e *)
Lemma mono_int_1d e a b : mono_int [e] [a] [b] = b ^ (S e) / qn (S e) - a ^ (S e) / qn (S e).
Proof. simpl. field. apply qn_S_neq0. Qed.

Lemma formal_derivative_of_antiderivative e : qn (S e) * (1 / qn (S e)) = 1.
Proof. field. apply qn_S_neq0. Qed.

(* ------------------------------------------------------------------ product classes: Linear, Polynomial *)
Lemma prod_eval_correct deg cs : forall x acc, length cs = length x ->
  prod_eval deg cs x acc = IVal (acc * (prodQ cs * mono_eval (repeat deg (length cs)) x)).
Proof.
  induction cs as [|c cs IH]; intros [|xi x] acc H; simpl in *; try discriminate.
  - f_equal. ring.
  - rewrite IH by lia. f_equal. ring.
Qed.

Lemma prod_int_correct deg cs : forall a b acc, length cs = length a -> length cs = length b ->
  prod_int deg cs a b acc = IVal (acc * (prodQ cs * mono_int (repeat deg (length cs)) a b)).
Proof.
  induction cs as [|c cs IH]; intros [|ai a] [|bi b] acc Ha Hb; simpl in *; try discriminate.
  - f_equal. ring.
  - rewrite IH by lia. f_equal. field. apply qn_S_neq0.
Qed.

Lemma single_mono_eval c es x : mp_eval [(c, es)] x = c * mono_eval es x.
Proof. unfold mp_eval. simpl. ring. Qed.
Lemma single_mono_int c es a b : mp_int [(c, es)] a b = c * mono_int es a b.
Proof. unfold mp_int. simpl. ring. Qed.

(* FunctionLinear.eval_vectorized computes the same number as the scalar loop *)
Lemma zip_mul_prod cs : forall x acc, length cs = length x ->
  prod_eval 1 cs x acc = IVal (acc * prodQ (zip_mul x cs)).
Proof.
  induction cs as [|c cs IH]; intros [|xi x] acc H; simpl in *; try discriminate.
  - f_equal. ring.
  - rewrite IH by lia. f_equal. ring.
Qed.

Theorem linear_vectorized_eq_scalar cs x : length cs = length x ->
  atom_eval (FLinear cs) x = IVal (linear_vectorized_row cs x).
Proof. intro H. simpl. rewrite zip_mul_prod by assumption. unfold linear_vectorized_row. f_equal. ring. Qed.

(* ------------------------------------------------------------------ Multilinear *)
Definition uv (s m d : nat) : list nat := map (fun i => if Nat.eqb i d then 1%nat else 0%nat) (seq s m).

Lemma unit_vec_uv n d : unit_vec n d = uv 0 n d.
Proof. reflexivity. Qed.

Lemma uv_eval_out m : forall s d x, (d < s)%nat -> mono_eval (uv s m d) x = 1.
Proof.
  induction m as [|m IH]; intros s d [|xi x] H; simpl; try reflexivity.
  destruct (Nat.eqb s d) eqn:E; [apply Nat.eqb_eq in E; lia|].
  unfold uv in IH. rewrite IH by lia. simpl. ring.
Qed.

Lemma sum_eval_dot cs : forall x acc, length cs = length x -> sum_eval cs x acc = IVal (acc + dotQ cs x).
Proof.
  induction cs as [|c cs IH]; intros [|xi x] acc H; simpl in *; try discriminate.
  - f_equal. ring.
  - rewrite IH by lia. f_equal. ring.
Qed.

Lemma uv_eval_cons s m d xi x :
  mono_eval (uv s (S m) d) (xi :: x) = xi ^ (if Nat.eqb s d then 1%nat else 0%nat) * mono_eval (uv (S s) m d) x.
Proof. reflexivity. Qed.

Lemma multilinear_denote_eval cs : forall x s, length cs = length x ->
  sumQ (map (fun m : mono => fst m * mono_eval (snd m) x)
            (map (fun dc : nat * Qc => (snd dc, uv s (length cs) (fst dc))) (combine (seq s (length cs)) cs)))
  = dotQ cs x.
Proof.
  induction cs as [|c cs IH]; intros [|xi x] s H; try discriminate; [reflexivity|].
  cbn [length seq combine map sumQ fst snd dotQ].
  rewrite uv_eval_cons, Nat.eqb_refl, pow_1, (uv_eval_out (length cs) (S s) s x) by lia.
  simpl in H. rewrite <- (IH x (S s)) by lia.
  rewrite !map_map. cbn [fst snd].
  rewrite (map_ext_in (fun dc : nat * Qc => snd dc * mono_eval (uv s (S (length cs)) (fst dc)) (xi :: x))
                      (fun dc : nat * Qc => snd dc * mono_eval (uv (S s) (length cs) (fst dc)) x)); [ring|].
  intros [d c'] Hi. apply in_combine_l in Hi. apply in_seq in Hi. cbn [fst snd].
  rewrite uv_eval_cons. destruct (Nat.eqb s d) eqn:E; [apply Nat.eqb_eq in E; lia|]. rewrite pow_0. ring.
Qed.

(* integral side *)
Fixpoint oth (d s : nat) (a b : list Qc) : Qc :=
  match a, b with
  | ai :: a', bi :: b' => (if Nat.eqb s d then 1 else bi - ai) * oth d (S s) a' b'
  | _, _ => 1
  end.

Lemma other_lengths_oth d : forall a b e acc, other_lengths d e a b acc = acc * oth d e a b.
Proof.
  induction a as [|ai a IH]; intros [|bi b] e acc; simpl; try ring.
  rewrite IH. destruct (Nat.eqb e d); ring.
Qed.

Lemma uv_int_cons s m d ai a bi b :
  mono_int (uv s (S m) d) (ai :: a) (bi :: b) =
  (bi ^ (S (if Nat.eqb s d then 1%nat else 0%nat)) - ai ^ (S (if Nat.eqb s d then 1%nat else 0%nat)))
    / qn (S (if Nat.eqb s d then 1%nat else 0%nat)) * mono_int (uv (S s) m d) a b.
Proof. reflexivity. Qed.

Lemma lin_factor (ai bi : Qc) : (bi ^ 1 - ai ^ 1) / qn 1 = bi - ai.
Proof. rewrite !pow_1, qn_1. unfold Qcdiv. rewrite Qcinv_1_local. ring. Qed.

Lemma quad_factor (ai bi : Qc) : (bi ^ 2 - ai ^ 2) / qn 2 = bi ^ 2 / qn 2 - ai ^ 2 / qn 2.
Proof. field. apply qn_S_neq0. Qed.

Lemma uv_int_out m : forall s d a b, (d < s)%nat -> length a = m -> length b = m -> mono_int (uv s m d) a b = oth d s a b.
Proof.
  induction m as [|m IH]; intros s d [|ai a] [|bi b] H Ha Hb; simpl in Ha, Hb; try discriminate; try reflexivity.
  rewrite uv_int_cons. cbn [oth].
  destruct (Nat.eqb s d) eqn:E; [apply Nat.eqb_eq in E; lia|].
  rewrite IH by lia. rewrite lin_factor. reflexivity.
Qed.

Lemma uv_int_hit : forall pa pb s ai bi a' b', length pa = length pb -> length a' = length b' ->
  mono_int (uv s (length (pa ++ ai :: a')) (s + length pa)) (pa ++ ai :: a') (pb ++ bi :: b')
  = (bi ^ 2 / qn 2 - ai ^ 2 / qn 2) * oth (s + length pa) s (pa ++ ai :: a') (pb ++ bi :: b').
Proof.
  induction pa as [|x pa IH]; intros [|y pb] s ai bi a' b' Hp Hq; simpl in Hp; try discriminate.
  - cbn [app length]. rewrite Nat.add_0_r. rewrite uv_int_cons. cbn [oth]. rewrite Nat.eqb_refl.
    rewrite (uv_int_out (length a') (S s) s a' b') by lia. rewrite quad_factor. ring.
  - cbn [app length]. rewrite uv_int_cons. cbn [oth].
    destruct (Nat.eqb s (s + S (length pa))) eqn:E; [apply Nat.eqb_eq in E; lia|].
    replace (s + S (length pa))%nat with (S s + length pa)%nat by lia.
    rewrite IH by lia. rewrite lin_factor. ring.
Qed.

Lemma multilin_fixed_loop_correct : forall cs pa pb a b acc,
  length pa = length pb -> length cs = length a -> length cs = length b ->
  multilin_int_fixed_loop (length (pa ++ a)) (pa ++ a) (pb ++ b) (length pa) cs a b acc =
  IVal (acc + sumQ (map (fun m : mono => fst m * mono_int (snd m) (pa ++ a) (pb ++ b))
                        (map (fun dc : nat * Qc => (snd dc, uv 0 (length (pa ++ a)) (fst dc)))
                             (combine (seq (length pa) (length cs)) cs)))).
Proof.
  induction cs as [|c cs IH]; intros pa pb [|ai a] [|bi b] acc Hp Ha Hb; simpl in Ha, Hb; try discriminate.
  - simpl. f_equal. ring.
  - cbn [multilin_int_fixed_loop].
    assert (length (pa ++ ai :: a) = length (pb ++ bi :: b)) as Hlen by (rewrite !app_length; simpl; lia).
    rewrite firstn_all. rewrite Hlen at 2. rewrite firstn_all.
    rewrite other_lengths_oth.
    pose proof (uv_int_hit pa pb 0 ai bi a b Hp ltac:(lia)) as Hhit. cbn [Nat.add] in Hhit.
    cbn [length seq combine map sumQ fst snd]. rewrite Hhit.
    assert (pa ++ ai :: a = (pa ++ [ai]) ++ a) as Ea by (rewrite <- app_assoc; reflexivity).
    assert (pb ++ bi :: b = (pb ++ [bi]) ++ b) as Eb by (rewrite <- app_assoc; reflexivity).
    assert (S (length pa) = length (pa ++ [ai])) as El by (rewrite app_length; simpl; lia).
    rewrite Ea, Eb, El.
    rewrite IH by (rewrite ?app_length; simpl; lia).
    f_equal. ring.
Qed.

(* ------------------------------------------------------------------ Polynomial1d *)
Lemma poly1d_eval_sum cs : forall x i acc,
  poly1d_eval cs x i acc = acc + sumQ (map (fun ic : nat * Qc => snd ic * x ^ (fst ic)) (combine (seq i (length cs)) cs)).
Proof.
  induction cs as [|c cs IH]; intros x i acc; simpl; [ring|]. rewrite IH. ring.
Qed.

Lemma poly1d_denote_eval cs x0 : forall i,
  sumQ (map (fun m : mono => fst m * mono_eval (snd m) [x0])
            (map (fun ic : nat * Qc => (snd ic, [fst ic])) (combine (seq i (length cs)) cs)))
  = sumQ (map (fun ic : nat * Qc => snd ic * x0 ^ (fst ic)) (combine (seq i (length cs)) cs)).
Proof.
  induction cs as [|c cs IH]; intro i; simpl; [reflexivity|]. rewrite IH. ring.
Qed.

Lemma poly1d_antider_diff cs : forall i a b acca accb,
  poly1d_eval (antider_coeffs cs (S i)) b (S i) accb - poly1d_eval (antider_coeffs cs (S i)) a (S i) acca
  = accb - acca + sumQ (map (fun m : mono => fst m * mono_int (snd m) [a] [b])
                            (map (fun ic : nat * Qc => (snd ic, [fst ic])) (combine (seq i (length cs)) cs))).
Proof.
  induction cs as [|c cs IH]; intros i a b acca accb; simpl; [ring|].
  rewrite IH. cbn [fst snd]. field. apply qn_S_neq0.
Qed.

Lemma multilinear_mp_eval cs x : length cs = length x ->
  mp_eval (atom_denote (length cs) (FMultilinear cs)) x = dotQ cs x.
Proof. intro H. exact (multilinear_denote_eval cs x 0%nat H). Qed.

Lemma multilinear_mp_int cs a b : length cs = length a -> length cs = length b ->
  multilin_int_fixed cs a b = IVal (mp_int (atom_denote (length cs) (FMultilinear cs)) a b).
Proof.
  intros Ha Hb. unfold multilin_int_fixed. rewrite <- Ha, <- Hb, Nat.leb_refl. cbn [andb].
  pose proof (multilin_fixed_loop_correct cs [] [] a b 0 eq_refl Ha Hb) as H. cbn [app length] in H.
  rewrite <- Ha in H. rewrite H. f_equal. unfold mp_int. cbn [atom_denote].
  change (unit_vec (length cs)) with (uv 0 (length cs)). rewrite Qcplus_0_l. reflexivity.
Qed.

(* ================================================================== class theorems *)
Theorem atom_eval_is_poly n f x : atom_dim_ok n f = true -> length x = n ->
  atom_eval f x = IVal (mp_eval (atom_denote n f) x).
Proof.
  intros Hd Hx. destruct f as [v|cs|cs|cs deg|cs]; simpl in Hd; try apply Nat.eqb_eq in Hd; cbn [atom_eval].
  - cbn [atom_denote]. rewrite single_mono_eval, mono_eval_zeros. f_equal. ring.
  - cbn [atom_denote]. rewrite prod_eval_correct by lia. rewrite single_mono_eval, Hd. f_equal. ring.
  - rewrite sum_eval_dot by lia. rewrite <- Hd. rewrite multilinear_mp_eval by lia. f_equal. ring.
  - cbn [atom_denote]. rewrite prod_eval_correct by lia. rewrite single_mono_eval, Hd. f_equal. ring.
  - cbn [atom_denote]. subst n. destruct x as [|x0 [|? ?]]; simpl in Hx; try discriminate.
    rewrite poly1d_eval_sum. unfold mp_eval. rewrite poly1d_denote_eval. f_equal. ring.
Qed.

Theorem atom_int_fixed_correct n f a b : atom_dim_ok n f = true -> length a = n -> length b = n ->
  atom_int true f a b = IVal (mp_int (atom_denote n f) a b).
Proof.
  intros Hd Ha Hb. destruct f as [v|cs|cs|cs deg|cs]; simpl in Hd; try apply Nat.eqb_eq in Hd; cbn [atom_int].
  - cbn [atom_denote]. unfold const_int_fixed. rewrite single_mono_int. subst n.
    assert (forall a b acc, length a = length b -> volume a b acc = IVal (acc * prodQ (map (fun ab => snd ab - fst ab) (combine a b)))) as Hv.
    { clear. induction a as [|ai a IH]; intros [|bi b] acc H; simpl in *; try discriminate; [f_equal; ring|].
      rewrite IH by lia. f_equal. ring. }
    rewrite Hv by lia. rewrite mono_int_zeros by lia. f_equal. ring.
  - cbn [atom_denote]. rewrite prod_int_correct by lia. rewrite single_mono_int, Hd. f_equal. ring.
  - rewrite <- Hd. apply multilinear_mp_int; lia.
  - cbn [atom_denote]. rewrite prod_int_correct by lia. rewrite single_mono_int, Hd. f_equal. ring.
  - cbn [atom_denote]. subst n. destruct a as [|a0 [|? ?]]; simpl in Hb; try discriminate.
    destruct b as [|b0 [|? ?]]; simpl in Hb; try discriminate.
    unfold poly1d_int, poly1d_antider. simpl poly1d_eval.
    rewrite (poly1d_antider_diff cs 0 a0 b0). unfold mp_int. f_equal.
    match goal with |- _ + ?X = ?Y => change Y with X end. ring.
Qed.

(* the integrals as they are coded today *)
Definition cur_integral_sound (f : atom) : bool :=
  match f with FLinear _ | FPolynomial _ _ | FPoly1d _ => true | FMultilinear cs => Nat.eqb (length cs) 1 | FConst _ => false end.

Theorem atom_int_cur_correct n f a b : cur_integral_sound f = true ->
  atom_dim_ok n f = true -> length a = n -> length b = n ->
  atom_int false f a b = IVal (mp_int (atom_denote n f) a b).
Proof.
  intros Hs Hd Ha Hb. destruct f as [v|cs|cs|cs deg|cs]; simpl in Hs; try discriminate;
    try exact (atom_int_fixed_correct n _ a b Hd Ha Hb).
  (* one-dimensional multilinear: no other dimension whose length could be missing *)
  rewrite <- (atom_int_fixed_correct n _ a b Hd Ha Hb).
  apply Nat.eqb_eq in Hs. simpl in Hd. apply Nat.eqb_eq in Hd.
  destruct cs as [|c [|? ?]]; simpl in Hs; try discriminate. subst n.
  destruct a as [|a0 [|? ?]]; simpl in Ha; try discriminate. destruct b as [|b0 [|? ?]]; simpl in Hb; try discriminate.
  cbv [atom_int multilin_int_cur multilin_int_fixed multilin_int_fixed_loop length Nat.leb andb firstn other_lengths Nat.eqb]. f_equal. ring.
Qed.

Theorem multilinear_integral_refuted :
  exists cs a b, length cs = length a /\ length cs = length b /\
    atom_int false (FMultilinear cs) a b <> IVal (mp_int (atom_denote (length cs) (FMultilinear cs)) a b).
Proof.
  exists [1; Qc2], [0; 0], [Qc2; Q2Qc (3 # 1)]. split; [reflexivity|]. split; [reflexivity|].
  vm_compute. intro H. injection H as H. discriminate.
Qed.

Theorem constant_integral_refuted v a b : length a = length b ->
  atom_int false (FConst v) a b = INone /\ atom_int false (FConst v) a b <> IVal (mp_int (atom_denote (length a) (FConst v)) a b).
Proof.
  intro H. assert (atom_int false (FConst v) a b = INone) as E.
  { simpl. unfold const_int_cur.
    assert (forall a b acc, length a = length b -> exists w, volume a b acc = IVal w) as Hv.
    { clear. induction a as [|ai a IH]; intros [|bi b] acc H; simpl in *; try discriminate; [eexists; reflexivity|].
      apply IH. lia. }
    destruct (Hv a b 1 H) as [w ->]. reflexivity. }
  split; [exact E | rewrite E; discriminate].
Qed.

(* ------------------------------------------------------------------ FunctionCompose *)
Lemma compose_fold_correct (g : atom -> ires) (q : atom -> Qc) fs : forall acc,
  (forall f w, In (f, w) fs -> g f = IVal (q f)) ->
  compose_fold g fs acc = IVal (acc + sumQ (map (fun fw => q (fst fw) * snd fw) fs)).
Proof.
  induction fs as [|[f w] fs IH]; intros acc H; simpl; [f_equal; ring|].
  rewrite (H f w) by (left; reflexivity). rewrite IH by (intros f' w' Hi; apply (H f' w'); right; assumption).
  f_equal. ring.
Qed.

Theorem fn_eval_is_poly n f x : fn_dim_ok n f = true -> length x = n ->
  fn_eval f x = IVal (mp_eval (fn_denote n f) x).
Proof.
  intros Hd Hx. destruct f as [g|fs]; [apply atom_eval_is_poly; assumption|].
  simpl in *. rewrite (compose_fold_correct _ (fun g => mp_eval (atom_denote n g) x)).
  - f_equal. induction fs as [|[g w] fs IH]; simpl; [reflexivity|].
    simpl in Hd. apply andb_true_iff in Hd. destruct Hd as [_ Hd].
    rewrite mp_eval_app, mp_eval_scale, <- IH by assumption. ring.
  - intros g w Hi. apply atom_eval_is_poly; [|assumption].
    rewrite forallb_forall in Hd. apply (Hd (g, w)). assumption.
Qed.

Theorem fn_int_fixed_correct n f a b : fn_dim_ok n f = true -> length a = n -> length b = n ->
  fn_int true f a b = IVal (mp_int (fn_denote n f) a b).
Proof.
  intros Hd Ha Hb. destruct f as [g|fs]; [apply atom_int_fixed_correct; assumption|].
  simpl in *. rewrite (compose_fold_correct _ (fun g => mp_int (atom_denote n g) a b)).
  - f_equal. induction fs as [|[g w] fs IH]; simpl; [reflexivity|].
    simpl in Hd. apply andb_true_iff in Hd. destruct Hd as [_ Hd].
    rewrite mp_int_app, mp_int_scale, <- IH by assumption. ring.
  - intros g w Hi. apply atom_int_fixed_correct; try assumption.
    rewrite forallb_forall in Hd. apply (Hd (g, w)). assumption.
Qed.
