(* C16: the d-dimensional system matrix of the density estimation (tensor hats on the cross product of arbitrary
   strictly increasing stripes, resp. on a uniform level vector) is SYMMETRIC POSITIVE DEFINITE for every lambda >= 0,
   in every dimension.  Instance of Proofs/KronSOS.v:

     1D:  the Gram entries of the hats of a stripe x_0 < x_1 < ... < x_n have the weighted sum-of-squares representation
              G(t,u) = sum over the cells [x_k,x_k+1] of  h_k/6 * ( d_k(t) d_k(u) + d_k+1(t) d_k+1(u) + (d_k+d_k+1)(t) (d_k+d_k+1)(u) )
          (d_k = indicator of the hat centred at x_k), i.e. v^T G v = sum_k h_k/6 (v_k^2 + v_k+1^2 + (v_k+v_k+1)^2);
     dD:  the entry Rval is the product of the 1D entries (incl. the coded adjacency test), so the representation
          is the tensor product of the 1D ones; kernels stay trivial; hence positive definite.
   Consequences: the linear system has at most one solution (an accepted certificate IS the solution). *)
From Coq Require Import ZArith List QArith Qcanon Bool Lia Lqa.
From SG Require Import Base.QcUtil Model.Gram Proofs.GramHat Proofs.GramEntries Proofs.GramPD Proofs.GramNorm Proofs.KronSOS Proofs.StripeSOS.
Import ListNotations.
Open Scope Qc_scope.
Local Arguments Z.add : simpl never.
Local Arguments Z.sub : simpl never.

(* ------------------------------------------------------------------ 1D, non-uniform stripes *)
Definition cell_terms (x0 x1 : Qc) : list (term hatdom) :=
  let c := (x1 - x0) / Qc6 in
  [(c, delta x0); (c, delta x1); (c, fun t => delta x0 t + delta x1 t)].

Definition hat_terms (xs : list Qc) : list (term hatdom) := stripe_terms cell_terms xs.

Definition e_hat (t u : hatdom) : Qc := Rval [t] [u].

Lemma Qc6_nz : Qc6 <> 0.
Proof. intro E. apply Qc_eq_Qeq in E. discriminate. Qed.
Lemma Qc3_nz : Qc3 <> 0.
Proof. intro E. apply Qc_eq_Qeq in E. discriminate. Qed.

Lemma cell_val x0 x1 t u :
  sos_val (cell_terms x0 x1) t u
  = (x1 - x0) / Qc3 * (delta x0 t * delta x0 u + delta x1 t * delta x1 u)
    + (x1 - x0) / Qc6 * (delta x0 t * delta x1 u + delta x1 t * delta x0 u).
Proof.
  unfold sos_val, cell_terms. cbn [map sumQ fst snd]. rewrite Qc3_eq, Qc6_eq. field.
  split; intro E; apply Qc_eq_Qeq in E; discriminate.
Qed.

Lemma hat_diag x0 x1 x2 : x0 < x1 -> x1 < x2 -> e_hat (mkH x0 x1 x2) (mkH x0 x1 x2) = (x1 - x0) / Qc3 + (x2 - x1) / Qc3.
Proof. intros H01 H12. unfold e_hat. rewrite (diag_entry x0 x1 x2 H01 H12). field. exact Qc3_nz. Qed.

(* entries against the first window *)
Lemma first_vs_rest x0 x1 x2 rest u : strictly_inc (x0 :: x1 :: x2 :: rest) -> In u (windows (x1 :: x2 :: rest)) ->
  e_hat (mkH x0 x1 x2) u = (x2 - x1) / Qc6 * delta x2 u /\ e_hat u (mkH x0 x1 x2) = (x2 - x1) / Qc6 * delta x2 u.
Proof.
  intros [H01 Hs1] Hu. pose proof Hs1 as [H12 _]. unfold e_hat.
  assert (N12 : x1 <> x2) by (apply lt_neq; exact H12).
  destruct (rest_windows_cases x1 x2 rest u Hs1 Hu) as [[x3 [E1 [E2 [E3 H23]]]]|[Hgt Hlo]].
  - destruct u as [ul up uh]. cbn [h_lo h_p h_hi] in *. subst ul up uh.
    rewrite !Rval1. unfold in_dom; cbn [h_lo h_p h_hi]. rewrite (delta_eq x2) by reflexivity.
    assert (A : Qc_leb x0 x2 = true) by (apply Qc_leb_le; qc_order).
    assert (B : Qc_leb x2 x2 = true) by (apply Qc_leb_le; apply Qcle_refl).
    assert (C : Qc_leb x1 x1 = true) by (apply Qc_leb_le; apply Qcle_refl).
    assert (D : Qc_leb x1 x3 = true) by (apply Qc_leb_le; qc_order).
    rewrite A, B, C, D. cbn [andb].
    rewrite !R1_distinct by (cbn [h_p]; first [exact N12 | intro E; apply N12; symmetry; exact E]).
    cbn [h_p]. rewrite (Qc_abs_neg_eq (x1 - x2)) by qc_order. rewrite (Qc_abs_nonneg_eq (x2 - x1)) by qc_order.
    split; field; exact Qc6_nz.
  - rewrite !Rval1. unfold in_dom; cbn [h_lo h_p h_hi].
    rewrite (delta_neq x2 u) by (apply gt_neq; exact Hgt).
    assert (B : Qc_leb (h_p u) x2 = false) by (apply Qc_leb_false; exact Hgt).
    assert (C : Qc_leb (h_lo u) x1 = false) by (apply Qc_leb_false; qc_order).
    rewrite B, C, andb_false_r. cbn [andb]. split; ring.
Qed.

Theorem hat_represents xs : strictly_inc xs -> represents e_hat (hat_terms xs) (windows xs).
Proof.
  apply (stripe_represents e_hat cell_terms (fun x0 x1 => (x1 - x0) / Qc3) (fun x0 x1 => (x1 - x0) / Qc6)).
  - exact cell_val.
  - exact hat_diag.
  - exact first_vs_rest.
Qed.

Lemma hat_terms_pos xs : strictly_inc xs -> coeffs_pos (hat_terms xs).
Proof.
  apply stripe_terms_Forall. intros x0 x1 H01.
  assert (P : 0 < (x1 - x0) / Qc6).
  { apply div_pos; [rewrite Qc6_eq; qc_order | apply sub_pos; exact H01]. }
  unfold cell_terms. repeat constructor; exact P.
Qed.

Lemma sym_matrix_map {A B} (f : A -> B) (e : B -> B -> Qc) lam pts :
  sym_matrix e lam (map f pts) = sym_matrix (fun t u => e (f t) (f u)) lam pts.
Proof.
  induction pts as [|t ts IH]; [reflexivity|]. cbn [map sym_matrix]. rewrite IH, map_map. reflexivity.
Qed.

Lemma hat_kerT xs : strictly_inc xs -> kerT (hat_terms xs) (windows xs).
Proof.
  intro Hs. apply (kerT_of_pd e_hat); [apply hat_represents; exact Hs|].
  intros v Hl Ex. pose proof (gram_1d_positive_definite xs v 0 Hs Hl (Qcle_refl 0) Ex) as P.
  unfold R_matrix_nonuniform, pts1 in P. rewrite sym_matrix_map in P. exact P.
Qed.

Definition hat_fam (xs : list Qc) : fam hatdom := mkFam (windows xs) e_hat (hat_terms xs).

Lemma hat_fam_ok xs : strictly_inc xs -> fam_ok (hat_fam xs).
Proof. intro Hs. split; [|split]; [apply hat_represents | apply hat_terms_pos | apply hat_kerT]; exact Hs. Qed.

(* ------------------------------------------------------------------ d dimensions: the coded entry is the product *)
Lemma Rval_cons a b t u : Rval (a :: t) (b :: u) = Rval [a] [b] * Rval t u.
Proof.
  unfold Rval. cbn [forallb2 map2 prodQ]. destruct (in_dom a b); cbn [andb]; [|ring].
  destruct (forallb2 in_dom t u); ring.
Qed.

Lemma Rval_eprod stripes : forall t u,
  In t (cross (map windows stripes)) -> In u (cross (map windows stripes)) -> Rval t u = eprod (map hat_fam stripes) t u.
Proof.
  induction stripes as [|xs stripes IH]; intros t u Ht Hu; cbn [map cross] in Ht, Hu.
  - destruct Ht as [Ht|[]]; destruct Hu as [Hu|[]]. subst. reflexivity.
  - apply in_cross_cons in Ht. destruct Ht as [a [t' [Et [Ha Ht']]]].
    apply in_cross_cons in Hu. destruct Hu as [b [u' [Eu [Hb Hu']]]]. subst t u.
    rewrite Rval_cons. cbn [map eprod hat_fam f_e]. rewrite (IH t' u' Ht' Hu'). reflexivity.
Qed.

Lemma kron_pts_hat stripes : kron_pts (map hat_fam stripes) = cross (map windows stripes).
Proof. unfold kron_pts. rewrite map_map. reflexivity. Qed.

(* MAIN THEOREM: positive definiteness in every dimension, every strictly increasing stripes, every lambda >= 0 *)
Theorem gram_nd_positive_definite stripes lam v :
  Forall strictly_inc stripes -> 0 <= lam -> length v = length (cross (map windows stripes)) ->
  Exists (fun x => x <> 0) v ->
  0 < quad (R_matrix_nonuniform (cross (map windows stripes)) lam) v.
Proof.
  intros Hs Hlam Hl Ex. unfold R_matrix_nonuniform. rewrite <- kron_pts_hat in *.
  apply kron_pd; try assumption.
  - apply Forall_forall. intros F HF. apply in_map_iff in HF. destruct HF as [xs [E Hx]]. subst F.
    apply hat_fam_ok. exact (proj1 (Forall_forall _ _) Hs xs Hx).
  - intros t u Ht Hu. rewrite kron_pts_hat in Ht, Hu. apply Rval_eprod; assumption.
Qed.

(* v^T G v as an explicit weighted sum of squares (all weights positive) *)
Theorem gram_nd_quadratic_form_is_sos stripes lam v :
  Forall strictly_inc stripes -> length v = length (cross (map windows stripes)) ->
  quad (R_matrix_nonuniform (cross (map windows stripes)) lam) v
  = sos_form (Tprod (map hat_fam stripes)) (cross (map windows stripes)) v + lam * dotQ v v
  /\ coeffs_pos (Tprod (map hat_fam stripes)).
Proof.
  intros Hs Hl. split.
  - unfold R_matrix_nonuniform. apply quad_sos; [|exact Hl].
    intros t u Ht Hu. rewrite (Rval_eprod stripes t u Ht Hu). rewrite <- kron_pts_hat in Ht, Hu.
    apply kron_represents; [|assumption|assumption].
    apply Forall_forall. intros F HF. apply in_map_iff in HF. destruct HF as [xs [E Hx]]. subst F.
    apply hat_represents. exact (proj1 (Forall_forall _ _) Hs xs Hx).
  - apply kron_coeffs_pos. apply Forall_forall. intros F HF. apply in_map_iff in HF. destruct HF as [xs [E Hx]]. subst F.
    apply hat_terms_pos. exact (proj1 (Forall_forall _ _) Hs xs Hx).
Qed.

(* the grid the code works on: stripes of the unit interval (0 first, 1 last) *)
Definition unit_stripe (xs : list Qc) : Prop := strictly_inc xs /\ hd 0 xs = 0 /\ last xs 0 = 1.

Lemma grid_hats_windows stripes : Forall unit_stripe stripes -> grid_hats stripes = cross (map windows stripes).
Proof.
  intro H. unfold grid_hats. f_equal. apply map_ext_in. intros xs Hx.
  destruct (proj1 (Forall_forall _ _) H xs Hx) as [_ [H0 H1]]. apply stripe_hats_windows; assumption.
Qed.

Theorem gram_grid_positive_definite stripes lam v :
  Forall unit_stripe stripes -> 0 <= lam -> length v = length (grid_hats stripes) -> Exists (fun x => x <> 0) v ->
  0 < quad (R_matrix_nonuniform (grid_hats stripes) lam) v.
Proof.
  intros H Hlam Hl Ex. rewrite (grid_hats_windows stripes H) in *.
  apply gram_nd_positive_definite; try assumption.
  eapply Forall_impl; [|exact H]. intros xs Hx. apply Hx.
Qed.

(* ------------------------------------------------------------------ positive definite => at most one solution *)
Definition vsub (x y : list Qc) : list Qc := map2 (fun a b => a - b) x y.

Lemma dotQ_vsub row x y : length x = length row -> length y = length row ->
  dotQ row (vsub x y) = dotQ row x - dotQ row y.
Proof.
  revert x y; induction row as [|r row IH]; intros [|a x] [|b y] H1 H2; simpl in *; try discriminate; [ring|].
  unfold vsub in IH. rewrite IH by lia. ring.
Qed.

Lemma sym_matrix_rows {A} (e : A -> A -> Qc) lam pts :
  Forall (fun row => length row = length pts) (sym_matrix e lam pts).
Proof.
  induction pts as [|t ts IH]; [constructor|]. cbn [sym_matrix]. constructor.
  - cbn [length]. rewrite map_length. reflexivity.
  - assert (L : length (map (e t) ts) = length (sym_matrix e lam ts)) by (rewrite map_length, sym_matrix_length; reflexivity).
    revert L IH. generalize (map (e t) ts) (sym_matrix e lam ts). intros r G. revert G.
    induction r as [|x r IHr]; intros [|row G] L F; cbn [map2]; try constructor; try discriminate.
    + inversion F; subst. cbn [length]. f_equal. assumption.
    + inversion F; subst. apply IHr; [simpl in L; lia | assumption].
Qed.

Lemma all_zero_vsub x y : length x = length y -> all_zero (vsub x y) -> x = y.
Proof.
  revert y; induction x as [|a x IH]; intros [|b y] Hl Hz; simpl in *; try discriminate; [reflexivity|].
  inversion Hz as [|? ? Z1 Z2]; subst. f_equal; [qc_order | apply IH; [lia | exact Z2]].
Qed.

Lemma vsub_length x y : length x = length y -> length (vsub x y) = length x.
Proof. intro H. unfold vsub. apply map2_length. symmetry. exact H. Qed.

Lemma dotQ_zeros_r v w : all_zero w -> dotQ v w = 0.
Proof.
  revert w; induction v as [|a v IH]; intros [|b w] Hz; simpl; try reflexivity.
  inversion Hz; subst. rewrite IH by assumption. ring.
Qed.

Theorem pd_solution_unique (G : list (list Qc)) n :
  Forall (fun row => length row = n) G ->
  (forall v, length v = n -> Exists (fun x => x <> 0) v -> 0 < quad G v) ->
  forall x y b, length x = n -> length y = n -> matvec G x = b -> matvec G y = b -> x = y.
Proof.
  intros Hrows PD x y b Hx Hy Ex Ey. apply all_zero_vsub; [lia|].
  destruct (all_zero_dec (vsub x y)) as [Zr|NZ]; [exact Zr|]. exfalso.
  pose proof (PD (vsub x y) ltac:(rewrite vsub_length; lia) NZ) as P.
  assert (E : all_zero (matvec G (vsub x y))).
  { unfold matvec in *. subst b. apply Forall_forall. intros z Hz. apply in_map_iff in Hz.
    destruct Hz as [row [Ez Hrow]]. subst z.
    pose proof (proj1 (Forall_forall _ _) Hrows row Hrow) as Lr. cbn beta in Lr.
    rewrite dotQ_vsub by lia.
    assert (Q : dotQ row y = dotQ row x).
    { clear - Ey Hrow. induction G as [|r0 G IH]; [destruct Hrow|]. cbn [map] in Ey. injection Ey as E0 E1.
      destruct Hrow as [H|H]; [subst; exact E0 | apply IH; assumption]. }
    rewrite Q. ring. }
  unfold quad in P. rewrite (dotQ_zeros_r _ _ E) in P. exact (Qclt_not_le _ _ P (Qcle_refl 0)).
Qed.

Theorem gram_grid_solution_unique stripes lam x y b :
  Forall unit_stripe stripes -> 0 <= lam ->
  length x = length (grid_hats stripes) -> length y = length (grid_hats stripes) ->
  matvec (R_matrix_nonuniform (grid_hats stripes) lam) x = b ->
  matvec (R_matrix_nonuniform (grid_hats stripes) lam) y = b -> x = y.
Proof.
  intros H Hlam Hx Hy. apply (pd_solution_unique _ (length (grid_hats stripes))); try assumption.
  - apply sym_matrix_rows.
  - intros v Hl Ex. apply gram_grid_positive_definite; assumption.
Qed.

(* ------------------------------------------------------------------ uniform level vectors (build_R_matrix) *)
Definition dz (k i : Z) : Qc := if (i =? k)%Z then 1 else 0.
Definition u1 (l i j : Z) : Qc := if (i =? j)%Z then diag1 l else if (Z.abs (i - j) <=? 1)%Z then off1 l else 0.

Definition ucell (l k : Z) : list (term Z) :=
  [(off1 l, dz k); (off1 l, dz (k + 1)); (off1 l, fun i => dz k i + dz (k + 1) i)].
Definition uni_terms (l : Z) : list (term Z) := flat_map (ucell l) (zrange_from 0 (Z.to_nat (2 ^ l))).
Definition uni_pts (l : Z) : list Z := zrange_from 1 (Z.to_nat (num_points l)).
Definition uni_fam (l : Z) : fam Z := mkFam (uni_pts l) (u1 l) (uni_terms l).

Lemma sos_val_flat_map {A K} (f : K -> list (term A)) ks t u :
  sos_val (flat_map f ks) t u = sumQ (map (fun k => sos_val (f k) t u) ks).
Proof. induction ks as [|k ks IH]; [reflexivity|]. cbn [flat_map map sumQ]. rewrite sos_val_app, IH. reflexivity. Qed.

Lemma sum_indicator (X : Qc) i a n :
  sumQ (map (fun k => if (k =? i)%Z then X else 0) (zrange_from a n))
  = if ((a <=? i)%Z && (i <? a + Z.of_nat n)%Z)%bool then X else 0.
Proof.
  revert a; induction n as [|n IH]; intro a.
  - cbn [zrange_from map sumQ]. destruct (a <=? i)%Z eqn:A; cbn [andb]; [|reflexivity].
    destruct (i <? a + Z.of_nat 0)%Z eqn:B; [|reflexivity]. apply Z.leb_le in A. apply Z.ltb_lt in B. lia.
  - cbn [zrange_from map sumQ]. rewrite IH.
    destruct (Z.eqb_spec a i) as [E|N].
    + subst a. assert (A : (i + 1 <=? i)%Z = false) by (apply Z.leb_gt; lia). rewrite A. cbn [andb].
      assert (B : (i <=? i)%Z = true) by (apply Z.leb_le; lia).
      assert (C : (i <? i + Z.of_nat (S n))%Z = true) by (apply Z.ltb_lt; lia). rewrite B, C. cbn [andb]. ring.
    + destruct (a + 1 <=? i)%Z eqn:A; destruct (a <=? i)%Z eqn:B; cbn [andb];
        try apply Z.leb_le in A; try apply Z.leb_gt in A; try apply Z.leb_le in B; try apply Z.leb_gt in B; try lia.
      * replace (a + 1 + Z.of_nat n)%Z with (a + Z.of_nat (S n))%Z by lia. ring.
      * ring.
Qed.

Lemma diag1_off1 l : diag1 l = (1 + 1) * (1 + 1) * off1 l.
Proof.
  unfold diag1, off1. rewrite Qc3_eq, Qc12_eq. pose proof (Qc_pos_nz _ (pow2z_pos (l - 1))) as Hnz.
  field. repeat split; try exact Hnz; intro E; apply Qc_eq_Qeq in E; discriminate.
Qed.

Lemma ucell_val l k i j :
  sos_val (ucell l k) i j
  = (if (k =? i)%Z then off1 l * ((1 + 1) * dz i j + dz (i + 1) j) else 0)
    + (if (k =? i - 1)%Z then off1 l * ((1 + 1) * dz i j + dz (i - 1) j) else 0).
Proof.
  unfold sos_val, ucell. cbn [map sumQ fst snd]. unfold dz.
  destruct (Z.eqb_spec k i) as [E1|N1]; destruct (Z.eqb_spec k (i - 1)) as [E2|N2]; try lia.
  - subst k. rewrite Z.eqb_refl. assert (A : (i =? i + 1)%Z = false) by (apply Z.eqb_neq; lia). rewrite A. ring.
  - subst k. replace (i - 1 + 1)%Z with i by lia. rewrite Z.eqb_refl.
    assert (A : (i =? i - 1)%Z = false) by (apply Z.eqb_neq; lia). rewrite A. ring.
  - assert (A : (i =? k)%Z = false) by (apply Z.eqb_neq; lia).
    assert (B : (i =? k + 1)%Z = false) by (apply Z.eqb_neq; lia). rewrite A, B. ring.
Qed.

Lemma zrange_in a n i : In i (zrange_from a n) -> (a <= i)%Z /\ (i < a + Z.of_nat n)%Z.
Proof.
  revert a; induction n as [|n IH]; intros a H; [destruct H|]. cbn [zrange_from] in H. destruct H as [H|H].
  - subst. lia.
  - destruct (IH _ H). lia.
Qed.

Lemma uni_pts_bounds l i : In i (uni_pts l) -> (1 <= i)%Z /\ (i + 1 <= 2 ^ l)%Z.
Proof. intro H. apply zrange_in in H. unfold num_points in H. lia. Qed.

Theorem uni_represents l : represents (u1 l) (uni_terms l) (uni_pts l).
Proof.
  intros i j Hi Hj. apply uni_pts_bounds in Hi. apply uni_pts_bounds in Hj.
  unfold uni_terms. rewrite sos_val_flat_map.
  rewrite (map_ext _ _ (fun k => ucell_val l k i j)). rewrite sumQ_map_add, !sum_indicator.
  assert (N : Z.of_nat (Z.to_nat (2 ^ l)) = (2 ^ l)%Z) by lia. rewrite N.
  assert (A : ((0 <=? i)%Z && (i <? 0 + 2 ^ l)%Z)%bool = true) by (apply andb_true_iff; split; [apply Z.leb_le | apply Z.ltb_lt]; lia).
  assert (B : ((0 <=? i - 1)%Z && (i - 1 <? 0 + 2 ^ l)%Z)%bool = true) by (apply andb_true_iff; split; [apply Z.leb_le | apply Z.ltb_lt]; lia).
  rewrite A, B. unfold u1, dz.
  destruct (Z.eqb_spec i j) as [E|NE].
  - subst j. rewrite Z.eqb_refl.
    assert (C : (i =? i + 1)%Z = false) by (apply Z.eqb_neq; lia).
    assert (D : (i =? i - 1)%Z = false) by (apply Z.eqb_neq; lia). rewrite C, D, diag1_off1. ring.
  - assert (C : (j =? i)%Z = false) by (apply Z.eqb_neq; lia). rewrite C.
    destruct (Z.abs (i - j) <=? 1)%Z eqn:Ab.
    + apply Z.leb_le in Ab. destruct (Z.eqb_spec j (i + 1)) as [E1|N1].
      * assert (D : (j =? i - 1)%Z = false) by (apply Z.eqb_neq; lia). rewrite D. ring.
      * assert (D : (j =? i - 1)%Z = true) by (apply Z.eqb_eq; lia). rewrite D. ring.
    + apply Z.leb_gt in Ab.
      assert (D : (j =? i + 1)%Z = false) by (apply Z.eqb_neq; lia).
      assert (E : (j =? i - 1)%Z = false) by (apply Z.eqb_neq; lia). rewrite D, E. ring.
Qed.

Lemma off1_pos l : 0 < off1 l.
Proof.
  unfold off1. pose proof (pow2z_pos (l - 1)) as P.
  assert (Q : 0 < pow2z (l - 1) * Qc12).
  { replace 0 with (0 * Qc12) by ring. apply Qcmult_lt_compat_r; [rewrite Qc12_eq; qc_order | exact P]. }
  apply div_pos; [exact Q | qc_order].
Qed.

Lemma uni_terms_pos l : coeffs_pos (uni_terms l).
Proof.
  apply Forall_forall. intros m Hm. unfold uni_terms in Hm. apply in_flat_map in Hm. destruct Hm as [k [_ Hm]].
  pose proof (off1_pos l) as P.
  unfold ucell in Hm. destruct Hm as [E|[E|[E|[]]]]; subst m; exact P.
Qed.

Lemma dot_indicator_out k a n v : (k < a)%Z -> dotQ (map (dz k) (zrange_from a n)) v = 0.
Proof.
  revert a v; induction n as [|n IH]; intros a v H; [reflexivity|].
  cbn [zrange_from map]. destruct v as [|y v]; [reflexivity|]. cbn [dotQ]. unfold dz at 1.
  assert (A : (a =? k)%Z = false) by (apply Z.eqb_neq; lia). rewrite A. rewrite IH by lia. ring.
Qed.

Lemma dot_indicator k a n v : (a <= k)%Z -> (k < a + Z.of_nat n)%Z ->
  dotQ (map (dz k) (zrange_from a n)) v = nth (Z.to_nat (k - a)) v 0.
Proof.
  revert a v; induction n as [|n IH]; intros a v H1 H2; [lia|].
  cbn [zrange_from map]. destruct v as [|y v]; [cbn [dotQ]; destruct (Z.to_nat (k - a)); reflexivity|].
  cbn [dotQ]. unfold dz at 1. destruct (Z.eqb_spec a k) as [E|N].
  - subst a. replace (k - k)%Z with 0%Z by lia. cbn [Z.to_nat nth].
    rewrite dot_indicator_out by lia. ring.
  - rewrite IH by lia. replace (Z.to_nat (k - a)) with (S (Z.to_nat (k - (a + 1)))) by lia. cbn [nth]. ring.
Qed.

Lemma all_zero_nth v : (forall idx, (idx < length v)%nat -> nth idx v 0 = 0) -> all_zero v.
Proof.
  induction v as [|x v IH]; intro H; constructor.
  - apply (H 0%nat). simpl. lia.
  - apply IH. intros idx Hi. apply (H (S idx)). simpl. lia.
Qed.

Lemma zrange_length a n : length (zrange_from a n) = n.
Proof. revert a; induction n as [|n IH]; intro a; [reflexivity|]. cbn [zrange_from length]. rewrite IH. reflexivity. Qed.

Lemma zrange_in_conv a n i : (a <= i)%Z -> (i < a + Z.of_nat n)%Z -> In i (zrange_from a n).
Proof.
  revert a; induction n as [|n IH]; intros a H1 H2; [lia|]. cbn [zrange_from].
  destruct (Z.eq_dec a i) as [E|N]; [left; exact E | right; apply IH; lia].
Qed.

Theorem uni_kerT l : kerT (uni_terms l) (uni_pts l).
Proof.
  intros v Hl Hz. apply all_zero_nth. intros idx Hidx.
  unfold uni_pts in Hl. rewrite zrange_length in Hl. unfold num_points in Hl.
  set (k := (1 + Z.of_nat idx)%Z).
  assert (Hin : In (off1 l, dz k) (uni_terms l)).
  { unfold uni_terms. apply in_flat_map. exists k. split; [apply zrange_in_conv; lia | left; reflexivity]. }
  pose proof (Hz _ Hin) as E. unfold lin, uni_pts in E. cbn [snd] in E.
  rewrite dot_indicator in E by (unfold num_points; lia).
  replace (Z.to_nat (k - 1)) with idx in E by lia. exact E.
Qed.

Lemma uni_fam_ok l : fam_ok (uni_fam l).
Proof. split; [|split]; [apply uni_represents | apply uni_terms_pos | apply uni_kerT]. Qed.

Lemma index_list_cross lv : index_list lv = cross (map uni_pts lv).
Proof. reflexivity. Qed.

Lemma Uspec_eprod lv : forall iv jv,
  In iv (cross (map uni_pts lv)) -> In jv (cross (map uni_pts lv)) -> Uspec lv iv jv = eprod (map uni_fam lv) iv jv.
Proof.
  induction lv as [|l lv IH]; intros iv jv Hi Hj; cbn [map cross] in Hi, Hj.
  - destruct Hi as [Hi|[]]; destruct Hj as [Hj|[]]. subst. reflexivity.
  - apply in_cross_cons in Hi. destruct Hi as [i [iv' [Ei [Hi Hiv]]]].
    apply in_cross_cons in Hj. destruct Hj as [j [jv' [Ej [Hj Hjv]]]]. subst iv jv.
    cbn [Uspec map eprod uni_fam f_e]. rewrite (IH iv' jv' Hiv Hjv). reflexivity.
Qed.

Lemma cross_elem_length {A} (ls : list (list A)) t : In t (cross ls) -> length t = length ls.
Proof.
  revert t; induction ls as [|l ls IH]; intros t H; cbn [cross] in H.
  - destruct H as [H|[]]. subst. reflexivity.
  - apply in_cross_cons in H. destruct H as [a [t' [E [_ Ht]]]]. subst t. cbn [length]. rewrite (IH t' Ht). reflexivity.
Qed.

Lemma sym_matrix_d_eq {A} (e : A -> A -> Qc) lam dg pts :
  (forall t, In t pts -> e t t + lam = dg) -> sym_matrix_d e dg pts = sym_matrix e lam pts.
Proof.
  induction pts as [|t ts IH]; intro H; [reflexivity|]. cbn [sym_matrix_d sym_matrix].
  rewrite IH by (intros x Hx; apply H; right; exact Hx). rewrite (H t) by (left; reflexivity). reflexivity.
Qed.

Lemma R_matrix_uniform_sym lv lam : R_matrix_uniform lv lam = sym_matrix (Uval lv) lam (index_list lv).
Proof.
  unfold R_matrix_uniform. apply sym_matrix_d_eq. intros iv Hiv.
  rewrite <- (lumped_uniform_is_diagonal lv iv); [reflexivity|].
  rewrite index_list_cross in Hiv. rewrite (cross_elem_length _ _ Hiv), map_length. reflexivity.
Qed.

(* MAIN THEOREM, uniform path: build_R_matrix is positive definite for EVERY level vector and lambda >= 0 *)
Theorem gram_uniform_positive_definite lv lam v :
  0 <= lam -> length v = length (index_list lv) -> Exists (fun x => x <> 0) v ->
  0 < quad (R_matrix_uniform lv lam) v.
Proof.
  intros Hlam Hl Ex. rewrite R_matrix_uniform_sym. rewrite index_list_cross in *.
  assert (K : kron_pts (map uni_fam lv) = cross (map uni_pts lv)) by (unfold kron_pts; rewrite map_map; reflexivity).
  rewrite <- K in *.
  apply kron_pd; try assumption.
  - apply Forall_forall. intros F HF. apply in_map_iff in HF. destruct HF as [l [E _]]. subst F. apply uni_fam_ok.
  - intros t u Ht Hu. rewrite K in Ht, Hu. rewrite gram_uniform_entry. apply Uspec_eprod; assumption.
Qed.

Theorem gram_uniform_solution_unique lv lam x y b :
  0 <= lam -> length x = length (index_list lv) -> length y = length (index_list lv) ->
  matvec (R_matrix_uniform lv lam) x = b -> matvec (R_matrix_uniform lv lam) y = b -> x = y.
Proof.
  intros Hlam Hx Hy. apply (pd_solution_unique _ (length (index_list lv))); try assumption.
  - rewrite R_matrix_uniform_sym. apply sym_matrix_rows.
  - intros v Hl Ex. apply gram_uniform_positive_definite; assumption.
Qed.
