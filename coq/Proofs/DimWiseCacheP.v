(* C03: the cache max_level_dict is transparent as long as it is emptied whenever the trees change, and it is NOT when a
   further run on the same object rebuilds the trees without emptying it (the defect repaired by /repo commit 143094d). *)
From Coq Require Import ZArith List Bool Arith Lia QArith Qcanon.
From SG Require Import Base.QcUtil Model.RefTree Model.DimWise Model.DimWiseCache.
Import ListNotations.
Open Scope Z_scope.

Definition consistent (c : mlcache) (trees : list (list ival)) : Prop :=
  forall d i v, cache_get c d i = Some v -> v = get_max_level (nth d trees []) i.

Lemma consistent_empty trees : consistent [] trees.
Proof. intros d i v H. discriminate. Qed.

Lemma cached_transparent c trees d i : consistent c trees ->
  fst (get_max_level_cached c (nth d trees []) d i) = get_max_level (nth d trees []) i /\
  consistent (snd (get_max_level_cached c (nth d trees []) d i)) trees.
Proof.
  intro H. unfold get_max_level_cached. destruct (cache_get c d i) as [v|] eqn:E; simpl.
  - split; [apply (H d i v E) | assumption].
  - split; [reflexivity|]. intros d' i' v' H'. simpl in H'.
    destruct (Nat.eqb d' d && Nat.eqb i' i) eqn:Ek.
    + apply andb_true_iff in Ek. destruct Ek as [Ed Ei]. apply Nat.eqb_eq in Ed, Ei. subst. injection H' as <-. reflexivity.
    + apply H. assumption.
Qed.

(* any sequence of queries between two resets returns the uncached values *)
Theorem queries_transparent trees : forall qs c, consistent c trees ->
  fst (run_queries c trees qs) = map (fun q => get_max_level (nth (fst q) trees []) (snd q)) qs /\
  consistent (snd (run_queries c trees qs)) trees.
Proof.
  induction qs as [|[d i] qs IH]; intros c H; simpl; [split; [reflexivity | assumption]|].
  destruct (cached_transparent c trees d i H) as [A B].
  destruct (get_max_level_cached c (nth d trees []) d i) as [v c1]. simpl in A, B.
  destruct (IH c1 B) as [C D]. destruct (run_queries c1 trees qs) as [vs c2]. simpl in *.
  split; [f_equal; assumption | assumption].
Qed.

Corollary queries_after_reset trees qs :
  fst (run_queries [] trees qs) = map (fun q => get_max_level (nth (fst q) trees []) (snd q)) qs.
Proof. apply queries_transparent, consistent_empty. Qed.

(* without the reset: a cache filled on the trees of a first run answers a query on the rebuilt trees of a second run with
   the stale value.  Witness: dimension 0 of the first run is the level-2 tree with its last interval refined once
   (maximum level 3 at position 2), the second run starts from the plain level-2 tree (maximum level 2 there). *)
Definition qq (n : Z) (d : positive) : Qc := Q2Qc (n # d).
Definition tree_run1 : list ival :=
  [mkIval (qq 0 1) (qq 1 4) 0 2 1; mkIval (qq 1 4) (qq 1 2) 2 1 1; mkIval (qq 1 2) (qq 3 4) 1 2 1;
   mkIval (qq 3 4) (qq 7 8) 2 3 0; mkIval (qq 7 8) (qq 1 1) 3 0 0].
Definition tree_run2 : list ival :=
  [mkIval (qq 0 1) (qq 1 4) 0 2 0; mkIval (qq 1 4) (qq 1 2) 2 1 0; mkIval (qq 1 2) (qq 3 4) 1 2 0; mkIval (qq 3 4) (qq 1 1) 2 0 0].

Theorem stale_cache_witness :
  let c1 := snd (run_queries [] [tree_run1] [(0%nat, 2%nat)]) in
  fst (run_queries c1 [tree_run2] [(0%nat, 2%nat)]) = [3] /\
  fst (run_queries [] [tree_run2] [(0%nat, 2%nat)]) = [2].
Proof. vm_compute. split; reflexivity. Qed.
