(* solutions_storage: after any sequence of evaluations the dict holds, for every point count that occurred, the result of the LAST
   evaluation with that count, and nothing for other counts; it has at most one entry per evaluation. *)
From Coq Require Import ZArith List Bool QArith Qcanon Lia.
From SG Require Import Base.QcUtil Model.Driver Proofs.DriverProofs.
Import ListNotations.
Open Scope Z_scope.

Lemma store_get_set_same {A} k (v : A) l : store_get k (store_set k v l) = Some v.
Proof.
  induction l as [|[k' v'] r IH]; cbn; [rewrite Z.eqb_refl; reflexivity|].
  destruct (k =? k') eqn:E; cbn; [rewrite Z.eqb_refl; reflexivity|rewrite E; exact IH].
Qed.

Lemma store_get_set_other {A} k k2 (v : A) l : k2 <> k -> store_get k2 (store_set k v l) = store_get k2 l.
Proof.
  intro H. induction l as [|[k' v'] r IH]; cbn.
  - destruct (k2 =? k) eqn:E; [apply Z.eqb_eq in E; contradiction|reflexivity].
  - destruct (k =? k') eqn:E; cbn.
    + apply Z.eqb_eq in E. subst k'. destruct (k2 =? k) eqn:E2; [apply Z.eqb_eq in E2; contradiction|reflexivity].
    + destruct (k2 =? k'); [reflexivity|exact IH].
Qed.

Lemma last_with_app {A} k (a : list (Z * A)) k' v :
  last_with k (a ++ [(k', v)]) = if k =? k' then Some v else last_with k a.
Proof.
  induction a as [|[k0 v0] r IH]; cbn [app last_with]; [destruct (k =? k'); reflexivity|].
  rewrite IH. destruct (k =? k'); [reflexivity|]. reflexivity.
Qed.

Lemma store_set_length {A} k (v : A) l : (length (store_set k v l) <= S (length l))%nat.
Proof. induction l as [|[k' v'] r IH]; cbn; [lia|]. destruct (k =? k'); cbn; lia. Qed.

Theorem storage_holds_last_results {A} (kvs : list (Z * A)) : forall k,
  store_get k (storage_after kvs []) = last_with k kvs.
Proof.
  induction kvs as [|[k' v] r IH] using rev_ind; intro k; [reflexivity|].
  unfold storage_after. rewrite fold_left_app. cbn [fold_left fst snd]. fold (storage_after r (@nil (Z * A))).
  rewrite last_with_app. destruct (k =? k') eqn:E.
  - apply Z.eqb_eq in E. subst. apply store_get_set_same.
  - rewrite store_get_set_other; [apply IH|]. intro H. subst. rewrite Z.eqb_refl in E. discriminate.
Qed.

Theorem storage_at_most_one_entry_per_evaluation {A} (kvs : list (Z * A)) :
  (length (storage_after kvs []) <= length kvs)%nat.
Proof.
  induction kvs as [|x r IH] using rev_ind; [cbn; lia|].
  unfold storage_after. rewrite fold_left_app, app_length. cbn [fold_left length].
  eapply Nat.le_trans; [apply store_set_length|]. fold (storage_after r (@nil (Z * A))). lia.
Qed.

(* composed with the driver: the storage of a stopped run is built from exactly the evaluations the run performed *)
Theorem driver_storage {A} lim os (results : list A) s' :
  perform lim os = (s', true) -> length results = length os ->
  exists k, (k < length os)%nat /\ d_pts s' = map o_pts (firstn (S k) os) /\
    forall p, store_get p (storage_after (combine (d_pts s') (firstn (S k) results)) []) =
              last_with p (combine (map o_pts (firstn (S k) os)) (firstn (S k) results)).
Proof.
  intros H _. destruct (history_is_observation_prefix lim os s' H) as [k [Hk [_ [_ [Hp _]]]]].
  exists k. split; [exact Hk|]. split; [exact Hp|]. intro p. rewrite Hp. apply storage_holds_last_results.
Qed.
