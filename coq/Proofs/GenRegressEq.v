(* C20: the SOURCE-DERIVED entry computation of Regression.build_C_matrix (coq/Gen/RegressGen.v, generated from
   sparseSpACE/GridOperation.py by harness/translate/py2gallina_c20.py) equals the hand-written model C_val false (Model/Regress.v),
   for every level vector and all index vectors of the right length. *)
From Coq Require Import ZArith List QArith Qcanon Bool Lia Lqa.
From SG Require Import Base.QcUtil Base.PyLib Base.PyNum Model.Gram Model.Regress Gen.RegressGen Proofs.PyLibFacts
  Proofs.GramHat Proofs.GramEntries Proofs.RegressUniform.
Import ListNotations.
Open Scope Qc_scope.

Lemma Qcpower_two n : Qcpower (py_Z2Qc 2) n = qc_of_Z (2 ^ Z.of_nat n).
Proof.
  induction n as [|n IH]; [apply Qc_is_canon; reflexivity|].
  cbn [Qcpower]. rewrite IH. rewrite Nat2Z.inj_succ, Z.pow_succ_r by lia. rewrite qc_of_Z_mul. reflexivity.
Qed.

Lemma fpow_two e : py_fpow (py_Z2Qc 2) e = Some (pow2z e).
Proof.
  unfold py_fpow, pow2z. destruct (0 <=? e)%Z eqn:E.
  - apply Z.leb_le in E. rewrite Qcpower_two, Z2Nat.id by lia. reflexivity.
  - apply Z.leb_gt in E.
    assert (N : Qc_eqb (py_Z2Qc 2) 0 = false) by reflexivity. rewrite N.
    rewrite Qcpower_two, Z2Nat.id by lia. f_equal. unfold Qcdiv. ring.
Qed.

Lemma getitem_nth (l : list Z) m : (m < length l)%nat -> py_getitem l (Z.of_nat m) = Some (nth m l 0%Z).
Proof. apply py_getitem_in. Qed.

Lemma skipn_cons_nth (l : list Z) m : (m < length l)%nat -> skipn m l = nth m l 0%Z :: skipn (S m) l.
Proof.
  revert m; induction l as [|x l IH]; intros m H; [simpl in H; lia|]. destruct m as [|m]; [reflexivity|].
  cbn [skipn nth]. apply IH. simpl in H. lia.
Qed.

Definition factor_body (lv iv jv : list Z) (k : nat) : Z -> Qc -> flow Qc Qc :=
  (fun m temp_res =>
      _t1 <- (py_getitem iv m) ;;
      let index_im := _t1 in
      _t2 <- (py_getitem jv m) ;;
      let index_jm := _t2 in
      temp_res <~ (if (m =? Z.of_nat k)%Z then (
          temp_res <~ (if (index_im =? index_jm)%Z then (
              _t3 <- (py_getitem lv (Z.of_nat k)) ;;
              _t4 <- (py_fpow (py_Z2Qc 2) (_t3 + 1)%Z) ;;
              let temp_res := (temp_res * _t4)%Qc in
              Nxt temp_res
            ) else (
              temp_res <~ (if ((Z.abs (index_jm - index_im)%Z) >? 1)%Z then (
                  let temp_res := (py_Z2Qc 0) in
                  Ret temp_res
                ) else (
                  _t5 <- (py_getitem lv (Z.of_nat k)) ;;
                  _t6 <- (py_fpow (py_Z2Qc 2) _t5) ;;
                  let temp_res := (temp_res * (- _t6)%Qc)%Qc in
                  Nxt temp_res
                )) ;;
              Nxt temp_res
            )) ;;
          Nxt temp_res
        ) else (
          temp_res <~ (if (index_im =? index_jm)%Z then (
              _t7 <- (py_getitem lv m) ;;
              _t8 <- (py_fpow (py_Z2Qc 2) (_t7 - 1)%Z) ;;
              _t9 <- (py_fdiv (py_Z2Qc 1) (_t8 * (py_Z2Qc 3))%Qc) ;;
              let temp_res := (temp_res * _t9)%Qc in
              Nxt temp_res
            ) else (
              temp_res <~ (if ((Z.abs (index_jm - index_im)%Z) >? 1)%Z then (
                  let temp_res := (py_Z2Qc 0) in
                  Ret temp_res
                ) else (
                  _t10 <- (py_getitem lv m) ;;
                  _t11 <- (py_fpow (py_Z2Qc 2) (_t10 - 1)%Z) ;;
                  _t12 <- (py_fdiv (py_Z2Qc 1) (_t11 * (py_Z2Qc 12))%Qc) ;;
                  let temp_res := (temp_res * _t12)%Qc in
                  Nxt temp_res
                )) ;;
              Nxt temp_res
            )) ;;
          Nxt temp_res
        )) ;;
      Nxt temp_res)%py.

(* one pass of the loop over m, started at position m0 with the running product t *)
Lemma factor_loop lv iv jv k : length iv = length lv -> length jv = length lv -> (k < length lv)%nat ->
  forall n m0 t lk, (m0 + n = length lv)%nat ->
  py_for (map Z.of_nat (seq m0 n)) (factor_body lv iv jv k) t
  = match C_prod false lk k m0 (skipn m0 lv) (skipn m0 iv) (skipn m0 jv) with
    | Some w => Nxt (t * w)
    | None => Ret 0
    end.
Proof.
  intros Hi Hj Hk. induction n as [|n IH]; intros m0 t lk Hm.
  - assert (E : m0 = length lv) by lia. subst m0. cbn [seq map py_for].
    rewrite !skipn_all2 by lia. cbn [C_prod]. f_equal. ring.
  - assert (Lm : (m0 < length lv)%nat) by lia.
    cbn [seq map py_for]. unfold factor_body at 1.
    rewrite (skipn_cons_nth lv m0 Lm), (skipn_cons_nth iv m0) by lia. rewrite (skipn_cons_nth jv m0) by lia.
    cbn [C_prod].
    rewrite (getitem_nth iv m0) by lia. rewrite (getitem_nth jv m0) by lia. cbn [bindE].
    set (i := nth m0 iv 0%Z). set (j := nth m0 jv 0%Z). set (l := nth m0 lv 0%Z).
    assert (EQ : (Z.of_nat m0 =? Z.of_nat k)%Z = (m0 =? k)%nat).
    { destruct (Nat.eqb_spec m0 k) as [E|E]; [apply Z.eqb_eq; lia | apply Z.eqb_neq; lia]. }
    rewrite EQ.
    assert (GT : (Z.abs (j - i) >? 1)%Z = (1 <? Z.abs (j - i))%Z) by (rewrite Z.gtb_ltb; reflexivity).
    assert (Q3 : py_Z2Qc 3 = Qc3) by (apply Qc_is_canon; reflexivity).
    assert (Q12 : py_Z2Qc 12 = Qc12) by (apply Qc_is_canon; reflexivity).
    assert (Q1 : py_Z2Qc 1 = 1) by (apply Qc_is_canon; reflexivity).
    assert (Q0 : py_Z2Qc 0 = 0) by (apply Qc_is_canon; reflexivity).
    assert (D3 : forall e, py_fdiv (py_Z2Qc 1) (pow2z e * py_Z2Qc 3) = Some (1 / (pow2z e * Qc3))).
    { intro e. unfold py_fdiv. rewrite Q3, Q1.
      assert (N : Qc_eqb (pow2z e * Qc3) 0 = false).
      { apply Qc_eqb_false. pose proof (Qc_pos_nz _ (pow2z_pos e)) as P. intro X.
        apply Qcmult_integral in X. destruct X as [X|X]; [exact (P X) | apply Qc_eq_Qeq in X; discriminate]. }
      rewrite N. reflexivity. }
    assert (D12 : forall e, py_fdiv (py_Z2Qc 1) (pow2z e * py_Z2Qc 12) = Some (1 / (pow2z e * Qc12))).
    { intro e. unfold py_fdiv. rewrite Q12, Q1.
      assert (N : Qc_eqb (pow2z e * Qc12) 0 = false).
      { apply Qc_eqb_false. pose proof (Qc_pos_nz _ (pow2z_pos e)) as P. intro X.
        apply Qcmult_integral in X. destruct X as [X|X]; [exact (P X) | apply Qc_eq_Qeq in X; discriminate]. }
      rewrite N. reflexivity. }
    destruct (m0 =? k)%nat eqn:Ek.
    + apply Nat.eqb_eq in Ek. subst k. rewrite (getitem_nth lv m0 Lm). fold l.
      unfold grad_term. destruct (i =? j)%Z.
      * cbn [bindE bindF]. rewrite fpow_two. cbn [bindE bindF].
        rewrite (IH (S m0) (t * pow2z (l + 1)) lk) by lia.
        destruct (C_prod false lk m0 (S m0) (skipn (S m0) lv) (skipn (S m0) iv) (skipn (S m0) jv)); [f_equal; ring | reflexivity].
      * rewrite GT. destruct (1 <? Z.abs (j - i))%Z.
        -- cbn [bindE bindF]. rewrite Q0. reflexivity.
        -- cbn [bindE bindF]. rewrite fpow_two. cbn [bindE bindF].
           rewrite (IH (S m0) (t * - pow2z l) lk) by lia.
           destruct (C_prod false lk m0 (S m0) (skipn (S m0) lv) (skipn (S m0) iv) (skipn (S m0) jv)); [f_equal; ring | reflexivity].
    + rewrite (getitem_nth lv m0 Lm). fold l. unfold mass_term, diag1, off1. destruct (i =? j)%Z.
      * cbn [bindE bindF]. rewrite fpow_two. cbn [bindE bindF]. rewrite D3. cbn [bindE bindF].
        rewrite (IH (S m0) (t * (1 / (pow2z (l - 1) * Qc3))) lk) by lia.
        destruct (C_prod false lk k (S m0) (skipn (S m0) lv) (skipn (S m0) iv) (skipn (S m0) jv)); [f_equal; ring | reflexivity].
      * rewrite GT. destruct (1 <? Z.abs (j - i))%Z.
        -- cbn [bindE bindF]. rewrite Q0. reflexivity.
        -- cbn [bindE bindF]. rewrite fpow_two. cbn [bindE bindF]. rewrite D12. cbn [bindE bindF].
           rewrite (IH (S m0) (t * (1 / (pow2z (l - 1) * Qc12))) lk) by lia.
           destruct (C_prod false lk k (S m0) (skipn (S m0) lv) (skipn (S m0) iv) (skipn (S m0) jv)); [f_equal; ring | reflexivity].
Qed.

Theorem gen_C_factor lv iv jv k lk : length iv = length lv -> length jv = length lv -> (k < length lv)%nat ->
  Regression_c20_C_factor lv (Z.of_nat (length lv)) (Z.of_nat k) iv jv
  = Some (match C_prod false lk k 0 lv iv jv with Some v => v | None => 0 end).
Proof.
  intros Hi Hj Hk. unfold Regression_c20_C_factor. rewrite py_range_seq.
  change (run_flow (V:=unit) (bindF (py_for (map Z.of_nat (seq 0 (length lv))) (factor_body lv iv jv k) (py_Qc 1 1)) (fun temp_res => Ret temp_res))
          = Some match C_prod false lk k 0 lv iv jv with Some v => v | None => 0 end).
  rewrite (factor_loop lv iv jv k Hi Hj Hk (length lv) 0%nat (py_Qc 1 1) lk) by lia. cbn [skipn].
  destruct (C_prod false lk k 0 lv iv jv); cbn [bindF run_flow]; [f_equal; unfold py_Qc; ring_simplify; reflexivity | reflexivity].
Qed.

Definition entry_body (lv iv jv : list Z) : Z -> Qc -> flow Qc Qc :=
  (fun k res =>
      _t1 <- (Regression_c20_C_factor lv (Z.of_nat (length lv)) k iv jv) ;;
      let temp_res := _t1 in
      let res := (res + temp_res)%Qc in
      Nxt res)%py.

Lemma entry_loop lv iv jv : length iv = length lv -> length jv = length lv ->
  forall n a r, (a + n = length lv)%nat ->
  py_for (map Z.of_nat (seq a n)) (entry_body lv iv jv) r
  = Nxt (r + sumQ (map (fun k => match C_prod false (nth k lv 0%Z) k 0 lv iv jv with Some v => v | None => 0 end) (seq a n))).
Proof.
  intros Hi Hj. induction n as [|n IH]; intros a r Ha.
  - cbn [seq map py_for sumQ]. f_equal. ring.
  - cbn [seq map py_for sumQ]. unfold entry_body at 1.
    rewrite (gen_C_factor lv iv jv a (nth a lv 0%Z) Hi Hj) by lia. cbn [bindE].
    rewrite (IH (S a)) by lia. f_equal. ring.
Qed.

(* MAIN THEOREM: the generated entry computation of build_C_matrix is the hand-written model (the repaired variant) *)
Theorem gen_C_entry lv iv jv : length iv = length lv -> length jv = length lv ->
  Regression_c20_C_entry lv (Z.of_nat (length lv)) iv jv = Some (C_val false lv iv jv).
Proof.
  intros Hi Hj. unfold Regression_c20_C_entry. rewrite py_range_seq.
  change (run_flow (V:=unit) (bindF (py_for (map Z.of_nat (seq 0 (length lv))) (entry_body lv iv jv) (py_Qc 0 1)) (fun res => Ret res))
          = Some (C_val false lv iv jv)).
  rewrite (entry_loop lv iv jv Hi Hj (length lv) 0%nat (py_Qc 0 1)) by lia. cbn [bindF run_flow]. f_equal.
  unfold C_val. unfold py_Qc. ring_simplify. reflexivity.
Qed.

(* consequently the generated code computes the gradient Gram entry (Proofs/RegressUniform.v) *)
Corollary gen_C_entry_is_gradient_gram lv iv jv :
  length iv = length lv -> length jv = length lv -> Forall (fun l => (1 <= l)%Z) lv ->
  Regression_c20_C_entry lv (Z.of_nat (length lv)) iv jv = Some (C_val_dw_spec (uhats lv iv) (uhats lv jv)).
Proof. intros Hi Hj Hl. rewrite gen_C_entry by assumption. f_equal. apply C_uniform_is_gradient_gram; assumption. Qed.
