(* Hat functions of Model/Gram.v: the evaluation variants of the Python code agree (all points, including the
   nodes and the cell boundaries), and each hat is the piecewise polynomial used in the Gram-matrix theorems. *)
From Coq Require Import ZArith List QArith Qcanon Bool Lia Lqa.
From SG Require Import Base.QcUtil Base.PolyInt Model.Gram.
Import ListNotations.
Open Scope Qc_scope.

(* ------------------------------------------------------------------ order facts with division *)
Lemma Qc_lt_neq (a b : Qc) : a < b -> b <> a.
Proof. intros H E. subst. apply (Qclt_not_le _ _ H). apply Qcle_refl. Qed.

Lemma Qc_pos_nz (d : Qc) : 0 < d -> d <> 0.
Proof. intro H. apply Qc_lt_neq. exact H. Qed.

Lemma Qc_div_mul (a d : Qc) : d <> 0 -> (a / d) * d = a.
Proof. intro H. field. exact H. Qed.

Lemma div_le_mono (a b d : Qc) : 0 < d -> a <= b -> a / d <= b / d.
Proof.
  intros Hd Hab. apply Qcnot_lt_le. intro H.
  apply (Qcmult_lt_compat_r _ _ d) in H; [|exact Hd].
  rewrite !Qc_div_mul in H by (apply Qc_pos_nz; exact Hd).
  apply (Qclt_not_le _ _ H). exact Hab.
Qed.

Lemma div_lt_mono (a b d : Qc) : 0 < d -> a < b -> a / d < b / d.
Proof.
  intros Hd Hab. apply Qcnot_le_lt. intro H.
  apply (Qcmult_le_compat_r _ _ d) in H; [|apply Qclt_le_weak; exact Hd].
  rewrite !Qc_div_mul in H by (apply Qc_pos_nz; exact Hd).
  apply (Qclt_not_le _ _ Hab). exact H.
Qed.

Lemma div_self (d : Qc) : d <> 0 -> d / d = 1.
Proof. intro H. field. exact H. Qed.
Lemma div_zero (d : Qc) : 0 / d = 0.
Proof. unfold Qcdiv. ring. Qed.

Lemma div_le_1 (t d : Qc) : 0 < d -> t <= d -> t / d <= 1.
Proof. intros Hd H. rewrite <- (div_self d) by (apply Qc_pos_nz; exact Hd). apply div_le_mono; assumption. Qed.
Lemma div_lt_1 (t d : Qc) : 0 < d -> t < d -> t / d < 1.
Proof. intros Hd H. rewrite <- (div_self d) by (apply Qc_pos_nz; exact Hd). apply div_lt_mono; assumption. Qed.
Lemma div_ge_1 (t d : Qc) : 0 < d -> d <= t -> 1 <= t / d.
Proof. intros Hd H. rewrite <- (div_self d) by (apply Qc_pos_nz; exact Hd). apply div_le_mono; assumption. Qed.
Lemma div_gt_1 (t d : Qc) : 0 < d -> d < t -> 1 < t / d.
Proof. intros Hd H. rewrite <- (div_self d) by (apply Qc_pos_nz; exact Hd). apply div_lt_mono; assumption. Qed.
Lemma div_nonneg (t d : Qc) : 0 < d -> 0 <= t -> 0 <= t / d.
Proof. intros Hd H. rewrite <- (div_zero d). apply div_le_mono; assumption. Qed.
Lemma div_nonpos (t d : Qc) : 0 < d -> t <= 0 -> t / d <= 0.
Proof. intros Hd H. rewrite <- (div_zero d). apply div_le_mono; assumption. Qed.
Lemma div_neg (t d : Qc) : 0 < d -> t < 0 -> t / d < 0.
Proof. intros Hd H. rewrite <- (div_zero d). apply div_lt_mono; assumption. Qed.
Lemma div_pos (t d : Qc) : 0 < d -> 0 < t -> 0 < t / d.
Proof. intros Hd H. rewrite <- (div_zero d). apply div_lt_mono; assumption. Qed.

(* ------------------------------------------------------------------ boolean tests *)
Lemma Qc_leb_false a b : Qc_leb a b = false <-> b < a.
Proof.
  split; intro H.
  - apply Qcnot_le_lt. intro L. apply Qc_leb_le in L. congruence.
  - destruct (Qc_leb a b) eqn:E; [|reflexivity]. apply Qc_leb_le in E. exfalso. apply (Qclt_not_le _ _ H E).
Qed.
Lemma Qc_ltb_false a b : Qc_ltb a b = false <-> b <= a.
Proof.
  split; intro H.
  - apply Qcnot_lt_le. intro L. apply Qc_ltb_lt in L. congruence.
  - destruct (Qc_ltb a b) eqn:E; [|reflexivity]. apply Qc_ltb_lt in E. exfalso. apply (Qclt_not_le _ _ E H).
Qed.
Lemma Qc_eqb_false a b : Qc_eqb a b = false <-> a <> b.
Proof.
  split; intro H.
  - intro E. apply Qc_eqb_eq in E. congruence.
  - destruct (Qc_eqb a b) eqn:E; [|reflexivity]. apply Qc_eqb_eq in E. contradiction.
Qed.
Lemma Qc_eqb_refl a : Qc_eqb a a = true.
Proof. apply Qc_eqb_eq. reflexivity. Qed.

Lemma Qcle_or_lt (a b : Qc) : a <= b \/ b < a.
Proof. destruct (Qclt_le_dec b a) as [H|H]; [right|left]; exact H. Qed.

Lemma Qc_max_l a b : b <= a -> Qc_max a b = a.
Proof.
  intro H. unfold Qc_max. destruct (Qc_leb a b) eqn:E; [|reflexivity].
  apply Qc_leb_le in E. apply Qcle_antisym; assumption.
Qed.
Lemma Qc_max_r a b : a <= b -> Qc_max a b = b.
Proof. intro H. unfold Qc_max. apply Qc_leb_le in H. rewrite H. reflexivity. Qed.
Lemma Qc_min_l_of_le a b : a <= b -> Qc_min a b = a.
Proof. intro H. unfold Qc_min. apply Qc_leb_le in H. rewrite H. reflexivity. Qed.
Lemma Qc_min_r_of_le a b : a <= b -> Qc_min b a = a.
Proof.
  intro H. unfold Qc_min. destruct (Qc_leb b a) eqn:E; [|reflexivity].
  apply Qc_leb_le in E. apply Qcle_antisym; assumption.
Qed.
Lemma Qc_max_comm a b : Qc_max a b = Qc_max b a.
Proof.
  destruct (Qcle_or_lt a b) as [H|H].
  - rewrite (Qc_max_r a b H), (Qc_max_l b a H). reflexivity.
  - apply Qclt_le_weak in H. rewrite (Qc_max_l a b H), (Qc_max_r b a H). reflexivity.
Qed.
Lemma Qc_max_ge_l a b : a <= Qc_max a b.
Proof.
  destruct (Qcle_or_lt a b) as [H|H].
  - rewrite Qc_max_r by exact H. exact H.
  - rewrite Qc_max_l by (apply Qclt_le_weak; exact H). apply Qcle_refl.
Qed.
Lemma Qc_abs_nonneg_eq a : 0 <= a -> Qc_abs a = a.
Proof. intro H. unfold Qc_abs. apply Qc_leb_le in H. rewrite H. reflexivity. Qed.
Lemma Qc_abs_neg_eq a : a < 0 -> Qc_abs a = - a.
Proof. intro H. unfold Qc_abs. apply Qc_leb_false in H. rewrite H. reflexivity. Qed.

(* a proper hat: lo < p < hi *)
Definition proper (t : hatdom) : Prop := h_lo t < h_p t /\ h_p t < h_hi t.

Lemma sub_pos (a b : Qc) : a < b -> 0 < b - a.
Proof. intro H. qc_order. Qed.
Lemma sub_nonneg (a b : Qc) : a <= b -> 0 <= b - a.
Proof. intro H. qc_order. Qed.

(* ------------------------------------------------------------------ the scalar hat is the piecewise polynomial *)
Lemma hat_scalar_right (t : hatdom) (x : Qc) :
  h_p t < h_hi t -> h_p t <= x -> x <= h_hi t -> hat_scalar t x = peval (hat_right_poly t) x.
Proof.
  intros Hp H1 H2. unfold hat_scalar, hat_right_poly. apply Qc_leb_le in H1 as H1b. rewrite H1b. cbn [peval].
  pose proof (sub_pos _ _ Hp) as Hd.
  assert (E : 1 - 1 / (h_hi t - h_p t) * (x - h_p t) = 1 - (x - h_p t) / (h_hi t - h_p t)).
  { field. apply Qc_pos_nz. exact Hd. }
  rewrite E. rewrite Qc_max_r.
  - field. apply Qc_pos_nz. exact Hd.
  - assert (L : (x - h_p t) / (h_hi t - h_p t) <= 1) by (apply div_le_1; [exact Hd | qc_order]).
    qc_order.
Qed.

Lemma hat_scalar_left (t : hatdom) (x : Qc) :
  h_lo t < h_p t -> h_lo t <= x -> x < h_p t -> hat_scalar t x = peval (hat_left_poly t) x.
Proof.
  intros Hp H1 H2. unfold hat_scalar, hat_left_poly. apply Qc_leb_false in H2 as H2b. rewrite H2b. cbn [peval].
  pose proof (sub_pos _ _ Hp) as Hd.
  assert (E : 1 - 1 / (h_p t - h_lo t) * (h_p t - x) = 1 - (h_p t - x) / (h_p t - h_lo t)).
  { field. apply Qc_pos_nz. exact Hd. }
  rewrite E. rewrite Qc_max_r.
  - field. apply Qc_pos_nz. exact Hd.
  - assert (L : (h_p t - x) / (h_p t - h_lo t) <= 1) by (apply div_le_1; [exact Hd | qc_order]).
    qc_order.
Qed.

Lemma hat_left_poly_at_p (t : hatdom) : h_lo t < h_p t -> peval (hat_left_poly t) (h_p t) = 1.
Proof. intro H. unfold hat_left_poly. cbn [peval]. field. apply Qc_pos_nz. apply sub_pos. exact H. Qed.

Lemma hat_scalar_outside (t : hatdom) (x : Qc) :
  proper t -> (x <= h_lo t \/ h_hi t <= x) -> hat_scalar t x = 0.
Proof.
  intros [Hl Hr] Hout. unfold hat_scalar.
  pose proof (sub_pos _ _ Hl) as Hdl. pose proof (sub_pos _ _ Hr) as Hdr.
  destruct (Qc_leb (h_p t) x) eqn:E.
  - apply Qc_leb_le in E. destruct Hout as [Ho|Ho]; [exfalso; qc_order|].
    assert (E2 : 1 - 1 / (h_hi t - h_p t) * (x - h_p t) = 1 - (x - h_p t) / (h_hi t - h_p t)).
    { field. apply Qc_pos_nz. exact Hdr. }
    rewrite E2. apply Qc_max_l.
    assert (L : 1 <= (x - h_p t) / (h_hi t - h_p t)) by (apply div_ge_1; [exact Hdr | qc_order]).
    qc_order.
  - apply Qc_leb_false in E. destruct Hout as [Ho|Ho]; [|exfalso; qc_order].
    assert (E2 : 1 - 1 / (h_p t - h_lo t) * (h_p t - x) = 1 - (h_p t - x) / (h_p t - h_lo t)).
    { field. apply Qc_pos_nz. exact Hdl. }
    rewrite E2. apply Qc_max_l.
    assert (L : 1 <= (h_p t - x) / (h_p t - h_lo t)) by (apply div_ge_1; [exact Hdl | qc_order]).
    qc_order.
Qed.

(* ------------------------------------------------------------------ completely vectorised = scalar, for ALL x *)
Theorem hat_cv_eq_scalar (t : hatdom) (x : Qc) : proper t -> hat_cv t x = hat_scalar t x.
Proof.
  intros [Hl Hr]. unfold hat_cv, hat_scalar.
  pose proof (sub_pos _ _ Hl) as Hdl. pose proof (sub_pos _ _ Hr) as Hdr.
  assert (N1 : Qc_eqb (h_hi t) (h_p t) = false) by (apply Qc_eqb_false; apply Qc_lt_neq; exact Hr).
  assert (N2 : Qc_eqb (h_lo t) (h_p t) = false).
  { apply Qc_eqb_false. intro E. apply (Qc_lt_neq _ _ Hl). symmetry. exact E. }
  rewrite N1, N2.
  assert (E1 : 1 - 1 / (h_hi t - h_p t) * (x - h_p t) = 1 - (x - h_p t) / (h_hi t - h_p t)).
  { field. apply Qc_pos_nz. exact Hdr. }
  assert (E2 : 1 - 1 / (h_p t - h_lo t) * (h_p t - x) = 1 - (h_p t - x) / (h_p t - h_lo t)).
  { field. apply Qc_pos_nz. exact Hdl. }
  rewrite E1, E2.
  set (u := (x - h_p t) / (h_hi t - h_p t)). set (v := (h_p t - x) / (h_p t - h_lo t)).
  destruct (Qc_leb (h_p t) x) eqn:E.
  - apply Qc_leb_le in E.
    assert (U : 0 <= u) by (apply div_nonneg; [exact Hdr | qc_order]).
    assert (V : v <= 0) by (apply div_nonpos; [exact Hdl | qc_order]).
    assert (A : Qc_ltb 1 (1 - u) = false) by (apply Qc_ltb_false; qc_order). rewrite A.
    assert (B : Qc_leb 1 (1 - v) = true) by (apply Qc_leb_le; qc_order). rewrite B.
    destruct (Qc_ltb (1 - u) 0) eqn:C.
    + apply Qc_ltb_lt in C. rewrite Qc_max_l by (apply Qclt_le_weak; exact C). ring.
    + apply Qc_ltb_false in C. rewrite Qc_max_r by exact C. ring.
  - apply Qc_leb_false in E.
    assert (U : u < 0) by (apply div_neg; [exact Hdr | qc_order]).
    assert (V : 0 < v) by (apply div_pos; [exact Hdl | qc_order]).
    assert (A : Qc_ltb 1 (1 - u) = true) by (apply Qc_ltb_lt; qc_order). rewrite A.
    assert (B : Qc_leb 1 (1 - v) = false) by (apply Qc_leb_false; qc_order). rewrite B.
    destruct (Qc_ltb (1 - v) 0) eqn:C.
    + apply Qc_ltb_lt in C. rewrite Qc_max_l by (apply Qclt_le_weak; exact C). ring.
    + apply Qc_ltb_false in C. rewrite Qc_max_r by exact C. ring.
Qed.

(* ------------------------------------------------------------------ vectorised = scalar inside the support *)
Theorem hat_vec_eq_scalar_in_support (t : hatdom) (x : Qc) :
  proper t -> h_lo t <= x -> x <= h_hi t -> hat_vec t x = hat_scalar t x.
Proof.
  intros [Hl Hr] H1 H2. unfold hat_vec, hat_scalar.
  pose proof (sub_pos _ _ Hl) as Hdl. pose proof (sub_pos _ _ Hr) as Hdr.
  assert (E1 : 1 - 1 / (h_hi t - h_p t) * (x - h_p t) = 1 - (x - h_p t) / (h_hi t - h_p t)).
  { field. apply Qc_pos_nz. exact Hdr. }
  assert (E2 : 1 - 1 / (h_p t - h_lo t) * (h_p t - x) = 1 - (h_p t - x) / (h_p t - h_lo t)).
  { field. apply Qc_pos_nz. exact Hdl. }
  rewrite E1, E2.
  set (u := (x - h_p t) / (h_hi t - h_p t)). set (v := (h_p t - x) / (h_p t - h_lo t)).
  destruct (Qc_leb (h_p t) x) eqn:E.
  - apply Qc_leb_le in E.
    assert (A : Qc_ltb x (h_p t) = false) by (apply Qc_ltb_false; exact E). rewrite A.
    assert (U : u <= 1) by (apply div_le_1; [exact Hdr | qc_order]).
    rewrite Qc_max_r by qc_order. ring.
  - apply Qc_leb_false in E.
    assert (A : Qc_ltb x (h_p t) = true) by (apply Qc_ltb_lt; exact E). rewrite A.
    assert (V : v <= 1) by (apply div_le_1; [exact Hdl | qc_order]).
    rewrite Qc_max_r by qc_order. ring.
Qed.

(* ------------------------------------------------------------------ uniform hats are hats of the uniform stripe *)
Lemma qc_of_Z_pos z : (0 < z)%Z -> 0 < qc_of_Z z.
Proof.
  intro H. unfold qc_of_Z, Qclt. cbn [this Q2Qc]. rewrite !Qred_correct. unfold Qlt, inject_Z. cbn [Qnum Qden]. lia.
Qed.

Lemma pow2z_pos l : 0 < pow2z l.
Proof.
  unfold pow2z. destruct (0 <=? l)%Z eqn:E.
  - apply qc_of_Z_pos. apply Z.pow_pos_nonneg; lia.
  - apply div_pos; [|qc_order]. apply qc_of_Z_pos. apply Z.pow_pos_nonneg; lia.
Qed.

Lemma plus1_minus_nz (c : Qc) : c + 1 - c <> 0.
Proof. replace (c + 1 - c) with (1 : Qc) by ring. intro H. apply Qc_eq_Qeq in H. discriminate. Qed.
Lemma minus_minus1_nz (c : Qc) : c - (c - 1) <> 0.
Proof. replace (c - (c - 1)) with (1 : Qc) by ring. intro H. apply Qc_eq_Qeq in H. discriminate. Qed.

Definition uniform_dom (l i : Z) : hatdom :=
  mkH ((qc_of_Z i - 1) / pow2z l) (qc_of_Z i / pow2z l) ((qc_of_Z i + 1) / pow2z l).

Lemma uniform_dom_proper l i : proper (uniform_dom l i).
Proof.
  unfold proper, uniform_dom; cbn [h_lo h_p h_hi]. pose proof (pow2z_pos l) as H.
  split; apply div_lt_mono; try exact H; qc_order.
Qed.

Theorem hat_u_eq_scalar (l i : Z) (x : Qc) : hat_u l i x = hat_scalar (uniform_dom l i) x.
Proof.
  pose proof (pow2z_pos l) as Hs. pose proof (Qc_pos_nz _ Hs) as Hnz.
  unfold hat_u, hat_u_insupp, hat_scalar, uniform_dom; cbn [h_lo h_p h_hi].
  set (s := pow2z l) in *. set (c := qc_of_Z i).
  rewrite Qc_max_comm.
  destruct (Qc_leb (c / s) x) eqn:E.
  - apply Qc_leb_le in E.
    assert (P : 0 <= s * x - c).
    { apply (Qcmult_le_compat_r _ _ s) in E; [|apply Qclt_le_weak; exact Hs].
      rewrite Qc_div_mul in E by exact Hnz. qc_order. }
    rewrite Qc_abs_nonneg_eq by exact P. f_equal. field. split; [exact Hnz | apply plus1_minus_nz].
  - apply Qc_leb_false in E.
    assert (P : s * x - c < 0).
    { apply (Qcmult_lt_compat_r _ _ s) in E; [|exact Hs].
      rewrite Qc_div_mul in E by exact Hnz. qc_order. }
    rewrite Qc_abs_neg_eq by exact P. f_equal. field. split; [exact Hnz | apply minus_minus1_nz].
Qed.

(* the unclamped in-support variant coincides with the clamped one where the point lies in the support *)
Theorem hat_u_insupp_eq (l i : Z) (x : Qc) :
  h_lo (uniform_dom l i) <= x -> x <= h_hi (uniform_dom l i) -> hat_u_insupp l i x = hat_u l i x.
Proof.
  intros H1 H2. unfold hat_u. symmetry. apply Qc_max_l.
  pose proof (pow2z_pos l) as Hs. pose proof (Qc_pos_nz _ Hs) as Hnz.
  unfold hat_u_insupp, uniform_dom in *; cbn [h_lo h_p h_hi] in *.
  set (s := pow2z l) in *. set (c := qc_of_Z i) in *.
  apply (Qcmult_le_compat_r _ _ s) in H1; [|apply Qclt_le_weak; exact Hs].
  apply (Qcmult_le_compat_r _ _ s) in H2; [|apply Qclt_le_weak; exact Hs].
  rewrite Qc_div_mul in H1, H2 by exact Hnz.
  unfold Qc_abs. destruct (Qc_leb 0 (s * x - c)) eqn:E.
  - qc_order.
  - qc_order.
Qed.
