(* C10 — polynomial reproduction.
   (1) The Lagrange basis on ANY n pairwise distinct knots reproduces EVERY polynomial of degree <= n-1 at EVERY x
       (sum_j P(k_j) L_j(x) = P(x)); proof: the difference is a polynomial with n coefficients and n distinct roots.
   (2) Hierarchisation followed by interpolation is a PROJECTION onto the span of the basis, in any number of
       dimensions: whatever function is a combination of the (tensor-product) basis functions is reproduced at every
       evaluation point, and its surpluses are exactly its coefficients. *)
From Coq Require Import ZArith List QArith Qcanon Bool Arith Lia.
From SG Require Import Base.QcUtil Base.PolyInt Base.PolyQ Model.Basis
  Proofs.BasisLagrange Proofs.BasisHier Proofs.BasisInterp Proofs.BasisCheck.
Import ListNotations.
Open Scope Qc_scope.

(* ------------------------------------------------------------------ synthetic division by (X - r) *)
Fixpoint pdivk (r : Qc) (P : poly) : poly :=
  match P with
  | [] => []
  | a :: P' => match P' with [] => [] | _ => peval P' r :: pdivk r P' end
  end.

Lemma pdivk_spec r P x : peval P x = (x - r) * peval (pdivk r P) x + peval P r.
Proof.
  induction P as [|a P' IH]; [simpl; ring|].
  destruct P' as [|b P'']; [simpl; ring|].
  change (pdivk r (a :: b :: P'')) with (peval (b :: P'') r :: pdivk r (b :: P'')).
  change (peval (a :: b :: P'') x) with (a + x * peval (b :: P'') x).
  change (peval (a :: b :: P'') r) with (a + r * peval (b :: P'') r).
  change (peval (peval (b :: P'') r :: pdivk r (b :: P'')) x)
    with (peval (b :: P'') r + x * peval (pdivk r (b :: P'')) x).
  rewrite IH. ring.
Qed.

Lemma pdivk_length r P : length (pdivk r P) = (length P - 1)%nat.
Proof.
  induction P as [|a P' IH]; [reflexivity|].
  destruct P' as [|b P'']; [reflexivity|].
  change (pdivk r (a :: b :: P'')) with (peval (b :: P'') r :: pdivk r (b :: P'')).
  cbn [length] in *. rewrite IH. lia.
Qed.

(* a coefficient list of length <= n with n pairwise distinct roots evaluates to 0 everywhere *)
Lemma poly_roots_zero rs : NoDup rs -> forall P, (length P <= length rs)%nat ->
  (forall r, In r rs -> peval P r = 0) -> forall x, peval P x = 0.
Proof.
  induction rs as [|r rs IH]; intros Hnd P Hl Hr x.
  - destruct P; [reflexivity | simpl in Hl; lia].
  - inversion Hnd as [|? ? Hnin Hnd']; subst.
    rewrite (pdivk_spec r P x), (Hr r (or_introl eq_refl)).
    rewrite (IH Hnd' (pdivk r P)); [ring | rewrite pdivk_length; simpl in Hl; lia |].
    intros r' Hr'.
    pose proof (Hr r' (or_intror Hr')) as E. rewrite (pdivk_spec r P r'), (Hr r (or_introl eq_refl)) in E.
    assert (Hne : r' - r <> 0).
    { apply qc_sub_nz. intro Eq. subst r'. exact (Hnin Hr'). }
    assert (E2 : (r' - r) * peval (pdivk r P) r' = 0) by (rewrite <- E; ring).
    destruct (Qcmult_integral _ _ E2) as [Z|Z]; [contradiction | exact Z].
Qed.

(* ------------------------------------------------------------------ lengths of the polynomial operations *)
Lemma padd_length p q : length (padd p q) = Nat.max (length p) (length q).
Proof.
  revert q; induction p as [|a p IH]; intros [|b q]; simpl; try reflexivity.
  rewrite IH. reflexivity.
Qed.

Lemma pscale_length c p : length (pscale c p) = length p.
Proof. unfold pscale. apply map_length. Qed.

Lemma plin_length k w p : length (plin k w p) = S (length p).
Proof. unfold plin. rewrite pscale_length, padd_length, pscale_length. cbn [length]. lia. Qed.

Lemma lag_poly_length c os : length (lag_poly c os) = S (length os).
Proof. induction os as [|k r IH]; [reflexivity|]. cbn [lag_poly]. rewrite plin_length, IH. reflexivity. Qed.

Lemma others_length {A} idx (l : list A) : (idx < length l)%nat -> length (others idx l) = (length l - 1)%nat.
Proof.
  revert idx; induction l as [|a r IH]; intros idx H; simpl in H; [lia|].
  destruct idx as [|i]; simpl; [lia|]. rewrite IH by lia. destruct r; simpl in *; lia.
Qed.

Definition psum (l : list poly) : poly := fold_right padd [] l.

Lemma peval_psum l x : peval (psum l) x = sumQ (map (fun p => peval p x) l).
Proof. induction l as [|p l IH]; [reflexivity|]. cbn [psum fold_right map sumQ]. fold (psum l). rewrite peval_padd, IH. reflexivity. Qed.

Lemma psum_length n l : (forall p, In p l -> (length p <= n)%nat) -> (length (psum l) <= n)%nat.
Proof.
  induction l as [|p l IH]; intro H; [simpl; lia|].
  cbn [psum fold_right]. fold (psum l). rewrite padd_length.
  pose proof (H p (or_introl eq_refl)). assert (length (psum l) <= n)%nat by (apply IH; intros q Hq; apply H; right; exact Hq). lia.
Qed.

(* ------------------------------------------------------------------ (1) the Lagrange basis reproduces polynomials *)
Definition lagrange_interpolant (knots : list Qc) (f : Qc -> Qc) (x : Qc) : Qc :=
  sumQ (map (fun j => f (nthQ knots j) * lag_eval knots j x) (seq 0 (length knots))).

Theorem lagrange_reproduces_polynomials knots P :
  NoDup knots -> (length P <= length knots)%nat ->
  forall x, lagrange_interpolant knots (peval P) x = peval P x.
Proof.
  intros Hnd Hl x. unfold lagrange_interpolant.
  set (n := length knots).
  set (D := padd (psum (map (fun j => pscale (peval P (nthQ knots j)) (lag_poly (nthQ knots j) (others j knots))) (seq 0 n)))
                 (pscale (- (1)) P)).
  assert (HD : forall y, peval D y = sumQ (map (fun j => peval P (nthQ knots j) * lag_eval knots j y) (seq 0 n)) - peval P y).
  { intro y. unfold D. rewrite peval_padd, peval_pscale, peval_psum, map_map.
    rewrite (sumQ_map_ext_in _ (fun j => peval P (nthQ knots j) * lag_eval knots j y)); [ring|].
    intros j _. rewrite peval_pscale, <- lagrange_eval_is_polynomial. reflexivity. }
  assert (LD : (length D <= n)%nat).
  { unfold D. rewrite padd_length, pscale_length.
    assert (length (psum (map (fun j => pscale (peval P (nthQ knots j)) (lag_poly (nthQ knots j) (others j knots))) (seq 0 n))) <= n)%nat.
    { apply psum_length. intros q Hq. apply in_map_iff in Hq. destruct Hq as [j [Ej Hj]]. subst q.
      apply in_seq in Hj. rewrite pscale_length, lag_poly_length, others_length by (fold n; lia). fold n. lia. }
    fold n in Hl. lia. }
  assert (Z : peval D x = 0).
  { apply (poly_roots_zero knots Hnd D LD). intros r Hr.
    destruct (In_nth knots r 0 Hr) as [i [Hi Ei]]. fold n in Hi. rewrite <- Ei. fold (nthQ knots i). rewrite HD.
    rewrite (sumQ_map_ext_in _ (fun j => (if (i =? j)%nat then 1 else 0) * peval P (nthQ knots j))).
    - rewrite (sum_delta (fun j => peval P (nthQ knots j)) n i Hi). ring.
    - intros j Hj. apply in_seq in Hj.
      rewrite (lagrange_kronecker knots j i Hnd) by (fold n; lia).
      rewrite (Nat.eqb_sym i j). destruct (j =? i)%nat; ring. }
  rewrite HD in Z. rewrite <- (Qcplus_0_r (peval P x)), <- Z. ring.
Qed.

(* degree form: the monomials 1, X, ..., X^(n-1) are reproduced *)
Fixpoint monomial (e : nat) : poly := match e with O => [1] | S e' => 0 :: monomial e' end.
Lemma peval_monomial e x : peval (monomial e) x = x ^ e.
Proof. induction e as [|e IH]; [simpl; ring|]. cbn [monomial peval]. rewrite IH. simpl. ring. Qed.
Lemma monomial_length e : length (monomial e) = S e.
Proof. induction e as [|e IH]; [reflexivity|]. cbn [monomial length]. rewrite IH. reflexivity. Qed.

Corollary lagrange_reproduces_monomials knots e :
  NoDup knots -> (e < length knots)%nat ->
  forall x, lagrange_interpolant knots (fun y => y ^ e) x = x ^ e.
Proof.
  intros Hnd He x.
  rewrite <- (peval_monomial e x), <- (lagrange_reproduces_polynomials knots (monomial e) Hnd) by (rewrite monomial_length; lia).
  unfold lagrange_interpolant. apply sumQ_map_ext_in. intros j _. rewrite peval_monomial. reflexivity.
Qed.

(* ------------------------------------------------------------------ (2) hierarchise-then-interpolate is a projection *)
(* Any function of the form x |-> interp_nd ss x c (a combination of the tensor-product basis functions with ANY
   coefficient vector c) is reproduced: the surpluses of its nodal values ARE c, hence the interpolant equals the
   function at every point x (not only at grid points). *)
Theorem span_is_reproduced ss c sur :
  Forall sys_sound ss -> Forall sys_inj ss -> length c = prodN (map s_n ss) ->
  hier_nd ss (map (fun x => interp_nd ss x c) (grid_points ss)) = Some sur ->
  sur = c /\ forall x, interp_nd ss x sur = interp_nd ss x c.
Proof.
  intros Hs Hi Lc Hh.
  assert (E : c = sur).
  { apply (hierarchize_unique_nd ss (map (fun x => interp_nd ss x c) (grid_points ss)) sur c Hs Hi);
      [rewrite map_length; apply grid_points_length | exact Hh | exact Lc | reflexivity]. }
  subst sur. split; [reflexivity | intro x; reflexivity].
Qed.

(* the same for the model pipeline with accepted Lagrange systems (forward substitution never fails): every function
   in the span is reproduced everywhere, unconditionally *)
Theorem lagrange_span_is_reproduced ss c :
  Forall sys_sound ss -> Forall sys_inj ss ->
  Forall (fun s => s_ord s <> None /\ (length (s_basis s) <> 1)%nat) ss ->
  length c = prodN (map s_n ss) ->
  exists sur, hier_nd ss (map (fun x => interp_nd ss x c) (grid_points ss)) = Some sur
              /\ forall x, interp_nd ss x sur = interp_nd ss x c.
Proof.
  intros Hs Hi Ht Lc.
  destruct (hier_nd ss (map (fun x => interp_nd ss x c) (grid_points ss))) as [sur|] eqn:E.
  - exists sur. split; [reflexivity|]. exact (proj2 (span_is_reproduced ss c sur Hs Hi Lc E)).
  - exfalso. exact (hier_nd_total ss Ht _ E).
Qed.
