(* C15 — the triangle distribution on [a,b] with mode c (a < c < b) in closed form satisfies the interval-moment hypotheses of the
   weight theorems: m0 >= 0, x1*m0 <= m1 <= x2*m0 on every interval inside [a,b] (three cases: left of the mode, right of
   the mode, containing the mode), the zeroth moments telescope to cdf(b) - cdf(a) = 1. Hence for EVERY grid a = x_0 < ... < x_n = b
   the weighted trapezoidal weights of the triangle distribution are non-negative and sum to 1. *)
From Coq Require Import ZArith List QArith Qcanon Bool Arith Lia Lqa.
From SG Require Import Base.QcUtil Model.Trap Model.UQ Proofs.TrapBasics Proofs.TrapMoments Proofs.UQ.
Import ListNotations.
Open Scope Qc_scope.

Lemma three_eq : Q2Qc (3 # 1) = 1 + 1 + 1.
Proof. apply Qc_is_canon. reflexivity. Qed.

Ltac tfield := rewrite ?three_eq, ?half_eq, ?two_eq; field; repeat split; try assumption; try qc_const_neq.

Lemma leb_false_lt x y : Qc_leb x y = false -> y < x.
Proof.
  intro H. apply Qcnot_le_lt. intro L. apply Qc_leb_le in L. congruence.
Qed.

(* closed forms per region *)
Definition cdfL (a c b x : Qc) : Qc := (x - a) * (x - a) / ((b - a) * (c - a)).
Definition cdfR (a c b x : Qc) : Qc := 1 - (b - x) * (b - x) / ((b - a) * (b - c)).
Definition GL (a c b t : Qc) : Qc :=
  Qc2 / ((b - a) * (c - a)) * (t * t * t / Q2Qc (3 # 1) - a * t * t / Qc2 - (a * a * a / Q2Qc (3 # 1) - a * a * a / Qc2)).
Definition GR (a c b t : Qc) : Qc :=
  GL a c b c + Qc2 / ((b - a) * (b - c)) * ((b * t * t / Qc2 - t * t * t / Q2Qc (3 # 1)) - (b * c * c / Qc2 - c * c * c / Q2Qc (3 # 1))).

(* the field identities behind the three inequalities (a = lower end, c = mode, b = upper end) *)
Lemma left_E0 a c b x1 x2 : b - a <> 0 -> c - a <> 0 ->
  cdfL a c b x2 - cdfL a c b x1 = (x2 - x1) * ((x2 - a) + (x1 - a)) * / ((b - a) * (c - a)).
Proof. intros. unfold cdfL. tfield. Qed.
Lemma left_E1 a c b x1 x2 : b - a <> 0 -> c - a <> 0 ->
  GL a c b x2 - GL a c b x1 - x1 * (cdfL a c b x2 - cdfL a c b x1)
  = (x2 - x1) * (x2 - x1) * ((1 + 1) * (x2 - a) + (x1 - a)) * / (1 + 1 + 1) * / ((b - a) * (c - a)).
Proof. intros. unfold cdfL, GL. tfield. Qed.
Lemma left_E2 a c b x1 x2 : b - a <> 0 -> c - a <> 0 ->
  x2 * (cdfL a c b x2 - cdfL a c b x1) - (GL a c b x2 - GL a c b x1)
  = (x2 - x1) * (x2 - x1) * ((x2 - a) + (1 + 1) * (x1 - a)) * / (1 + 1 + 1) * / ((b - a) * (c - a)).
Proof. intros. unfold cdfL, GL. tfield. Qed.
Lemma right_E0 a c b x1 x2 : b - a <> 0 -> b - c <> 0 ->
  cdfR a c b x2 - cdfR a c b x1 = (x2 - x1) * ((b - x2) + (b - x1)) * / ((b - a) * (b - c)).
Proof. intros. unfold cdfR. tfield. Qed.
Lemma right_E1 a c b x1 x2 : b - a <> 0 -> c - a <> 0 -> b - c <> 0 ->
  GR a c b x2 - GR a c b x1 - x1 * (cdfR a c b x2 - cdfR a c b x1)
  = (x2 - x1) * (x2 - x1) * ((1 + 1) * (b - x2) + (b - x1)) * / (1 + 1 + 1) * / ((b - a) * (b - c)).
Proof. intros. unfold cdfR, GR, GL. tfield. Qed.
Lemma right_E2 a c b x1 x2 : b - a <> 0 -> c - a <> 0 -> b - c <> 0 ->
  x2 * (cdfR a c b x2 - cdfR a c b x1) - (GR a c b x2 - GR a c b x1)
  = (x2 - x1) * (x2 - x1) * ((b - x2) + (1 + 1) * (b - x1)) * / (1 + 1 + 1) * / ((b - a) * (b - c)).
Proof. intros. unfold cdfR, GR, GL. tfield. Qed.

Lemma three_bounds (m0 m1 x1 x2 P0 P1 P2 : Qc) :
  m0 = P0 -> m1 - x1 * m0 = P1 -> x2 * m0 - m1 = P2 -> 0 <= P0 -> 0 <= P1 -> 0 <= P2 ->
  0 <= m0 /\ x1 * m0 <= m1 /\ m1 <= x2 * m0.
Proof.
  intros E0 E1 E2 N0 N1 N2. rewrite <- E0 in N0. rewrite <- E1 in N1. rewrite <- E2 in N2.
  set (p1 := x1 * m0) in *. set (p2 := x2 * m0) in *. clear E0 E1 E2. split; [exact N0|]. split; qc_order.
Qed.
Lemma nonneg_add (x y : Qc) : 0 <= x -> 0 <= y -> 0 <= x + y.
Proof. intros. qc_order. Qed.
Lemma nonneg_double (x : Qc) : 0 <= x -> 0 <= (1 + 1) * x.
Proof. intros. qc_order. Qed.
Lemma third_nonneg : 0 <= / (1 + 1 + 1).
Proof. apply Qclt_le_weak. apply Qc_inv_pos. qc_order. Qed.

Section Tri.
Variables a c b : Qc.
Hypothesis Hac : a < c.
Hypothesis Hcb : c < b.

Let Hba : b - a <> 0. Proof. apply lt_sub_neq0. qc_order. Qed.
Let Hca : c - a <> 0. Proof. apply lt_sub_neq0. exact Hac. Qed.
Let Hbc : b - c <> 0. Proof. apply lt_sub_neq0. exact Hcb. Qed.

Lemma tri_cdf_left x : a <= x -> x <= c -> tri_cdf a c b x = cdfL a c b x.
Proof.
  intros H1 H2. unfold tri_cdf, cdfL.
  destruct (Qc_leb x a) eqn:E1.
  - apply Qc_leb_le in E1. assert (E : x = a) by qc_order. subst x. tfield.
  - destruct (Qc_leb b x) eqn:E2; [apply Qc_leb_le in E2; exfalso; qc_order|].
    apply Qc_leb_le in H2. rewrite H2. reflexivity.
Qed.

Lemma tri_cdf_right x : c <= x -> x <= b -> tri_cdf a c b x = cdfR a c b x.
Proof.
  intros H1 H2. unfold tri_cdf, cdfR.
  destruct (Qc_leb x a) eqn:E1; [apply Qc_leb_le in E1; exfalso; qc_order|].
  destruct (Qc_leb b x) eqn:E2.
  - apply Qc_leb_le in E2. assert (E : x = b) by qc_order. subst x. tfield.
  - destruct (Qc_leb x c) eqn:E3; [|reflexivity].
    apply Qc_leb_le in E3. assert (E : x = c) by qc_order. subst x. tfield.
Qed.

Lemma tri_G_left x : a <= x -> x <= c -> tri_G a c b x = GL a c b x.
Proof.
  intros H1 H2. unfold tri_G, GL.
  destruct (Qc_leb x a) eqn:E1.
  - apply Qc_leb_le in E1. assert (E : x = a) by qc_order. subst x. tfield.
  - apply Qc_leb_le in H2. rewrite H2. reflexivity.
Qed.

Lemma tri_G_right x : c <= x -> x <= b -> tri_G a c b x = GR a c b x.
Proof.
  intros H1 H2. unfold tri_G, GR, GL.
  destruct (Qc_leb x a) eqn:E1; [apply Qc_leb_le in E1; exfalso; qc_order|].
  destruct (Qc_leb x c) eqn:E3.
  - apply Qc_leb_le in E3. assert (E : x = c) by qc_order. subst x. tfield.
  - apply Qc_leb_le in H2. rewrite H2. reflexivity.
Qed.

Lemma Qc_mul_pos (x y : Qc) : 0 < x -> 0 < y -> 0 < x * y.
Proof. intros Hx Hy. qc_nra. Qed.

(* an interval left of the mode *)
Lemma left_piece x1 x2 : a <= x1 -> x1 < x2 -> x2 <= c ->
  0 <= cdfL a c b x2 - cdfL a c b x1 /\
  x1 * (cdfL a c b x2 - cdfL a c b x1) <= GL a c b x2 - GL a c b x1 /\
  GL a c b x2 - GL a c b x1 <= x2 * (cdfL a c b x2 - cdfL a c b x1).
Proof.
  intros H1 H12 H2.
  assert (Hk : 0 <= / ((b - a) * (c - a))) by (apply Qclt_le_weak; apply Qc_inv_pos; apply Qc_mul_pos; qc_order).
  assert (Hd : 0 <= x2 - x1) by qc_order.
  assert (Ha1 : 0 <= x1 - a) by qc_order. assert (Ha2 : 0 <= x2 - a) by qc_order.
  apply (three_bounds _ _ _ _ _ _ _ (left_E0 a c b x1 x2 Hba Hca) (left_E1 a c b x1 x2 Hba Hca) (left_E2 a c b x1 x2 Hba Hca)).
  - apply Qc_mul_nonneg; [|exact Hk]. apply Qc_mul_nonneg; [exact Hd | apply nonneg_add; assumption].
  - apply Qc_mul_nonneg; [|exact Hk]. apply Qc_mul_nonneg; [|exact third_nonneg].
    apply Qc_mul_nonneg; [apply Qc_mul_nonneg; exact Hd | apply nonneg_add; [apply nonneg_double|]; assumption].
  - apply Qc_mul_nonneg; [|exact Hk]. apply Qc_mul_nonneg; [|exact third_nonneg].
    apply Qc_mul_nonneg; [apply Qc_mul_nonneg; exact Hd | apply nonneg_add; [|apply nonneg_double]; assumption].
Qed.

(* an interval right of the mode *)
Lemma right_piece x1 x2 : c <= x1 -> x1 < x2 -> x2 <= b ->
  0 <= cdfR a c b x2 - cdfR a c b x1 /\
  x1 * (cdfR a c b x2 - cdfR a c b x1) <= GR a c b x2 - GR a c b x1 /\
  GR a c b x2 - GR a c b x1 <= x2 * (cdfR a c b x2 - cdfR a c b x1).
Proof.
  intros H1 H12 H2.
  assert (Hk : 0 <= / ((b - a) * (b - c))) by (apply Qclt_le_weak; apply Qc_inv_pos; apply Qc_mul_pos; qc_order).
  assert (Hd : 0 <= x2 - x1) by qc_order.
  assert (Hb1 : 0 <= b - x1) by qc_order. assert (Hb2 : 0 <= b - x2) by qc_order.
  apply (three_bounds _ _ _ _ _ _ _ (right_E0 a c b x1 x2 Hba Hbc) (right_E1 a c b x1 x2 Hba Hca Hbc) (right_E2 a c b x1 x2 Hba Hca Hbc)).
  - apply Qc_mul_nonneg; [|exact Hk]. apply Qc_mul_nonneg; [exact Hd | apply nonneg_add; assumption].
  - apply Qc_mul_nonneg; [|exact Hk]. apply Qc_mul_nonneg; [|exact third_nonneg].
    apply Qc_mul_nonneg; [apply Qc_mul_nonneg; exact Hd | apply nonneg_add; [apply nonneg_double|]; assumption].
  - apply Qc_mul_nonneg; [|exact Hk]. apply Qc_mul_nonneg; [|exact third_nonneg].
    apply Qc_mul_nonneg; [apply Qc_mul_nonneg; exact Hd | apply nonneg_add; [|apply nonneg_double]; assumption].
Qed.

Definition tri_ival (x1 x2 : Qc) : ival :=
  {| i_x1 := Fin x1; i_x2 := Fin x2; i_m0 := tri_cdf a c b x2 - tri_cdf a c b x1; i_m1 := tri_G a c b x2 - tri_G a c b x1 |}.

(* every interval inside [a,b]: left of the mode, right of the mode, or containing it (split at the mode) *)
Theorem tri_ival_ok x1 x2 : a <= x1 -> x1 < x2 -> x2 <= b -> ival_ok (tri_ival x1 x2).
Proof.
  intros H1 H12 H2. unfold ival_ok, tri_ival. cbn [i_x1 i_x2 i_m0 i_m1].
  destruct (Qc_leb x2 c) eqn:E2.
  - apply Qc_leb_le in E2.
    rewrite !tri_cdf_left, !tri_G_left by qc_order.
    destruct (left_piece x1 x2 H1 H12 E2) as [P0 [P1 P2]]. split; [exact P0|]. split; [exact H12|]. split; assumption.
  - apply leb_false_lt in E2.
    destruct (Qc_leb c x1) eqn:E1.
    + apply Qc_leb_le in E1.
      rewrite !tri_cdf_right, !tri_G_right by qc_order.
      destruct (right_piece x1 x2 E1 H12 H2) as [P0 [P1 P2]]. split; [exact P0|]. split; [exact H12|]. split; assumption.
    + apply leb_false_lt in E1.
      (* x1 < c < x2: split at the mode, where both closed forms agree *)
      assert (L1 : x1 <= c) by qc_order. assert (L2 : c <= x2) by qc_order.
      assert (Lc : c <= c) by apply Qcle_refl.
      destruct (left_piece x1 c H1 E1 Lc) as [P0 [P1 P2]].
      destruct (right_piece c x2 Lc E2 H2) as [R0 [R1 R2]].
      rewrite (tri_cdf_right x2), (tri_G_right x2) by assumption.
      rewrite (tri_cdf_left x1), (tri_G_left x1) by assumption.
      assert (Fc : cdfL a c b c = cdfR a c b c) by (rewrite <- tri_cdf_left, <- tri_cdf_right by qc_order; reflexivity).
      assert (Gc : GL a c b c = GR a c b c) by (rewrite <- tri_G_left, <- tri_G_right by qc_order; reflexivity).
      set (m0L := cdfL a c b c - cdfL a c b x1) in *. set (m1L := GL a c b c - GL a c b x1) in *.
      set (m0R := cdfR a c b x2 - cdfR a c b c) in *. set (m1R := GR a c b x2 - GR a c b c) in *.
      assert (E0 : cdfR a c b x2 - cdfL a c b x1 = m0L + m0R) by (unfold m0L, m0R; rewrite Fc; ring).
      assert (E1' : GR a c b x2 - GL a c b x1 = m1L + m1R) by (unfold m1L, m1R; rewrite Gc; ring).
      rewrite E0, E1'.
      assert (A1 : 0 <= (c - x1) * m0R) by (apply Qc_mul_nonneg; [qc_order | exact R0]).
      assert (A2 : 0 <= (x2 - c) * m0L) by (apply Qc_mul_nonneg; [qc_order | exact P0]).
      split; [qc_order|]. split; [exact H12|].
      split.
      * assert (G : x1 * (m0L + m0R) + (c - x1) * m0R = x1 * m0L + c * m0R) by ring. qc_order.
      * assert (G : x2 * (m0L + m0R) - (x2 - c) * m0L = c * m0L + x2 * m0R) by ring. qc_order.
Qed.

End Tri.

(* ---------------------------------------------------------------- lists of intervals *)
Lemma tri_ivals_cons a c b x1 x2 t :
  tri_ivals a c b (x1 :: x2 :: t) = tri_ival a c b x1 x2 :: tri_ivals a c b (x2 :: t).
Proof. reflexivity. Qed.

Theorem tri_ivals_ok a c b x :
  a < c -> c < b -> strictly_increasing x -> (forall t, In t x -> a <= t /\ t <= b) ->
  forall iv, In iv (tri_ivals a c b x) -> ival_ok iv.
Proof.
  intros Hac Hcb. induction x as [|x1 t IH]; intros Hs Hin iv Hiv; [destruct Hiv|].
  destruct t as [|x2 t]; [destruct Hiv|].
  rewrite tri_ivals_cons in Hiv. simpl in Hs. destruct Hs as [H12 Hs].
  destruct Hiv as [<-|Hiv].
  - apply tri_ival_ok; try assumption.
    + apply (Hin x1). left. reflexivity.
    + apply (Hin x2). right. left. reflexivity.
  - apply IH; [exact Hs | intros u Hu; apply Hin; right; exact Hu | exact Hiv].
Qed.

Lemma tri_ivals_length a c b x : length (tri_ivals a c b x) = (length x - 1)%nat.
Proof.
  induction x as [|x1 t IH]; [reflexivity|]. destruct t as [|x2 t]; [reflexivity|].
  rewrite tri_ivals_cons. cbn [length]. rewrite IH. simpl. lia.
Qed.

(* the zeroth moments telescope *)
Lemma tri_sum_m0 a c b x :
  sum_m0 (tri_ivals a c b x) = tri_cdf a c b (nq x (length x - 1)) - tri_cdf a c b (nq x 0).
Proof.
  induction x as [|x1 t IH]; [unfold nq; simpl; ring|].
  destruct t as [|x2 t]; [unfold nq; simpl; ring|].
  rewrite tri_ivals_cons. cbn [sum_m0 tri_ival i_m0]. rewrite IH. unfold nq.
  replace (length (x1 :: x2 :: t) - 1)%nat with (S (length (x2 :: t) - 1)) by (simpl; lia).
  cbn [nth]. ring.
Qed.

Lemma tri_cdf_ends a c b : a < c -> c < b -> tri_cdf a c b a = 0 /\ tri_cdf a c b b = 1.
Proof.
  intros Hac Hcb. unfold tri_cdf. split.
  - assert (E : Qc_leb a a = true) by (apply Qc_leb_le; apply Qcle_refl). rewrite E. reflexivity.
  - destruct (Qc_leb b a) eqn:E1; [apply Qc_leb_le in E1; exfalso; qc_order|].
    assert (E : Qc_leb b b = true) by (apply Qc_leb_le; apply Qcle_refl). rewrite E. reflexivity.
Qed.

Lemma In_nq (l : list Qc) t : In t l -> exists i, (i < length l)%nat /\ nq l i = t.
Proof.
  intro H. destruct (In_nth l t 0 H) as [i [Hi E]]. exists i. split; [exact Hi | exact E].
Qed.

Lemma increasing_within (x : list Qc) t :
  strictly_increasing x -> In t x -> nq x 0 <= t /\ t <= nq x (length x - 1).
Proof.
  intros Hs Hin. destruct (In_nq x t Hin) as [i [Hi <-]]. split.
  - destruct i as [|i]; [apply Qcle_refl|]. apply Qclt_le_weak. apply strictly_increasing_lt; [exact Hs | lia | exact Hi].
  - destruct (Nat.eq_dec i (length x - 1)) as [->|Hne]; [apply Qcle_refl|].
    apply Qclt_le_weak. apply strictly_increasing_lt; [exact Hs | lia | lia].
Qed.

(* THE TRIANGLE INSTANCE: for every grid a = x_0 < x_1 < ... < x_n = b (n >= 1) and every mode a < c < b the weighted
   trapezoidal weights computed from the exact moments of the triangle distribution are returned without clipping or assert,
   are non-negative and sum to 1 *)
Theorem wtrap_triangle_probability x a c b :
  a < c -> c < b -> strictly_increasing x -> (2 <= length x)%nat -> nq x 0 = a -> nq x (length x - 1) = b ->
  exists w, wtrap true false a b (tri_ivals a c b x) = Some w /\ sumQ w = 1 /\ (forall q, In q w -> 0 <= q).
Proof.
  intros Hac Hcb Hs Hl Ha Hb.
  assert (Hok : forall iv, In iv (tri_ivals a c b x) -> ival_ok iv).
  { apply tri_ivals_ok; try assumption. intros t Ht. rewrite <- Ha, <- Hb. apply increasing_within; assumption. }
  destruct (wtrap_boundary_sum a b (tri_ivals a c b x)) as [E Hsum]; [rewrite tri_ivals_length; lia | exact Hok |].
  exists (accum 0 (tri_ivals a c b x)). split; [exact E|]. split.
  - rewrite Hsum, tri_sum_m0, Ha, Hb. destruct (tri_cdf_ends a c b Hac Hcb) as [-> ->]. ring.
  - eapply wtrap_nonneg. exact E.
Qed.

(* on a sub-grid of [a,b] (boundary points of the grid inside the support): non-negative, sum = cdf(last) - cdf(first) *)
Theorem wtrap_triangle_subgrid x a c b :
  a < c -> c < b -> strictly_increasing x -> (2 <= length x)%nat -> a <= nq x 0 -> nq x (length x - 1) <= b ->
  exists w, wtrap true false a b (tri_ivals a c b x) = Some w /\
            sumQ w = tri_cdf a c b (nq x (length x - 1)) - tri_cdf a c b (nq x 0) /\ (forall q, In q w -> 0 <= q).
Proof.
  intros Hac Hcb Hs Hl Ha Hb.
  assert (Hok : forall iv, In iv (tri_ivals a c b x) -> ival_ok iv).
  { apply tri_ivals_ok; try assumption. intros t Ht. destruct (increasing_within x t Hs Ht) as [L U]. split; qc_order. }
  destruct (wtrap_boundary_sum a b (tri_ivals a c b x)) as [E Hsum]; [rewrite tri_ivals_length; lia | exact Hok |].
  exists (accum 0 (tri_ivals a c b x)). split; [exact E|]. split.
  - rewrite Hsum, tri_sum_m0. reflexivity.
  - eapply wtrap_nonneg. exact E.
Qed.
