(* C12 — the formal multivariate polynomial integral IS the iterated Riemann integral over the box (Coquelicot).

   `is_iter_int f a b v`: v is the iterated Riemann integral of f : R^n -> R over the box [a_1,b_1] x ... x [a_n,b_n],
   the first variable outermost:
       v = int_{a_1}^{b_1} ( int_{a_2}^{b_2} ... ( int_{a_n}^{b_n} f(x_1, ..., x_n) dx_n ) ... dx_2 ) dx_1 ,
   every one-variable integral being Coquelicot's is_RInt. (For continuous integrands this is the integral over the box;
   the identification with a multi-dimensional Riemann/Lebesgue integral - Fubini - is NOT formalised.)

   Main result: for every class of the polynomial family (ConstantValue, FunctionLinear, FunctionMultilinear,
   FunctionPolynomial, Polynomial1d, FunctionCompose of these) in EVERY dimension and over EVERY box the analytic integral
   (as coded after the integral fixes) is the iterated Riemann integral of the real function that eval computes.
   Uses the axioms of the standard library's real numbers (listed by Print Assumptions in Props/C12.v). *)
From Coq Require Import Reals QArith Qcanon Qreals List Lia Lra.
From Coquelicot Require Import Coquelicot.
From SG Require Import Base.QcUtil Model.FunPoly Proofs.FunPolyProofs Proofs.FunPolyReal.
Import ListNotations.
Open Scope R_scope.

Inductive is_iter_int : (list R -> R) -> list R -> list R -> R -> Prop :=
| iter_nil f : is_iter_int f [] [] (f [])
| iter_cons f a b a' b' g v :
    (forall x, Rmin a b <= x <= Rmax a b -> is_iter_int (fun xs => f (x :: xs)) a' b' (g x)) ->
    is_RInt g a b v ->
    is_iter_int f (a :: a') (b :: b') v.

Lemma iter_value_eq f a b v w : is_iter_int f a b v -> v = w -> is_iter_int f a b w.
Proof. intros H <-. exact H. Qed.

Lemma iter_ext f g a b v : (forall xs, f xs = g xs) -> is_iter_int f a b v -> is_iter_int g a b v.
Proof.
  intros E H. revert g E. induction H as [f|f a b a' b' h v Hin IH Hout]; intros g E.
  - rewrite E. constructor.
  - apply (iter_cons g a b a' b' h v); [|exact Hout].
    intros x Hx. apply (IH x Hx). intro xs. apply E.
Qed.

(* only the values on points of the dimension of the box matter *)
Lemma iter_ext_len f g a b v : (forall xs, length xs = length a -> f xs = g xs) -> is_iter_int f a b v -> is_iter_int g a b v.
Proof.
  intros E H. revert g E. induction H as [f|f a b a' b' h v Hin IH Hout]; intros g E.
  - rewrite (E [] eq_refl). constructor.
  - apply (iter_cons g a b a' b' h v); [|exact Hout].
    intros x Hx. apply (IH x Hx). intros xs Hl. apply E. simpl. rewrite Hl. reflexivity.
Qed.

Lemma iter_scal c f a b v : is_iter_int f a b v -> is_iter_int (fun xs => c * f xs) a b (c * v).
Proof.
  induction 1 as [f|f a b a' b' h v Hin IH Hout].
  - apply (iter_nil (fun xs => c * f xs)).
  - apply (iter_cons (fun xs => c * f xs) a b a' b' (fun x => c * h x) (c * v)).
    + intros x Hx. exact (IH x Hx).
    + exact (is_RInt_scal h a b c v Hout).
Qed.

Lemma iter_plus f g a b u v : is_iter_int f a b u -> is_iter_int g a b v ->
  is_iter_int (fun xs => f xs + g xs) a b (u + v).
Proof.
  intro H. revert g v. induction H as [f|f a b a' b' h u Hin IH Hout]; intros g v Hg.
  - inversion Hg; subst. apply (iter_nil (fun xs => f xs + g xs)).
  - inversion Hg as [|f0 a0 b0 a0' b0' h2 v2 Hin2 Hout2]; subst.
    apply (iter_cons (fun xs => f xs + g xs) a b a' b' (fun x => h x + h2 x) (u + v)).
    + intros x Hx. exact (IH x Hx (fun xs => g (x :: xs)) (h2 x) (Hin2 x Hx)).
    + exact (is_RInt_plus h h2 a b u v Hout Hout2).
Qed.

Lemma is_RInt_zero a b : is_RInt (fun _ : R => 0) a b 0.
Proof.
  pose proof (is_RInt_const a b (0 : R)) as H.
  match type of H with is_RInt _ _ _ ?v => assert (E : v = 0) by (unfold scal; simpl; unfold mult; simpl; ring) end.
  rewrite E in H. exact H.
Qed.

Lemma iter_zero : forall a b, length a = length b -> is_iter_int (fun _ => 0) a b 0.
Proof.
  induction a as [|x a IH]; intros [|y b] H; try discriminate.
  - apply (iter_nil (fun _ => 0)).
  - apply (iter_cons (fun _ => 0) x y a b (fun _ => 0) 0); [|apply is_RInt_zero].
    intros t _. apply IH. simpl in H. lia.
Qed.

(* ------------------------------------------------------------------ real monomials and polynomials *)
Fixpoint mono_evalR (es : list nat) (x : list R) : R :=
  match es, x with
  | e :: es', xi :: x' => xi ^ e * mono_evalR es' x'
  | _, _ => 1
  end.
Fixpoint mono_intR (es : list nat) (a b : list R) : R :=
  match es, a, b with
  | e :: es', ai :: a', bi :: b' => (bi ^ (S e) - ai ^ (S e)) / INR (S e) * mono_intR es' a' b'
  | _, _, _ => 1
  end.
Fixpoint mp_evalR (p : mpoly) (x : list R) : R :=
  match p with [] => 0 | (c, es) :: r => QcR c * mono_evalR es x + mp_evalR r x end.
Fixpoint mp_intR (p : mpoly) (a b : list R) : R :=
  match p with [] => 0 | (c, es) :: r => QcR c * mono_intR es a b + mp_intR r a b end.

(* the monomial: iterated integral = product of the one-variable integrals *)
Lemma mono_iter : forall es a b, length a = length es -> length b = length es ->
  is_iter_int (mono_evalR es) a b (mono_intR es a b).
Proof.
  induction es as [|e es IH]; intros [|a0 a] [|b0 b] Ha Hb; try discriminate.
  - apply (iter_nil (mono_evalR [])).
  - cbn [mono_intR].
    apply (iter_cons (mono_evalR (e :: es)) a0 b0 a b (fun x => x ^ e * mono_intR es a b)).
    + intros x _. cbn [mono_evalR].
      apply (iter_scal (x ^ e) (mono_evalR es) a b (mono_intR es a b)). apply IH; simpl in *; lia.
    + apply (is_RInt_ext (fun x => mono_intR es a b * x ^ e)); [intros x _; apply Rmult_comm|].
      pose proof (is_RInt_scal (fun x => x ^ e) a0 b0 (mono_intR es a b) _ (RInt_monomial e a0 b0)) as H.
      refine (eq_ind _ (fun v => is_RInt _ a0 b0 v) H _ _).
      unfold scal; simpl; unfold mult; simpl. field. apply INR_S_neq0.
Qed.

Lemma mp_iter p : forall a b, length a = length b -> List.Forall (fun m => length (snd m) = length a) p ->
  is_iter_int (mp_evalR p) a b (mp_intR p a b).
Proof.
  induction p as [|[c es] p IH]; intros a b Hab Hwf.
  - apply iter_zero. exact Hab.
  - inversion Hwf as [|? ? H1 H2]; subst. cbn [snd] in H1. cbn [mp_evalR mp_intR].
    apply (iter_plus (fun xs => QcR c * mono_evalR es xs) (mp_evalR p) a b).
    + apply iter_scal. apply mono_iter; lia.
    + apply IH; assumption.
Qed.

(* ------------------------------------------------------------------ link to the rational model *)
Lemma mono_eval_real : forall es x, QcR (mono_eval es x) = mono_evalR es (map QcR x).
Proof.
  induction es as [|e es IH]; intros [|xi x]; cbn [mono_eval mono_evalR map]; try apply QcR_1.
  rewrite QcR_mult, QcR_pow, IH. reflexivity.
Qed.

Lemma mono_int_real : forall es a b, QcR (mono_int es a b) = mono_intR es (map QcR a) (map QcR b).
Proof.
  induction es as [|e es IH]; intros [|ai a] [|bi b]; cbn [mono_int mono_intR map]; try apply QcR_1.
  rewrite QcR_mult, QcR_div, QcR_minus, !QcR_pow, QcR_qn, IH by apply qn_S_neq0. reflexivity.
Qed.

Lemma mp_eval_real p x : QcR (mp_eval p x) = mp_evalR p (map QcR x).
Proof.
  unfold mp_eval. induction p as [|[c es] p IH]; cbn [map sumQ mp_evalR fst snd]; [apply QcR_0|].
  rewrite QcR_plus, QcR_mult, mono_eval_real, IH. reflexivity.
Qed.

Lemma mp_int_real p a b : QcR (mp_int p a b) = mp_intR p (map QcR a) (map QcR b).
Proof.
  unfold mp_int. induction p as [|[c es] p IH]; cbn [map sumQ mp_intR fst snd]; [apply QcR_0|].
  rewrite QcR_plus, QcR_mult, mono_int_real, IH. reflexivity.
Qed.

(* every formal polynomial whose monomials have n exponents, over every box with rational corners *)
Theorem formal_integral_is_iterated_riemann p a b : length a = length b ->
  List.Forall (fun m => length (snd m) = length a) p ->
  is_iter_int (mp_evalR p) (map QcR a) (map QcR b) (QcR (mp_int p a b)).
Proof.
  intros Hab Hwf. rewrite mp_int_real. apply mp_iter; rewrite ?map_length; assumption.
Qed.

(* ------------------------------------------------------------------ the classes *)
Lemma unit_vec_length n d : length (unit_vec n d) = n.
Proof. unfold unit_vec. rewrite map_length, seq_length. reflexivity. Qed.

Lemma atom_denote_wf n f : atom_dim_ok n f = true -> List.Forall (fun m => length (snd m) = n) (atom_denote n f).
Proof.
  destruct f as [v|cs|cs|cs deg|cs]; cbn [atom_dim_ok atom_denote]; intro H.
  - constructor; [apply repeat_length | constructor].
  - constructor; [apply repeat_length | constructor].
  - apply List.Forall_forall. intros m Hm. apply in_map_iff in Hm. destruct Hm as [dc [<- _]]. apply unit_vec_length.
  - constructor; [apply repeat_length | constructor].
  - apply Nat.eqb_eq in H. subst n. apply List.Forall_forall. intros m Hm. apply in_map_iff in Hm. destruct Hm as [ic [<- _]]. reflexivity.
Qed.

Lemma fn_denote_wf n f : fn_dim_ok n f = true -> List.Forall (fun m => length (snd m) = n) (fn_denote n f).
Proof.
  destruct f as [g|fs]; cbn [fn_dim_ok fn_denote]; intro H; [apply atom_denote_wf; exact H|].
  apply List.Forall_forall. intros m Hm. apply in_flat_map in Hm. destruct Hm as [[g w] [Hg Hm]].
  cbn [fst snd] in Hm. unfold scale_mp in Hm. apply in_map_iff in Hm. destruct Hm as [m0 [<- Hm0]]. cbn [snd].
  rewrite forallb_forall in H. specialize (H (g, w) Hg). cbn [fst] in H.
  pose proof (atom_denote_wf n g H) as Hwf. rewrite List.Forall_forall in Hwf. exact (Hwf m0 Hm0).
Qed.

(* the real function computed by eval of an instance in n variables *)
Definition fn_real (n : nat) (f : fn) : list R -> R := mp_evalR (fn_denote n f).
Definition is_iterated_riemann_integral := is_iter_int.

Theorem family_integral_is_iterated_riemann n f a b : fn_dim_ok n f = true -> length a = n -> length b = n ->
  exists v, fn_int true f a b = IVal v /\
    is_iterated_riemann_integral (fn_real n f) (map QcR a) (map QcR b) (QcR v) /\
    (forall x, length x = n -> exists y, fn_eval f x = IVal y /\ QcR y = fn_real n f (map QcR x)).
Proof.
  intros Hd Ha Hb. exists (mp_int (fn_denote n f) a b). split; [|split].
  - apply fn_int_fixed_correct; assumption.
  - unfold is_iterated_riemann_integral, fn_real. apply formal_integral_is_iterated_riemann; [lia|].
    rewrite Ha. apply fn_denote_wf. exact Hd.
  - intros x Hx. exists (mp_eval (fn_denote n f) x). split; [apply fn_eval_is_poly; assumption|].
    unfold fn_real. apply mp_eval_real.
Qed.

(* ------------------------------------------------------------------ what is_iter_int means in one and two variables *)
Lemma iter_nil_inv f v : is_iter_int f [] [] v -> v = f [].
Proof. intro H. inversion H; subst. reflexivity. Qed.

Theorem iter_1d f a b v : is_iter_int f [a] [b] v <-> is_RInt (fun x => f [x]) a b v.
Proof.
  split; intro H.
  - inversion H as [|f0 a0 b0 a' b' g v0 Hin Hout]; subst.
    apply (is_RInt_ext g); [|exact Hout].
    intros x Hx. apply (iter_nil_inv (fun xs => f (x :: xs)) (g x)). apply Hin. lra.
  - apply (iter_cons f a b [] [] (fun x => f [x]) v); [|exact H].
    intros x _. apply (iter_nil (fun xs => f (x :: xs))).
Qed.

Theorem iter_2d f a1 a2 b1 b2 v : is_iter_int f [a1; a2] [b1; b2] v <->
  exists g, (forall x, Rmin a1 b1 <= x <= Rmax a1 b1 -> is_RInt (fun y => f [x; y]) a2 b2 (g x)) /\ is_RInt g a1 b1 v.
Proof.
  split.
  - intro H. inversion H as [|f0 a0 b0 a' b' g v0 Hin Hout]; subst. exists g. split; [|exact Hout].
    intros x Hx. apply (iter_1d (fun xs => f (x :: xs))). apply Hin. exact Hx.
  - intros [g [Hin Hout]]. apply (iter_cons f a1 b1 [a2] [b2] g v); [|exact Hout].
    intros x Hx. apply (iter_1d (fun xs => f (x :: xs))). apply Hin. exact Hx.
Qed.

(* ------------------------------------------------------------------ the order of integration does not matter (polynomials) *)
(* A consequence of Fubini's theorem that can be proved without it: integrating a polynomial with the first two variables
   in the other order (x2 outermost, then x1, then the rest) yields the same number. *)
Definition swap2 {A} (l : list A) : list A := match l with x :: y :: r => y :: x :: r | _ => l end.
Definition swap_mp (p : mpoly) : mpoly := map (fun m => (fst m, swap2 (snd m))) p.

Lemma mono_evalR_swap es xs : mono_evalR (swap2 es) xs = mono_evalR es (swap2 xs) \/ (length es < 2)%nat \/ (length xs < 2)%nat.
Proof.
  destruct es as [|e1 [|e2 es]]; [right; left; simpl; lia | right; left; simpl; lia |].
  destruct xs as [|x1 [|x2 xs]]; [right; right; simpl; lia | right; right; simpl; lia |].
  left. cbn [swap2 mono_evalR]. ring.
Qed.

Lemma mp_evalR_swap p xs : List.Forall (fun m => (2 <= length (snd m))%nat) p -> (2 <= length xs)%nat ->
  mp_evalR (swap_mp p) xs = mp_evalR p (swap2 xs).
Proof.
  intros Hp Hx. induction Hp as [|[c es] p Hm _ IH]; [reflexivity|]. cbn [swap_mp map mp_evalR fst snd] in *.
  fold (swap_mp p). rewrite IH. destruct (mono_evalR_swap es xs) as [E|[E|E]]; [rewrite E; reflexivity | lia | lia].
Qed.

Lemma mono_int_swap es a b : (2 <= length es)%nat -> (2 <= length a)%nat -> (2 <= length b)%nat ->
  (mono_int (swap2 es) (swap2 a) (swap2 b) = mono_int es a b)%Qc.
Proof.
  destruct es as [|e1 [|e2 es]]; simpl; try lia. destruct a as [|a1 [|a2 a]]; simpl; try lia.
  destruct b as [|b1 [|b2 b]]; simpl; try lia. intros _ _ _. ring.
Qed.

Theorem polynomial_integration_order_irrelevant p a b : length a = length b -> (2 <= length a)%nat ->
  List.Forall (fun m => length (snd m) = length a) p ->
  is_iter_int (mp_evalR p) (map QcR a) (map QcR b) (QcR (mp_int p a b)) /\
  is_iter_int (fun xs => mp_evalR p (swap2 xs)) (swap2 (map QcR a)) (swap2 (map QcR b)) (QcR (mp_int p a b)).
Proof.
  intros Hab Hn Hwf. split; [apply formal_integral_is_iterated_riemann; assumption|].
  assert (Hwf2 : List.Forall (fun m => (2 <= length (snd m))%nat) p).
  { eapply List.Forall_impl; [|exact Hwf]. intros m Hm. cbn beta in Hm. lia. }
  assert (Hsw : forall (l : list Qc), map QcR (swap2 l) = swap2 (map QcR l)) by (intros [|x [|y l]]; reflexivity).
  assert (Hlen : forall A (l : list A), length (swap2 l) = length l) by (intros A [|x [|y l]]; reflexivity).
  assert (Eint : mp_int (swap_mp p) (swap2 a) (swap2 b) = mp_int p a b).
  { unfold mp_int. clear Hwf2. induction Hwf as [|[c es] p Hm _ IH]; [reflexivity|].
    cbn [swap_mp map sumQ fst snd] in *. fold (swap_mp p). rewrite IH. f_equal. f_equal.
    apply mono_int_swap; lia. }
  rewrite <- Eint, <- !Hsw.
  apply (iter_ext_len (mp_evalR (swap_mp p))).
  - intros xs Hl. apply mp_evalR_swap; [exact Hwf2|]. rewrite Hl, map_length, Hlen. exact Hn.
  - apply formal_integral_is_iterated_riemann; rewrite ?Hlen; [exact Hab|].
    unfold swap_mp. apply List.Forall_forall. intros m Hin. apply in_map_iff in Hin. destruct Hin as [m0 [<- Hin0]]. cbn [snd].
    rewrite Hlen. rewrite List.Forall_forall in Hwf. exact (Hwf m0 Hin0).
Qed.
