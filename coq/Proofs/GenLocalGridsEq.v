(* C08, source-derived model: the functions GENERATED from sparseSpACE/Grid.py (coq/Gen/LocalGrid1DGen.v, written by
   harness/translate/py2gallina_c08.py at the start of every ./check C08) are the hand-written model Model/LocalGrids.v -
   for ALL attribute values (any sub-box, border indices, number of points, both bases), not only for the states the grid
   can reach.  Natural-number arguments of the hand model are passed as Z.of_nat. *)
From Coq Require Import ZArith List QArith Qcanon Bool Arith Lia.
From SG Require Import Base.QcUtil Base.PyLib Base.PyNum Base.PyNumMath Model.Tensor Model.LocalGrids Model.LocalRules Gen.LocalGrid1DGen
  Proofs.PyLibFacts Proofs.PyNumFacts Proofs.TensorRule Proofs.LocalGridsBase Proofs.LocalGridsTrap Proofs.LocalGridsMain.
Import ListNotations.
Open Scope Z_scope.

Local Arguments Z.add : simpl never.
Local Arguments Z.sub : simpl never.
Local Arguments Z.mul : simpl never.

Ltac py_step := cbn [bindE bindF bindO run_flow py_assert fst snd].

(* boolean tests on Z.of_nat arguments are the tests on the naturals *)
Lemma eqb_of_nat n m : (Z.of_nat n =? Z.of_nat m) = (n =? m)%nat.
Proof. destruct (Nat.eqb_spec n m) as [->|N]; [apply Z.eqb_refl | apply Z.eqb_neq; lia]. Qed.
Lemma eqb_of_nat_c n (c : Z) (m : nat) : c = Z.of_nat m -> (Z.of_nat n =? c) = (n =? m)%nat.
Proof. intros ->. apply eqb_of_nat. Qed.
Lemma eqb_add_of_nat i lo m : (Z.of_nat i + Z.of_nat lo =? Z.of_nat m) = (i + lo =? m)%nat.
Proof. rewrite <- Nat2Z.inj_add. apply eqb_of_nat. Qed.
Lemma of_nat_pred n : (1 <= n)%nat -> Z.of_nat n - 1 = Z.of_nat (n - 1).
Proof. lia. Qed.
Lemma of_nat_pred2 n : (2 <= n)%nat -> Z.of_nat n - 2 = Z.of_nat (n - 2).
Proof. lia. Qed.

(* ---------- the two versions of the hand model ---------- *)
Lemma wct_v_false bnd np npwb lo h i : wct_v false bnd np npwb lo h i = wct bnd np npwb lo h i.
Proof. unfold wct_v, wct. cbn [negb orb]. rewrite andb_true_r. reflexivity. Qed.

(* the versions differ only at: boundary off, one point, two points including the boundary *)
Lemma wct_v_same fixed bnd np npwb lo h i : ~ (bnd = false /\ np = 1%nat /\ npwb = 2%nat) ->
  wct_v fixed bnd np npwb lo h i = wct bnd np npwb lo h i.
Proof.
  intro H. destruct fixed; [|apply wct_v_false]. unfold wct_v, wct. cbn [negb orb].
  destruct bnd; [reflexivity|]. cbn [negb andb].
  destruct (Nat.eqb_spec np 1) as [E1|N1]; [|reflexivity]. cbn [andb].
  destruct (Nat.eqb_spec npwb 2) as [E2|N2]; [|reflexivity]. exfalso. apply H. repeat split; assumption.
Qed.

Lemma trap_weight_v_false modb bnd np npwb lo up s e i :
  trap_weight_v false modb bnd np npwb lo up s e i = trap_weight modb bnd np npwb lo up s e i.
Proof. unfold trap_weight_v, trap_weight. cbv zeta. rewrite !wct_v_false. reflexivity. Qed.

Lemma trap_weight_v_same fixed modb bnd np npwb lo up s e i : ~ (bnd = false /\ np = 1%nat /\ npwb = 2%nat) ->
  trap_weight_v fixed modb bnd np npwb lo up s e i = trap_weight modb bnd np npwb lo up s e i.
Proof. intro H. unfold trap_weight_v, trap_weight. cbv zeta. rewrite !(wct_v_same fixed) by assumption. reflexivity. Qed.

(* the modified basis never reaches the special case (one point: the weight is end - start) *)
Lemma trap_weight_v_mod fixed bnd np npwb lo up s e i :
  trap_weight_v fixed true bnd np npwb lo up s e i = trap_weight true bnd np npwb lo up s e i.
Proof.
  unfold trap_weight_v, trap_weight. cbv zeta.
  destruct (Nat.eqb_spec np 1) as [E1|N1]; [reflexivity|].
  rewrite !(wct_v_same fixed) by (intros (_ & A & _); contradiction). reflexivity.
Qed.

Lemma trap_weights_v_same fixed modb bnd np npwb lo up s e : ~ (bnd = false /\ np = 1%nat /\ npwb = 2%nat) ->
  trap_weights_v fixed modb bnd np npwb lo up s e = trap_weights modb bnd np npwb lo up s e.
Proof. intro H. unfold trap_weights_v, trap_weights. apply map_ext. intro i. apply trap_weight_v_same. assumption. Qed.

Lemma trap_weights_v_mod fixed bnd np npwb lo up s e :
  trap_weights_v fixed true bnd np npwb lo up s e = trap_weights true bnd np npwb lo up s e.
Proof. unfold trap_weights_v, trap_weights. apply map_ext. intro i. apply trap_weight_v_mod. Qed.

(* ---------- weight_composite_trapezoidal = wct_v, for the version of the code in the working tree ---------- *)
Ltac wct_cases bnd np npwb lo i :=
  intros;
  unfold TrapezoidalGrid1D_weight_composite_trapezoidal, wct_v;
  rewrite ?(eqb_of_nat_c np 1 1 eq_refl), ?(eqb_of_nat_c npwb 2 2 eq_refl);
  match goal with H : (1 <= npwb)%nat |- _ => rewrite (of_nat_pred npwb H) end;
  rewrite ?eqb_add_of_nat; change 0 with (Z.of_nat 0); rewrite ?eqb_add_of_nat;
  destruct bnd, (np =? 1)%nat, (npwb =? 2)%nat, (i + lo =? 0)%nat, (i + lo =? npwb - 1)%nat; reflexivity.

Definition gen_wct_is (fixed : bool) : Prop := forall bnd np npwb lo h i, (1 <= npwb)%nat ->
  TrapezoidalGrid1D_weight_composite_trapezoidal bnd (Z.of_nat np) (Z.of_nat npwb) (Z.of_nat lo) h (Z.of_nat i)
  = Some (wct_v fixed bnd np npwb lo h i).

Theorem gen_wct_version : exists fixed, gen_wct_is fixed.
Proof.
  first [ exists false; unfold gen_wct_is; intros bnd np npwb lo h i Hn; wct_cases bnd np npwb lo i
        | exists true; unfold gen_wct_is; intros bnd np npwb lo h i Hn; wct_cases bnd np npwb lo i ].
Qed.

Section Version.
Variable fixed : bool.
Hypothesis Hwct : gen_wct_is fixed.

(* ---------- get_1d_weight = trap_weight_v (all branches of the modified basis) ---------- *)
Theorem gen_get_1d_weight_v modb bnd np npwb lo up s e i : (1 <= npwb)%nat -> (i < np)%nat ->
  TrapezoidalGrid1D_get_1d_weight bnd modb s e (Z.of_nat np) (Z.of_nat npwb) (Z.of_nat lo) (Z.of_nat up)
    (spacing s e npwb) (Z.of_nat i)
  = Some (trap_weight_v fixed modb bnd np npwb lo up s e i).
Proof.
  intros Hn Hi. unfold TrapezoidalGrid1D_get_1d_weight, trap_weight_v.
  rewrite !(Hwct bnd np npwb lo _ i Hn).
  destruct modb; py_step; [|reflexivity].
  rewrite (eqb_of_nat_c np 1 1 eq_refl).
  destruct (Nat.eqb_spec np 1) as [E1|N1]; py_step; [reflexivity|].
  rewrite (eqb_of_nat_c np 2 2 eq_refl).
  rewrite (eqb_of_nat_c lo 1 1 eq_refl), (of_nat_pred npwb Hn), (eqb_of_nat up (npwb - 1)).
  rewrite (eqb_of_nat_c i 0 0 eq_refl), (eqb_of_nat_c i 1 1 eq_refl).
  destruct (Nat.eqb_spec np 2) as [E2|N2]; py_step.
  - destruct (lo =? 1)%nat; py_step.
    + destruct (i =? 0)%nat; reflexivity.
    + destruct (up =? npwb - 1)%nat; py_step; [destruct (i =? 1)%nat; reflexivity | reflexivity].
  - assert (H3 : (3 <= np)%nat) by lia.
    rewrite (eqb_of_nat_c np 3 3 eq_refl).
    rewrite (of_nat_pred np) by lia. rewrite (of_nat_pred2 np) by lia. rewrite !eqb_of_nat.
    destruct ((i =? 0)%nat && (lo =? 1)%nat); py_step; [reflexivity|].
    destruct ((i =? 1)%nat && (lo =? 1)%nat); py_step.
    + destruct ((np =? 3)%nat && (up =? npwb - 1)%nat); py_step; reflexivity.
    + destruct ((i =? np - 1)%nat && (up =? npwb - 1)%nat); py_step; [reflexivity|].
      destruct ((i =? np - 2)%nat && (up =? npwb - 1)%nat); py_step; reflexivity.
Qed.

(* ---------- Grid1d.get_1D_level_weights (receiver TrapezoidalGrid1D) = trap_weights_v ---------- *)
Theorem gen_get_1D_level_weights_v modb bnd np npwb lo up s e : (1 <= npwb)%nat ->
  TrapezoidalGrid1D_get_1D_level_weights bnd modb s e (Z.of_nat np) (Z.of_nat npwb) (Z.of_nat lo) (Z.of_nat up)
    (spacing s e npwb)
  = Some (trap_weights_v fixed modb bnd np npwb lo up s e).
Proof.
  intro Hn. unfold TrapezoidalGrid1D_get_1D_level_weights, trap_weights_v. py_step.
  rewrite py_range_seq.
  rewrite (py_mapM_total _ (fun z => trap_weight_v fixed modb bnd np npwb lo up s e (Z.to_nat z))).
  - py_step. rewrite map_map. f_equal. apply map_ext. intro i. rewrite Nat2Z.id. reflexivity.
  - intros z Hz. apply in_map_iff in Hz. destruct Hz as (i & <- & Hi). apply in_seq in Hi.
    rewrite (gen_get_1d_weight_v modb bnd np npwb lo up s e i Hn) by lia. py_step. rewrite Nat2Z.id. reflexivity.
Qed.
End Version.

(* ---------- level_to_num_points_1d ---------- *)
Lemma Qcpower_two_nat l : Qcpower (py_Z2Qc 2) l = qn (2 ^ l).
Proof.
  induction l as [|l IH]; [reflexivity|].
  cbn [Qcpower]. rewrite IH. change (2 ^ S l)%nat with (2 * 2 ^ l)%nat.
  replace (2 * 2 ^ l)%nat with (2 ^ l + 2 ^ l)%nat by lia. rewrite qn_add.
  change (py_Z2Qc 2) with Qc2. rewrite Qc2_eq. ring.
Qed.

Lemma py_fpow_two_nat l : py_fpow (py_Z2Qc 2) (Z.of_nat l) = Some (qn (2 ^ l)).
Proof.
  unfold py_fpow. replace (0 <=? Z.of_nat l) with true by (symmetry; apply Z.leb_le; lia).
  rewrite Nat2Z.id, Qcpower_two_nat. reflexivity.
Qed.

Lemma qn_sub n m : (m <= n)%nat -> qn (n - m) = (qn n - qn m)%Qc.
Proof. intro H. replace n with ((n - m) + m)%nat at 2 by lia. rewrite qn_add. ring. Qed.

Lemma py_Z2Qc_b2n (t1 t2 : bool) :
  py_Z2Qc ((if t1 then 1 else 0) + (if t2 then 1 else 0)) = qn (b2n t1 + b2n t2).
Proof. destruct t1, t2; reflexivity. Qed.

(* ---- the touch tests of the version of the code in the working tree (Model/LocalRules.v: touch_tol) ---- *)
Definition touch_lower_v (domrel : bool) (s a b : Qc) : bool := if domrel then touch_tol s a a b else py_isclose s a.
Definition touch_upper_trap_v (domrel : bool) (e a b : Qc) : bool := if domrel then touch_tol e b a b else Qc_eqb e b.
Definition touch_upper_cc_v (domrel : bool) (e a b : Qc) : bool := if domrel then touch_tol e b a b else py_isclose e b.

(* calls of translated helper methods (whatever their names) are replaced by their values *)
Ltac resolve_calls :=
  repeat match goal with
  | |- context [bindE ?h ?k] =>
      let v := eval hnf in h in
      match v with Some _ => change (bindE h k) with (bindE v k); cbn [bindE] end
  end.

Lemma count_form_trap bnd (t1 t2 : bool) l :
  Some ((qn (2 ^ l) + py_Z2Qc 1)%Qc - py_Z2Qc ((if negb bnd then 1 else 0) * ((if t1 then 1 else 0) + (if t2 then 1 else 0))))%Qc
  = Some (qn (num_points_eq bnd t1 t2 (npwb_of_level l))).
Proof.
  unfold num_points_eq, npwb_of_level. f_equal. assert (H1 : (1 <= 2 ^ l)%nat) by apply pow2_pos.
  destruct bnd; cbn [negb].
  - rewrite Z.mul_0_l. rewrite Nat.sub_0_r, qn_add. change (py_Z2Qc 0) with (Q2Qc 0). change (py_Z2Qc 1) with (qn 1). ring.
  - rewrite Z.mul_1_l, py_Z2Qc_b2n. rewrite qn_sub by (destruct t1, t2; cbn; lia).
    rewrite (qn_add (2 ^ l) 1). change (py_Z2Qc 1) with (qn 1). reflexivity.
Qed.

Lemma count_form_cc (t1 t2 : bool) l :
  Some ((qn (2 ^ l) + py_Z2Qc 1)%Qc - py_Z2Qc ((if t1 then 1 else 0) + (if t2 then 1 else 0)))%Qc
  = Some (qn (num_points_eq false t1 t2 (npwb_of_level l))).
Proof.
  unfold num_points_eq, npwb_of_level. f_equal. assert (H1 : (1 <= 2 ^ l)%nat) by apply pow2_pos. cbn [negb].
  rewrite py_Z2Qc_b2n. rewrite qn_sub by (destruct t1, t2; cbn; lia).
  rewrite (qn_add (2 ^ l) 1). change (py_Z2Qc 1) with (qn 1). reflexivity.
Qed.

(* TrapezoidalGrid1D (also SimpsonGrid1D by inheritance): the announced count is num_points_eq with the two touch tests
   the code makes *)
Definition gen_trap_count_is (domrel : bool) : Prop := forall bnd s e a b l,
  TrapezoidalGrid1D_level_to_num_points_1d bnd s e a b (Z.of_nat l)
  = Some (qn (num_points_eq bnd (touch_lower_v domrel s a b) (touch_upper_trap_v domrel e a b) (npwb_of_level l))).

Ltac trap_count_tac :=
  unfold gen_trap_count_is; intros bnd s e a b l;
  unfold TrapezoidalGrid1D_level_to_num_points_1d, touch_lower_v, touch_upper_trap_v, touch_tol;
  rewrite py_fpow_two_nat; py_step; resolve_calls; py_step; exact (count_form_trap bnd _ _ l).

(* ClenshawCurtisGrid1D *)
Definition gen_cc_count_is (domrel : bool) : Prop := forall bnd s e a b l,
  ClenshawCurtisGrid1D_level_to_num_points_1d bnd s e a b (Z.of_nat l)
  = Some (qn (num_points_eq bnd (touch_lower_v domrel s a b) (touch_upper_cc_v domrel e a b) (npwb_of_level l))).

Ltac cc_count_tac :=
  unfold gen_cc_count_is; intros bnd s e a b l;
  unfold ClenshawCurtisGrid1D_level_to_num_points_1d, touch_lower_v, touch_upper_cc_v, touch_tol;
  rewrite !py_fpow_two_nat; destruct bnd; py_step; resolve_calls; py_step;
  [ unfold num_points_eq, npwb_of_level; f_equal; rewrite Nat.sub_0_r, qn_add; change (py_Z2Qc 1) with (qn 1); reflexivity
  | exact (count_form_cc _ _ l) ].

Theorem gen_counts_version : exists domrel, gen_trap_count_is domrel /\ gen_cc_count_is domrel.
Proof.
  first [ exists false; split; [trap_count_tac | cc_count_tac]
        | exists true; split; [trap_count_tac | cc_count_tac] ].
Qed.

(* where the touch tests are plain equality the generated count is eq_np of the hand model *)
Lemma gen_trap_level_to_num_points_eq_np domrel bnd x : gen_trap_count_is domrel ->
  touch_lower_v domrel (d_s x) (d_a x) (d_b x) = Qc_eqb (d_s x) (d_a x) ->
  touch_upper_trap_v domrel (d_e x) (d_a x) (d_b x) = Qc_eqb (d_e x) (d_b x) ->
  TrapezoidalGrid1D_level_to_num_points_1d bnd (d_s x) (d_e x) (d_a x) (d_b x) (Z.of_nat (d_level x))
  = Some (qn (eq_np bnd x)).
Proof. intros H H1 H2. rewrite H, H1, H2. reflexivity. Qed.

Theorem gen_gauss_level_to_num_points l :
  GaussGrid1D_level_to_num_points_1d (Z.of_nat l) = Some (qn (npwb_of_level l)).
Proof.
  unfold GaussGrid1D_level_to_num_points_1d, npwb_of_level. rewrite py_fpow_two_nat. py_step.
  rewrite qn_add. change (py_Z2Qc 1) with (qn 1). reflexivity.
Qed.

(* isclose agrees with equality at the point itself (and therefore on every touching sub-box) *)
Lemma py_isclose_refl x : py_isclose x x = true.
Proof.
  unfold py_isclose. apply Qc_leb_le.
  replace (x - x)%Qc with (Q2Qc 0) by ring.
  assert (E0 : Qc_abs (Q2Qc 0) = Q2Qc 0) by reflexivity. rewrite E0.
  assert (Hx : (Q2Qc 0 <= Qc_abs x)%Qc).
  { unfold Qc_abs. destruct (Qc_leb 0 x) eqn:E; [apply Qc_leb_le; exact E|].
    assert (N : ~ (0 <= x)%Qc) by (intro H; apply Qc_leb_le in H; congruence).
    apply Qcnot_le_lt in N. qc_order. }
  assert (Em : Qc_max (Qc_abs x) (Qc_abs x) = Qc_abs x) by (unfold Qc_max; destruct (Qc_leb (Qc_abs x) (Qc_abs x)); reflexivity).
  rewrite Em. revert Hx. generalize (Qc_abs x). intros y Hy. qc_order.
Qed.

(* ---------- the three weight functions together, for the version of the code in the working tree ---------- *)
Definition gen_is_model (fixed : bool) : Prop :=
  (forall bnd np npwb lo h i, (1 <= npwb)%nat ->
     TrapezoidalGrid1D_weight_composite_trapezoidal bnd (Z.of_nat np) (Z.of_nat npwb) (Z.of_nat lo) h (Z.of_nat i)
     = Some (wct_v fixed bnd np npwb lo h i)) /\
  (forall modb bnd np npwb lo up s e i, (1 <= npwb)%nat -> (i < np)%nat ->
     TrapezoidalGrid1D_get_1d_weight bnd modb s e (Z.of_nat np) (Z.of_nat npwb) (Z.of_nat lo) (Z.of_nat up)
       (spacing s e npwb) (Z.of_nat i)
     = Some (trap_weight_v fixed modb bnd np npwb lo up s e i)) /\
  (forall modb bnd np npwb lo up s e, (1 <= npwb)%nat ->
     TrapezoidalGrid1D_get_1D_level_weights bnd modb s e (Z.of_nat np) (Z.of_nat npwb) (Z.of_nat lo) (Z.of_nat up)
       (spacing s e npwb)
     = Some (trap_weights_v fixed modb bnd np npwb lo up s e)).

Theorem gen_is_model_version : exists fixed, gen_is_model fixed.
Proof.
  destruct gen_wct_version as [fixed H]. exists fixed. split; [exact H | split].
  - apply gen_get_1d_weight_v. exact H.
  - apply gen_get_1D_level_weights_v. exact H.
Qed.

Theorem gen_versions fixed modb bnd np npwb lo up s e :
  trap_weights_v false modb bnd np npwb lo up s e = trap_weights modb bnd np npwb lo up s e /\
  (~ (bnd = false /\ np = 1%nat /\ npwb = 2%nat) ->
   trap_weights_v fixed modb bnd np npwb lo up s e = trap_weights modb bnd np npwb lo up s e) /\
  trap_weights_v fixed true bnd np npwb lo up s e = trap_weights true bnd np npwb lo up s e.
Proof.
  split; [|split].
  - unfold trap_weights_v, trap_weights. apply map_ext. intro i. apply trap_weight_v_false.
  - apply trap_weights_v_same.
  - apply trap_weights_v_mod.
Qed.

(* ---- the attribute values of one dimension after set_current_area (hand-transcribed, Grid.py:213-246) ---- *)
Definition gen_weights_of (modb bnd : bool) (x : dim1) : option (list Qc) :=
  let npwb := npwb_of_level (d_level x) in
  TrapezoidalGrid1D_get_1D_level_weights bnd modb (d_s x) (d_e x) (Z.of_nat (eq_np bnd x)) (Z.of_nat npwb)
    (Z.of_nat (fst (eq_borders bnd x))) (Z.of_nat (snd (eq_borders bnd x))) (spacing (d_s x) (d_e x) npwb).

Definition eq_weights_v (fixed modb bnd : bool) (x : dim1) : list Qc :=
  trap_weights_v fixed modb bnd (eq_np bnd x) (npwb_of_level (d_level x)) (fst (eq_borders bnd x)) (snd (eq_borders bnd x))
    (d_s x) (d_e x).

Lemma eq_weights_unfold (modb bnd : bool) (x : dim1) :
  eq_weights (if modb then FTrapMod else FTrap) bnd x
  = trap_weights modb bnd (eq_np bnd x) (npwb_of_level (d_level x)) (fst (eq_borders bnd x)) (snd (eq_borders bnd x)) (d_s x) (d_e x).
Proof. unfold eq_weights. destruct (eq_borders bnd x) as [lo up]. destruct modb; reflexivity. Qed.

(* where the two versions can differ, expressed on a dimension *)
Lemma differ_only_level0_onesided (bnd : bool) (x : dim1) :
  bnd = false /\ eq_np bnd x = 1%nat /\ npwb_of_level (d_level x) = 2%nat ->
  bnd = false /\ d_level x = 0%nat /\ xorb (d_tl x) (d_tr x) = true.
Proof.
  intros (Hb & Hn & Hw). subst bnd. split; [reflexivity|].
  assert (L0 : d_level x = 0%nat).
  { unfold npwb_of_level in Hw. destruct (d_level x) as [|l]; [reflexivity|]. exfalso.
    assert (2 <= 2 ^ S l)%nat by (cbn [Nat.pow]; pose proof (pow2_pos l); lia). lia. }
  split; [exact L0|].
  unfold eq_np, num_points_eq, npwb_of_level in Hn. rewrite L0 in Hn. cbn [Nat.pow Nat.add] in Hn.
  unfold d_tl, d_tr. destruct (touch_l (d_a x) (d_s x)), (touch_r (d_b x) (d_e x)); cbn in Hn; try discriminate; reflexivity.
Qed.

Section AnyVersion.
Variable fixed : bool.
Hypothesis Hgen : gen_is_model fixed.

Lemma gen_weights_of_model modb bnd x : gen_weights_of modb bnd x = Some (eq_weights_v fixed modb bnd x).
Proof.
  destruct Hgen as (_ & _ & H). unfold gen_weights_of, eq_weights_v. apply H. pose proof (npwb_ge2 (d_level x)). lia.
Qed.

Lemma eq_weights_v_model modb bnd x : ~ (bnd = false /\ d_level x = 0%nat /\ xorb (d_tl x) (d_tr x) = true) ->
  eq_weights_v fixed modb bnd x = eq_weights (if modb then FTrapMod else FTrap) bnd x.
Proof.
  intro H. rewrite eq_weights_unfold. unfold eq_weights_v. apply trap_weights_v_same.
  intro D. apply H. apply differ_only_level0_onesided. exact D.
Qed.

(* never raises; as many weights as announced *)
Theorem gen_weights_count modb bnd x : exists ws, gen_weights_of modb bnd x = Some ws /\ length ws = eq_np bnd x.
Proof.
  eexists. split; [apply gen_weights_of_model|]. unfold eq_weights_v, trap_weights_v. rewrite map_length, seq_length. reflexivity.
Qed.

Theorem gen_trap_exact_deg1 modb bnd x ws : all_present bnd x -> gen_weights_of modb bnd x = Some ws ->
  exact1 (eq_points bnd x) ws (d_s x) (d_e x) 1.
Proof.
  intros Hp H. rewrite gen_weights_of_model in H. injection H as <-.
  rewrite eq_weights_v_model.
  - apply trap_exact_all_present. assumption.
  - intros (Hb & _ & Hx). destruct Hp as [Hp | [H1 H2]]; [congruence|]. rewrite H1, H2 in Hx. discriminate.
Qed.

Theorem gen_trapmod_exact_deg1 x ws : (1 <= eq_np false x)%nat -> gen_weights_of true false x = Some ws ->
  exact1 (eq_points false x) ws (d_s x) (d_e x) 1.
Proof.
  intros Hn H. rewrite gen_weights_of_model in H. injection H as <-.
  unfold eq_weights_v. rewrite trap_weights_v_mod. rewrite <- (eq_weights_unfold true false x).
  apply trapmod_exact. assumption.
Qed.

Theorem gen_boundary_off x woff won : dim_ok x -> ~ (d_level x = 0%nat /\ xorb (d_tl x) (d_tr x) = true) ->
  gen_weights_of false false x = Some woff -> gen_weights_of false true x = Some won ->
  combine (eq_points false x) woff = filter (keep_interior (d_a x) (d_b x)) (combine (eq_points true x) won).
Proof.
  intros Hok Hl Hoff Hon. rewrite gen_weights_of_model in Hoff, Hon.
  injection Hoff as <-. injection Hon as <-.
  rewrite !eq_weights_v_model.
  - apply trap_boundary_off; assumption.
  - intros (Hb & _). discriminate.
  - intros (_ & H0 & Hx). apply Hl. split; assumption.
Qed.

Theorem gen_announced_is_returned domrel modb bnd x : gen_trap_count_is domrel ->
  touch_lower_v domrel (d_s x) (d_a x) (d_b x) = Qc_eqb (d_s x) (d_a x) ->
  touch_upper_trap_v domrel (d_e x) (d_a x) (d_b x) = Qc_eqb (d_e x) (d_b x) ->
  exists ws, gen_weights_of modb bnd x = Some ws /\
    TrapezoidalGrid1D_level_to_num_points_1d bnd (d_s x) (d_e x) (d_a x) (d_b x) (Z.of_nat (d_level x))
    = Some (qn (length ws)).
Proof.
  intros Hc H1 H2. destruct (gen_weights_count modb bnd x) as (ws & Hw & Hl). exists ws. split; [exact Hw|].
  rewrite Hl. apply (gen_trap_level_to_num_points_eq_np domrel); assumption.
Qed.
End AnyVersion.


(* ---- the two versions of the touch test ---- *)
(* a sub-box that starts AT the boundary touches it in both versions *)
Lemma touch_lower_v_refl domrel a b : touch_lower_v domrel a a b = true.
Proof.
  destruct domrel; cbn [touch_lower_v]; [|apply py_isclose_refl].
  unfold touch_tol. apply Qc_leb_le. replace (a - a)%Qc with (Q2Qc 0) by ring.
  assert (E0 : Qc_abs (Q2Qc 0) = Q2Qc 0) by reflexivity. rewrite E0.
  assert (Hx : (Q2Qc 0 <= Qc_abs (b - a))%Qc).
  { unfold Qc_abs. destruct (Qc_leb 0 (b - a)) eqn:E; [apply Qc_leb_le; exact E|].
    assert (N : ~ (0 <= b - a)%Qc) by (intro H; apply Qc_leb_le in H; congruence).
    apply Qcnot_le_lt in N. qc_order. }
  revert Hx. generalize (Qc_abs (b - a)). intros y Hy. qc_order.
Qed.

(* the code as it is counts an INTERIOR sub-box of the domain [2^34, 2^34+1] as touching the lower boundary; with the
   domain-relative test it does not *)
Theorem isclose_misfires_far_domain :
  exists s a b : Qc, (a < s)%Qc /\ (s < b)%Qc /\ touch_lower_v false s a b = true /\ touch_lower_v true s a b = false.
Proof.
  exists (Q2Qc (34359738369 # 2)), (Q2Qc (17179869184 # 1)), (Q2Qc (17179869185 # 1)).
  repeat split; vm_compute; reflexivity.
Qed.

(* ---------- LejaGrid1D.level_to_num_points_1d (translated since the repair 28a24e9 put it inside the subset) ---------- *)
(* with linear_growth_factor = 2 (set by the constructor): the points including the boundary are leja_npwb, and only the points on
   touched sides of the domain are dropped - the count of the repaired model (leja_info_fx) *)
Theorem gen_leja_level_to_num_points bnd s e a b l :
  LejaGrid1D_level_to_num_points_1d bnd s e a b 2 (Z.of_nat l)
  = Some (Z.of_nat (num_points_eq bnd (touch_tol s a a b) (touch_tol e b a b) (leja_npwb l))).
Proof.
  unfold LejaGrid1D_level_to_num_points_1d, LejaGrid1D_level_to_num_points_with_boundary_1d, num_points_eq, touch_tol.
  assert (Hw : (2 <= leja_npwb l)%nat) by (destruct l; cbn; lia).
  assert (Ew : (if (Z.of_nat l =? 0)%Z then 2 else 2 * (Z.of_nat l + 1) - 1)%Z = Z.of_nat (leja_npwb l)).
  { destruct l as [|l]; [reflexivity|]. replace (Z.of_nat (S l) =? 0)%Z with false by (symmetry; apply Z.eqb_neq; lia).
    unfold leja_npwb. lia. }
  destruct (Z.of_nat l =? 0)%Z eqn:E0; py_step; resolve_calls; py_step; cbn [negb];
    destruct bnd; cbn [negb]; py_step; f_equal;
    change (py_Qc 1 100000000) with (Q2Qc (1 # 100000000));
    destruct (Qc_leb (Qc_abs (s - a)) (Q2Qc (1 # 100000000) * Qc_abs (b - a)));
    destruct (Qc_leb (Qc_abs (e - b)) (Q2Qc (1 # 100000000) * Qc_abs (b - a))); cbn [b2n Nat.add]; lia.
Qed.
