(* C02: LINEARITY of the combined interpolant / quadrature in the function, and exactness on the whole sparse-grid SPACE:
   every finite linear combination of hierarchical tensor hat functions whose (effective) level lies in the index set is
   reproduced at every point of the box and integrated exactly ("by linearity" of the property statement, made formal).
   Also: the point/weight list of the whole combination (StandardCombi.get_points_and_weights) carries the combined
   quadrature. New file (C02 deepening); nothing here changes the files C03/C04/C07 import. *)
From Coq Require Import ZArith List Bool QArith Qcanon Lia Permutation.
From SG Require Import Base.QcUtil Model.CombiScheme Model.StdCombi Proofs.SchemeBasics Proofs.SchemeIE Proofs.SchemeInv
  Proofs.CombiAbstract Proofs.StdGrid Proofs.StdCombiSum Proofs.NodalExact Proofs.StdNodal Proofs.StdHierTrap
  Proofs.StdHierTensor Proofs.StdHier Proofs.StdHierGeneral.
Import ListNotations.
Local Open Scope Qc_scope.

(* a finite linear combination of functions *)
Definition lincomb {A} (ts : list (Qc * (A -> Qc))) (x : A) : Qc := sumQ (map (fun t => fst t * snd t x) ts).

Lemma lincomb_nil {A} (x : A) : lincomb [] x = 0.
Proof. reflexivity. Qed.

Lemma lincomb_cons {A} c (f : A -> Qc) ts x : lincomb ((c, f) :: ts) x = c * f x + lincomb ts x.
Proof. reflexivity. Qed.

(* ---------- functionals (weighted point lists) are linear ---------- *)
Lemma appT_add {X} (Ls : list (fnl X)) : forall f g, appT X Ls (fun q => f q + g q) = appT X Ls f + appT X Ls g.
Proof.
  induction Ls as [|L r IH]; intros f g; [reflexivity|]. simpl.
  rewrite (app1_ext X L _ (fun p => appT X r (fun q => f (p :: q)) + appT X r (fun q => g (p :: q)))).
  - apply app1_add.
  - intro p. apply IH.
Qed.

Lemma appT_zero {X} (Ls : list (fnl X)) : appT X Ls (fun _ => 0) = 0.
Proof.
  induction Ls as [|L r IH]; [reflexivity|]. simpl.
  rewrite (app1_ext X L _ (fun _ => 0)); [apply app1_zero|]. intro p. exact IH.
Qed.

Lemma appT_lincomb {X} (Ls : list (fnl X)) : forall ts,
  appT X Ls (lincomb ts) = sumQ (map (fun t => fst t * appT X Ls (snd t)) ts).
Proof.
  induction ts as [|[c f] ts IH].
  - simpl. apply appT_zero.
  - rewrite (appT_ext X Ls _ (fun q => c * f q + lincomb ts q)) by (intro q; apply lincomb_cons).
    rewrite appT_add, appT_scale, IH. reflexivity.
Qed.

(* ---------- component interpolant ---------- *)
Definition mask_all (bd : bool) (a b : list Qc) (ts : list (Qc * (list Qc -> Qc))) : list (Qc * (list Qc -> Qc)) :=
  map (fun t => (fst t, masked bd a b (snd t))) ts.

Lemma masked_lincomb bd a b ts p : masked bd a b (lincomb ts) p = lincomb (mask_all bd a b ts) p.
Proof.
  unfold mask_all, lincomb. rewrite map_map. cbn [fst snd]. unfold masked. destruct bd; [reflexivity|].
  destruct (on_boundary a b p); [|reflexivity].
  symmetry. apply sumQ_zero. intros t _. ring.
Qed.

Theorem comp_interp_lincomb bd a b l ts x :
  comp_interp bd a b l (lincomb ts) x = sumQ (map (fun t => fst t * comp_interp bd a b l (snd t) x) ts).
Proof.
  unfold comp_interp. rewrite !interpN_appT.
  rewrite (appT_ext Qc _ _ (lincomb (mask_all bd a b ts))) by (intro q; apply masked_lincomb).
  rewrite appT_lincomb. unfold mask_all. rewrite map_map. cbn [fst snd].
  apply sumQ_map_ext. intros t _. rewrite interpN_appT. reflexivity.
Qed.

(* ---------- component quadrature ---------- *)
Lemma dotQ_map_add {A} (f g : A -> Qc) : forall (ps : list A) ws,
  dotQ (map (fun p => f p + g p) ps) ws = dotQ (map f ps) ws + dotQ (map g ps) ws.
Proof.
  induction ps as [|p ps IH]; intros [|w ws]; simpl; try ring. rewrite IH. ring.
Qed.

Lemma dotQ_map_scale {A} c (f : A -> Qc) : forall (ps : list A) ws,
  dotQ (map (fun p => c * f p) ps) ws = c * dotQ (map f ps) ws.
Proof.
  induction ps as [|p ps IH]; intros [|w ws]; simpl; try ring. rewrite IH. ring.
Qed.

Lemma dotQ_map_zero {A} : forall (ps : list A) ws, dotQ (map (fun _ => 0) ps) ws = 0.
Proof. induction ps as [|p ps IH]; intros [|w ws]; simpl; try ring. rewrite IH. ring. Qed.

Lemma dotQ_map_ext {A} (f g : A -> Qc) ps ws : (forall p, f p = g p) -> dotQ (map f ps) ws = dotQ (map g ps) ws.
Proof. intro H. f_equal. apply map_ext. exact H. Qed.

Lemma dotQ_lincomb {A} (ps : list A) ws : forall ts,
  dotQ (map (lincomb ts) ps) ws = sumQ (map (fun t => fst t * dotQ (map (snd t) ps) ws) ts).
Proof.
  induction ts as [|[c f] ts IH].
  - simpl. apply dotQ_map_zero.
  - rewrite (dotQ_map_ext _ (fun p => c * f p + lincomb ts p)) by (intro p; apply lincomb_cons).
    rewrite dotQ_map_add, dotQ_map_scale, IH. reflexivity.
Qed.

Theorem comp_integral_lincomb bd a b l ts :
  comp_integral bd a b l (lincomb ts) = sumQ (map (fun t => fst t * comp_integral bd a b l (snd t)) ts).
Proof. unfold comp_integral. apply dotQ_lincomb. Qed.

(* ---------- the combination ---------- *)
Theorem combi_interp_lincomb bd a b cs ts x :
  combi_interp bd a b cs (lincomb ts) x = sumQ (map (fun t => fst t * combi_interp bd a b cs (snd t) x) ts).
Proof.
  unfold combi_interp.
  rewrite (sumQ_map_ext _ (fun kv => sumQ (map (fun t => qc_of_Z (snd kv) * (fst t * comp_interp bd a b (fst kv) (snd t) x)) ts))).
  - rewrite sumQ_exchange. apply sumQ_map_ext. intros t _.
    rewrite <- sumQ_map_scale. apply sumQ_map_ext. intros kv _. ring.
  - intros kv _. rewrite comp_interp_lincomb. rewrite <- sumQ_map_scale. reflexivity.
Qed.

Theorem combi_integral_lincomb bd a b cs ts :
  combi_integral bd a b cs (lincomb ts) = sumQ (map (fun t => fst t * combi_integral bd a b cs (snd t)) ts).
Proof.
  unfold combi_integral.
  rewrite (sumQ_map_ext _ (fun kv => sumQ (map (fun t => qc_of_Z (snd kv) * (fst t * comp_integral bd a b (fst kv) (snd t))) ts))).
  - rewrite sumQ_exchange. apply sumQ_map_ext. intros t _.
    rewrite <- sumQ_map_scale. apply sumQ_map_ext. intros kv _. ring.
  - intros kv _. rewrite comp_integral_lincomb. rewrite <- sumQ_map_scale. reflexivity.
Qed.

(* the special cases one usually quotes *)
Corollary combi_interp_add bd a b cs f g x :
  combi_interp bd a b cs (fun q => f q + g q) x = combi_interp bd a b cs f x + combi_interp bd a b cs g x.
Proof.
  pose proof (combi_interp_lincomb bd a b cs [(1, f); (1, g)] x) as H. simpl in H.
  assert (forall q, f q + g q = lincomb [(1, f); (1, g)] q) as E by (intro q; unfold lincomb; simpl; ring).
  unfold combi_interp in *. unfold comp_interp in *.
  rewrite (sumQ_map_ext _ (fun kv => qc_of_Z (snd kv) *
            interpN (map (fun t => let '(x0, y0, z) := t in grid1_full x0 y0 z) (zip3 a b (fst kv)))
                    (masked bd a b (lincomb [(1, f); (1, g)])) x)).
  - rewrite H. ring.
  - intros kv _. f_equal. apply interpN_ext. intro q. unfold masked. rewrite E. reflexivity.
Qed.

Corollary combi_interp_scale bd a b cs c f x :
  combi_interp bd a b cs (fun q => c * f q) x = c * combi_interp bd a b cs f x.
Proof.
  pose proof (combi_interp_lincomb bd a b cs [(c, f)] x) as H. simpl in H.
  assert (forall q, c * f q = lincomb [(c, f)] q) as E by (intro q; unfold lincomb; simpl; ring).
  unfold combi_interp in *. unfold comp_interp in *.
  rewrite (sumQ_map_ext _ (fun kv => qc_of_Z (snd kv) *
            interpN (map (fun t => let '(x0, y0, z) := t in grid1_full x0 y0 z) (zip3 a b (fst kv)))
                    (masked bd a b (lincomb [(c, f)])) x)).
  - rewrite H. ring.
  - intros kv _. f_equal. apply interpN_ext. intro q. unfold masked. rewrite E. reflexivity.
Qed.

(* ================= exactness on the SPAN of the hierarchical hats ================= *)
(* a member of the span: coefficient, level vector, index vector *)
Definition hat_term : Type := (Qc * (lv * lv))%type.
Definition span_fun (a b : list Qc) (hs : list hat_term) : list (Qc * (list Qc -> Qc)) :=
  map (fun h => (fst h, fun_hat a b (fst (snd h)) (snd (snd h)))) hs.
(* the function sum_k alpha_k * phi_{tau_k, i_k} *)
Definition span_eval (a b : list Qc) (hs : list hat_term) : list Qc -> Qc := lincomb (span_fun a b hs).

(* adaptive scheme, every reachable state: every function of the span of the hierarchical hats whose effective level lies in
   the index set is reproduced at EVERY point of the box ... *)
Theorem span_interp_exact bd a b s (hs : list hat_term) x :
  Inv s -> (0 <= s_lmin s)%Z -> box_ok a b -> length a = s_dim s -> in_box a b x ->
  (forall al tau i, In (al, (tau, i)) hs ->
     length tau = s_dim s /\ Forall2 (hier_idx bd (s_lmin s)) tau i /\ In (eff_level (s_lmin s) tau) (index_set s)) ->
  combi_interp bd a b (combi_scheme_adaptive s) (span_eval a b hs) x = span_eval a b hs x.
Proof.
  intros HI Hl Hbox La B H. unfold span_eval. rewrite combi_interp_lincomb. unfold lincomb.
  apply sumQ_map_ext. intros [c f] Hin. unfold span_fun in Hin. apply in_map_iff in Hin.
  destruct Hin as [[al [tau i]] [E Hin]]. cbn [fst snd] in E. injection E as <- <-. cbn [fst snd].
  destruct (H al tau i Hin) as [Lt [F Hk]].
  rewrite (hier_interp_exact bd a b s tau i x HI Hl Hbox La Lt F Hk B). reflexivity.
Qed.

(* ... and integrated exactly *)
Theorem span_integral_exact bd a b s (hs : list hat_term) :
  Inv s -> (0 <= s_lmin s)%Z -> box_ok a b -> length a = s_dim s ->
  (forall al tau i, In (al, (tau, i)) hs ->
     length tau = s_dim s /\ Forall2 (hier_idx bd (s_lmin s)) tau i /\ In (eff_level (s_lmin s) tau) (index_set s)) ->
  combi_integral bd a b (combi_scheme_adaptive s) (span_eval a b hs)
  = sumQ (map (fun h => fst h * hat_integral a b (fst (snd h)) (snd (snd h))) hs).
Proof.
  intros HI Hl Hbox La H. unfold span_eval. rewrite combi_integral_lincomb. unfold span_fun. rewrite map_map.
  apply sumQ_map_ext. intros [al [tau i]] Hin. cbn [fst snd].
  destruct (H al tau i Hin) as [Lt [F Hk]].
  rewrite (hier_integral_exact bd a b s tau i HI Hl Hbox La Lt F Hk). reflexivity.
Qed.

(* closed-form scheme of StandardCombi, every dimension S n, every 0 <= lmin <= lmax; the space is explicit:
   |max(tau, lmin)|_1 <= lmax - lmin + d * lmin *)
Theorem std_span_interp_exact bd a b n lmin lmax (hs : list hat_term) x :
  (0 <= lmin <= lmax)%Z -> box_ok a b -> length a = S n -> in_box a b x ->
  (forall al tau i, In (al, (tau, i)) hs ->
     length tau = S n /\ Forall2 (hier_idx bd lmin) tau i /\
     (sumZ (eff_level lmin tau) <= lmax - lmin + Z.of_nat (S n) * lmin)%Z) ->
  combi_interp bd a b (combi_scheme_standard (S n) lmin lmax) (span_eval a b hs) x = span_eval a b hs x.
Proof.
  intros Hl Hbox La B H. unfold span_eval. rewrite combi_interp_lincomb. unfold lincomb.
  apply sumQ_map_ext. intros [c f] Hin. unfold span_fun in Hin. apply in_map_iff in Hin.
  destruct Hin as [[al [tau i]] [E Hin]]. cbn [fst snd] in E. injection E as <- <-. cbn [fst snd].
  destruct (H al tau i Hin) as [Lt [F Hk]].
  rewrite (std_hier_interp_exact_general bd a b n lmin lmax tau i x Hl Hbox La Lt F Hk B). reflexivity.
Qed.

Theorem std_span_integral_exact bd a b n lmin lmax (hs : list hat_term) :
  (0 <= lmin <= lmax)%Z -> box_ok a b -> length a = S n ->
  (forall al tau i, In (al, (tau, i)) hs ->
     length tau = S n /\ Forall2 (hier_idx bd lmin) tau i /\
     (sumZ (eff_level lmin tau) <= lmax - lmin + Z.of_nat (S n) * lmin)%Z) ->
  combi_integral bd a b (combi_scheme_standard (S n) lmin lmax) (span_eval a b hs)
  = sumQ (map (fun h => fst h * hat_integral a b (fst (snd h)) (snd (snd h))) hs).
Proof.
  intros Hl Hbox La H. unfold span_eval. rewrite combi_integral_lincomb. unfold span_fun. rewrite map_map.
  apply sumQ_map_ext. intros [al [tau i]] Hin. cbn [fst snd].
  destruct (H al tau i Hin) as [Lt [F Hk]].
  rewrite (std_hier_integral_exact_general bd a b n lmin lmax tau i Hl Hbox La Lt F Hk). reflexivity.
Qed.

(* general (in or out of the space): the combination PROJECTS the span onto the sparse-grid space - members outside the index
   set are annihilated *)
Theorem std_span_interp_projection bd a b n lmin lmax (hs : list hat_term) x :
  (0 <= lmin <= lmax)%Z -> box_ok a b -> length a = S n -> in_box a b x ->
  (forall al tau i, In (al, (tau, i)) hs -> length tau = S n /\ Forall2 (hier_idx bd lmin) tau i) ->
  combi_interp bd a b (combi_scheme_standard (S n) lmin lmax) (span_eval a b hs) x
  = span_eval a b (filter (fun h => std_in_space n lmin lmax (fst (snd h))) hs) x.
Proof.
  intros Hl Hbox La B H. unfold span_eval. rewrite combi_interp_lincomb. unfold lincomb, span_fun. rewrite !map_map.
  cbn [fst snd]. induction hs as [|[al [tau i]] hs IH]; [reflexivity|].
  cbn [map sumQ filter fst snd].
  destruct (H al tau i (or_introl eq_refl)) as [Lt F].
  rewrite (std_hier_interp_indicator_general bd a b n lmin lmax tau i x Hl Hbox La Lt F B).
  rewrite IH by (intros al' tau' i' Hin; apply (H al' tau' i'); right; exact Hin).
  destruct (std_in_space n lmin lmax tau); cbn [map sumQ fst snd]; ring.
Qed.

(* ================= the point/weight list of the whole combination ================= *)
(* StandardCombi.get_points_and_weights: concatenation over the component grids of (point, weight * coefficient);
   applying it to f gives the combined quadrature *)
Lemma dotQ_combine_scale (f : list Qc -> Qc) c : forall ps ws,
  sumQ (map (fun pw => f (fst pw) * snd pw) (combine ps (map (fun w => w * c) ws))) = c * dotQ (map f ps) ws.
Proof.
  induction ps as [|p ps IH]; intros [|w ws]; simpl; try ring. rewrite IH. ring.
Qed.

Theorem combi_points_weights_integral bd a b cs (f : list Qc -> Qc) :
  sumQ (map (fun pw => f (fst pw) * snd pw) (combi_points_weights bd a b cs)) = combi_integral bd a b cs f.
Proof.
  unfold combi_points_weights, combi_integral. rewrite sumQ_flat_map.
  apply sumQ_map_ext. intros kv _. rewrite dotQ_combine_scale. reflexivity.
Qed.

(* no point or weight is lost in the pairing: per component grid the point list and the weight list have the same length *)
Lemma comp_points_weights_length bd a b l : length (comp_points bd a b l) = length (comp_weights bd a b l).
Proof.
  unfold comp_points, comp_weights. rewrite map_length. apply crossQ_length_eq.
  induction (zip3 a b l) as [|[[x y] z] r IH]; simpl; constructor; [apply grid1_weights1_len|exact IH].
Qed.

Theorem combi_points_weights_length bd a b cs :
  length (combi_points_weights bd a b cs) = length (flat_map (fun kv => comp_points bd a b (fst kv)) cs).
Proof.
  unfold combi_points_weights. induction cs as [|kv cs IH]; [reflexivity|]. simpl. rewrite !app_length, IH.
  rewrite combine_length, map_length, <- comp_points_weights_length. lia.
Qed.
