(* C02: exactness on the sparse-grid space for the CLOSED-FORM scheme of StandardCombi, every dimension S n and every
   0 <= lmin <= lmax, without the per-configuration checker: from Proofs/StdHier.v through the general permutation
   theorem of Proofs/SchemeClosedForm.v. The index set is explicit: a tensor hat of level tau belongs to the space iff
   |max(tau, lmin)|_1 <= lmax - lmin + d * lmin. *)
From Coq Require Import ZArith List Bool QArith Qcanon Lia Permutation.
From SG Require Import Base.QcUtil Model.CombiScheme Model.StdCombi Proofs.SchemeBasics Proofs.SchemeIE Proofs.SchemeInv
  Proofs.CombiAbstract Proofs.StdGrid Proofs.StdCombiSum Proofs.NodalExact Proofs.StdNodal Proofs.SchemeClosedForm
  Proofs.StdHier.
Import ListNotations.
Local Open Scope Z_scope.

Definition std_in_space (n : nat) (lmin lmax : Z) (tau : lv) : bool :=
  sumZ (eff_level lmin tau) <=? lmax - lmin + Z.of_nat (S n) * lmin.

Lemma init_index_set_spec n lmin lmax s k : 0 <= lmin <= lmax -> init_scheme (S n) lmax lmin = Some s ->
  (In k (index_set s) <-> length k = S n /\ Forall (fun x => lmin <= x) k /\ sumZ k <= lmax - lmin + Z.of_nat (S n) * lmin).
Proof.
  intros H Hs. unfold init_scheme in Hs.
  destruct ((lmax >=? lmin) && (lmax >=? 0) && (lmin >=? 0)); [|discriminate].
  injection Hs as <-. unfold index_set. cbn [s_active s_old]. apply init_idx_In. lia.
Qed.

Lemma mem_eff_level n lmin lmax s tau : 0 <= lmin <= lmax -> init_scheme (S n) lmax lmin = Some s -> length tau = S n ->
  mem (eff_level lmin tau) (index_set s) = std_in_space n lmin lmax tau.
Proof.
  intros H Hs Lt. destruct (eff_level_props lmin tau) as [Le Fe]. unfold std_in_space.
  destruct (Z.leb_spec (sumZ (eff_level lmin tau)) (lmax - lmin + Z.of_nat (S n) * lmin)) as [Hle|Hgt].
  - apply mem_In. apply (init_index_set_spec n lmin lmax s _ H Hs). split; [congruence|]. split; [exact Fe|exact Hle].
  - apply mem_false. intro Hin. apply (init_index_set_spec n lmin lmax s _ H Hs) in Hin. lia.
Qed.

Lemma std_state_general n lmin lmax : 0 <= lmin <= lmax ->
  exists s, Inv s /\ 0 <= s_lmin s /\ s_dim s = S n /\ s_lmin s = lmin /\ init_scheme (S n) lmax lmin = Some s /\
            Permutation (combi_scheme_standard (S n) lmin lmax) (combi_scheme_adaptive s).
Proof.
  intro H. destruct (std_perm_check_general n lmin lmax H) as [s [Hs Hp]].
  pose proof (init_inv n lmax lmin s Hs) as HI.
  destruct (init_scheme_fields (S n) lmax lmin s Hs) as [Ed Em].
  exists s. split; [exact HI|]. split; [rewrite Em; lia|]. split; [exact Ed|]. split; [exact Em|]. split; [exact Hs|exact Hp].
Qed.

Theorem std_hier_interp_indicator_general bd a b n lmin lmax tau i x :
  0 <= lmin <= lmax -> box_ok a b -> length a = S n -> length tau = S n ->
  Forall2 (hier_idx bd lmin) tau i -> in_box a b x ->
  combi_interp bd a b (combi_scheme_standard (S n) lmin lmax) (fun_hat a b tau i) x
  = if std_in_space n lmin lmax tau then fun_hat a b tau i x else Q2Qc 0.
Proof.
  intros H Hbox La Lt F B. destruct (std_state_general n lmin lmax H) as [s [HI [Hl [Ed [Em [Hs Hp]]]]]].
  rewrite <- (mem_eff_level n lmin lmax s tau H Hs Lt). unfold combi_interp.
  rewrite (sumQ_Permutation _ _ (Permutation_map (fun kv => (qc_of_Z (snd kv) * comp_interp bd a b (fst kv) (fun_hat a b tau i) x)%Qc) Hp)).
  rewrite <- Em. rewrite <- Em in F.
  apply (hier_interp_indicator bd a b s tau i x HI Hl Hbox); try congruence; assumption.
Qed.

Theorem std_hier_interp_exact_general bd a b n lmin lmax tau i x :
  0 <= lmin <= lmax -> box_ok a b -> length a = S n -> length tau = S n ->
  Forall2 (hier_idx bd lmin) tau i -> sumZ (eff_level lmin tau) <= lmax - lmin + Z.of_nat (S n) * lmin -> in_box a b x ->
  combi_interp bd a b (combi_scheme_standard (S n) lmin lmax) (fun_hat a b tau i) x = fun_hat a b tau i x.
Proof.
  intros H Hbox La Lt F Hs B. rewrite (std_hier_interp_indicator_general bd a b n lmin lmax tau i x H Hbox La Lt F B).
  unfold std_in_space. apply Z.leb_le in Hs. rewrite Hs. reflexivity.
Qed.

Theorem std_hier_integral_indicator_general bd a b n lmin lmax tau i :
  0 <= lmin <= lmax -> box_ok a b -> length a = S n -> length tau = S n ->
  Forall2 (hier_idx bd lmin) tau i ->
  combi_integral bd a b (combi_scheme_standard (S n) lmin lmax) (fun_hat a b tau i)
  = if std_in_space n lmin lmax tau then hat_integral a b tau i else Q2Qc 0.
Proof.
  intros H Hbox La Lt F. destruct (std_state_general n lmin lmax H) as [s [HI [Hl [Ed [Em [Hs Hp]]]]]].
  rewrite <- (mem_eff_level n lmin lmax s tau H Hs Lt). unfold combi_integral.
  rewrite (sumQ_Permutation _ _ (Permutation_map (fun kv => (qc_of_Z (snd kv) * comp_integral bd a b (fst kv) (fun_hat a b tau i))%Qc) Hp)).
  rewrite <- Em. rewrite <- Em in F.
  apply (hier_integral_indicator bd a b s tau i HI Hl Hbox); try congruence; assumption.
Qed.

Theorem std_hier_integral_exact_general bd a b n lmin lmax tau i :
  0 <= lmin <= lmax -> box_ok a b -> length a = S n -> length tau = S n ->
  Forall2 (hier_idx bd lmin) tau i -> sumZ (eff_level lmin tau) <= lmax - lmin + Z.of_nat (S n) * lmin ->
  combi_integral bd a b (combi_scheme_standard (S n) lmin lmax) (fun_hat a b tau i) = hat_integral a b tau i.
Proof.
  intros H Hbox La Lt F Hs. rewrite (std_hier_integral_indicator_general bd a b n lmin lmax tau i H Hbox La Lt F).
  unfold std_in_space. apply Z.leb_le in Hs. rewrite Hs. reflexivity.
Qed.

Theorem std_hier_integral_exact_interior_general bd a b n lmin lmax tau i :
  0 <= lmin <= lmax -> box_ok a b -> length a = S n -> length tau = S n ->
  Forall2 (hint_idx lmin) tau i -> sumZ (eff_level lmin tau) <= lmax - lmin + Z.of_nat (S n) * lmin ->
  combi_integral bd a b (combi_scheme_standard (S n) lmin lmax) (fun_hat a b tau i) = hat_volume a b tau.
Proof.
  intros H Hbox La Lt F Hs.
  rewrite (std_hier_integral_exact_general bd a b n lmin lmax tau i H Hbox La Lt (Forall2_hint_hier bd _ tau i F) Hs).
  apply (hat_integral_volume lmin); [exact Hbox|congruence|exact F].
Qed.
