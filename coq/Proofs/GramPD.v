(* The 1D system matrix of Model/Gram.v on EVERY strictly increasing grid:
   x^T (G + lambda I) x = sum over the cells h_k/3 (x_k^2 + x_k x_{k+1} + x_{k+1}^2) + lambda |x|^2  > 0 for x <> 0
   (values at the two boundary nodes are 0: grids without boundary points). Symmetry and the mass-lumped form. *)
From Coq Require Import ZArith List QArith Qcanon Bool Lia Lqa.
From SG Require Import Base.QcUtil Base.PolyInt Model.Gram Proofs.GramHat Proofs.GramEntries.
Import ListNotations.
Open Scope Qc_scope.

Definition quad (G : list (list Qc)) (v : list Qc) : Qc := dotQ v (matvec G v).

(* sum over the cells of the stripe; vs holds one value per stripe coordinate (boundary nodes included) *)
Fixpoint cellform (xs vs : list Qc) : Qc :=
  match xs, vs with
  | x0 :: xs', v0 :: vs' =>
      match xs', vs' with
      | x1 :: _, v1 :: _ => (x1 - x0) / Qc3 * (v0 * v0 + v0 * v1 + v1 * v1) + cellform xs' vs'
      | _, _ => 0
      end
  | _, _ => 0
  end.

Fixpoint strictly_inc (xs : list Qc) : Prop :=
  match xs with
  | a :: r => match r with b :: _ => a < b /\ strictly_inc r | [] => True end
  | [] => True
  end.

(* ------------------------------------------------------------------ list algebra *)
Lemma dotQ_comm a b : dotQ a b = dotQ b a.
Proof. revert b; induction a as [|x a IH]; intros [|y b]; simpl; try reflexivity. rewrite IH. ring. Qed.

Lemma dotQ_nil_r a : dotQ a [] = 0.
Proof. destruct a; reflexivity. Qed.

Lemma map2_length {A B C} (f : A -> B -> C) a b : length b = length a -> length (map2 f a b) = length a.
Proof. revert b; induction a as [|x a IH]; intros [|y b] H; simpl in *; try discriminate; [reflexivity|]. rewrite IH; [reflexivity|lia]. Qed.

Lemma sym_matrix_length {A} (e : A -> A -> Qc) lam pts : length (sym_matrix e lam pts) = length pts.
Proof.
  induction pts as [|t ts IH]; simpl; [reflexivity|]. f_equal.
  rewrite map2_length; rewrite map_length; [reflexivity | exact IH].
Qed.

Lemma matvec_map2_cons r G a v :
  matvec (map2 cons r G) (a :: v) = map2 (fun ri row => ri * a + dotQ row v) r G.
Proof. revert G; induction r as [|x r IH]; intros [|row G]; simpl; try reflexivity. f_equal. apply IH. Qed.

Lemma dotQ_map2_lin w r G a v : length r = length w -> length G = length w ->
  dotQ w (map2 (fun ri row => ri * a + dotQ row v) r G) = a * dotQ w r + dotQ w (matvec G v).
Proof.
  revert r G; induction w as [|y w IH]; intros [|x r] [|row G] H1 H2; simpl in *; try discriminate; [ring|].
  rewrite IH by lia. unfold matvec. ring.
Qed.

(* one step of the double loop: first point against the rest *)
Lemma quad_step {A} (e : A -> A -> Qc) lam t ts a v : length v = length ts ->
  quad (sym_matrix e lam (t :: ts)) (a :: v)
  = (e t t + lam) * (a * a) + (1 + 1) * a * dotQ (map (e t) ts) v + quad (sym_matrix e lam ts) v.
Proof.
  intro H. unfold quad. cbn [sym_matrix]. unfold matvec at 1. cbn [map dotQ]. fold (matvec (map2 cons (map (e t) ts) (sym_matrix e lam ts)) (a :: v)).
  rewrite matvec_map2_cons.
  rewrite dotQ_map2_lin; [| rewrite map_length; lia | rewrite sym_matrix_length; lia].
  rewrite (dotQ_comm v (map (e t) ts)). ring.
Qed.

(* ------------------------------------------------------------------ symmetry (by construction of the double loop) *)
Fixpoint col0 (G : list (list Qc)) : list Qc := match G with [] => [] | row :: G' => hd 0 row :: col0 G' end.
Fixpoint tails (G : list (list Qc)) : list (list Qc) := match G with [] => [] | row :: G' => tl row :: tails G' end.

(* a square matrix given as rows is symmetric iff first row = first column and the remaining block is symmetric *)
Fixpoint symmetricM (n : nat) (G : list (list Qc)) : Prop :=
  match n with
  | O => True
  | S k => match G with
           | [] => True
           | row :: G' => tl row = col0 G' /\ symmetricM k (tails G')
           end
  end.

Lemma col0_map2_cons r G : length G = length r -> col0 (map2 cons r G) = r.
Proof. revert G; induction r as [|x r IH]; intros [|row G] H; simpl in *; try discriminate; [reflexivity|]. rewrite IH by lia. reflexivity. Qed.
Lemma tails_map2_cons r G : length G = length r -> tails (map2 cons r G) = G.
Proof. revert G; induction r as [|x r IH]; intros [|row G] H; simpl in *; try discriminate; [reflexivity|]. rewrite IH by lia. reflexivity. Qed.

Theorem sym_matrix_symmetric {A} (e : A -> A -> Qc) lam pts : symmetricM (length pts) (sym_matrix e lam pts).
Proof.
  induction pts as [|t ts IH]; [exact I|]. cbn [length symmetricM sym_matrix tl].
  rewrite col0_map2_cons by (rewrite sym_matrix_length, map_length; reflexivity).
  rewrite tails_map2_cons by (rewrite sym_matrix_length, map_length; reflexivity).
  split; [reflexivity | exact IH].
Qed.

(* ------------------------------------------------------------------ mass lumping = diagonal *)
Fixpoint diagM (n : nat) (G : list (list Qc)) : list Qc :=
  match n with
  | O => []
  | S k => match G with [] => [] | row :: G' => hd 0 row :: diagM k (tails G') end
  end.

Theorem lumped_is_diagonal_gen {A} (e : A -> A -> Qc) lam pts :
  diagM (length pts) (sym_matrix e lam pts) = map (fun t => e t t + lam) pts.
Proof.
  induction pts as [|t ts IH]; [reflexivity|]. cbn [length sym_matrix diagM hd map]. f_equal.
  rewrite tails_map2_cons by (rewrite sym_matrix_length, map_length; reflexivity). exact IH.
Qed.

(* ------------------------------------------------------------------ entries of the 1D matrix on a sorted stripe *)
Definition pts1 (xs : list Qc) : list (list hatdom) := map (fun t => [t]) (windows xs).

Lemma Rval1 t u : Rval [t] [u] = if in_dom t u then R1 t u else 0.
Proof. unfold Rval. cbn [forallb2 map2 prodQ]. rewrite andb_true_r. destruct (in_dom t u); ring. Qed.

Lemma windows_p_gt y0 ys : strictly_inc (y0 :: ys) -> forall u, In u (windows (y0 :: ys)) -> y0 < h_p u.
Proof.
  revert y0; induction ys as [|y1 ys IH]; intros y0 Hs u Hu; [destruct Hu|].
  destruct ys as [|y2 r]; [destruct Hu|].
  cbn [windows] in Hu. destruct Hs as [H01 Hs]. destruct Hu as [Hu|Hu].
  - subst u. exact H01.
  - apply Qclt_trans with y1; [exact H01|]. apply IH; assumption.
Qed.

Lemma windows_proper xs : strictly_inc xs -> forall u, In u (windows xs) -> proper u.
Proof.
  induction xs as [|x0 xs IH]; intros Hs u Hu; [destruct Hu|].
  destruct xs as [|x1 [|x2 r]]; try (destruct Hu; fail).
  cbn [windows] in Hu. destruct Hs as [H01 Hs]. destruct Hu as [Hu|Hu].
  - subst u. split; [exact H01 | apply Hs].
  - apply IH; assumption.
Qed.

Lemma dotQ_zero_row (f : hatdom -> Qc) us v : (forall u, In u us -> f u = 0) -> dotQ (map f us) v = 0.
Proof.
  revert v; induction us as [|u us IH]; intros v H; [reflexivity|]. destruct v as [|y v]; [reflexivity|].
  cbn [map dotQ]. rewrite H by (left; reflexivity). rewrite IH by (intros u' Hu'; apply H; right; exact Hu'). ring.
Qed.

(* first interior point against all later ones: only the direct neighbour contributes, with (x2 - x1)/6 *)
Lemma first_row x0 x1 x2 rest v : strictly_inc (x0 :: x1 :: x2 :: rest) ->
  dotQ (map (Rval [mkH x0 x1 x2]) (pts1 (x1 :: x2 :: rest))) v
  = match rest, v with x3 :: _, v0 :: _ => (x2 - x1) / Qc6 * v0 | _, _ => 0 end.
Proof.
  intros [H01 [H12 Hs]]. unfold pts1. destruct rest as [|x3 rest]; [reflexivity|].
  cbn [windows map]. destruct v as [|v0 v]; [reflexivity|]. cbn [dotQ].
  rewrite map_map.
  rewrite (dotQ_zero_row (fun u => Rval [mkH x0 x1 x2] [u])).
  - rewrite Rval1. unfold in_dom; cbn [h_lo h_p h_hi].
    assert (A : Qc_leb x0 x2 = true) by (apply Qc_leb_le; qc_order).
    assert (B : Qc_leb x2 x2 = true) by (apply Qc_leb_le; apply Qcle_refl).
    rewrite A, B. cbn [andb]. rewrite R1_distinct by (cbn [h_p]; apply Qc_lt_neq in H12; intro E; apply H12; symmetry; exact E).
    cbn [h_p]. rewrite Qc_abs_neg_eq by qc_order. replace (- (x1 - x2)) with (x2 - x1) by ring. ring.
  - intros u Hu. rewrite Rval1. pose proof (windows_p_gt x2 (x3 :: rest) Hs u Hu) as Hgt.
    unfold in_dom; cbn [h_lo h_p h_hi].
    assert (B : Qc_leb (h_p u) x2 = false) by (apply Qc_leb_false; exact Hgt).
    rewrite B, andb_false_r. reflexivity.
Qed.

Lemma diag_entry x0 x1 x2 : x0 < x1 -> x1 < x2 -> Rval [mkH x0 x1 x2] [mkH x0 x1 x2] = (x2 - x0) / Qc3.
Proof.
  intros H01 H12. rewrite Rval1. unfold in_dom; cbn [h_lo h_p h_hi].
  assert (A : Qc_leb x0 x1 = true) by (apply Qc_leb_le; qc_order).
  assert (B : Qc_leb x1 x2 = true) by (apply Qc_leb_le; qc_order).
  rewrite A, B. cbn [andb]. rewrite R1_same by (split; assumption). reflexivity.
Qed.

Lemma cellform_head y0 y1 r a w0 w' :
  cellform (y0 :: y1 :: r) (a :: w0 :: w') = cellform (y0 :: y1 :: r) (0 :: w0 :: w') + (y1 - y0) / Qc3 * (a * a + a * w0).
Proof. cbn [cellform]. ring. Qed.

(* ------------------------------------------------------------------ the quadratic form as a sum over the cells *)
Theorem quad_is_cellform xs : strictly_inc xs -> forall v lam, length v = length (windows xs) ->
  quad (R_matrix_nonuniform (pts1 xs) lam) v = cellform xs (0 :: v ++ [0]) + lam * dotQ v v.
Proof.
  induction xs as [|x0 xs IH]; intros Hs v lam Hl.
  - destruct v; [|discriminate]. cbn. ring.
  - destruct xs as [|x1 [|x2 rest]].
    + destruct v; [|discriminate]. cbn. ring.
    + destruct v; [|discriminate]. cbn. ring.
    + destruct v as [|a v]; [discriminate|].
      change (windows (x0 :: x1 :: x2 :: rest)) with (mkH x0 x1 x2 :: windows (x1 :: x2 :: rest)) in Hl.
      cbn [length] in Hl. injection Hl as Hl.
      unfold R_matrix_nonuniform, pts1.
      change (windows (x0 :: x1 :: x2 :: rest)) with (mkH x0 x1 x2 :: windows (x1 :: x2 :: rest)). cbn [map].
      rewrite quad_step by (rewrite map_length; exact Hl).
      fold (pts1 (x1 :: x2 :: rest)).
      assert (Hs' : strictly_inc (x1 :: x2 :: rest)) by apply Hs.
      pose proof (IH Hs' v lam Hl) as IHv. unfold R_matrix_nonuniform in IHv. rewrite IHv.
      rewrite first_row by exact Hs.
      destruct Hs as [H01 [H12 Hs2]].
      rewrite diag_entry by assumption.
      cbn [app]. 
      destruct rest as [|x3 rest].
      * destruct v; [|discriminate]. cbn [app cellform dotQ]. rewrite Qc3_eq. field. intro E; apply Qc_eq_Qeq in E; discriminate.
      * destruct v as [|v0 v]; [discriminate|].
        change ((a :: v0 :: v) ++ [0]) with (a :: v0 :: (v ++ [0])).
        change ((v0 :: v) ++ [0]) with (v0 :: (v ++ [0])).
        change (cellform (x0 :: x1 :: x2 :: x3 :: rest) (0 :: a :: v0 :: v ++ [0]))
          with ((x1 - x0) / Qc3 * (0 * 0 + 0 * a + a * a) + cellform (x1 :: x2 :: x3 :: rest) (a :: v0 :: v ++ [0])).
        rewrite (cellform_head x1 x2 (x3 :: rest) a v0 (v ++ [0])).
        cbn [dotQ]. rewrite Qc3_eq, Qc6_eq. field. split; intro E; apply Qc_eq_Qeq in E; discriminate.
Qed.

(* ------------------------------------------------------------------ positivity *)
Lemma sq_nonneg (x : Qc) : 0 <= x * x.
Proof. qc_order. nra. Qed.
Lemma sq_pos (x : Qc) : x <> 0 -> 0 < x * x.
Proof. intro H. destruct (Qc_dec x 0) as [[L|L]|L]; [| |contradiction]; qc_order; nra. Qed.

Lemma third_pos h : 0 < h -> 0 < h / Qc3.
Proof. intro H. apply div_pos; [|exact H]. rewrite Qc3_eq. qc_order. Qed.

Lemma form_nonneg (h a b : Qc) : 0 < h -> 0 <= h / Qc3 * (a * a + a * b + b * b).
Proof.
  intro Hh. pose proof (sq_nonneg (a + (1 + 1) * b)) as H1. pose proof (sq_nonneg a) as H2.
  assert (P : 0 <= a * a + a * b + b * b) by qc_order.
  replace 0 with (0 * (a * a + a * b + b * b)) by ring.
  apply Qcmult_le_compat_r; [apply Qclt_le_weak; apply third_pos; exact Hh | exact P].
Qed.

Lemma form_pos (h a b : Qc) : 0 < h -> (a <> 0 \/ b <> 0) -> 0 < h / Qc3 * (a * a + a * b + b * b).
Proof.
  intros Hh Hab.
  assert (P : 0 < a * a + a * b + b * b).
  { pose proof (sq_nonneg (a + (1 + 1) * b)) as H1. pose proof (sq_nonneg ((1 + 1) * a + b)) as H2.
    destruct Hab as [Ha|Hb].
    - pose proof (sq_pos a Ha) as H3. qc_order.
    - pose proof (sq_pos b Hb) as H3. qc_order. }
  replace 0 with (0 * (a * a + a * b + b * b)) by ring.
  apply Qcmult_lt_compat_r; [exact P | apply third_pos; exact Hh].
Qed.

Lemma cellform_cons2 x0 x1 xs w0 w1 w :
  cellform (x0 :: x1 :: xs) (w0 :: w1 :: w)
  = (x1 - x0) / Qc3 * (w0 * w0 + w0 * w1 + w1 * w1) + cellform (x1 :: xs) (w1 :: w).
Proof. reflexivity. Qed.

Lemma cellform_nonneg xs : strictly_inc xs -> forall w, 0 <= cellform xs w.
Proof.
  induction xs as [|x0 xs IH]; intros Hs w; [apply Qcle_refl|].
  destruct w as [|w0 w]; [apply Qcle_refl|].
  destruct xs as [|x1 xs]; [apply Qcle_refl|]. destruct w as [|w1 w]; [apply Qcle_refl|].
  rewrite cellform_cons2. destruct Hs as [H01 Hs].
  pose proof (form_nonneg (x1 - x0) w0 w1 (sub_pos _ _ H01)) as A.
  pose proof (IH Hs (w1 :: w)) as B. qc_order.
Qed.

Lemma cellform_pos xs : strictly_inc xs -> forall w, length w = length xs -> (2 <= length xs)%nat ->
  Exists (fun x => x <> 0) w -> 0 < cellform xs w.
Proof.
  induction xs as [|x0 xs IH]; intros Hs w Hl H2 Hex; [simpl in H2; lia|].
  destruct w as [|w0 w]; [discriminate|].
  destruct xs as [|x1 xs]; [simpl in H2; lia|]. destruct w as [|w1 w]; [discriminate|].
  rewrite cellform_cons2. destruct Hs as [H01 Hs].
  destruct (Qc_eq_dec w0 0) as [E0|N0].
  - destruct (Qc_eq_dec w1 0) as [E1|N1].
    + (* both zero: the non-zero entry is further right *)
      apply Exists_cons in Hex. destruct Hex as [Hh|Ht]; [contradiction|].
      apply Exists_cons in Ht. destruct Ht as [Hh|Ht']; [contradiction|].
      destruct xs as [|x2 xs]; [destruct w; [inversion Ht' | discriminate]|].
      assert (P : 0 < cellform (x1 :: x2 :: xs) (w1 :: w)).
      { apply IH; [exact Hs | simpl in *; lia | simpl; lia | right; exact Ht']. }
      pose proof (form_nonneg (x1 - x0) w0 w1 (sub_pos _ _ H01)) as A. qc_order.
    + pose proof (form_pos (x1 - x0) w0 w1 (sub_pos _ _ H01) (or_intror N1)) as A.
      pose proof (cellform_nonneg (x1 :: xs) Hs (w1 :: w)) as B. qc_order.
  - pose proof (form_pos (x1 - x0) w0 w1 (sub_pos _ _ H01) (or_introl N0)) as A.
    pose proof (cellform_nonneg (x1 :: xs) Hs (w1 :: w)) as B. qc_order.
Qed.

Lemma dotQ_self_nonneg v : 0 <= dotQ v v.
Proof. induction v as [|x v IH]; [apply Qcle_refl|]. cbn [dotQ]. pose proof (sq_nonneg x). qc_order. Qed.

Lemma windows_length xs : length (windows xs) = (length xs - 2)%nat.
Proof.
  induction xs as [|x0 xs IH]; [reflexivity|]. destruct xs as [|x1 [|x2 r]]; try reflexivity.
  change (windows (x0 :: x1 :: x2 :: r)) with (mkH x0 x1 x2 :: windows (x1 :: x2 :: r)).
  cbn [length] in *. rewrite IH. lia.
Qed.

(* positive definiteness of the 1D system matrix on EVERY strictly increasing stripe, every lambda >= 0 *)
Theorem gram_1d_positive_definite xs v lam :
  strictly_inc xs -> length v = length (windows xs) -> 0 <= lam -> Exists (fun x => x <> 0) v ->
  0 < quad (R_matrix_nonuniform (pts1 xs) lam) v.
Proof.
  intros Hs Hl Hlam Hex. rewrite quad_is_cellform by assumption.
  assert (L2 : (2 <= length xs)%nat).
  { rewrite windows_length in Hl. destruct v; [inversion Hex|]. simpl in Hl. lia. }
  assert (P : 0 < cellform xs (0 :: v ++ [0])).
  { apply cellform_pos; [exact Hs | | exact L2 |].
    - cbn [length]. rewrite app_length. cbn [length]. rewrite Hl, windows_length. lia.
    - right. apply Exists_app. left. exact Hex. }
  pose proof (dotQ_self_nonneg v) as D.
  assert (Q : 0 <= lam * dotQ v v).
  { replace 0 with (0 * dotQ v v) by ring. apply Qcmult_le_compat_r; assumption. }
  set (c := cellform xs (0 :: v ++ [0])) in *. set (d := lam * dotQ v v) in *.
  clearbody c d. clear - P Q. qc_order.
Qed.

(* stripes of the unit interval: the coded special case for a single inner point changes nothing *)
Lemma stripe_hats_windows xs : hd 0 xs = 0 -> last xs 0 = 1 -> stripe_hats xs = windows xs.
Proof.
  intros H0 H1. destruct xs as [|a [|p [|c [|d r]]]]; try reflexivity.
  cbn in H0, H1. subst. reflexivity.
Qed.
